(* C02_Base.v — plumbing, tactics, lock invariant of of the fine-grained semaphore model (C02_Model.v), for every
   interleaving (induction over `reachable`), any number of threads and vCPUs. *)
From Coq Require Import ZArith List Bool Arith Lia.
From PV Require Import Base.U64 C02.C02_Model.
Import ListNotations.
Local Open Scope Z_scope.

(* ---------------------------------------------------------------------------------------- *)
(* reachability *)
Inductive reachable (s0 : state) : state -> Prop :=
| r_init : reachable s0 s0
| r_step : forall s l s', reachable s0 s -> step s l = Some s' -> reachable s0 s'.

Lemma run_reachable s0 ls s : run s0 ls = Some s -> reachable s0 s.
Proof.
  revert s0 s. induction ls as [|l r IH]; intros s0 s H; simpl in H.
  - inversion H; constructor.
  - destruct (step s0 l) eqn:E; [|discriminate].
    specialize (IH _ _ H). clear H.
    induction IH. + econstructor; [constructor|eauto]. + econstructor; eauto.
Qed.

(* ---------------------------------------------------------------------------------------- *)
(* list / state plumbing *)
Lemma length_upd {A} (l : list A) i v : length (upd_nth l i v) = length l.
Proof. revert i; induction l; destruct i; simpl; auto. Qed.
Lemma nth_upd_same {A} (l : list A) i v d : (i < length l)%nat -> nth i (upd_nth l i v) d = v.
Proof. revert i; induction l; destruct i; simpl; intros; try lia; auto. apply IHl; lia. Qed.
Lemma nth_upd_other {A} (l : list A) i j v d : i <> j -> nth j (upd_nth l i v) d = nth j l d.
Proof. revert i j; induction l; destruct i, j; simpl; intros; try congruence; auto. Qed.
Lemma upd_nth_oob {A} (l : list A) i v : (length l <= i)%nat -> upd_nth l i v = l.
Proof. revert i; induction l; destruct i; simpl; intros; try lia; auto. f_equal. apply IHl; lia. Qed.

Definition nthreads (s : state) : nat := length (threads s).

Lemma getth_modth_same s x f : (x < nthreads s)%nat -> getth (modth s x f) x = f (getth s x).
Proof. intros. unfold getth, modth, setth; simpl. apply nth_upd_same; auto. Qed.
Lemma getth_modth_other s x y f : x <> y -> getth (modth s x f) y = getth s y.
Proof. intros. unfold getth, modth, setth; simpl. apply nth_upd_other; auto. Qed.
Lemma getth_modth_frame {A} (P : thread -> A) s x y f :
  (forall th, P (f th) = P th) -> P (getth (modth s x f) y) = P (getth s y).
Proof.
  intros H. destruct (Nat.eq_dec x y) as [->|N].
  - destruct (lt_dec y (nthreads s)).
    + rewrite getth_modth_same; auto.
    + unfold getth, modth, setth; simpl. rewrite upd_nth_oob; auto. unfold nthreads in *; lia.
  - rewrite getth_modth_other; auto.
Qed.
Lemma nthreads_modth s x f : nthreads (modth s x f) = nthreads s.
Proof. unfold nthreads, modth, setth; simpl. apply length_upd. Qed.
Lemma now_modth s x f : now (modth s x f) = now s. Proof. reflexivity. Qed.
Lemma now_setth s x th : now (setth s x th) = now s. Proof. reflexivity. Qed.
Lemma now_setpc s x p : now (setpc s x p) = now s. Proof. reflexivity. Qed.
Lemma now_setv s v p : now (setv s v p) = now s. Proof. reflexivity. Qed.
Lemma now_set_now s v : now (set_now s v) = v. Proof. reflexivity. Qed.
Lemma now_set_count s v : now (set_count s v) = now s. Proof. reflexivity. Qed.
Lemma now_set_splock s v : now (set_splock s v) = now s. Proof. reflexivity. Qed.
Lemma now_set_qlock s v : now (set_qlock s v) = now s. Proof. reflexivity. Qed.
Lemma now_set_queue s v : now (set_queue s v) = now s. Proof. reflexivity. Qed.
Lemma now_set_vcpus s v : now (set_vcpus s v) = now s. Proof. reflexivity. Qed.
Lemma now_set_gsig s v : now (set_gsig s v) = now s. Proof. reflexivity. Qed.
Lemma now_set_gret0 s v : now (set_gret0 s v) = now s. Proof. reflexivity. Qed.
Lemma now_set_grets s v : now (set_grets s v) = now s. Proof. reflexivity. Qed.
Lemma now_set_gcrash s v : now (set_gcrash s v) = now s. Proof. reflexivity. Qed.
Lemma now_set_grefail s v : now (set_grefail s v) = now s. Proof. reflexivity. Qed.
Lemma now_set_gwakes s v : now (set_gwakes s v) = now s. Proof. reflexivity. Qed.
Lemma m_count_modth s x f : m_count (modth s x f) = m_count s. Proof. reflexivity. Qed.
Lemma m_count_setth s x th : m_count (setth s x th) = m_count s. Proof. reflexivity. Qed.
Lemma m_count_setpc s x p : m_count (setpc s x p) = m_count s. Proof. reflexivity. Qed.
Lemma m_count_setv s v p : m_count (setv s v p) = m_count s. Proof. reflexivity. Qed.
Lemma m_count_set_now s v : m_count (set_now s v) = m_count s. Proof. reflexivity. Qed.
Lemma m_count_set_count s v : m_count (set_count s v) = v. Proof. reflexivity. Qed.
Lemma m_count_set_splock s v : m_count (set_splock s v) = m_count s. Proof. reflexivity. Qed.
Lemma m_count_set_qlock s v : m_count (set_qlock s v) = m_count s. Proof. reflexivity. Qed.
Lemma m_count_set_queue s v : m_count (set_queue s v) = m_count s. Proof. reflexivity. Qed.
Lemma m_count_set_vcpus s v : m_count (set_vcpus s v) = m_count s. Proof. reflexivity. Qed.
Lemma m_count_set_gsig s v : m_count (set_gsig s v) = m_count s. Proof. reflexivity. Qed.
Lemma m_count_set_gret0 s v : m_count (set_gret0 s v) = m_count s. Proof. reflexivity. Qed.
Lemma m_count_set_grets s v : m_count (set_grets s v) = m_count s. Proof. reflexivity. Qed.
Lemma m_count_set_gcrash s v : m_count (set_gcrash s v) = m_count s. Proof. reflexivity. Qed.
Lemma m_count_set_grefail s v : m_count (set_grefail s v) = m_count s. Proof. reflexivity. Qed.
Lemma m_count_set_gwakes s v : m_count (set_gwakes s v) = m_count s. Proof. reflexivity. Qed.
Lemma ooo_modth s x f : ooo (modth s x f) = ooo s. Proof. reflexivity. Qed.
Lemma ooo_setth s x th : ooo (setth s x th) = ooo s. Proof. reflexivity. Qed.
Lemma ooo_setpc s x p : ooo (setpc s x p) = ooo s. Proof. reflexivity. Qed.
Lemma ooo_setv s v p : ooo (setv s v p) = ooo s. Proof. reflexivity. Qed.
Lemma ooo_set_now s v : ooo (set_now s v) = ooo s. Proof. reflexivity. Qed.
Lemma ooo_set_count s v : ooo (set_count s v) = ooo s. Proof. reflexivity. Qed.
Lemma ooo_set_splock s v : ooo (set_splock s v) = ooo s. Proof. reflexivity. Qed.
Lemma ooo_set_qlock s v : ooo (set_qlock s v) = ooo s. Proof. reflexivity. Qed.
Lemma ooo_set_queue s v : ooo (set_queue s v) = ooo s. Proof. reflexivity. Qed.
Lemma ooo_set_vcpus s v : ooo (set_vcpus s v) = ooo s. Proof. reflexivity. Qed.
Lemma ooo_set_gsig s v : ooo (set_gsig s v) = ooo s. Proof. reflexivity. Qed.
Lemma ooo_set_gret0 s v : ooo (set_gret0 s v) = ooo s. Proof. reflexivity. Qed.
Lemma ooo_set_grets s v : ooo (set_grets s v) = ooo s. Proof. reflexivity. Qed.
Lemma ooo_set_gcrash s v : ooo (set_gcrash s v) = ooo s. Proof. reflexivity. Qed.
Lemma ooo_set_grefail s v : ooo (set_grefail s v) = ooo s. Proof. reflexivity. Qed.
Lemma ooo_set_gwakes s v : ooo (set_gwakes s v) = ooo s. Proof. reflexivity. Qed.
Lemma splock_modth s x f : splock (modth s x f) = splock s. Proof. reflexivity. Qed.
Lemma splock_setth s x th : splock (setth s x th) = splock s. Proof. reflexivity. Qed.
Lemma splock_setpc s x p : splock (setpc s x p) = splock s. Proof. reflexivity. Qed.
Lemma splock_setv s v p : splock (setv s v p) = splock s. Proof. reflexivity. Qed.
Lemma splock_set_now s v : splock (set_now s v) = splock s. Proof. reflexivity. Qed.
Lemma splock_set_count s v : splock (set_count s v) = splock s. Proof. reflexivity. Qed.
Lemma splock_set_splock s v : splock (set_splock s v) = v. Proof. reflexivity. Qed.
Lemma splock_set_qlock s v : splock (set_qlock s v) = splock s. Proof. reflexivity. Qed.
Lemma splock_set_queue s v : splock (set_queue s v) = splock s. Proof. reflexivity. Qed.
Lemma splock_set_vcpus s v : splock (set_vcpus s v) = splock s. Proof. reflexivity. Qed.
Lemma splock_set_gsig s v : splock (set_gsig s v) = splock s. Proof. reflexivity. Qed.
Lemma splock_set_gret0 s v : splock (set_gret0 s v) = splock s. Proof. reflexivity. Qed.
Lemma splock_set_grets s v : splock (set_grets s v) = splock s. Proof. reflexivity. Qed.
Lemma splock_set_gcrash s v : splock (set_gcrash s v) = splock s. Proof. reflexivity. Qed.
Lemma splock_set_grefail s v : splock (set_grefail s v) = splock s. Proof. reflexivity. Qed.
Lemma splock_set_gwakes s v : splock (set_gwakes s v) = splock s. Proof. reflexivity. Qed.
Lemma qlock_modth s x f : qlock (modth s x f) = qlock s. Proof. reflexivity. Qed.
Lemma qlock_setth s x th : qlock (setth s x th) = qlock s. Proof. reflexivity. Qed.
Lemma qlock_setpc s x p : qlock (setpc s x p) = qlock s. Proof. reflexivity. Qed.
Lemma qlock_setv s v p : qlock (setv s v p) = qlock s. Proof. reflexivity. Qed.
Lemma qlock_set_now s v : qlock (set_now s v) = qlock s. Proof. reflexivity. Qed.
Lemma qlock_set_count s v : qlock (set_count s v) = qlock s. Proof. reflexivity. Qed.
Lemma qlock_set_splock s v : qlock (set_splock s v) = qlock s. Proof. reflexivity. Qed.
Lemma qlock_set_qlock s v : qlock (set_qlock s v) = v. Proof. reflexivity. Qed.
Lemma qlock_set_queue s v : qlock (set_queue s v) = qlock s. Proof. reflexivity. Qed.
Lemma qlock_set_vcpus s v : qlock (set_vcpus s v) = qlock s. Proof. reflexivity. Qed.
Lemma qlock_set_gsig s v : qlock (set_gsig s v) = qlock s. Proof. reflexivity. Qed.
Lemma qlock_set_gret0 s v : qlock (set_gret0 s v) = qlock s. Proof. reflexivity. Qed.
Lemma qlock_set_grets s v : qlock (set_grets s v) = qlock s. Proof. reflexivity. Qed.
Lemma qlock_set_gcrash s v : qlock (set_gcrash s v) = qlock s. Proof. reflexivity. Qed.
Lemma qlock_set_grefail s v : qlock (set_grefail s v) = qlock s. Proof. reflexivity. Qed.
Lemma qlock_set_gwakes s v : qlock (set_gwakes s v) = qlock s. Proof. reflexivity. Qed.
Lemma queue_modth s x f : queue (modth s x f) = queue s. Proof. reflexivity. Qed.
Lemma queue_setth s x th : queue (setth s x th) = queue s. Proof. reflexivity. Qed.
Lemma queue_setpc s x p : queue (setpc s x p) = queue s. Proof. reflexivity. Qed.
Lemma queue_setv s v p : queue (setv s v p) = queue s. Proof. reflexivity. Qed.
Lemma queue_set_now s v : queue (set_now s v) = queue s. Proof. reflexivity. Qed.
Lemma queue_set_count s v : queue (set_count s v) = queue s. Proof. reflexivity. Qed.
Lemma queue_set_splock s v : queue (set_splock s v) = queue s. Proof. reflexivity. Qed.
Lemma queue_set_qlock s v : queue (set_qlock s v) = queue s. Proof. reflexivity. Qed.
Lemma queue_set_queue s v : queue (set_queue s v) = v. Proof. reflexivity. Qed.
Lemma queue_set_vcpus s v : queue (set_vcpus s v) = queue s. Proof. reflexivity. Qed.
Lemma queue_set_gsig s v : queue (set_gsig s v) = queue s. Proof. reflexivity. Qed.
Lemma queue_set_gret0 s v : queue (set_gret0 s v) = queue s. Proof. reflexivity. Qed.
Lemma queue_set_grets s v : queue (set_grets s v) = queue s. Proof. reflexivity. Qed.
Lemma queue_set_gcrash s v : queue (set_gcrash s v) = queue s. Proof. reflexivity. Qed.
Lemma queue_set_grefail s v : queue (set_grefail s v) = queue s. Proof. reflexivity. Qed.
Lemma queue_set_gwakes s v : queue (set_gwakes s v) = queue s. Proof. reflexivity. Qed.
Lemma vcpus_modth s x f : vcpus (modth s x f) = vcpus s. Proof. reflexivity. Qed.
Lemma vcpus_setth s x th : vcpus (setth s x th) = vcpus s. Proof. reflexivity. Qed.
Lemma vcpus_setpc s x p : vcpus (setpc s x p) = vcpus s. Proof. reflexivity. Qed.
Lemma vcpus_set_now s v : vcpus (set_now s v) = vcpus s. Proof. reflexivity. Qed.
Lemma vcpus_set_count s v : vcpus (set_count s v) = vcpus s. Proof. reflexivity. Qed.
Lemma vcpus_set_splock s v : vcpus (set_splock s v) = vcpus s. Proof. reflexivity. Qed.
Lemma vcpus_set_qlock s v : vcpus (set_qlock s v) = vcpus s. Proof. reflexivity. Qed.
Lemma vcpus_set_queue s v : vcpus (set_queue s v) = vcpus s. Proof. reflexivity. Qed.
Lemma vcpus_set_vcpus s v : vcpus (set_vcpus s v) = v. Proof. reflexivity. Qed.
Lemma vcpus_set_gsig s v : vcpus (set_gsig s v) = vcpus s. Proof. reflexivity. Qed.
Lemma vcpus_set_gret0 s v : vcpus (set_gret0 s v) = vcpus s. Proof. reflexivity. Qed.
Lemma vcpus_set_grets s v : vcpus (set_grets s v) = vcpus s. Proof. reflexivity. Qed.
Lemma vcpus_set_gcrash s v : vcpus (set_gcrash s v) = vcpus s. Proof. reflexivity. Qed.
Lemma vcpus_set_grefail s v : vcpus (set_grefail s v) = vcpus s. Proof. reflexivity. Qed.
Lemma vcpus_set_gwakes s v : vcpus (set_gwakes s v) = vcpus s. Proof. reflexivity. Qed.
Lemma g_init_modth s x f : g_init (modth s x f) = g_init s. Proof. reflexivity. Qed.
Lemma g_init_setth s x th : g_init (setth s x th) = g_init s. Proof. reflexivity. Qed.
Lemma g_init_setpc s x p : g_init (setpc s x p) = g_init s. Proof. reflexivity. Qed.
Lemma g_init_setv s v p : g_init (setv s v p) = g_init s. Proof. reflexivity. Qed.
Lemma g_init_set_now s v : g_init (set_now s v) = g_init s. Proof. reflexivity. Qed.
Lemma g_init_set_count s v : g_init (set_count s v) = g_init s. Proof. reflexivity. Qed.
Lemma g_init_set_splock s v : g_init (set_splock s v) = g_init s. Proof. reflexivity. Qed.
Lemma g_init_set_qlock s v : g_init (set_qlock s v) = g_init s. Proof. reflexivity. Qed.
Lemma g_init_set_queue s v : g_init (set_queue s v) = g_init s. Proof. reflexivity. Qed.
Lemma g_init_set_vcpus s v : g_init (set_vcpus s v) = g_init s. Proof. reflexivity. Qed.
Lemma g_init_set_gsig s v : g_init (set_gsig s v) = g_init s. Proof. reflexivity. Qed.
Lemma g_init_set_gret0 s v : g_init (set_gret0 s v) = g_init s. Proof. reflexivity. Qed.
Lemma g_init_set_grets s v : g_init (set_grets s v) = g_init s. Proof. reflexivity. Qed.
Lemma g_init_set_gcrash s v : g_init (set_gcrash s v) = g_init s. Proof. reflexivity. Qed.
Lemma g_init_set_grefail s v : g_init (set_grefail s v) = g_init s. Proof. reflexivity. Qed.
Lemma g_init_set_gwakes s v : g_init (set_gwakes s v) = g_init s. Proof. reflexivity. Qed.
Lemma g_sig_modth s x f : g_sig (modth s x f) = g_sig s. Proof. reflexivity. Qed.
Lemma g_sig_setth s x th : g_sig (setth s x th) = g_sig s. Proof. reflexivity. Qed.
Lemma g_sig_setpc s x p : g_sig (setpc s x p) = g_sig s. Proof. reflexivity. Qed.
Lemma g_sig_setv s v p : g_sig (setv s v p) = g_sig s. Proof. reflexivity. Qed.
Lemma g_sig_set_now s v : g_sig (set_now s v) = g_sig s. Proof. reflexivity. Qed.
Lemma g_sig_set_count s v : g_sig (set_count s v) = g_sig s. Proof. reflexivity. Qed.
Lemma g_sig_set_splock s v : g_sig (set_splock s v) = g_sig s. Proof. reflexivity. Qed.
Lemma g_sig_set_qlock s v : g_sig (set_qlock s v) = g_sig s. Proof. reflexivity. Qed.
Lemma g_sig_set_queue s v : g_sig (set_queue s v) = g_sig s. Proof. reflexivity. Qed.
Lemma g_sig_set_vcpus s v : g_sig (set_vcpus s v) = g_sig s. Proof. reflexivity. Qed.
Lemma g_sig_set_gsig s v : g_sig (set_gsig s v) = v. Proof. reflexivity. Qed.
Lemma g_sig_set_gret0 s v : g_sig (set_gret0 s v) = g_sig s. Proof. reflexivity. Qed.
Lemma g_sig_set_grets s v : g_sig (set_grets s v) = g_sig s. Proof. reflexivity. Qed.
Lemma g_sig_set_gcrash s v : g_sig (set_gcrash s v) = g_sig s. Proof. reflexivity. Qed.
Lemma g_sig_set_grefail s v : g_sig (set_grefail s v) = g_sig s. Proof. reflexivity. Qed.
Lemma g_sig_set_gwakes s v : g_sig (set_gwakes s v) = g_sig s. Proof. reflexivity. Qed.
Lemma g_ret0_modth s x f : g_ret0 (modth s x f) = g_ret0 s. Proof. reflexivity. Qed.
Lemma g_ret0_setth s x th : g_ret0 (setth s x th) = g_ret0 s. Proof. reflexivity. Qed.
Lemma g_ret0_setpc s x p : g_ret0 (setpc s x p) = g_ret0 s. Proof. reflexivity. Qed.
Lemma g_ret0_setv s v p : g_ret0 (setv s v p) = g_ret0 s. Proof. reflexivity. Qed.
Lemma g_ret0_set_now s v : g_ret0 (set_now s v) = g_ret0 s. Proof. reflexivity. Qed.
Lemma g_ret0_set_count s v : g_ret0 (set_count s v) = g_ret0 s. Proof. reflexivity. Qed.
Lemma g_ret0_set_splock s v : g_ret0 (set_splock s v) = g_ret0 s. Proof. reflexivity. Qed.
Lemma g_ret0_set_qlock s v : g_ret0 (set_qlock s v) = g_ret0 s. Proof. reflexivity. Qed.
Lemma g_ret0_set_queue s v : g_ret0 (set_queue s v) = g_ret0 s. Proof. reflexivity. Qed.
Lemma g_ret0_set_vcpus s v : g_ret0 (set_vcpus s v) = g_ret0 s. Proof. reflexivity. Qed.
Lemma g_ret0_set_gsig s v : g_ret0 (set_gsig s v) = g_ret0 s. Proof. reflexivity. Qed.
Lemma g_ret0_set_gret0 s v : g_ret0 (set_gret0 s v) = v. Proof. reflexivity. Qed.
Lemma g_ret0_set_grets s v : g_ret0 (set_grets s v) = g_ret0 s. Proof. reflexivity. Qed.
Lemma g_ret0_set_gcrash s v : g_ret0 (set_gcrash s v) = g_ret0 s. Proof. reflexivity. Qed.
Lemma g_ret0_set_grefail s v : g_ret0 (set_grefail s v) = g_ret0 s. Proof. reflexivity. Qed.
Lemma g_ret0_set_gwakes s v : g_ret0 (set_gwakes s v) = g_ret0 s. Proof. reflexivity. Qed.
Lemma g_rets_modth s x f : g_rets (modth s x f) = g_rets s. Proof. reflexivity. Qed.
Lemma g_rets_setth s x th : g_rets (setth s x th) = g_rets s. Proof. reflexivity. Qed.
Lemma g_rets_setpc s x p : g_rets (setpc s x p) = g_rets s. Proof. reflexivity. Qed.
Lemma g_rets_setv s v p : g_rets (setv s v p) = g_rets s. Proof. reflexivity. Qed.
Lemma g_rets_set_now s v : g_rets (set_now s v) = g_rets s. Proof. reflexivity. Qed.
Lemma g_rets_set_count s v : g_rets (set_count s v) = g_rets s. Proof. reflexivity. Qed.
Lemma g_rets_set_splock s v : g_rets (set_splock s v) = g_rets s. Proof. reflexivity. Qed.
Lemma g_rets_set_qlock s v : g_rets (set_qlock s v) = g_rets s. Proof. reflexivity. Qed.
Lemma g_rets_set_queue s v : g_rets (set_queue s v) = g_rets s. Proof. reflexivity. Qed.
Lemma g_rets_set_vcpus s v : g_rets (set_vcpus s v) = g_rets s. Proof. reflexivity. Qed.
Lemma g_rets_set_gsig s v : g_rets (set_gsig s v) = g_rets s. Proof. reflexivity. Qed.
Lemma g_rets_set_gret0 s v : g_rets (set_gret0 s v) = g_rets s. Proof. reflexivity. Qed.
Lemma g_rets_set_grets s v : g_rets (set_grets s v) = v. Proof. reflexivity. Qed.
Lemma g_rets_set_gcrash s v : g_rets (set_gcrash s v) = g_rets s. Proof. reflexivity. Qed.
Lemma g_rets_set_grefail s v : g_rets (set_grefail s v) = g_rets s. Proof. reflexivity. Qed.
Lemma g_rets_set_gwakes s v : g_rets (set_gwakes s v) = g_rets s. Proof. reflexivity. Qed.
Lemma g_crash_modth s x f : g_crash (modth s x f) = g_crash s. Proof. reflexivity. Qed.
Lemma g_crash_setth s x th : g_crash (setth s x th) = g_crash s. Proof. reflexivity. Qed.
Lemma g_crash_setpc s x p : g_crash (setpc s x p) = g_crash s. Proof. reflexivity. Qed.
Lemma g_crash_setv s v p : g_crash (setv s v p) = g_crash s. Proof. reflexivity. Qed.
Lemma g_crash_set_now s v : g_crash (set_now s v) = g_crash s. Proof. reflexivity. Qed.
Lemma g_crash_set_count s v : g_crash (set_count s v) = g_crash s. Proof. reflexivity. Qed.
Lemma g_crash_set_splock s v : g_crash (set_splock s v) = g_crash s. Proof. reflexivity. Qed.
Lemma g_crash_set_qlock s v : g_crash (set_qlock s v) = g_crash s. Proof. reflexivity. Qed.
Lemma g_crash_set_queue s v : g_crash (set_queue s v) = g_crash s. Proof. reflexivity. Qed.
Lemma g_crash_set_vcpus s v : g_crash (set_vcpus s v) = g_crash s. Proof. reflexivity. Qed.
Lemma g_crash_set_gsig s v : g_crash (set_gsig s v) = g_crash s. Proof. reflexivity. Qed.
Lemma g_crash_set_gret0 s v : g_crash (set_gret0 s v) = g_crash s. Proof. reflexivity. Qed.
Lemma g_crash_set_grets s v : g_crash (set_grets s v) = g_crash s. Proof. reflexivity. Qed.
Lemma g_crash_set_gcrash s v : g_crash (set_gcrash s v) = v. Proof. reflexivity. Qed.
Lemma g_crash_set_grefail s v : g_crash (set_grefail s v) = g_crash s. Proof. reflexivity. Qed.
Lemma g_crash_set_gwakes s v : g_crash (set_gwakes s v) = g_crash s. Proof. reflexivity. Qed.
Lemma g_refail_modth s x f : g_refail (modth s x f) = g_refail s. Proof. reflexivity. Qed.
Lemma g_refail_setth s x th : g_refail (setth s x th) = g_refail s. Proof. reflexivity. Qed.
Lemma g_refail_setpc s x p : g_refail (setpc s x p) = g_refail s. Proof. reflexivity. Qed.
Lemma g_refail_setv s v p : g_refail (setv s v p) = g_refail s. Proof. reflexivity. Qed.
Lemma g_refail_set_now s v : g_refail (set_now s v) = g_refail s. Proof. reflexivity. Qed.
Lemma g_refail_set_count s v : g_refail (set_count s v) = g_refail s. Proof. reflexivity. Qed.
Lemma g_refail_set_splock s v : g_refail (set_splock s v) = g_refail s. Proof. reflexivity. Qed.
Lemma g_refail_set_qlock s v : g_refail (set_qlock s v) = g_refail s. Proof. reflexivity. Qed.
Lemma g_refail_set_queue s v : g_refail (set_queue s v) = g_refail s. Proof. reflexivity. Qed.
Lemma g_refail_set_vcpus s v : g_refail (set_vcpus s v) = g_refail s. Proof. reflexivity. Qed.
Lemma g_refail_set_gsig s v : g_refail (set_gsig s v) = g_refail s. Proof. reflexivity. Qed.
Lemma g_refail_set_gret0 s v : g_refail (set_gret0 s v) = g_refail s. Proof. reflexivity. Qed.
Lemma g_refail_set_grets s v : g_refail (set_grets s v) = g_refail s. Proof. reflexivity. Qed.
Lemma g_refail_set_gcrash s v : g_refail (set_gcrash s v) = g_refail s. Proof. reflexivity. Qed.
Lemma g_refail_set_grefail s v : g_refail (set_grefail s v) = v. Proof. reflexivity. Qed.
Lemma g_refail_set_gwakes s v : g_refail (set_gwakes s v) = g_refail s. Proof. reflexivity. Qed.
Lemma g_wakes_modth s x f : g_wakes (modth s x f) = g_wakes s. Proof. reflexivity. Qed.
Lemma g_wakes_setth s x th : g_wakes (setth s x th) = g_wakes s. Proof. reflexivity. Qed.
Lemma g_wakes_setpc s x p : g_wakes (setpc s x p) = g_wakes s. Proof. reflexivity. Qed.
Lemma g_wakes_setv s v p : g_wakes (setv s v p) = g_wakes s. Proof. reflexivity. Qed.
Lemma g_wakes_set_now s v : g_wakes (set_now s v) = g_wakes s. Proof. reflexivity. Qed.
Lemma g_wakes_set_count s v : g_wakes (set_count s v) = g_wakes s. Proof. reflexivity. Qed.
Lemma g_wakes_set_splock s v : g_wakes (set_splock s v) = g_wakes s. Proof. reflexivity. Qed.
Lemma g_wakes_set_qlock s v : g_wakes (set_qlock s v) = g_wakes s. Proof. reflexivity. Qed.
Lemma g_wakes_set_queue s v : g_wakes (set_queue s v) = g_wakes s. Proof. reflexivity. Qed.
Lemma g_wakes_set_vcpus s v : g_wakes (set_vcpus s v) = g_wakes s. Proof. reflexivity. Qed.
Lemma g_wakes_set_gsig s v : g_wakes (set_gsig s v) = g_wakes s. Proof. reflexivity. Qed.
Lemma g_wakes_set_gret0 s v : g_wakes (set_gret0 s v) = g_wakes s. Proof. reflexivity. Qed.
Lemma g_wakes_set_grets s v : g_wakes (set_grets s v) = g_wakes s. Proof. reflexivity. Qed.
Lemma g_wakes_set_gcrash s v : g_wakes (set_gcrash s v) = g_wakes s. Proof. reflexivity. Qed.
Lemma g_wakes_set_grefail s v : g_wakes (set_grefail s v) = g_wakes s. Proof. reflexivity. Qed.
Lemma g_wakes_set_gwakes s v : g_wakes (set_gwakes s v) = v. Proof. reflexivity. Qed.
Lemma getth_set_now s v y : getth (set_now s v) y = getth s y. Proof. reflexivity. Qed.
Lemma nthreads_set_now s v : nthreads (set_now s v) = nthreads s. Proof. reflexivity. Qed.
Lemma threads_set_now s v : threads (set_now s v) = threads s. Proof. reflexivity. Qed.
Lemma getv_set_now s v y : getv (set_now s v) y = getv s y. Proof. reflexivity. Qed.
Lemma getth_set_count s v y : getth (set_count s v) y = getth s y. Proof. reflexivity. Qed.
Lemma nthreads_set_count s v : nthreads (set_count s v) = nthreads s. Proof. reflexivity. Qed.
Lemma threads_set_count s v : threads (set_count s v) = threads s. Proof. reflexivity. Qed.
Lemma getv_set_count s v y : getv (set_count s v) y = getv s y. Proof. reflexivity. Qed.
Lemma getth_set_splock s v y : getth (set_splock s v) y = getth s y. Proof. reflexivity. Qed.
Lemma nthreads_set_splock s v : nthreads (set_splock s v) = nthreads s. Proof. reflexivity. Qed.
Lemma threads_set_splock s v : threads (set_splock s v) = threads s. Proof. reflexivity. Qed.
Lemma getv_set_splock s v y : getv (set_splock s v) y = getv s y. Proof. reflexivity. Qed.
Lemma getth_set_qlock s v y : getth (set_qlock s v) y = getth s y. Proof. reflexivity. Qed.
Lemma nthreads_set_qlock s v : nthreads (set_qlock s v) = nthreads s. Proof. reflexivity. Qed.
Lemma threads_set_qlock s v : threads (set_qlock s v) = threads s. Proof. reflexivity. Qed.
Lemma getv_set_qlock s v y : getv (set_qlock s v) y = getv s y. Proof. reflexivity. Qed.
Lemma getth_set_queue s v y : getth (set_queue s v) y = getth s y. Proof. reflexivity. Qed.
Lemma nthreads_set_queue s v : nthreads (set_queue s v) = nthreads s. Proof. reflexivity. Qed.
Lemma threads_set_queue s v : threads (set_queue s v) = threads s. Proof. reflexivity. Qed.
Lemma getv_set_queue s v y : getv (set_queue s v) y = getv s y. Proof. reflexivity. Qed.
Lemma getth_set_vcpus s v y : getth (set_vcpus s v) y = getth s y. Proof. reflexivity. Qed.
Lemma nthreads_set_vcpus s v : nthreads (set_vcpus s v) = nthreads s. Proof. reflexivity. Qed.
Lemma threads_set_vcpus s v : threads (set_vcpus s v) = threads s. Proof. reflexivity. Qed.
Lemma getth_set_gsig s v y : getth (set_gsig s v) y = getth s y. Proof. reflexivity. Qed.
Lemma nthreads_set_gsig s v : nthreads (set_gsig s v) = nthreads s. Proof. reflexivity. Qed.
Lemma threads_set_gsig s v : threads (set_gsig s v) = threads s. Proof. reflexivity. Qed.
Lemma getv_set_gsig s v y : getv (set_gsig s v) y = getv s y. Proof. reflexivity. Qed.
Lemma getth_set_gret0 s v y : getth (set_gret0 s v) y = getth s y. Proof. reflexivity. Qed.
Lemma nthreads_set_gret0 s v : nthreads (set_gret0 s v) = nthreads s. Proof. reflexivity. Qed.
Lemma threads_set_gret0 s v : threads (set_gret0 s v) = threads s. Proof. reflexivity. Qed.
Lemma getv_set_gret0 s v y : getv (set_gret0 s v) y = getv s y. Proof. reflexivity. Qed.
Lemma getth_set_grets s v y : getth (set_grets s v) y = getth s y. Proof. reflexivity. Qed.
Lemma nthreads_set_grets s v : nthreads (set_grets s v) = nthreads s. Proof. reflexivity. Qed.
Lemma threads_set_grets s v : threads (set_grets s v) = threads s. Proof. reflexivity. Qed.
Lemma getv_set_grets s v y : getv (set_grets s v) y = getv s y. Proof. reflexivity. Qed.
Lemma getth_set_gcrash s v y : getth (set_gcrash s v) y = getth s y. Proof. reflexivity. Qed.
Lemma nthreads_set_gcrash s v : nthreads (set_gcrash s v) = nthreads s. Proof. reflexivity. Qed.
Lemma threads_set_gcrash s v : threads (set_gcrash s v) = threads s. Proof. reflexivity. Qed.
Lemma getv_set_gcrash s v y : getv (set_gcrash s v) y = getv s y. Proof. reflexivity. Qed.
Lemma getth_set_grefail s v y : getth (set_grefail s v) y = getth s y. Proof. reflexivity. Qed.
Lemma nthreads_set_grefail s v : nthreads (set_grefail s v) = nthreads s. Proof. reflexivity. Qed.
Lemma threads_set_grefail s v : threads (set_grefail s v) = threads s. Proof. reflexivity. Qed.
Lemma getv_set_grefail s v y : getv (set_grefail s v) y = getv s y. Proof. reflexivity. Qed.
Lemma getth_set_gwakes s v y : getth (set_gwakes s v) y = getth s y. Proof. reflexivity. Qed.
Lemma nthreads_set_gwakes s v : nthreads (set_gwakes s v) = nthreads s. Proof. reflexivity. Qed.
Lemma threads_set_gwakes s v : threads (set_gwakes s v) = threads s. Proof. reflexivity. Qed.
Lemma getv_set_gwakes s v y : getv (set_gwakes s v) y = getv s y. Proof. reflexivity. Qed.
Lemma getth_setv s v p y : getth (setv s v p) y = getth s y. Proof. reflexivity. Qed.
Lemma nthreads_setv s v p : nthreads (setv s v p) = nthreads s. Proof. reflexivity. Qed.
Lemma getv_modth s x f y : getv (modth s x f) y = getv s y. Proof. reflexivity. Qed.
Lemma getv_setpc s x f y : getv (setpc s x f) y = getv s y. Proof. reflexivity. Qed.
Lemma nthreads_setpc s x p : nthreads (setpc s x p) = nthreads s. Proof. apply nthreads_modth. Qed.
Global Hint Rewrite now_modth now_setth now_setpc now_setv now_set_now now_set_count now_set_splock now_set_qlock now_set_queue now_set_vcpus now_set_gsig now_set_gret0 now_set_grets now_set_gcrash now_set_grefail now_set_gwakes m_count_modth m_count_setth m_count_setpc m_count_setv m_count_set_now m_count_set_count m_count_set_splock m_count_set_qlock m_count_set_queue m_count_set_vcpus m_count_set_gsig m_count_set_gret0 m_count_set_grets m_count_set_gcrash m_count_set_grefail m_count_set_gwakes ooo_modth ooo_setth ooo_setpc ooo_setv ooo_set_now ooo_set_count ooo_set_splock ooo_set_qlock ooo_set_queue ooo_set_vcpus ooo_set_gsig ooo_set_gret0 ooo_set_grets ooo_set_gcrash ooo_set_grefail ooo_set_gwakes splock_modth splock_setth splock_setpc splock_setv splock_set_now splock_set_count splock_set_splock splock_set_qlock splock_set_queue splock_set_vcpus splock_set_gsig splock_set_gret0 splock_set_grets splock_set_gcrash splock_set_grefail splock_set_gwakes qlock_modth qlock_setth qlock_setpc qlock_setv qlock_set_now qlock_set_count qlock_set_splock qlock_set_qlock qlock_set_queue qlock_set_vcpus qlock_set_gsig qlock_set_gret0 qlock_set_grets qlock_set_gcrash qlock_set_grefail qlock_set_gwakes queue_modth queue_setth queue_setpc queue_setv queue_set_now queue_set_count queue_set_splock queue_set_qlock queue_set_queue queue_set_vcpus queue_set_gsig queue_set_gret0 queue_set_grets queue_set_gcrash queue_set_grefail queue_set_gwakes vcpus_modth vcpus_setth vcpus_setpc vcpus_set_now vcpus_set_count vcpus_set_splock vcpus_set_qlock vcpus_set_queue vcpus_set_vcpus vcpus_set_gsig vcpus_set_gret0 vcpus_set_grets vcpus_set_gcrash vcpus_set_grefail vcpus_set_gwakes g_init_modth g_init_setth g_init_setpc g_init_setv g_init_set_now g_init_set_count g_init_set_splock g_init_set_qlock g_init_set_queue g_init_set_vcpus g_init_set_gsig g_init_set_gret0 g_init_set_grets g_init_set_gcrash g_init_set_grefail g_init_set_gwakes g_sig_modth g_sig_setth g_sig_setpc g_sig_setv g_sig_set_now g_sig_set_count g_sig_set_splock g_sig_set_qlock g_sig_set_queue g_sig_set_vcpus g_sig_set_gsig g_sig_set_gret0 g_sig_set_grets g_sig_set_gcrash g_sig_set_grefail g_sig_set_gwakes g_ret0_modth g_ret0_setth g_ret0_setpc g_ret0_setv g_ret0_set_now g_ret0_set_count g_ret0_set_splock g_ret0_set_qlock g_ret0_set_queue g_ret0_set_vcpus g_ret0_set_gsig g_ret0_set_gret0 g_ret0_set_grets g_ret0_set_gcrash g_ret0_set_grefail g_ret0_set_gwakes g_rets_modth g_rets_setth g_rets_setpc g_rets_setv g_rets_set_now g_rets_set_count g_rets_set_splock g_rets_set_qlock g_rets_set_queue g_rets_set_vcpus g_rets_set_gsig g_rets_set_gret0 g_rets_set_grets g_rets_set_gcrash g_rets_set_grefail g_rets_set_gwakes g_crash_modth g_crash_setth g_crash_setpc g_crash_setv g_crash_set_now g_crash_set_count g_crash_set_splock g_crash_set_qlock g_crash_set_queue g_crash_set_vcpus g_crash_set_gsig g_crash_set_gret0 g_crash_set_grets g_crash_set_gcrash g_crash_set_grefail g_crash_set_gwakes g_refail_modth g_refail_setth g_refail_setpc g_refail_setv g_refail_set_now g_refail_set_count g_refail_set_splock g_refail_set_qlock g_refail_set_queue g_refail_set_vcpus g_refail_set_gsig g_refail_set_gret0 g_refail_set_grets g_refail_set_gcrash g_refail_set_grefail g_refail_set_gwakes g_wakes_modth g_wakes_setth g_wakes_setpc g_wakes_setv g_wakes_set_now g_wakes_set_count g_wakes_set_splock g_wakes_set_qlock g_wakes_set_queue g_wakes_set_vcpus g_wakes_set_gsig g_wakes_set_gret0 g_wakes_set_grets g_wakes_set_gcrash g_wakes_set_grefail g_wakes_set_gwakes getth_set_now nthreads_set_now threads_set_now getv_set_now getth_set_count nthreads_set_count threads_set_count getv_set_count getth_set_splock nthreads_set_splock threads_set_splock getv_set_splock getth_set_qlock nthreads_set_qlock threads_set_qlock getv_set_qlock getth_set_queue nthreads_set_queue threads_set_queue getv_set_queue getth_set_vcpus nthreads_set_vcpus threads_set_vcpus getth_set_gsig nthreads_set_gsig threads_set_gsig getv_set_gsig getth_set_gret0 nthreads_set_gret0 threads_set_gret0 getv_set_gret0 getth_set_grets nthreads_set_grets threads_set_grets getv_set_grets getth_set_gcrash nthreads_set_gcrash threads_set_gcrash getv_set_gcrash getth_set_grefail nthreads_set_grefail threads_set_grefail getv_set_grefail getth_set_gwakes nthreads_set_gwakes threads_set_gwakes getv_set_gwakes getth_setv nthreads_setv getv_modth getv_setpc nthreads_setpc nthreads_modth : st.

(* ---------------------------------------------------------------------------------------- *)
(* case analysis of one thread step *)
Ltac inv_some H := inversion H; subst; clear H.
Ltac tstep_cases H :=
  unfold tstep in H;
  match type of H with context [Nat.ltb ?t (length (threads ?s))] =>
    destruct (Nat.ltb t (length (threads s))) eqn:Hlt; cbn [negb] in H; [|discriminate] end;
  match type of H with context [can_run ?th] =>
    destruct (can_run th) eqn:Hrun; cbn [negb] in H; [|discriminate] end;
  match type of H with context [t_pc ?th] => destruct (t_pc th) eqn:Hpc end;
  repeat match type of H with
  | None = Some _ => discriminate
  | context [match ?x with _ => _ end] => destruct x eqn:?
  end; try discriminate; inv_some H.

Ltac vstep_cases H :=
  unfold vstep in H;
  match type of H with context [Nat.ltb ?t (length (vcpus ?s))] =>
    destruct (Nat.ltb t (length (vcpus s))) eqn:Hlt; cbn [negb] in H; [|discriminate] end;
  match type of H with context [getv ?s ?v] => destruct (getv s v) eqn:Hpc end;
  repeat match type of H with
  | None = Some _ => discriminate
  | context [match ?x with _ => _ end] => destruct x eqn:?
  end; try discriminate; inv_some H.

Ltac start_cases H :=
  unfold start in H;
  match type of H with context [Nat.ltb ?t (length (threads ?s))] =>
    destruct (Nat.ltb t (length (threads s))) eqn:Hlt; cbn [negb] in H; [|discriminate] end;
  match type of H with context [t_pc ?th] => destruct (t_pc th) eqn:Hpc; try discriminate end;
  repeat match type of H with
  | None = Some _ => discriminate
  | context [match ?x with _ => _ end] => destruct x eqn:?
  end; try discriminate; inv_some H.

Ltac unf := unfold tr_return, pi_return, scan_next, setpc.
Ltac st := autorewrite with st.

(* the pc of a thread, and what a modth does to it *)
Definition pcof (s : state) (t : nat) : pc := t_pc (getth s t).

Lemma ltb_lt t s : Nat.ltb t (length (threads s)) = true -> (t < nthreads s)%nat.
Proof. intros H; apply Nat.ltb_lt in H; exact H. Qed.

(* pc of a thread after a modth *)
Lemma pcof_modth_same s x f : (x < nthreads s)%nat -> pcof (modth s x f) x = t_pc (f (getth s x)).
Proof. intros; unfold pcof; rewrite getth_modth_same; auto. Qed.
Lemma pcof_modth_other s x y f : x <> y -> pcof (modth s x f) y = pcof s y.
Proof. intros; unfold pcof; rewrite getth_modth_other; auto. Qed.
Lemma pcof_modth_keep s x y f : (forall th, t_pc (f th) = t_pc th) -> pcof (modth s x f) y = pcof s y.
Proof. intros; unfold pcof. apply (getth_modth_frame t_pc); auto. Qed.
Lemma pcof_set_now s v y : pcof (set_now s v) y = pcof s y. Proof. reflexivity. Qed.
Lemma pcof_set_count s v y : pcof (set_count s v) y = pcof s y. Proof. reflexivity. Qed.
Lemma pcof_set_splock s v y : pcof (set_splock s v) y = pcof s y. Proof. reflexivity. Qed.
Lemma pcof_set_qlock s v y : pcof (set_qlock s v) y = pcof s y. Proof. reflexivity. Qed.
Lemma pcof_set_queue s v y : pcof (set_queue s v) y = pcof s y. Proof. reflexivity. Qed.
Lemma pcof_set_vcpus s v y : pcof (set_vcpus s v) y = pcof s y. Proof. reflexivity. Qed.
Lemma pcof_set_gsig s v y : pcof (set_gsig s v) y = pcof s y. Proof. reflexivity. Qed.
Lemma pcof_set_gret0 s v y : pcof (set_gret0 s v) y = pcof s y. Proof. reflexivity. Qed.
Lemma pcof_set_grets s v y : pcof (set_grets s v) y = pcof s y. Proof. reflexivity. Qed.
Lemma pcof_set_gcrash s v y : pcof (set_gcrash s v) y = pcof s y. Proof. reflexivity. Qed.
Lemma pcof_set_grefail s v y : pcof (set_grefail s v) y = pcof s y. Proof. reflexivity. Qed.
Lemma pcof_set_gwakes s v y : pcof (set_gwakes s v) y = pcof s y. Proof. reflexivity. Qed.
Lemma pcof_setv s v p y : pcof (setv s v p) y = pcof s y. Proof. reflexivity. Qed.
Global Hint Rewrite pcof_set_now pcof_set_count pcof_set_splock pcof_set_qlock pcof_set_queue pcof_set_vcpus pcof_set_gsig pcof_set_gret0 pcof_set_grets pcof_set_gcrash pcof_set_grefail pcof_set_gwakes pcof_setv : st.

Ltac brk := repeat match goal with |- context [match ?x with _ => _ end] => destruct x eqn:? end.
Ltac thsimp := cbn [t_vcpu t_state t_lock t_inq t_err t_ts t_slq t_semcnt t_errno t_pc t_ret t_pend
                    set_pc set_errno set_err set_pend set_lock set_state set_inq set_ts set_slq set_semcnt set_ret].
Ltac pcs :=
  repeat first [ rewrite pcof_modth_other by auto
               | rewrite pcof_modth_keep by (intros; reflexivity)
               | rewrite pcof_modth_same by (autorewrite with st; auto)
               | progress (autorewrite with st) ]; thsimp.
Ltac norm := unf; st; brk; st; pcs.

Lemma tstep_pc_frame s t s' t' : tstep s t = Some s' -> t' <> t -> pcof s' t' = pcof s t'.
Proof. intros H N. tstep_cases H; norm; reflexivity. Qed.


(* ---------------------------------------------------------------------------------------- *)
(* A1: semaphore::splock — who holds it, as a function of the program counters *)
Definition pik_sp (kk : pikont) : bool := match kk with KIntr => false | _ => true end.
Definition holds_sp (p : pc) : bool :=
  match p with
  | Idle | WLock1 _ | WAsleep _ | WLock2 _ _ | SLock _
  | IRead _ _ | IOutChk _ _ _ | IOutSet _ _ | ILock _ _ | IRecheck _ _ | IUnlockOut _ _ _ | IUnlock _ => false
  | PIQLock kk _ | PIDeq kk _ | PIState kk _ => pik_sp kk
  | _ => true
  end.
Definition sp_trans (p p' : pc) (l l' : option part) (t : nat) : Prop :=
  (holds_sp p = holds_sp p' /\ l' = l) \/
  (holds_sp p = false /\ holds_sp p' = true /\ l = None /\ l' = Some (PT t)) \/
  (holds_sp p = true /\ holds_sp p' = false /\ l' = None).

Lemma tstep_sp s t s' : tstep s t = Some s' ->
  (t < nthreads s)%nat /\ sp_trans (pcof s t) (pcof s' t) (splock s) (splock s') t.
Proof.
  intros H. tstep_cases H; apply ltb_lt in Hlt; (split; [assumption|]); norm;
    unfold pcof; try rewrite Hpc; unfold sp_trans; cbn [holds_sp pik_sp]; try (left; split; reflexivity); auto.
  all: try (right; left; repeat split; auto; fail).
  all: try (right; right; repeat split; auto; fail).
Qed.

Lemma tstep_nthreads s t s' : tstep s t = Some s' -> nthreads s' = nthreads s.
Proof. intros H. tstep_cases H; norm; reflexivity. Qed.

Definition sp_inv (s : state) : Prop :=
  (forall t, (t < nthreads s)%nat -> holds_sp (pcof s t) = true -> splock s = Some (PT t)) /\
  (forall p, splock s = Some p -> exists t, p = PT t /\ (t < nthreads s)%nat /\ holds_sp (pcof s t) = true).

Lemma sp_inv_tstep s t s' : sp_inv s -> tstep s t = Some s' -> sp_inv s'.
Proof.
  intros [I1 I2] H. pose proof (tstep_nthreads _ _ _ H) as Hn.
  pose proof (tstep_sp _ _ _ H) as [Ht Tr].
  assert (Fr : forall t', t' <> t -> pcof s' t' = pcof s t') by (intros; eapply tstep_pc_frame; eauto).
  split.
  - intros t' Hl Hh. rewrite Hn in Hl. destruct (Nat.eq_dec t' t) as [->|N].
    + destruct Tr as [[E1 E2]|[(E1&E2&E3&E4)|(E1&E2&E3)]]; try congruence.
      rewrite E2. apply I1; auto. congruence.
    + rewrite Fr in Hh by auto. pose proof (I1 _ Hl Hh) as Hx.
      destruct Tr as [[E1 E2]|[(E1&E2&E3&E4)|(E1&E2&E3)]]; try congruence.
      pose proof (I1 t Ht E1) as Hy. congruence.
  - intros p Hp. destruct Tr as [[E1 E2]|[(E1&E2&E3&E4)|(E1&E2&E3)]]; try congruence.
    + rewrite E2 in Hp. destruct (I2 _ Hp) as (t'&->&Hl&Hh). exists t'. rewrite Hn. repeat split; auto.
      destruct (Nat.eq_dec t' t) as [->|N]; [congruence|rewrite Fr; auto].
    + exists t. rewrite Hn. repeat split; auto; congruence.
Qed.

(* the other labels do not touch splock, nor any program counter that holds it *)
Lemma start_effect s t o s' : start s t o = Some s' ->
  (t < nthreads s)%nat /\ nthreads s' = nthreads s /\ pcof s t = Idle /\ holds_sp (pcof s' t) = false /\
  (forall t', t' <> t -> pcof s' t' = pcof s t') /\
  splock s' = splock s /\ qlock s' = qlock s /\ queue s' = queue s /\ m_count s' = m_count s /\ vcpus s' = vcpus s /\
  g_sig s' = g_sig s /\ g_ret0 s' = g_ret0 s /\ g_rets s' = g_rets s /\ g_init s' = g_init s /\ ooo s' = ooo s.
Proof.
  intros H. start_cases H; apply ltb_lt in Hlt; repeat split; auto; intros; norm; unfold pcof; try rewrite Hpc;
    cbn [holds_sp]; reflexivity.
Qed.

Lemma vstep_effect s v s' : vstep s v = Some s' ->
  nthreads s' = nthreads s /\ (forall t, pcof s' t = pcof s t) /\ splock s' = splock s /\ m_count s' = m_count s /\
  g_sig s' = g_sig s /\ g_ret0 s' = g_ret0 s /\ g_rets s' = g_rets s /\ g_init s' = g_init s /\ ooo s' = ooo s.
Proof. intros H. vstep_cases H; norm; repeat split; auto; intros; norm; reflexivity. Qed.

Lemma sched_effect s l s' : step s l = Some s' ->
  match l with LRun _ | LStandby _ _ | LExpire _ _ | LTick _ => True | _ => False end ->
  nthreads s' = nthreads s /\ (forall t, pcof s' t = pcof s t) /\ splock s' = splock s /\ m_count s' = m_count s /\
  g_sig s' = g_sig s /\ g_ret0 s' = g_ret0 s /\ g_rets s' = g_rets s /\ g_init s' = g_init s /\ ooo s' = ooo s /\
  qlock s' = qlock s /\ queue s' = queue s.
Proof.
  intros H L. destruct l; try contradiction; simpl in H;
  repeat match type of H with
  | None = Some _ => discriminate
  | context [match ?x with _ => _ end] => destruct x eqn:?
  end; try discriminate; inv_some H; norm; repeat split; auto; intros; norm; reflexivity.
Qed.

Lemma sp_inv_frame s s' : sp_inv s -> nthreads s' = nthreads s -> (forall t, pcof s' t = pcof s t) ->
  splock s' = splock s -> sp_inv s'.
Proof.
  intros [I1 I2] Hn Hp Hs. split.
  - intros t Hl Hh. rewrite Hn in Hl. rewrite Hp in Hh. rewrite Hs. auto.
  - intros p Hq. rewrite Hs in Hq. destruct (I2 _ Hq) as (t&->&Hl&Hh). exists t. rewrite Hn, Hp. auto.
Qed.

Lemma sp_inv_step s l s' : sp_inv s -> step s l = Some s' -> sp_inv s'.
Proof.
  intros Iv H. destruct l.
  - simpl in H. destruct (start_effect _ _ _ _ H) as (Ht&Hn&Hi&Hh&Fr&Hs&_).
    destruct Iv as [I1 I2]. split.
    + intros t' Hl Hh'. rewrite Hn in Hl. rewrite Hs. destruct (Nat.eq_dec t' t) as [->|N]; [congruence|].
      rewrite Fr in Hh' by auto. auto.
    + intros p Hp. rewrite Hs in Hp. destruct (I2 _ Hp) as (t'&->&Hl&Hh'). exists t'. rewrite Hn. repeat split; auto.
      destruct (Nat.eq_dec t' t) as [->|N]; [rewrite Hi in Hh'; discriminate|rewrite Fr; auto].
  - eapply sp_inv_tstep; eauto.
  - destruct (sched_effect _ _ _ H Logic.I) as (Hn&Hp&Hs&_). eapply sp_inv_frame; eauto.
  - destruct (sched_effect _ _ _ H Logic.I) as (Hn&Hp&Hs&_). eapply sp_inv_frame; eauto.
  - destruct (sched_effect _ _ _ H Logic.I) as (Hn&Hp&Hs&_). eapply sp_inv_frame; eauto.
  - simpl in H. destruct (vstep_effect _ _ _ H) as (Hn&Hp&Hs&_). eapply sp_inv_frame; eauto.
  - destruct (sched_effect _ _ _ H Logic.I) as (Hn&Hp&Hs&_). eapply sp_inv_frame; eauto.
Qed.

