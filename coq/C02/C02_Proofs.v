(* C02_Proofs.v — invariants of the fine-grained semaphore model (C02_Model.v), for every
   interleaving (induction over `reachable`), any number of threads and vCPUs. *)
From Coq Require Import ZArith List Bool Arith Lia.
From PV Require Import Base.U64 C02.C02_Model.
Import ListNotations.
Local Open Scope Z_scope.

(* ---------------------------------------------------------------------------------------- *)
(* reachability *)
Inductive reachable (s0 : state) : state -> Prop :=
| r_init : reachable s0 s0
| r_step : forall s l s', reachable s0 s -> step s l = Some s' -> reachable s0 s'.

Lemma run_reachable s0 ls s : run s0 ls = Some s -> reachable s0 s.
Proof.
  revert s0 s. induction ls as [|l r IH]; intros s0 s H; simpl in H.
  - inversion H; constructor.
  - destruct (step s0 l) eqn:E; [|discriminate].
    specialize (IH _ _ H). clear H.
    induction IH. + econstructor; [constructor|eauto]. + econstructor; eauto.
Qed.

(* ---------------------------------------------------------------------------------------- *)
(* list / state plumbing *)
Lemma length_upd {A} (l : list A) i v : length (upd_nth l i v) = length l.
Proof. revert i; induction l; destruct i; simpl; auto. Qed.
Lemma nth_upd_same {A} (l : list A) i v d : (i < length l)%nat -> nth i (upd_nth l i v) d = v.
Proof. revert i; induction l; destruct i; simpl; intros; try lia; auto. apply IHl; lia. Qed.
Lemma nth_upd_other {A} (l : list A) i j v d : i <> j -> nth j (upd_nth l i v) d = nth j l d.
Proof. revert i j; induction l; destruct i, j; simpl; intros; try congruence; auto. Qed.
Lemma upd_nth_oob {A} (l : list A) i v : (length l <= i)%nat -> upd_nth l i v = l.
Proof. revert i; induction l; destruct i; simpl; intros; try lia; auto. f_equal. apply IHl; lia. Qed.

Definition nthreads (s : state) : nat := length (threads s).

Lemma getth_modth_same s x f : (x < nthreads s)%nat -> getth (modth s x f) x = f (getth s x).
Proof. intros. unfold getth, modth, setth; simpl. apply nth_upd_same; auto. Qed.
Lemma getth_modth_other s x y f : x <> y -> getth (modth s x f) y = getth s y.
Proof. intros. unfold getth, modth, setth; simpl. apply nth_upd_other; auto. Qed.
Lemma getth_modth_frame {A} (P : thread -> A) s x y f :
  (forall th, P (f th) = P th) -> P (getth (modth s x f) y) = P (getth s y).
Proof.
  intros H. destruct (Nat.eq_dec x y) as [->|N].
  - destruct (lt_dec y (nthreads s)).
    + rewrite getth_modth_same; auto.
    + unfold getth, modth, setth; simpl. rewrite upd_nth_oob; auto. unfold nthreads in *; lia.
  - rewrite getth_modth_other; auto.
Qed.
Lemma nthreads_modth s x f : nthreads (modth s x f) = nthreads s.
Proof. unfold nthreads, modth, setth; simpl. apply length_upd. Qed.
Lemma now_modth s x f : now (modth s x f) = now s. Proof. reflexivity. Qed.
Lemma now_setth s x th : now (setth s x th) = now s. Proof. reflexivity. Qed.
Lemma now_setpc s x p : now (setpc s x p) = now s. Proof. reflexivity. Qed.
Lemma now_setv s v p : now (setv s v p) = now s. Proof. reflexivity. Qed.
Lemma now_set_now s v : now (set_now s v) = v. Proof. reflexivity. Qed.
Lemma now_set_count s v : now (set_count s v) = now s. Proof. reflexivity. Qed.
Lemma now_set_splock s v : now (set_splock s v) = now s. Proof. reflexivity. Qed.
Lemma now_set_qlock s v : now (set_qlock s v) = now s. Proof. reflexivity. Qed.
Lemma now_set_queue s v : now (set_queue s v) = now s. Proof. reflexivity. Qed.
Lemma now_set_vcpus s v : now (set_vcpus s v) = now s. Proof. reflexivity. Qed.
Lemma now_set_gsig s v : now (set_gsig s v) = now s. Proof. reflexivity. Qed.
Lemma now_set_gret0 s v : now (set_gret0 s v) = now s. Proof. reflexivity. Qed.
Lemma now_set_grets s v : now (set_grets s v) = now s. Proof. reflexivity. Qed.
Lemma now_set_gcrash s v : now (set_gcrash s v) = now s. Proof. reflexivity. Qed.
Lemma now_set_grefail s v : now (set_grefail s v) = now s. Proof. reflexivity. Qed.
Lemma now_set_gwakes s v : now (set_gwakes s v) = now s. Proof. reflexivity. Qed.
Lemma m_count_modth s x f : m_count (modth s x f) = m_count s. Proof. reflexivity. Qed.
Lemma m_count_setth s x th : m_count (setth s x th) = m_count s. Proof. reflexivity. Qed.
Lemma m_count_setpc s x p : m_count (setpc s x p) = m_count s. Proof. reflexivity. Qed.
Lemma m_count_setv s v p : m_count (setv s v p) = m_count s. Proof. reflexivity. Qed.
Lemma m_count_set_now s v : m_count (set_now s v) = m_count s. Proof. reflexivity. Qed.
Lemma m_count_set_count s v : m_count (set_count s v) = v. Proof. reflexivity. Qed.
Lemma m_count_set_splock s v : m_count (set_splock s v) = m_count s. Proof. reflexivity. Qed.
Lemma m_count_set_qlock s v : m_count (set_qlock s v) = m_count s. Proof. reflexivity. Qed.
Lemma m_count_set_queue s v : m_count (set_queue s v) = m_count s. Proof. reflexivity. Qed.
Lemma m_count_set_vcpus s v : m_count (set_vcpus s v) = m_count s. Proof. reflexivity. Qed.
Lemma m_count_set_gsig s v : m_count (set_gsig s v) = m_count s. Proof. reflexivity. Qed.
Lemma m_count_set_gret0 s v : m_count (set_gret0 s v) = m_count s. Proof. reflexivity. Qed.
Lemma m_count_set_grets s v : m_count (set_grets s v) = m_count s. Proof. reflexivity. Qed.
Lemma m_count_set_gcrash s v : m_count (set_gcrash s v) = m_count s. Proof. reflexivity. Qed.
Lemma m_count_set_grefail s v : m_count (set_grefail s v) = m_count s. Proof. reflexivity. Qed.
Lemma m_count_set_gwakes s v : m_count (set_gwakes s v) = m_count s. Proof. reflexivity. Qed.
Lemma ooo_modth s x f : ooo (modth s x f) = ooo s. Proof. reflexivity. Qed.
Lemma ooo_setth s x th : ooo (setth s x th) = ooo s. Proof. reflexivity. Qed.
Lemma ooo_setpc s x p : ooo (setpc s x p) = ooo s. Proof. reflexivity. Qed.
Lemma ooo_setv s v p : ooo (setv s v p) = ooo s. Proof. reflexivity. Qed.
Lemma ooo_set_now s v : ooo (set_now s v) = ooo s. Proof. reflexivity. Qed.
Lemma ooo_set_count s v : ooo (set_count s v) = ooo s. Proof. reflexivity. Qed.
Lemma ooo_set_splock s v : ooo (set_splock s v) = ooo s. Proof. reflexivity. Qed.
Lemma ooo_set_qlock s v : ooo (set_qlock s v) = ooo s. Proof. reflexivity. Qed.
Lemma ooo_set_queue s v : ooo (set_queue s v) = ooo s. Proof. reflexivity. Qed.
Lemma ooo_set_vcpus s v : ooo (set_vcpus s v) = ooo s. Proof. reflexivity. Qed.
Lemma ooo_set_gsig s v : ooo (set_gsig s v) = ooo s. Proof. reflexivity. Qed.
Lemma ooo_set_gret0 s v : ooo (set_gret0 s v) = ooo s. Proof. reflexivity. Qed.
Lemma ooo_set_grets s v : ooo (set_grets s v) = ooo s. Proof. reflexivity. Qed.
Lemma ooo_set_gcrash s v : ooo (set_gcrash s v) = ooo s. Proof. reflexivity. Qed.
Lemma ooo_set_grefail s v : ooo (set_grefail s v) = ooo s. Proof. reflexivity. Qed.
Lemma ooo_set_gwakes s v : ooo (set_gwakes s v) = ooo s. Proof. reflexivity. Qed.
Lemma splock_modth s x f : splock (modth s x f) = splock s. Proof. reflexivity. Qed.
Lemma splock_setth s x th : splock (setth s x th) = splock s. Proof. reflexivity. Qed.
Lemma splock_setpc s x p : splock (setpc s x p) = splock s. Proof. reflexivity. Qed.
Lemma splock_setv s v p : splock (setv s v p) = splock s. Proof. reflexivity. Qed.
Lemma splock_set_now s v : splock (set_now s v) = splock s. Proof. reflexivity. Qed.
Lemma splock_set_count s v : splock (set_count s v) = splock s. Proof. reflexivity. Qed.
Lemma splock_set_splock s v : splock (set_splock s v) = v. Proof. reflexivity. Qed.
Lemma splock_set_qlock s v : splock (set_qlock s v) = splock s. Proof. reflexivity. Qed.
Lemma splock_set_queue s v : splock (set_queue s v) = splock s. Proof. reflexivity. Qed.
Lemma splock_set_vcpus s v : splock (set_vcpus s v) = splock s. Proof. reflexivity. Qed.
Lemma splock_set_gsig s v : splock (set_gsig s v) = splock s. Proof. reflexivity. Qed.
Lemma splock_set_gret0 s v : splock (set_gret0 s v) = splock s. Proof. reflexivity. Qed.
Lemma splock_set_grets s v : splock (set_grets s v) = splock s. Proof. reflexivity. Qed.
Lemma splock_set_gcrash s v : splock (set_gcrash s v) = splock s. Proof. reflexivity. Qed.
Lemma splock_set_grefail s v : splock (set_grefail s v) = splock s. Proof. reflexivity. Qed.
Lemma splock_set_gwakes s v : splock (set_gwakes s v) = splock s. Proof. reflexivity. Qed.
Lemma qlock_modth s x f : qlock (modth s x f) = qlock s. Proof. reflexivity. Qed.
Lemma qlock_setth s x th : qlock (setth s x th) = qlock s. Proof. reflexivity. Qed.
Lemma qlock_setpc s x p : qlock (setpc s x p) = qlock s. Proof. reflexivity. Qed.
Lemma qlock_setv s v p : qlock (setv s v p) = qlock s. Proof. reflexivity. Qed.
Lemma qlock_set_now s v : qlock (set_now s v) = qlock s. Proof. reflexivity. Qed.
Lemma qlock_set_count s v : qlock (set_count s v) = qlock s. Proof. reflexivity. Qed.
Lemma qlock_set_splock s v : qlock (set_splock s v) = qlock s. Proof. reflexivity. Qed.
Lemma qlock_set_qlock s v : qlock (set_qlock s v) = v. Proof. reflexivity. Qed.
Lemma qlock_set_queue s v : qlock (set_queue s v) = qlock s. Proof. reflexivity. Qed.
Lemma qlock_set_vcpus s v : qlock (set_vcpus s v) = qlock s. Proof. reflexivity. Qed.
Lemma qlock_set_gsig s v : qlock (set_gsig s v) = qlock s. Proof. reflexivity. Qed.
Lemma qlock_set_gret0 s v : qlock (set_gret0 s v) = qlock s. Proof. reflexivity. Qed.
Lemma qlock_set_grets s v : qlock (set_grets s v) = qlock s. Proof. reflexivity. Qed.
Lemma qlock_set_gcrash s v : qlock (set_gcrash s v) = qlock s. Proof. reflexivity. Qed.
Lemma qlock_set_grefail s v : qlock (set_grefail s v) = qlock s. Proof. reflexivity. Qed.
Lemma qlock_set_gwakes s v : qlock (set_gwakes s v) = qlock s. Proof. reflexivity. Qed.
Lemma queue_modth s x f : queue (modth s x f) = queue s. Proof. reflexivity. Qed.
Lemma queue_setth s x th : queue (setth s x th) = queue s. Proof. reflexivity. Qed.
Lemma queue_setpc s x p : queue (setpc s x p) = queue s. Proof. reflexivity. Qed.
Lemma queue_setv s v p : queue (setv s v p) = queue s. Proof. reflexivity. Qed.
Lemma queue_set_now s v : queue (set_now s v) = queue s. Proof. reflexivity. Qed.
Lemma queue_set_count s v : queue (set_count s v) = queue s. Proof. reflexivity. Qed.
Lemma queue_set_splock s v : queue (set_splock s v) = queue s. Proof. reflexivity. Qed.
Lemma queue_set_qlock s v : queue (set_qlock s v) = queue s. Proof. reflexivity. Qed.
Lemma queue_set_queue s v : queue (set_queue s v) = v. Proof. reflexivity. Qed.
Lemma queue_set_vcpus s v : queue (set_vcpus s v) = queue s. Proof. reflexivity. Qed.
Lemma queue_set_gsig s v : queue (set_gsig s v) = queue s. Proof. reflexivity. Qed.
Lemma queue_set_gret0 s v : queue (set_gret0 s v) = queue s. Proof. reflexivity. Qed.
Lemma queue_set_grets s v : queue (set_grets s v) = queue s. Proof. reflexivity. Qed.
Lemma queue_set_gcrash s v : queue (set_gcrash s v) = queue s. Proof. reflexivity. Qed.
Lemma queue_set_grefail s v : queue (set_grefail s v) = queue s. Proof. reflexivity. Qed.
Lemma queue_set_gwakes s v : queue (set_gwakes s v) = queue s. Proof. reflexivity. Qed.
Lemma vcpus_modth s x f : vcpus (modth s x f) = vcpus s. Proof. reflexivity. Qed.
Lemma vcpus_setth s x th : vcpus (setth s x th) = vcpus s. Proof. reflexivity. Qed.
Lemma vcpus_setpc s x p : vcpus (setpc s x p) = vcpus s. Proof. reflexivity. Qed.
Lemma vcpus_set_now s v : vcpus (set_now s v) = vcpus s. Proof. reflexivity. Qed.
Lemma vcpus_set_count s v : vcpus (set_count s v) = vcpus s. Proof. reflexivity. Qed.
Lemma vcpus_set_splock s v : vcpus (set_splock s v) = vcpus s. Proof. reflexivity. Qed.
Lemma vcpus_set_qlock s v : vcpus (set_qlock s v) = vcpus s. Proof. reflexivity. Qed.
Lemma vcpus_set_queue s v : vcpus (set_queue s v) = vcpus s. Proof. reflexivity. Qed.
Lemma vcpus_set_vcpus s v : vcpus (set_vcpus s v) = v. Proof. reflexivity. Qed.
Lemma vcpus_set_gsig s v : vcpus (set_gsig s v) = vcpus s. Proof. reflexivity. Qed.
Lemma vcpus_set_gret0 s v : vcpus (set_gret0 s v) = vcpus s. Proof. reflexivity. Qed.
Lemma vcpus_set_grets s v : vcpus (set_grets s v) = vcpus s. Proof. reflexivity. Qed.
Lemma vcpus_set_gcrash s v : vcpus (set_gcrash s v) = vcpus s. Proof. reflexivity. Qed.
Lemma vcpus_set_grefail s v : vcpus (set_grefail s v) = vcpus s. Proof. reflexivity. Qed.
Lemma vcpus_set_gwakes s v : vcpus (set_gwakes s v) = vcpus s. Proof. reflexivity. Qed.
Lemma g_init_modth s x f : g_init (modth s x f) = g_init s. Proof. reflexivity. Qed.
Lemma g_init_setth s x th : g_init (setth s x th) = g_init s. Proof. reflexivity. Qed.
Lemma g_init_setpc s x p : g_init (setpc s x p) = g_init s. Proof. reflexivity. Qed.
Lemma g_init_setv s v p : g_init (setv s v p) = g_init s. Proof. reflexivity. Qed.
Lemma g_init_set_now s v : g_init (set_now s v) = g_init s. Proof. reflexivity. Qed.
Lemma g_init_set_count s v : g_init (set_count s v) = g_init s. Proof. reflexivity. Qed.
Lemma g_init_set_splock s v : g_init (set_splock s v) = g_init s. Proof. reflexivity. Qed.
Lemma g_init_set_qlock s v : g_init (set_qlock s v) = g_init s. Proof. reflexivity. Qed.
Lemma g_init_set_queue s v : g_init (set_queue s v) = g_init s. Proof. reflexivity. Qed.
Lemma g_init_set_vcpus s v : g_init (set_vcpus s v) = g_init s. Proof. reflexivity. Qed.
Lemma g_init_set_gsig s v : g_init (set_gsig s v) = g_init s. Proof. reflexivity. Qed.
Lemma g_init_set_gret0 s v : g_init (set_gret0 s v) = g_init s. Proof. reflexivity. Qed.
Lemma g_init_set_grets s v : g_init (set_grets s v) = g_init s. Proof. reflexivity. Qed.
Lemma g_init_set_gcrash s v : g_init (set_gcrash s v) = g_init s. Proof. reflexivity. Qed.
Lemma g_init_set_grefail s v : g_init (set_grefail s v) = g_init s. Proof. reflexivity. Qed.
Lemma g_init_set_gwakes s v : g_init (set_gwakes s v) = g_init s. Proof. reflexivity. Qed.
Lemma g_sig_modth s x f : g_sig (modth s x f) = g_sig s. Proof. reflexivity. Qed.
Lemma g_sig_setth s x th : g_sig (setth s x th) = g_sig s. Proof. reflexivity. Qed.
Lemma g_sig_setpc s x p : g_sig (setpc s x p) = g_sig s. Proof. reflexivity. Qed.
Lemma g_sig_setv s v p : g_sig (setv s v p) = g_sig s. Proof. reflexivity. Qed.
Lemma g_sig_set_now s v : g_sig (set_now s v) = g_sig s. Proof. reflexivity. Qed.
Lemma g_sig_set_count s v : g_sig (set_count s v) = g_sig s. Proof. reflexivity. Qed.
Lemma g_sig_set_splock s v : g_sig (set_splock s v) = g_sig s. Proof. reflexivity. Qed.
Lemma g_sig_set_qlock s v : g_sig (set_qlock s v) = g_sig s. Proof. reflexivity. Qed.
Lemma g_sig_set_queue s v : g_sig (set_queue s v) = g_sig s. Proof. reflexivity. Qed.
Lemma g_sig_set_vcpus s v : g_sig (set_vcpus s v) = g_sig s. Proof. reflexivity. Qed.
Lemma g_sig_set_gsig s v : g_sig (set_gsig s v) = v. Proof. reflexivity. Qed.
Lemma g_sig_set_gret0 s v : g_sig (set_gret0 s v) = g_sig s. Proof. reflexivity. Qed.
Lemma g_sig_set_grets s v : g_sig (set_grets s v) = g_sig s. Proof. reflexivity. Qed.
Lemma g_sig_set_gcrash s v : g_sig (set_gcrash s v) = g_sig s. Proof. reflexivity. Qed.
Lemma g_sig_set_grefail s v : g_sig (set_grefail s v) = g_sig s. Proof. reflexivity. Qed.
Lemma g_sig_set_gwakes s v : g_sig (set_gwakes s v) = g_sig s. Proof. reflexivity. Qed.
Lemma g_ret0_modth s x f : g_ret0 (modth s x f) = g_ret0 s. Proof. reflexivity. Qed.
Lemma g_ret0_setth s x th : g_ret0 (setth s x th) = g_ret0 s. Proof. reflexivity. Qed.
Lemma g_ret0_setpc s x p : g_ret0 (setpc s x p) = g_ret0 s. Proof. reflexivity. Qed.
Lemma g_ret0_setv s v p : g_ret0 (setv s v p) = g_ret0 s. Proof. reflexivity. Qed.
Lemma g_ret0_set_now s v : g_ret0 (set_now s v) = g_ret0 s. Proof. reflexivity. Qed.
Lemma g_ret0_set_count s v : g_ret0 (set_count s v) = g_ret0 s. Proof. reflexivity. Qed.
Lemma g_ret0_set_splock s v : g_ret0 (set_splock s v) = g_ret0 s. Proof. reflexivity. Qed.
Lemma g_ret0_set_qlock s v : g_ret0 (set_qlock s v) = g_ret0 s. Proof. reflexivity. Qed.
Lemma g_ret0_set_queue s v : g_ret0 (set_queue s v) = g_ret0 s. Proof. reflexivity. Qed.
Lemma g_ret0_set_vcpus s v : g_ret0 (set_vcpus s v) = g_ret0 s. Proof. reflexivity. Qed.
Lemma g_ret0_set_gsig s v : g_ret0 (set_gsig s v) = g_ret0 s. Proof. reflexivity. Qed.
Lemma g_ret0_set_gret0 s v : g_ret0 (set_gret0 s v) = v. Proof. reflexivity. Qed.
Lemma g_ret0_set_grets s v : g_ret0 (set_grets s v) = g_ret0 s. Proof. reflexivity. Qed.
Lemma g_ret0_set_gcrash s v : g_ret0 (set_gcrash s v) = g_ret0 s. Proof. reflexivity. Qed.
Lemma g_ret0_set_grefail s v : g_ret0 (set_grefail s v) = g_ret0 s. Proof. reflexivity. Qed.
Lemma g_ret0_set_gwakes s v : g_ret0 (set_gwakes s v) = g_ret0 s. Proof. reflexivity. Qed.
Lemma g_rets_modth s x f : g_rets (modth s x f) = g_rets s. Proof. reflexivity. Qed.
Lemma g_rets_setth s x th : g_rets (setth s x th) = g_rets s. Proof. reflexivity. Qed.
Lemma g_rets_setpc s x p : g_rets (setpc s x p) = g_rets s. Proof. reflexivity. Qed.
Lemma g_rets_setv s v p : g_rets (setv s v p) = g_rets s. Proof. reflexivity. Qed.
Lemma g_rets_set_now s v : g_rets (set_now s v) = g_rets s. Proof. reflexivity. Qed.
Lemma g_rets_set_count s v : g_rets (set_count s v) = g_rets s. Proof. reflexivity. Qed.
Lemma g_rets_set_splock s v : g_rets (set_splock s v) = g_rets s. Proof. reflexivity. Qed.
Lemma g_rets_set_qlock s v : g_rets (set_qlock s v) = g_rets s. Proof. reflexivity. Qed.
Lemma g_rets_set_queue s v : g_rets (set_queue s v) = g_rets s. Proof. reflexivity. Qed.
Lemma g_rets_set_vcpus s v : g_rets (set_vcpus s v) = g_rets s. Proof. reflexivity. Qed.
Lemma g_rets_set_gsig s v : g_rets (set_gsig s v) = g_rets s. Proof. reflexivity. Qed.
Lemma g_rets_set_gret0 s v : g_rets (set_gret0 s v) = g_rets s. Proof. reflexivity. Qed.
Lemma g_rets_set_grets s v : g_rets (set_grets s v) = v. Proof. reflexivity. Qed.
Lemma g_rets_set_gcrash s v : g_rets (set_gcrash s v) = g_rets s. Proof. reflexivity. Qed.
Lemma g_rets_set_grefail s v : g_rets (set_grefail s v) = g_rets s. Proof. reflexivity. Qed.
Lemma g_rets_set_gwakes s v : g_rets (set_gwakes s v) = g_rets s. Proof. reflexivity. Qed.
Lemma g_crash_modth s x f : g_crash (modth s x f) = g_crash s. Proof. reflexivity. Qed.
Lemma g_crash_setth s x th : g_crash (setth s x th) = g_crash s. Proof. reflexivity. Qed.
Lemma g_crash_setpc s x p : g_crash (setpc s x p) = g_crash s. Proof. reflexivity. Qed.
Lemma g_crash_setv s v p : g_crash (setv s v p) = g_crash s. Proof. reflexivity. Qed.
Lemma g_crash_set_now s v : g_crash (set_now s v) = g_crash s. Proof. reflexivity. Qed.
Lemma g_crash_set_count s v : g_crash (set_count s v) = g_crash s. Proof. reflexivity. Qed.
Lemma g_crash_set_splock s v : g_crash (set_splock s v) = g_crash s. Proof. reflexivity. Qed.
Lemma g_crash_set_qlock s v : g_crash (set_qlock s v) = g_crash s. Proof. reflexivity. Qed.
Lemma g_crash_set_queue s v : g_crash (set_queue s v) = g_crash s. Proof. reflexivity. Qed.
Lemma g_crash_set_vcpus s v : g_crash (set_vcpus s v) = g_crash s. Proof. reflexivity. Qed.
Lemma g_crash_set_gsig s v : g_crash (set_gsig s v) = g_crash s. Proof. reflexivity. Qed.
Lemma g_crash_set_gret0 s v : g_crash (set_gret0 s v) = g_crash s. Proof. reflexivity. Qed.
Lemma g_crash_set_grets s v : g_crash (set_grets s v) = g_crash s. Proof. reflexivity. Qed.
Lemma g_crash_set_gcrash s v : g_crash (set_gcrash s v) = v. Proof. reflexivity. Qed.
Lemma g_crash_set_grefail s v : g_crash (set_grefail s v) = g_crash s. Proof. reflexivity. Qed.
Lemma g_crash_set_gwakes s v : g_crash (set_gwakes s v) = g_crash s. Proof. reflexivity. Qed.
Lemma g_refail_modth s x f : g_refail (modth s x f) = g_refail s. Proof. reflexivity. Qed.
Lemma g_refail_setth s x th : g_refail (setth s x th) = g_refail s. Proof. reflexivity. Qed.
Lemma g_refail_setpc s x p : g_refail (setpc s x p) = g_refail s. Proof. reflexivity. Qed.
Lemma g_refail_setv s v p : g_refail (setv s v p) = g_refail s. Proof. reflexivity. Qed.
Lemma g_refail_set_now s v : g_refail (set_now s v) = g_refail s. Proof. reflexivity. Qed.
Lemma g_refail_set_count s v : g_refail (set_count s v) = g_refail s. Proof. reflexivity. Qed.
Lemma g_refail_set_splock s v : g_refail (set_splock s v) = g_refail s. Proof. reflexivity. Qed.
Lemma g_refail_set_qlock s v : g_refail (set_qlock s v) = g_refail s. Proof. reflexivity. Qed.
Lemma g_refail_set_queue s v : g_refail (set_queue s v) = g_refail s. Proof. reflexivity. Qed.
Lemma g_refail_set_vcpus s v : g_refail (set_vcpus s v) = g_refail s. Proof. reflexivity. Qed.
Lemma g_refail_set_gsig s v : g_refail (set_gsig s v) = g_refail s. Proof. reflexivity. Qed.
Lemma g_refail_set_gret0 s v : g_refail (set_gret0 s v) = g_refail s. Proof. reflexivity. Qed.
Lemma g_refail_set_grets s v : g_refail (set_grets s v) = g_refail s. Proof. reflexivity. Qed.
Lemma g_refail_set_gcrash s v : g_refail (set_gcrash s v) = g_refail s. Proof. reflexivity. Qed.
Lemma g_refail_set_grefail s v : g_refail (set_grefail s v) = v. Proof. reflexivity. Qed.
Lemma g_refail_set_gwakes s v : g_refail (set_gwakes s v) = g_refail s. Proof. reflexivity. Qed.
Lemma g_wakes_modth s x f : g_wakes (modth s x f) = g_wakes s. Proof. reflexivity. Qed.
Lemma g_wakes_setth s x th : g_wakes (setth s x th) = g_wakes s. Proof. reflexivity. Qed.
Lemma g_wakes_setpc s x p : g_wakes (setpc s x p) = g_wakes s. Proof. reflexivity. Qed.
Lemma g_wakes_setv s v p : g_wakes (setv s v p) = g_wakes s. Proof. reflexivity. Qed.
Lemma g_wakes_set_now s v : g_wakes (set_now s v) = g_wakes s. Proof. reflexivity. Qed.
Lemma g_wakes_set_count s v : g_wakes (set_count s v) = g_wakes s. Proof. reflexivity. Qed.
Lemma g_wakes_set_splock s v : g_wakes (set_splock s v) = g_wakes s. Proof. reflexivity. Qed.
Lemma g_wakes_set_qlock s v : g_wakes (set_qlock s v) = g_wakes s. Proof. reflexivity. Qed.
Lemma g_wakes_set_queue s v : g_wakes (set_queue s v) = g_wakes s. Proof. reflexivity. Qed.
Lemma g_wakes_set_vcpus s v : g_wakes (set_vcpus s v) = g_wakes s. Proof. reflexivity. Qed.
Lemma g_wakes_set_gsig s v : g_wakes (set_gsig s v) = g_wakes s. Proof. reflexivity. Qed.
Lemma g_wakes_set_gret0 s v : g_wakes (set_gret0 s v) = g_wakes s. Proof. reflexivity. Qed.
Lemma g_wakes_set_grets s v : g_wakes (set_grets s v) = g_wakes s. Proof. reflexivity. Qed.
Lemma g_wakes_set_gcrash s v : g_wakes (set_gcrash s v) = g_wakes s. Proof. reflexivity. Qed.
Lemma g_wakes_set_grefail s v : g_wakes (set_grefail s v) = g_wakes s. Proof. reflexivity. Qed.
Lemma g_wakes_set_gwakes s v : g_wakes (set_gwakes s v) = v. Proof. reflexivity. Qed.
Lemma getth_set_now s v y : getth (set_now s v) y = getth s y. Proof. reflexivity. Qed.
Lemma nthreads_set_now s v : nthreads (set_now s v) = nthreads s. Proof. reflexivity. Qed.
Lemma threads_set_now s v : threads (set_now s v) = threads s. Proof. reflexivity. Qed.
Lemma getv_set_now s v y : getv (set_now s v) y = getv s y. Proof. reflexivity. Qed.
Lemma getth_set_count s v y : getth (set_count s v) y = getth s y. Proof. reflexivity. Qed.
Lemma nthreads_set_count s v : nthreads (set_count s v) = nthreads s. Proof. reflexivity. Qed.
Lemma threads_set_count s v : threads (set_count s v) = threads s. Proof. reflexivity. Qed.
Lemma getv_set_count s v y : getv (set_count s v) y = getv s y. Proof. reflexivity. Qed.
Lemma getth_set_splock s v y : getth (set_splock s v) y = getth s y. Proof. reflexivity. Qed.
Lemma nthreads_set_splock s v : nthreads (set_splock s v) = nthreads s. Proof. reflexivity. Qed.
Lemma threads_set_splock s v : threads (set_splock s v) = threads s. Proof. reflexivity. Qed.
Lemma getv_set_splock s v y : getv (set_splock s v) y = getv s y. Proof. reflexivity. Qed.
Lemma getth_set_qlock s v y : getth (set_qlock s v) y = getth s y. Proof. reflexivity. Qed.
Lemma nthreads_set_qlock s v : nthreads (set_qlock s v) = nthreads s. Proof. reflexivity. Qed.
Lemma threads_set_qlock s v : threads (set_qlock s v) = threads s. Proof. reflexivity. Qed.
Lemma getv_set_qlock s v y : getv (set_qlock s v) y = getv s y. Proof. reflexivity. Qed.
Lemma getth_set_queue s v y : getth (set_queue s v) y = getth s y. Proof. reflexivity. Qed.
Lemma nthreads_set_queue s v : nthreads (set_queue s v) = nthreads s. Proof. reflexivity. Qed.
Lemma threads_set_queue s v : threads (set_queue s v) = threads s. Proof. reflexivity. Qed.
Lemma getv_set_queue s v y : getv (set_queue s v) y = getv s y. Proof. reflexivity. Qed.
Lemma getth_set_vcpus s v y : getth (set_vcpus s v) y = getth s y. Proof. reflexivity. Qed.
Lemma nthreads_set_vcpus s v : nthreads (set_vcpus s v) = nthreads s. Proof. reflexivity. Qed.
Lemma threads_set_vcpus s v : threads (set_vcpus s v) = threads s. Proof. reflexivity. Qed.
Lemma getth_set_gsig s v y : getth (set_gsig s v) y = getth s y. Proof. reflexivity. Qed.
Lemma nthreads_set_gsig s v : nthreads (set_gsig s v) = nthreads s. Proof. reflexivity. Qed.
Lemma threads_set_gsig s v : threads (set_gsig s v) = threads s. Proof. reflexivity. Qed.
Lemma getv_set_gsig s v y : getv (set_gsig s v) y = getv s y. Proof. reflexivity. Qed.
Lemma getth_set_gret0 s v y : getth (set_gret0 s v) y = getth s y. Proof. reflexivity. Qed.
Lemma nthreads_set_gret0 s v : nthreads (set_gret0 s v) = nthreads s. Proof. reflexivity. Qed.
Lemma threads_set_gret0 s v : threads (set_gret0 s v) = threads s. Proof. reflexivity. Qed.
Lemma getv_set_gret0 s v y : getv (set_gret0 s v) y = getv s y. Proof. reflexivity. Qed.
Lemma getth_set_grets s v y : getth (set_grets s v) y = getth s y. Proof. reflexivity. Qed.
Lemma nthreads_set_grets s v : nthreads (set_grets s v) = nthreads s. Proof. reflexivity. Qed.
Lemma threads_set_grets s v : threads (set_grets s v) = threads s. Proof. reflexivity. Qed.
Lemma getv_set_grets s v y : getv (set_grets s v) y = getv s y. Proof. reflexivity. Qed.
Lemma getth_set_gcrash s v y : getth (set_gcrash s v) y = getth s y. Proof. reflexivity. Qed.
Lemma nthreads_set_gcrash s v : nthreads (set_gcrash s v) = nthreads s. Proof. reflexivity. Qed.
Lemma threads_set_gcrash s v : threads (set_gcrash s v) = threads s. Proof. reflexivity. Qed.
Lemma getv_set_gcrash s v y : getv (set_gcrash s v) y = getv s y. Proof. reflexivity. Qed.
Lemma getth_set_grefail s v y : getth (set_grefail s v) y = getth s y. Proof. reflexivity. Qed.
Lemma nthreads_set_grefail s v : nthreads (set_grefail s v) = nthreads s. Proof. reflexivity. Qed.
Lemma threads_set_grefail s v : threads (set_grefail s v) = threads s. Proof. reflexivity. Qed.
Lemma getv_set_grefail s v y : getv (set_grefail s v) y = getv s y. Proof. reflexivity. Qed.
Lemma getth_set_gwakes s v y : getth (set_gwakes s v) y = getth s y. Proof. reflexivity. Qed.
Lemma nthreads_set_gwakes s v : nthreads (set_gwakes s v) = nthreads s. Proof. reflexivity. Qed.
Lemma threads_set_gwakes s v : threads (set_gwakes s v) = threads s. Proof. reflexivity. Qed.
Lemma getv_set_gwakes s v y : getv (set_gwakes s v) y = getv s y. Proof. reflexivity. Qed.
Lemma getth_setv s v p y : getth (setv s v p) y = getth s y. Proof. reflexivity. Qed.
Lemma nthreads_setv s v p : nthreads (setv s v p) = nthreads s. Proof. reflexivity. Qed.
Lemma getv_modth s x f y : getv (modth s x f) y = getv s y. Proof. reflexivity. Qed.
Lemma getv_setpc s x f y : getv (setpc s x f) y = getv s y. Proof. reflexivity. Qed.
Lemma nthreads_setpc s x p : nthreads (setpc s x p) = nthreads s. Proof. apply nthreads_modth. Qed.
Global Hint Rewrite now_modth now_setth now_setpc now_setv now_set_now now_set_count now_set_splock now_set_qlock now_set_queue now_set_vcpus now_set_gsig now_set_gret0 now_set_grets now_set_gcrash now_set_grefail now_set_gwakes m_count_modth m_count_setth m_count_setpc m_count_setv m_count_set_now m_count_set_count m_count_set_splock m_count_set_qlock m_count_set_queue m_count_set_vcpus m_count_set_gsig m_count_set_gret0 m_count_set_grets m_count_set_gcrash m_count_set_grefail m_count_set_gwakes ooo_modth ooo_setth ooo_setpc ooo_setv ooo_set_now ooo_set_count ooo_set_splock ooo_set_qlock ooo_set_queue ooo_set_vcpus ooo_set_gsig ooo_set_gret0 ooo_set_grets ooo_set_gcrash ooo_set_grefail ooo_set_gwakes splock_modth splock_setth splock_setpc splock_setv splock_set_now splock_set_count splock_set_splock splock_set_qlock splock_set_queue splock_set_vcpus splock_set_gsig splock_set_gret0 splock_set_grets splock_set_gcrash splock_set_grefail splock_set_gwakes qlock_modth qlock_setth qlock_setpc qlock_setv qlock_set_now qlock_set_count qlock_set_splock qlock_set_qlock qlock_set_queue qlock_set_vcpus qlock_set_gsig qlock_set_gret0 qlock_set_grets qlock_set_gcrash qlock_set_grefail qlock_set_gwakes queue_modth queue_setth queue_setpc queue_setv queue_set_now queue_set_count queue_set_splock queue_set_qlock queue_set_queue queue_set_vcpus queue_set_gsig queue_set_gret0 queue_set_grets queue_set_gcrash queue_set_grefail queue_set_gwakes vcpus_modth vcpus_setth vcpus_setpc vcpus_set_now vcpus_set_count vcpus_set_splock vcpus_set_qlock vcpus_set_queue vcpus_set_vcpus vcpus_set_gsig vcpus_set_gret0 vcpus_set_grets vcpus_set_gcrash vcpus_set_grefail vcpus_set_gwakes g_init_modth g_init_setth g_init_setpc g_init_setv g_init_set_now g_init_set_count g_init_set_splock g_init_set_qlock g_init_set_queue g_init_set_vcpus g_init_set_gsig g_init_set_gret0 g_init_set_grets g_init_set_gcrash g_init_set_grefail g_init_set_gwakes g_sig_modth g_sig_setth g_sig_setpc g_sig_setv g_sig_set_now g_sig_set_count g_sig_set_splock g_sig_set_qlock g_sig_set_queue g_sig_set_vcpus g_sig_set_gsig g_sig_set_gret0 g_sig_set_grets g_sig_set_gcrash g_sig_set_grefail g_sig_set_gwakes g_ret0_modth g_ret0_setth g_ret0_setpc g_ret0_setv g_ret0_set_now g_ret0_set_count g_ret0_set_splock g_ret0_set_qlock g_ret0_set_queue g_ret0_set_vcpus g_ret0_set_gsig g_ret0_set_gret0 g_ret0_set_grets g_ret0_set_gcrash g_ret0_set_grefail g_ret0_set_gwakes g_rets_modth g_rets_setth g_rets_setpc g_rets_setv g_rets_set_now g_rets_set_count g_rets_set_splock g_rets_set_qlock g_rets_set_queue g_rets_set_vcpus g_rets_set_gsig g_rets_set_gret0 g_rets_set_grets g_rets_set_gcrash g_rets_set_grefail g_rets_set_gwakes g_crash_modth g_crash_setth g_crash_setpc g_crash_setv g_crash_set_now g_crash_set_count g_crash_set_splock g_crash_set_qlock g_crash_set_queue g_crash_set_vcpus g_crash_set_gsig g_crash_set_gret0 g_crash_set_grets g_crash_set_gcrash g_crash_set_grefail g_crash_set_gwakes g_refail_modth g_refail_setth g_refail_setpc g_refail_setv g_refail_set_now g_refail_set_count g_refail_set_splock g_refail_set_qlock g_refail_set_queue g_refail_set_vcpus g_refail_set_gsig g_refail_set_gret0 g_refail_set_grets g_refail_set_gcrash g_refail_set_grefail g_refail_set_gwakes g_wakes_modth g_wakes_setth g_wakes_setpc g_wakes_setv g_wakes_set_now g_wakes_set_count g_wakes_set_splock g_wakes_set_qlock g_wakes_set_queue g_wakes_set_vcpus g_wakes_set_gsig g_wakes_set_gret0 g_wakes_set_grets g_wakes_set_gcrash g_wakes_set_grefail g_wakes_set_gwakes getth_set_now nthreads_set_now threads_set_now getv_set_now getth_set_count nthreads_set_count threads_set_count getv_set_count getth_set_splock nthreads_set_splock threads_set_splock getv_set_splock getth_set_qlock nthreads_set_qlock threads_set_qlock getv_set_qlock getth_set_queue nthreads_set_queue threads_set_queue getv_set_queue getth_set_vcpus nthreads_set_vcpus threads_set_vcpus getth_set_gsig nthreads_set_gsig threads_set_gsig getv_set_gsig getth_set_gret0 nthreads_set_gret0 threads_set_gret0 getv_set_gret0 getth_set_grets nthreads_set_grets threads_set_grets getv_set_grets getth_set_gcrash nthreads_set_gcrash threads_set_gcrash getv_set_gcrash getth_set_grefail nthreads_set_grefail threads_set_grefail getv_set_grefail getth_set_gwakes nthreads_set_gwakes threads_set_gwakes getv_set_gwakes getth_setv nthreads_setv getv_modth getv_setpc nthreads_setpc nthreads_modth : st.

(* ---------------------------------------------------------------------------------------- *)
(* case analysis of one thread step *)
Ltac inv_some H := inversion H; subst; clear H.
Ltac tstep_cases H :=
  unfold tstep in H;
  match type of H with context [Nat.ltb ?t (length (threads ?s))] =>
    destruct (Nat.ltb t (length (threads s))) eqn:Hlt; cbn [negb] in H; [|discriminate] end;
  match type of H with context [can_run ?th] =>
    destruct (can_run th) eqn:Hrun; cbn [negb] in H; [|discriminate] end;
  match type of H with context [t_pc ?th] => destruct (t_pc th) eqn:Hpc end;
  repeat match type of H with
  | None = Some _ => discriminate
  | context [match ?x with _ => _ end] => destruct x eqn:?
  end; try discriminate; inv_some H.

Ltac vstep_cases H :=
  unfold vstep in H;
  match type of H with context [Nat.ltb ?t (length (vcpus ?s))] =>
    destruct (Nat.ltb t (length (vcpus s))) eqn:Hlt; cbn [negb] in H; [|discriminate] end;
  match type of H with context [getv ?s ?v] => destruct (getv s v) eqn:Hpc end;
  repeat match type of H with
  | None = Some _ => discriminate
  | context [match ?x with _ => _ end] => destruct x eqn:?
  end; try discriminate; inv_some H.

Ltac start_cases H :=
  unfold start in H;
  match type of H with context [Nat.ltb ?t (length (threads ?s))] =>
    destruct (Nat.ltb t (length (threads s))) eqn:Hlt; cbn [negb] in H; [|discriminate] end;
  match type of H with context [t_pc ?th] => destruct (t_pc th) eqn:Hpc; try discriminate end;
  repeat match type of H with
  | None = Some _ => discriminate
  | context [match ?x with _ => _ end] => destruct x eqn:?
  end; try discriminate; inv_some H.

Ltac unf := unfold tr_return, pi_return, scan_next, setpc in *.
Ltac st := autorewrite with st in *.

(* the pc of a thread, and what a modth does to it *)
Definition pcof (s : state) (t : nat) : pc := t_pc (getth s t).

Lemma ltb_lt t s : Nat.ltb t (length (threads s)) = true -> (t < nthreads s)%nat.
Proof. intros H; apply Nat.ltb_lt in H; exact H. Qed.

(* pc of a thread after a modth *)
Lemma pcof_modth_same s x f : (x < nthreads s)%nat -> pcof (modth s x f) x = t_pc (f (getth s x)).
Proof. intros; unfold pcof; rewrite getth_modth_same; auto. Qed.
Lemma pcof_modth_other s x y f : x <> y -> pcof (modth s x f) y = pcof s y.
Proof. intros; unfold pcof; rewrite getth_modth_other; auto. Qed.
Lemma pcof_modth_keep s x y f : (forall th, t_pc (f th) = t_pc th) -> pcof (modth s x f) y = pcof s y.
Proof. intros; unfold pcof. apply (getth_modth_frame t_pc); auto. Qed.
Lemma pcof_set_now s v y : pcof (set_now s v) y = pcof s y. Proof. reflexivity. Qed.
Lemma pcof_set_count s v y : pcof (set_count s v) y = pcof s y. Proof. reflexivity. Qed.
Lemma pcof_set_splock s v y : pcof (set_splock s v) y = pcof s y. Proof. reflexivity. Qed.
Lemma pcof_set_qlock s v y : pcof (set_qlock s v) y = pcof s y. Proof. reflexivity. Qed.
Lemma pcof_set_queue s v y : pcof (set_queue s v) y = pcof s y. Proof. reflexivity. Qed.
Lemma pcof_set_vcpus s v y : pcof (set_vcpus s v) y = pcof s y. Proof. reflexivity. Qed.
Lemma pcof_set_gsig s v y : pcof (set_gsig s v) y = pcof s y. Proof. reflexivity. Qed.
Lemma pcof_set_gret0 s v y : pcof (set_gret0 s v) y = pcof s y. Proof. reflexivity. Qed.
Lemma pcof_set_grets s v y : pcof (set_grets s v) y = pcof s y. Proof. reflexivity. Qed.
Lemma pcof_set_gcrash s v y : pcof (set_gcrash s v) y = pcof s y. Proof. reflexivity. Qed.
Lemma pcof_set_grefail s v y : pcof (set_grefail s v) y = pcof s y. Proof. reflexivity. Qed.
Lemma pcof_set_gwakes s v y : pcof (set_gwakes s v) y = pcof s y. Proof. reflexivity. Qed.
Lemma pcof_setv s v p y : pcof (setv s v p) y = pcof s y. Proof. reflexivity. Qed.
Global Hint Rewrite pcof_set_now pcof_set_count pcof_set_splock pcof_set_qlock pcof_set_queue pcof_set_vcpus pcof_set_gsig pcof_set_gret0 pcof_set_grets pcof_set_gcrash pcof_set_grefail pcof_set_gwakes pcof_setv : st.

Ltac brk := repeat match goal with |- context [match ?x with _ => _ end] => destruct x eqn:? end.
Ltac thsimp := cbn [t_vcpu t_state t_lock t_inq t_err t_ts t_slq t_semcnt t_errno t_pc t_ret t_pend
                    set_pc set_errno set_err set_pend set_lock set_state set_inq set_ts set_slq set_semcnt set_ret] in *.
Ltac pcs :=
  repeat first [ rewrite pcof_modth_other by auto
               | rewrite pcof_modth_keep by (intros; reflexivity)
               | rewrite pcof_modth_same by (autorewrite with st; auto)
               | progress (autorewrite with st) ]; thsimp.
Ltac norm := unf; st; brk; st; pcs.

Lemma tstep_pc_frame s t s' t' : tstep s t = Some s' -> t' <> t -> pcof s' t' = pcof s t'.
Proof. intros H N. tstep_cases H; norm; reflexivity. Qed.


(* ---------------------------------------------------------------------------------------- *)
(* A1: semaphore::splock — who holds it, as a function of the program counters *)
Definition pik_sp (kk : pikont) : bool := match kk with KIntr => false | _ => true end.
Definition holds_sp (p : pc) : bool :=
  match p with
  | Idle | WLock1 _ | WAsleep _ | WLock2 _ _ | SLock _
  | IRead _ _ | IOutChk _ _ _ | IOutSet _ _ | ILock _ _ | IRecheck _ _ | IUnlockOut _ _ _ | IUnlock _ => false
  | PIQLock kk _ | PIDeq kk _ | PIState kk _ => pik_sp kk
  | _ => true
  end.
Definition sp_trans (p p' : pc) (l l' : option part) (t : nat) : Prop :=
  (holds_sp p = holds_sp p' /\ l' = l) \/
  (holds_sp p = false /\ holds_sp p' = true /\ l = None /\ l' = Some (PT t)) \/
  (holds_sp p = true /\ holds_sp p' = false /\ l' = None).

Lemma tstep_sp s t s' : tstep s t = Some s' ->
  (t < nthreads s)%nat /\ sp_trans (pcof s t) (pcof s' t) (splock s) (splock s') t.
Proof.
  intros H. tstep_cases H; apply ltb_lt in Hlt; (split; [assumption|]); norm;
    unfold pcof; try rewrite Hpc; unfold sp_trans; cbn [holds_sp pik_sp]; try (left; split; reflexivity); auto.
  all: try (right; left; repeat split; auto; fail).
  all: try (right; right; repeat split; auto; fail).
Qed.

Lemma tstep_nthreads s t s' : tstep s t = Some s' -> nthreads s' = nthreads s.
Proof. intros H. tstep_cases H; norm; reflexivity. Qed.

Definition sp_inv (s : state) : Prop :=
  (forall t, (t < nthreads s)%nat -> holds_sp (pcof s t) = true -> splock s = Some (PT t)) /\
  (forall p, splock s = Some p -> exists t, p = PT t /\ (t < nthreads s)%nat /\ holds_sp (pcof s t) = true).

Lemma sp_inv_tstep s t s' : sp_inv s -> tstep s t = Some s' -> sp_inv s'.
Proof.
  intros [I1 I2] H. pose proof (tstep_nthreads _ _ _ H) as Hn.
  pose proof (tstep_sp _ _ _ H) as [Ht Tr].
  assert (Fr : forall t', t' <> t -> pcof s' t' = pcof s t') by (intros; eapply tstep_pc_frame; eauto).
  split.
  - intros t' Hl Hh. rewrite Hn in Hl. destruct (Nat.eq_dec t' t) as [->|N].
    + destruct Tr as [[E1 E2]|[(E1&E2&E3&E4)|(E1&E2&E3)]]; try congruence.
      rewrite E2. apply I1; auto. congruence.
    + rewrite Fr in Hh by auto. pose proof (I1 _ Hl Hh) as Hx.
      destruct Tr as [[E1 E2]|[(E1&E2&E3&E4)|(E1&E2&E3)]]; try congruence.
      pose proof (I1 t Ht E1) as Hy. congruence.
  - intros p Hp. destruct Tr as [[E1 E2]|[(E1&E2&E3&E4)|(E1&E2&E3)]]; try congruence.
    + rewrite E2 in Hp. destruct (I2 _ Hp) as (t'&->&Hl&Hh). exists t'. rewrite Hn. repeat split; auto.
      destruct (Nat.eq_dec t' t) as [->|N]; [congruence|rewrite Fr; auto].
    + exists t. rewrite Hn. repeat split; auto; congruence.
Qed.

(* the other labels do not touch splock, nor any program counter that holds it *)
Lemma start_effect s t o s' : start s t o = Some s' ->
  (t < nthreads s)%nat /\ nthreads s' = nthreads s /\ pcof s t = Idle /\ holds_sp (pcof s' t) = false /\
  (forall t', t' <> t -> pcof s' t' = pcof s t') /\
  splock s' = splock s /\ qlock s' = qlock s /\ queue s' = queue s /\ m_count s' = m_count s /\ vcpus s' = vcpus s /\
  g_sig s' = g_sig s /\ g_ret0 s' = g_ret0 s /\ g_rets s' = g_rets s /\ g_init s' = g_init s /\ ooo s' = ooo s.
Proof.
  intros H. start_cases H; apply ltb_lt in Hlt; repeat split; auto; intros; norm; unfold pcof; try rewrite Hpc;
    cbn [holds_sp]; reflexivity.
Qed.

Lemma vstep_effect s v s' : vstep s v = Some s' ->
  nthreads s' = nthreads s /\ (forall t, pcof s' t = pcof s t) /\ splock s' = splock s /\ m_count s' = m_count s /\
  g_sig s' = g_sig s /\ g_ret0 s' = g_ret0 s /\ g_rets s' = g_rets s /\ g_init s' = g_init s /\ ooo s' = ooo s.
Proof. intros H. vstep_cases H; norm; repeat split; auto; intros; norm; reflexivity. Qed.

Lemma sched_effect s l s' : step s l = Some s' ->
  match l with LRun _ | LStandby _ _ | LExpire _ _ | LTick _ => True | _ => False end ->
  nthreads s' = nthreads s /\ (forall t, pcof s' t = pcof s t) /\ splock s' = splock s /\ m_count s' = m_count s /\
  g_sig s' = g_sig s /\ g_ret0 s' = g_ret0 s /\ g_rets s' = g_rets s /\ g_init s' = g_init s /\ ooo s' = ooo s /\
  qlock s' = qlock s /\ queue s' = queue s.
Proof.
  intros H L. destruct l; try contradiction; simpl in H;
  repeat match type of H with
  | None = Some _ => discriminate
  | context [match ?x with _ => _ end] => destruct x eqn:?
  end; try discriminate; inv_some H; norm; repeat split; auto; intros; norm; reflexivity.
Qed.

Lemma sp_inv_frame s s' : sp_inv s -> nthreads s' = nthreads s -> (forall t, pcof s' t = pcof s t) ->
  splock s' = splock s -> sp_inv s'.
Proof.
  intros [I1 I2] Hn Hp Hs. split.
  - intros t Hl Hh. rewrite Hn in Hl. rewrite Hp in Hh. rewrite Hs. auto.
  - intros p Hq. rewrite Hs in Hq. destruct (I2 _ Hq) as (t&->&Hl&Hh). exists t. rewrite Hn, Hp. auto.
Qed.

Lemma sp_inv_step s l s' : sp_inv s -> step s l = Some s' -> sp_inv s'.
Proof.
  intros Iv H. destruct l.
  - simpl in H. destruct (start_effect _ _ _ _ H) as (Ht&Hn&Hi&Hh&Fr&Hs&_).
    destruct Iv as [I1 I2]. split.
    + intros t' Hl Hh'. rewrite Hn in Hl. rewrite Hs. destruct (Nat.eq_dec t' t) as [->|N]; [congruence|].
      rewrite Fr in Hh' by auto. auto.
    + intros p Hp. rewrite Hs in Hp. destruct (I2 _ Hp) as (t'&->&Hl&Hh'). exists t'. rewrite Hn. repeat split; auto.
      destruct (Nat.eq_dec t' t) as [->|N]; [rewrite Hi in Hh'; discriminate|rewrite Fr; auto].
  - eapply sp_inv_tstep; eauto.
  - destruct (sched_effect _ _ _ H Logic.I) as (Hn&Hp&Hs&_). eapply sp_inv_frame; eauto.
  - destruct (sched_effect _ _ _ H Logic.I) as (Hn&Hp&Hs&_). eapply sp_inv_frame; eauto.
  - destruct (sched_effect _ _ _ H Logic.I) as (Hn&Hp&Hs&_). eapply sp_inv_frame; eauto.
  - simpl in H. destruct (vstep_effect _ _ _ H) as (Hn&Hp&Hs&_). eapply sp_inv_frame; eauto.
  - destruct (sched_effect _ _ _ H Logic.I) as (Hn&Hp&Hs&_). eapply sp_inv_frame; eauto.
Qed.

(* ---------------------------------------------------------------------------------------- *)
(* sums over the thread table *)
Fixpoint tsum (F : thread -> Z) (l : list thread) : Z :=
  match l with [] => 0 | th :: r => F th + tsum F r end.
Lemma tsum_upd F l i v : (i < length l)%nat -> tsum F (upd_nth l i v) = tsum F l - F (nth i l thread0) + F v.
Proof. revert i; induction l; destruct i; simpl; intros; try lia. rewrite IHl by lia. lia. Qed.
Definition ssum (F : thread -> Z) (s : state) : Z := tsum F (threads s).
Lemma ssum_modth F s x f : (x < nthreads s)%nat -> ssum F (modth s x f) = ssum F s - F (getth s x) + F (f (getth s x)).
Proof. intros. unfold ssum, modth, setth; simpl. rewrite tsum_upd by auto. reflexivity. Qed.
Lemma ssum_modth_keep F s x f : (forall th, F (f th) = F th) -> ssum F (modth s x f) = ssum F s.
Proof.
  intros H. destruct (lt_dec x (nthreads s)).
  - rewrite ssum_modth by auto. rewrite H. lia.
  - unfold ssum, modth, setth; simpl. rewrite upd_nth_oob; auto. unfold nthreads in *; lia.
Qed.
Lemma ssum_nonneg F s : (forall th, 0 <= F th) -> 0 <= ssum F s.
Proof. intros H. unfold ssum. induction (threads s); simpl; [lia|]. specialize (H a). lia. Qed.
Lemma ssum_set_now F s v : ssum F (set_now s v) = ssum F s. Proof. reflexivity. Qed.
Lemma ssum_set_count F s v : ssum F (set_count s v) = ssum F s. Proof. reflexivity. Qed.
Lemma ssum_set_splock F s v : ssum F (set_splock s v) = ssum F s. Proof. reflexivity. Qed.
Lemma ssum_set_qlock F s v : ssum F (set_qlock s v) = ssum F s. Proof. reflexivity. Qed.
Lemma ssum_set_queue F s v : ssum F (set_queue s v) = ssum F s. Proof. reflexivity. Qed.
Lemma ssum_set_vcpus F s v : ssum F (set_vcpus s v) = ssum F s. Proof. reflexivity. Qed.
Lemma ssum_set_gsig F s v : ssum F (set_gsig s v) = ssum F s. Proof. reflexivity. Qed.
Lemma ssum_set_gret0 F s v : ssum F (set_gret0 s v) = ssum F s. Proof. reflexivity. Qed.
Lemma ssum_set_grets F s v : ssum F (set_grets s v) = ssum F s. Proof. reflexivity. Qed.
Lemma ssum_set_gcrash F s v : ssum F (set_gcrash s v) = ssum F s. Proof. reflexivity. Qed.
Lemma ssum_set_grefail F s v : ssum F (set_grefail s v) = ssum F s. Proof. reflexivity. Qed.
Lemma ssum_set_gwakes F s v : ssum F (set_gwakes s v) = ssum F s. Proof. reflexivity. Qed.
Lemma ssum_setv F s v p : ssum F (setv s v p) = ssum F s. Proof. reflexivity. Qed.
Global Hint Rewrite ssum_set_now ssum_set_count ssum_set_splock ssum_set_qlock ssum_set_queue ssum_set_vcpus ssum_set_gsig ssum_set_gret0 ssum_set_grets ssum_set_gcrash ssum_set_grefail ssum_set_gwakes ssum_setv : st.

(* ---------------------------------------------------------------------------------------- *)
(* local well-formedness of the program counters (facts each thread knows about its locals) *)
Definition caller_args (k : caller) : option wargs := match k with CWaitFail a _ _ => Some a | _ => None end.
Definition pik_caller (kk : pikont) : option caller :=
  match kk with KHead k _ | KScan k _ _ => Some k | KIntr => None end.
Definition pc_caller (p : pc) : option caller :=
  match p with
  | TRHead k _ | TRLockX k _ _ | TRRecheck k _ _ | TRUnlockRetry k _ _ | TRCmp k _ _ | TRUnlockBreak k _ _
  | TRUnlockLoop k _ _ | TRTail k _ | SCQLock k _ | SCTLock k _ _ | SCCmp k _ _ | SCTUnlock k _ _ | SCQUnlock k => Some k
  | PIQLock kk _ | PIDeq kk _ | PIState kk _ => pik_caller kk
  | _ => None
  end.
Definition pc_args (p : pc) : option wargs :=
  match p with
  | WLock1 a | WLoad a | WCas a _ | WQLock a | WTLock a | WEnq a | WQUnlock a | WDefer a | WAsleep a
  | WLock2 a _ | WFailLoad a _ | WRet a _ _ => Some a
  | _ => match pc_caller p with Some k => caller_args k | None => None end
  end.
Definition args_ok (a : wargs) : Prop := 0 < w_c a < W64.
Definition pc_wf (p : pc) : Prop :=
  (forall a, pc_args p = Some a -> args_ok a) /\
  match p with
  | WCas a mc => w_c a <= mc
  | WLock2 _ r => r = 0 \/ r = -1
  | WFailLoad _ r => r = -1
  | WRet a r took => (r = 0 /\ took = w_c a) \/ (r = -1 /\ took = 0)
  | SLock n | SAdd n _ => 0 < n < W64
  | _ => match pc_caller p with Some (CWaitFail _ r _) => r = -1 | _ => True end
  end.

Ltac zb := repeat match goal with
  | H : (_ <? _) = true |- _ => apply Z.ltb_lt in H
  | H : (_ <? _) = false |- _ => apply Z.ltb_ge in H
  | H : (_ <=? _) = true |- _ => apply Z.leb_le in H
  | H : (_ <=? _) = false |- _ => apply Z.leb_gt in H
  | H : (_ =? _) = true |- _ => apply Z.eqb_eq in H
  | H : (_ =? _) = false |- _ => apply Z.eqb_neq in H
  | H : negb _ = false |- _ => apply negb_false_iff in H
  | H : negb _ = true |- _ => apply negb_true_iff in H
  | H : _ && _ = true |- _ => apply andb_true_iff in H; destruct H
  end.

Lemma tstep_pcwf s t s' : tstep s t = Some s' -> pc_wf (pcof s t) -> pc_wf (pcof s' t).
Proof.
  intros H. tstep_cases H; apply ltb_lt in Hlt; norm; unfold pcof; try rewrite Hpc; auto;
    unfold pc_wf; cbn [pc_args pc_caller pik_caller caller_args]; intros [W1 W2]; (split; [first [exact W1 | (intros ? E; discriminate E) | (intros ? E; inv_some E; apply W1; reflexivity)]|]); zb; auto; try lia.
  all: try (destruct W2 as [W2|W2]; lia).
Qed.

Lemma start_pcwf s t o s' : start s t o = Some s' -> pc_wf (pcof s' t).
Proof.
  intros H. start_cases H; apply ltb_lt in Hlt; norm; unfold pcof; try rewrite Hpc;
    unfold pc_wf, args_ok; cbn [pc_args pc_caller pik_caller caller_args]; (split; [intros a' E; try discriminate; inv_some E; cbn [w_c]|]); zb; auto; try lia.
Qed.

Definition pcwf_inv (s : state) : Prop := forall t, (t < nthreads s)%nat -> pc_wf (pcof s t).

Lemma pcwf_inv_step s l s' : pcwf_inv s -> step s l = Some s' -> pcwf_inv s'.
Proof.
  intros Iv H t' Hl. destruct l.
  - simpl in H. destruct (start_effect _ _ _ _ H) as (Ht&Hn&Hi&Hh&Fr&_). rewrite Hn in Hl.
    destruct (Nat.eq_dec t' t) as [->|N]; [eapply start_pcwf; eauto|rewrite Fr; auto].
  - simpl in H. rewrite (tstep_nthreads _ _ _ H) in Hl.
    destruct (Nat.eq_dec t' t) as [->|N]; [eapply tstep_pcwf; eauto|erewrite tstep_pc_frame; eauto].
  - destruct (sched_effect _ _ _ H Logic.I) as (Hn&Hp&_). rewrite Hn in Hl. rewrite Hp; auto.
  - destruct (sched_effect _ _ _ H Logic.I) as (Hn&Hp&_). rewrite Hn in Hl. rewrite Hp; auto.
  - destruct (sched_effect _ _ _ H Logic.I) as (Hn&Hp&_). rewrite Hn in Hl. rewrite Hp; auto.
  - simpl in H. destruct (vstep_effect _ _ _ H) as (Hn&Hp&_). rewrite Hn in Hl. rewrite Hp; auto.
  - destruct (sched_effect _ _ _ H Logic.I) as (Hn&Hp&_). rewrite Hn in Hl. rewrite Hp; auto.
Qed.

(* ---------------------------------------------------------------------------------------- *)
(* T1: conservation of tokens *)
(* tokens already subtracted by a wait call that has not returned yet (it will return 0) *)
Definition infl (th : thread) : Z := match t_pc th with WRet _ 0 took => took | _ => 0 end.
Definition inflight (s : state) : Z := ssum infl s.
(* what the counter would be without the 2^64 wrap *)
Definition tokens (s : state) : Z := g_init s + g_sig s - g_ret0 s - inflight s.

Ltac sums F :=
  repeat first [ rewrite ssum_modth_keep by (intros; reflexivity)
               | rewrite ssum_modth by (autorewrite with st; auto)
               | rewrite (getth_modth_frame F) by (intros; reflexivity)
               | progress (autorewrite with st) ].

Lemma infl_pc th p : infl (set_pc th p) = match p with WRet _ 0 took => took | _ => 0 end.
Proof. reflexivity. Qed.

Lemma infl_at s t p : t_pc (getth s t) = p -> infl (getth s t) = match p with WRet _ 0 took => took | _ => 0 end.
Proof. intros <-. reflexivity. Qed.

Lemma tstep_ledger s t s' : tstep s t = Some s' -> pc_wf (pcof s t) ->
  (m_count s' = m_count s /\ tokens s' = tokens s) \/
  (exists n ep, pcof s t = SAdd n ep /\ m_count s' = wrap (m_count s + n) /\ tokens s' = tokens s + n) \/
  (exists a, pcof s t = WCas a (m_count s) /\ m_count s' = m_count s - w_c a /\ tokens s' = tokens s - w_c a).
Proof.
  intros H. unfold pcof, tokens, inflight.
  tstep_cases H; apply ltb_lt in Hlt; intros [W1 W2]; unf; brk; sums infl; rewrite ?infl_pc, ?(infl_at _ _ _ Hpc);
    try (left; split; [reflexivity|lia]).
  all: zb; subst.
  all: try (left; split; [reflexivity|]; destruct ret; try lia; try congruence; destruct W2 as [[? ?]|[? ?]]; try lia; try congruence; fail).
  all: try (left; split; [reflexivity|]; lia).
  - right; right. exists a. repeat split; auto. lia.
  - right; left. exists n, ep. repeat split; auto. lia.
Qed.

Lemma other_ledger s l s' : step s l = Some s' -> match l with LAdv _ => False | _ => True end ->
  m_count s' = m_count s /\ tokens s' = tokens s.
Proof.
  intros H L. unfold tokens, inflight. destruct l; try contradiction; simpl in H.
  - start_cases H; apply ltb_lt in Hlt; unf; sums infl; rewrite ?infl_pc, ?(infl_at _ _ _ Hpc); split; auto; lia.
  - repeat match type of H with
    | None = Some _ => discriminate
    | context [match ?x with _ => _ end] => destruct x eqn:?
    end; try discriminate; inv_some H; sums infl; auto.
  - repeat match type of H with
    | None = Some _ => discriminate
    | context [match ?x with _ => _ end] => destruct x eqn:?
    end; try discriminate; inv_some H; sums infl; auto.
  - repeat match type of H with
    | None = Some _ => discriminate
    | context [match ?x with _ => _ end] => destruct x eqn:?
    end; try discriminate; inv_some H; sums infl; auto.
  - vstep_cases H; sums infl; auto.
  - destruct (0 <=? d); inv_some H; sums infl; auto.
Qed.

Definition cons_inv (s : state) : Prop :=
  pcwf_inv s /\ 0 <= m_count s < W64 /\ m_count s mod W64 = tokens s mod W64 /\ m_count s <= tokens s.

Lemma cons_inv_step s l s' : cons_inv s -> step s l = Some s' -> cons_inv s'.
Proof.
  intros (Iw&Ir&Im&Il) H. split; [eapply pcwf_inv_step; eauto|].
  destruct l; try (destruct (other_ledger _ _ _ H Logic.I) as [E1 E2]; rewrite E1, E2; auto).
  simpl in H. pose proof (tstep_sp _ _ _ H) as [Ht _].
  destruct (tstep_ledger _ _ _ H (Iw _ Ht)) as [[E1 E2]|[(n&ep&Ep&E1&E2)|(a&Ep&E1&E2)]]; rewrite E1, E2.
  - auto.
  - pose proof (Iw _ Ht) as [_ W2]. rewrite Ep in W2. unfold wrap. pose proof W64_pos.
    repeat split.
    + apply Z.mod_pos_bound; lia. + apply Z.mod_pos_bound; lia.
    + rewrite Z.mod_mod by lia. rewrite Z.add_mod by lia. rewrite Im. rewrite <- Z.add_mod by lia. reflexivity.
    + transitivity (m_count s + n); [apply Z.mod_le; lia|lia].
  - pose proof (Iw _ Ht) as [W1 W2]. rewrite Ep in W1, W2. specialize (W1 a eq_refl). unfold args_ok in W1. pose proof W64_pos.
    repeat split; try lia.
    rewrite Zminus_mod. rewrite Im. rewrite <- Zminus_mod. reflexivity.
Qed.

Lemma reachable_inv (P : state -> Prop) s0 : P s0 -> (forall s l s', P s -> step s l = Some s' -> P s') ->
  forall s, reachable s0 s -> P s.
Proof. intros H0 Hs s R. induction R; eauto. Qed.

Lemma init_nthreads c o ths nv : nthreads (init c o ths nv) = length ths.
Proof. unfold nthreads, init; simpl. apply map_length. Qed.
Lemma init_pcof c o ths nv t : pcof (init c o ths nv) t = Idle.
Proof.
  unfold pcof, getth, init; simpl. revert t; induction ths; destruct t; simpl; auto.
Qed.
Lemma init_ssum F c o ths nv : (forall vc, F (mk_thread vc Running) = 0) -> ssum F (init c o ths nv) = 0.
Proof. intros H. unfold ssum, init; simpl. induction ths; simpl; auto. rewrite H, IHths. reflexivity. Qed.

Lemma cons_inv_init c o ths nv : 0 <= c < W64 -> cons_inv (init c o ths nv).
Proof.
  intros Hc. unfold cons_inv. split.
  - intros t _. rewrite init_pcof. split; [discriminate|exact Logic.I].
  - unfold tokens, inflight. rewrite init_ssum by reflexivity. simpl. repeat split; try lia. f_equal; lia.
Qed.

Lemma sp_inv_init c o ths nv : sp_inv (init c o ths nv).
Proof.
  split.
  - intros t _ H. rewrite init_pcof in H. discriminate.
  - simpl. discriminate.
Qed.

Lemma tstep_gret0 s t s' : tstep s t = Some s' -> pc_wf (pcof s t) -> g_ret0 s <= g_ret0 s'.
Proof.
  intros H. unfold pcof. tstep_cases H; intros [W1 W2]; rewrite ?Hpc in *; unf; brk; st; try lia.
  all: specialize (W1 a eq_refl); unfold args_ok in W1; destruct W2 as [[? ?]|[? ?]]; lia.
Qed.
Lemma gret0_mono s l s' : pcwf_inv s -> step s l = Some s' -> g_ret0 s <= g_ret0 s'.
Proof.
  intros Iw H. destruct l.
  - simpl in H. destruct (start_effect _ _ _ _ H) as (_&_&_&_&_&_&_&_&_&_&_&E&_). lia.
  - simpl in H. pose proof (tstep_sp _ _ _ H) as [Ht _]. eapply tstep_gret0; eauto.
  - destruct (sched_effect _ _ _ H Logic.I) as (_&_&_&_&_&E&_). lia.
  - destruct (sched_effect _ _ _ H Logic.I) as (_&_&_&_&_&E&_). lia.
  - destruct (sched_effect _ _ _ H Logic.I) as (_&_&_&_&_&E&_). lia.
  - simpl in H. destruct (vstep_effect _ _ _ H) as (_&_&_&_&_&E&_). lia.
  - destruct (sched_effect _ _ _ H Logic.I) as (_&_&_&_&_&E&_). lia.
Qed.

Lemma ssum_nonneg_idx F s : (forall t, (t < nthreads s)%nat -> 0 <= F (getth s t)) -> 0 <= ssum F s.
Proof.
  unfold ssum, nthreads, getth. induction (threads s) as [|th r IH]; simpl; intros H; [lia|].
  pose proof (H O ltac:(lia)) as H0. simpl in H0.
  assert (0 <= tsum F r). { apply IH. intros t Ht. apply (H (S t)). lia. }
  lia.
Qed.

Lemma inflight_nonneg s : pcwf_inv s -> 0 <= inflight s.
Proof.
  intros Iw. apply ssum_nonneg_idx. intros t Ht. specialize (Iw t Ht). unfold pcof in Iw. unfold infl.
  destruct (t_pc (getth s t)); try lia. destruct Iw as [W1 W2]. specialize (W1 a eq_refl). unfold args_ok in W1.
  destruct ret; lia.
Qed.

(* conservation, in every reachable state, for every interleaving *)
Lemma conservation c o ths nv s : 0 <= c < W64 -> reachable (init c o ths nv) s ->
  (g_ret0 s + inflight s + m_count s) mod W64 = (g_init s + g_sig s) mod W64 /\
  g_ret0 s + inflight s + m_count s <= g_init s + g_sig s /\
  0 <= m_count s < W64 /\ 0 <= g_ret0 s /\ 0 <= inflight s /\
  (g_init s + g_sig s < W64 -> g_ret0 s + inflight s + m_count s = g_init s + g_sig s).
Proof.
  intros Hc R.
  assert (I : cons_inv s /\ 0 <= g_ret0 s).
  { eapply (reachable_inv (fun s => cons_inv s /\ 0 <= g_ret0 s)); [| |exact R].
    - split; [apply cons_inv_init; auto|simpl; lia].
    - intros s1 l s2 [I1 I2] H. split; [eapply cons_inv_step; eauto|].
      destruct I1 as (Iw&_). pose proof (gret0_mono _ _ _ Iw H). lia. }
  destruct I as ((Iw&Ir&Im&Il)&Ig). pose proof (inflight_nonneg _ Iw) as Hi. unfold tokens in *. pose proof W64_pos.
  assert (E : (g_ret0 s + inflight s + m_count s) mod W64 = (g_init s + g_sig s) mod W64).
  { replace (g_init s + g_sig s) with ((g_init s + g_sig s - g_ret0 s - inflight s) + (g_ret0 s + inflight s)) by lia.
    rewrite (Z.add_mod (g_init s + g_sig s - g_ret0 s - inflight s)) by lia. rewrite <- Im.
    rewrite <- Z.add_mod by lia. f_equal; lia. }
  repeat split; try lia; auto.
  intros Hb. rewrite !Z.mod_small in E by lia. exact E.
Qed.

(* ---------------------------------------------------------------------------------------- *)
(* T2: safe to destroy after wait.  A signal call that has acquired splock (ghost epoch `ep` =
   number of wait returns at that moment) performs ALL its remaining accesses before any wait
   call returns: while it is in flight, g_rets is still `ep`. *)
Definition caller_ep (k : caller) : option nat := match k with CSignal ep => Some ep | _ => None end.
Definition sig_ep (p : pc) : option nat :=
  match p with
  | SAdd _ ep | SUnlock ep => Some ep
  | _ => match pc_caller p with Some k => caller_ep k | None => None end
  end.
Lemma sig_ep_holds p ep : sig_ep p = Some ep -> holds_sp p = true.
Proof. destruct p; simpl; try discriminate; auto; destruct kk; simpl; auto; discriminate. Qed.

Lemma tstep_ep s t s' : tstep s t = Some s' ->
  (forall ep, sig_ep (pcof s' t) = Some ep -> sig_ep (pcof s t) = Some ep \/ ep = g_rets s') /\
  (g_rets s' = g_rets s \/ exists a r k, pcof s t = WRet a r k).
Proof.
  intros H. tstep_cases H; apply ltb_lt in Hlt; norm; unfold pcof; rewrite ?Hpc;
    cbn [sig_ep pc_caller pik_caller caller_ep]; (split; [intros ep0 E; try discriminate; auto; try (inv_some E; auto)|]); eauto.
Qed.

Definition ep_inv (s : state) : Prop :=
  forall t ep, (t < nthreads s)%nat -> sig_ep (pcof s t) = Some ep -> ep = g_rets s.

Lemma ep_inv_step s l s' : sp_inv s -> ep_inv s -> step s l = Some s' -> ep_inv s'.
Proof.
  intros [S1 S2] Iv H t' ep Hl He. destruct l.
  - simpl in H. destruct (start_effect _ _ _ _ H) as (Ht&Hn&Hi&Hh&Fr&_&_&_&_&_&_&_&Er&_). rewrite Hn in Hl. rewrite Er.
    destruct (Nat.eq_dec t' t) as [->|N]; [apply sig_ep_holds in He; congruence|rewrite Fr in He; eauto].
  - simpl in H. rewrite (tstep_nthreads _ _ _ H) in Hl. pose proof (tstep_sp _ _ _ H) as [Ht _].
    destruct (tstep_ep _ _ _ H) as [E1 E2].
    destruct (Nat.eq_dec t' t) as [->|N].
    + destruct (E1 _ He) as [E|E]; auto. specialize (Iv _ _ Hl E).
      destruct E2 as [E2|(a&r&k&E2)]; [congruence|]. rewrite E2 in E. discriminate.
    + erewrite tstep_pc_frame in He by eauto. specialize (Iv _ _ Hl He).
      destruct E2 as [E2|(a&r&k&E2)]; [congruence|].
      apply sig_ep_holds in He. pose proof (S1 _ Hl He) as Hx.
      assert (Hy : holds_sp (pcof s t) = true) by (rewrite E2; reflexivity).
      pose proof (S1 _ Ht Hy). congruence.
  - destruct (sched_effect _ _ _ H Logic.I) as (Hn&Hp&_&_&_&_&Er&_). rewrite Hn in Hl. rewrite Hp in He. rewrite Er. eauto.
  - destruct (sched_effect _ _ _ H Logic.I) as (Hn&Hp&_&_&_&_&Er&_). rewrite Hn in Hl. rewrite Hp in He. rewrite Er. eauto.
  - destruct (sched_effect _ _ _ H Logic.I) as (Hn&Hp&_&_&_&_&Er&_). rewrite Hn in Hl. rewrite Hp in He. rewrite Er. eauto.
  - simpl in H. destruct (vstep_effect _ _ _ H) as (Hn&Hp&_&_&_&_&Er&_). rewrite Hn in Hl. rewrite Hp in He. rewrite Er. eauto.
  - destruct (sched_effect _ _ _ H Logic.I) as (Hn&Hp&_&_&_&_&Er&_). rewrite Hn in Hl. rewrite Hp in He. rewrite Er. eauto.
Qed.

Lemma sp_inv_reachable c o ths nv s : reachable (init c o ths nv) s -> sp_inv s.
Proof. apply reachable_inv; [apply sp_inv_init|apply sp_inv_step]. Qed.

Lemma destroy_safe c o ths nv s : reachable (init c o ths nv) s ->
  forall t ep, (t < nthreads s)%nat -> sig_ep (pcof s t) = Some ep -> ep = g_rets s.
Proof.
  intros R.
  assert (I : sp_inv s /\ ep_inv s).
  { eapply (reachable_inv (fun s => sp_inv s /\ ep_inv s)); [| |exact R].
    - split; [apply sp_inv_init|]. intros t ep _ E. rewrite init_pcof in E. discriminate.
    - intros s1 l s2 [I1 I2] H. split; [eapply sp_inv_step; eauto|eapply ep_inv_step; eauto]. }
  exact (proj2 I).
Qed.

(* at the moment a wait call returns (it is at its final unlock), no signal call is inside *)
Lemma destroy_safe_at_return c o ths nv s : reachable (init c o ths nv) s ->
  forall t a r k, (t < nthreads s)%nat -> pcof s t = WRet a r k ->
  forall t', (t' < nthreads s)%nat -> sig_ep (pcof s t') = None.
Proof.
  intros R t a r k Ht Hp t' Ht'. destruct (sp_inv_reachable _ _ _ _ _ R) as [S1 _].
  destruct (sig_ep (pcof s t')) eqn:E0; auto. pose proof (sig_ep_holds _ _ E0) as E.
  assert (Hy : holds_sp (pcof s t) = true) by (rewrite Hp; reflexivity).
  pose proof (S1 _ Ht Hy). pose proof (S1 _ Ht' E). assert (t = t') by congruence. subst.
  rewrite Hp in E0. simpl in E0. discriminate.
Qed.

