(* Extraction of the C02 model: ExtrOcamlBasic only. *)
From Coq Require Import ZArith List.
From PV Require Import C02.C02_Model C02.C02_Coop.
Require Extraction.
Require Import ExtrOcamlBasic.
Extraction "c02_model.ml" sem_run sem_init run init step.
