(* C02_Flow2.v — what one step does to every thread's error_number (in-order mode), and the
   error number carried by a thread_interrupt call. *)
From Coq Require Import ZArith List Bool Arith Lia.
From PV Require Import Base.U64 C02.C02_Model C02.C02_Base C02.C02_Cons C02.C02_Locks C02.C02_Locks2 C02.C02_Locks3 C02.C02_Summ C02.C02_Credit C02.C02_Struct C02.C02_Flow.
Import ListNotations.
Local Open Scope Z_scope.

Definition ipc_e (p : pc) : option Z :=
  match p with
  | IRead _ e | IOutChk _ e _ | IOutSet _ e | ILock _ e | IRecheck _ e | IUnlockOut _ e _ => Some e
  | _ => None
  end.
Definition eff_err (t : nat) (p : pc) (y : nat) (old new : Z) (pd' : bool) : Prop :=
  match p with
  | TRCmp _ _ x => if Nat.eqb x y then (new = -1 /\ pd' = true) \/ new = old else new = old
  | IOutSet x e | IRecheck x e => if Nat.eqb x y then new = e \/ new = old else new = old
  | WAsleep _ => if Nat.eqb t y then new = 0 else new = old
  | _ => new = old
  end.

Lemma tstep_err s t s' : tstep s t = Some s' -> ooo s = false -> noscan (pcof s t) = true ->
  (forall y, eff_err t (pcof s t) y (errof s y) (errof s' y) (pend s' y)) /\
  (forall e, ipc_e (pcof s' t) = Some e -> ipc_e (pcof s t) = Some e).
Proof.
  intros H Ho. tstep_cases H; apply ltb_lt in Hlt; norm; unfold pcof at 1; rewrite ?Hpc; cbn [noscan]; intros Hn; try discriminate Hn;
    unfold pcof; rewrite ?Hpc; cbn [eff_err ipc_e]; zb;
    (split; [intros y; unfold errof, pend; fl2; eqbs2|intros e0 E0; try discriminate E0; auto]).
Qed.

Lemma vstep_err s v s' : vstep s v = Some s' -> forall y, errof s' y = errof s y.
Proof. intros H y. vstep_cases H; unfold errof; fl2; eqbs2. Qed.
Lemma start_err s t o s' : start s t o = Some s' -> forall y, errof s' y = errof s y.
Proof. intros H y. start_cases H; unfold errof; unf; fl2; eqbs2. Qed.
Lemma sched_err s l s' : step s l = Some s' ->
  match l with LRun _ | LStandby _ _ | LExpire _ _ | LTick _ => True | _ => False end ->
  forall y, errof s' y = errof s y.
Proof.
  intros H L y. destruct l; try contradiction; simpl in H;
  repeat match type of H with
  | None = Some _ => discriminate
  | context [match ?x with _ => _ end] => destruct x eqn:?
  end; try discriminate; inv_some H; unfold errof; fl2; eqbs2.
Qed.
