(* C02_Flow3.v — small model-level facts: which steps acquire splock; g_refail under the other labels;
   waitq flag vs queue membership under a vCPU step. *)
From Coq Require Import ZArith List Bool Arith Lia.
From PV Require Import Base.U64 C02.C02_Model C02.C02_Base C02.C02_Cons C02.C02_Locks C02.C02_Locks2 C02.C02_Locks3 C02.C02_Summ C02.C02_Credit C02.C02_Struct C02.C02_Other.
Import ListNotations.
Local Open Scope Z_scope.

Definition acqfrom (p : pc) : bool := match p with WLock1 _ | WLock2 _ _ | SLock _ => true | _ => false end.
Lemma tstep_acquire_from s t s' : tstep s t = Some s' -> holds_sp (pcof s t) = false -> holds_sp (pcof s' t) = true ->
  acqfrom (pcof s t) = true.
Proof.
  intros H. tstep_cases H; apply ltb_lt in Hlt; norm; unfold pcof; rewrite ?Hpc; cbn [holds_sp pik_sp acqfrom];
    intros A B; try discriminate; try congruence; reflexivity.
Qed.

Lemma vstep_refail s v s' : vstep s v = Some s' -> g_refail s' = g_refail s.
Proof. intros H. vstep_cases H; autorewrite with st; reflexivity. Qed.
Lemma start_refail s t o s' : start s t o = Some s' -> g_refail s' = g_refail s.
Proof. intros H. start_cases H; unf; autorewrite with st; reflexivity. Qed.
Lemma sched_refail s l s' : step s l = Some s' ->
  match l with LRun _ | LStandby _ _ | LExpire _ _ | LTick _ => True | _ => False end -> g_refail s' = g_refail s.
Proof.
  intros H L. destruct l; try contradiction; simpl in H;
  repeat match type of H with
  | None = Some _ => discriminate
  | context [match ?x with _ => _ end] => destruct x eqn:?
  end; try discriminate; inv_some H; autorewrite with st; reflexivity.
Qed.

Lemma in_remove_other x y l : In y l -> x <> y -> In y (remove_tid x l).
Proof.
  induction l as [|a r IH]; simpl; [auto|]. intros [E|Hi] N.
  - subst. destruct (Nat.eqb_spec y x); [congruence|left; reflexivity].
  - destruct (Nat.eqb a x); [exact Hi|right; auto].
Qed.

Lemma vstep_inq_queue s v s' y : vstep s v = Some s' -> (y < nthreads s)%nat -> inq s' y = true ->
  inq s y = true /\ (In y (queue s) -> In y (queue s')).
Proof.
  intros H Hy. vstep_cases H; unfold inq; fl; eqbs2; intros E; try discriminate E; split; auto.
  all: intros Hi; apply in_remove_other; auto.
Qed.
