(* C02_Locks.v — ownership of waitq::q.lock and of every thread::lock as a function of the program
   counters (footprint_protected), in-order resume mode, for every interleaving. *)
From Coq Require Import ZArith List Bool Arith Lia.
From PV Require Import Base.U64 C02.C02_Model C02.C02_Base.
Import ListNotations.
Local Open Scope Z_scope.

(* ---- in in-order mode the scan pcs are never reached ---- *)
Definition noscan (p : pc) : bool :=
  match p with
  | SCQLock _ _ | SCTLock _ _ _ | SCCmp _ _ _ | SCTUnlock _ _ _ | SCQUnlock _ | Crashed => false
  | PIQLock (KScan _ _ _) _ | PIDeq (KScan _ _ _) _ | PIState (KScan _ _ _) _ => false
  | _ => true
  end.

Lemma tstep_ooo s t s' : tstep s t = Some s' -> ooo s' = ooo s.
Proof. intros H. tstep_cases H; norm; congruence. Qed.

Lemma tstep_noscan s t s' : tstep s t = Some s' -> ooo s = false -> noscan (pcof s t) = true -> noscan (pcof s' t) = true.
Proof.
  intros H Ho. tstep_cases H; apply ltb_lt in Hlt; norm; unfold pcof; rewrite ?Hpc; cbn [noscan]; intros Hn;
    try reflexivity; try discriminate; try assumption.
  all: try (rewrite Ho in *; simpl in *; rewrite ?orb_true_r in *; discriminate).
Qed.

Lemma step_ooo s l s' : step s l = Some s' -> ooo s' = ooo s.
Proof.
  intros H. destruct l.
  - simpl in H. apply start_effect in H. tauto.
  - eapply tstep_ooo; eauto.
  - apply sched_effect in H; [tauto|exact Logic.I].
  - apply sched_effect in H; [tauto|exact Logic.I].
  - apply sched_effect in H; [tauto|exact Logic.I].
  - simpl in H. apply vstep_effect in H. tauto.
  - apply sched_effect in H; [tauto|exact Logic.I].
Qed.

Definition noscan_inv (s : state) : Prop := forall t, (t < nthreads s)%nat -> noscan (pcof s t) = true.

Lemma start_noscan s t o s' : start s t o = Some s' -> noscan (pcof s' t) = true.
Proof. intros H. start_cases H; apply ltb_lt in Hlt; norm; unfold pcof; rewrite ?Hpc; reflexivity. Qed.

Lemma noscan_inv_step s l s' : ooo s = false -> noscan_inv s -> step s l = Some s' -> noscan_inv s'.
Proof.
  intros Ho Iv H t' Hl. destruct l.
  - simpl in H. destruct (start_effect _ _ _ _ H) as (Ht&Hn&Hi&Hh&Fr&_). rewrite Hn in Hl.
    destruct (Nat.eq_dec t' t) as [->|N]; [eapply start_noscan; eauto|rewrite Fr; auto].
  - simpl in H. rewrite (tstep_nthreads _ _ _ H) in Hl.
    destruct (Nat.eq_dec t' t) as [->|N]; [eapply tstep_noscan; eauto|erewrite tstep_pc_frame; eauto].
  - destruct (sched_effect _ _ _ H Logic.I) as (Hn&Hp&_). rewrite Hn in Hl. rewrite Hp; auto.
  - destruct (sched_effect _ _ _ H Logic.I) as (Hn&Hp&_). rewrite Hn in Hl. rewrite Hp; auto.
  - destruct (sched_effect _ _ _ H Logic.I) as (Hn&Hp&_). rewrite Hn in Hl. rewrite Hp; auto.
  - simpl in H. destruct (vstep_effect _ _ _ H) as (Hn&Hp&_). rewrite Hn in Hl. rewrite Hp; auto.
  - destruct (sched_effect _ _ _ H Logic.I) as (Hn&Hp&_). rewrite Hn in Hl. rewrite Hp; auto.
Qed.
