(* C02_Coop.v — the single-vCPU cooperative run of the FINE-GRAINED semaphore model, as an
   extension of the E2 scheduler model (Sched/Core.v, Sched/Prog.v).  EXECUTABLE DEFINITIONS ONLY.

   One phase of a semaphore op (the code of the calling photon thread between two context
   switches) = "run C02_Model.tstep of that thread until it blocks or returns" — the SAME step
   function the all-interleavings theorems are about.  The scheduler fields of the fine-grained
   thread table (state, error_number, waitq, ts_wakeup) are re-read from the Core state at the
   start of every phase (Core is the master: usleep / interrupt / timeouts are its ops), and the
   effects of the phase are written back:
     * wake-ups done by the fine-grained steps (g_wakes, in order) are REPLAYED through Core's
       prelocked_interrupt (run-queue tail insert, heap pop), after which the two views of the
       wait queue, the thread states and error_numbers must coincide — otherwise the run is STUCK
       (a cross-check of Core's coarse wake-up against the fine-grained PIQLock/PIDeq/PIState);
     * going to sleep: the fine-grained steps WQLock..WQUnlock enqueue the thread; the action
       `ASleep` makes Core do its prepare_usleep; the deferred function compares both views
       (queue order, ts_wakeup) and then runs the fine-grained WDefer step (splock unlock).
   A thread spinning on a held spinlock can never make progress on one vCPU (nobody else runs):
   the phase is STUCK — that is how the F9 self-deadlock shows up here; the implementation hangs. *)
From Coq Require Import ZArith List Bool Arith.
From PV Require Import Base.U64 C04.C04_Heap.
From PV Require Sched.Core Sched.Prog.
From PV Require Import C02.C02_Model.
Import ListNotations.
Local Open Scope Z_scope.




(* ops of the E2 programs; i = index of the semaphore in the case line's decl list *)
Inductive sem_op : Type :=
| SemWait (i : nat) (c tmo : Z)          (* sem_wait i c t      sem[i].wait(c, Timeout(t)) *)
| SemWaitI (i : nat) (c tmo : Z)         (* sem_waiti i c t     sem[i].wait_interruptible(c, Timeout(t)) *)
| SemSignal (i : nat) (n : Z)            (* sem_signal i n      sem[i].signal(n) *)
| SemCount (i : nat)                     (* sem_count i         sem[i].count() *)
| SemHead (i : nat).                     (* sem_head i          demand of the waiter at the head of sem[i]'s
                                            queue (thread::semaphore_count of q.th), 0 if none *)

(* one fine-grained state per decl (a dummy for decls that are not semaphores) *)
Definition U : Type := list state.

Definition conv_in (x : Core.tstate) : tstate :=
  match x with Core.READY => Ready | Core.RUNNING => Running | Core.SLEEPING => Sleeping | _ => Standby end.

Definition in_this_q (i : nat) (w : option Core.qid) : bool :=
  match w with Some (Core.QUser j) => Nat.eqb i j | _ => false end.

Definition sync_thread (i : nat) (kt : Core.thread) (ft : thread) : thread :=
  set_slq (set_ts (set_err (set_inq (set_state ft (conv_in (Core.th_state kt))) (in_this_q i (Core.th_waitq kt)))
                           (Core.th_err kt)) (Core.th_ts kt))
          (Core.tstate_eqb (Core.th_state kt) Core.SLEEPING).

Fixpoint sync_threads (i : nat) (kts : list Core.thread) (fts : list thread) : list thread :=
  match kts, fts with
  | kt :: kr, ft :: fr => sync_thread i kt ft :: sync_threads i kr fr
  | _, _ => []
  end.

Definition sync_in (st : Core.state U) (i : nat) (f : state) : state :=
  set_gwakes (set_threads (set_queue (set_now f (Core.s_now st)) (Core.wq_get st (Core.QUser i)))
                          (sync_threads i (Core.s_threads st) (threads f))) [].

(* is thread t spinning on a spinlock that is held?  (on one vCPU: for ever) *)
Definition held (l : option part) : bool := match l with Some _ => true | None => false end.
Definition spins (f : state) (t : nat) : bool :=
  match t_pc (getth f t) with
  | WLock1 _ | WLock2 _ _ | SLock _ => held (splock f)
  | WQLock _ | SCQLock _ _ => held (qlock f)
  | WTLock _ => held (t_lock (getth f t))
  | TRLockX _ _ x | ILock x _ => held (t_lock (getth f x))
  | SCTLock _ _ i => held (t_lock (getth f (nth i (queue f) O)))
  | PIQLock _ x => t_inq (getth f x) && held (qlock f)
  | _ => false
  end.

Inductive stop : Type := StRet | StSleep | StSpin | StFuel | StErr.

(* run thread t until its call returns (pc = Idle), it has to be switched out (pc = WDefer), or
   it spins *)
Fixpoint run_thread (fuel : nat) (f : state) (t : nat) : state * stop :=
  match fuel with
  | O => (f, StFuel)
  | S n =>
      match t_pc (getth f t) with
      | Idle => (f, StRet)
      | WDefer _ => (f, StSleep)
      | Crashed => (f, StErr)
      | _ => if spins f t then (f, StSpin)
             else match tstep f t with
                  | Some f' => run_thread n f' t
                  | None => (f, StErr)
                  end
      end
  end.

Definition PHASE_FUEL : nat := 4000.

Fixpoint list_eqb (a b : list nat) : bool :=
  match a, b with
  | [], [] => true
  | x :: r, y :: q => Nat.eqb x y && list_eqb r q
  | _, _ => false
  end.

(* do the two views agree on thread j?  (`skip`: the thread that is about to be put to sleep by
   Core, whose fine-grained record is already SLEEPING) *)
Definition thread_agrees (i : nat) (kt : Core.thread) (ft : thread) : bool :=
  (Core.th_err kt =? t_err ft) &&
  Bool.eqb (in_this_q i (Core.th_waitq kt)) (t_inq ft) &&
  match t_state ft with
  | Sleeping => Core.tstate_eqb (Core.th_state kt) Core.SLEEPING
  | Ready => Core.tstate_eqb (Core.th_state kt) Core.READY
  | Running => Core.tstate_eqb (Core.th_state kt) Core.RUNNING
  | Standby => negb (Core.tstate_eqb (Core.th_state kt) Core.SLEEPING || Core.tstate_eqb (Core.th_state kt) Core.READY
                     || Core.tstate_eqb (Core.th_state kt) Core.RUNNING)
  end.
Fixpoint threads_agree (i : nat) (skip : option nat) (j : nat) (kts : list Core.thread) (fts : list thread) : bool :=
  match kts, fts with
  | kt :: kr, ft :: fr =>
      ((match skip with Some x => Nat.eqb x j | None => false end) || thread_agrees i kt ft)
      && threads_agree i skip (S j) kr fr
  | [], [] => true
  | _, _ => false
  end.

Definition set_user_nth (st : Core.state U) (i : nat) (f : state) : Core.state U :=
  Core.set_user st (upd_nth (Core.s_user st) i f).

(* write the effects of a phase back into the Core state *)
Definition sync_out (st : Core.state U) (i : nat) (f : state) (skip : option nat) : Core.state U :=
  let st1 := fold_left (fun acc x => Core.prelocked_interrupt acc x (-1)) (rev (g_wakes f)) st in
  let qf := match skip with Some x => remove_tid x (queue f) | None => queue f end in
  let ok := list_eqb (Core.wq_get st1 (Core.QUser i)) qf
            && threads_agree i skip 0 (Core.s_threads st1) (threads f) in
  let st2 := set_user_nth st1 i (set_gwakes f []) in
  if ok then st2 else Core.set_stuck st2.

(* after Core's prepare_usleep: compare the views of the sleeper, run the deferred unlock *)
Definition after_sleep (i t : nat) (st : Core.state U) : Core.state U :=
  let f := nth i (Core.s_user st) (init 0 false [] 0) in
  let kt := Core.getth st t in
  let ok := list_eqb (Core.wq_get st (Core.QUser i)) (queue f)
            && (Core.th_ts kt =? t_ts (getth f t))
            && Core.tstate_eqb (Core.th_state kt) Core.SLEEPING
            && in_this_q i (Core.th_waitq kt) in
  match t_pc (getth f t) with
  | WDefer _ =>
      match tstep f t with
      | Some f' => let st1 := set_user_nth st i f' in if ok then st1 else Core.set_stuck st1
      | None => Core.set_stuck st
      end
  | _ => Core.set_stuck st
  end.

(* finish a phase: map the stop reason to an action *)
Definition finish (st : Core.state U) (i t : nat) (r : state * stop) : Core.state U * Prog.action U :=
  let '(f, why) := r in
  match why with
  | StRet =>
      let th := getth f t in
      (sync_out st i f None, Prog.ARet (t_ret th) (if t_ret th <? 0 then t_errno th else 0))
  | StSleep =>
      (sync_out st i f (Some t),
       Prog.ASleep (t_ts (getth f t)) (Some (Core.QUser i)) (Some (after_sleep i t)) [2])
  | _ => (st, Prog.AStuck)
  end.

Definition sem_call (st : Core.state U) (t : nat) (i : nat) (o : opcall) (k : Core.kont) : Core.state U * Prog.action U :=
  match nth_error (Core.s_user st) i with
  | None => (st, Prog.ARet Prog.SKIPPED 0)
  | Some f0 =>
      match k with
      | [] =>
          let f := sync_in st i f0 in
          match start f t o with
          | Some f1 => finish st i t (run_thread PHASE_FUEL f1 t)
          | None => (st, Prog.AStuck)
          end
      | [2] =>                                   (* woken: the fine-grained WAsleep step reads and
                                                    clears error_number (set_error_number) *)
          let f := sync_in st i f0 in
          let '(st1, _, _) := Core.set_error_number st t in
          finish st1 i t (run_thread PHASE_FUEL f t)
      | _ => (st, Prog.AStuck)
      end
  end.

Definition sem_step (st : Core.state U) (t : nat) (o : sem_op) (k : Core.kont) : Core.state U * Prog.action U :=
  match o with
  | SemWait i c tmo => sem_call st t i (OpWait c tmo true) k
  | SemWaitI i c tmo => sem_call st t i (OpWait c tmo false) k
  | SemSignal i n => sem_call st t i (OpSignal n) k
  | SemCount i =>
      match nth_error (Core.s_user st) i with
      | Some f => (st, Prog.ARet (m_count f) 0)
      | None => (st, Prog.ARet Prog.SKIPPED 0)
      end
  | SemHead i =>
      match nth_error (Core.s_user st) i with
      | Some f => match Core.wq_get st (Core.QUser i) with
                  | x :: _ => (st, Prog.ARet (t_semcnt (getth f x)) 0)
                  | [] => (st, Prog.ARet 0 0)
                  end
      | None => (st, Prog.ARet Prog.SKIPPED 0)
      end
  end.

(* initial fine-grained state of one semaphore: n program threads + the idler, all on vCPU 0 *)
Definition sem_init (count : Z) (in_order : bool) (n : nat) : state :=
  init count (negb in_order) (repeat (Some O) (S n)) 1.

Definition sem_run (fuel : nat) (ps : list (list (Prog.op sem_op))) (u0 : U) :=
  Prog.coop_result sem_step ps fuel Prog.VCLOCK_START u0.
