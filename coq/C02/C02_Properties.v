(* C02_Properties.v — property theorems of C02 (semaphore).  Only `exact` of lemmas proved in
   C02_Cons.v / C02_Safe.v, each followed by Print Assumptions. *)
From Coq Require Import ZArith List Bool Arith.
From PV Require Import Base.U64 C02.C02_Model C02.C02_Base C02.C02_Cons C02.C02_Safe.
Import ListNotations.
Local Open Scope Z_scope.

(* Conservation, for every interleaving of any number of threads on any number of vCPUs:
   tokens of the waits that returned 0 (g_ret0) + tokens already subtracted by a wait that is
   about to return 0 (inflight) + m_count = initial + signalled, modulo 2^64 (fetch_add wraps),
   never more than it, and exactly when initial + signalled < 2^64. *)
Theorem sem_conservation : forall c o ths nv s, 0 <= c < W64 -> reachable (init c o ths nv) s ->
  (g_ret0 s + inflight s + m_count s) mod W64 = (g_init s + g_sig s) mod W64 /\
  g_ret0 s + inflight s + m_count s <= g_init s + g_sig s /\
  0 <= m_count s < W64 /\ 0 <= g_ret0 s /\ 0 <= inflight s /\
  (g_init s + g_sig s < W64 -> g_ret0 s + inflight s + m_count s = g_init s + g_sig s).
Proof. exact conservation. Qed.
Print Assumptions sem_conservation.

(* Destroy-after-wait: a signal call that has acquired splock when `ep` waits had returned does
   all its remaining accesses while still no further wait has returned. *)
Theorem sem_destroy_safe : forall c o ths nv s, reachable (init c o ths nv) s ->
  forall t ep, (t < nthreads s)%nat -> sig_ep (pcof s t) = Some ep -> ep = g_rets s.
Proof. exact destroy_safe. Qed.
Print Assumptions sem_destroy_safe.

Theorem sem_destroy_safe_at_return : forall c o ths nv s, reachable (init c o ths nv) s ->
  forall t a r k, (t < nthreads s)%nat -> pcof s t = WRet a r k ->
  forall t', (t' < nthreads s)%nat -> sig_ep (pcof s t') = None.
Proof. exact destroy_safe_at_return. Qed.
Print Assumptions sem_destroy_safe_at_return.

Theorem sem_cas_never_fails : forall c o ths nv s, reachable (init c o ths nv) s ->
  forall t a mc, (t < nthreads s)%nat -> pcof s t = WCas a mc -> m_count s = mc.
Proof. exact cas_never_fails. Qed.
Print Assumptions sem_cas_never_fails.
