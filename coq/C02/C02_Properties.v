(* C02_Properties.v — property theorems of C02 (semaphore).  Only `exact` of lemmas proved in
   C02_Cons.v / C02_Safe.v / C02_Refute.v / C02_Locks3.v / C02_NLW.v / C02_NoBarge.v, each followed by Print Assumptions. *)
From Coq Require Import ZArith List Bool Arith.
From PV Require Import Base.U64 C02.C02_Model C02.C02_Base C02.C02_Cons C02.C02_Safe C02.C02_Refute C02.C02_Locks C02.C02_LockProto C02.C02_Locks2 C02.C02_Locks3 C02.C02_Summ C02.C02_Credit C02.C02_Struct C02.C02_Other C02.C02_NLW C02.C02_Flow C02.C02_Flow2 C02.C02_Flow3 C02.C02_Aux C02.C02_NoBarge.
Import ListNotations.
Local Open Scope Z_scope.

(* Conservation, for every interleaving of any number of threads on any number of vCPUs:
   tokens of the waits that returned 0 (g_ret0) + tokens already subtracted by a wait that is
   about to return 0 (inflight) + m_count = initial + signalled, modulo 2^64 (fetch_add wraps),
   never more than it, and exactly when initial + signalled < 2^64. *)
Theorem sem_conservation : forall c o ths nv s, 0 <= c < W64 -> reachable (init c o ths nv) s ->
  (g_ret0 s + inflight s + m_count s) mod W64 = (g_init s + g_sig s) mod W64 /\
  g_ret0 s + inflight s + m_count s <= g_init s + g_sig s /\
  0 <= m_count s < W64 /\ 0 <= g_ret0 s /\ 0 <= inflight s /\
  (g_init s + g_sig s < W64 -> g_ret0 s + inflight s + m_count s = g_init s + g_sig s).
Proof. exact conservation. Qed.
Print Assumptions sem_conservation.

(* Destroy-after-wait: a signal call that has acquired splock when `ep` waits had returned does
   all its remaining accesses while still no further wait has returned. *)
Theorem sem_destroy_safe : forall c o ths nv s, reachable (init c o ths nv) s ->
  forall t ep, (t < nthreads s)%nat -> sig_ep (pcof s t) = Some ep -> ep = g_rets s.
Proof. exact destroy_safe. Qed.
Print Assumptions sem_destroy_safe.

Theorem sem_destroy_safe_at_return : forall c o ths nv s, reachable (init c o ths nv) s ->
  forall t a r k, (t < nthreads s)%nat -> pcof s t = WRet a r k ->
  forall t', (t' < nthreads s)%nat -> sig_ep (pcof s t') = None.
Proof. exact destroy_safe_at_return. Qed.
Print Assumptions sem_destroy_safe_at_return.

Theorem sem_cas_never_fails : forall c o ths nv s, reachable (init c o ths nv) s ->
  forall t a mc, (t < nthreads s)%nat -> pcof s t = WCas a mc -> m_count s = mc.
Proof. exact cas_never_fails. Qed.
Print Assumptions sem_cas_never_fails.

(* ---- clauses the code does NOT satisfy (findings; witnesses replayed on the implementation) ---- *)

(* F35 "barging": in-order mode, mixed demands.  A quiescent reachable state whose head waiter's
   demand is covered by the count. *)
Theorem sem_no_lost_wakeup_inorder_refuted :
  exists s, reachable (init 0 false four 1) s /\ ooo s = false /\ g_crash s = false /\ ~ nlw_inorder s.
Proof. exact barge_inorder. Qed.
Print Assumptions sem_no_lost_wakeup_inorder_refuted.

Theorem sem_no_lost_wakeup_ooo_refuted :
  exists s, reachable (init 0 true four 1) s /\ ooo s = true /\ g_crash s = false /\ ~ nlw_ooo s.
Proof. exact barge_ooo. Qed.
Print Assumptions sem_no_lost_wakeup_ooo_refuted.

(* F9: out-of-order mode, waiters [5,1], signal(1): self-deadlock on q.lock; every participant can only stutter *)
Theorem sem_ooo_deadlock_refuted : exists s, reachable (init 0 true three 1) s /\
  pcof s 2 = PIQLock (KScan (CSignal 0) 0 1) 1 /\ qlock s = Some (PT 2) /\ splock s = Some (PT 2) /\
  Forall (only_stutter s)
    [LAdv 0; LAdv 1; LAdv 2; LRun 0; LRun 1; LRun 2; LVAdv 0; LStandby 0 0; LStandby 0 1; LStandby 0 2;
     LExpire 0 0; LExpire 0 1; LExpire 0 2].
Proof. exact f9_deadlock. Qed.
Print Assumptions sem_ooo_deadlock_refuted.

(* out-of-order mode, 2 vCPUs: nullptr dereference at thread.cpp 1924 (q.th tested without q.lock at 1921) *)
Theorem sem_ooo_null_deref_refuted : exists s, reachable (init 0 true [Some O; Some 1%nat] 2) s /\ g_crash s = true.
Proof. exact ooo_null_deref. Qed.
Print Assumptions sem_ooo_null_deref_refuted.

(* out-of-order mode, 2 vCPUs, uniform demands: ABBA deadlock between the scan (q.lock then thread.lock)
   and a waiter's expiry (thread.lock then q.lock) *)
Theorem sem_ooo_abba_deadlock_refuted : exists s, reachable (init 0 true [Some O; Some O; Some 1%nat] 2) s /\
  qlock s = Some (PT 2) /\ t_lock (getth s 1) = Some (PV 0) /\
  pcof s 2 = SCTLock (CSignal 0) 1 1 /\ getv s 0 = VDeqLock 1 /\
  Forall (only_stutter s) [LAdv 0; LAdv 1; LAdv 2; LRun 0; LRun 1; LVAdv 0; LVAdv 1; LStandby 0 0; LStandby 0 1; LExpire 0 0; LExpire 0 1].
Proof. exact ooo_abba_deadlock. Qed.
Print Assumptions sem_ooo_abba_deadlock_refuted.

(* ---- footprint_protected (in-order mode): q.lock and every thread::lock are held exactly by the
   participant whose program counter is inside the corresponding critical section ---- *)
Theorem sem_footprint_protected : forall c ths nv s, reachable (init c false ths nv) s -> locks_inv s.
Proof. exact locks_reachable. Qed.
Print Assumptions sem_footprint_protected.

(* ---- NO LOST WAKE-UP, the positive theorem (in-order resume mode, one demand value d = outside
   F35's class): for EVERY interleaving of any number of photon threads / vCPUs / OS threads whose
   wait calls all ask for d tokens (signals of any size, interrupts, timeouts, any schedule), in every
   reachable state: if nobody is inside a critical section of `splock` and no waiter woken by a resume
   pass is still on its way to re-try its subtraction, then a non-empty wait queue implies
   m_count < d — nobody who could be served is left blocked.  (`nlw_uniform_inorder_stmt` is the
   in-order instance of `nlw_uniform_stmt` of C02_Refute.v; out-of-order mode is F9's class.) ---- *)
Theorem sem_no_lost_wakeup_inorder_uniform : forall d c ths nv s, 0 < d -> 0 <= c < W64 ->
  reachable_u d (init c false ths nv) s ->
  splock s = None -> no_pending s -> queue s <> [] -> m_count s < d.
Proof. exact nlw_inorder_uniform. Qed.
Print Assumptions sem_no_lost_wakeup_inorder_uniform.

(* its hypotheses are met by a non-trivial state: d = 2, two waiters, signal(3): one waiter is served
   and returns 0, the other stays queued with m_count = 1 < 2 *)
Example sem_no_lost_wakeup_inorder_uniform_nonvacuous :
  exists s, reachable_u 2 (init 0 false three 1) s /\ splock s = None /\ no_pending s /\ queue s = [1%nat] /\
            m_count s = 1 /\ g_ret0 s = 2.
Proof. exact nlw_inorder_uniform_hyps_met. Qed.

(* the structural half, on its own: wait-queue well-formedness and the hand-off clause of the resume
   pass (a waiter is never allotted tokens twice), in-order mode, every reachable state *)
Theorem sem_queue_structure : forall c ths nv s, reachable (init c false ths nv) s -> sinv s.
Proof. exact sinv_reachable. Qed.
Print Assumptions sem_queue_structure.

(* ---- NO LOST WAKE-UP for ARBITRARY (mixed) demands, in-order mode, outside F35's class: the very
   clause `nlw_inorder` that F35's witness refutes (sem_no_lost_wakeup_inorder_refuted above) HOLDS in
   every reachable state, for every interleaving of any number of threads / vCPUs / OS threads with any
   demands, signals, timeouts and interrupts, as long as no woken waiter's re-subtraction has failed
   (ghost g_refail = false: nobody overtook a woken waiter on the fast path = the complement of F35)
   and no thread_interrupt call carries the error number -1 (the value reserved for waitq::resume;
   reachable_g): at quiescence the head waiter's demand exceeds m_count.  So a lost wake-up in
   in-order mode can ONLY come from barging. ---- *)
Theorem sem_no_lost_wakeup_inorder_nobarge : forall c ths nv s, 0 <= c < W64 ->
  reachable_g (init c false ths nv) s -> g_refail s = false ->
  quiescentb s = true -> match queue s with x :: _ => m_count s < t_semcnt (getth s x) | [] => True end.
Proof. exact nlw_inorder_nobarge. Qed.
Print Assumptions sem_no_lost_wakeup_inorder_nobarge.

(* hypotheses met by a non-trivial MIXED-demand state (waiters 2 and 1, signal(2): the first is served,
   the second stays queued, m_count = 0 < 1); and the guard is sharp on F35's witness: there g_refail = true *)
Example sem_no_lost_wakeup_inorder_nobarge_nonvacuous :
  exists s, reachable_g (init 0 false three 1) s /\ g_refail s = false /\ quiescentb s = true /\
            queue s = [1%nat] /\ m_count s = 0 /\ g_ret0 s = 2.
Proof. exact nlw_nobarge_hyps_met. Qed.
Example sem_barge_witness_sets_refail :
  exists s, run (init 0 false four 1) barge_sched = Some s /\ g_refail s = true /\ quiescentb s = true.
Proof. exact barge_witness_has_refail. Qed.

(* the second guard is necessary too: thread_interrupt(th, -1) acts as a fake resume (the woken head
   waiter re-queues at the tail without passing on) - a lost wake-up with g_refail = false *)
Theorem sem_no_lost_wakeup_inorder_fake_resume_refuted :
  exists s, reachable (init 0 false three 1) s /\ ooo s = false /\ g_refail s = false /\ ~ nlw_inorder s.
Proof. exact neg1_guard_needed. Qed.
Print Assumptions sem_no_lost_wakeup_inorder_fake_resume_refuted.
