(* Extraction of the C20 model: ExtrOcamlBasic only, no Extract Constant /
   Extract Inductive of our own; Z, positive, nat stay Coq's datatypes. *)
From Coq Require Import ZArith List.
From PV Require Import C20.C20_Model.
Require Extraction.
Require Import ExtrOcamlBasic.
Extraction "c20_model.ml" run_case level_valid level_valid_prefix.
