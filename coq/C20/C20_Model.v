(* C20_Model.v — executable model of the sub-filesystem path confinement:
     fs/path.h   44-98    Path::iterator (begin/end/operator++/operator!=)
     fs/path.cpp 54-66    Path::iterator::set   (skips repeated slashes)
     fs/path.cpp 68-93    Path::level_valid     (AFTER the repair of finding F1,
                          repo_patches/C20-fix-level-valid.diff; the pre-fix function is
                          kept below as level_step_prefix / level_valid_prefix)
     fs/subfs.cpp 43-71   SubFileSystem::init   (treatment of the base path)
     fs/subfs.cpp 78-105  SubFileSystem::PathCat
     fs/subfs.cpp 107-289 every path-taking operation of SubFileSystem
   Definitions only (no proofs), so the model still runs when a proof breaks.

   A C string is a `list Z` of its bytes before the terminating NUL (so 0 never
   occurs in it; the model does not depend on the values being < 256).  A
   `string_view` is the list of its bytes; a pointer into the NUL-terminated path is the
   suffix of the path that starts there. *)
From Coq Require Import ZArith List Bool.
Import ListNotations.
Local Open Scope Z_scope.

Definition str := list Z.
Definition SLASH : Z := 47.   (* '/' *)
Definition DOT   : Z := 46.   (* '.' *)
Definition PATH_MAX : Z := 4096.
Definition INT_MAX : Z := 2147483647.
Definition slen (s : str) : Z := Z.of_nat (length s).      (* strlen / string_view::size *)

(* ------------------------------------------------------------------ *)
(* Path::iterator.  State = m_view (current component) and the text from
   m_view.end() up to `end` (what operator++ passes to set()). *)
Record iter := mkIter { it_view : str; it_rest : str }.

(* path.cpp:60  while (p < end && *p != '\0' && *p == '/') ++p; *)
Fixpoint skip_slashes (p : str) : str :=
  match p with
  | c :: p' => if c =? SLASH then skip_slashes p' else p
  | [] => []
  end.
(* path.cpp:64  while (p < end && *p != '\0' && *p != '/') ++p;   returns ([ptr,p), [p,end)) *)
Fixpoint take_name (p : str) : str * str :=
  match p with
  | c :: p' => if c =? SLASH then ([], p) else let (n, r) := take_name p' in (c :: n, r)
  | [] => ([], [])
  end.
(* Path::iterator::set, path.cpp:54-66 *)
Definition iter_set (p : str) : iter :=
  match p with
  | [] => mkIter [] []                            (* !p || !*p : init_view(nullptr, 0) *)
  | _ => let (n, r) := take_name (skip_slashes p) in mkIter n r
  end.
Definition iter_begin (path : str) : iter := iter_set path.            (* path.h:46-50 *)
Definition iter_next (it : iter) : iter := iter_set (it_rest it).       (* path.h:56-60 *)
(* `it != end()`: m_view != string_view(nullptr,0); string_view compares CONTENTS, so
   any empty view (also the one left by trailing slashes) equals end(). path.h:85-88 *)
Definition iter_at_end (it : iter) : bool :=
  match it_view it with [] => true | _ => false end.

(* ------------------------------------------------------------------ *)
(* Path::level_valid.  One execution of the loop body: *)
Inductive step_result := Continue (level : Z) | ReturnFalse | IntOverflow.

Definition char_at (name : str) (i : nat) : Z := nth i name 0.
Definition incr (level : Z) : step_result :=          (* ++level on an `int` *)
  if INT_MAX <? level + 1 then IntOverflow else Continue (level + 1).

(* fixed code (path.cpp 71-91 after C20-fix-level-valid.diff):
     if (size > 0) {
        if (name[0] == '.') {
            if (size == 1) continue;                                // "."
            else if (size == 2 && name[1] == '.') {                 // ".."
                if (--level < 0) return false;
                continue; } }
        ++level; }                                                  // any other name  *)
Definition level_step (level : Z) (name : str) : step_result :=
  let size := slen name in
  if 0 <? size then
    if char_at name 0 =? DOT then
      if size =? 1 then Continue level
      else if (size =? 2) && (char_at name 1 =? DOT) then
        if level - 1 <? 0 then ReturnFalse else Continue (level - 1)
      else incr level
    else incr level
  else Continue level.

(* pre-fix code (path.cpp 71-89 at the pinned commit) — finding F1:
     if (size > 0) if (name[0] == '.') {
         if (size == 1) continue;
         else if (size == 2) { if (name[1] == '.') if (--level < 0) return false; }
         else ++level; }                                                              *)
Definition level_step_prefix (level : Z) (name : str) : step_result :=
  let size := slen name in
  if 0 <? size then
    if char_at name 0 =? DOT then
      if size =? 1 then Continue level
      else if size =? 2 then
        if char_at name 1 =? DOT then
          if level - 1 <? 0 then ReturnFalse else Continue (level - 1)
        else Continue level
      else incr level
    else Continue level
  else Continue level.

(* result of the whole function.  LvFuel / LvOverflow are the error values that the
   theorems exclude (fuel: the loop is bounded by the path length; overflow: `int level`
   cannot exceed the number of components). *)
Inductive lvres := LvTrue | LvFalse | LvFuel | LvOverflow.

Section Loop.
  Variable step : Z -> str -> step_result.
  (* for (auto& name : *this) { body }  return true; *)
  Fixpoint level_loop (fuel : nat) (it : iter) (level : Z) : lvres :=
    if iter_at_end it then LvTrue else
    match fuel with
    | O => LvFuel
    | S f =>
      match step level (it_view it) with
      | ReturnFalse => LvFalse
      | IntOverflow => LvOverflow
      | Continue l' => level_loop f (iter_next it) l'
      end
    end.
End Loop.

(* path_level_valid(path) = Path(path).level_valid(); fuel = strlen+1 iterations *)
Definition level_valid (path : str) : lvres :=
  level_loop level_step (S (length path)) (iter_begin path) 0.
Definition level_valid_prefix (path : str) : lvres :=
  level_loop level_step_prefix (S (length path)) (iter_begin path) 0.

(* ------------------------------------------------------------------ *)
(* SubFileSystem::init, subfs.cpp 43-71.  The state that matters is
   base_path[0 .. base_path_len). *)
Record subfs := mkSubfs { base_path : str }.
Definition base_path_len (fs : subfs) : Z := slen (base_path fs).

Inductive statres := StatDir | StatNotDir | StatFail.   (* underlayfs->stat(_base_path) *)
Inductive initres :=
  | InitOk (fs : subfs)
  | InitFail                (* init returns -1; new_subfs returns nullptr *)
  | InitUB.                 (* strlen(base) is a non-zero multiple of 2^32: base_path[-1] is read *)

Definition subfs_init (st : statres) (base : str) : initres :=
  match base with
  | [] => InitOk (mkSubfs [])                     (* "use default relative path": no confinement *)
  | _ =>
    match st with
    | StatDir =>
      let n := slen base mod 4294967296 in        (* (uint32_t)strlen(_base_path) *)
      if PATH_MAX - 2 <? n then InitFail          (* base_path_len > LEN(base_path) - 2 *)
      else if n =? 0 then InitUB
      else
        let b := firstn (Z.to_nat n) base in      (* memcpy(base_path, _base_path, base_path_len) *)
        if last b 0 =? SLASH then InitOk (mkSubfs b)
        else InitOk (mkSubfs (b ++ [SLASH]))      (* base_path[base_path_len++] = '/' *)
    | _ => InitFail
    end
  end.

(* ------------------------------------------------------------------ *)
(* PathCat, subfs.cpp 82-104: rewrites `path` in place; PNull = the nullptr that is
   then handed to the underlay. *)
Inductive parg := PNull | PStr (s : str).
Inductive pcres := PcOk (a : parg) | PcError (e : lvres).

Definition pathcat (fs : subfs) (path : str) : pcres :=
  if base_path_len fs =? 0 then PcOk (PStr path)            (* line 84: untouched, unvalidated *)
  else
    let len := slen path in
    let len2 := len + base_path_len fs in
    if PATH_MAX - 2 <=? len2 then PcOk PNull                (* len2 >= sizeof(buf) - 2 *)
    else
      match level_valid path with
      | LvFalse => PcOk PNull                               (* !path_level_valid(path) *)
      | LvTrue => PcOk (PStr (base_path fs ++ path))        (* memcpy base; memcpy path; NUL *)
      | e => PcError e
      end.

(* ------------------------------------------------------------------ *)
(* the path-taking operations, subfs.cpp 107-289 *)
Inductive op :=
  | Open | Open3 | Creat | Mkdir | Rmdir | Symlink | Readlink | Link | Rename | Unlink
  | Chmod | Chown | Lchown | Opendir | Stat | Lstat | Access | Truncate | Statfs | Statvfs
  | Utime | Utimes | Lutimes | Mknod
  | Getxattr | Lgetxattr | Listxattr | Llistxattr | Setxattr | Lsetxattr | Removexattr | Lremovexattr.

Inductive opkind :=
  | OneFs        (* PathCat(path); underlayfs->op(path, …) *)
  | TwoBoth      (* link, rename: PathCat(oldname); PathCat(newname) — two separate buffers *)
  | TwoNew       (* symlink: PathCat(newname) only; oldname is the link's content *)
  | OneXattr.    (* if (!underlay_xattrfs) return -1/ENOTSUP; PathCat(path); underlay_xattrfs->op(path, …) *)

Definition op_kind (o : op) : opkind :=
  match o with
  | Symlink => TwoNew
  | Link | Rename => TwoBoth
  | Getxattr | Lgetxattr | Listxattr | Llistxattr | Setxattr | Lsetxattr | Removexattr | Lremovexattr => OneXattr
  | _ => OneFs
  end.

(* what the underlay sees *)
Inductive call :=
  | NoCall                                  (* returned before reaching the underlay *)
  | Call (o : op) (args : list parg)        (* underlay op and its path arguments, in order *)
  | CallError (e : lvres).

Definition run_op (has_xattr : bool) (fs : subfs) (o : op) (p1 p2 : str) : call :=
  match op_kind o with
  | OneFs =>
    match pathcat fs p1 with PcOk a => Call o [a] | PcError e => CallError e end
  | OneXattr =>
    if negb has_xattr then NoCall else
    match pathcat fs p1 with PcOk a => Call o [a] | PcError e => CallError e end
  | TwoBoth =>
    match pathcat fs p1 with
    | PcError e => CallError e
    | PcOk a1 =>
      match pathcat fs p2 with PcOk a2 => Call o [a1; a2] | PcError e => CallError e end
    end
  | TwoNew =>
    match pathcat fs p2 with PcOk a2 => Call o [PStr p1; a2] | PcError e => CallError e end
  end.

(* one case of the correspondence run: new_subfs(underlay, base, false), then one op *)
Inductive outcome := NoFs | InitUndefined | Ran (c : call).
Definition run_case (st : statres) (has_xattr : bool) (base : str) (o : op) (p1 p2 : str) : outcome :=
  match subfs_init st base with
  | InitFail => NoFs
  | InitUB => InitUndefined
  | InitOk fs => Ran (run_op has_xattr fs o p1 p2)
  end.

(* ------------------------------------------------------------------ *)
(* specification side: components, depth, lexical resolution *)

(* split on '/', keeping empty pieces; never the empty list *)
Fixpoint split (p : str) : list str :=
  match p with
  | [] => [[]]
  | c :: p' =>
    if c =? SLASH then [] :: split p'
    else match split p' with h :: t => (c :: h) :: t | [] => [[c]] end
  end.
Definition nonempty (s : str) : bool := match s with [] => false | _ => true end.
Definition components (p : str) : list str := filter nonempty (split p).

Definition str_eqb (a b : str) : bool :=
  (length a =? length b)%nat && forallb (fun xy => fst xy =? snd xy) (combine a b).
Definition is_dot (n : str) : bool := str_eqb n [DOT].
Definition is_dotdot (n : str) : bool := str_eqb n [DOT; DOT].

(* '.' ↦ 0, '..' ↦ −1, anything else (including "...", "..a", ".a") ↦ +1 *)
Definition delta (n : str) : Z := if is_dot n then 0 else if is_dotdot n then -1 else 1.
Fixpoint depth (cs : list str) : Z :=
  match cs with [] => 0 | c :: cs' => delta c + depth cs' end.
(* every prefix of cs has depth >= -start, i.e. starting at level `start` the walk never goes below 0 *)
Fixpoint stays_inside_from (start : Z) (cs : list str) : bool :=
  match cs with
  | [] => true
  | c :: cs' => let l := start + delta c in if l <? 0 then false else stays_inside_from l cs'
  end.
Definition stays_inside (cs : list str) : bool := stays_inside_from 0 cs.

(* lexical resolution of a component list.  The stack is kept reversed (top first).
   absolute: '..' at the root stays at the root ("/.." = "/");
   relative: '..' that cannot cancel a name is kept (the result is "../"^k ++ names). *)
Fixpoint resolve_from (absolute : bool) (stack : list str) (cs : list str) : list str :=
  match cs with
  | [] => stack
  | c :: cs' =>
    if is_dot c then resolve_from absolute stack cs'
    else if is_dotdot c then
      match stack with
      | top :: rest => if is_dotdot top then resolve_from absolute (c :: stack) cs'
                       else resolve_from absolute rest cs'
      | [] => if absolute then resolve_from absolute [] cs' else resolve_from absolute [c] cs'
      end
    else resolve_from absolute (c :: stack) cs'
  end.
Definition is_abs (p : str) : bool := match p with c :: _ => c =? SLASH | [] => false end.
(* the resolved path as a list of names from the root (absolute) or the cwd (relative) *)
Definition resolve (p : str) : list str := rev (resolve_from (is_abs p) [] (components p)).
