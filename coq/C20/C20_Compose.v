(* C20_Compose.v — compositionality of the confinement decision: joining two accepted paths with '/'
   is accepted (within the length limit), and a prefix that escapes is never rescued by a suffix. *)
From Coq Require Import ZArith List Bool Lia Arith.
From PV Require Import C20.C20_Model C20.C20_Proofs.
Import ListNotations.
Local Open Scope Z_scope.

Lemma stays_inside_from_mono cs : forall s s', s <= s' ->
  stays_inside_from s cs = true -> stays_inside_from s' cs = true.
Proof.
  induction cs as [|c cs IH]; intros s s' Hle H; [reflexivity|].
  cbn [stays_inside_from] in *.
  destruct (Z.ltb_spec (s + delta c) 0) as [|Hs]; [discriminate|].
  destruct (Z.ltb_spec (s' + delta c) 0) as [|Hs']; [lia|].
  apply (IH (s + delta c)); [lia | exact H].
Qed.

Lemma stays_inside_from_app a : forall s b,
  stays_inside_from s (a ++ b) = stays_inside_from s a && stays_inside_from (s + depth a) b.
Proof.
  induction a as [|c a IH]; intros s b.
  - cbn [app stays_inside_from depth andb]. f_equal. lia.
  - cbn [app stays_inside_from depth].
    destruct (Z.ltb_spec (s + delta c) 0) as [|Hs]; [reflexivity|].
    rewrite IH. do 2 f_equal. lia.
Qed.

Lemma stays_inside_depth_nonneg cs : stays_inside cs = true -> 0 <= depth cs.
Proof.
  intros H. apply (proj1 (stays_inside_iff cs)) with (k := length cs) in H.
  rewrite firstn_all in H. exact H.
Qed.

Lemma stays_inside_app a b :
  stays_inside a = true -> stays_inside b = true -> stays_inside (a ++ b) = true.
Proof.
  intros Ha Hb. unfold stays_inside in *. rewrite stays_inside_from_app, Ha. cbn [andb].
  apply (stays_inside_from_mono b 0); [|exact Hb].
  pose proof (stays_inside_depth_nonneg a Ha). lia.
Qed.

Lemma stays_inside_app_false a b : stays_inside a = false -> stays_inside (a ++ b) = false.
Proof. intros Ha. unfold stays_inside in *. rewrite stays_inside_from_app, Ha. reflexivity. Qed.

Lemma pathcat_accept_inv fs path fwd : base_path fs <> [] ->
  pathcat fs path = PcOk (PStr fwd) -> legal_b fs path = true /\ fwd = base_path fs ++ path.
Proof.
  intros Hb H. rewrite (pathcat_spec fs path Hb) in H. unfold fwd_of in H.
  destruct (legal_b fs path); [|discriminate]. split; [reflexivity|]. congruence.
Qed.

Lemma accepted_paths_compose_lemma fs p1 p2 f1 f2 :
  base_path fs <> [] ->
  pathcat fs p1 = PcOk (PStr f1) -> pathcat fs p2 = PcOk (PStr f2) ->
  slen (p1 ++ SLASH :: p2) + base_path_len fs < PATH_MAX - 2 ->
  pathcat fs (p1 ++ SLASH :: p2) = PcOk (PStr (base_path fs ++ p1 ++ SLASH :: p2)).
Proof.
  intros Hb H1 H2 Hlen.
  destruct (pathcat_accept_inv _ _ _ Hb H1) as [L1 _].
  destruct (pathcat_accept_inv _ _ _ Hb H2) as [L2 _].
  unfold legal_b in L1, L2. apply andb_true_iff in L1, L2. destruct L1 as [_ S1], L2 as [_ S2].
  rewrite (pathcat_spec _ _ Hb). unfold fwd_of, legal_b.
  rewrite components_app_slash, (stays_inside_app _ _ S1 S2).
  destruct (Z.ltb_spec (slen (p1 ++ SLASH :: p2) + base_path_len fs) (PATH_MAX - 2)); [reflexivity|lia].
Qed.

Lemma escaping_prefix_never_rescued_lemma fs p1 p2 :
  base_path fs <> [] ->
  stays_inside (components p1) = false ->
  pathcat fs (p1 ++ SLASH :: p2) = PcOk PNull.
Proof.
  intros Hb S1. rewrite (pathcat_spec _ _ Hb). unfold fwd_of, legal_b.
  rewrite components_app_slash, (stays_inside_app_false _ _ S1), andb_false_r. reflexivity.
Qed.

(* the hypothesis of the second lemma in the terms PathCat itself reports: a path short enough
   to pass the length test and still refused is refused because a prefix escapes *)
Lemma refused_short_escapes fs p : base_path fs <> [] ->
  slen p + base_path_len fs < PATH_MAX - 2 -> pathcat fs p = PcOk PNull ->
  stays_inside (components p) = false.
Proof.
  intros Hb Hlen H. rewrite (pathcat_spec _ _ Hb) in H. unfold fwd_of, legal_b in H.
  destruct (Z.ltb_spec (slen p + base_path_len fs) (PATH_MAX - 2)); [|lia].
  cbn [andb] in H. destruct (stays_inside (components p)); [discriminate|reflexivity].
Qed.

Lemma escaping_prefix_never_rescued_full fs p1 p2 :
  base_path fs <> [] ->
  slen p1 + base_path_len fs < PATH_MAX - 2 -> pathcat fs p1 = PcOk PNull ->
  pathcat fs (p1 ++ SLASH :: p2) = PcOk PNull.
Proof.
  intros Hb Hlen H.
  exact (escaping_prefix_never_rescued_lemma fs p1 p2 Hb (refused_short_escapes fs p1 Hb Hlen H)).
Qed.

(* the hypotheses of both theorems are met by ordinary inputs: "a/.." and "x/../y" are accepted and so is
   their join (which dips back to the base in the middle); "a/../.." is refused within the length limit,
   and stays refused when "/b/c" is appended *)
From Coq Require Import String.
Local Open Scope string_scope.
Example compose_hyps :
  let fs := mkSubfs (s "/b/") in
  base_path fs <> [] /\
  pathcat fs (s "a/..") = PcOk (PStr (s "/b/a/..")) /\ pathcat fs (s "x/../y") = PcOk (PStr (s "/b/x/../y")) /\
  slen ((s "a/.." ++ SLASH :: s "x/../y")%list) + base_path_len fs < PATH_MAX - 2 /\
  pathcat fs (s "a/../x/../y") = PcOk (PStr (s "/b/a/../x/../y")) /\
  slen (s "a/../..") + base_path_len fs < PATH_MAX - 2 /\ pathcat fs (s "a/../..") = PcOk PNull /\
  pathcat fs (s "a/../../b/c") = PcOk PNull.
Proof. vm_compute. repeat split; try discriminate; reflexivity. Qed.
