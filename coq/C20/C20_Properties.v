From Coq Require Import ZArith List.
From PV Require Import C20.C20_Model C20.C20_Proofs.
Theorem c20_placeholder : True. Proof. exact placeholder. Qed.
Print Assumptions c20_placeholder.
