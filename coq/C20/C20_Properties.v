(* C20_Properties.v — the property theorems of C20 (statements only; proofs are in C20_Proofs.v).
   Scope assumptions carried by the statements: the sub-filesystem was created with a NON-EMPTY base
   (an empty base is "default relative path": PathCat passes everything through unvalidated, by
   design) of fewer than 2^32 bytes.  Confinement is lexical. *)
From Coq Require Import ZArith List.
From PV Require Import C20.C20_Model C20.C20_Proofs C20.C20_Compose.
Import ListNotations.
Local Open Scope Z_scope.

(* Whatever PathCat forwards is base ++ path (base with its trailing '/'), every prefix of the
   path's component list has depth >= 0, and the lexical resolution of the forwarded string is
   the resolution of the base followed by ordinary names only. *)
Theorem no_escape : forall st base fs path fwd,
  base <> [] -> slen base < 4294967296 ->
  subfs_init st base = InitOk fs ->
  pathcat fs path = PcOk (PStr fwd) ->
    fwd = base_path fs ++ path
    /\ (base_path fs = base \/ base_path fs = base ++ [SLASH])
    /\ slen fwd < PATH_MAX - 2
    /\ (forall k, 0 <= depth (firstn k (components path)))
    /\ is_abs fwd = is_abs base
    /\ exists below, Forall proper below /\ resolve fwd = resolve base ++ below
                     /\ Z.of_nat (length below) = depth (components path).
Proof. exact no_escape_lemma. Qed.
Print Assumptions no_escape.

(* ... and no intermediate step of the resolution leaves the base either. *)
Theorem no_escape_every_prefix : forall st base fs path fwd k,
  base <> [] -> slen base < 4294967296 ->
  subfs_init st base = InitOk fs ->
  pathcat fs path = PcOk (PStr fwd) ->
  exists below, Forall proper below /\
    rev (resolve_from (is_abs base) [] (components base ++ firstn k (components path)))
    = resolve base ++ below.
Proof. exact no_escape_every_prefix_lemma. Qed.
Print Assumptions no_escape_every_prefix.

(* Conversely: a path within the length limit whose every component prefix stays at or below
   the base is accepted and forwarded unchanged apart from the base prefix. *)
Theorem accepts_legal : forall fs path,
  base_path fs <> [] ->
  slen path + base_path_len fs < PATH_MAX - 2 ->
  (forall k, 0 <= depth (firstn k (components path))) ->
  pathcat fs path = PcOk (PStr (base_path fs ++ path)).
Proof. exact accepts_legal_unfolded. Qed.
Print Assumptions accepts_legal.

(* Everything else is rejected (nullptr forwarded); PathCat never hits the model's error values
   (loop fuel, int overflow of the level counter). *)
Theorem rejects_illegal : forall fs path,
  base_path fs <> [] -> ~ legal fs path -> pathcat fs path = PcOk PNull.
Proof. exact rejects_illegal_lemma. Qed.
Print Assumptions rejects_illegal.

Theorem pathcat_never_stuck : forall fs path, exists a, pathcat fs path = PcOk a.
Proof. exact C20_Proofs.pathcat_never_stuck. Qed.
Print Assumptions pathcat_never_stuck.

(* Every path-taking operation (32 of them, xattr and two-path ones included): the underlay is
   called with the same operation, and each path argument that PathCat guards is either nullptr or
   confined.  symlink guards only `newname`; `oldname` (the link's content) is passed as is. *)
Theorem all_ops_confined : forall st xa base fs o p1 p2,
  base <> [] -> slen base < 4294967296 -> subfs_init st base = InitOk fs ->
  match run_op xa fs o p1 p2 with
  | CallError _ => False
  | NoCall => op_kind o = OneXattr /\ xa = false
  | Call o' args =>
    o' = o /\
    match op_kind o with
    | TwoBoth => exists a1 a2, args = [a1; a2] /\ confined_arg fs base p1 a1 /\ confined_arg fs base p2 a2
    | TwoNew => exists a2, args = [PStr p1; a2] /\ confined_arg fs base p2 a2
    | _ => exists a1, args = [a1] /\ confined_arg fs base p1 a1
    end
  end.
Proof. exact all_ops_confined_lemma. Qed.
Print Assumptions all_ops_confined.

Theorem all_ops_accept_legal : forall xa fs o p1 p2,
  base_path fs <> [] ->
  (op_kind o <> TwoNew -> legal fs p1) ->
  (op_kind o = TwoBoth \/ op_kind o = TwoNew -> legal fs p2) ->
  (op_kind o = OneXattr -> xa = true) ->
  run_op xa fs o p1 p2 =
    match op_kind o with
    | TwoBoth => Call o [PStr (base_path fs ++ p1); PStr (base_path fs ++ p2)]
    | TwoNew => Call o [PStr p1; PStr (base_path fs ++ p2)]
    | _ => Call o [PStr (base_path fs ++ p1)]
    end.
Proof. exact all_ops_accept_legal_lemma. Qed.
Print Assumptions all_ops_accept_legal.

(* Path::level_valid itself, for every string shorter than 2^31 bytes: it terminates, the int
   counter does not overflow, and it answers exactly "no component prefix goes below 0". *)
Theorem level_valid_total : forall path, slen path <= INT_MAX ->
  (level_valid path = LvTrue /\ (forall k, 0 <= depth (firstn k (components path)))) \/
  (level_valid path = LvFalse /\ exists k, depth (firstn k (components path)) < 0).
Proof. exact level_valid_total_lemma. Qed.
Print Assumptions level_valid_total.

(* Finding F1 (repaired by repo_patches/C20-fix-level-valid.diff): the pre-fix validator refused
   legal paths — witness "a/.." — while the repaired one accepts them. *)
Theorem accepts_legal_prefix_refuted :
  exists path, slen path < 10 /\ (forall k, 0 <= depth (firstn k (components path))) /\
               level_valid_prefix path = LvFalse /\ level_valid path = LvTrue.
Proof. exact accepts_legal_prefix_refuted_lemma. Qed.
Print Assumptions accepts_legal_prefix_refuted.

(* The pre-fix validator was safe (never accepted an escaping path); the repair only accepts more. *)
Theorem prefix_was_safe : forall path,
  level_valid_prefix path = LvTrue ->
  (forall k, 0 <= depth (firstn k (components path))) /\
  (slen path <= INT_MAX -> level_valid path = LvTrue).
Proof. exact prefix_was_safe_lemma. Qed.
Print Assumptions prefix_was_safe.

(* The Path iterator by itself: iterating yields exactly the non-empty slash-free pieces, in order;
   repeated, leading and trailing slashes yield nothing. *)
Theorem iterator_visits_components : forall p,
  iter_collect (S (length p)) (iter_begin p) = Some (components p) /\
  Forall (fun c => c <> [] /\ Forall (fun x => x <> SLASH) c) (components p) /\
  (forall a b, components (a ++ SLASH :: b) = components a ++ components b) /\
  (forall n, n <> [] -> Forall (fun x => x <> SLASH) n -> components n = [n]).
Proof. exact iterator_visits_components_lemma. Qed.
Print Assumptions iterator_visits_components.

(* Neither init nor PathCat writes beyond its PATH_MAX-byte buffer. *)
Theorem buffers_fit : forall st base fs, slen base < 4294967296 ->
  subfs_init st base = InitOk fs ->
  base_path_len fs <= PATH_MAX - 1 /\
  forall path fwd, base_path fs <> [] -> pathcat fs path = PcOk (PStr fwd) -> slen fwd + 1 <= PATH_MAX - 2.
Proof. exact buffers_fit_lemma. Qed.
Print Assumptions buffers_fit.

(* Compositionality of the decision (what a caller that builds paths piecewise relies on): joining two
   paths that PathCat accepts with a '/' is accepted whenever the joined string passes the length
   test, and is forwarded as base ++ joined string ... *)
Theorem accepted_paths_compose : forall fs p1 p2 f1 f2,
  base_path fs <> [] ->
  pathcat fs p1 = PcOk (PStr f1) -> pathcat fs p2 = PcOk (PStr f2) ->
  slen (p1 ++ SLASH :: p2) + base_path_len fs < PATH_MAX - 2 ->
  pathcat fs (p1 ++ SLASH :: p2) = PcOk (PStr (base_path fs ++ p1 ++ SLASH :: p2)).
Proof. exact accepted_paths_compose_lemma. Qed.
Print Assumptions accepted_paths_compose.

(* ... and, conversely, a path that was refused although it passes the length test (= some prefix of
   it escapes the base) is refused with EVERY continuation: no suffix ("/x/y", "/../..", ...) makes an
   escaping prefix acceptable. *)
Theorem escaping_prefix_never_rescued : forall fs p1 p2,
  base_path fs <> [] ->
  slen p1 + base_path_len fs < PATH_MAX - 2 -> pathcat fs p1 = PcOk PNull ->
  pathcat fs (p1 ++ SLASH :: p2) = PcOk PNull.
Proof. exact escaping_prefix_never_rescued_full. Qed.
Print Assumptions escaping_prefix_never_rescued.
