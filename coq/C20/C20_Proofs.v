(* C20_Proofs.v — lemmas and full proofs for the sub-filesystem confinement model. *)
From Coq Require Import ZArith List Bool Lia Arith.
From PV Require Import C20.C20_Model.
Import ListNotations.
Local Open Scope Z_scope.

(* ================================================================== *)
(** * A. strings *)

Lemma str_eqb_eq a b : str_eqb a b = true <-> a = b.
Proof.
  unfold str_eqb. revert b. induction a as [|x a IH]; intros [|y b]; cbn; try (split; [discriminate|congruence]).
  - tauto.
  - specialize (IH b). destruct (Nat.eqb_spec (length a) (length b)) as [Hl|Hl]; cbn in *.
    + destruct (Z.eqb_spec x y) as [->|Hxy]; cbn.
      * rewrite IH. split; [intros ->; reflexivity | intros H; injection H; auto].
      * split; [discriminate | intros H; injection H; intros; contradiction].
    + split; [discriminate | intros H; injection H; intros; subst; contradiction].
Qed.

Lemma is_dot_iff n : is_dot n = true <-> n = [DOT].
Proof. apply str_eqb_eq. Qed.
Lemma is_dotdot_iff n : is_dotdot n = true <-> n = [DOT; DOT].
Proof. apply str_eqb_eq. Qed.

Lemma is_dot_false n : is_dot n = false <-> n <> [DOT].
Proof. rewrite <- is_dot_iff. destruct (is_dot n); split; congruence. Qed.
Lemma is_dotdot_false n : is_dotdot n = false <-> n <> [DOT; DOT].
Proof. rewrite <- is_dotdot_iff. destruct (is_dotdot n); split; congruence. Qed.

Lemma delta_cases n :
  (n = [DOT] /\ delta n = 0) \/ (n = [DOT; DOT] /\ delta n = -1) \/
  (n <> [DOT] /\ n <> [DOT; DOT] /\ delta n = 1).
Proof.
  unfold delta. destruct (is_dot n) eqn:E1.
  - left. apply is_dot_iff in E1. auto.
  - destruct (is_dotdot n) eqn:E2.
    + right; left. apply is_dotdot_iff in E2. auto.
    + right; right. apply is_dot_false in E1. apply is_dotdot_false in E2. auto.
Qed.

Lemma delta_range n : -1 <= delta n <= 1.
Proof. destruct (delta_cases n) as [[_ H]|[[_ H]|[_ [_ H]]]]; lia. Qed.

(* a proper name: what is pushed on the resolution stack *)
Definition proper (n : str) : Prop := n <> [] /\ is_dot n = false /\ is_dotdot n = false.

(* ================================================================== *)
(** * B. split / components *)

Lemma split_nonnil p : split p <> [].
Proof.
  destruct p as [|c p]; cbn; [discriminate|].
  destruct (c =? SLASH); [discriminate|]. destruct (split p); discriminate.
Qed.

Lemma split_cons_slash p : split (SLASH :: p) = [] :: split p.
Proof. cbn. reflexivity. Qed.

Lemma components_slash p : components (SLASH :: p) = components p.
Proof. unfold components. rewrite split_cons_slash. reflexivity. Qed.

Definition no_slash (n : str) : Prop := Forall (fun c => c <> SLASH) n.

(* a run of non-slash characters is glued to the first piece of what follows *)
Lemma split_name n r : no_slash n ->
  split (n ++ r) = match split r with h :: t => (n ++ h) :: t | [] => [n] end.
Proof.
  induction n as [|c n IH]; intros Hn; cbn [app].
  - destruct (split r) eqn:E; [exfalso; eapply split_nonnil; eauto | reflexivity].
  - inversion Hn as [|? ? Hc Hn']; subst. cbn [split].
    destruct (Z.eqb_spec c SLASH) as [->|_]; [contradiction|].
    rewrite (IH Hn'). destruct (split r) eqn:E; [exfalso; eapply split_nonnil; eauto | reflexivity].
Qed.

Lemma components_name n r : no_slash n -> n <> [] -> (r = [] \/ exists r', r = SLASH :: r') ->
  components (n ++ r) = n :: components r.
Proof.
  intros Hn Hne Hr. unfold components. rewrite split_name by assumption.
  destruct Hr as [->|[r' ->]].
  - cbn. rewrite app_nil_r. destruct n; [contradiction|reflexivity].
  - rewrite split_cons_slash. cbn [filter nonempty]. rewrite app_nil_r.
    destruct n; [contradiction|reflexivity].
Qed.

Lemma split_app_slash a b : split (a ++ SLASH :: b) = split a ++ split b.
Proof.
  induction a as [|c a IH]; cbn [app].
  - rewrite split_cons_slash. reflexivity.
  - cbn [split]. destruct (c =? SLASH).
    + rewrite IH. reflexivity.
    + rewrite IH. destruct (split a) eqn:E; [exfalso; eapply split_nonnil; eauto | reflexivity].
Qed.

Lemma components_app_slash a b : components (a ++ SLASH :: b) = components a ++ components b.
Proof. unfold components. rewrite split_app_slash, filter_app. reflexivity. Qed.

Lemma components_trailing_slash a : components (a ++ [SLASH]) = components a.
Proof. rewrite components_app_slash. unfold components at 2. cbn. apply app_nil_r. Qed.

Lemma components_nonempty p c : In c (components p) -> c <> [].
Proof. unfold components. rewrite filter_In. intros [_ H]. destruct c; [discriminate|discriminate]. Qed.

Lemma components_no_slash p c : In c (components p) -> no_slash c.
Proof.
  unfold components. rewrite filter_In. intros [H _]. revert c H.
  induction p as [|x p IH]; cbn [split]; intros c H.
  - destruct H as [<-|[]]. constructor.
  - destruct (Z.eqb_spec x SLASH) as [->|Hx].
    + destruct H as [<-|H]; [constructor | auto].
    + destruct (split p) as [|h t] eqn:E.
      * destruct H as [<-|[]]. constructor; [assumption|constructor].
      * destruct H as [<-|H].
        -- constructor; [assumption|]. apply IH. left. reflexivity.
        -- apply IH. right. assumption.
Qed.

(* size accounting: the pieces and the separators make up the string *)
Lemma split_total p : (length (concat (split p)) + length (split p) = S (length p))%nat.
Proof.
  induction p as [|c p IH]; cbn [split]; [reflexivity|].
  destruct (c =? SLASH).
  - cbn. lia.
  - destruct (split p) as [|h t] eqn:E; [exfalso; eapply split_nonnil; eauto|].
    cbn in *. rewrite app_length in *. lia.
Qed.

Lemma filter_nonempty_le (l : list str) : (length (filter nonempty l) <= length (concat l))%nat.
Proof.
  induction l as [|h t IH]; cbn; [lia|]. rewrite app_length.
  destruct h; cbn; lia.
Qed.

Lemma components_length p : (length (components p) <= length p)%nat.
Proof.
  unfold components. pose proof (split_total p). pose proof (filter_nonempty_le (split p)).
  pose proof (split_nonnil p). destruct (split p); [contradiction|]. cbn in *. lia.
Qed.

(* ================================================================== *)
(** * C. the iterator visits exactly [components path] *)

Lemma skip_slashes_components p : components (skip_slashes p) = components p.
Proof.
  induction p as [|c p IH]; cbn [skip_slashes]; [reflexivity|].
  destruct (Z.eqb_spec c SLASH) as [->|_]; [|reflexivity].
  rewrite components_slash. exact IH.
Qed.

Lemma skip_slashes_length p : (length (skip_slashes p) <= length p)%nat.
Proof.
  induction p as [|c p IH]; cbn [skip_slashes]; [lia|].
  destruct (c =? SLASH); cbn; lia.
Qed.

Lemma skip_slashes_head p : skip_slashes p = [] \/ exists c q, skip_slashes p = c :: q /\ c <> SLASH.
Proof.
  induction p as [|c p IH]; cbn [skip_slashes]; [left; reflexivity|].
  destruct (Z.eqb_spec c SLASH) as [->|Hc]; [exact IH|]. right. eauto.
Qed.

Lemma take_name_spec p n r : take_name p = (n, r) ->
  p = n ++ r /\ no_slash n /\ (r = [] \/ exists r', r = SLASH :: r').
Proof.
  revert n r. induction p as [|c p IH]; cbn [take_name]; intros n r H.
  - injection H as <- <-. repeat split; [constructor|left; reflexivity].
  - destruct (Z.eqb_spec c SLASH) as [->|Hc].
    + injection H as <- <-. repeat split; [constructor|right; eauto].
    + destruct (take_name p) as [n' r'] eqn:E. injection H as <- <-.
      destruct (IH _ _ eq_refl) as (-> & Hn & Hr).
      repeat split; [constructor; assumption | exact Hr].
Qed.

Lemma iter_set_components p :
  let it := iter_set p in
  if iter_at_end it then components p = []
  else components p = it_view it :: components (it_rest it)
       /\ (length (it_rest it) < length p)%nat.
Proof.
  destruct p as [|c0 p0]; [reflexivity|].
  set (p := c0 :: p0). cbn zeta. unfold iter_set. fold p.
  destruct (take_name (skip_slashes p)) as [n r] eqn:E.
  destruct (take_name_spec _ _ _ E) as (Hq & Hn & Hr).
  unfold iter_at_end. cbn [it_view it_rest].
  pose proof (skip_slashes_components p) as Hc. pose proof (skip_slashes_length p) as Hl.
  rewrite Hq in Hc, Hl.
  destruct n as [|a n].
  - (* the rest is all slashes: the view is empty *)
    cbn [app] in Hq, Hc. destruct (skip_slashes_head p) as [H0|(c & q & H1 & Hne)].
    + rewrite <- Hc, <- Hq, H0. reflexivity.
    + destruct Hr as [->|[r' ->]]; [rewrite <- Hc; reflexivity|].
      rewrite H1 in Hq. injection Hq as -> _. contradiction.
  - split.
    + rewrite <- Hc. apply components_name; [assumption|discriminate|assumption].
    + rewrite app_length in Hl. unfold p in *. cbn [length it_rest] in *. lia.
Qed.

(* the loop as a fold over a component list *)
Section Walk.
  Variable step : Z -> str -> step_result.
  Fixpoint walk (level : Z) (cs : list str) : lvres :=
    match cs with
    | [] => LvTrue
    | c :: cs' =>
      match step level c with
      | ReturnFalse => LvFalse
      | IntOverflow => LvOverflow
      | Continue l' => walk l' cs'
      end
    end.

  Lemma loop_walk fuel : forall p level, (length p < fuel)%nat ->
    level_loop step fuel (iter_set p) level = walk level (components p).
  Proof.
    induction fuel as [|f IH]; intros p level Hf; [lia|].
    pose proof (iter_set_components p) as H. cbn zeta in H.
    cbn [level_loop]. destruct (iter_at_end (iter_set p)).
    - rewrite H. reflexivity.
    - destruct H as [-> Hl]. cbn [walk].
      destruct (step level (it_view (iter_set p))); try reflexivity.
      unfold iter_next. apply IH. lia.
  Qed.
End Walk.

Lemma level_valid_walk path : level_valid path = walk level_step 0 (components path).
Proof. unfold level_valid, iter_begin. apply loop_walk. lia. Qed.
Lemma level_valid_prefix_walk path : level_valid_prefix path = walk level_step_prefix 0 (components path).
Proof. unfold level_valid_prefix, iter_begin. apply loop_walk. lia. Qed.

(* ================================================================== *)
(** * D. one loop body = one [delta] *)

Lemma incr_ok level : level + 1 <= INT_MAX -> incr level = Continue (level + 1).
Proof. intros H. unfold incr. destruct (Z.ltb_spec INT_MAX (level + 1)); [lia|reflexivity]. Qed.

Lemma is_dot_one a : is_dot [a] = (a =? DOT).
Proof. unfold is_dot, str_eqb. cbn. rewrite andb_true_r. reflexivity. Qed.
Lemma is_dotdot_two a b : is_dotdot [a; b] = (a =? DOT) && (b =? DOT).
Proof. unfold is_dotdot, str_eqb. cbn. rewrite andb_true_r. reflexivity. Qed.

Lemma delta_one a : delta [a] = if a =? DOT then 0 else 1.
Proof. unfold delta. rewrite is_dot_one. destruct (a =? DOT); reflexivity. Qed.
Lemma delta_two a b : delta [a; b] = if (a =? DOT) && (b =? DOT) then -1 else 1.
Proof. unfold delta. rewrite is_dotdot_two. unfold is_dot, str_eqb. cbn. reflexivity. Qed.
Lemma delta_long a b c n : delta (a :: b :: c :: n) = 1.
Proof. unfold delta, is_dot, is_dotdot, str_eqb. cbn. reflexivity. Qed.

Lemma slen_cons a n : slen (a :: n) = 1 + slen n.
Proof. unfold slen. cbn [length]. lia. Qed.
Lemma slen_nonneg n : 0 <= slen n.
Proof. unfold slen. lia. Qed.

(* the repaired loop body in terms of delta *)
Lemma level_step_delta level name : name <> [] ->
  level_step level name =
    if delta name =? 0 then Continue level
    else if delta name =? -1 then (if level - 1 <? 0 then ReturnFalse else Continue (level - 1))
    else incr level.
Proof.
  intros Hne. destruct name as [|a [|b [|c n]]]; [contradiction| | |].
  - rewrite delta_one. unfold level_step, char_at. cbn [nth]. rewrite slen_cons. unfold slen. cbn [length].
    cbn. destruct (a =? DOT); reflexivity.
  - rewrite delta_two. unfold level_step, char_at. cbn [nth]. unfold slen. cbn [length].
    cbn. destruct (a =? DOT); destruct (b =? DOT); reflexivity.
  - rewrite delta_long. unfold level_step, char_at. cbn [nth].
    rewrite !slen_cons. pose proof (slen_nonneg n).
    destruct (Z.ltb_spec 0 (1 + (1 + (1 + slen n)))); [|lia].
    destruct (Z.eqb_spec (1 + (1 + (1 + slen n))) 1); [lia|].
    destruct (Z.eqb_spec (1 + (1 + (1 + slen n))) 2); [lia|].
    cbn. destruct (a =? DOT); reflexivity.
Qed.

(* the pre-fix loop body: its increment is at most delta, its decrement is exact *)
Definition delta_prefix (name : str) : Z :=
  match name with
  | [a] => 0
  | [a; b] => if (a =? DOT) && (b =? DOT) then -1 else 0
  | a :: _ :: _ :: _ => if a =? DOT then 1 else 0
  | [] => 0
  end.

Lemma level_step_prefix_delta level name :
  level_step_prefix level name =
    if delta_prefix name =? 0 then Continue level
    else if delta_prefix name =? -1 then (if level - 1 <? 0 then ReturnFalse else Continue (level - 1))
    else incr level.
Proof.
  destruct name as [|a [|b [|c n]]].
  - reflexivity.
  - unfold level_step_prefix, char_at, delta_prefix. cbn [nth]. unfold slen. cbn [length]. cbn.
    destruct (a =? DOT); reflexivity.
  - unfold level_step_prefix, char_at, delta_prefix. cbn [nth]. unfold slen. cbn [length]. cbn.
    destruct (a =? DOT); destruct (b =? DOT); reflexivity.
  - unfold level_step_prefix, char_at, delta_prefix. cbn [nth].
    rewrite !slen_cons. pose proof (slen_nonneg n).
    destruct (Z.ltb_spec 0 (1 + (1 + (1 + slen n)))); [|lia].
    destruct (Z.eqb_spec (1 + (1 + (1 + slen n))) 1); [lia|].
    destruct (Z.eqb_spec (1 + (1 + (1 + slen n))) 2); [lia|].
    destruct (a =? DOT); reflexivity.
Qed.

Lemma delta_prefix_le name : delta_prefix name <= delta name /\ (delta name = -1 -> delta_prefix name = -1).
Proof.
  destruct name as [|a [|b [|c n]]].
  - cbn. unfold delta, is_dot, is_dotdot, str_eqb. cbn. lia.
  - rewrite delta_one. cbn. destruct (a =? DOT); lia.
  - rewrite delta_two. cbn. destruct ((a =? DOT) && (b =? DOT)); lia.
  - rewrite delta_long. cbn. destruct (a =? DOT); lia.
Qed.

(* ================================================================== *)
(** * E. the whole validator = the specification walk *)

Lemma walk_level_step cs : forall level,
  Forall (fun c => c <> []) cs -> 0 <= level -> level + Z.of_nat (length cs) <= INT_MAX ->
  walk level_step level cs = if stays_inside_from level cs then LvTrue else LvFalse.
Proof.
  induction cs as [|c cs IH]; intros level Hne H0 Hmax; [reflexivity|].
  inversion Hne as [|? ? Hc Hcs]; subst.
  cbn [walk stays_inside_from]. rewrite (level_step_delta level c Hc).
  cbn [length] in Hmax. rewrite Nat2Z.inj_succ in Hmax.
  destruct (delta_cases c) as [[_ Hd]|[[_ Hd]|[_ [_ Hd]]]]; rewrite Hd; cbn [Z.eqb].
  - replace (level + 0) with level by lia.
    destruct (Z.ltb_spec level 0); [lia|]. apply IH; [assumption|lia|lia].
  - replace (level + -1) with (level - 1) by lia.
    destruct (Z.ltb_spec (level - 1) 0); [reflexivity|]. apply IH; [assumption|lia|lia].
  - rewrite incr_ok by lia. destruct (Z.ltb_spec (level + 1) 0); [lia|]. apply IH; [assumption|lia|lia].
Qed.

Lemma components_all_nonempty p : Forall (fun c => c <> []) (components p).
Proof. apply Forall_forall. intros c. apply components_nonempty. Qed.

(* Path::level_valid on any string shorter than 2^31: no fuel exhaustion, no int overflow,
   and the answer is exactly "every component prefix stays at depth >= 0" *)
Lemma level_valid_spec path : slen path <= INT_MAX ->
  level_valid path = if stays_inside (components path) then LvTrue else LvFalse.
Proof.
  intros H. rewrite level_valid_walk. unfold stays_inside.
  apply walk_level_step; [apply components_all_nonempty|lia|].
  pose proof (components_length path). unfold slen in H. unfold str in *. lia.
Qed.

(* pre-fix validator: whatever it accepts the specification accepts (it was safe; it only
   under-counted the depth) *)
Lemma delta_prefix_range name : -1 <= delta_prefix name <= 1.
Proof.
  destruct name as [|a [|b [|c n]]]; cbn; try lia.
  - destruct ((a =? DOT) && (b =? DOT)); lia.
  - destruct (a =? DOT); lia.
Qed.

Lemma walk_prefix_sound cs : forall l l',
  0 <= l <= l' -> walk level_step_prefix l cs = LvTrue -> stays_inside_from l' cs = true.
Proof.
  induction cs as [|c cs IH]; intros l l' Hle H; [reflexivity|].
  cbn [walk stays_inside_from] in *. rewrite level_step_prefix_delta in H.
  pose proof (delta_prefix_le c) as [Hd1 Hd2]. pose proof (delta_range c) as Hr.
  pose proof (delta_prefix_range c) as Hpr.
  destruct (Z.eqb_spec (delta_prefix c) 0) as [E0|E0].
  - assert (0 <= delta c) by (destruct (Z.eq_dec (delta c) (-1)) as [E|E]; [specialize (Hd2 E)|]; lia).
    destruct (Z.ltb_spec (l' + delta c) 0); [lia|]. apply (IH l); [lia|exact H].
  - destruct (Z.eqb_spec (delta_prefix c) (-1)) as [E1|E1].
    + destruct (Z.ltb_spec (l - 1) 0); [discriminate|].
      destruct (Z.ltb_spec (l' + delta c) 0); [lia|]. apply (IH (l - 1)); [lia|exact H].
    + assert (delta c = 1) by lia. unfold incr in H.
      destruct (Z.ltb_spec INT_MAX (l + 1)); [discriminate|].
      destruct (Z.ltb_spec (l' + delta c) 0); [lia|]. apply (IH (l + 1)); [lia|exact H].
Qed.

Lemma level_valid_prefix_sound path :
  level_valid_prefix path = LvTrue -> stays_inside (components path) = true.
Proof. rewrite level_valid_prefix_walk. apply walk_prefix_sound. lia. Qed.

(* ================================================================== *)
(** * F. [stays_inside] = every prefix of the component list has depth >= 0 *)

Lemma stays_inside_from_iff cs : forall s, 0 <= s ->
  (stays_inside_from s cs = true <-> forall k, 0 <= s + depth (firstn k cs)).
Proof.
  induction cs as [|c cs IH]; intros s Hs.
  - split; [|reflexivity]. intros _ k. rewrite firstn_nil. cbn. lia.
  - cbn [stays_inside_from]. split.
    + intros H k. destruct (Z.ltb_spec (s + delta c) 0) as [|Hl]; [discriminate|].
      destruct k as [|k]; cbn [firstn depth]; [lia|].
      pose proof (proj1 (IH _ Hl) H k). lia.
    + intros H. pose proof (H 1%nat) as H1. cbn [firstn depth] in H1.
      destruct (Z.ltb_spec (s + delta c) 0) as [|Hl]; [lia|].
      apply (IH _ Hl). intros k. specialize (H (S k)). cbn [firstn depth] in H. lia.
Qed.

Lemma stays_inside_iff cs : stays_inside cs = true <-> forall k, 0 <= depth (firstn k cs).
Proof. unfold stays_inside. rewrite stays_inside_from_iff by lia. reflexivity. Qed.

Lemma stays_inside_firstn cs k : stays_inside cs = true -> stays_inside (firstn k cs) = true.
Proof.
  rewrite !stays_inside_iff. intros H j. rewrite firstn_firstn. apply H.
Qed.

(* ================================================================== *)
(** * G. PathCat *)

Definition legal_b (fs : subfs) (path : str) : bool :=
  (slen path + base_path_len fs <? PATH_MAX - 2) && stays_inside (components path).
Definition fwd_of (fs : subfs) (path : str) : parg :=
  if legal_b fs path then PStr (base_path fs ++ path) else PNull.

Lemma base_len_pos fs : base_path fs <> [] -> 0 < base_path_len fs.
Proof. unfold base_path_len, slen. destruct (base_path fs); [contradiction|]. cbn [length]. lia. Qed.

(* total functional characterisation of PathCat for a confining (non-empty) base *)
Lemma pathcat_spec fs path : base_path fs <> [] -> pathcat fs path = PcOk (fwd_of fs path).
Proof.
  intros Hb. pose proof (base_len_pos fs Hb) as Hpos. unfold pathcat, fwd_of, legal_b.
  destruct (Z.eqb_spec (base_path_len fs) 0); [lia|].
  destruct (Z.leb_spec (PATH_MAX - 2) (slen path + base_path_len fs)) as [Hge|Hlt].
  - destruct (Z.ltb_spec (slen path + base_path_len fs) (PATH_MAX - 2)); [lia|]. reflexivity.
  - destruct (Z.ltb_spec (slen path + base_path_len fs) (PATH_MAX - 2)); [|lia]. cbn [andb].
    rewrite level_valid_spec by (unfold PATH_MAX, INT_MAX in *; lia).
    destruct (stays_inside (components path)); reflexivity.
Qed.

Lemma pathcat_empty_base fs path : base_path fs = [] -> pathcat fs path = PcOk (PStr path).
Proof. intros H. unfold pathcat, base_path_len. rewrite H. reflexivity. Qed.

(* ================================================================== *)
(** * H. lexical resolution *)

Lemma resolve_from_app abs cs1 : forall S cs2,
  resolve_from abs S (cs1 ++ cs2) = resolve_from abs (resolve_from abs S cs1) cs2.
Proof.
  induction cs1 as [|c cs1 IH]; intros S cs2; [reflexivity|].
  cbn [app resolve_from]. destruct (is_dot c); [apply IH|].
  destruct (is_dotdot c); [|apply IH].
  destruct S as [|top rest]; [destruct abs; apply IH|].
  destruct (is_dotdot top); apply IH.
Qed.

Lemma is_dot_DOT : is_dot [DOT] = true. Proof. reflexivity. Qed.
Lemma is_dot_DOTDOT : is_dot [DOT; DOT] = false. Proof. reflexivity. Qed.
Lemma is_dotdot_DOTDOT : is_dotdot [DOT; DOT] = true. Proof. reflexivity. Qed.

(* starting with |T| proper names on top of an arbitrary stack S, a component list that never
   goes below the starting level only ever touches T: S is preserved underneath *)
Lemma resolve_inside abs cs : forall T S,
  Forall proper T -> Forall (fun c => c <> []) cs ->
  stays_inside_from (Z.of_nat (length T)) cs = true ->
  exists T', Forall proper T' /\ resolve_from abs (T ++ S) cs = T' ++ S /\
             Z.of_nat (length T') = Z.of_nat (length T) + depth cs.
Proof.
  induction cs as [|c cs IH]; intros T S HT Hne Hin; unfold str in *.
  - exists T. cbn. repeat split; [assumption|lia].
  - inversion Hne as [|? ? Hc Hcs]; subst. cbn [stays_inside_from] in Hin.
    destruct (Z.ltb_spec (Z.of_nat (length T) + delta c) 0) as [|Hl]; [discriminate|].
    cbn [resolve_from depth].
    destruct (delta_cases c) as [[-> Hd]|[[-> Hd]|(Hn1 & Hn2 & Hd)]]; rewrite Hd in *.
    + rewrite is_dot_DOT.
      replace (Z.of_nat (length T) + 0) with (Z.of_nat (length T)) in Hin by lia.
      destruct (IH T S HT Hcs Hin) as (T' & H1 & H2 & H3). exists T'. repeat split; [assumption|assumption|lia].
    + rewrite is_dot_DOTDOT, is_dotdot_DOTDOT.
      destruct T as [|t T0]; [cbn [length] in Hl; lia|].
      inversion HT as [|? ? Ht HT0]; subst. cbn [app]. destruct Ht as (_ & _ & Htdd). rewrite Htdd.
      replace (Z.of_nat (length (t :: T0)) + -1) with (Z.of_nat (length T0)) in Hin by (cbn [length]; lia).
      destruct (IH T0 S HT0 Hcs Hin) as (T' & H1 & H2 & H3). exists T'.
      repeat split; [assumption|assumption|cbn [length]; lia].
    + apply is_dot_false in Hn1. apply is_dotdot_false in Hn2. rewrite Hn1, Hn2.
      assert (Hp : Forall proper (c :: T)) by (constructor; [repeat split; assumption|assumption]).
      replace (Z.of_nat (length T) + 1) with (Z.of_nat (length (c :: T))) in Hin by (cbn [length]; lia).
      change (c :: T ++ S) with ((c :: T) ++ S).
      destruct (IH (c :: T) S Hp Hcs Hin) as (T' & H1 & H2 & H3). exists T'.
      repeat split; [assumption|assumption|cbn [length] in H3; lia].
Qed.

Lemma is_abs_app_nonempty a b : a <> [] -> is_abs (a ++ b) = is_abs a.
Proof. destruct a; [contradiction|reflexivity]. Qed.

Definition inside_base (base fwd : str) : Prop :=
  is_abs fwd = is_abs base /\
  exists below, Forall proper below /\ resolve fwd = resolve base ++ below.

(* B = b ++ "/" : everything forwarded as B ++ path with a path that stays inside resolves
   to resolve(B) followed by proper names only *)
Lemma resolve_confined b path :
  stays_inside (components path) = true ->
  exists below, Forall proper below /\
    resolve ((b ++ [SLASH]) ++ path) = resolve (b ++ [SLASH]) ++ below /\
    Z.of_nat (length below) = depth (components path).
Proof.
  intros Hin. unfold resolve.
  rewrite is_abs_app_nonempty by (destruct b; discriminate).
  set (abs := is_abs (b ++ [SLASH])).
  rewrite <- app_assoc. cbn [app]. rewrite components_app_slash, components_trailing_slash.
  rewrite resolve_from_app. set (S := resolve_from abs [] (components b)).
  destruct (resolve_inside abs (components path) [] S (Forall_nil _) (components_all_nonempty path) Hin)
    as (T' & H1 & H2 & H3).
  cbn [app] in H2. rewrite H2. exists (rev T'). rewrite rev_app_distr. repeat split.
  - apply Forall_rev. exact H1.
  - rewrite rev_length. cbn [length] in H3. lia.
Qed.

(* the same for every prefix of the component list of the path: no intermediate step of the
   resolution leaves the base either *)
Lemma resolve_confined_prefix b path k :
  stays_inside (components path) = true ->
  exists below, Forall proper below /\
    rev (resolve_from (is_abs (b ++ [SLASH])) [] (components (b ++ [SLASH]) ++ firstn k (components path)))
    = resolve (b ++ [SLASH]) ++ below.
Proof.
  intros Hin. unfold resolve. set (abs := is_abs (b ++ [SLASH])).
  rewrite resolve_from_app. set (S := resolve_from abs [] (components (b ++ [SLASH]))).
  assert (Hne : Forall (fun c => c <> []) (firstn k (components path))).
  { apply Forall_forall. intros c Hc. apply (components_nonempty path).
    rewrite <- (firstn_skipn k (components path)). apply in_or_app. left. exact Hc. }
  destruct (resolve_inside abs (firstn k (components path)) [] S (Forall_nil _) Hne
              (stays_inside_firstn _ k Hin)) as (T' & H1 & H2 & _).
  cbn [app] in H2. rewrite H2. exists (rev T'). rewrite rev_app_distr. split; [apply Forall_rev; exact H1|reflexivity].
Qed.

(* ================================================================== *)
(** * I. SubFileSystem::init *)

Lemma last_slash_split (b : str) : b <> [] -> last b 0 = SLASH -> exists b', b = b' ++ [SLASH].
Proof.
  intros Hne Hl. destruct (exists_last Hne) as (b' & a & ->). rewrite last_last in Hl. subst a. eauto.
Qed.

Lemma init_spec st base fs : base <> [] -> slen base < 4294967296 ->
  subfs_init st base = InitOk fs ->
  st = StatDir /\ slen base <= PATH_MAX - 2 /\
  ((base_path fs = base /\ exists b', base = b' ++ [SLASH]) \/ base_path fs = base ++ [SLASH]).
Proof.
  intros Hne Hlen H. unfold subfs_init in H. destruct base as [|c0 b0] eqn:Eb; [contradiction|].
  rewrite <- Eb in *. destruct st; try discriminate.
  pose proof (slen_nonneg base) as Hnn.
  rewrite Z.mod_small in H by lia.
  destruct (Z.ltb_spec (PATH_MAX - 2) (slen base)); [discriminate|].
  destruct (Z.eqb_spec (slen base) 0) as [E|_]; [discriminate|].
  assert (Hall : firstn (Z.to_nat (slen base)) base = base).
  { unfold slen. rewrite Nat2Z.id. apply firstn_all. }
  rewrite Hall in H. split; [reflexivity|]. split; [assumption|].
  destruct (Z.eqb_spec (last base 0) SLASH) as [El|_]; injection H as <-; cbn [base_path].
  - left. split; [reflexivity|]. apply last_slash_split; [congruence|assumption].
  - right. reflexivity.
Qed.

(* the stored base is non-empty, ends with '/', and names the same directory as the argument *)
Lemma init_base st base fs : base <> [] -> slen base < 4294967296 ->
  subfs_init st base = InitOk fs ->
  exists b, base_path fs = b ++ [SLASH] /\ (base_path fs = base \/ base_path fs = base ++ [SLASH]) /\
            is_abs (base_path fs) = is_abs base /\ resolve (base_path fs) = resolve base.
Proof.
  intros Hne Hlen H. destruct (init_spec _ _ _ Hne Hlen H) as (_ & _ & [[Hb (b' & Hb')]|Hb]).
  - exists b'. rewrite Hb. repeat split; auto.
  - exists base. rewrite Hb. repeat split; auto.
    + apply is_abs_app_nonempty. assumption.
    + unfold resolve. rewrite is_abs_app_nonempty by assumption. rewrite components_trailing_slash. reflexivity.
Qed.

Lemma init_empty_base st : subfs_init st [] = InitOk (mkSubfs []).
Proof. reflexivity. Qed.

(* ================================================================== *)
(** * J. the user-level statements *)

(* a path the property calls legal: within the length limit, every component prefix at depth >= 0 *)
Definition legal (fs : subfs) (path : str) : Prop :=
  slen path + base_path_len fs < PATH_MAX - 2 /\
  forall k, 0 <= depth (firstn k (components path)).

Lemma legal_b_iff fs path : legal_b fs path = true <-> legal fs path.
Proof.
  unfold legal_b, legal. rewrite andb_true_iff, Z.ltb_lt, stays_inside_iff. reflexivity.
Qed.

(* PathCat's result, as a relation between the argument and what the underlay receives *)
Definition confined_arg (fs : subfs) (base path : str) (a : parg) : Prop :=
  a = PNull \/
  (a = PStr (base_path fs ++ path) /\
   (forall k, 0 <= depth (firstn k (components path))) /\
   inside_base base (base_path fs ++ path)).

Lemma no_escape_lemma st base fs path fwd :
  base <> [] -> slen base < 4294967296 ->
  subfs_init st base = InitOk fs ->
  pathcat fs path = PcOk (PStr fwd) ->
    fwd = base_path fs ++ path
    /\ (base_path fs = base \/ base_path fs = base ++ [SLASH])
    /\ slen fwd < PATH_MAX - 2
    /\ (forall k, 0 <= depth (firstn k (components path)))
    /\ is_abs fwd = is_abs base
    /\ exists below, Forall proper below /\ resolve fwd = resolve base ++ below
                     /\ Z.of_nat (length below) = depth (components path).
Proof.
  intros Hne Hlen Hinit Hpc.
  destruct (init_base _ _ _ Hne Hlen Hinit) as (b & Hb & Hor & Habs & Hres).
  assert (Hbne : base_path fs <> []) by (rewrite Hb; destruct b; discriminate).
  rewrite (pathcat_spec fs path Hbne) in Hpc. unfold fwd_of in Hpc.
  destruct (legal_b fs path) eqn:El; [|discriminate]. injection Hpc as <-.
  apply legal_b_iff in El. destruct El as [Hl Hd].
  split; [reflexivity|]. split; [assumption|]. split.
  { unfold slen, base_path_len, slen in *. rewrite app_length, Nat2Z.inj_add. lia. }
  split; [assumption|]. split.
  { rewrite is_abs_app_nonempty by assumption. exact Habs. }
  apply stays_inside_iff in Hd. rewrite <- Hres, Hb.
  destruct (resolve_confined b path Hd) as (below & H1 & H2 & H3). exists below. auto.
Qed.

Lemma no_escape_every_prefix_lemma st base fs path fwd k :
  base <> [] -> slen base < 4294967296 ->
  subfs_init st base = InitOk fs ->
  pathcat fs path = PcOk (PStr fwd) ->
  exists below, Forall proper below /\
    rev (resolve_from (is_abs base) [] (components base ++ firstn k (components path)))
    = resolve base ++ below.
Proof.
  intros Hne Hlen Hinit Hpc.
  destruct (no_escape_lemma _ _ _ _ _ Hne Hlen Hinit Hpc) as (_ & _ & _ & Hd & _).
  apply stays_inside_iff in Hd.
  destruct (resolve_confined_prefix base path k Hd) as (below & H1 & H2).
  rewrite components_trailing_slash, is_abs_app_nonempty in H2 by assumption.
  exists below. split; [assumption|]. rewrite H2. unfold resolve.
  rewrite is_abs_app_nonempty by assumption. rewrite components_trailing_slash. reflexivity.
Qed.

Lemma accepts_legal_lemma fs path :
  base_path fs <> [] -> legal fs path ->
  pathcat fs path = PcOk (PStr (base_path fs ++ path)).
Proof.
  intros Hb Hl. rewrite pathcat_spec by assumption. unfold fwd_of.
  rewrite (proj2 (legal_b_iff fs path) Hl). reflexivity.
Qed.

Lemma rejects_illegal_lemma fs path :
  base_path fs <> [] -> ~ legal fs path -> pathcat fs path = PcOk PNull.
Proof.
  intros Hb Hl. rewrite pathcat_spec by assumption. unfold fwd_of.
  destruct (legal_b fs path) eqn:E; [apply legal_b_iff in E; contradiction|reflexivity].
Qed.

Lemma pathcat_never_stuck fs path : exists a, pathcat fs path = PcOk a.
Proof.
  destruct (base_path fs) eqn:E.
  - eexists. apply pathcat_empty_base. assumption.
  - eexists. apply pathcat_spec. congruence.
Qed.

Lemma fwd_of_confined st base fs path :
  base <> [] -> slen base < 4294967296 -> subfs_init st base = InitOk fs ->
  confined_arg fs base path (fwd_of fs path).
Proof.
  intros Hne Hlen Hinit.
  destruct (init_base _ _ _ Hne Hlen Hinit) as (b & Hb & _).
  assert (Hbne : base_path fs <> []) by (rewrite Hb; destruct b; discriminate).
  pose proof (pathcat_spec fs path Hbne) as Hpc. unfold confined_arg.
  destruct (fwd_of fs path) as [|f] eqn:E; [left; reflexivity|right].
  destruct (no_escape_lemma _ _ _ _ _ Hne Hlen Hinit Hpc) as (-> & _ & _ & Hd & Habs & below & H1 & H2 & _).
  split; [reflexivity|]. split; [assumption|]. split; [assumption|]. exists below. auto.
Qed.

(* every operation: what reaches the underlay *)
Lemma run_op_spec xa fs o p1 p2 : base_path fs <> [] ->
  run_op xa fs o p1 p2 =
    match op_kind o with
    | OneFs => Call o [fwd_of fs p1]
    | OneXattr => if xa then Call o [fwd_of fs p1] else NoCall
    | TwoBoth => Call o [fwd_of fs p1; fwd_of fs p2]
    | TwoNew => Call o [PStr p1; fwd_of fs p2]
    end.
Proof.
  intros Hb. unfold run_op. rewrite !(pathcat_spec fs _ Hb).
  destruct (op_kind o); destruct xa; reflexivity.
Qed.

Lemma all_ops_confined_lemma st xa base fs o p1 p2 :
  base <> [] -> slen base < 4294967296 -> subfs_init st base = InitOk fs ->
  match run_op xa fs o p1 p2 with
  | CallError _ => False
  | NoCall => op_kind o = OneXattr /\ xa = false
  | Call o' args =>
    o' = o /\
    match op_kind o with
    | TwoBoth => exists a1 a2, args = [a1; a2] /\ confined_arg fs base p1 a1 /\ confined_arg fs base p2 a2
    | TwoNew => exists a2, args = [PStr p1; a2] /\ confined_arg fs base p2 a2
    | _ => exists a1, args = [a1] /\ confined_arg fs base p1 a1
    end
  end.
Proof.
  intros Hne Hlen Hinit.
  destruct (init_base _ _ _ Hne Hlen Hinit) as (b & Hb & _).
  assert (Hbne : base_path fs <> []) by (rewrite Hb; destruct b; discriminate).
  rewrite (run_op_spec xa fs o p1 p2 Hbne).
  pose proof (fwd_of_confined st base fs p1 Hne Hlen Hinit) as C1.
  pose proof (fwd_of_confined st base fs p2 Hne Hlen Hinit) as C2.
  destruct (op_kind o); [| | |destruct xa]; try (split; [reflexivity|]); eauto.
Qed.

Lemma all_ops_accept_legal_lemma xa fs o p1 p2 :
  base_path fs <> [] ->
  (op_kind o <> TwoNew -> legal fs p1) ->
  (op_kind o = TwoBoth \/ op_kind o = TwoNew -> legal fs p2) ->
  (op_kind o = OneXattr -> xa = true) ->
  run_op xa fs o p1 p2 =
    match op_kind o with
    | TwoBoth => Call o [PStr (base_path fs ++ p1); PStr (base_path fs ++ p2)]
    | TwoNew => Call o [PStr p1; PStr (base_path fs ++ p2)]
    | _ => Call o [PStr (base_path fs ++ p1)]
    end.
Proof.
  intros Hb H1 H2 Hx. rewrite run_op_spec by assumption. unfold fwd_of.
  destruct (op_kind o) eqn:E.
  - rewrite (proj2 (legal_b_iff fs p1)) by (apply H1; discriminate). reflexivity.
  - rewrite (proj2 (legal_b_iff fs p1)) by (apply H1; discriminate).
    rewrite (proj2 (legal_b_iff fs p2)) by (apply H2; auto). reflexivity.
  - rewrite (proj2 (legal_b_iff fs p2)) by (apply H2; auto). reflexivity.
  - rewrite (Hx eq_refl). rewrite (proj2 (legal_b_iff fs p1)) by (apply H1; discriminate). reflexivity.
Qed.

(* ================================================================== *)
(** * K. the pre-fix validator: finding F1 *)

(* "a/.." : 97 47 46 46 *)
Lemma accepts_legal_prefix_refuted_lemma :
  exists path, slen path < 10 /\ (forall k, 0 <= depth (firstn k (components path))) /\
               level_valid_prefix path = LvFalse /\ level_valid path = LvTrue.
Proof.
  exists [97; 47; 46; 46]. split; [reflexivity|]. split.
  - apply stays_inside_iff. vm_compute. reflexivity.
  - split; vm_compute; reflexivity.
Qed.

(* the pre-fix validator never accepted an escaping path, and the repair only accepts more *)
Lemma prefix_was_safe_lemma path :
  level_valid_prefix path = LvTrue ->
  (forall k, 0 <= depth (firstn k (components path))) /\
  (slen path <= INT_MAX -> level_valid path = LvTrue).
Proof.
  intros H. apply level_valid_prefix_sound in H. split.
  - apply stays_inside_iff. exact H.
  - intros Hl. rewrite level_valid_spec by assumption. rewrite H. reflexivity.
Qed.

Lemma level_valid_total_lemma path : slen path <= INT_MAX ->
  (level_valid path = LvTrue /\ (forall k, 0 <= depth (firstn k (components path)))) \/
  (level_valid path = LvFalse /\ exists k, depth (firstn k (components path)) < 0).
Proof.
  intros Hl. rewrite level_valid_spec by assumption.
  destruct (stays_inside (components path)) eqn:E.
  - left. split; [reflexivity|]. apply stays_inside_iff. exact E.
  - right. split; [reflexivity|].
    (* a failing prefix exists: scan *)
    assert (Hex : forall cs s, 0 <= s -> stays_inside_from s cs = false -> exists k, s + depth (firstn k cs) < 0).
    { induction cs as [|c cs IH]; intros s Hs Hf; [discriminate|].
      cbn [stays_inside_from] in Hf. destruct (Z.ltb_spec (s + delta c) 0) as [Hlt|Hge].
      - exists 1%nat. cbn [firstn depth]. lia.
      - destruct (IH _ Hge Hf) as [k Hk]. exists (S k). cbn [firstn depth]. lia. }
    destruct (Hex _ 0 (Z.le_refl 0) E) as [k Hk]. exists k. lia.
Qed.

(* the statement of accepts_legal with [legal] unfolded (used verbatim by C20_Properties.v) *)
Lemma accepts_legal_unfolded fs path :
  base_path fs <> [] ->
  slen path + base_path_len fs < PATH_MAX - 2 ->
  (forall k, 0 <= depth (firstn k (components path))) ->
  pathcat fs path = PcOk (PStr (base_path fs ++ path)).
Proof. intros Hb Hl Hd. apply accepts_legal_lemma; [exact Hb | split; [exact Hl | exact Hd]]. Qed.

(* ================================================================== *)
(** * M. the iterator by itself; buffer bounds *)

(* `for (auto& name : Path(p)) out.push_back(name)` *)
Fixpoint iter_collect (fuel : nat) (it : iter) : option (list str) :=
  if iter_at_end it then Some [] else
  match fuel with
  | O => None
  | S f => option_map (cons (it_view it)) (iter_collect f (iter_next it))
  end.

Lemma iter_collect_spec fuel : forall p, (length p < fuel)%nat ->
  iter_collect fuel (iter_set p) = Some (components p).
Proof.
  induction fuel as [|f IH]; intros p Hf; [lia|].
  pose proof (iter_set_components p) as H. cbn zeta in H. cbn [iter_collect].
  destruct (iter_at_end (iter_set p)).
  - rewrite H. reflexivity.
  - destruct H as [-> Hl]. unfold iter_next. rewrite IH by lia. reflexivity.
Qed.

(* iterating a path yields its non-empty, slash-free pieces in order — repeated, leading and
   trailing slashes produce nothing *)
Lemma iterator_visits_components_lemma p :
  iter_collect (S (length p)) (iter_begin p) = Some (components p) /\
  Forall (fun c => c <> [] /\ Forall (fun x => x <> SLASH) c) (components p) /\
  (forall a b, components (a ++ SLASH :: b) = components a ++ components b) /\
  (forall n, n <> [] -> Forall (fun x => x <> SLASH) n -> components n = [n]).
Proof.
  split; [apply iter_collect_spec; lia|]. split.
  - apply Forall_forall. intros c Hc. split; [eapply components_nonempty; eauto|].
    apply (components_no_slash p c Hc).
  - split; [exact components_app_slash|].
    intros n Hne Hn. rewrite <- (app_nil_r n) at 1. rewrite components_name; auto.
Qed.

(* init never overruns base_path[PATH_MAX]; PathCat never overruns buf[PATH_MAX] (incl. the NUL) *)
Lemma buffers_fit_lemma st base fs : slen base < 4294967296 ->
  subfs_init st base = InitOk fs ->
  base_path_len fs <= PATH_MAX - 1 /\
  forall path fwd, base_path fs <> [] -> pathcat fs path = PcOk (PStr fwd) -> slen fwd + 1 <= PATH_MAX - 2.
Proof.
  intros Hlen Hinit. split.
  - destruct base as [|c0 b0] eqn:Eb.
    + cbn in Hinit. injection Hinit as <-. cbn. unfold PATH_MAX. lia.
    + rewrite <- Eb in *. assert (Hne : base <> []) by congruence.
      unfold base_path_len. destruct (init_spec _ _ _ Hne Hlen Hinit) as (_ & Hle & [[-> _] | ->]).
      * lia.
      * unfold slen in *. rewrite app_length, Nat2Z.inj_add. cbn [length]. lia.
  - intros path fwd Hb Hpc. rewrite pathcat_spec in Hpc by assumption. unfold fwd_of in Hpc.
    destruct (legal_b fs path) eqn:E; [|discriminate]. injection Hpc as <-.
    apply legal_b_iff in E. destruct E as [Hl _]. unfold base_path_len, slen in *.
    rewrite app_length, Nat2Z.inj_add. lia.
Qed.


(* ================================================================== *)
(** * L. examples (concrete states meeting the hypotheses; the unit-test paths; dot-names) *)
From Coq Require Import String Ascii.
Definition s (x : string) : str := map (fun a => Z.of_N (N_of_ascii a)) (list_ascii_of_string x).

(* fs/test/test.cpp, TEST(Path, level_valid_ness): the four expectations hold for the repaired function *)
Example unit_test_paths :
  level_valid (s "/asdf/jkl/bmp/qwer/x.jpg") = LvTrue /\
  level_valid (s "/x.jpg/../../x.jpg") = LvFalse /\
  level_valid (s "asdf/../../x.jpg") = LvFalse /\
  level_valid (s "../asdf") = LvFalse.
Proof. vm_compute. repeat split. Qed.
(* ... and held for the pre-fix function too (which is why the suite did not notice F1) *)
Example unit_test_paths_prefix :
  level_valid_prefix (s "/asdf/jkl/bmp/qwer/x.jpg") = LvTrue /\
  level_valid_prefix (s "/x.jpg/../../x.jpg") = LvFalse /\
  level_valid_prefix (s "asdf/../../x.jpg") = LvFalse /\
  level_valid_prefix (s "../asdf") = LvFalse.
Proof. vm_compute. repeat split. Qed.

(* names that merely begin with dots are ordinary names: +1 *)
Example dot_names_are_ordinary :
  delta (s "...") = 1 /\ delta (s "..a") = 1 /\ delta (s ".a") = 1 /\ delta (s "a.") = 1 /\
  delta (s ".") = 0 /\ delta (s "..") = -1 /\
  level_valid (s ".../..") = LvTrue /\ level_valid (s "..a/..") = LvTrue /\ level_valid (s ".a/..") = LvTrue /\
  level_valid (s ".../../..") = LvFalse /\ level_valid (s "..a/../..") = LvFalse /\
  (* pre-fix: "..." and "..a" counted, ".a" and "a" did not *)
  level_valid_prefix (s ".../..") = LvTrue /\ level_valid_prefix (s "..a/..") = LvTrue /\
  level_valid_prefix (s ".a/..") = LvFalse /\ level_valid_prefix (s "a/..") = LvFalse /\
  level_valid_prefix (s "a/b/../..") = LvFalse /\ level_valid_prefix (s "/a/../b") = LvFalse.
Proof. vm_compute. repeat split. Qed.

(* hypotheses of no_escape are satisfiable in a non-trivial way: base "/b" (gets its '/' appended),
   a path that goes down, up and down again *)
Example no_escape_hyps :
  exists fs, subfs_init StatDir (s "/b") = InitOk fs /\ s "/b" <> [] /\ slen (s "/b") < 4294967296 /\
             pathcat fs (s "a//./../c/") = PcOk (PStr (s "/b/a//./../c/")) /\
             resolve (s "/b/a//./../c/") = [s "b"; s "c"] /\ resolve (s "/b") = [s "b"].
Proof. eexists. vm_compute. repeat split; discriminate. Qed.
(* relative base containing '..', and a base that already ends with '/' *)
Example no_escape_hyps_relative :
  exists fs, subfs_init StatDir (s "../b/") = InitOk fs /\ base_path fs = s "../b/" /\
             pathcat fs (s "x/..") = PcOk (PStr (s "../b/x/..")) /\
             pathcat fs (s "x/../..") = PcOk PNull /\
             resolve (s "../b/x/..") = [s ".."; s "b"] /\ resolve (s "../b/") = [s ".."; s "b"].
Proof. eexists. vm_compute. repeat split. Qed.
(* hypotheses of accepts_legal *)
Example accepts_legal_hyps :
  base_path (mkSubfs (s "/b/")) <> [] /\ legal (mkSubfs (s "/b/")) (s "a/b/../..").
Proof.
  split; [discriminate|]. apply legal_b_iff. vm_compute. reflexivity.
Qed.
(* the two-path operations *)
Example rename_example :
  run_op true (mkSubfs (s "/b/")) Rename (s "a/..") (s "../x")
  = Call Rename [PStr (s "/b/a/.."); PNull] /\
  run_op true (mkSubfs (s "/b/")) Symlink (s "../../etc/passwd") (s "l")
  = Call Symlink [PStr (s "../../etc/passwd"); PStr (s "/b/l")] /\
  run_op false (mkSubfs (s "/b/")) Getxattr (s "a") [] = NoCall.
Proof. vm_compute. repeat split. Qed.
(* out of scope by design: an empty base confines nothing *)
Example empty_base_confines_nothing :
  exists fs, subfs_init StatFail [] = InitOk fs /\ pathcat fs (s "../../etc") = PcOk (PStr (s "../../etc")).
Proof. eexists. vm_compute. repeat split. Qed.
(* init failure modes *)
Example init_failures :
  subfs_init StatNotDir (s "/b") = InitFail /\ subfs_init StatFail (s "/b") = InitFail /\
  subfs_init StatDir (repeat 97 4095) = InitFail /\
  (exists fs, subfs_init StatDir (repeat 97 4094) = InitOk fs /\ base_path_len fs = 4095 /\
              pathcat fs [] = PcOk PNull).
Proof. vm_compute. repeat split. eexists. repeat split. Qed.
