From Coq Require Import ZArith List Lia.
From PV Require Import C20.C20_Model.
Lemma placeholder : True. Proof. exact I. Qed.
