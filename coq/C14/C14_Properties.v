From Coq Require Import ZArith List.
From PV Require Import C14.C14_Model C14.C14_Lib C14.C14_Proofs C14.C14_Seq.
Theorem c14_ops_refine_flat_partial : forall ops m, wf_machine m -> Forall supported ops -> Forall args_ok ops -> exists m' obs, run m ops = Some (m', obs) /\ wf_machine m' /\ refines m ops obs m'. Proof. exact ops_refine_flat_partial. Qed.
Print Assumptions c14_ops_refine_flat_partial.
Theorem c14_step_refines : forall m o, wf_machine m -> supported o -> args_ok o -> exists m1 ob, step m o = Some (m1, ob) /\ wf_machine m1 /\ flat_spec o (m_own m) (mflat m) (mflat m1) (auxflat m1) ob. Proof. exact step_refines. Qed.
Print Assumptions c14_step_refines.
Theorem c14_sum_refines : forall st v, wf_view st v -> v_sum v = zlen (flatT st v). Proof. exact v_sum_refines. Qed.
Print Assumptions c14_sum_refines.
Theorem c14_shrink_to_refines : forall st v size v' r, wf_view st v -> (0 <= size)%Z -> v_shrink_to v size = (v', r) -> r = Z.min size (v_sum v) /\ flatT st v' = firstn (Z.to_nat r) (flatT st v) /\ wf_view st v' /\ (r = size \/ v' = v). Proof. exact v_shrink_to_refines. Qed.
Print Assumptions c14_shrink_to_refines.
Theorem c14_extract_front_refines : forall st v bytes, wf_view st v -> (0 <= bytes)%Z -> exists v' rem, do_extract_front cb_discard v bytes tt = XDone v' rem tt /\ (bytes - rem = Z.min bytes (v_sum v))%Z /\ flatT st v' = skipn (Z.to_nat (bytes - rem)) (flatT st v) /\ wf_view st v' /\ (zlen v' <= zlen v)%Z. Proof. exact xf_discard_refines. Qed.
Print Assumptions c14_extract_front_refines.
Theorem c14_extract_back_refines : forall st v bytes, wf_view st v -> (0 <= bytes)%Z -> exists v' rem, do_extract_back cb_discard v bytes tt = XDone v' rem tt /\ (bytes - rem = Z.min bytes (v_sum v))%Z /\ flatT st v' = firstn (Z.to_nat (v_sum v - (bytes - rem))) (flatT st v) /\ wf_view st v' /\ (zlen v' <= zlen v)%Z. Proof. exact xb_discard_refines. Qed.
Print Assumptions c14_extract_back_refines.
Theorem c14_extract_front_view_refines : forall st v bytes N, wf_view st v -> (0 <= bytes)%Z -> match do_extract_front (cb_view_front N) v bytes nil with | XOob => False | XDone v' rem a => (bytes - rem = Z.min bytes (v_sum v))%Z /\ flatT st a = firstn (Z.to_nat (bytes - rem)) (flatT st v) /\ flatT st v' = skipn (Z.to_nat (bytes - rem)) (flatT st v) /\ wf_view st v' /\ wf_view st a /\ (zlen v' <= zlen v)%Z | XNeg v' a => flatT st a ++ flatT st v' = flatT st v /\ wf_view st v' /\ wf_view st a /\ (zlen v' <= zlen v)%Z end. Proof. exact xf_view_refines. Qed.
Print Assumptions c14_extract_front_view_refines.
Theorem c14_extract_back_view_refines : forall st v bytes N, wf_view st v -> (0 <= bytes)%Z -> match do_extract_back (cb_view_back N) v bytes nil with | XOob => False | XDone v' rem a => (bytes - rem = Z.min bytes (v_sum v))%Z /\ flatT st a = skipn (Z.to_nat (v_sum v - (bytes - rem))) (flatT st v) /\ flatT st v' = firstn (Z.to_nat (v_sum v - (bytes - rem))) (flatT st v) /\ wf_view st v' /\ wf_view st a /\ (zlen v' <= zlen v)%Z | XNeg v' a => flatT st v' ++ flatT st a = flatT st v /\ wf_view st v' /\ wf_view st a /\ (zlen v' <= zlen v)%Z end. Proof. exact xb_view_refines. Qed.
Print Assumptions c14_extract_back_view_refines.
Theorem c14_no_oob_prefix_refuted : exists (st : store) (v : view) (n : Z), wf_view st v /\ (0 <= n)%Z /\ old_memcpy_to st v n = None /\ old_pipe_to_view st v nil n = None. Proof. exact no_oob_prefix_refuted. Qed.
Print Assumptions c14_no_oob_prefix_refuted.
