From Coq Require Import ZArith List.
From PV Require Import C14.C14_Model C14.C14_Proofs.
Theorem c14_placeholder : True. Proof. exact placeholder. Qed.
Print Assumptions c14_placeholder.
