(* C14 — iovector / iovector_view (common/iovector.h, common/iovector.cpp).
   Executable model ONLY (no proofs here).

   Memory (DESIGN.md §4.2): a store is a list of byte buffers indexed by buffer id; an iovec
   is (buffer id, offset, length); every byte access goes through [load]/[store_bytes], which
   return None outside the buffer.  "No out-of-bounds" = the run is not None.  Reads of an
   iovec ARRAY outside its element count are modelled the same way where the C++ can do them
   (the old iov_iterator constructor, kept as [it_ctor_old]).

   Conventions: sizes/offsets are Z (size_t values; the 2^64 wrap of `sum` is unreachable for
   elements that describe real memory — the theorems carry the guard "elements lie inside
   their buffers", which bounds every sum by the total memory).  Asserts are OFF (-DNDEBUG).
   The model follows the FIXED iov_iterator constructor (repo_patches/C14-fix-iov-iterator-empty.diff) and the FIXED
   extract_front/back(bytes, iovector ptr) (repo_patches/C14-fix-extract-into-iovector-capacity.diff). *)
From Coq Require Import ZArith List Bool.
Import ListNotations.
Local Open Scope Z_scope.

(* ------------------------------------------------------------------ memory *)
Definition byte := Z.
Definition store := list (list byte).
Definition zlen {A} (l : list A) : Z := Z.of_nat (length l).

Definition get_buf (st : store) (id : Z) : option (list byte) :=
  if id <? 0 then None else nth_error st (Z.to_nat id).
Definition sub (b : list byte) (off n : Z) : list byte :=
  firstn (Z.to_nat n) (skipn (Z.to_nat off) b).
Definition in_range (b : list byte) (off n : Z) : bool :=
  (0 <=? off) && (0 <=? n) && (off + n <=? zlen b).
Definition load (st : store) (id off n : Z) : option (list byte) :=
  match get_buf st id with
  | None => None
  | Some b => if in_range b off n then Some (sub b off n) else None
  end.
Definition splice (b : list byte) (off : Z) (data : list byte) : list byte :=
  firstn (Z.to_nat off) b ++ data ++ skipn (Z.to_nat off + length data) b.
Fixpoint set_nth {A} (l : list A) (k : nat) (x : A) : list A :=
  match l, k with
  | [], _ => []
  | _ :: r, O => x :: r
  | y :: r, S k' => y :: set_nth r k' x
  end.
Definition store_bytes (st : store) (id off : Z) (data : list byte) : option store :=
  match get_buf st id with
  | None => None
  | Some b => if in_range b off (zlen data)
              then Some (set_nth st (Z.to_nat id) (splice b off data)) else None
  end.
(* memcpy(dst, src, n): read n bytes, then write them *)
Definition memcpy (st : store) (did doff sid soff n : Z) : option store :=
  match load st sid soff n with
  | None => None
  | Some d => store_bytes st did doff d
  end.

(* deterministic content of a freshly created buffer: a function of (id, index) — what the
   harness writes into every buffer it mallocs (sources, destinations, allocator results) *)
Definition pattern (id n : Z) : list byte :=
  map (fun i => (id * 37 + Z.of_nat i * 11 + 5) mod 251) (seq 0 (Z.to_nat n)).
Definition new_buf (st : store) (n : Z) : store * Z := (st ++ [pattern (zlen st) n], zlen st).

(* ------------------------------------------------------------------ iovec, view *)
Record iovec := mkiov { iv_id : Z; iv_off : Z; iv_len : Z }.
Definition null_iov : iovec := mkiov (-1) 0 0.          (* iovec{} : {nullptr, 0} *)
Definition view := list iovec.                         (* iov[0..iovcnt) *)

Fixpoint new_bufs (st : store) (shape : list Z) : store * view :=
  match shape with
  | [] => (st, [])
  | n :: r => let '(st1, id) := new_buf st n in
              let '(st2, v) := new_bufs st1 r in (st2, mkiov id 0 n :: v)
  end.

(* bytes an element / a vector denotes (None if an element leaves its buffer) *)
Definition bytes_of (st : store) (e : iovec) : option (list byte) :=
  load st (iv_id e) (iv_off e) (iv_len e).
Fixpoint flat (st : store) (v : view) : option (list byte) :=
  match v with
  | [] => Some []
  | e :: r => match bytes_of st e, flat st r with
              | Some a, Some b => Some (a ++ b)
              | _, _ => None
              end
  end.

(* iovector.cpp:23-29  sum *)
Fixpoint sum_loop (v : view) (s : Z) : Z :=
  match v with [] => s | e :: r => sum_loop r (s + iv_len e) end.
Definition v_sum (v : view) : Z := sum_loop v 0.

(* iovector.cpp:31-48  shrink_to.  Result: (elements [0..iovcnt'), hit?, remaining size) *)
Fixpoint shrink_loop (v : view) (size : Z) : view * bool * Z :=
  match v with
  | [] => ([], false, size)
  | e :: r =>
      if size <=? iv_len e
      then ([mkiov (iv_id e) (iv_off e) size], true, size)          (* iov[i].iov_len = size; iovcnt = i+1 *)
      else let '(v', hit, s') := shrink_loop r (size - iv_len e) in (e :: v', hit, s')
  end.
Definition v_shrink_to (v : view) (size : Z) : view * Z :=
  if size =? 0 then ([], 0)                                       (* return iovcnt = 0 *)
  else let '(v', hit, s') := shrink_loop v size in
       if hit then (v', size) else (v', size - s').               (* size0 - size *)

(* iovector.cpp:50-72  shrink_less_than *)
Fixpoint slt_loop (v : view) (size : Z) : option (view * Z) :=
  match v with
  | [] => None
  | e :: r =>
      if size <=? iv_len e then Some ([e], iv_len e - size)
      else match slt_loop r (size - iv_len e) with
           | Some (v', x) => Some (e :: v', x)
           | None => None
           end
  end.
Definition v_shrink_less_than (v : view) (size : Z) : view * Z :=
  if size =? 0 then
    match v with
    | [] => ([], 0)
    | e :: _ => ([], iv_len e)                                    (* iovcnt = 0; return iov[0].iov_len *)
    end
  else match slt_loop v size with
       | Some r => r
       | None => (v, 0)
       end.

(* iovector.cpp:74-127  slice(count, offset, out) ; N = out->iovcnt on entry.
   Result: (ret, Some out-elements) or (ret, None) when *out is left untouched. *)
Fixpoint slice_skip (v : view) (pos offset : Z) : view * Z :=
  match v with
  | [] => ([], pos)
  | e :: r => if offset <? pos + iv_len e then (v, pos)            (* pos + len > offset: break *)
              else slice_skip r (pos + iv_len e) offset
  end.
Fixpoint slice_rest (v : view) (count room : Z) : view * Z :=
  match v with
  | [] => ([], 0)
  | e :: r =>
      if room <=? 0 then ([], 0)                                   (* cnt < iov->iovcnt fails *)
      else if count <=? iv_len e then ([mkiov (iv_id e) (iv_off e) count], count)
      else let '(o, ret) := slice_rest r (count - iv_len e) (room - 1) in (e :: o, iv_len e + ret)
  end.
Definition v_slice (v : view) (count offset N : Z) : Z * option view :=
  if N =? 0 then (-1, None)
  else if count =? 0 then (0, Some [])
  else let '(it, pos) := slice_skip v 0 offset in
       match it with
       | [] => (0, Some [])
       | e :: r =>
           let first := mkiov (iv_id e) (iv_off e + (offset - pos)) (iv_len e - (offset - pos)) in
           if count <=? iv_len first
           then (count, Some [mkiov (iv_id first) (iv_off first) count])
           else let '(o, ret) := slice_rest r (count - iv_len first) (N - 1) in
                (iv_len first + ret, Some (first :: o))
       end.

(* iovector.cpp:129-197  do_extract_front / do_extract_back with a per-piece callback.
   The callback works on an accumulator A: CbOk = returned 0, CbNeg = returned <0,
   CbOob = touched memory outside a buffer. *)
Inductive cbres (A : Type) : Type :=
| CbOk (a : A) | CbNeg (a : A) | CbOob.
Arguments CbOk {A} a. Arguments CbNeg {A} a. Arguments CbOob {A}.
Inductive xres (A : Type) : Type :=
| XOob                                   (* out-of-bounds access in the callback *)
| XNeg (v : view) (a : A)                (* callback < 0: return -1, view as it is at that point *)
| XDone (v : view) (rem : Z) (a : A).    (* loop left with `bytes` = rem: return bytes0 - rem *)
Arguments XOob {A}. Arguments XNeg {A} v a. Arguments XDone {A} v rem a.

Section Extract.
  Context {A : Type} (cb : A -> Z -> Z -> Z -> cbres A).      (* acc, id, off, size *)
  (* while(!empty()) { auto& v = front(); ... } *)
  Fixpoint xf_loop (v : view) (bytes : Z) (a : A) : xres A :=
    match v with
    | [] => XDone [] bytes a
    | e :: r =>
        if bytes <=? iv_len e then
          match cb a (iv_id e) (iv_off e) bytes with
          | CbOob => XOob
          | CbNeg a' => XNeg v a'
          | CbOk a' =>
              let l := iv_len e - bytes in
              if l =? 0 then XDone r 0 a'                                    (* pop_front *)
              else XDone (mkiov (iv_id e) (iv_off e + bytes) l :: r) 0 a'      (* iov_base += bytes *)
          end
        else
          match cb a (iv_id e) (iv_off e) (iv_len e) with
          | CbOob => XOob
          | CbNeg a' => XNeg v a'
          | CbOk a' => xf_loop r (bytes - iv_len e) a'
          end
    end.
  Definition do_extract_front (v : view) (bytes : Z) (a : A) : xres A :=
    if bytes =? 0 then XDone v 0 a else xf_loop v bytes a.
  (* the back loop runs over the REVERSED element list: rv = rev v *)
  Fixpoint xb_loop (rv : view) (bytes : Z) (a : A) : xres A :=
    match rv with
    | [] => XDone [] bytes a
    | e :: r =>
        if bytes <=? iv_len e then
          match cb a (iv_id e) (iv_off e + iv_len e - bytes) bytes with
          | CbOob => XOob
          | CbNeg a' => XNeg rv a'
          | CbOk a' =>
              let l := iv_len e - bytes in
              if l =? 0 then XDone r 0 a'                                    (* pop_back *)
              else XDone (mkiov (iv_id e) (iv_off e) l :: r) 0 a'
          end
        else
          match cb a (iv_id e) (iv_off e) (iv_len e) with
          | CbOob => XOob
          | CbNeg a' => XNeg rv a'
          | CbOk a' => xb_loop r (bytes - iv_len e) a'
          end
    end.
  Definition unrev (x : xres A) : xres A :=
    match x with
    | XOob => XOob
    | XNeg rv a => XNeg (rev rv) a
    | XDone rv rem a => XDone (rev rv) rem a
    end.
  Definition do_extract_back (v : view) (bytes : Z) (a : A) : xres A :=
    if bytes =? 0 then XDone v 0 a else unrev (xb_loop (rev v) bytes a).
End Extract.

(* the callbacks of iovector.cpp:200-262 *)
Definition cb_discard (a : unit) (id off n : Z) : cbres unit := CbOk a.
(* extract_front(bytes, buf): memcpy(buf, ptr, size); buf += size.   acc = (store, position in buf) *)
Definition cb_copy_front (bufid : Z) (a : store * Z) (id off n : Z) : cbres (store * Z) :=
  let '(st, pos) := a in
  match memcpy st bufid pos id off n with
  | None => CbOob
  | Some st' => CbOk (st', pos + n)
  end.
(* extract_back(bytes, buf): buf -= size; memcpy(buf, ptr, size) *)
Definition cb_copy_back (bufid : Z) (a : store * Z) (id off n : Z) : cbres (store * Z) :=
  let '(st, pos) := a in
  match memcpy st bufid (pos - n) id off n with
  | None => CbOob
  | Some st' => CbOk (st', pos - n)
  end.
(* extract_front(bytes, iovector_view ptr): if (iov->iovcnt == N) return -1; iov->iov[iovcnt++] = {ptr,size} *)
Definition cb_view_front (N : Z) (a : view) (id off n : Z) : cbres view :=
  if zlen a =? N then CbNeg a else CbOk (a ++ [mkiov id off n]).
(* extract_back(bytes, iovector_view ptr): if (begin == iov->iov) return -1; *--begin = {ptr,size} *)
Definition cb_view_back (N : Z) (a : view) (id off n : Z) : cbres view :=
  if zlen a =? N then CbNeg a else CbOk (mkiov id off n :: a).

(* result of an extraction as the C++ returns it *)
Definition xret {A} (bytes : Z) (x : xres A) : Z :=
  match x with XOob => 0 | XNeg _ _ => -1 | XDone _ rem _ => bytes - rem end.

(* iovector.h:120-132  iovector_view::extract_front_continuous *)
Definition v_xfc (v : view) (bytes : Z) : view * option (Z * Z) :=
  match v with
  | [] => (v, None)                                               (* empty() *)
  | f :: r =>
      if iv_len f <? bytes then (v, None)
      else let l := iv_len f - bytes in
           (if l =? 0 then r else mkiov (iv_id f) (iv_off f + bytes) l :: r,
            Some (iv_id f, iv_off f))
  end.
(* iovector.h:149-160  iovector_view::extract_back_continuous (on the reversed list) *)
Definition v_xbc (v : view) (bytes : Z) : view * option (Z * Z) :=
  match rev v with
  | [] => (v, None)
  | b :: r =>
      if iv_len b <? bytes then (v, None)
      else let l := iv_len b - bytes in
           (if l =? 0 then rev r else rev (mkiov (iv_id b) (iv_off b) l :: r),
            Some (iv_id b, iv_off b + l))
  end.

(* iovector.cpp:265-295  iov_iterator.  None = empty (_iovcnt == 0); Some (_v, elements after _iov) *)
Definition iter := option (iovec * view).
(* fixed constructor: _v(v.iovcnt > 0 ? v.iov[0] : iovec{}) *)
Definition it_ctor (v : view) : iter :=
  match v with [] => None | x :: r => Some (x, r) end.
(* constructor of the unfixed tree: _v(v.iov[0]) — reads element 0 of a 0-element array *)
Definition it_ctor_old (v : view) : option iter :=
  match v with [] => None (* out-of-bounds read of iov[0] *) | x :: r => Some (Some (x, r)) end.
Definition iov_advance (e : iovec) (n : Z) : iovec := mkiov (iv_id e) (iv_off e + n) (iv_len e - n).
Definition it_front (i : iter) : option iovec := match i with None => None | Some (x, _) => Some x end.
Definition it_adv (i : iter) (n : Z) : iter :=
  match i with
  | None => None
  | Some (x, r) =>
      if n <? iv_len x then Some (iov_advance x n, r)
      else match r with [] => None | y :: r' => Some (y, r') end     (* --_iovcnt > 0 ? *++_iov : {} *)
  end.
(* iovector.cpp:320-329  src_extractor<T>: the source vector itself, popped as it is consumed *)
Definition ex_front (v : view) : option iovec := match v with [] => None | x :: _ => Some x end.
Definition ex_adv (v : view) (n : Z) : view :=
  match v with
  | [] => []
  | x :: r => if n <? iv_len x then iov_advance x n :: r else r
  end.

(* iovector.cpp:301-314  _copy_pipe_iov.  Fuel: every iteration finishes an element of dest, an
   element of src, or sets size to 0, so |dest| + |src| + 1 iterations suffice. *)
Section CopyPipe.
  Context {Src : Type} (s_front : Src -> option iovec) (s_adv : Src -> Z -> Src).
  Fixpoint copy_loop (fuel : nat) (st : store) (d : iter) (s : Src) (size : Z)
    : option (store * iter * Src * Z) :=
    match fuel with
    | O => None
    | S f =>
        if size =? 0 then Some (st, d, s, size) else
        match it_front d with
        | None => Some (st, d, s, size)
        | Some df =>
            match s_front s with
            | None => Some (st, d, s, size)
            | Some sf =>
                let step := Z.min size (Z.min (iv_len df) (iv_len sf)) in
                match memcpy st (iv_id df) (iv_off df) (iv_id sf) (iv_off sf) step with
                | None => None
                | Some st' => copy_loop f st' (it_adv d step) (s_adv s step) (size - step)
                end
            end
        end
    end.
End CopyPipe.
Definition copy_fuel (d s : view) : nat := S (length d + length s).

(* memcpy_iov(dest, src, size): returns (store, bytes copied) *)
Definition v_memcpy_iov (st : store) (d s : view) (size : Z) : option (store * Z) :=
  match copy_loop it_front it_adv (copy_fuel d s) st (it_ctor d) (it_ctor s) size with
  | None => None
  | Some (st', _, _, rem) => Some (st', size - rem)
  end.
(* the same with the unfixed constructor (kept for no_oob_prefix_refuted) *)
Definition v_memcpy_iov_old (st : store) (d s : view) (size : Z) : option (store * Z) :=
  match it_ctor_old d, it_ctor_old s with
  | Some di, Some si =>
      match copy_loop it_front it_adv (copy_fuel d s) st di si size with
      | None => None
      | Some (st', _, _, rem) => Some (st', size - rem)
      end
  | _, _ => None
  end.
(* pipe_iov(dest, src&, size): returns (store, src', bytes copied) *)
Definition v_pipe_iov (st : store) (d s : view) (size : Z) : option (store * view * Z) :=
  match copy_loop ex_front ex_adv (copy_fuel d s) st (it_ctor d) s size with
  | None => None
  | Some (st', _, s', rem) => Some (st', s', size - rem)
  end.
Definition v_pipe_iov_old (st : store) (d s : view) (size : Z) : option (store * view * Z) :=
  match it_ctor_old d with
  | Some di =>
      match copy_loop ex_front ex_adv (copy_fuel d s) st di s size with
      | None => None
      | Some (st', _, s', rem) => Some (st', s', size - rem)
      end
  | None => None
  end.

(* ------------------------------------------------------------------ the owning iovector *)
(* iovector.h:244-883.  iovs[capacity] with the live window [iov_begin, iov_end); the model
   keeps iov_begin and the live elements (iov_end = iov_begin + |live|); slots outside the
   window are never read by any operation.  nbases counts allocator results. *)
Record iovector := mkIV { cap : Z; ibeg : Z; live : view; nbases : Z }.
Definition iend (iv : iovector) : Z := ibeg iv + zlen (live iv).
Definition INT_MAX : Z := 2147483647.
Definition IOVEC_SIZE : Z := 16.                                  (* sizeof(struct iovec) *)

(* wrappers that run a view operation on view() and re-derive the window *)
(* iov_begin = iov_end - va.iovcnt *)
Definition upd_front (iv : iovector) (v' : view) : iovector :=
  mkIV (cap iv) (iend iv - zlen v') v' (nbases iv).
(* iov_end = iov_begin + va.iovcnt *)
Definition upd_back (iv : iovector) (v' : view) : iovector :=
  mkIV (cap iv) (ibeg iv) v' (nbases iv).

(* iovector.h:815-836  IOVAllocation_::do_allocate with the harness allocator: it hands out
   min(size.max, chunk) bytes, or fails (ret < 0, ptr = nullptr) if that is < size.min *)
Definition do_allocate (chunk : Z) (st : store) (iv : iovector) (smin smax : Z)
  : store * iovector * option (Z * Z) :=
  if cap iv <=? nbases iv then (st, iv, None)                       (* ENOBUFS *)
  else let r := Z.min smax chunk in
       if r <? smin then (st, iv, None)
       else let '(st', id) := new_buf st r in
            (st', mkIV (cap iv) (ibeg iv) (live iv) (nbases iv + 1), Some (id, r)).
(* iovector.h:863-869 do_malloc ((int) cast unreachable for the sizes used: <= sum or 16*iovcnt) *)
Definition do_malloc (chunk : Z) (st : store) (iv : iovector) (size : Z) :=
  do_allocate chunk st iv size size.
(* iovector.h:870-882 new_iovec *)
Definition new_iovec (chunk : Z) (st : store) (iv : iovector) (size_ : Z) : store * iovector * iovec :=
  let size := if size_ <=? INT_MAX then size_ else INT_MAX in
  match do_allocate chunk st iv 1 size with
  | (st', iv', Some (id, r)) => (st', iv', mkiov id 0 r)
  | (st', iv', None) => (st', iv', null_iov)
  end.

(* iovector.h:350-356, 376-382 push_front / push_back (struct iovec) *)
Definition o_push_back (iv : iovector) (e : iovec) : iovector * Z :=
  if iend iv <? cap iv then (mkIV (cap iv) (ibeg iv) (live iv ++ [e]) (nbases iv), iv_len e) else (iv, 0).
Definition o_push_front (iv : iovector) (e : iovec) : iovector * Z :=
  if 0 <? ibeg iv then (mkIV (cap iv) (ibeg iv - 1) (e :: live iv) (nbases iv), iv_len e) else (iv, 0).
(* iovector.cpp:357-374 push_back_more / 339-355 push_front_more *)
Fixpoint push_back_more (fuel : nat) (chunk : Z) (st : store) (iv : iovector) (bytes0 bytes : Z)
  : option (store * iovector * Z) :=
  match fuel with
  | O => None
  | S f =>
      if bytes =? 0 then Some (st, iv, bytes0 - bytes) else
      if cap iv <=? iend iv then Some (st, iv, bytes0 - bytes) else      (* LOG_ERROR_RETURN(ENOBUFS, ..) *)
      let '(st1, iv1, v) := new_iovec chunk st iv bytes in
      if iv_len v =? 0 then Some (st1, iv1, bytes0 - bytes) else
      let '(iv2, _) := o_push_back iv1 v in
      push_back_more f chunk st1 iv2 bytes0 (bytes - iv_len v)
  end.
Fixpoint push_front_more (fuel : nat) (chunk : Z) (st : store) (iv : iovector) (bytes0 bytes : Z)
  : option (store * iovector * Z) :=
  match fuel with
  | O => None
  | S f =>
      if bytes =? 0 then Some (st, iv, bytes0 - bytes) else
      if ibeg iv <=? 0 then Some (st, iv, bytes0 - bytes) else          (* iov_begin == 0 (uint16_t) *)
      let '(st1, iv1, v) := new_iovec chunk st iv bytes in
      if iv_len v =? 0 then Some (st1, iv1, bytes0 - bytes) else
      let '(iv2, _) := o_push_front iv1 v in
      push_front_more f chunk st1 iv2 bytes0 (bytes - iv_len v)
  end.
(* fuel: every iteration of push_back_more fills a slot (iov_end grows towards capacity), every
   iteration of push_front_more uses a reserved front slot (iov_begin shrinks towards 0) *)
Definition back_fuel (iv : iovector) : nat := S (Z.to_nat (cap iv - iend iv)).
Definition front_fuel (iv : iovector) : nat := S (Z.to_nat (ibeg iv)).
(* iovector.h:389-397 push_back(size_t bytes) *)
Definition o_push_back_alloc (chunk : Z) (st : store) (iv : iovector) (bytes : Z)
  : option (store * iovector * Z) :=
  if cap iv <=? iend iv then Some (st, iv, 0) else
  let '(st1, iv1, v) := new_iovec chunk st iv bytes in
  if iv_len v =? 0 then Some (st1, iv1, 0) else
  let '(iv2, r) := o_push_back iv1 v in
  if r =? bytes then Some (st1, iv2, bytes) else
  match push_back_more (back_fuel iv2) chunk st1 iv2 (bytes - iv_len v) (bytes - iv_len v) with
  | None => None
  | Some (st3, iv3, r3) => Some (st3, iv3, iv_len v + r3)
  end.
(* iovector.h:363-371 push_front(size_t bytes) *)
Definition o_push_front_alloc (chunk : Z) (st : store) (iv : iovector) (bytes : Z)
  : option (store * iovector * Z) :=
  if ibeg iv <=? 0 then Some (st, iv, 0) else                         (* iov_begin == 0 (uint16_t) *)
  let '(st1, iv1, v) := new_iovec chunk st iv bytes in
  if iv_len v =? 0 then Some (st1, iv1, 0) else
  let '(iv2, r) := o_push_front iv1 v in
  if r =? bytes then Some (st1, iv2, bytes) else
  match push_front_more (front_fuel iv2) chunk st1 iv2 (bytes - iv_len v) (bytes - iv_len v) with
  | None => None
  | Some (st3, iv3, r3) => Some (st3, iv3, iv_len v + r3)
  end.
(* iovector.h:409-420 pop_front / pop_back ; 422-426 clear *)
Definition o_pop_front (iv : iovector) : iovector * Z :=
  match live iv with
  | [] => (iv, 0)
  | e :: r => (mkIV (cap iv) (ibeg iv + 1) r (nbases iv), iv_len e)
  end.
Definition o_pop_back (iv : iovector) : iovector * Z :=
  match rev (live iv) with
  | [] => (iv, 0)
  | e :: r => (mkIV (cap iv) (ibeg iv) (rev r) (nbases iv), iv_len e)
  end.
Definition o_clear (iv : iovector) : iovector := mkIV (cap iv) (ibeg iv) [] (nbases iv).

(* iovector.h:434-443 shrink_to: the view op edits iovs[] in place; the count is taken over only
   if ret == size *)
Definition o_shrink_to (iv : iovector) (size : Z) : iovector * Z :=
  let '(v', ret) := v_shrink_to (live iv) size in
  if ret =? size then (upd_back iv v', ret)
  else (upd_back iv (v' ++ skipn (length v') (live iv)), ret).
(* iovector.h:446-455 truncate *)
Definition o_truncate (chunk : Z) (st : store) (iv : iovector) (size : Z) : option (store * iovector * Z) :=
  if size =? v_sum (live iv) then Some (st, iv, size) else
  let '(iv1, ret) := o_shrink_to iv size in
  if ret =? size then Some (st, iv1, size) else
  match o_push_back_alloc chunk st iv1 (size - ret) with
  | None => None
  | Some (st2, iv2, r2) => Some (st2, iv2, ret + r2)
  end.

(* iovector.h:508-516 / 602-610: iov->resize(iovcnt()) (unchecked: the assert is off), vi = iov->view(),
   va.extract_front/back(bytes, &vi), re-derive the window, if (ret >= 0) iov->update(vi).
   dst = new_iovector(cap2, rf2): its out slots are iovs[rf2 .. rf2+iovcnt()); the front variant fills them upwards
   from rf2, the back variant downwards from rf2+iovcnt()-1; writing a slot >= cap2 is out of bounds (None).
   Result: (source view afterwards, elements of dst, return value). *)
Definition xfo_body (v : view) (n cap2 rf2 : Z) : option (view * view * Z) :=
  let nn := zlen v in
  match do_extract_front (cb_view_front nn) v n [] with
  | XOob => None
  | XNeg v' a => if cap2 <? rf2 + zlen a then None else Some (v', repeat null_iov (Z.to_nat nn), -1)
  | XDone v' rem a => if cap2 <? rf2 + zlen a then None else Some (v', a, n - rem)
  end.
Definition xbo_body (v : view) (n cap2 rf2 : Z) : option (view * view * Z) :=
  let nn := zlen v in
  match do_extract_back (cb_view_back nn) v n [] with
  | XOob => None
  | XNeg v' a => if (cap2 <? rf2 + nn) && (0 <? zlen a) then None else Some (v', repeat null_iov (Z.to_nat nn), -1)
  | XDone v' rem a => if (cap2 <? rf2 + nn) && (0 <? zlen a) then None else Some (v', a, n - rem)
  end.
(* the unfixed wrappers (no capacity guard), kept for no_oob_extract_into_refuted *)
Definition old_extract_front_into (v : view) (n cap2 rf2 : Z) : option (view * view * Z) :=
  if n =? 0 then Some (v, [], 0) else xfo_body v n cap2 rf2.
Definition old_extract_back_into (v : view) (n cap2 rf2 : Z) : option (view * view * Z) :=
  if n =? 0 then Some (v, [], 0) else xbo_body v n cap2 rf2.

(* ------------------------------------------------------------------ the test machine *)
(* One vector under test (a plain iovector_view over an exact-size iovec array, or an owning
   iovector created by new_iovector(cap, reserve_front) with the harness allocator), the
   out-view written by the last extract-to-view / slice / pipe_from, and the store. *)
Record machine := mkM { m_st : store; m_own : bool; m_iv : iovector; m_aux : view; m_chunk : Z }.

Inductive op :=
| OSum
| OShrink (n : Z)                      (* shrink_to *)
| OShrinkLT (n : Z)                    (* iovector_view::shrink_less_than (view only) *)
| OTrunc (n : Z)                       (* iovector::truncate (owning only) *)
| OXF (n : Z)                          (* extract_front(n) *)
| OXFB (n : Z)                         (* extract_front(n, buf)   buf = fresh n-byte buffer *)
| OXFV (n N : Z)                       (* extract_front(n, &out)  out has N slots *)
| OXFC (n : Z)                         (* extract_front_continuous(n) *)
| OXB (n : Z) | OXBB (n : Z) | OXBV (n N : Z) | OXBC (n : Z)
| OSlice (count offset N : Z)
| OMTo (n : Z)                         (* memcpy_to(buf, n)       buf = fresh n-byte buffer *)
| OMFrom (n : Z)                       (* memcpy_from(buf, n) *)
| OMToV (shape : list Z) (n : Z)       (* memcpy_to(&view(shape), n) *)
| OMFromV (shape : list Z) (n : Z)
| OPTo (n : Z)                         (* pipe_to(buf, n) *)
| OPToV (shape : list Z) (n : Z)       (* pipe_to(&view(shape), n) *)
| OPFromV (shape : list Z) (n : Z)     (* pipe_from(&view(shape), n): the argument view is consumed *)
| OPushB (size : Z) | OPushF (size : Z)         (* push_back/front(buf, size), fresh buffer (owning only) *)
| OPushBA (bytes : Z) | OPushFA (bytes : Z)     (* push_back/front(bytes): allocating (owning only) *)
| OPopF | OPopB | OClear                        (* owning only *)
| OXFO (n cap2 rf2 : Z)                (* extract_front(n, iovector* dst): dst = fresh new_iovector(cap2, rf2) (owning only) *)
| OXBO (n cap2 rf2 : Z).              (* extract_back(n, iovector* dst) *)

(* what an operation returns: value, pointer (continuous extraction), memory regions whose
   content is part of the observable result (destination buffers / the returned pointer) *)
Record obs := mkObs { o_ret : Z; o_ptr : option (Z * Z); o_dst : view }.
Definition NA : Z := -2.                (* operation does not exist for this kind of vector *)

Definition set_main (m : machine) (st : store) (iv : iovector) : machine :=
  mkM st (m_own m) iv (m_aux m) (m_chunk m).
Definition set_all (m : machine) (st : store) (iv : iovector) (aux : view) : machine :=
  mkM st (m_own m) iv aux (m_chunk m).
Definition wfront (m : machine) (v' : view) : iovector :=
  if m_own m then upd_front (m_iv m) v' else mkIV (cap (m_iv m)) (ibeg (m_iv m)) v' (nbases (m_iv m)).
Definition wback (m : machine) (v' : view) : iovector :=
  if m_own m then upd_back (m_iv m) v' else mkIV (cap (m_iv m)) (ibeg (m_iv m)) v' (nbases (m_iv m)).
Definition nulls (N : Z) : view := repeat null_iov (Z.to_nat N).
Definition ret_only (m : machine) (r : Z) : option (machine * obs) := Some (m, mkObs r None []).

(* the out-view for the owning extract_*(bytes, iovector_view ptr) / slice: iovector.h:486-492.
   Returns the new state and Some N' (slots to use) or None (allocation failed) *)
Definition own_out_slots (m : machine) (st : store) (iv : iovector) (N : Z)
  : store * iovector * option Z :=
  if N =? 0 then
    match do_malloc (m_chunk m) st iv (zlen (live iv) * IOVEC_SIZE) with
    | (st', iv', Some _) => (st', iv', Some (zlen (live iv)))
    | (st', iv', None) => (st', iv', None)
    end
  else (st, iv, Some N).

Definition step (m : machine) (o : op) : option (machine * obs) :=
  let st := m_st m in
  let iv := m_iv m in
  let v := live iv in
  match o with
  | OSum => ret_only m (v_sum v)
  | OShrink n =>
      if m_own m then let '(iv', r) := o_shrink_to iv n in Some (set_main m st iv', mkObs r None [])
      else let '(v', r) := v_shrink_to v n in Some (set_main m st (wback m v'), mkObs r None [])
  | OShrinkLT n =>
      if m_own m then ret_only m NA
      else let '(v', r) := v_shrink_less_than v n in Some (set_main m st (wback m v'), mkObs r None [])
  | OTrunc n =>
      if m_own m then
        match o_truncate (m_chunk m) st iv n with
        | None => None
        | Some (st', iv', r) => Some (set_main m st' iv', mkObs r None [])
        end
      else ret_only m NA
  | OXF n =>
      match do_extract_front cb_discard v n tt with
      | XDone v' rem _ => Some (set_main m st (wfront m v'), mkObs (n - rem) None [])
      | _ => None
      end
  | OXFB n =>
      let '(st1, d) := new_buf st n in
      match do_extract_front (cb_copy_front d) v n (st1, 0) with
      | XDone v' rem (st2, _) => Some (set_main m st2 (wfront m v'), mkObs (n - rem) None [mkiov d 0 n])
      | _ => None
      end
  | OXFV n N =>
      if m_own m && (n =? 0) then Some (set_all m st iv (nulls N), mkObs 0 None [])     (* if (!bytes) return 0 *)
      else
        let '(st1, iv1, slots) := if m_own m then own_out_slots m st iv N else (st, iv, Some N) in
        match slots with
        | None => Some (set_all m st1 iv1 [], mkObs (-1) None [])
        | Some N' =>
            match do_extract_front (cb_view_front N') v n [] with
            | XOob => None
            | XNeg v' a => Some (set_all m st1 (wfront (set_main m st1 iv1) v') a, mkObs (-1) None [])
            | XDone v' rem a => Some (set_all m st1 (wfront (set_main m st1 iv1) v') a, mkObs (n - rem) None [])
            end
        end
  | OXFC n =>
      match v_xfc v n with
      | (v', Some (pid, poff)) => Some (set_main m st (wfront m v'), mkObs 1 (Some (pid, poff)) [mkiov pid poff n])
      | (_, None) =>
          if m_own m then
            if v_sum v <? n then ret_only m 0
            else match do_malloc (m_chunk m) st iv n with
                 | (st1, iv1, None) => Some (set_main m st1 iv1, mkObs 0 None [])
                 | (st1, iv1, Some (d, _)) =>
                     match do_extract_front (cb_copy_front d) v n (st1, 0) with
                     | XDone v' _ (st2, _) =>
                         Some (set_main m st2 (upd_front iv1 v'), mkObs 1 (Some (d, 0)) [mkiov d 0 n])
                     | _ => None
                     end
                 end
          else ret_only m 0
      end
  | OXB n =>
      match do_extract_back cb_discard v n tt with
      | XDone v' rem _ => Some (set_main m st (wback m v'), mkObs (n - rem) None [])
      | _ => None
      end
  | OXBB n =>
      let '(st1, d) := new_buf st n in
      match do_extract_back (cb_copy_back d) v n (st1, n) with
      | XDone v' rem (st2, _) => Some (set_main m st2 (wback m v'), mkObs (n - rem) None [mkiov d 0 n])
      | _ => None
      end
  | OXBV n N =>
      if m_own m && (n =? 0) then Some (set_all m st iv (nulls N), mkObs 0 None [])
      else
        let '(st1, iv1, slots) := if m_own m then own_out_slots m st iv N else (st, iv, Some N) in
        match slots with
        | None => Some (set_all m st1 iv1 [], mkObs (-1) None [])
        | Some N' =>
            match do_extract_back (cb_view_back N') v n [] with
            | XOob => None
            | XNeg v' a => Some (set_all m st1 (wback (set_main m st1 iv1) v') a, mkObs (-1) None [])
            | XDone v' rem a => Some (set_all m st1 (wback (set_main m st1 iv1) v') a, mkObs (n - rem) None [])
            end
        end
  | OXBC n =>
      match v_xbc v n with
      | (v', Some (pid, poff)) => Some (set_main m st (wback m v'), mkObs 1 (Some (pid, poff)) [mkiov pid poff n])
      | (_, None) =>
          if m_own m then
            if v_sum v <? n then ret_only m 0
            else match do_malloc (m_chunk m) st iv n with
                 | (st1, iv1, None) => Some (set_main m st1 iv1, mkObs 0 None [])
                 | (st1, iv1, Some (d, _)) =>
                     match do_extract_back (cb_copy_back d) v n (st1, n) with
                     | XDone v' _ (st2, _) =>
                         Some (set_main m st2 (upd_back iv1 v'), mkObs 1 (Some (d, 0)) [mkiov d 0 n])
                     | _ => None
                     end
                 end
          else ret_only m 0
      end
  | OSlice count offset N =>
      if m_own m && (count =? 0) then Some (set_all m st iv (nulls N), mkObs 0 None [])
      else
        let '(st1, iv1, slots) := if m_own m then own_out_slots m st iv N else (st, iv, Some N) in
        match slots with
        | None => Some (set_all m st1 iv1 [], mkObs 0 None [])         (* failed to allocate: return 0 *)
        | Some N' =>
            match v_slice v count offset N' with
            | (r, Some a) => Some (set_all m st1 iv1 a, mkObs r None [])
            | (r, None) => Some (set_all m st1 iv1 (nulls N'), mkObs r None [])
            end
        end
  | OMTo n =>
      let '(st1, d) := new_buf st n in
      match v_memcpy_iov st1 [mkiov d 0 n] v n with
      | None => None
      | Some (st2, r) => Some (set_main m st2 iv, mkObs r None [mkiov d 0 n])
      end
  | OMFrom n =>
      let '(st1, d) := new_buf st n in
      match v_memcpy_iov st1 v [mkiov d 0 n] n with
      | None => None
      | Some (st2, r) => Some (set_main m st2 iv, mkObs r None [mkiov d 0 n])
      end
  | OMToV shape n =>
      let '(st1, dv) := new_bufs st shape in
      match v_memcpy_iov st1 dv v n with
      | None => None
      | Some (st2, r) => Some (set_main m st2 iv, mkObs r None dv)
      end
  | OMFromV shape n =>
      let '(st1, sv) := new_bufs st shape in
      match v_memcpy_iov st1 v sv n with
      | None => None
      | Some (st2, r) => Some (set_main m st2 iv, mkObs r None sv)
      end
  | OPTo n =>
      let '(st1, d) := new_buf st n in
      match v_pipe_iov st1 [mkiov d 0 n] v n with
      | None => None
      | Some (st2, v', r) => Some (set_main m st2 (wfront m v'), mkObs r None [mkiov d 0 n])
      end
  | OPToV shape n =>
      let '(st1, dv) := new_bufs st shape in
      match v_pipe_iov st1 dv v n with
      | None => None
      | Some (st2, v', r) => Some (set_main m st2 (wfront m v'), mkObs r None dv)
      end
  | OPFromV shape n =>
      let '(st1, sv) := new_bufs st shape in
      match v_pipe_iov st1 v sv n with
      | None => None
      | Some (st2, sv', r) => Some (set_all m st2 iv sv', mkObs r None sv)
      end
  | OPushB size =>
      if m_own m then
        let '(st1, d) := new_buf st size in
        let '(iv', r) := o_push_back iv (mkiov d 0 size) in Some (set_main m st1 iv', mkObs r None [])
      else ret_only m NA
  | OPushF size =>
      if m_own m then
        let '(st1, d) := new_buf st size in
        let '(iv', r) := o_push_front iv (mkiov d 0 size) in Some (set_main m st1 iv', mkObs r None [])
      else ret_only m NA
  | OPushBA bytes =>
      if m_own m then
        match o_push_back_alloc (m_chunk m) st iv bytes with
        | None => None
        | Some (st', iv', r) => Some (set_main m st' iv', mkObs r None [])
        end
      else ret_only m NA
  | OPushFA bytes =>
      if m_own m then
        match o_push_front_alloc (m_chunk m) st iv bytes with
        | None => None
        | Some (st', iv', r) => Some (set_main m st' iv', mkObs r None [])
        end
      else ret_only m NA
  | OPopF => if m_own m then let '(iv', r) := o_pop_front iv in Some (set_main m st iv', mkObs r None []) else ret_only m NA
  | OPopB => if m_own m then let '(iv', r) := o_pop_back iv in Some (set_main m st iv', mkObs r None []) else ret_only m NA
  | OClear => if m_own m then Some (set_main m st (o_clear iv), mkObs 0 None []) else ret_only m NA
  (* iovector.h:503-519 (FIXED: repo_patches/C14-fix-extract-into-iovector-capacity.diff):
     if (!bytes) return 0; if (iovcnt() > iov->capacity - iov->iov_begin) return -1; then [xfo_body] *)
  | OXFO n cap2 rf2 =>
      if m_own m then
        if n =? 0 then Some (set_all m st iv [], mkObs 0 None [])
        else if cap2 - rf2 <? zlen v then Some (set_all m st iv [], mkObs (-1) None [])
        else match xfo_body v n cap2 rf2 with
             | None => None
             | Some (v', a, r) => Some (set_all m st (upd_front iv v') a, mkObs r None [])
             end
      else ret_only m NA
  (* iovector.h:597-613: the same with extract_back *)
  | OXBO n cap2 rf2 =>
      if m_own m then
        if n =? 0 then Some (set_all m st iv [], mkObs 0 None [])
        else if cap2 - rf2 <? zlen v then Some (set_all m st iv [], mkObs (-1) None [])
        else match xbo_body v n cap2 rf2 with
             | None => None
             | Some (v', a, r) => Some (set_all m st (upd_back iv v') a, mkObs r None [])
             end
      else ret_only m NA
  end.

(* run a whole operation list; observations in order *)
Fixpoint run (m : machine) (ops : list op) : option (machine * list obs) :=
  match ops with
  | [] => Some (m, [])
  | o :: r =>
      match step m o with
      | None => None
      | Some (m1, ob) =>
          match run m1 r with
          | None => None
          | Some (m2, obs) => Some (m2, ob :: obs)
          end
      end
  end.

(* initial machine: one fresh buffer per element (content = pattern), pushed in order *)
Fixpoint push_all (iv : iovector) (v : view) : iovector :=
  match v with [] => iv | e :: r => push_all (fst (o_push_back iv e)) r end.
Definition init_machine (own : bool) (capacity rf chunk : Z) (shape : list Z) : machine :=
  let '(st, v) := new_bufs [] shape in
  if own then mkM st true (push_all (mkIV capacity rf [] 0) v) [] chunk
  else mkM st false (mkIV 0 0 v 0) [] chunk.

(* the unfixed memcpy_to(buf, n) / pipe_to(&view, n) on a view, for the F2 witness *)
Definition old_memcpy_to (st : store) (v : view) (n : Z) : option (store * Z) :=
  let '(st1, d) := new_buf st n in v_memcpy_iov_old st1 [mkiov d 0 n] v n.
Definition old_pipe_to_view (st : store) (v : view) (shape : list Z) (n : Z) : option (store * view * Z) :=
  let '(st1, dv) := new_bufs st shape in v_pipe_iov_old st1 dv v n.
