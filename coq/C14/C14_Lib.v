(* C14 — memory lemmas: sub / load / store_bytes / new_buf, well-formed elements, the total
   flat-bytes functions bytesT / flatT and their take/drop algebra. *)
From Coq Require Import ZArith List Bool Lia.
From PV Require Import C14.C14_Model.
Import ListNotations.
Local Open Scope Z_scope.

(* ---------------------------------------------------------------- lists *)
Lemma skipn_skipn' {A} (x y : nat) (l : list A) : skipn x (skipn y l) = skipn (y + x) l.
Proof.
  revert l; induction y as [|y IH]; intros l; simpl; [reflexivity|].
  destruct l as [|a l]; simpl; [destruct x; reflexivity | apply IH].
Qed.

Lemma zlen_nonneg {A} (l : list A) : 0 <= zlen l.
Proof. unfold zlen; lia. Qed.
Lemma zlen_app {A} (a b : list A) : zlen (a ++ b) = zlen a + zlen b.
Proof. unfold zlen; rewrite app_length; lia. Qed.
Lemma zlen_nil {A} : zlen (@nil A) = 0.
Proof. reflexivity. Qed.
Lemma zlen_cons {A} (x : A) l : zlen (x :: l) = 1 + zlen l.
Proof. unfold zlen; simpl length; lia. Qed.
Lemma zlen_firstn {A} (n : Z) (l : list A) : 0 <= n <= zlen l -> zlen (firstn (Z.to_nat n) l) = n.
Proof. unfold zlen; intros; rewrite firstn_length; lia. Qed.
Lemma zlen_skipn {A} (n : Z) (l : list A) : 0 <= n <= zlen l -> zlen (skipn (Z.to_nat n) l) = zlen l - n.
Proof. unfold zlen; intros; rewrite skipn_length; lia. Qed.
Lemma zlen_rev {A} (l : list A) : zlen (rev l) = zlen l.
Proof. unfold zlen; rewrite rev_length; reflexivity. Qed.

Lemma firstn_app_le {A} (n : nat) (a b : list A) : (n <= length a)%nat -> firstn n (a ++ b) = firstn n a.
Proof. intros H; rewrite firstn_app. replace (n - length a)%nat with O by lia. rewrite firstn_O, app_nil_r; reflexivity. Qed.
Lemma firstn_app_ge {A} (n : nat) (a b : list A) : (length a <= n)%nat -> firstn n (a ++ b) = a ++ firstn (n - length a) b.
Proof. intros H; rewrite firstn_app. rewrite firstn_all2 by lia; reflexivity. Qed.
Lemma skipn_app_le {A} (n : nat) (a b : list A) : (n <= length a)%nat -> skipn n (a ++ b) = skipn n a ++ b.
Proof. intros H; rewrite skipn_app. replace (n - length a)%nat with O by lia. reflexivity. Qed.
Lemma skipn_app_ge {A} (n : nat) (a b : list A) : (length a <= n)%nat -> skipn n (a ++ b) = skipn (n - length a) b.
Proof. intros H; rewrite skipn_app. rewrite skipn_all2 by lia; reflexivity. Qed.

(* ---------------------------------------------------------------- sub *)
Lemma sub_length b off n : 0 <= off -> 0 <= n -> off + n <= zlen b -> zlen (sub b off n) = n.
Proof. unfold sub, zlen; intros; rewrite firstn_length, skipn_length; lia. Qed.
Lemma sub_take b off n k : 0 <= k <= n -> sub b off k = firstn (Z.to_nat k) (sub b off n).
Proof. intros; unfold sub; rewrite firstn_firstn; f_equal; lia. Qed.
Lemma sub_drop b off n k : 0 <= off -> 0 <= k <= n -> sub b (off + k) (n - k) = skipn (Z.to_nat k) (sub b off n).
Proof.
  intros; unfold sub; rewrite skipn_firstn_comm, skipn_skipn'.
  f_equal; [lia | f_equal; lia].
Qed.
Lemma sub_zero b off : sub b off 0 = [].
Proof. reflexivity. Qed.

Lemma in_range_true b off n : 0 <= off -> 0 <= n -> off + n <= zlen b -> in_range b off n = true.
Proof. intros; unfold in_range; rewrite !andb_true_iff, !Z.leb_le; lia. Qed.
Lemma in_range_spec b off n : in_range b off n = true -> 0 <= off /\ 0 <= n /\ off + n <= zlen b.
Proof. unfold in_range; rewrite !andb_true_iff, !Z.leb_le; lia. Qed.

(* ---------------------------------------------------------------- splice / set_nth *)
Lemma splice_length b off data : 0 <= off -> off + zlen data <= zlen b -> zlen (splice b off data) = zlen b.
Proof.
  unfold splice, zlen; intros. rewrite !app_length, firstn_length, skipn_length. lia.
Qed.
(* the written range reads back the data *)
Lemma sub_splice_same b off data : 0 <= off -> off + zlen data <= zlen b -> sub (splice b off data) off (zlen data) = data.
Proof.
  unfold sub, splice, zlen; intros.
  rewrite skipn_app_ge by (rewrite firstn_length; lia).
  rewrite firstn_length. replace (Z.to_nat off - Nat.min (Z.to_nat off) (length b))%nat with O by lia.
  simpl skipn. rewrite firstn_app_le by lia. rewrite firstn_all2 by lia. reflexivity.
Qed.
(* a range entirely before or after the written one is unchanged *)
Lemma sub_splice_other b off data o n :
  0 <= off -> off + zlen data <= zlen b -> 0 <= o -> 0 <= n -> o + n <= zlen b ->
  o + n <= off \/ off + zlen data <= o ->
  sub (splice b off data) o n = sub b o n.
Proof.
  unfold sub, splice, zlen; intros Ho Hd Hoo Hn Hb [H|H].
  - rewrite skipn_app_le by (rewrite firstn_length; lia).
    rewrite firstn_app_le by (rewrite skipn_length, firstn_length; lia).
    rewrite skipn_firstn_comm, firstn_firstn. f_equal. lia.
  - rewrite skipn_app_ge by (rewrite firstn_length; lia).
    rewrite firstn_length.
    rewrite skipn_app_ge by lia.
    rewrite skipn_skipn'. do 2 f_equal. lia.
Qed.

Lemma splice_nil b off : splice b off [] = b.
Proof. unfold splice; simpl. rewrite Nat.add_0_r. apply firstn_skipn. Qed.

Lemma set_nth_length {A} (l : list A) k x : length (set_nth l k x) = length l.
Proof. revert k; induction l as [|a l IH]; intros [|k]; simpl; auto. Qed.
Lemma nth_error_set_nth_same {A} (l : list A) k x : (k < length l)%nat -> nth_error (set_nth l k x) k = Some x.
Proof. revert k; induction l as [|a l IH]; intros [|k] H; simpl in *; try lia; auto. apply IH; lia. Qed.
Lemma nth_error_set_nth_other {A} (l : list A) k j x : j <> k -> nth_error (set_nth l k x) j = nth_error l j.
Proof. revert k j; induction l as [|a l IH]; intros [|k] [|j] H; simpl; auto; try congruence. Qed.

(* ---------------------------------------------------------------- get_buf *)
Lemma get_buf_Some st id b : get_buf st id = Some b -> 0 <= id < zlen st.
Proof.
  unfold get_buf, zlen. destruct (id <? 0) eqn:E; [discriminate|]. intros H.
  apply Z.ltb_ge in E. assert (nth_error st (Z.to_nat id) <> None) by congruence.
  apply nth_error_Some in H0. lia.
Qed.
Lemma get_buf_app_l st x id b : get_buf st id = Some b -> get_buf (st ++ x) id = Some b.
Proof.
  intros H. pose proof (get_buf_Some _ _ _ H) as R. unfold get_buf, zlen in *.
  destruct (id <? 0); [discriminate|]. rewrite nth_error_app1 by lia. exact H.
Qed.
Lemma get_buf_new st b : get_buf (st ++ [b]) (zlen st) = Some b.
Proof.
  unfold get_buf. pose proof (zlen_nonneg st). destruct (zlen st <? 0) eqn:E; [apply Z.ltb_lt in E; lia|].
  unfold zlen. rewrite Nat2Z.id, nth_error_app2 by lia. rewrite Nat.sub_diag. reflexivity.
Qed.

(* ---------------------------------------------------------------- well-formed elements, flat bytes *)
Definition wf_elem (st : store) (e : iovec) : Prop :=
  exists b, get_buf st (iv_id e) = Some b /\ 0 <= iv_off e /\ 0 <= iv_len e /\ iv_off e + iv_len e <= zlen b.
Definition wf_view (st : store) (v : view) : Prop := Forall (wf_elem st) v.
Definition bytesT (st : store) (e : iovec) : list byte :=
  match get_buf st (iv_id e) with Some b => sub b (iv_off e) (iv_len e) | None => [] end.
Definition flatT (st : store) (v : view) : list byte := concat (map (bytesT st) v).

Lemma flatT_nil st : flatT st [] = [].
Proof. reflexivity. Qed.
Lemma flatT_cons st e v : flatT st (e :: v) = bytesT st e ++ flatT st v.
Proof. reflexivity. Qed.
Lemma flatT_app st a b : flatT st (a ++ b) = flatT st a ++ flatT st b.
Proof. unfold flatT; rewrite map_app, concat_app; reflexivity. Qed.

Lemma bytes_of_wf st e : wf_elem st e -> bytes_of st e = Some (bytesT st e).
Proof.
  intros (b & Hb & H1 & H2 & H3). unfold bytes_of, load, bytesT. rewrite Hb.
  rewrite in_range_true by lia. reflexivity.
Qed.
Lemma flat_wf st v : wf_view st v -> flat st v = Some (flatT st v).
Proof.
  induction 1 as [|e v He Hv IH]; simpl; [reflexivity|].
  rewrite (bytes_of_wf _ _ He), IH. reflexivity.
Qed.
Lemma zlen_bytesT st e : wf_elem st e -> zlen (bytesT st e) = iv_len e.
Proof. intros (b & Hb & H1 & H2 & H3). unfold bytesT; rewrite Hb. apply sub_length; lia. Qed.
Lemma load_wf st e : wf_elem st e -> load st (iv_id e) (iv_off e) (iv_len e) = Some (bytesT st e).
Proof. apply bytes_of_wf. Qed.

Lemma wf_take st e k : wf_elem st e -> 0 <= k <= iv_len e -> wf_elem st (mkiov (iv_id e) (iv_off e) k).
Proof. intros (b & Hb & H1 & H2 & H3) Hk. exists b; simpl; repeat split; auto; lia. Qed.
Lemma wf_drop st e k : wf_elem st e -> 0 <= k <= iv_len e -> wf_elem st (mkiov (iv_id e) (iv_off e + k) (iv_len e - k)).
Proof. intros (b & Hb & H1 & H2 & H3) Hk. exists b; simpl; repeat split; auto; lia. Qed.
Lemma wf_mid st e k n : wf_elem st e -> 0 <= k -> 0 <= n -> k + n <= iv_len e -> wf_elem st (mkiov (iv_id e) (iv_off e + k) n).
Proof. intros (b & Hb & H1 & H2 & H3) Hk Hn Hkn. exists b; simpl; repeat split; auto; lia. Qed.
Lemma bytesT_take st e k : 0 <= k <= iv_len e ->
  bytesT st (mkiov (iv_id e) (iv_off e) k) = firstn (Z.to_nat k) (bytesT st e).
Proof. intros Hk. unfold bytesT; simpl. destruct (get_buf st (iv_id e)); [apply sub_take; lia | rewrite firstn_nil; reflexivity]. Qed.
Lemma bytesT_drop st e k : 0 <= iv_off e -> 0 <= k <= iv_len e ->
  bytesT st (mkiov (iv_id e) (iv_off e + k) (iv_len e - k)) = skipn (Z.to_nat k) (bytesT st e).
Proof. intros Ho Hk. unfold bytesT; simpl. destruct (get_buf st (iv_id e)); [apply sub_drop; lia | rewrite skipn_nil; reflexivity]. Qed.
Lemma bytesT_eta st e : bytesT st (mkiov (iv_id e) (iv_off e) (iv_len e)) = bytesT st e.
Proof. reflexivity. Qed.
Lemma bytesT_zero st e : iv_len e = 0 -> bytesT st e = [].
Proof. intros H; unfold bytesT; rewrite H. destruct (get_buf st (iv_id e)); reflexivity. Qed.

Lemma zlen_flatT st v : wf_view st v -> zlen (flatT st v) = v_sum v.
Proof.
  unfold v_sum. intros H.
  assert (G : forall s, sum_loop v s = s + zlen (flatT st v)).
  { induction H as [|e v He Hv IH]; intros s; simpl; [unfold zlen; simpl; lia|].
    rewrite IH, flatT_cons, zlen_app, (zlen_bytesT _ _ He). lia. }
  rewrite G; lia.
Qed.
Lemma sum_loop_acc v s : sum_loop v s = s + sum_loop v 0.
Proof. revert s; induction v as [|e v IH]; intros s; simpl; [lia|]. rewrite IH, (IH (iv_len e)). lia. Qed.
Lemma v_sum_cons e v : v_sum (e :: v) = iv_len e + v_sum v.
Proof. unfold v_sum; simpl. rewrite sum_loop_acc. lia. Qed.
Lemma v_sum_nonneg st v : wf_view st v -> 0 <= v_sum v.
Proof. intros H; rewrite <- (zlen_flatT st v H); apply zlen_nonneg. Qed.

(* ---------------------------------------------------------------- growing the store *)
Lemma wf_elem_app st x e : wf_elem st e -> wf_elem (st ++ x) e.
Proof. intros (b & Hb & H); exists b; split; [apply get_buf_app_l; exact Hb | exact H]. Qed.
Lemma wf_view_app st x v : wf_view st v -> wf_view (st ++ x) v.
Proof. unfold wf_view; intros H; eapply Forall_impl; [|exact H]. intros; apply wf_elem_app; assumption. Qed.
Lemma bytesT_app st x e : wf_elem st e -> bytesT (st ++ x) e = bytesT st e.
Proof. intros (b & Hb & H). unfold bytesT. rewrite (get_buf_app_l _ x _ _ Hb), Hb. reflexivity. Qed.
Lemma flatT_app_store st x v : wf_view st v -> flatT (st ++ x) v = flatT st v.
Proof.
  induction 1 as [|e v He Hv IH]; [reflexivity|].
  rewrite !flatT_cons, IH, (bytesT_app _ _ _ He). reflexivity.
Qed.
Lemma wf_elem_id_lt st e : wf_elem st e -> 0 <= iv_id e < zlen st.
Proof. intros (b & Hb & _); eapply get_buf_Some; eauto. Qed.

Lemma pattern_length id n : 0 <= n -> zlen (pattern id n) = n.
Proof. intros; unfold pattern, zlen; rewrite map_length, seq_length; lia. Qed.
Lemma wf_new_elem st n : 0 <= n -> wf_elem (st ++ [pattern (zlen st) n]) (mkiov (zlen st) 0 n).
Proof. intros H; eexists; simpl; split; [apply get_buf_new|]. rewrite pattern_length by lia. lia. Qed.

(* ---------------------------------------------------------------- writing the store *)
Lemma store_bytes_get st id off data st' :
  store_bytes st id off data = Some st' ->
  exists b, get_buf st id = Some b /\ 0 <= off /\ off + zlen data <= zlen b /\
            get_buf st' id = Some (splice b off data) /\
            (forall j, j <> id -> get_buf st' j = get_buf st j) /\ zlen st' = zlen st.
Proof.
  unfold store_bytes. destruct (get_buf st id) as [b|] eqn:Hb; [|discriminate].
  destruct (in_range b off (zlen data)) eqn:Hr; [|discriminate]. intros H; inversion H; subst st'; clear H.
  apply in_range_spec in Hr. pose proof (get_buf_Some _ _ _ Hb) as Hid.
  exists b. repeat split; try lia.
  - unfold get_buf in *. destruct (id <? 0); [discriminate|]. apply nth_error_set_nth_same. unfold zlen in Hid; lia.
  - intros j Hj. unfold get_buf. destruct (j <? 0) eqn:Ej; [reflexivity|]. apply nth_error_set_nth_other.
    apply Z.ltb_ge in Ej. lia.
  - unfold zlen; rewrite set_nth_length; reflexivity.
Qed.

Lemma store_bytes_wf_elem st id off data st' e :
  store_bytes st id off data = Some st' -> wf_elem st e -> wf_elem st' e.
Proof.
  intros H (b & Hb & H1 & H2 & H3). destruct (store_bytes_get _ _ _ _ _ H) as (b0 & Hb0 & Ho & Hd & Hn & Hoth & _).
  destruct (Z.eq_dec (iv_id e) id) as [E|E].
  - exists (splice b0 off data). rewrite E in *. rewrite Hb0 in Hb; inversion Hb; subst b0.
    split; [exact Hn|]. rewrite splice_length by lia. lia.
  - exists b. rewrite Hoth by exact E. auto.
Qed.
Lemma store_bytes_wf_view st id off data st' v :
  store_bytes st id off data = Some st' -> wf_view st v -> wf_view st' v.
Proof. intros H Hv; eapply Forall_impl; [|exact Hv]. intros; eapply store_bytes_wf_elem; eauto. Qed.

(* two elements do not share a byte (zero-length elements share nothing) *)
Definition disj (a b : iovec) : Prop :=
  iv_len a = 0 \/ iv_len b = 0 \/ iv_id a <> iv_id b \/ iv_off a + iv_len a <= iv_off b \/ iv_off b + iv_len b <= iv_off a.

(* frame: a write into region w leaves every element disjoint from w unchanged *)
Lemma store_bytes_frame st w data st' e :
  store_bytes st (iv_id w) (iv_off w) data = Some st' -> zlen data = iv_len w ->
  wf_elem st e -> disj e w -> bytesT st' e = bytesT st e.
Proof.
  intros H Hl (b & Hb & H1 & H2 & H3) D.
  destruct (store_bytes_get _ _ _ _ _ H) as (b0 & Hb0 & Ho & Hd & Hn & Hoth & _).
  unfold bytesT. destruct (Z.eq_dec (iv_id e) (iv_id w)) as [E|E].
  - rewrite E in *. rewrite Hb0 in Hb; inversion Hb; subst b0. rewrite Hn, Hb0.
    destruct D as [D|[D|[D|D]]]; try congruence.
    + rewrite D; reflexivity.
    + assert (data = []) by (destruct data; [reflexivity| unfold zlen in Hl; simpl in Hl; lia]). subst data.
      rewrite splice_nil; reflexivity.
    + apply sub_splice_other; lia.
  - rewrite Hoth by exact E. reflexivity.
Qed.
