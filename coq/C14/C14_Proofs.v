(* C14 — refinement lemmas: each view-level operation equals its effect on the flat byte string. *)
From Coq Require Import ZArith List Bool Lia.
From PV Require Import C14.C14_Model C14.C14_Lib.
Import ListNotations.
Local Open Scope Z_scope.

Lemma firstn_0 {A} (l : list A) : firstn (Z.to_nat 0) l = [].
Proof. reflexivity. Qed.
Lemma skipn_0 {A} (l : list A) : skipn (Z.to_nat 0) l = l.
Proof. reflexivity. Qed.
Lemma firstn_whole {A} (n : Z) (l : list A) : zlen l <= n -> firstn (Z.to_nat n) l = l.
Proof. unfold zlen; intros; apply firstn_all2; lia. Qed.
Lemma skipn_whole {A} (n : Z) (l : list A) : zlen l <= n -> skipn (Z.to_nat n) l = [].
Proof. unfold zlen; intros; apply skipn_all2; lia. Qed.
Lemma firstn_app_Z {A} (n : Z) (a b : list A) : 0 <= n <= zlen a -> firstn (Z.to_nat n) (a ++ b) = firstn (Z.to_nat n) a.
Proof. unfold zlen; intros; apply firstn_app_le; lia. Qed.
Lemma firstn_app_Z2 {A} (n : Z) (a b : list A) : zlen a <= n -> firstn (Z.to_nat n) (a ++ b) = a ++ firstn (Z.to_nat (n - zlen a)) b.
Proof. unfold zlen; intros; rewrite firstn_app_ge by lia. do 2 f_equal; lia. Qed.
Lemma skipn_app_Z {A} (n : Z) (a b : list A) : 0 <= n <= zlen a -> skipn (Z.to_nat n) (a ++ b) = skipn (Z.to_nat n) a ++ b.
Proof. unfold zlen; intros; apply skipn_app_le; lia. Qed.
Lemma skipn_app_Z2 {A} (n : Z) (a b : list A) : zlen a <= n -> skipn (Z.to_nat n) (a ++ b) = skipn (Z.to_nat (n - zlen a)) b.
Proof. unfold zlen; intros; rewrite skipn_app_ge by lia. f_equal; lia. Qed.

Lemma wf_view_cons st e v : wf_view st (e :: v) <-> wf_elem st e /\ wf_view st v.
Proof. unfold wf_view; split; [intros H; inversion H; auto | intros [? ?]; constructor; auto]. Qed.
Lemma wf_len_nonneg st e : wf_elem st e -> 0 <= iv_len e.
Proof. intros (b & _ & _ & H & _); exact H. Qed.
Lemma wf_off_nonneg st e : wf_elem st e -> 0 <= iv_off e.
Proof. intros (b & _ & H & _); exact H. Qed.

Lemma flatT_single st e : flatT st [e] = bytesT st e.
Proof. unfold flatT; simpl; apply app_nil_r. Qed.

Lemma zlen_flatT_rev st v : wf_view st v -> zlen (flatT st (rev v)) = v_sum v.
Proof.
  induction 1 as [|e v He Hv IH]; [reflexivity|].
  simpl rev. rewrite flatT_app, flatT_single, zlen_app, IH, v_sum_cons, (zlen_bytesT _ _ He). lia.
Qed.

(* ================================================================ sum *)
Lemma v_sum_refines st v : wf_view st v -> v_sum v = zlen (flatT st v).
Proof. intros; symmetry; apply zlen_flatT; assumption. Qed.

(* ================================================================ shrink_to *)
Lemma shrink_loop_spec st v : wf_view st v -> forall size v' hit s', 0 < size ->
  shrink_loop v size = (v', hit, s') ->
  wf_view st v' /\
  (hit = true -> size <= v_sum v /\ flatT st v' = firstn (Z.to_nat size) (flatT st v)) /\
  (hit = false -> v' = v /\ s' = size - v_sum v /\ v_sum v < size).
Proof.
  induction 1 as [|e v He Hv IH]; intros size v' hit s' Hs E; simpl in E.
  - inversion E; subst. split; [constructor|]. split; [discriminate|]. intros _. unfold v_sum; simpl. repeat split; lia.
  - pose proof (wf_len_nonneg _ _ He) as Hl. pose proof (v_sum_nonneg st v Hv) as Hsum.
    rewrite v_sum_cons. destruct (size <=? iv_len e) eqn:C.
    + apply Z.leb_le in C. inversion E; subst. split; [constructor; [apply wf_take; auto; lia | constructor]|].
      split; [|discriminate]. intros _. split; [lia|].
      rewrite flatT_single, flatT_cons.
      rewrite firstn_app_Z by (rewrite (zlen_bytesT _ _ He); lia).
      apply bytesT_take; lia.
    + apply Z.leb_gt in C. destruct (shrink_loop v (size - iv_len e)) as [[v1 h1] s1] eqn:R.
      assert (P : 0 < size - iv_len e) by lia.
      destruct (IH _ _ _ _ P R) as (W & Hh & Hn). inversion E; subst.
      split; [constructor; auto|]. split.
      * intros T. destruct (Hh T) as (L & F). split; [lia|].
        rewrite !flatT_cons, F. rewrite firstn_app_Z2 by (rewrite (zlen_bytesT _ _ He); lia).
        rewrite (zlen_bytesT _ _ He). reflexivity.
      * intros T. destruct (Hn T) as (-> & -> & L). repeat split; lia.
Qed.

Lemma v_shrink_to_refines st v size v' r : wf_view st v -> 0 <= size ->
  v_shrink_to v size = (v', r) ->
  r = Z.min size (v_sum v) /\ flatT st v' = firstn (Z.to_nat r) (flatT st v) /\ wf_view st v' /\
  (r = size \/ v' = v).
Proof.
  intros W Hs E. unfold v_shrink_to in E. pose proof (v_sum_nonneg st v W) as Hsum.
  destruct (size =? 0) eqn:Z0.
  - apply Z.eqb_eq in Z0; inversion E; subst. repeat split; [lia | constructor | auto].
  - apply Z.eqb_neq in Z0. destruct (shrink_loop v size) as [[v1 h] s1] eqn:R.
    assert (P : 0 < size) by lia.
    destruct (shrink_loop_spec st v W _ _ _ _ P R) as (W1 & Hh & Hn).
    destruct h; inversion E; subst.
    + destruct (Hh eq_refl) as (L & F). repeat split; auto; lia.
    + destruct (Hn eq_refl) as (-> & -> & L). repeat split; auto; try lia.
      replace (size - (size - v_sum v)) with (v_sum v) by lia.
      rewrite firstn_whole; [reflexivity | rewrite (zlen_flatT st v W); lia].
Qed.

(* ================================================================ extract front / back: generic *)
Section XLoops.
  Context {A : Type} (cb : A -> Z -> Z -> Z -> cbres A) (st : store) (Qid : Z -> Prop) (B : Z).
  Definition Qv (v : view) : Prop := Forall (fun e => Qid (iv_id e)) v.

  (* ---------- front: Inv a ex — accumulator a holds the bytes ex extracted so far *)
  Section Front.
    Context (Inv NegI : A -> list byte -> Prop).
    Hypothesis cb_step : forall a ex id off n, Qid id -> wf_elem st (mkiov id off n) -> Inv a ex -> zlen ex + n <= B ->
      match cb a id off n with
      | CbOk a' => Inv a' (ex ++ bytesT st (mkiov id off n))
      | CbNeg a' => NegI a' ex
      | CbOob => False
      end.

    Lemma xf_loop_spec v : wf_view st v -> Qv v -> forall bytes a ex, 0 <= bytes -> zlen ex + bytes <= B -> Inv a ex ->
      match xf_loop cb v bytes a with
      | XOob => False
      | XDone v' rem a' =>
          0 <= rem /\ bytes - rem = Z.min bytes (v_sum v) /\
          Inv a' (ex ++ firstn (Z.to_nat (bytes - rem)) (flatT st v)) /\
          flatT st v' = skipn (Z.to_nat (bytes - rem)) (flatT st v) /\ wf_view st v' /\ Qv v' /\
          zlen v' <= zlen v
      | XNeg v' a' =>
          exists k, 0 <= k <= bytes /\ k <= v_sum v /\ NegI a' (ex ++ firstn (Z.to_nat k) (flatT st v)) /\
                    flatT st v' = skipn (Z.to_nat k) (flatT st v) /\ wf_view st v' /\ Qv v' /\ zlen v' <= zlen v
      end.
    Proof.
      induction 1 as [|e v He Hv IH]; intros Q bytes a ex Hb HB I; simpl.
      - unfold v_sum; simpl. rewrite Z.sub_diag, firstn_0, app_nil_r.
        repeat split; auto; try lia; constructor.
      - inversion Q as [|? ? Qe Qr]; subst.
        pose proof (wf_len_nonneg _ _ He) as Hl. pose proof (wf_off_nonneg _ _ He) as Ho.
        pose proof (v_sum_nonneg st v Hv) as Hsum. pose proof (zlen_bytesT _ _ He) as Lb.
        rewrite v_sum_cons, flatT_cons, zlen_cons.
        destruct (bytes <=? iv_len e) eqn:C.
        + apply Z.leb_le in C.
          pose proof (cb_step a ex (iv_id e) (iv_off e) bytes Qe (wf_take st e bytes He (conj Hb C)) I HB) as S.
          destruct (cb a (iv_id e) (iv_off e) bytes) as [a'|a'|]; [| |exact S].
          * rewrite bytesT_take in S by lia.
            assert (F1 : firstn (Z.to_nat (bytes - 0)) (bytesT st e ++ flatT st v) = firstn (Z.to_nat bytes) (bytesT st e)).
            { rewrite Z.sub_0_r. apply firstn_app_Z; lia. }
            destruct (iv_len e - bytes =? 0) eqn:Z0.
            -- apply Z.eqb_eq in Z0. rewrite F1. repeat split; auto; try lia.
               rewrite Z.sub_0_r, skipn_app_Z2 by lia. replace (bytes - zlen (bytesT st e)) with 0 by lia. reflexivity.
            -- apply Z.eqb_neq in Z0. rewrite F1. repeat split; auto; try lia.
               ++ rewrite Z.sub_0_r, flatT_cons, skipn_app_Z by lia. f_equal. apply bytesT_drop; lia.
               ++ constructor; auto. apply wf_drop; auto; lia.
               ++ constructor; auto.
               ++ rewrite zlen_cons; lia.
          * exists 0. rewrite firstn_0, app_nil_r, skipn_0, flatT_cons. repeat split; auto; try lia.
            ++ constructor; auto.
            ++ rewrite zlen_cons; lia.
        + apply Z.leb_gt in C.
          assert (HB2 : zlen ex + iv_len e <= B) by lia.
          pose proof (cb_step a ex (iv_id e) (iv_off e) (iv_len e) Qe He I HB2) as S.
          destruct (cb a (iv_id e) (iv_off e) (iv_len e)) as [a'|a'|]; [| |exact S].
          * rewrite bytesT_eta in S.
            assert (HB3 : zlen (ex ++ bytesT st e) + (bytes - iv_len e) <= B) by (rewrite zlen_app; lia).
            specialize (IH Qr (bytes - iv_len e) a' (ex ++ bytesT st e) ltac:(lia) HB3 S).
            destruct (xf_loop cb v (bytes - iv_len e) a') as [|v' a''|v' rem a'']; [exact IH| |].
            -- destruct IH as (k & Hk & Hks & I' & F & W & Q' & L).
               exists (iv_len e + k). repeat split; auto; try lia.
               ++ rewrite firstn_app_Z2 by lia. rewrite Lb, app_assoc. replace (iv_len e + k - iv_len e) with k by lia. exact I'.
               ++ rewrite skipn_app_Z2 by lia. rewrite Lb. replace (iv_len e + k - iv_len e) with k by lia. exact F.
            -- destruct IH as (Hr & Hm & I' & F & W & Q' & L).
               replace (bytes - rem) with (iv_len e + (bytes - iv_len e - rem)) by lia.
               repeat split; auto; try lia.
               ++ rewrite firstn_app_Z2 by lia. rewrite Lb, app_assoc.
                  replace (iv_len e + (bytes - iv_len e - rem) - iv_len e) with (bytes - iv_len e - rem) by lia. exact I'.
               ++ rewrite skipn_app_Z2 by lia. rewrite Lb.
                  replace (iv_len e + (bytes - iv_len e - rem) - iv_len e) with (bytes - iv_len e - rem) by lia. exact F.
          * exists 0. rewrite firstn_0, app_nil_r, skipn_0, flatT_cons. repeat split; auto; try lia.
            ++ constructor; auto.
            ++ rewrite zlen_cons; lia.
    Qed.
  End Front.

  (* ---------- back: the loop runs on the reversed list; ex = bytes extracted so far (a suffix) *)
  Section Back.
    Context (Inv NegI : A -> list byte -> Prop).
    Hypothesis cb_step : forall a ex id off n, Qid id -> wf_elem st (mkiov id off n) -> Inv a ex -> zlen ex + n <= B ->
      match cb a id off n with
      | CbOk a' => Inv a' (bytesT st (mkiov id off n) ++ ex)
      | CbNeg a' => NegI a' ex
      | CbOob => False
      end.

    Lemma xb_loop_spec rv : wf_view st rv -> Qv rv -> forall bytes a ex, 0 <= bytes -> zlen ex + bytes <= B -> Inv a ex ->
      let F := flatT st (rev rv) in
      match xb_loop cb rv bytes a with
      | XOob => False
      | XDone rv' rem a' =>
          0 <= rem /\ bytes - rem = Z.min bytes (v_sum rv) /\
          Inv a' (skipn (Z.to_nat (zlen F - (bytes - rem))) F ++ ex) /\
          flatT st (rev rv') = firstn (Z.to_nat (zlen F - (bytes - rem))) F /\ wf_view st rv' /\ Qv rv' /\
          zlen rv' <= zlen rv
      | XNeg rv' a' =>
          exists k, 0 <= k <= bytes /\ k <= v_sum rv /\ NegI a' (skipn (Z.to_nat (zlen F - k)) F ++ ex) /\
                    flatT st (rev rv') = firstn (Z.to_nat (zlen F - k)) F /\ wf_view st rv' /\ Qv rv' /\ zlen rv' <= zlen rv
      end.
    Proof.
      induction 1 as [|e v He Hv IH]; intros Q bytes a ex Hb HB I; simpl.
      - unfold v_sum; simpl. rewrite Z.sub_diag. repeat split; auto; try lia; constructor.
      - inversion Q as [|? ? Qe Qr]; subst.
        pose proof (wf_len_nonneg _ _ He) as Hl. pose proof (wf_off_nonneg _ _ He) as Ho.
        pose proof (v_sum_nonneg st v Hv) as Hsum. pose proof (zlen_bytesT _ _ He) as Lb.
        pose proof (zlen_flatT_rev st v Hv) as LF.
        rewrite v_sum_cons, flatT_app, flatT_single, zlen_app, zlen_cons, Lb, LF.
        set (Fr := flatT st (rev v)) in *. set (Be := bytesT st e) in *.
        destruct (bytes <=? iv_len e) eqn:C.
        + apply Z.leb_le in C.
          assert (Wp : wf_elem st (mkiov (iv_id e) (iv_off e + iv_len e - bytes) bytes)).
          { replace (iv_off e + iv_len e - bytes) with (iv_off e + (iv_len e - bytes)) by lia.
            apply wf_mid; auto; lia. }
          pose proof (cb_step a ex (iv_id e) (iv_off e + iv_len e - bytes) bytes Qe Wp I HB) as S.
          destruct (cb a (iv_id e) (iv_off e + iv_len e - bytes) bytes) as [a'|a'|]; [| |exact S].
          * assert (P : bytesT st (mkiov (iv_id e) (iv_off e + iv_len e - bytes) bytes) = skipn (Z.to_nat (iv_len e - bytes)) Be).
            { replace (iv_off e + iv_len e - bytes) with (iv_off e + (iv_len e - bytes)) by lia.
              replace bytes with (iv_len e - (iv_len e - bytes)) at 2 by lia. apply bytesT_drop; lia. }
            rewrite P in S.
            assert (F1 : skipn (Z.to_nat (v_sum v + iv_len e - (bytes - 0))) (Fr ++ Be) = skipn (Z.to_nat (iv_len e - bytes)) Be).
            { rewrite skipn_app_Z2 by lia. f_equal. lia. }
            assert (F2 : firstn (Z.to_nat (v_sum v + iv_len e - (bytes - 0))) (Fr ++ Be) = Fr ++ firstn (Z.to_nat (iv_len e - bytes)) Be).
            { rewrite firstn_app_Z2 by lia. do 2 f_equal. lia. }
            destruct (iv_len e - bytes =? 0) eqn:Z0.
            -- apply Z.eqb_eq in Z0. rewrite F1, F2. repeat split; auto; try lia.
               rewrite Z0. simpl. rewrite app_nil_r. reflexivity.
            -- apply Z.eqb_neq in Z0. rewrite F1, F2. repeat split; auto; try lia.
               ++ simpl rev. rewrite flatT_app, flatT_single. f_equal. apply bytesT_take; lia.
               ++ constructor; auto. apply wf_take; auto; lia.
               ++ constructor; auto.
               ++ rewrite zlen_cons; lia.
          * exists 0. rewrite Z.sub_0_r.
            rewrite skipn_whole by (rewrite zlen_app; lia). rewrite firstn_whole by (rewrite zlen_app; lia).
            simpl rev. rewrite flatT_app, flatT_single. repeat split; auto; try lia.
            ++ constructor; auto.
            ++ rewrite zlen_cons; lia.
        + apply Z.leb_gt in C.
          assert (HB2 : zlen ex + iv_len e <= B) by lia.
          pose proof (cb_step a ex (iv_id e) (iv_off e) (iv_len e) Qe He I HB2) as S.
          destruct (cb a (iv_id e) (iv_off e) (iv_len e)) as [a'|a'|]; [| |exact S].
          * rewrite bytesT_eta in S. fold Be in S.
            assert (HB3 : zlen (Be ++ ex) + (bytes - iv_len e) <= B) by (rewrite zlen_app; lia).
            specialize (IH Qr (bytes - iv_len e) a' (Be ++ ex) ltac:(lia) HB3 S). cbv zeta in IH. fold Fr in IH. rewrite LF in IH.
            destruct (xb_loop cb v (bytes - iv_len e) a') as [|v' a''|v' rem a'']; [exact IH| |].
            -- destruct IH as (k & Hk & Hks & I' & F & W & Q' & L).
               exists (iv_len e + k). repeat split; auto; try lia.
               ++ replace (v_sum v + iv_len e - (iv_len e + k)) with (v_sum v - k) by lia.
                  rewrite skipn_app_Z by lia. rewrite <- app_assoc. exact I'.
               ++ replace (v_sum v + iv_len e - (iv_len e + k)) with (v_sum v - k) by lia.
                  rewrite firstn_app_Z by lia. exact F.
            -- destruct IH as (Hr & Hm & I' & F & W & Q' & L).
               replace (v_sum v + iv_len e - (bytes - rem)) with (v_sum v - (bytes - iv_len e - rem)) by lia.
               repeat split; auto; try lia.
               ++ rewrite skipn_app_Z by lia. rewrite <- app_assoc. exact I'.
               ++ rewrite firstn_app_Z by lia. exact F.
          * exists 0. rewrite Z.sub_0_r.
            rewrite skipn_whole by (rewrite zlen_app; lia). rewrite firstn_whole by (rewrite zlen_app; lia).
            simpl rev. rewrite flatT_app, flatT_single. repeat split; auto; try lia.
            ++ constructor; auto.
            ++ rewrite zlen_cons; lia.
    Qed.
  End Back.
End XLoops.


Definition anyid : Z -> Prop := fun _ => True.
Lemma Qv_any v : Qv anyid v.
Proof. apply Forall_forall; intros; exact I. Qed.

(* ================================================================ extract_front / extract_back (discarding) *)
Lemma xf_discard_refines st v bytes : wf_view st v -> 0 <= bytes ->
  exists v' rem, do_extract_front cb_discard v bytes tt = XDone v' rem tt /\
    bytes - rem = Z.min bytes (v_sum v) /\ flatT st v' = skipn (Z.to_nat (bytes - rem)) (flatT st v) /\
    wf_view st v' /\ zlen v' <= zlen v.
Proof.
  intros W Hb. pose proof (v_sum_nonneg st v W) as Hs. unfold do_extract_front. destruct (bytes =? 0) eqn:Z0.
  - apply Z.eqb_eq in Z0; subst. exists v, 0. repeat split; auto; lia.
  - assert (St : forall (a : unit) (ex : list byte) id off n, anyid id -> wf_elem st (mkiov id off n) -> True -> zlen ex + n <= bytes ->
                 match cb_discard a id off n with CbOk a' => True | CbNeg a' => False | CbOob => False end) by (intros; exact I).
    pose proof (xf_loop_spec cb_discard st anyid bytes (fun _ _ => True) (fun _ _ => False) St v W (Qv_any v) bytes tt [] Hb ltac:(rewrite zlen_nil; lia) I) as G.
    destruct (xf_loop cb_discard v bytes tt) as [|v' a'|v' rem a']; [contradiction| |].
    + destruct G as (k & _ & _ & [] & _).
    + destruct a'. exists v', rem. destruct G as (? & ? & _ & ? & ? & _ & ?). repeat split; auto.
Qed.

Lemma xb_discard_refines st v bytes : wf_view st v -> 0 <= bytes ->
  exists v' rem, do_extract_back cb_discard v bytes tt = XDone v' rem tt /\
    bytes - rem = Z.min bytes (v_sum v) /\
    flatT st v' = firstn (Z.to_nat (v_sum v - (bytes - rem))) (flatT st v) /\
    wf_view st v' /\ zlen v' <= zlen v.
Proof.
  intros W Hb. pose proof (v_sum_nonneg st v W) as Hs. pose proof (zlen_flatT st v W) as LF.
  unfold do_extract_back. destruct (bytes =? 0) eqn:Z0.
  - apply Z.eqb_eq in Z0; subst. exists v, 0. repeat split; auto; try lia.
    rewrite firstn_whole; [reflexivity|lia].
  - assert (St : forall (a : unit) (ex : list byte) id off n, anyid id -> wf_elem st (mkiov id off n) -> True -> zlen ex + n <= bytes ->
                 match cb_discard a id off n with CbOk a' => True | CbNeg a' => False | CbOob => False end) by (intros; exact I).
    assert (Wr : wf_view st (rev v)) by (apply Forall_rev; exact W).
    pose proof (xb_loop_spec cb_discard st anyid bytes (fun _ _ => True) (fun _ _ => False) St (rev v) Wr (Qv_any _) bytes tt [] Hb ltac:(rewrite zlen_nil; lia) I) as G.
    cbv zeta in G. rewrite rev_involutive in G.
    assert (SR : v_sum (rev v) = v_sum v) by (rewrite <- (zlen_flatT_rev st (rev v) Wr), rev_involutive; exact LF).
    rewrite SR, LF in G.
    destruct (xb_loop cb_discard (rev v) bytes tt) as [|v' a'|v' rem a']; [contradiction| |]; simpl.
    + destruct G as (k & _ & _ & [] & _).
    + destruct a'. exists (rev v'), rem. destruct G as (? & ? & _ & ? & ? & _ & ?). repeat split; auto.
      * apply Forall_rev; assumption.
      * rewrite zlen_rev. rewrite zlen_rev in *. assumption.
Qed.

(* ================================================================ extract_front / extract_back into an out view *)
Definition vInv (st : store) (a : view) (ex : list byte) : Prop := flatT st a = ex /\ wf_view st a.
Lemma cb_view_front_step st N B : forall (a : view) ex id off n, anyid id -> wf_elem st (mkiov id off n) -> vInv st a ex -> zlen ex + n <= B ->
  match cb_view_front N a id off n with
  | CbOk a' => vInv st a' (ex ++ bytesT st (mkiov id off n)) | CbNeg a' => vInv st a' ex | CbOob => False end.
Proof.
  intros a ex id off n _ W [F Wa] _. unfold cb_view_front. destruct (zlen a =? N); [split; auto|].
  split; [rewrite flatT_app, flatT_single, F; reflexivity | apply Forall_app; split; auto].
Qed.
Lemma cb_view_back_step st N B : forall (a : view) ex id off n, anyid id -> wf_elem st (mkiov id off n) -> vInv st a ex -> zlen ex + n <= B ->
  match cb_view_back N a id off n with
  | CbOk a' => vInv st a' (bytesT st (mkiov id off n) ++ ex) | CbNeg a' => vInv st a' ex | CbOob => False end.
Proof.
  intros a ex id off n _ W [F Wa] _. unfold cb_view_back. destruct (zlen a =? N); [split; auto|].
  split; [rewrite flatT_cons, F; reflexivity | constructor; auto].
Qed.

(* result: XDone -> out = first k bytes, rest = the remaining bytes; XNeg (-1) -> out ++ rest = all bytes *)
Lemma xf_view_refines st v bytes N : wf_view st v -> 0 <= bytes ->
  match do_extract_front (cb_view_front N) v bytes [] with
  | XOob => False
  | XDone v' rem a =>
      bytes - rem = Z.min bytes (v_sum v) /\ flatT st a = firstn (Z.to_nat (bytes - rem)) (flatT st v) /\
      flatT st v' = skipn (Z.to_nat (bytes - rem)) (flatT st v) /\ wf_view st v' /\ wf_view st a /\ zlen v' <= zlen v
  | XNeg v' a => flatT st a ++ flatT st v' = flatT st v /\ wf_view st v' /\ wf_view st a /\ zlen v' <= zlen v
  end.
Proof.
  intros W Hb. pose proof (v_sum_nonneg st v W) as Hs. unfold do_extract_front. destruct (bytes =? 0) eqn:Z0.
  - apply Z.eqb_eq in Z0; subst. repeat split; auto; try lia. constructor.
  - pose proof (xf_loop_spec (cb_view_front N) st anyid bytes (vInv st) (vInv st) (cb_view_front_step st N bytes) v W (Qv_any v) bytes [] [] Hb
                  ltac:(rewrite zlen_nil; lia) ltac:(split; [reflexivity|constructor])) as G.
    destruct (xf_loop (cb_view_front N) v bytes []) as [|v' a'|v' rem a']; [contradiction| |].
    + destruct G as (k & _ & _ & [F Wa] & F2 & W2 & _ & L). simpl in F. rewrite F, F2, firstn_skipn. auto.
    + destruct G as (? & ? & [F Wa] & ? & ? & _ & ?). simpl in F. repeat split; auto.
Qed.

Lemma xb_view_refines st v bytes N : wf_view st v -> 0 <= bytes ->
  match do_extract_back (cb_view_back N) v bytes [] with
  | XOob => False
  | XDone v' rem a =>
      bytes - rem = Z.min bytes (v_sum v) /\ flatT st a = skipn (Z.to_nat (v_sum v - (bytes - rem))) (flatT st v) /\
      flatT st v' = firstn (Z.to_nat (v_sum v - (bytes - rem))) (flatT st v) /\ wf_view st v' /\ wf_view st a /\ zlen v' <= zlen v
  | XNeg v' a => flatT st v' ++ flatT st a = flatT st v /\ wf_view st v' /\ wf_view st a /\ zlen v' <= zlen v
  end.
Proof.
  intros W Hb. pose proof (v_sum_nonneg st v W) as Hs. pose proof (zlen_flatT st v W) as LF.
  unfold do_extract_back. destruct (bytes =? 0) eqn:Z0.
  - apply Z.eqb_eq in Z0; subst. repeat split; auto; try lia.
    + rewrite skipn_whole; [reflexivity|lia].
    + rewrite firstn_whole; [reflexivity|lia].
    + constructor.
  - assert (Wr : wf_view st (rev v)) by (apply Forall_rev; exact W).
    pose proof (xb_loop_spec (cb_view_back N) st anyid bytes (vInv st) (vInv st) (cb_view_back_step st N bytes) (rev v) Wr (Qv_any _) bytes [] [] Hb
                  ltac:(rewrite zlen_nil; lia) ltac:(split; [reflexivity|constructor])) as G.
    cbv zeta in G. rewrite rev_involutive in G.
    assert (SR : v_sum (rev v) = v_sum v) by (rewrite <- (zlen_flatT_rev st (rev v) Wr), rev_involutive; exact LF).
    rewrite SR, LF in G.
    destruct (xb_loop (cb_view_back N) (rev v) bytes []) as [|v' a'|v' rem a']; [contradiction| |]; simpl.
    + destruct G as (k & _ & _ & [F Wa] & F2 & W2 & _ & L). rewrite app_nil_r in F. rewrite F, F2, firstn_skipn.
      repeat split; auto; [apply Forall_rev; auto | rewrite zlen_rev in *; auto].
    + destruct G as (? & ? & [F Wa] & ? & ? & _ & ?). rewrite app_nil_r in F. repeat split; auto.
      * apply Forall_rev; auto.
      * rewrite zlen_rev in *; auto.
Qed.

(* ================================================================ extract_front / extract_back copying into a buffer *)
Definition agree_except (d : Z) (st' st1 : store) : Prop :=
  zlen st' = zlen st1 /\ forall j, j <> d -> get_buf st' j = get_buf st1 j.
Lemma agree_refl d st : agree_except d st st.
Proof. split; auto. Qed.
Lemma agree_wf_elem d st' st1 e : agree_except d st' st1 -> iv_id e <> d -> wf_elem st1 e -> wf_elem st' e.
Proof. intros [_ Ag] Hd (b & Hb & H). exists b. rewrite Ag by exact Hd. auto. Qed.
Lemma agree_bytesT d st' st1 e : agree_except d st' st1 -> iv_id e <> d -> bytesT st' e = bytesT st1 e.
Proof. intros [_ Ag] Hd. unfold bytesT. rewrite Ag by exact Hd. reflexivity. Qed.
Lemma agree_view d st' st1 v : agree_except d st' st1 -> Qv (fun id => id <> d) v -> wf_view st1 v ->
  wf_view st' v /\ flatT st' v = flatT st1 v.
Proof.
  intros Ag Q W. induction W as [|e v He Hv IH]; [split; [constructor|reflexivity]|].
  inversion Q as [|? ? Qe Qr]; subst. destruct (IH Qr) as [W' F']. split.
  - constructor; [eapply agree_wf_elem; eauto | exact W'].
  - rewrite !flatT_cons, F', (agree_bytesT _ _ _ _ Ag Qe). reflexivity.
Qed.

Lemma splice_append (ex r data : list byte) : splice (ex ++ r) (zlen ex) data = ex ++ data ++ skipn (length data) r.
Proof.
  unfold splice, zlen. rewrite Nat2Z.id. rewrite firstn_app_le by lia. rewrite firstn_all.
  rewrite skipn_app_ge by lia. do 3 f_equal. lia.
Qed.
Lemma splice_prepend (l ex data : list byte) (p : Z) : 0 <= p -> p + zlen data = zlen l ->
  splice (l ++ ex) p data = firstn (Z.to_nat p) l ++ data ++ ex.
Proof.
  unfold splice, zlen. intros Hp Hl. rewrite firstn_app_le by lia.
  rewrite skipn_app_ge by lia. replace (Z.to_nat p + length data - length l)%nat with O by lia. reflexivity.
Qed.

Definition cfInv (st1 : store) (d : Z) (pat : list byte) (a : store * Z) (ex : list byte) : Prop :=
  snd a = zlen ex /\ agree_except d (fst a) st1 /\ get_buf (fst a) d = Some (ex ++ skipn (Z.to_nat (snd a)) pat).
Definition cbInv (st1 : store) (d : Z) (pat : list byte) (a : store * Z) (ex : list byte) : Prop :=
  snd a = zlen pat - zlen ex /\ agree_except d (fst a) st1 /\ get_buf (fst a) d = Some (firstn (Z.to_nat (snd a)) pat ++ ex).

Lemma load_agree d st' st1 id off n : agree_except d st' st1 -> id <> d -> wf_elem st1 (mkiov id off n) ->
  load st' id off n = Some (bytesT st1 (mkiov id off n)) /\ zlen (bytesT st1 (mkiov id off n)) = n.
Proof.
  intros [_ Ag] Hd W. pose proof (zlen_bytesT _ _ W) as L. destruct W as (b & Hb & H1 & H2 & H3). simpl in *.
  unfold load, bytesT. simpl. rewrite Ag by exact Hd. rewrite Hb, in_range_true by lia. split; [reflexivity|].
  unfold bytesT in L; simpl in L; rewrite Hb in L. exact L.
Qed.

Lemma cb_copy_front_step st1 d pat : forall (a : store * Z) ex id off n, id <> d -> wf_elem st1 (mkiov id off n) ->
  cfInv st1 d pat a ex -> zlen ex + n <= zlen pat ->
  match cb_copy_front d a id off n with
  | CbOk a' => cfInv st1 d pat a' (ex ++ bytesT st1 (mkiov id off n)) | CbNeg a' => False | CbOob => False end.
Proof.
  intros [st' pos] ex id off n Hd W (P & Ag & Gd) HB. simpl in P, Ag, Gd. subst pos.
  destruct (load_agree _ _ _ _ _ _ Ag Hd W) as [Ld Ln]. pose proof (wf_len_nonneg _ _ W) as Hn. simpl in Hn.
  unfold cb_copy_front, memcpy. rewrite Ld. set (data := bytesT st1 (mkiov id off n)) in *.
  pose proof (zlen_nonneg ex) as Hex.
  assert (Lc : zlen (ex ++ skipn (Z.to_nat (zlen ex)) pat) = zlen pat) by (rewrite zlen_app, zlen_skipn by lia; lia).
  destruct (store_bytes st' d (zlen ex) data) as [st''|] eqn:SB.
  - destruct (store_bytes_get _ _ _ _ _ SB) as (b0 & Hb0 & _ & _ & Hn0 & Hoth & Hz). rewrite Gd in Hb0; inversion Hb0; subst b0.
    destruct Ag as [Az Ag]. split; [|split]; simpl.
    + rewrite zlen_app; lia.
    + split; [lia|]. intros j Hj. rewrite Hoth by exact Hj. apply Ag; exact Hj.
    + rewrite Hn0, splice_append, <- app_assoc. f_equal. f_equal. f_equal. rewrite skipn_skipn'. f_equal. unfold zlen in *. lia.
  - unfold store_bytes in SB. rewrite Gd, in_range_true in SB by lia. discriminate.
Qed.

Lemma cb_copy_back_step st1 d pat : forall (a : store * Z) ex id off n, id <> d -> wf_elem st1 (mkiov id off n) ->
  cbInv st1 d pat a ex -> zlen ex + n <= zlen pat ->
  match cb_copy_back d a id off n with
  | CbOk a' => cbInv st1 d pat a' (bytesT st1 (mkiov id off n) ++ ex) | CbNeg a' => False | CbOob => False end.
Proof.
  intros [st' pos] ex id off n Hd W (P & Ag & Gd) HB. simpl in P, Ag, Gd. subst pos.
  destruct (load_agree _ _ _ _ _ _ Ag Hd W) as [Ld Ln]. pose proof (wf_len_nonneg _ _ W) as Hn. simpl in Hn.
  unfold cb_copy_back, memcpy. rewrite Ld. set (data := bytesT st1 (mkiov id off n)) in *.
  pose proof (zlen_nonneg ex) as Hex. set (pos := zlen pat - zlen ex) in *.
  assert (Lf : zlen (firstn (Z.to_nat pos) pat) = pos) by (apply zlen_firstn; lia).
  assert (Lc : zlen (firstn (Z.to_nat pos) pat ++ ex) = zlen pat) by (rewrite zlen_app; lia).
  destruct (store_bytes st' d (pos - n) data) as [st''|] eqn:SB.
  - destruct (store_bytes_get _ _ _ _ _ SB) as (b0 & Hb0 & _ & _ & Hn0 & Hoth & Hz). rewrite Gd in Hb0; inversion Hb0; subst b0.
    destruct Ag as [Az Ag]. split; [|split]; simpl.
    + rewrite zlen_app; lia.
    + split; [lia|]. intros j Hj. rewrite Hoth by exact Hj. apply Ag; exact Hj.
    + rewrite Hn0, splice_prepend by lia. rewrite firstn_firstn. do 3 f_equal. lia.
  - unfold store_bytes in SB. rewrite Gd, in_range_true in SB by lia. discriminate.
Qed.

(* extract_front(n, buf) with buf = a fresh n-byte buffer d appended to the store *)
Lemma xf_copy_refines st v n : wf_view st v -> 0 <= n ->
  let d := zlen st in let pat := pattern d n in let st1 := st ++ [pat] in
  exists v' rem st2 pos, do_extract_front (cb_copy_front d) v n (st1, 0) = XDone v' rem (st2, pos) /\
    n - rem = Z.min n (v_sum v) /\ flatT st2 v' = skipn (Z.to_nat (n - rem)) (flatT st v) /\ wf_view st2 v' /\
    get_buf st2 d = Some (firstn (Z.to_nat (n - rem)) (flatT st v) ++ skipn (Z.to_nat (n - rem)) pat) /\
    zlen v' <= zlen v /\ agree_except d st2 st1.
Proof.
  intros W Hn d pat st1.
  assert (W1 : wf_view st1 v) by (apply wf_view_app; exact W).
  assert (F1 : flatT st1 v = flatT st v) by (apply flatT_app_store; exact W).
  assert (Q : Qv (fun id => id <> d) v).
  { apply Forall_forall. intros e He. pose proof (wf_elem_id_lt st e (proj1 (Forall_forall _ _) W e He)). unfold d; lia. }
  assert (Lp : zlen pat = n) by (apply pattern_length; exact Hn).
  assert (Gd : get_buf st1 d = Some pat) by apply get_buf_new.
  pose proof (v_sum_nonneg st v W) as Hs. unfold do_extract_front. destruct (n =? 0) eqn:Z0.
  - apply Z.eqb_eq in Z0. exists v, 0, st1, 0. replace (n - 0) with 0 by lia. repeat split; auto; try lia; try apply agree_refl.
  - pose proof (xf_loop_spec (cb_copy_front d) st1 (fun id => id <> d) (zlen pat) (cfInv st1 d pat) (fun _ _ => False)
                  (cb_copy_front_step st1 d pat) v W1 Q n (st1, 0) [] Hn ltac:(rewrite zlen_nil; lia)) as G.
    assert (I0 : cfInv st1 d pat (st1, 0) []) by (split; [reflexivity| split; [apply agree_refl | exact Gd]]).
    specialize (G I0).
    destruct (xf_loop (cb_copy_front d) v n (st1, 0)) as [|v' a'|v' rem [st2 pos]]; [contradiction| |].
    + destruct G as (k & _ & _ & [] & _).
    + destruct G as (Hr & K & (P & Ag & Gd2) & Fv & W' & Q' & L). simpl in P, Ag, Gd2.
      destruct (agree_view _ _ _ _ Ag Q' W') as [W2 F2].
      exists v', rem, st2, pos. rewrite F1 in *. simpl app in Gd2.
      assert (Pk : pos = n - rem).
      { rewrite P. apply zlen_firstn. rewrite (zlen_flatT st v W). lia. }
      repeat split; auto; try (destruct Ag; auto; fail).
      * rewrite F2; exact Fv.
      * rewrite Gd2, Pk. reflexivity.
Qed.

(* extract_back(n, buf): the k extracted bytes land at buf[n-k .. n) *)
Lemma xb_copy_refines st v n : wf_view st v -> 0 <= n ->
  let d := zlen st in let pat := pattern d n in let st1 := st ++ [pat] in
  exists v' rem st2 pos, do_extract_back (cb_copy_back d) v n (st1, n) = XDone v' rem (st2, pos) /\
    n - rem = Z.min n (v_sum v) /\ flatT st2 v' = firstn (Z.to_nat (v_sum v - (n - rem))) (flatT st v) /\ wf_view st2 v' /\
    get_buf st2 d = Some (firstn (Z.to_nat rem) pat ++ skipn (Z.to_nat (v_sum v - (n - rem))) (flatT st v)) /\
    zlen v' <= zlen v /\ agree_except d st2 st1.
Proof.
  intros W Hn d pat st1.
  assert (W1 : wf_view st1 v) by (apply wf_view_app; exact W).
  assert (F1 : flatT st1 v = flatT st v) by (apply flatT_app_store; exact W).
  assert (Q : Qv (fun id => id <> d) v).
  { apply Forall_forall. intros e He. pose proof (wf_elem_id_lt st e (proj1 (Forall_forall _ _) W e He)). unfold d; lia. }
  assert (Lp : zlen pat = n) by (apply pattern_length; exact Hn).
  assert (Gd : get_buf st1 d = Some pat) by apply get_buf_new.
  pose proof (v_sum_nonneg st v W) as Hs. pose proof (zlen_flatT st v W) as LF.
  unfold do_extract_back. destruct (n =? 0) eqn:Z0.
  - apply Z.eqb_eq in Z0. exists v, 0, st1, n. replace (n - 0) with 0 by lia. rewrite Z.sub_0_r.
    rewrite firstn_whole, skipn_whole by lia.
    assert (pat = []) as Pn by (destruct pat; [reflexivity|unfold zlen in Lp; simpl in Lp; lia]).
    repeat split; auto; try lia; try apply agree_refl. rewrite Gd, Pn. reflexivity.
  - assert (Wr : wf_view st1 (rev v)) by (apply Forall_rev; exact W1).
    assert (Qr : Qv (fun id => id <> d) (rev v)) by (apply Forall_rev; exact Q).
    pose proof (xb_loop_spec (cb_copy_back d) st1 (fun id => id <> d) (zlen pat) (cbInv st1 d pat) (fun _ _ => False)
                  (cb_copy_back_step st1 d pat) (rev v) Wr Qr n (st1, n) [] Hn ltac:(rewrite zlen_nil; lia)) as G.
    assert (I0 : cbInv st1 d pat (st1, n) []).
    { split; [simpl; rewrite zlen_nil; lia| split; [apply agree_refl |]]. simpl. rewrite Gd, app_nil_r, firstn_whole by lia. reflexivity. }
    specialize (G I0). cbv zeta in G. rewrite rev_involutive, F1 in G.
    assert (SR : v_sum (rev v) = v_sum v).
    { rewrite <- (zlen_flatT_rev st1 (rev v) Wr), rev_involutive, F1; exact LF. }
    rewrite SR, LF in G.
    destruct (xb_loop (cb_copy_back d) (rev v) n (st1, n)) as [|v' a'|v' rem [st2 pos]]; [contradiction| |]; simpl.
    + destruct G as (k & _ & _ & [] & _).
    + destruct G as (Hr & K & (P & Ag & Gd2) & Fv & W' & Q' & L). simpl in P, Ag, Gd2.
      assert (Wv : wf_view st1 (rev v')) by (apply Forall_rev; exact W').
      assert (Qv' : Qv (fun id => id <> d) (rev v')) by (apply Forall_rev; exact Q').
      destruct (agree_view _ _ _ _ Ag Qv' Wv) as [W2 F2].
      exists (rev v'), rem, st2, pos. rewrite app_nil_r in *.
      assert (Pk : pos = rem).
      { rewrite P, Lp. rewrite zlen_skipn by lia. lia. }
      repeat split; auto; try (destruct Ag; auto; fail).
      * rewrite F2; exact Fv.
      * rewrite Gd2, Pk. reflexivity.
      * rewrite zlen_rev in *. exact L.
Qed.

(* ================================================================ extract_front_continuous / extract_back_continuous (view) *)
Lemma v_xfc_refines st v n v' p : wf_view st v -> 0 <= n -> v_xfc v n = (v', p) ->
  match p with
  | None => v' = v
  | Some (pid, poff) =>
      n <= v_sum v /\ wf_elem st (mkiov pid poff n) /\ bytesT st (mkiov pid poff n) = firstn (Z.to_nat n) (flatT st v) /\
      flatT st v' = skipn (Z.to_nat n) (flatT st v) /\ wf_view st v' /\ zlen v' <= zlen v /\
      exists pre, map iv_id v = pre ++ map iv_id v'
  end.
Proof.
  intros W Hn E. destruct v as [|f r]; simpl in E; [inversion E; reflexivity|].
  apply wf_view_cons in W. destruct W as [Wf Wr].
  pose proof (wf_len_nonneg _ _ Wf) as Hl. pose proof (wf_off_nonneg _ _ Wf) as Ho.
  pose proof (v_sum_nonneg st r Wr) as Hs. pose proof (zlen_bytesT _ _ Wf) as Lb.
  destruct (iv_len f <? n) eqn:C; [inversion E; reflexivity|]. apply Z.ltb_ge in C.
  inversion E; subst; clear E. rewrite v_sum_cons, flatT_cons.
  split; [lia|]. split; [apply wf_take; auto; lia|]. split; [rewrite firstn_app_Z by lia; apply bytesT_take; lia|].
  destruct (iv_len f - n =? 0) eqn:Z0.
  - apply Z.eqb_eq in Z0. rewrite skipn_app_Z2 by lia. replace (n - zlen (bytesT st f)) with 0 by lia.
    repeat split; auto; [rewrite zlen_cons; lia | exists [iv_id f]; reflexivity].
  - rewrite skipn_app_Z by lia. rewrite flatT_cons. split; [f_equal; apply bytesT_drop; lia|].
    split; [constructor; auto; apply wf_drop; auto; lia|]. split; [rewrite !zlen_cons; lia | exists []; reflexivity].
Qed.

Lemma v_xbc_refines st v n v' p : wf_view st v -> 0 <= n -> v_xbc v n = (v', p) ->
  match p with
  | None => v' = v
  | Some (pid, poff) =>
      n <= v_sum v /\ wf_elem st (mkiov pid poff n) /\
      bytesT st (mkiov pid poff n) = skipn (Z.to_nat (v_sum v - n)) (flatT st v) /\
      flatT st v' = firstn (Z.to_nat (v_sum v - n)) (flatT st v) /\ wf_view st v' /\ zlen v' <= zlen v /\
      exists post, map iv_id v = map iv_id v' ++ post
  end.
Proof.
  intros W Hn E. unfold v_xbc in E. destruct (rev v) as [|b r] eqn:Rv; [inversion E; reflexivity|].
  assert (LL : v = rev r ++ [b]) by (rewrite <- (rev_involutive v), Rv; reflexivity).
  destruct (iv_len b <? n) eqn:C; [inversion E; reflexivity|]. apply Z.ltb_ge in C.
  subst v. apply Forall_app in W. destruct W as [Wr Wb]. inversion Wb as [|? ? Wb1 _]; subst.
  pose proof (wf_len_nonneg _ _ Wb1) as Hl. pose proof (wf_off_nonneg _ _ Wb1) as Ho.
  pose proof (zlen_bytesT _ _ Wb1) as Lb. pose proof (zlen_flatT st (rev r) Wr) as LF. pose proof (v_sum_nonneg st _ Wr) as Hs.
  assert (SV : v_sum (rev r ++ [b]) = v_sum (rev r) + iv_len b).
  { rewrite <- (zlen_flatT st (rev r ++ [b])) by (apply Forall_app; split; auto).
    rewrite flatT_app, flatT_single, zlen_app. lia. }
  rewrite SV, flatT_app, flatT_single.
  replace (v_sum (rev r) + iv_len b - n) with (zlen (flatT st (rev r)) + (iv_len b - n)) by lia.
  inversion E; subst; clear E.
  split; [lia|]. split; [apply wf_mid; auto; lia|].
  split.
  { rewrite skipn_app_Z2 by lia. replace (zlen (flatT st (rev r)) + (iv_len b - n) - zlen (flatT st (rev r))) with (iv_len b - n) by lia.
    pose proof (bytesT_drop st b (iv_len b - n) Ho ltac:(lia)) as P. replace (iv_len b - (iv_len b - n)) with n in P by lia. exact P. }
  rewrite firstn_app_Z2 by lia. replace (zlen (flatT st (rev r)) + (iv_len b - n) - zlen (flatT st (rev r))) with (iv_len b - n) by lia.
  destruct (iv_len b - n =? 0) eqn:Z0.
  - apply Z.eqb_eq in Z0. rewrite Z0. simpl firstn. rewrite app_nil_r. repeat split; auto.
    + unfold zlen; rewrite app_length; simpl; lia.
    + exists [iv_id b]. rewrite map_app. reflexivity.
  - simpl rev. rewrite flatT_app, flatT_single. split; [f_equal; apply bytesT_take; lia|].
    split; [apply Forall_app; split; auto; constructor; [apply wf_take; auto; lia|constructor]|].
    split; [unfold zlen; rewrite !app_length; simpl; lia|]. exists []. rewrite app_nil_r, !map_app. reflexivity.
Qed.

(* ================================================================ which elements survive: buffer ids of the result *)
Lemma xf_loop_ids {A} (cb : A -> Z -> Z -> Z -> cbres A) v : forall bytes a,
  match xf_loop cb v bytes a with
  | XOob => True
  | XNeg v' _ => exists pre, map iv_id v = pre ++ map iv_id v'
  | XDone v' _ _ => exists pre, map iv_id v = pre ++ map iv_id v'
  end.
Proof.
  induction v as [|e v IH]; intros bytes a; simpl; [exists []; reflexivity|].
  destruct (bytes <=? iv_len e).
  - destruct (cb a (iv_id e) (iv_off e) bytes); [|exists []; reflexivity|exact I].
    destruct (iv_len e - bytes =? 0); [exists [iv_id e]; reflexivity | exists []; reflexivity].
  - destruct (cb a (iv_id e) (iv_off e) (iv_len e)) as [a'|a'|]; [|exists []; reflexivity|exact I].
    specialize (IH (bytes - iv_len e) a'). destruct (xf_loop cb v (bytes - iv_len e) a'); [exact I| |];
      destruct IH as [pre E]; exists (iv_id e :: pre); simpl; rewrite E; reflexivity.
Qed.
Lemma xb_loop_ids {A} (cb : A -> Z -> Z -> Z -> cbres A) v : forall bytes a,
  match xb_loop cb v bytes a with
  | XOob => True
  | XNeg v' _ => exists pre, map iv_id v = pre ++ map iv_id v'
  | XDone v' _ _ => exists pre, map iv_id v = pre ++ map iv_id v'
  end.
Proof.
  induction v as [|e v IH]; intros bytes a; simpl; [exists []; reflexivity|].
  destruct (bytes <=? iv_len e).
  - destruct (cb a (iv_id e) (iv_off e + iv_len e - bytes) bytes); [|exists []; reflexivity|exact I].
    destruct (iv_len e - bytes =? 0); [exists [iv_id e]; reflexivity | exists []; reflexivity].
  - destruct (cb a (iv_id e) (iv_off e) (iv_len e)) as [a'|a'|]; [|exists []; reflexivity|exact I].
    specialize (IH (bytes - iv_len e) a'). destruct (xb_loop cb v (bytes - iv_len e) a'); [exact I| |];
      destruct IH as [pre E]; exists (iv_id e :: pre); simpl; rewrite E; reflexivity.
Qed.
Lemma shrink_loop_ids v : forall size v' h s, shrink_loop v size = (v', h, s) -> exists post, map iv_id v = map iv_id v' ++ post.
Proof.
  induction v as [|e v IH]; intros size v' h s E; simpl in E; [inversion E; exists []; reflexivity|].
  destruct (size <=? iv_len e); [inversion E; subst; exists (map iv_id v); reflexivity|].
  destruct (shrink_loop v (size - iv_len e)) as [[v1 h1] s1] eqn:R. inversion E; subst.
  destruct (IH _ _ _ _ R) as [post P]. exists post. simpl. rewrite P. reflexivity.
Qed.

Lemma NoDup_app_l {A} (a b : list A) : NoDup (a ++ b) -> NoDup a.
Proof.
  induction a as [|x a IH]; intros H; [constructor|]. inversion H as [|? ? Hn Hd]; subst. constructor; [|apply IH; exact Hd].
  intros Hi; apply Hn; apply in_or_app; left; exact Hi.
Qed.
Lemma NoDup_app_r {A} (a b : list A) : NoDup (a ++ b) -> NoDup b.
Proof. induction a as [|x a IH]; intros H; [exact H|]. inversion H; subst. apply IH; assumption. Qed.
Definition ids_ok (v : view) : Prop := NoDup (map iv_id v).
Lemma ids_ok_suffix v v' pre : ids_ok v -> map iv_id v = pre ++ map iv_id v' -> ids_ok v'.
Proof. unfold ids_ok; intros H E; rewrite E in H. eapply NoDup_app_r; eauto. Qed.
Lemma ids_ok_prefix v v' post : ids_ok v -> map iv_id v = map iv_id v' ++ post -> ids_ok v'.
Proof. unfold ids_ok; intros H E; rewrite E in H. eapply NoDup_app_l; eauto. Qed.
Lemma ids_ok_rev v : ids_ok v -> ids_ok (rev v).
Proof. unfold ids_ok; rewrite map_rev; apply NoDup_rev. Qed.

(* ================================================================ shrink_less_than *)
Lemma slt_loop_spec st v : wf_view st v -> forall size v' x, 0 < size -> slt_loop v size = Some (v', x) ->
  wf_view st v' /\ (exists post, v = v' ++ post) /\ 0 <= x /\ v_sum v' = size + x /\ v' <> [] /\
  v_sum (removelast v') < size.
Proof.
  induction 1 as [|e v He Hv IH]; intros size v' x Hs E; simpl in E; [discriminate|].
  pose proof (wf_len_nonneg _ _ He) as Hl.
  destruct (size <=? iv_len e) eqn:C.
  - apply Z.leb_le in C. inversion E; subst. split; [constructor; auto; constructor|]. split; [exists v; reflexivity|].
    rewrite v_sum_cons. unfold v_sum; simpl. repeat split; try lia. discriminate.
  - apply Z.leb_gt in C. destruct (slt_loop v (size - iv_len e)) as [[v1 x1]|] eqn:R; [|discriminate]. inversion E; subst.
    assert (P : 0 < size - iv_len e) by lia.
    destruct (IH _ _ _ P R) as (W1 & [post Pp] & Hx & S1 & NE & RL).
    split; [constructor; auto|]. split; [exists post; rewrite Pp; reflexivity|]. rewrite v_sum_cons.
    split; [lia|]. split; [lia|]. split; [discriminate|].
    destruct v1 as [|y v1]; [contradiction|]. change (removelast (e :: y :: v1)) with (e :: removelast (y :: v1)).
    rewrite v_sum_cons. lia.
Qed.
Lemma slt_loop_none st v : wf_view st v -> forall size, 0 < size -> slt_loop v size = None -> v_sum v < size.
Proof.
  induction 1 as [|e v He Hv IH]; intros size Hs E; simpl in E; [unfold v_sum; simpl; lia|].
  pose proof (wf_len_nonneg _ _ He) as Hl. rewrite v_sum_cons.
  destruct (size <=? iv_len e) eqn:C; [discriminate|]. apply Z.leb_gt in C.
  destruct (slt_loop v (size - iv_len e)) as [[v1 x1]|] eqn:R; [discriminate|].
  assert (P : 0 < size - iv_len e) by lia. pose proof (IH _ P R). lia.
Qed.
(* shrink_less_than(size): the vector is cut after the element in which byte `size` falls; the
   return value is the number of bytes of that element beyond `size` (size = 0: everything is
   dropped and the length of the first element is returned). *)
Lemma v_shrink_less_than_refines st v size v' r : wf_view st v -> 0 <= size -> v_shrink_less_than v size = (v', r) ->
  wf_view st v' /\ (exists post, v = v' ++ post) /\
  (size = 0 -> v' = [] /\ r = match v with [] => 0 | e :: _ => iv_len e end) /\
  (0 < size -> size <= v_sum v -> v_sum v' = size + r /\ 0 <= r /\ v_sum (removelast v') < size) /\
  (v_sum v < size -> v' = v /\ r = 0).
Proof.
  intros W Hs E. unfold v_shrink_less_than in E. destruct (size =? 0) eqn:Z0.
  - apply Z.eqb_eq in Z0. subst size. pose proof (v_sum_nonneg st v W).
    destruct v as [|e v0]; inversion E; subst; (split; [constructor|]); (split; [eexists; reflexivity|]);
      repeat split; auto; try lia.
  - apply Z.eqb_neq in Z0. destruct (slt_loop v size) as [[v1 x]|] eqn:R; inversion E; subst.
    + assert (P : 0 < size) by lia. destruct (slt_loop_spec st v W _ _ _ P R) as (W1 & Pp & Hx & S1 & NE & RL).
      split; [exact W1|]. split; [exact Pp|]. split; [lia|]. split; [auto|].
      intros L. destruct Pp as [post Pp]. exfalso. subst v.
      apply Forall_app in W. destruct W as [_ Wp]. pose proof (v_sum_nonneg st post Wp).
      assert (v_sum (v' ++ post) = v_sum v' + v_sum post).
      { clear. induction v' as [|a l IH]; [unfold v_sum at 2; simpl; lia|]. simpl app. rewrite !v_sum_cons, IH. lia. }
      lia.
    + assert (P : 0 < size) by lia. pose proof (slt_loop_none st v' W _ P R).
      split; [exact W|]. split; [exists []; rewrite app_nil_r; reflexivity|]. split; [lia|]. split; [lia|]. auto.
Qed.

(* ================================================================ slice *)
Lemma skipn_skipn_Z {A} (a b : Z) (l : list A) : 0 <= a -> 0 <= b -> skipn (Z.to_nat a) (skipn (Z.to_nat b) l) = skipn (Z.to_nat (b + a)) l.
Proof. intros; rewrite skipn_skipn'. f_equal; lia. Qed.
Lemma firstn_min_len {A} (n : Z) (l : list A) : 0 <= n -> firstn (Z.to_nat (Z.min n (zlen l))) l = firstn (Z.to_nat n) l.
Proof.
  intros Hn. destruct (Z_le_gt_dec n (zlen l)); [rewrite Z.min_l by lia; reflexivity|].
  rewrite Z.min_r by lia. rewrite !firstn_whole by lia. reflexivity.
Qed.

Lemma slice_skip_spec st v : wf_view st v -> forall pos offset it pos', pos <= offset -> slice_skip v pos offset = (it, pos') ->
  pos <= pos' <= offset /\ wf_view st it /\ flatT st it = skipn (Z.to_nat (pos' - pos)) (flatT st v) /\
  pos' - pos <= v_sum v /\ zlen it <= zlen v /\
  match it with [] => pos' - pos = v_sum v | e :: _ => offset < pos' + iv_len e end.
Proof.
  induction 1 as [|e v He Hv IH]; intros pos offset it pos' Hp E; simpl in E.
  - inversion E; subst. rewrite Z.sub_diag. unfold v_sum; simpl. repeat split; auto; try lia. constructor.
  - pose proof (wf_len_nonneg _ _ He) as Hl. pose proof (v_sum_nonneg st v Hv) as Hs. pose proof (zlen_bytesT _ _ He) as Lb.
    rewrite v_sum_cons, zlen_cons. destruct (offset <? pos + iv_len e) eqn:C.
    + apply Z.ltb_lt in C. inversion E; subst. rewrite Z.sub_diag. repeat split; auto; try lia.
      * constructor; auto.
      * rewrite zlen_cons; lia.
    + apply Z.ltb_ge in C. destruct (IH _ _ _ _ C E) as (P1 & W1 & F1 & S1 & L1 & M1).
      split; [lia|]. split; [exact W1|]. split.
      * rewrite flatT_cons, skipn_app_Z2 by lia. rewrite F1. f_equal. f_equal. lia.
      * split; [lia|]. split; [lia|]. destruct it; [lia|exact M1].
Qed.

Lemma slice_rest_spec st v : wf_view st v -> forall count room o ret, 0 < count -> slice_rest v count room = (o, ret) ->
  wf_view st o /\ ret = zlen (flatT st o) /\ flatT st o = firstn (Z.to_nat ret) (flatT st v) /\ 0 <= ret <= count /\
  (zlen v <= room -> ret = Z.min count (v_sum v)).
Proof.
  induction 1 as [|e v He Hv IH]; intros count room o ret Hc E; simpl in E.
  - inversion E; subst. unfold v_sum; simpl. repeat split; auto; try lia. constructor.
  - pose proof (wf_len_nonneg _ _ He) as Hl. pose proof (v_sum_nonneg st v Hv) as Hs. pose proof (zlen_bytesT _ _ He) as Lb.
    pose proof (zlen_nonneg v) as Hz. rewrite v_sum_cons, zlen_cons, flatT_cons.
    destruct (room <=? 0) eqn:R0.
    + apply Z.leb_le in R0. inversion E; subst. repeat split; auto; try lia. constructor.
    + apply Z.leb_gt in R0. destruct (count <=? iv_len e) eqn:C.
      * apply Z.leb_le in C. inversion E; subst. rewrite flatT_single, bytesT_take by lia.
        split; [constructor; [apply wf_take; auto; lia|constructor]|].
        split; [rewrite zlen_firstn; lia|]. split; [rewrite firstn_app_Z by lia; reflexivity|]. split; lia.
      * apply Z.leb_gt in C. destruct (slice_rest v (count - iv_len e) (room - 1)) as [o1 r1] eqn:R. inversion E; subst.
        assert (P : 0 < count - iv_len e) by lia. destruct (IH _ _ _ _ P R) as (W1 & Z1 & F1 & B1 & M1).
        split; [constructor; auto|]. split; [rewrite flatT_cons, zlen_app; lia|].
        split; [rewrite flatT_cons, firstn_app_Z2 by lia; rewrite Lb, F1; do 3 f_equal; lia|].
        split; [lia|]. intros L. rewrite M1 by lia. lia.
Qed.

(* slice(count, offset, out): out denotes a prefix of bytes [offset, offset+count); all of them when out
   has a slot for every element; the vector itself is untouched (the function takes a const view) *)
Lemma v_slice_refines st v count offset N : wf_view st v -> 0 <= count -> 0 <= offset ->
  let want := firstn (Z.to_nat count) (skipn (Z.to_nat offset) (flatT st v)) in
  match v_slice v count offset N with
  | (r, None) => N = 0 /\ r = -1
  | (r, Some a) => N <> 0 /\ wf_view st a /\ r = zlen (flatT st a) /\ flatT st a = firstn (Z.to_nat r) want /\
                   (zlen v <= N -> flatT st a = want)
  end.
Proof.
  intros W Hc Ho want. unfold v_slice. destruct (N =? 0) eqn:N0; [apply Z.eqb_eq in N0; auto|]. apply Z.eqb_neq in N0.
  destruct (count =? 0) eqn:C0.
  { apply Z.eqb_eq in C0. subst count. unfold want. simpl. repeat split; auto. constructor. }
  apply Z.eqb_neq in C0.
  destruct (slice_skip v 0 offset) as [it pos] eqn:SK.
  destruct (slice_skip_spec st v W 0 offset it pos Ho SK) as (P1 & W1 & F1 & S1 & L1 & M1).
  rewrite Z.sub_0_r in *. pose proof (zlen_flatT st v W) as LF.
  destruct it as [|e r0].
  - assert (want = []) as ->. { unfold want. rewrite skipn_whole by lia. apply firstn_nil. }
    repeat split; auto; try constructor.
  - apply wf_view_cons in W1. destruct W1 as [We Wr].
    pose proof (wf_len_nonneg _ _ We) as Hl. pose proof (wf_off_nonneg _ _ We) as Hoff. pose proof (zlen_bytesT _ _ We) as Lb.
    set (dlt := offset - pos) in *.
    assert (Wf : wf_elem st (mkiov (iv_id e) (iv_off e + dlt) (iv_len e - dlt))) by (apply wf_drop; auto; unfold dlt; lia).
    assert (Bf : bytesT st (mkiov (iv_id e) (iv_off e + dlt) (iv_len e - dlt)) = skipn (Z.to_nat dlt) (bytesT st e))
      by (apply bytesT_drop; unfold dlt; lia).
    assert (SKP : skipn (Z.to_nat offset) (flatT st v) = skipn (Z.to_nat dlt) (bytesT st e) ++ flatT st r0).
    { replace offset with (pos + dlt) by (unfold dlt; lia). rewrite <- skipn_skipn_Z by (unfold dlt; lia).
      rewrite <- F1, flatT_cons. apply skipn_app_Z. unfold dlt; lia. }
    set (Bfirst := skipn (Z.to_nat dlt) (bytesT st e)) in *.
    assert (Lf : zlen Bfirst = iv_len e - dlt) by (unfold Bfirst; rewrite zlen_skipn; unfold dlt; lia).
    cbn [iv_len iv_id iv_off]. unfold want. rewrite SKP.
    destruct (count <=? iv_len e - dlt) eqn:C.
    + apply Z.leb_le in C. split; [exact N0|]. rewrite flatT_single.
      assert (Bt : bytesT st (mkiov (iv_id e) (iv_off e + dlt) count) = firstn (Z.to_nat count) Bfirst).
      { rewrite <- Bf. apply (bytesT_take st (mkiov (iv_id e) (iv_off e + dlt) (iv_len e - dlt))). simpl. lia. }
      rewrite Bt. rewrite (firstn_app_Z count) by lia.
      split; [constructor; [|constructor]; apply (wf_take st _ count Wf); simpl; lia|].
      split; [rewrite zlen_firstn; lia|]. split; [rewrite firstn_firstn; f_equal; lia|reflexivity].
    + apply Z.leb_gt in C. destruct (slice_rest r0 (count - (iv_len e - dlt)) (N - 1)) as [o ret] eqn:R.
      assert (P : 0 < count - (iv_len e - dlt)) by lia.
      destruct (slice_rest_spec st r0 Wr _ _ _ _ P R) as (Wo & Zo & Fo & Bo & Mo).
      split; [exact N0|]. split; [constructor; auto|]. rewrite flatT_cons, Bf. fold Bfirst.
      split; [rewrite zlen_app; lia|].
      split.
      * rewrite firstn_firstn. replace (Init.Nat.min (Z.to_nat (iv_len e - dlt + ret)) (Z.to_nat count)) with (Z.to_nat (iv_len e - dlt + ret)) by lia.
        rewrite firstn_app_Z2 by lia. rewrite Lf, Fo. do 3 f_equal. lia.
      * intros LN. rewrite firstn_app_Z2 by lia. rewrite Lf, Fo. f_equal.
        rewrite Mo by (rewrite zlen_cons in L1; lia).
        rewrite <- (zlen_flatT st r0 Wr). apply firstn_min_len. lia.
Qed.

(* ================================================================ enough out slots: extract_*(bytes, view ptr) never returns -1 *)
Lemma xf_view_enough N v : forall bytes a, zlen a + zlen v <= N ->
  match xf_loop (cb_view_front N) v bytes a with XNeg _ _ => False | _ => True end.
Proof.
  induction v as [|e v IH]; intros bytes a H; simpl; [exact I|]. rewrite zlen_cons in H. pose proof (zlen_nonneg v).
  unfold cb_view_front. destruct (zlen a =? N) eqn:C; [apply Z.eqb_eq in C; lia|].
  destruct (bytes <=? iv_len e).
  - destruct (iv_len e - bytes =? 0); exact I.
  - apply IH. rewrite zlen_app. unfold zlen at 2; simpl. lia.
Qed.
Lemma xb_view_enough N v : forall bytes a, zlen a + zlen v <= N ->
  match xb_loop (cb_view_back N) v bytes a with XNeg _ _ => False | _ => True end.
Proof.
  induction v as [|e v IH]; intros bytes a H; simpl; [exact I|]. rewrite zlen_cons in H. pose proof (zlen_nonneg v).
  unfold cb_view_back. destruct (zlen a =? N) eqn:C; [apply Z.eqb_eq in C; lia|].
  destruct (bytes <=? iv_len e).
  - destruct (iv_len e - bytes =? 0); exact I.
  - apply IH. rewrite zlen_cons. lia.
Qed.
Lemma extract_view_enough_slots N v bytes : zlen v <= N ->
  (match do_extract_front (cb_view_front N) v bytes [] with XNeg _ _ => False | _ => True end) /\
  (match do_extract_back (cb_view_back N) v bytes [] with XNeg _ _ => False | _ => True end).
Proof.
  intros H. split.
  - unfold do_extract_front. destruct (bytes =? 0); [exact I|]. apply xf_view_enough. unfold zlen at 1; simpl; lia.
  - unfold do_extract_back. destruct (bytes =? 0); [exact I|].
    pose proof (xb_view_enough N (rev v) bytes []) as G. rewrite zlen_rev in G. specialize (G ltac:(unfold zlen at 1; simpl; lia)).
    destruct (xb_loop (cb_view_back N) (rev v) bytes []); simpl; auto.
Qed.

(* the front callback never holds more than N entries *)
Lemma cb_view_len N v : forall bytes a, zlen a <= N ->
  match xf_loop (cb_view_front N) v bytes a with XDone _ _ a' => zlen a' <= N | XNeg _ a' => zlen a' <= N | XOob => True end.
Proof.
  induction v as [|e v IH]; intros bytes a H; simpl; [exact H|].
  unfold cb_view_front. destruct (zlen a =? N) eqn:C.
  - destruct (bytes <=? iv_len e); exact H.
  - apply Z.eqb_neq in C. assert (H2 : zlen (a ++ [mkiov (iv_id e) (iv_off e) bytes]) <= N) by (rewrite zlen_app; unfold zlen at 2; simpl; lia).
    assert (H3 : zlen (a ++ [mkiov (iv_id e) (iv_off e) (iv_len e)]) <= N) by (rewrite zlen_app; unfold zlen at 2; simpl; lia).
    destruct (bytes <=? iv_len e).
    + destruct (iv_len e - bytes =? 0); exact H2.
    + apply IH. exact H3.
Qed.
