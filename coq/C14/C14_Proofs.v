From Coq Require Import ZArith List Lia.
From PV Require Import C14.C14_Model.
Lemma placeholder : True. Proof. exact I. Qed.
