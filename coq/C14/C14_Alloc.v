(* C14 — the allocating operations of the owning iovector: push_back/push_front(bytes) with
   push_*_more, truncate, and the copying fallback of extract_*_continuous. *)
From Coq Require Import ZArith List Bool Lia.
From PV Require Import C14.C14_Model C14.C14_Lib C14.C14_Proofs C14.C14_Copy.
Import ListNotations.
Local Open Scope Z_scope.

Lemma do_allocate_spec chunk st iv smin smax st' iv' res :
  do_allocate chunk st iv smin smax = (st', iv', res) ->
  cap iv' = cap iv /\ ibeg iv' = ibeg iv /\ live iv' = live iv /\
  match res with
  | None => st' = st
  | Some (id, r) => id = zlen st /\ st' = st ++ [pattern (zlen st) r] /\ smin <= r <= smax
  end.
Proof.
  unfold do_allocate, new_buf. intros H. destruct (cap iv <=? nbases iv); [inversion H; subst; auto|].
  destruct (Z.min smax chunk <? smin) eqn:C; inversion H; subst; simpl; auto.
  apply Z.ltb_ge in C. repeat split; auto; lia.
Qed.

Lemma new_iovec_spec chunk st iv sz st' iv' v : new_iovec chunk st iv sz = (st', iv', v) -> 0 <= sz ->
  cap iv' = cap iv /\ ibeg iv' = ibeg iv /\ live iv' = live iv /\
  ((st' = st /\ iv_len v = 0) \/
   (exists r, 1 <= r <= sz /\ st' = st ++ [pattern (zlen st) r] /\ v = mkiov (zlen st) 0 r)).
Proof.
  unfold new_iovec. intros H Hs.
  destruct (do_allocate chunk st iv 1 (if sz <=? INT_MAX then sz else INT_MAX)) as [[st1 iv1] res] eqn:D.
  destruct (do_allocate_spec _ _ _ _ _ _ _ _ D) as (C1 & C2 & C3 & R).
  destruct res as [[id r]|]; inversion H; subst.
  - destruct R as (-> & -> & Hr). repeat split; auto. right. exists r. repeat split; auto; try lia.
    destruct (sz <=? INT_MAX) eqn:Q; [lia|]. apply Z.leb_gt in Q. lia.
  - repeat split; auto.
Qed.

(* the vector grew at the back / at the front by k fresh bytes *)
Definition ext_back (st : store) (v : view) (st' : store) (v' : view) (k : Z) : Prop :=
  wf_view st' v' /\ (ids_ok v -> ids_ok v') /\ exists X, zlen X = k /\ flatT st' v' = flatT st v ++ X.
Definition ext_front (st : store) (v : view) (st' : store) (v' : view) (k : Z) : Prop :=
  wf_view st' v' /\ (ids_ok v -> ids_ok v') /\ exists X, zlen X = k /\ flatT st' v' = X ++ flatT st v.

Lemma fresh_back st v r : wf_view st v -> 0 <= r ->
  ext_back st v (st ++ [pattern (zlen st) r]) (v ++ [mkiov (zlen st) 0 r]) r.
Proof.
  intros W Hr. pose proof (wf_new_elem st r Hr) as Wn. split; [|split].
  - apply Forall_app; split; [apply wf_view_app; exact W | constructor; [exact Wn|constructor]].
  - intros I. unfold ids_ok in *. rewrite map_app. simpl.
    apply NoDup_rev in I. rewrite <- (rev_involutive (map iv_id v ++ [zlen st])). apply NoDup_rev.
    rewrite rev_app_distr. simpl. constructor; [|exact I]. rewrite <- in_rev. intros HI. apply in_map_iff in HI.
    destruct HI as (y & Ey & Hy). eapply Forall_forall in W; [|exact Hy]. pose proof (wf_elem_id_lt _ _ W). lia.
  - eexists; split; [|rewrite flatT_app, (flatT_app_store st _ _ W), flatT_single; reflexivity]. apply (zlen_bytesT _ _ Wn).
Qed.
Lemma fresh_front st v r : wf_view st v -> 0 <= r ->
  ext_front st v (st ++ [pattern (zlen st) r]) (mkiov (zlen st) 0 r :: v) r.
Proof.
  intros W Hr. pose proof (wf_new_elem st r Hr) as Wn. split; [|split].
  - constructor; [exact Wn | apply wf_view_app; exact W].
  - intros I. unfold ids_ok in *. simpl. constructor; [|exact I]. intros HI. apply in_map_iff in HI.
    destruct HI as (y & Ey & Hy). eapply Forall_forall in W; [|exact Hy]. pose proof (wf_elem_id_lt _ _ W). lia.
  - eexists; split; [|rewrite flatT_cons, (flatT_app_store st _ _ W); reflexivity]. apply (zlen_bytesT _ _ Wn).
Qed.
Lemma ext_back_refl st v : wf_view st v -> ext_back st v st v 0.
Proof. intros; split; [|split]; auto. exists []. rewrite app_nil_r. auto. Qed.
Lemma ext_front_refl st v : wf_view st v -> ext_front st v st v 0.
Proof. intros; split; [|split]; auto. exists []. auto. Qed.
Lemma ext_back_trans st v st1 v1 st2 v2 a b : ext_back st v st1 v1 a -> ext_back st1 v1 st2 v2 b -> ext_back st v st2 v2 (a + b).
Proof.
  intros (_ & I1 & X & LX & FX) (W & I & Y & LY & FY). split; [|split]; auto.
  exists (X ++ Y). rewrite zlen_app, FY, FX, app_assoc. split; [lia|reflexivity].
Qed.
Lemma ext_front_trans st v st1 v1 st2 v2 a b : ext_front st v st1 v1 a -> ext_front st1 v1 st2 v2 b -> ext_front st v st2 v2 (a + b).
Proof.
  intros (_ & I1 & X & LX & FX) (W & I & Y & LY & FY). split; [|split]; auto.
  exists (Y ++ X). rewrite zlen_app, FY, FX, app_assoc. split; [lia|reflexivity].
Qed.

(* iovector.cpp:357-374 push_back_more *)
Lemma push_back_more_spec chunk : forall fuel st iv bytes0 bytes,
  wf_view st (live iv) -> 0 <= bytes -> (Z.to_nat (cap iv - iend iv) < fuel)%nat ->
  exists st' iv' k, push_back_more fuel chunk st iv bytes0 bytes = Some (st', iv', bytes0 - bytes + k) /\
    0 <= k <= bytes /\ ext_back st (live iv) st' (live iv') k /\ ibeg iv' = ibeg iv /\ cap iv' = cap iv.
Proof.
  induction fuel as [|f IH]; intros st iv bytes0 bytes W Hb Hf; [lia|]. simpl.
  destruct (bytes =? 0) eqn:Z0.
  { exists st, iv, 0. rewrite Z.add_0_r. repeat split; auto; try lia; apply ext_back_refl; auto. }
  destruct (cap iv <=? iend iv) eqn:C.
  { exists st, iv, 0. rewrite Z.add_0_r. repeat split; auto; try lia; apply ext_back_refl; auto. }
  apply Z.eqb_neq in Z0. apply Z.leb_gt in C.
  destruct (new_iovec chunk st iv bytes) as [[st1 iv1] v] eqn:NI.
  destruct (new_iovec_spec _ _ _ _ _ _ _ NI Hb) as (C1 & C2 & C3 & [[-> Lv]|(r & Hr & -> & ->)]).
  - rewrite Lv. simpl. exists st, iv1, 0. rewrite Z.add_0_r, C3. repeat split; auto; try lia. apply ext_back_refl; auto.
  - cbn [iv_len]. destruct (r =? 0) eqn:R0; [apply Z.eqb_eq in R0; lia|].
    unfold o_push_back. assert (IE : iend iv1 = iend iv) by (unfold iend; rewrite C2, C3; reflexivity).
    rewrite IE, C1. destruct (iend iv <? cap iv) eqn:C'; [|apply Z.ltb_ge in C'; lia].
    set (iv2 := mkIV (cap iv) (ibeg iv1) (live iv1 ++ [mkiov (zlen st) 0 r]) (nbases iv1)).
    pose proof (fresh_back st (live iv) r W ltac:(lia)) as EB. rewrite <- C3 in EB at 2.
    destruct EB as (W2 & I2 & X2).
    assert (Hf2 : (Z.to_nat (cap iv2 - iend iv2) < f)%nat).
    { unfold iend, iv2; simpl. rewrite zlen_app, C2, C3. unfold iend in *. unfold zlen at 2. simpl. lia. }
    destruct (IH (st ++ [pattern (zlen st) r]) iv2 bytes0 (bytes - r) W2 ltac:(lia) Hf2) as (st' & iv' & k & E & Hk & EB' & B' & CC').
    exists st', iv', (r + k). rewrite E. split; [f_equal; f_equal; lia|]. split; [lia|].
    split; [|split; [rewrite B'; simpl; exact C2 | rewrite CC'; reflexivity]].
    eapply ext_back_trans; [|exact EB']. split; [exact W2|split; [exact I2|]]. simpl. exact X2.
Qed.

Lemma push_front_more_spec chunk : forall fuel st iv bytes0 bytes,
  wf_view st (live iv) -> 0 <= bytes -> (Z.to_nat (ibeg iv) < fuel)%nat ->
  exists st' iv' k, push_front_more fuel chunk st iv bytes0 bytes = Some (st', iv', bytes0 - bytes + k) /\
    0 <= k <= bytes /\ ext_front st (live iv) st' (live iv') k.
Proof.
  induction fuel as [|f IH]; intros st iv bytes0 bytes W Hb Hf; [lia|]. simpl.
  destruct (bytes =? 0) eqn:Z0.
  { exists st, iv, 0. rewrite Z.add_0_r. repeat split; auto; try lia; apply ext_front_refl; auto. }
  destruct (ibeg iv <=? 0) eqn:C.
  { exists st, iv, 0. rewrite Z.add_0_r. repeat split; auto; try lia; apply ext_front_refl; auto. }
  apply Z.eqb_neq in Z0. apply Z.leb_gt in C.
  destruct (new_iovec chunk st iv bytes) as [[st1 iv1] v] eqn:NI.
  destruct (new_iovec_spec _ _ _ _ _ _ _ NI Hb) as (C1 & C2 & C3 & [[-> Lv]|(r & Hr & -> & ->)]).
  - rewrite Lv. simpl. exists st, iv1, 0. rewrite Z.add_0_r, C3. repeat split; auto; try lia. apply ext_front_refl; auto.
  - cbn [iv_len]. destruct (r =? 0) eqn:R0; [apply Z.eqb_eq in R0; lia|].
    unfold o_push_front. rewrite C2. destruct (0 <? ibeg iv) eqn:C'; [|apply Z.ltb_ge in C'; lia].
    set (iv2 := mkIV (cap iv1) (ibeg iv - 1) (mkiov (zlen st) 0 r :: live iv1) (nbases iv1)).
    pose proof (fresh_front st (live iv) r W ltac:(lia)) as EB. rewrite <- C3 in EB at 2.
    destruct EB as (W2 & I2 & X2).
    assert (Hf2 : (Z.to_nat (ibeg iv2) < f)%nat) by (unfold iv2; simpl; lia).
    destruct (IH (st ++ [pattern (zlen st) r]) iv2 bytes0 (bytes - r) W2 ltac:(lia) Hf2) as (st' & iv' & k & E & Hk & EB').
    exists st', iv', (r + k). rewrite E. split; [f_equal; f_equal; lia|]. split; [lia|].
    eapply ext_front_trans; [|exact EB']. split; [exact W2|split; [exact I2|]]. simpl. exact X2.
Qed.

(* iovector.h:389-397 push_back(size_t bytes) *)
Lemma o_push_back_alloc_spec chunk st iv bytes : wf_view st (live iv) -> 0 <= bytes ->
  exists st' iv' k, o_push_back_alloc chunk st iv bytes = Some (st', iv', k) /\ 0 <= k <= bytes /\
    ext_back st (live iv) st' (live iv') k.
Proof.
  intros W Hb. unfold o_push_back_alloc.
  destruct (cap iv <=? iend iv) eqn:C.
  { exists st, iv, 0. repeat split; auto; try lia; apply ext_back_refl; auto. }
  apply Z.leb_gt in C.
  destruct (new_iovec chunk st iv bytes) as [[st1 iv1] v] eqn:NI.
  destruct (new_iovec_spec _ _ _ _ _ _ _ NI Hb) as (C1 & C2 & C3 & [[-> Lv]|(r & Hr & -> & ->)]).
  - rewrite Lv. simpl. exists st, iv1, 0. rewrite C3. repeat split; auto; try lia. apply ext_back_refl; auto.
  - cbn [iv_len]. destruct (r =? 0) eqn:R0; [apply Z.eqb_eq in R0; lia|].
    unfold o_push_back. assert (IE : iend iv1 = iend iv) by (unfold iend; rewrite C2, C3; reflexivity).
    rewrite IE, C1. destruct (iend iv <? cap iv) eqn:C'; [|apply Z.ltb_ge in C'; lia].
    set (iv2 := mkIV (cap iv) (ibeg iv1) (live iv1 ++ [mkiov (zlen st) 0 r]) (nbases iv1)).
    pose proof (fresh_back st (live iv) r W ltac:(lia)) as EB. rewrite <- C3 in EB at 2.
    cbn [iv_len]. destruct (r =? bytes) eqn:RB.
    + apply Z.eqb_eq in RB. subst r. exists (st ++ [pattern (zlen st) bytes]), iv2, bytes. split; [reflexivity|]. split; [lia|]. exact EB.
    + destruct EB as (W2 & I2 & X2).
      assert (Hf2 : (Z.to_nat (cap iv2 - iend iv2) < back_fuel iv2)%nat) by (unfold back_fuel; lia).
      destruct (push_back_more_spec chunk (back_fuel iv2) (st ++ [pattern (zlen st) r]) iv2 (bytes - r) (bytes - r) W2 ltac:(lia) Hf2)
        as (st' & iv' & k & E & Hk & EB' & _).
      rewrite E. exists st', iv', (r + k). split; [f_equal; f_equal; lia|]. split; [lia|].
      eapply ext_back_trans; [|exact EB']. split; [exact W2|split; [exact I2|]]. simpl. exact X2.
Qed.

(* iovector.h:363-371 push_front(size_t bytes) *)
Lemma o_push_front_alloc_spec chunk st iv bytes : wf_view st (live iv) -> 0 <= bytes ->
  exists st' iv' k, o_push_front_alloc chunk st iv bytes = Some (st', iv', k) /\ 0 <= k <= bytes /\
    ext_front st (live iv) st' (live iv') k.
Proof.
  intros W Hb. unfold o_push_front_alloc.
  destruct (ibeg iv <=? 0) eqn:C.
  { exists st, iv, 0. repeat split; auto; try lia; apply ext_front_refl; auto. }
  apply Z.leb_gt in C.
  destruct (new_iovec chunk st iv bytes) as [[st1 iv1] v] eqn:NI.
  destruct (new_iovec_spec _ _ _ _ _ _ _ NI Hb) as (C1 & C2 & C3 & [[-> Lv]|(r & Hr & -> & ->)]).
  - rewrite Lv. simpl. exists st, iv1, 0. rewrite C3. repeat split; auto; try lia. apply ext_front_refl; auto.
  - cbn [iv_len]. destruct (r =? 0) eqn:R0; [apply Z.eqb_eq in R0; lia|].
    unfold o_push_front. rewrite C2. destruct (0 <? ibeg iv) eqn:C'; [|apply Z.ltb_ge in C'; lia].
    set (iv2 := mkIV (cap iv1) (ibeg iv - 1) (mkiov (zlen st) 0 r :: live iv1) (nbases iv1)).
    pose proof (fresh_front st (live iv) r W ltac:(lia)) as EB. rewrite <- C3 in EB at 2.
    cbn [iv_len]. destruct (r =? bytes) eqn:RB.
    + apply Z.eqb_eq in RB. subst r. exists (st ++ [pattern (zlen st) bytes]), iv2, bytes. split; [reflexivity|]. split; [lia|]. exact EB.
    + destruct EB as (W2 & I2 & X2).
      assert (Hf2 : (Z.to_nat (ibeg iv2) < front_fuel iv2)%nat) by (unfold front_fuel; lia).
      destruct (push_front_more_spec chunk (front_fuel iv2) (st ++ [pattern (zlen st) r]) iv2 (bytes - r) (bytes - r) W2 ltac:(lia) Hf2)
        as (st' & iv' & k & E & Hk & EB').
      rewrite E. exists st', iv', (r + k). split; [f_equal; f_equal; lia|]. split; [lia|].
      eapply ext_front_trans; [|exact EB']. split; [exact W2|split; [exact I2|]]. simpl. exact X2.
Qed.
