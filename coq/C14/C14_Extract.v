(* Extraction of the C14 model: ExtrOcamlBasic only; Z, positive, nat stay Coq's datatypes. *)
From Coq Require Import ZArith List.
From PV Require Import C14.C14_Model.
Require Extraction.
Require Import ExtrOcamlBasic.
Extraction "c14_model.ml" init_machine step flat load old_memcpy_to old_pipe_to_view old_extract_front_into old_extract_back_into.
