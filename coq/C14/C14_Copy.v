(* C14 — _copy_pipe_iov (memcpy_iov / pipe_iov): the copy loop equals the flat-string copy. *)
From Coq Require Import ZArith List Bool Lia.
From PV Require Import C14.C14_Model C14.C14_Lib C14.C14_Proofs.
Import ListNotations.
Local Open Scope Z_scope.

(* ---------------------------------------------------------------- sub-elements and disjointness *)
Definition within (e' e : iovec) : Prop :=
  iv_id e' = iv_id e /\ iv_off e <= iv_off e' /\ iv_off e' + iv_len e' <= iv_off e + iv_len e /\ 0 <= iv_len e'.
Lemma within_refl st e : wf_elem st e -> within e e.
Proof. intros W; pose proof (wf_len_nonneg _ _ W); unfold within; lia. Qed.
Lemma within_take e k : 0 <= k <= iv_len e -> within (mkiov (iv_id e) (iv_off e) k) e.
Proof. unfold within; simpl; lia. Qed.
Lemma within_adv e k : 0 <= k <= iv_len e -> within (iov_advance e k) e.
Proof. unfold within, iov_advance; simpl; lia. Qed.
Lemma disj_sym a b : disj a b -> disj b a.
Proof. unfold disj; intros [H|[H|[H|[H|H]]]]; auto 6. Qed.
Lemma disj_within_l e e' x : 0 <= iv_len e -> disj e x -> within e' e -> disj e' x.
Proof. unfold disj, within; intros Hl D (I & A & B & C). rewrite I. destruct D as [D|[D|[D|[D|D]]]]; [left; lia|auto|auto|right; right; right; left; lia|right; right; right; right; lia]. Qed.
Lemma disj_within_r e e' x : 0 <= iv_len e -> disj x e -> within e' e -> disj x e'.
Proof. intros Hl D W; apply disj_sym; eapply disj_within_l; eauto; apply disj_sym; exact D. Qed.

Lemma wf_adv st e k : wf_elem st e -> 0 <= k <= iv_len e -> wf_elem st (iov_advance e k).
Proof. intros; unfold iov_advance; apply wf_drop; auto. Qed.
Lemma bytesT_adv st e k : wf_elem st e -> 0 <= k <= iv_len e -> bytesT st (iov_advance e k) = skipn (Z.to_nat k) (bytesT st e).
Proof. intros W Hk; unfold iov_advance; apply bytesT_drop; auto. eapply wf_off_nonneg; eauto. Qed.

(* ex_adv on the flat string *)
Lemma ex_adv_spec st e r n : wf_view st (e :: r) -> 0 <= n <= iv_len e ->
  wf_view st (ex_adv (e :: r) n) /\ flatT st (ex_adv (e :: r) n) = skipn (Z.to_nat n) (flatT st (e :: r)) /\
  v_sum (ex_adv (e :: r) n) = v_sum (e :: r) - n /\
  (length (ex_adv (e :: r) n) <= length (e :: r))%nat /\ (n = iv_len e -> length (ex_adv (e :: r) n) = length r) /\
  Forall (fun x => exists y, In y (e :: r) /\ within x y) (ex_adv (e :: r) n).
Proof.
  intros W Hn. apply wf_view_cons in W. destruct W as [We Wr]. pose proof (zlen_bytesT _ _ We) as Lb.
  assert (IR : Forall (fun x => exists y, In y (e :: r) /\ within x y) r).
  { apply Forall_forall. intros x Hx. exists x. split; [right; exact Hx|]. eapply within_refl. eapply Forall_forall in Wr; eauto. }
  simpl. rewrite flatT_cons, v_sum_cons. destruct (n <? iv_len e) eqn:C.
  - apply Z.ltb_lt in C. split; [constructor; auto; apply wf_adv; auto|].
    split; [rewrite flatT_cons, skipn_app_Z by lia; f_equal; apply bytesT_adv; auto|].
    split; [rewrite v_sum_cons; simpl; lia|]. split; [simpl; lia|]. split; [lia|].
    constructor; [exists e; split; [left; reflexivity|apply within_adv; lia] | exact IR].
  - apply Z.ltb_ge in C. split; [exact Wr|]. split; [rewrite skipn_app_Z2 by lia; replace (n - zlen (bytesT st e)) with 0 by lia; reflexivity|].
    split; [lia|]. split; [simpl; lia|]. split; [reflexivity | exact IR].
Qed.

Lemma firstn_add_split {A} (a b : Z) (l : list A) : 0 <= a -> 0 <= b ->
  firstn (Z.to_nat (a + b)) l = firstn (Z.to_nat a) l ++ firstn (Z.to_nat b) (skipn (Z.to_nat a) l).
Proof.
  intros Ha Hb. rewrite <- (firstn_skipn (Z.to_nat a) l) at 1.
  destruct (Z_le_gt_dec a (zlen l)).
  - rewrite firstn_app_Z2 by (rewrite zlen_firstn; lia). rewrite zlen_firstn by lia. do 2 f_equal. lia.
  - rewrite (skipn_whole a) by lia. rewrite app_nil_r, firstn_nil, app_nil_r. rewrite firstn_firstn. f_equal. lia.
Qed.

(* a write of `data` over a well-formed region w *)
Lemma store_region st w data : wf_elem st w -> zlen data = iv_len w ->
  exists st1, store_bytes st (iv_id w) (iv_off w) data = Some st1 /\ bytesT st1 w = data /\
    (forall e, wf_elem st e -> wf_elem st1 e) /\ zlen st1 = zlen st /\
    (forall e, wf_elem st e -> disj e w -> bytesT st1 e = bytesT st e).
Proof.
  intros (b & Hb & H1 & H2 & H3) Hl.
  destruct (store_bytes st (iv_id w) (iv_off w) data) as [st1|] eqn:SB.
  - exists st1. split; [reflexivity|]. destruct (store_bytes_get _ _ _ _ _ SB) as (b0 & Hb0 & Ho & Hd & Hn & Hoth & Hz).
    rewrite Hb in Hb0; inversion Hb0; subst b0. split.
    + unfold bytesT. rewrite Hn, <- Hl. apply sub_splice_same; lia.
    + split; [intros e We; eapply store_bytes_wf_elem; eauto|]. split; [exact Hz|].
      intros e We D. eapply store_bytes_frame; eauto.
  - unfold store_bytes in SB. rewrite Hb, in_range_true in SB by lia. discriminate.
Qed.

Definition absD (d : iter) : view := match d with None => [] | Some (x, r) => x :: r end.
Lemma it_front_abs d : it_front d = ex_front (absD d).
Proof. destruct d as [[x r]|]; reflexivity. Qed.
Lemma it_adv_abs d n : absD (it_adv d n) = ex_adv (absD d) n.
Proof. destruct d as [[x r]|]; simpl; [|reflexivity]. destruct (n <? iv_len x); [reflexivity|]. destruct r; reflexivity. Qed.
Lemma absD_ctor v : absD (it_ctor v) = v.
Proof. destruct v; reflexivity. Qed.

Definition all_disj (dv sv : view) : Prop := Forall (fun d => Forall (disj d) sv) dv.

Section CopySpec.
  Context {Src : Type} (s_front : Src -> option iovec) (s_adv : Src -> Z -> Src) (absS : Src -> view).
  Hypothesis front_abs : forall s, s_front s = ex_front (absS s).
  Hypothesis adv_abs : forall s n, absS (s_adv s n) = ex_adv (absS s) n.

  Lemma copy_loop_spec : forall fuel st d s size,
    wf_view st (absD d) -> wf_view st (absS s) -> ForallOrdPairs disj (absD d) -> all_disj (absD d) (absS s) -> 0 <= size ->
    (1 + (if (size =? 0)%Z then 0 else length (absD d) + length (absS s)) <= fuel)%nat ->
    exists st' d' s' size', copy_loop s_front s_adv fuel st d s size = Some (st', d', s', size') /\
      size - size' = Z.min size (Z.min (v_sum (absD d)) (v_sum (absS s))) /\
      flatT st' (absD d) = firstn (Z.to_nat (size - size')) (flatT st (absS s)) ++ skipn (Z.to_nat (size - size')) (flatT st (absD d)) /\
      (forall e, wf_elem st e -> Forall (disj e) (absD d) -> bytesT st' e = bytesT st e) /\
      (forall e, wf_elem st e -> wf_elem st' e) /\ zlen st' = zlen st /\
      flatT st' (absS s') = skipn (Z.to_nat (size - size')) (flatT st (absS s)) /\ wf_view st' (absS s') /\
      (length (absS s') <= length (absS s))%nat /\
      Forall (fun x => exists y, In y (absS s) /\ within x y) (absS s').
  Proof.
    induction fuel as [|f IH]; intros st d s size Wd Ws PD AD Hs Hf; [simpl in Hf; lia|].
    pose proof (v_sum_nonneg st _ Wd) as Hsd. pose proof (v_sum_nonneg st _ Ws) as Hss.
    assert (SELF : Forall (fun x => exists y, In y (absS s) /\ within x y) (absS s)).
    { apply Forall_forall. intros x Hx. exists x. split; [exact Hx|]. eapply within_refl. eapply Forall_forall in Ws; eauto. }
    assert (DONE : forall k, k = 0 -> 0 = Z.min size (Z.min (v_sum (absD d)) (v_sum (absS s))) ->
      exists st' d' s' size', Some (st, d, s, size) = Some (st', d', s', size') /\
      size - size' = Z.min size (Z.min (v_sum (absD d)) (v_sum (absS s))) /\
      flatT st' (absD d) = firstn (Z.to_nat (size - size')) (flatT st (absS s)) ++ skipn (Z.to_nat (size - size')) (flatT st (absD d)) /\
      (forall e, wf_elem st e -> Forall (disj e) (absD d) -> bytesT st' e = bytesT st e) /\
      (forall e, wf_elem st e -> wf_elem st' e) /\ zlen st' = zlen st /\
      flatT st' (absS s') = skipn (Z.to_nat (size - size')) (flatT st (absS s)) /\ wf_view st' (absS s') /\
      (length (absS s') <= length (absS s))%nat /\
      Forall (fun x => exists y, In y (absS s) /\ within x y) (absS s')).
    { intros k _ M. exists st, d, s, size. rewrite Z.sub_diag. repeat split; auto. }
    simpl. destruct (size =? 0) eqn:Z0.
    { apply Z.eqb_eq in Z0. apply (DONE 0); [reflexivity|lia]. }
    apply Z.eqb_neq in Z0.
    rewrite it_front_abs, front_abs.
    destruct (absD d) as [|df dr] eqn:ED; simpl ex_front.
    { apply (DONE 0); [reflexivity|]. unfold v_sum at 1; simpl. lia. }
    destruct (absS s) as [|sf sr] eqn:ES; simpl ex_front.
    { apply (DONE 0); [reflexivity|]. unfold v_sum at 2; simpl. lia. }
    clear DONE.
    pose proof Wd as Wd0. pose proof Ws as Ws0.
    apply wf_view_cons in Wd. destruct Wd as [Wdf Wdr]. apply wf_view_cons in Ws. destruct Ws as [Wsf Wsr].
    pose proof (wf_len_nonneg _ _ Wdf) as Ldf. pose proof (wf_len_nonneg _ _ Wsf) as Lsf.
    pose proof (v_sum_nonneg st _ Wdr) as Hsdr. pose proof (v_sum_nonneg st _ Wsr) as Hssr.
    set (step := Z.min size (Z.min (iv_len df) (iv_len sf))).
    assert (Hst : 0 <= step /\ step <= size /\ step <= iv_len df /\ step <= iv_len sf) by (unfold step; lia).
    (* the memcpy *)
    set (w := mkiov (iv_id df) (iv_off df) step).
    assert (Ww : wf_elem st w) by (apply wf_take; auto; lia).
    assert (Wt : wf_elem st (mkiov (iv_id sf) (iv_off sf) step)) by (apply wf_take; auto; lia).
    unfold memcpy. change (load st (iv_id sf) (iv_off sf) step) with (load st (iv_id (mkiov (iv_id sf) (iv_off sf) step)) (iv_off (mkiov (iv_id sf) (iv_off sf) step)) (iv_len (mkiov (iv_id sf) (iv_off sf) step))).
    rewrite (load_wf _ _ Wt). set (data := bytesT st (mkiov (iv_id sf) (iv_off sf) step)).
    assert (Ld : zlen data = step) by (apply (zlen_bytesT _ _ Wt)).
    assert (Dd : data = firstn (Z.to_nat step) (bytesT st sf)) by (apply bytesT_take; lia).
    destruct (store_region st w data Ww Ld) as (st1 & SB & Bw & WF1 & Z1 & FR1). simpl in SB. rewrite SB.
    (* the recursive call *)
    inversion PD as [|? ? PDf PDr]; subst. inversion AD as [|? ? ADf ADr]; subst.
    destruct (ex_adv_spec st df dr step Wd0 ltac:(lia)) as (Wd1 & Fd1 & Sd1 & Ld1 & Ld1' & Id1).
    destruct (ex_adv_spec st sf sr step Ws0 ltac:(lia)) as (Ws1 & Fs1 & Ss1 & Ls1 & Ls1' & Is1).
    assert (Wwin : within w df) by (apply within_take; lia).
    (* everything in the advanced views is disjoint from the written region w *)
    assert (DW1 : Forall (fun x => disj x w) (ex_adv (df :: dr) step)).
    { simpl. destruct (step <? iv_len df) eqn:C.
      - constructor.
        + unfold disj, iov_advance, w; simpl. apply Z.ltb_lt in C. lia.
        + eapply Forall_impl; [|exact PDf]. intros a Da. eapply disj_within_r; [exact Ldf| |exact Wwin]. apply disj_sym; exact Da.
      - eapply Forall_impl; [|exact PDf]. intros a Da. eapply disj_within_r; [exact Ldf| |exact Wwin]. apply disj_sym; exact Da. }
    assert (DWS : Forall (fun x => disj x w) (sf :: sr)).
    { eapply Forall_impl; [|exact ADf]. intros a Da. eapply disj_within_r; [exact Ldf| |exact Wwin]. apply disj_sym; exact Da. }
    assert (DW2 : Forall (fun x => disj x w) (ex_adv (sf :: sr) step)).
    { eapply Forall_impl; [|exact Is1]. intros x (y & Hy & Wxy). eapply Forall_forall in DWS; [|exact Hy].
      eapply disj_within_l; [|exact DWS|exact Wxy]. eapply wf_len_nonneg. eapply Forall_forall in Ws0; eauto. }
    assert (Wd1' : wf_view st1 (ex_adv (df :: dr) step)) by (eapply Forall_impl; [|exact Wd1]; auto).
    assert (Ws1' : wf_view st1 (ex_adv (sf :: sr) step)) by (eapply Forall_impl; [|exact Ws1]; auto).
    assert (FLd : flatT st1 (ex_adv (df :: dr) step) = flatT st (ex_adv (df :: dr) step)).
    { clear - Wd1 DW1 FR1. induction Wd1 as [|a l Ha Hl IHl]; [reflexivity|]. inversion DW1; subst.
      rewrite !flatT_cons, IHl by assumption. f_equal. apply FR1; assumption. }
    assert (FLs : flatT st1 (ex_adv (sf :: sr) step) = flatT st (ex_adv (sf :: sr) step)).
    { clear - Ws1 DW2 FR1. induction Ws1 as [|a l Ha Hl IHl]; [reflexivity|]. inversion DW2; subst.
      rewrite !flatT_cons, IHl by assumption. f_equal. apply FR1; assumption. }
    (* pairwise disjointness / cross disjointness of the advanced views *)
    assert (LenOf : forall y, In y (df :: dr) -> 0 <= iv_len y) by (intros y Hy; eapply wf_len_nonneg; eapply Forall_forall in Wd0; eauto).
    assert (LenOfS : forall y, In y (sf :: sr) -> 0 <= iv_len y) by (intros y Hy; eapply wf_len_nonneg; eapply Forall_forall in Ws0; eauto).
    assert (PD1 : ForallOrdPairs disj (ex_adv (df :: dr) step)).
    { simpl. destruct (step <? iv_len df); [|exact PDr]. constructor; [|exact PDr].
      eapply Forall_impl; [|exact PDf]. intros a Da. eapply disj_within_l; [exact Ldf|exact Da|apply within_adv; lia]. }
    assert (AD1 : all_disj (ex_adv (df :: dr) step) (ex_adv (sf :: sr) step)).
    { unfold all_disj. eapply Forall_impl; [|exact Id1]. intros x (y & Hy & Wxy).
      assert (Dy : Forall (disj y) (sf :: sr)).
      { destruct Hy as [<-|Hy]; [exact ADf|]. unfold all_disj in ADr. eapply Forall_forall in ADr; eauto. }
      eapply Forall_impl; [|exact Is1]. intros x2 (y2 & Hy2 & Wxy2).
      eapply Forall_forall in Dy; [|exact Hy2].
      eapply disj_within_l; [apply LenOf; exact Hy| |exact Wxy].
      eapply disj_within_r; [apply LenOfS; exact Hy2|exact Dy|exact Wxy2]. }
    assert (Hf1 : (1 + (if (size - step =? 0)%Z then 0 else length (absD (it_adv d step)) + length (absS (s_adv s step))) <= f)%nat).
    { rewrite it_adv_abs, adv_abs, ED, ES. destruct (size - step =? 0) eqn:Z2.
      - simpl in Hf. lia.
      - apply Z.eqb_neq in Z2. assert (step = iv_len df \/ step = iv_len sf) as [Q|Q] by (unfold step in *; lia).
        + pose proof (Ld1' Q). simpl in *. lia.
        + pose proof (Ls1' Q). simpl in *. lia. }
    specialize (IH st1 (it_adv d step) (s_adv s step) (size - step)).
    rewrite it_adv_abs, adv_abs, ED, ES in IH.
    destruct (IH Wd1' Ws1' PD1 AD1 ltac:(lia) ltac:(rewrite it_adv_abs, adv_abs, ED, ES in Hf1; exact Hf1))
      as (st' & d' & s' & size' & E & K & FD & FR & WF & ZL & FS & WS & LS & IS).
    exists st', d', s', size'. split; [exact E|].
    assert (Wsd1 : 0 <= v_sum (ex_adv (df :: dr) step)) by (rewrite Sd1; rewrite v_sum_cons in *; lia).
    set (k1 := size - step - size') in *.
    assert (Hk1 : 0 <= k1) by (rewrite K, Sd1, Ss1; rewrite !v_sum_cons in *; lia).
    assert (KK : size - size' = step + k1) by (unfold k1; lia).
    split; [rewrite KK, K, Sd1, Ss1; rewrite !v_sum_cons in *; lia|].
    rewrite KK. rewrite FLs, Fs1 in FD, FS. rewrite FLd, Fd1 in FD.
    split.
    { (* destination bytes *)
      assert (Bw' : bytesT st' w = data).
      { rewrite <- Bw. apply FR; [apply WF1; exact Ww|]. eapply Forall_impl; [|exact DW1]. intros a Da; apply disj_sym; exact Da. }
      assert (SPL : flatT st' (df :: dr) = bytesT st' w ++ flatT st' (ex_adv (df :: dr) step)).
      { rewrite flatT_cons. simpl ex_adv. destruct (step <? iv_len df) eqn:C.
        - rewrite flatT_cons, app_assoc. f_equal.
          rewrite <- (firstn_skipn (Z.to_nat step) (bytesT st' df)). f_equal.
          + unfold w. symmetry. apply bytesT_take. lia.
          + symmetry. unfold iov_advance. apply bytesT_drop; [eapply wf_off_nonneg; eauto|lia].
        - apply Z.ltb_ge in C. f_equal. unfold w. replace step with (iv_len df) by lia. reflexivity. }
      rewrite SPL, Bw', FD, Dd.
      rewrite firstn_add_split by lia. rewrite <- app_assoc. f_equal.
      - rewrite flatT_cons. symmetry. apply firstn_app_Z. rewrite (zlen_bytesT _ _ Wsf). lia.
      - f_equal. apply skipn_skipn_Z; lia. }
    split.
    { intros e We De. rewrite FR.
      - apply FR1; [exact We|]. inversion De; subst. eapply disj_within_r; [exact Ldf| eassumption |exact Wwin].
      - apply WF1; exact We.
      - eapply Forall_impl; [|exact Id1]. intros x (y & Hy & Wxy). eapply Forall_forall in De; [|exact Hy].
        eapply disj_within_r; [apply LenOf; exact Hy|exact De|exact Wxy]. }
    split; [intros e We; apply WF; apply WF1; exact We|].
    split; [lia|].
    split; [rewrite FS; apply skipn_skipn_Z; lia|].
    split; [exact WS|].
    split; [simpl in *; lia|].
    eapply Forall_impl; [|exact IS]. intros x (y & Hy & Wxy).
    eapply Forall_forall in Is1; [|exact Hy]. destruct Is1 as (y0 & Hy0 & Wy0). exists y0. split; [exact Hy0|].
    unfold within in *. lia.
  Qed.
End CopySpec.

(* ---------------------------------------------------------------- memcpy_iov / pipe_iov on views *)
Lemma frame_view st st' (dv v : view) :
  (forall e, wf_elem st e -> Forall (disj e) dv -> bytesT st' e = bytesT st e) ->
  wf_view st v -> all_disj v dv -> flatT st' v = flatT st v.
Proof.
  intros FR W AD. induction W as [|e v He Hv IH]; [reflexivity|]. inversion AD; subst.
  rewrite !flatT_cons, IH by assumption. f_equal. apply FR; assumption.
Qed.

Lemma v_memcpy_iov_refines st d s size :
  wf_view st d -> wf_view st s -> ForallOrdPairs disj d -> all_disj d s -> 0 <= size ->
  exists st' k, v_memcpy_iov st d s size = Some (st', k) /\
    k = Z.min size (Z.min (v_sum d) (v_sum s)) /\
    flatT st' d = firstn (Z.to_nat k) (flatT st s) ++ skipn (Z.to_nat k) (flatT st d) /\
    (forall e, wf_elem st e -> Forall (disj e) d -> bytesT st' e = bytesT st e) /\
    (forall e, wf_elem st e -> wf_elem st' e) /\ zlen st' = zlen st.
Proof.
  intros Wd Ws PD AD Hs. unfold v_memcpy_iov.
  pose proof (copy_loop_spec it_front it_adv absD it_front_abs it_adv_abs (copy_fuel d s) st (it_ctor d) (it_ctor s) size) as G.
  rewrite !absD_ctor in G. specialize (G Wd Ws PD AD Hs).
  destruct G as (st' & d' & s' & size' & E & K & FD & FR & WF & ZL & _).
  { unfold copy_fuel. destruct (size =? 0); lia. }
  rewrite E. exists st', (size - size'). repeat split; auto.
Qed.

Lemma v_pipe_iov_refines st d s size :
  wf_view st d -> wf_view st s -> ForallOrdPairs disj d -> all_disj d s -> 0 <= size ->
  exists st' s' k, v_pipe_iov st d s size = Some (st', s', k) /\
    k = Z.min size (Z.min (v_sum d) (v_sum s)) /\
    flatT st' d = firstn (Z.to_nat k) (flatT st s) ++ skipn (Z.to_nat k) (flatT st d) /\
    (forall e, wf_elem st e -> Forall (disj e) d -> bytesT st' e = bytesT st e) /\
    (forall e, wf_elem st e -> wf_elem st' e) /\ zlen st' = zlen st /\
    flatT st' s' = skipn (Z.to_nat k) (flatT st s) /\ wf_view st' s' /\
    Forall (fun x => exists y, In y s /\ within x y) s'.
Proof.
  intros Wd Ws PD AD Hs. unfold v_pipe_iov.
  pose proof (copy_loop_spec ex_front ex_adv (fun v : view => v) (fun _ => eq_refl) (fun _ _ => eq_refl) (copy_fuel d s) st (it_ctor d) s size) as G.
  rewrite !absD_ctor in G. specialize (G Wd Ws PD AD Hs).
  destruct G as (st' & d' & s' & size' & E & K & FD & FR & WF & ZL & FS & WS & _ & IS).
  { unfold copy_fuel. destruct (size =? 0); lia. }
  rewrite E. exists st', s', (size - size'). repeat split; auto.
Qed.

(* which source elements survive a pipe: every element of ex_adv's result has the id of a distinct source element *)
Lemma ex_adv_ids v n : exists pre, map iv_id v = pre ++ map iv_id (ex_adv v n).
Proof. destruct v as [|x r]; [exists []; reflexivity|]. simpl. destruct (n <? iv_len x); [exists []; reflexivity | exists [iv_id x]; reflexivity]. Qed.
Lemma copy_loop_src_ids : forall fuel st d (s : view) size st' d' s' size',
  copy_loop ex_front ex_adv fuel st d s size = Some (st', d', s', size') -> exists pre, map iv_id s = pre ++ map iv_id s'.
Proof.
  induction fuel as [|f IH]; intros st d s size st' d' s' size' E; simpl in E; [discriminate|].
  destruct (size =? 0); [inversion E; subst; exists []; reflexivity|].
  destruct (it_front d) as [df|]; [|inversion E; subst; exists []; reflexivity].
  destruct (ex_front s) as [sf|]; [|inversion E; subst; exists []; reflexivity].
  destruct (memcpy st (iv_id df) (iv_off df) (iv_id sf) (iv_off sf) (Z.min size (Z.min (iv_len df) (iv_len sf)))) as [st1|]; [|discriminate].
  destruct (IH _ _ _ _ _ _ _ _ E) as [pre P].
  destruct (ex_adv_ids s (Z.min size (Z.min (iv_len df) (iv_len sf)))) as [pre0 P0].
  exists (pre0 ++ pre). rewrite P0, P, app_assoc. reflexivity.
Qed.
Lemma v_pipe_iov_ids st d s size st' s' k : v_pipe_iov st d s size = Some (st', s', k) -> ids_ok s -> ids_ok s'.
Proof.
  unfold v_pipe_iov. destruct (copy_loop ex_front ex_adv (copy_fuel d s) st (it_ctor d) s size) as [[[[a b] c] e]|] eqn:E; [|discriminate].
  intros H I. inversion H; subst. destruct (copy_loop_src_ids _ _ _ _ _ _ _ _ _ E) as [pre P]. eapply ids_ok_suffix; eauto.
Qed.
