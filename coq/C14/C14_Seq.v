(* C14 — the test machine: every step refines the flat-byte-string operation, keeps the machine
   well formed and never leaves a buffer (step <> None); sequences by induction. *)
From Coq Require Import ZArith List Bool Lia.
From PV Require Import C14.C14_Model C14.C14_Lib C14.C14_Proofs C14.C14_Copy C14.C14_Alloc.
Import ListNotations.
Local Open Scope Z_scope.

(* machine invariant: every element lies inside its buffer, and no two elements share a buffer
   (each element is a piece of its own allocation — what the harness builds and what push/extract
   preserve; zero-length elements included, no side condition on lengths) *)
Definition wf_machine (m : machine) : Prop := wf_view (m_st m) (live (m_iv m)) /\ ids_ok (live (m_iv m)).
Definition mflat (m : machine) : list byte := flatT (m_st m) (live (m_iv m)).
Definition auxflat (m : machine) : list byte := flatT (m_st m) (m_aux m).
Definition dstflat (m : machine) (ob : obs) : list byte := flatT (m_st m) (o_dst ob).

Definition shape_ok (sh : list Z) : Prop := Forall (fun n => 0 <= n) sh.
Fixpoint shape_sum (sh : list Z) : Z := match sh with [] => 0 | n :: r => n + shape_sum r end.
(* size_t arguments are non-negative; slice's off_t offset is required to be >= 0 *)
Definition args_ok (o : op) : Prop :=
  match o with
  | OShrink n | OShrinkLT n | OXF n | OXB n | OXFB n | OXBB n | OXFC n | OXBC n
  | OPushB n | OPushF n | OMTo n | OMFrom n | OPTo n | OTrunc n | OPushBA n | OPushFA n => 0 <= n
  | OXFV n N | OXBV n N => 0 <= n /\ 0 <= N
  | OXFO n cap2 rf2 | OXBO n cap2 rf2 => 0 <= n /\ 0 <= rf2 <= cap2
  | OSlice c o N => 0 <= c /\ 0 <= o /\ 0 <= N
  | OMToV sh n | OMFromV sh n | OPToV sh n | OPFromV sh n => shape_ok sh /\ 0 <= n
  | _ => True
  end.
(* the operation on the flat byte string F of the vector: F' = flat string afterwards, G' = flat string
   of the out view afterwards, D = content of the destination buffers / of the returned pointer,
   ob = what the call returned *)
Definition flat_spec (o : op) (own : bool) (F F' G' D : list byte) (ob : obs) : Prop :=
  let r := o_ret ob in
  match o with
  | OSum => r = zlen F /\ F' = F
  | OShrink n => r = Z.min n (zlen F) /\ F' = firstn (Z.to_nat r) F
  | OShrinkLT n =>
      if own then r = NA /\ F' = F
      else exists post, F = F' ++ post /\ (n = 0 -> F' = []) /\ (0 < n -> n <= zlen F -> zlen F' = n + r /\ 0 <= r) /\
                        (zlen F < n -> F' = F /\ r = 0)
  | OXF n => r = Z.min n (zlen F) /\ F' = skipn (Z.to_nat r) F
  | OXB n => r = Z.min n (zlen F) /\ F' = firstn (Z.to_nat (zlen F - r)) F
  | OXFB n => r = Z.min n (zlen F) /\ F' = skipn (Z.to_nat r) F /\
              exists pat, zlen pat = n /\ D = firstn (Z.to_nat r) F ++ skipn (Z.to_nat r) pat
  | OXBB n => r = Z.min n (zlen F) /\ F' = firstn (Z.to_nat (zlen F - r)) F /\
              exists pat, zlen pat = n /\ D = firstn (Z.to_nat (n - r)) pat ++ skipn (Z.to_nat (zlen F - r)) F
  | OXFV n N => (r = -1 /\ G' ++ F' = F) \/
                (r = Z.min n (zlen F) /\ G' = firstn (Z.to_nat r) F /\ F' = skipn (Z.to_nat r) F)
  | OXBV n N => (r = -1 /\ F' ++ G' = F) \/
                (r = Z.min n (zlen F) /\ G' = skipn (Z.to_nat (zlen F - r)) F /\ F' = firstn (Z.to_nat (zlen F - r)) F)
  | OXFC n => (r = 0 /\ o_ptr ob = None /\ F' = F) \/
              (r = 1 /\ o_ptr ob <> None /\ n <= zlen F /\ D = firstn (Z.to_nat n) F /\ F' = skipn (Z.to_nat n) F)
  | OXBC n => (r = 0 /\ o_ptr ob = None /\ F' = F) \/
              (r = 1 /\ o_ptr ob <> None /\ n <= zlen F /\ D = skipn (Z.to_nat (zlen F - n)) F /\ F' = firstn (Z.to_nat (zlen F - n)) F)
  | OSlice c o N =>
      F' = F /\ (r = -1 \/ r = 0 \/
                 (r = zlen G' /\ G' = firstn (Z.to_nat r) (firstn (Z.to_nat c) (skipn (Z.to_nat o) F))))
  | OMTo n | OMToV _ n =>
      F' = F /\ exists pat, r = Z.min n (Z.min (zlen pat) (zlen F)) /\ D = firstn (Z.to_nat r) F ++ skipn (Z.to_nat r) pat
  | OPTo n | OPToV _ n =>
      exists pat, r = Z.min n (Z.min (zlen pat) (zlen F)) /\ D = firstn (Z.to_nat r) F ++ skipn (Z.to_nat r) pat /\
                  F' = skipn (Z.to_nat r) F
  | OMFrom n | OMFromV _ n =>
      r = Z.min n (Z.min (zlen F) (zlen D)) /\ F' = firstn (Z.to_nat r) D ++ skipn (Z.to_nat r) F
  | OPFromV _ n =>
      r = Z.min n (Z.min (zlen F) (zlen D)) /\ F' = firstn (Z.to_nat r) D ++ skipn (Z.to_nat r) F /\ G' = skipn (Z.to_nat r) D
  | OPopF => if own then 0 <= r <= zlen F /\ F' = skipn (Z.to_nat r) F else r = NA /\ F' = F
  | OPopB => if own then 0 <= r <= zlen F /\ F' = firstn (Z.to_nat (zlen F - r)) F else r = NA /\ F' = F
  | OClear => if own then F' = [] else r = NA /\ F' = F
  | OPushB s => if own then (r = 0 /\ F' = F) \/ (r = s /\ exists X, zlen X = s /\ F' = F ++ X) else r = NA /\ F' = F
  | OPushF s => if own then (r = 0 /\ F' = F) \/ (r = s /\ exists X, zlen X = s /\ F' = X ++ F) else r = NA /\ F' = F
  | OXFO n _ _ => if own then (r = -1 /\ G' = [] /\ F' = F) \/ (r = Z.min n (zlen F) /\ G' = firstn (Z.to_nat r) F /\ F' = skipn (Z.to_nat r) F)
                  else r = NA /\ F' = F
  | OXBO n _ _ => if own then (r = -1 /\ G' = [] /\ F' = F) \/
                              (r = Z.min n (zlen F) /\ G' = skipn (Z.to_nat (zlen F - r)) F /\ F' = firstn (Z.to_nat (zlen F - r)) F)
                  else r = NA /\ F' = F
  | OTrunc n =>
      if own then r = zlen F' /\ r <= n /\ (n <= zlen F -> F' = firstn (Z.to_nat n) F) /\ (zlen F <= n -> exists X, F' = F ++ X)
      else r = NA /\ F' = F
  | OPushBA n => if own then 0 <= r <= n /\ exists X, zlen X = r /\ F' = F ++ X else r = NA /\ F' = F
  | OPushFA n => if own then 0 <= r <= n /\ exists X, zlen X = r /\ F' = X ++ F else r = NA /\ F' = F
  end.

(* ---------------------------------------------------------------- helpers *)
Lemma live_wfront m v' : live (wfront m v') = v'.
Proof. unfold wfront; destruct (m_own m); reflexivity. Qed.
Lemma live_wback m v' : live (wback m v') = v'.
Proof. unfold wback; destruct (m_own m); reflexivity. Qed.

Lemma own_out_slots_spec m st iv N st1 iv1 slots :
  own_out_slots m st iv N = (st1, iv1, slots) -> exists x, st1 = st ++ x /\ live iv1 = live iv.
Proof.
  unfold own_out_slots, do_malloc, do_allocate, new_buf. intros H.
  destruct (N =? 0).
  - destruct (cap iv <=? nbases iv); [inversion H; subst; exists []; rewrite app_nil_r; auto|].
    destruct (Z.min (zlen (live iv) * IOVEC_SIZE) (m_chunk m) <? zlen (live iv) * IOVEC_SIZE);
      inversion H; subst; [exists []; rewrite app_nil_r; auto | eexists; split; reflexivity].
  - inversion H; subst; exists []; rewrite app_nil_r; auto.
Qed.

Lemma flatT_nulls st N : flatT st (nulls N) = [].
Proof.
  unfold nulls. induction (Z.to_nat N) as [|k IH]; [reflexivity|]. simpl repeat. rewrite flatT_cons, IH.
  unfold bytesT, null_iov; simpl. reflexivity.
Qed.

Lemma do_xf_ids {A} (cb : A -> Z -> Z -> Z -> cbres A) v bytes a :
  match do_extract_front cb v bytes a with
  | XOob => True | XNeg v' _ => ids_ok v -> ids_ok v' | XDone v' _ _ => ids_ok v -> ids_ok v' end.
Proof.
  unfold do_extract_front. destruct (bytes =? 0); [auto|]. pose proof (xf_loop_ids cb v bytes a) as H.
  destruct (xf_loop cb v bytes a); auto; destruct H as [pre P]; intros; eapply ids_ok_suffix; eauto.
Qed.
Lemma do_xb_ids {A} (cb : A -> Z -> Z -> Z -> cbres A) v bytes a :
  match do_extract_back cb v bytes a with
  | XOob => True | XNeg v' _ => ids_ok v -> ids_ok v' | XDone v' _ _ => ids_ok v -> ids_ok v' end.
Proof.
  unfold do_extract_back. destruct (bytes =? 0); [auto|]. pose proof (xb_loop_ids cb (rev v) bytes a) as H.
  destruct (xb_loop cb (rev v) bytes a); simpl; auto; destruct H as [pre P]; intros I; apply ids_ok_rev;
    (apply (ids_ok_suffix (rev v) _ pre); [apply ids_ok_rev; exact I | exact P]).
Qed.

Lemma ids_ok_pairwise st v : wf_view st v -> ids_ok v -> ForallOrdPairs disj v.
Proof.
  unfold ids_ok. induction v as [|e v IH]; intros W I; [constructor|]. simpl in I. inversion I as [|? ? Hn Hd]; subst.
  apply wf_view_cons in W. destruct W as [_ Wv]. constructor; [|apply IH; auto].
  apply Forall_forall. intros x Hx. right; right; left. intros E. apply Hn. rewrite E. apply in_map; exact Hx.
Qed.

Definition ids_below (z : Z) (v : view) : Prop := Forall (fun e => iv_id e < z) v.
Definition ids_from (z : Z) (v : view) : Prop := Forall (fun e => z <= iv_id e) v.
Lemma wf_ids_below st v : wf_view st v -> ids_below (zlen st) v.
Proof. intros W; eapply Forall_impl; [|exact W]. intros e We. pose proof (wf_elem_id_lt _ _ We); lia. Qed.
Lemma all_disj_lo_hi z a b : ids_below z a -> ids_from z b -> all_disj a b.
Proof.
  intros A B. eapply Forall_impl; [|exact A]. intros x Hx. eapply Forall_impl; [|exact B]. intros y Hy.
  simpl in *. right; right; left. lia.
Qed.
Lemma all_disj_hi_lo z a b : ids_below z a -> ids_from z b -> all_disj b a.
Proof.
  intros A B. eapply Forall_impl; [|exact B]. intros y Hy. eapply Forall_impl; [|exact A]. intros x Hx.
  simpl in *. right; right; left. lia.
Qed.

Lemma new_bufs_spec : forall shape st st1 dv, shape_ok shape -> new_bufs st shape = (st1, dv) ->
  exists x, st1 = st ++ x /\ wf_view st1 dv /\ ids_from (zlen st) dv /\ ids_ok dv.
Proof.
  induction shape as [|n sh IH]; intros st st1 dv S E; simpl in E.
  - inversion E; subst. exists []. rewrite app_nil_r. repeat split; constructor.
  - inversion S as [|? ? Hn Hs]; subst. unfold new_buf in E.
    destruct (new_bufs (st ++ [pattern (zlen st) n]) sh) as [st2 v] eqn:R. inversion E; subst.
    destruct (IH _ _ _ Hs R) as (x & -> & W & I & O).
    exists ([pattern (zlen st) n] ++ x). rewrite app_assoc. split; [reflexivity|].
    rewrite zlen_app in I. assert (zlen [pattern (zlen st) n] = 1) by reflexivity.
    split; [constructor; auto; apply wf_elem_app; apply wf_new_elem; exact Hn|].
    split; [constructor; [simpl; lia | eapply Forall_impl; [|exact I]; simpl; intros; lia]|].
    unfold ids_ok in *. simpl. constructor; [|exact O]. intros HI. apply in_map_iff in HI. destruct HI as (y & Ey & Hy).
    eapply Forall_forall in I; [|exact Hy]. simpl in I. lia.
Qed.

Lemma sub_whole b : sub b 0 (zlen b) = b.
Proof. unfold sub, zlen. simpl. rewrite Nat2Z.id. apply firstn_all. Qed.

(* the operations that WRITE bytes into the vector under test; only they need its elements not to overlap *)
Definition writes_vector (o : op) : Prop :=
  match o with OMFrom _ | OMFromV _ _ | OPFromV _ _ => True | _ => False end.

(* ---------------------------------------------------------------- one step *)
Theorem step_refines_gen m o :
  wf_view (m_st m) (live (m_iv m)) -> (writes_vector o -> ids_ok (live (m_iv m))) -> args_ok o ->
  exists m1 ob, step m o = Some (m1, ob) /\
                (wf_view (m_st m1) (live (m_iv m1)) /\ (ids_ok (live (m_iv m)) -> ids_ok (live (m_iv m1)))) /\
                flat_spec o (m_own m) (mflat m) (mflat m1) (auxflat m1) (dstflat m1 ob) ob.
Proof.
  destruct m as [st own iv aux chunk]. unfold mflat, auxflat, dstflat; simpl. intros W HI A.
  pose proof (v_sum_refines st (live iv) W) as SUM. pose proof (zlen_nonneg (flatT st (live iv))) as FN.
  pose proof (wf_ids_below st _ W) as BEL.
  destruct o; simpl in A, HI; unfold step; cbn [m_st m_own m_iv m_aux m_chunk].
  - (* sum *) eexists _, _; split; [reflexivity|]. simpl. auto.
  - (* shrink *)
    assert (IDP : forall v' r, v_shrink_to (live iv) n = (v', r) -> ids_ok (live iv) -> ids_ok v').
    { unfold v_shrink_to. intros v' r E IDS. destruct (n =? 0); [inversion E; constructor|].
      destruct (shrink_loop (live iv) n) as [[v1 h] s1] eqn:R. destruct (shrink_loop_ids _ _ _ _ _ R) as [post P].
      destruct h; inversion E; subst; eapply ids_ok_prefix; eauto. }
    destruct own.
    + unfold o_shrink_to. destruct (v_shrink_to (live iv) n) as [v' r] eqn:E.
      destruct (v_shrink_to_refines st _ _ _ _ W A E) as (R & F & W' & D).
      destruct (r =? n) eqn:C.
      * eexists _, _; split; [reflexivity|]. simpl. rewrite <- SUM. pose proof (IDP _ _ eq_refl). auto.
      * apply Z.eqb_neq in C. destruct D as [D|D]; [contradiction|]. subst v'.
        assert (X : live iv ++ skipn (length (live iv)) (live iv) = live iv) by (rewrite skipn_all, app_nil_r; reflexivity).
        eexists _, _; split; [reflexivity|]. simpl. rewrite X, <- SUM. auto.
    + destruct (v_shrink_to (live iv) n) as [v' r] eqn:E.
      destruct (v_shrink_to_refines st _ _ _ _ W A E) as (R & F & W' & D).
      eexists _, _; split; [reflexivity|]. simpl. rewrite <- SUM. pose proof (IDP _ _ eq_refl). auto.
  - (* shrinklt *)
    destruct own; [eexists _, _; split; [reflexivity|]; simpl; auto|].
    destruct (v_shrink_less_than (live iv) n) as [v' r] eqn:E.
    destruct (v_shrink_less_than_refines st _ _ _ _ W A E) as (W' & [post P] & H0 & H1 & H2).
    eexists _, _; split; [reflexivity|]. simpl.
    split; [split; [exact W'|]; intros IDS; eapply ids_ok_prefix; [exact IDS|rewrite P, map_app; reflexivity]|].
    exists (flatT st post). split; [rewrite P, flatT_app; reflexivity|].
    split; [intros Z0; destruct (H0 Z0) as [-> _]; reflexivity|].
    split.
    + intros Hp Hle. rewrite <- SUM in Hle. destruct (H1 Hp Hle) as (S1 & R1 & _).
      rewrite <- (v_sum_refines st v' W'). auto.
    + intros Hlt. rewrite <- SUM in Hlt. destruct (H2 Hlt) as [-> ->]. auto.
  - (* trunc *)
    destruct own; [|eexists _, _; split; [reflexivity|]; simpl; auto].
    unfold o_truncate. destruct (n =? v_sum (live iv)) eqn:C0.
    { apply Z.eqb_eq in C0. eexists _, _; split; [reflexivity|]. simpl. split; [auto|].
      split; [lia|]. split; [lia|]. split; [intros _; rewrite firstn_whole by lia; reflexivity | intros _; exists []; rewrite app_nil_r; reflexivity]. }
    apply Z.eqb_neq in C0. unfold o_shrink_to. destruct (v_shrink_to (live iv) n) as [v' r0] eqn:E.
    destruct (v_shrink_to_refines st _ _ _ _ W A E) as (R & F & W' & D).
    assert (I' : ids_ok (live iv) -> ids_ok v').
    { intros IDS. revert E. unfold v_shrink_to. destruct (n =? 0); [intros E; inversion E; constructor|].
      destruct (shrink_loop (live iv) n) as [[v1 h] s1] eqn:RR. destruct (shrink_loop_ids _ _ _ _ _ RR) as [post P].
      destruct h; intros E; inversion E; subst; eapply ids_ok_prefix; eauto. }
    destruct (r0 =? n) eqn:C.
    + apply Z.eqb_eq in C. rewrite C. rewrite Z.eqb_refl. eexists _, _; split; [reflexivity|]. simpl. split; [auto|].
      rewrite F, C. assert (n <= zlen (flatT st (live iv))) by lia.
      split; [rewrite zlen_firstn; lia|]. split; [lia|]. split; [auto|]. intros Hle. exists []. rewrite app_nil_r. apply firstn_whole. lia.
    + apply Z.eqb_neq in C. destruct D as [D|D]; [contradiction|]. subst v'.
      assert (X : live iv ++ skipn (length (live iv)) (live iv) = live iv) by (rewrite skipn_all, app_nil_r; reflexivity).
      rewrite X. destruct (r0 =? n) eqn:C2; [apply Z.eqb_eq in C2; contradiction|].
      set (iv1 := upd_back iv (live iv)).
      destruct (o_push_back_alloc_spec chunk st iv1 (n - r0) W ltac:(lia)) as (st' & iv' & k & EA & Hk & (W2 & I2 & XX & LX & FX)).
      rewrite EA. eexists _, _; split; [reflexivity|]. simpl. split; [auto|]. simpl in FX. rewrite FX, zlen_app.
      split; [lia|]. split; [lia|]. split; [intros; lia|]. intros _. exists XX. reflexivity.
  - (* xf *)
    destruct (xf_discard_refines st (live iv) n W A) as (v' & rem & E & K & F & W' & L).
    pose proof (do_xf_ids cb_discard (live iv) n tt) as I. rewrite E in *.
    eexists _, _; split; [reflexivity|]. simpl. rewrite ?live_wfront, <- SUM. auto.
  - (* xfb *)
    unfold new_buf; cbv beta iota. destruct (xf_copy_refines st (live iv) n W A) as (v' & rem & st2 & pos & E & K & F & W' & Gd & L & Ag).
    pose proof (do_xf_ids (cb_copy_front (zlen st)) (live iv) n (st ++ [pattern (zlen st) n], 0)) as I. rewrite E in I.
    match goal with |- context [do_extract_front ?c ?v ?k ?a] =>
      replace (do_extract_front c v k a) with (XDone v' rem (st2, pos)) by (symmetry; exact E) end.
    eexists _, _; split; [reflexivity|]. simpl. rewrite ?live_wfront, <- SUM.
    split; [auto|]. split; [auto|]. split; [exact F|].
    exists (pattern (zlen st) n). split; [apply pattern_length; exact A|].
    rewrite flatT_single. unfold bytesT; simpl. rewrite Gd.
    set (b := firstn (Z.to_nat (n - rem)) (flatT st (live iv)) ++ skipn (Z.to_nat (n - rem)) (pattern (zlen st) n)).
    assert (Lb : zlen b = n).
    { unfold b. rewrite zlen_app, zlen_firstn, zlen_skipn; rewrite ?pattern_length; lia. }
    rewrite <- Lb at 1. apply sub_whole.
  - (* xfv *)
    destruct A as [A AN].
    destruct (own && (n =? 0)) eqn:C.
    + apply andb_true_iff in C. destruct C as [-> C]. apply Z.eqb_eq in C. subst n.
      eexists _, _; split; [reflexivity|]. simpl. rewrite flatT_nulls. split; [auto|]. right. repeat split; auto. lia.
    + destruct (if own then own_out_slots (mkM st own iv aux chunk) st iv N else (st, iv, Some N)) as [[st1 iv1] slots] eqn:OS.
      assert (X : exists x, st1 = st ++ x /\ live iv1 = live iv).
      { destruct own; [eapply own_out_slots_spec; eauto | inversion OS; subst; exists []; rewrite app_nil_r; auto]. }
      destruct X as (x & -> & Lv).
      pose proof (wf_view_app st x _ W) as W1. pose proof (flatT_app_store st x _ W) as F1.
      destruct slots as [N'|].
      * pose proof (xf_view_refines (st ++ x) (live iv) n N' W1 A) as G.
        pose proof (do_xf_ids (cb_view_front N') (live iv) n []) as I.
        destruct (do_extract_front (cb_view_front N') (live iv) n []) as [|v' a'|v' rem a']; [contradiction| |].
        -- destruct G as (P & W' & Wa & L). eexists _, _; split; [reflexivity|]. simpl. rewrite ?live_wfront.
           split; [auto|]. left. rewrite P, F1. auto.
        -- destruct G as (K & Fa & Fv & W' & Wa & L). eexists _, _; split; [reflexivity|]. simpl. rewrite ?live_wfront.
           split; [auto|]. right. rewrite Fa, Fv, F1, <- SUM. auto.
      * eexists _, _; split; [reflexivity|]. simpl. rewrite Lv. split; [auto|]. left. rewrite F1. auto.
  - (* xfc *)
    destruct (v_xfc (live iv) n) as [v' p] eqn:E.
    pose proof (v_xfc_refines st _ _ _ _ W A E) as G. destruct p as [[pid poff]|].
    + destruct G as (Ln & Wp & Bp & Fv & W' & L & [pre P]).
      eexists _, _; split; [reflexivity|]. simpl. rewrite ?live_wfront.
      split; [split; [exact W'|intros IDS; eapply ids_ok_suffix; eauto]|]. right.
      rewrite flatT_single, Bp, <- SUM. repeat split; auto. discriminate.
    + subst v'. destruct own; [|eexists _, _; split; [reflexivity|]; simpl; split; [auto|]; left; auto].
      destruct (v_sum (live iv) <? n) eqn:C; [eexists _, _; split; [reflexivity|]; simpl; split; [auto|]; left; auto|].
      apply Z.ltb_ge in C. unfold do_malloc. destruct (do_allocate chunk st iv n n) as [[st1 iv1] res] eqn:DA.
      destruct (do_allocate_spec _ _ _ _ _ _ _ _ DA) as (C1 & C2 & C3 & R).
      destruct res as [[d r]|].
      * destruct R as (-> & -> & Hr). assert (r = n) by lia. subst r.
        destruct (xf_copy_refines st (live iv) n W A) as (v' & rem & st2 & pos & EX & K & F & W' & Gd & L & Ag).
        pose proof (do_xf_ids (cb_copy_front (zlen st)) (live iv) n (st ++ [pattern (zlen st) n], 0)) as I. rewrite EX in I.
        match goal with |- context [do_extract_front ?c ?v ?k ?a] =>
          replace (do_extract_front c v k a) with (XDone v' rem (st2, pos)) by (symmetry; exact EX) end.
        eexists _, _; split; [reflexivity|]. simpl. split; [auto|]. right.
        assert (RM : n - rem = n) by lia. rewrite RM in *.
        split; [reflexivity|]. split; [discriminate|]. split; [lia|]. split; [|exact F].
        rewrite flatT_single. unfold bytesT; simpl. rewrite Gd.
        rewrite (skipn_whole n (pattern (zlen st) n)) by (rewrite pattern_length; lia). rewrite app_nil_r.
        set (b := firstn (Z.to_nat n) (flatT st (live iv))).
        assert (Lb : zlen b = n) by (unfold b; rewrite zlen_firstn; lia).
        rewrite <- Lb at 1. apply sub_whole.
      * subst st1. eexists _, _; split; [reflexivity|]. simpl. rewrite C3. split; [auto|]. left; auto.
  - (* xb *)
    destruct (xb_discard_refines st (live iv) n W A) as (v' & rem & E & K & F & W' & L).
    pose proof (do_xb_ids cb_discard (live iv) n tt) as I. rewrite E in *.
    eexists _, _; split; [reflexivity|]. simpl. rewrite ?live_wback, <- SUM. auto.
  - (* xbb *)
    unfold new_buf; cbv beta iota. destruct (xb_copy_refines st (live iv) n W A) as (v' & rem & st2 & pos & E & K & F & W' & Gd & L & Ag).
    pose proof (do_xb_ids (cb_copy_back (zlen st)) (live iv) n (st ++ [pattern (zlen st) n], n)) as I. rewrite E in I.
    match goal with |- context [do_extract_back ?c ?v ?k ?a] =>
      replace (do_extract_back c v k a) with (XDone v' rem (st2, pos)) by (symmetry; exact E) end.
    eexists _, _; split; [reflexivity|]. simpl. rewrite ?live_wback, <- SUM.
    split; [auto|]. split; [auto|]. split; [exact F|].
    exists (pattern (zlen st) n). split; [apply pattern_length; exact A|].
    rewrite flatT_single. unfold bytesT; simpl. rewrite Gd.
    replace (n - (n - rem)) with rem by lia.
    set (b := firstn (Z.to_nat rem) (pattern (zlen st) n) ++ skipn (Z.to_nat (v_sum (live iv) - (n - rem))) (flatT st (live iv))).
    assert (Lb : zlen b = n).
    { unfold b. rewrite zlen_app, zlen_firstn, zlen_skipn; rewrite ?pattern_length; lia. }
    rewrite <- Lb at 1. apply sub_whole.
  - (* xbv *)
    destruct A as [A AN].
    destruct (own && (n =? 0)) eqn:C.
    + apply andb_true_iff in C. destruct C as [-> C]. apply Z.eqb_eq in C. subst n.
      eexists _, _; split; [reflexivity|]. simpl. rewrite flatT_nulls. split; [auto|]. right.
      replace (Z.min 0 (zlen (flatT st (live iv)))) with 0 by lia. rewrite Z.sub_0_r.
      rewrite skipn_whole, firstn_whole by lia. auto.
    + destruct (if own then own_out_slots (mkM st own iv aux chunk) st iv N else (st, iv, Some N)) as [[st1 iv1] slots] eqn:OS.
      assert (X : exists x, st1 = st ++ x /\ live iv1 = live iv).
      { destruct own; [eapply own_out_slots_spec; eauto | inversion OS; subst; exists []; rewrite app_nil_r; auto]. }
      destruct X as (x & -> & Lv).
      pose proof (wf_view_app st x _ W) as W1. pose proof (flatT_app_store st x _ W) as F1.
      destruct slots as [N'|].
      * pose proof (xb_view_refines (st ++ x) (live iv) n N' W1 A) as G.
        pose proof (do_xb_ids (cb_view_back N') (live iv) n []) as I.
        destruct (do_extract_back (cb_view_back N') (live iv) n []) as [|v' a'|v' rem a']; [contradiction| |].
        -- destruct G as (P & W' & Wa & L). eexists _, _; split; [reflexivity|]. simpl. rewrite ?live_wback.
           split; [auto|]. left. rewrite P, F1. auto.
        -- destruct G as (K & Fa & Fv & W' & Wa & L). eexists _, _; split; [reflexivity|]. simpl. rewrite ?live_wback.
           split; [auto|]. right. rewrite Fa, Fv, F1, <- SUM. auto.
      * eexists _, _; split; [reflexivity|]. simpl. rewrite Lv. split; [auto|]. left. rewrite F1, app_nil_r. auto.
  - (* xbc *)
    destruct (v_xbc (live iv) n) as [v' p] eqn:E.
    pose proof (v_xbc_refines st _ _ _ _ W A E) as G. destruct p as [[pid poff]|].
    + destruct G as (Ln & Wp & Bp & Fv & W' & L & [post P]).
      eexists _, _; split; [reflexivity|]. simpl. rewrite ?live_wback.
      split; [split; [exact W'|intros IDS; eapply ids_ok_prefix; eauto]|]. right.
      rewrite flatT_single, Bp, <- SUM. repeat split; auto. discriminate.
    + subst v'. destruct own; [|eexists _, _; split; [reflexivity|]; simpl; split; [auto|]; left; auto].
      destruct (v_sum (live iv) <? n) eqn:C; [eexists _, _; split; [reflexivity|]; simpl; split; [auto|]; left; auto|].
      apply Z.ltb_ge in C. unfold do_malloc. destruct (do_allocate chunk st iv n n) as [[st1 iv1] res] eqn:DA.
      destruct (do_allocate_spec _ _ _ _ _ _ _ _ DA) as (C1 & C2 & C3 & R).
      destruct res as [[d r]|].
      * destruct R as (-> & -> & Hr). assert (r = n) by lia. subst r.
        destruct (xb_copy_refines st (live iv) n W A) as (v' & rem & st2 & pos & EX & K & F & W' & Gd & L & Ag).
        pose proof (do_xb_ids (cb_copy_back (zlen st)) (live iv) n (st ++ [pattern (zlen st) n], n)) as I. rewrite EX in I.
        match goal with |- context [do_extract_back ?c ?v ?k ?a] =>
          replace (do_extract_back c v k a) with (XDone v' rem (st2, pos)) by (symmetry; exact EX) end.
        eexists _, _; split; [reflexivity|]. simpl. split; [auto|]. right.
        assert (RM : rem = 0) by lia. rewrite RM in *. rewrite Z.sub_0_r in *.
        split; [reflexivity|]. split; [discriminate|]. split; [lia|]. rewrite <- SUM. split; [|exact F].
        rewrite flatT_single. unfold bytesT; simpl. rewrite Gd. simpl app.
        set (b := skipn (Z.to_nat (v_sum (live iv) - n)) (flatT st (live iv))).
        assert (Lb : zlen b = n) by (unfold b; rewrite zlen_skipn; lia).
        rewrite <- Lb at 1. apply sub_whole.
      * subst st1. eexists _, _; split; [reflexivity|]. simpl. rewrite C3. split; [auto|]. left; auto.
  - (* slice *)
    destruct A as (Ac & Ao & AN).
    destruct (own && (count =? 0)) eqn:C.
    + eexists _, _; split; [reflexivity|]. simpl. split; [auto|]. split; [reflexivity|]. right; left; reflexivity.
    + destruct (if own then own_out_slots (mkM st own iv aux chunk) st iv N else (st, iv, Some N)) as [[st1 iv1] slots] eqn:OS.
      assert (X : exists x, st1 = st ++ x /\ live iv1 = live iv).
      { destruct own; [eapply own_out_slots_spec; eauto | inversion OS; subst; exists []; rewrite app_nil_r; auto]. }
      destruct X as (x & -> & Lv).
      pose proof (wf_view_app st x _ W) as W1. pose proof (flatT_app_store st x _ W) as F1.
      destruct slots as [N'|].
      * pose proof (v_slice_refines (st ++ x) (live iv) count offset N' W1 Ac Ao) as G. cbv zeta in G.
        destruct (v_slice (live iv) count offset N') as [r [a|]].
        -- destruct G as (_ & Wa & Ra & Fa & _). eexists _, _; split; [reflexivity|]. simpl. rewrite Lv.
           split; [auto|]. split; [exact F1|]. right; right. rewrite <- F1. auto.
        -- destruct G as [_ ->]. eexists _, _; split; [reflexivity|]. simpl. rewrite Lv. split; [auto|]. split; [exact F1|]. left; reflexivity.
      * eexists _, _; split; [reflexivity|]. simpl. rewrite Lv. split; [auto|]. split; [exact F1|]. right; left; reflexivity.
  - (* mto *)
    unfold new_buf; cbv beta iota. set (d := zlen st). set (st1 := st ++ [pattern d n]).
    assert (Wd : wf_view st1 [mkiov d 0 n]) by (constructor; [apply wf_new_elem; exact A|constructor]).
    assert (W1 : wf_view st1 (live iv)) by (apply wf_view_app; exact W).
    assert (F1 : flatT st1 (live iv) = flatT st (live iv)) by (apply flatT_app_store; exact W).
    assert (FD : ids_from d [mkiov d 0 n]) by (constructor; [simpl; lia|constructor]).
    destruct (v_memcpy_iov_refines st1 [mkiov d 0 n] (live iv) n Wd W1 ltac:(repeat constructor) (all_disj_hi_lo d _ _ BEL FD) A)
      as (st2 & k & E & K & FDst & FR & WF & ZL).
    rewrite E. eexists _, _; split; [reflexivity|]. simpl.
    assert (FV : flatT st2 (live iv) = flatT st (live iv)).
    { rewrite (frame_view st1 st2 [mkiov d 0 n] (live iv) FR W1 (all_disj_lo_hi d _ _ BEL FD)). exact F1. }
    split; [split; [eapply Forall_impl; [|exact W1]; auto|auto]|]. split; [exact FV|].
    exists (flatT st1 [mkiov d 0 n]). rewrite FDst, F1.
    split; [|reflexivity]. rewrite K. rewrite <- (zlen_flatT st1 _ Wd), <- (zlen_flatT st1 _ W1), F1. reflexivity.
  - (* mfrom *)
    unfold new_buf; cbv beta iota. set (d := zlen st). set (st1 := st ++ [pattern d n]).
    assert (Wd : wf_view st1 [mkiov d 0 n]) by (constructor; [apply wf_new_elem; exact A|constructor]).
    assert (W1 : wf_view st1 (live iv)) by (apply wf_view_app; exact W).
    assert (F1 : flatT st1 (live iv) = flatT st (live iv)) by (apply flatT_app_store; exact W).
    assert (FD : ids_from d [mkiov d 0 n]) by (constructor; [simpl; lia|constructor]).
    destruct (v_memcpy_iov_refines st1 (live iv) [mkiov d 0 n] n W1 Wd (ids_ok_pairwise st1 _ W1 (HI I)) (all_disj_lo_hi d _ _ BEL FD) A)
      as (st2 & k & E & K & FDst & FR & WF & ZL).
    rewrite E. eexists _, _; split; [reflexivity|]. simpl.
    assert (FS : flatT st2 [mkiov d 0 n] = flatT st1 [mkiov d 0 n]).
    { apply (frame_view st1 st2 (live iv) [mkiov d 0 n] FR Wd (all_disj_hi_lo d _ _ BEL FD)). }
    split; [split; [eapply Forall_impl; [|exact W1]; auto|auto]|].
    rewrite FS, FDst, F1. split; [|reflexivity].
    rewrite K. rewrite <- (zlen_flatT st1 _ Wd), <- (zlen_flatT st1 _ W1), F1. reflexivity.
  - (* mtov *)
    destruct A as [Ash A]. destruct (new_bufs st shape) as [st1 dv] eqn:NB.
    destruct (new_bufs_spec _ _ _ _ Ash NB) as (x & -> & Wd & FD & Od). set (st1 := st ++ x) in *.
    assert (W1 : wf_view st1 (live iv)) by (apply wf_view_app; exact W).
    assert (F1 : flatT st1 (live iv) = flatT st (live iv)) by (apply flatT_app_store; exact W).
    destruct (v_memcpy_iov_refines st1 dv (live iv) n Wd W1 (ids_ok_pairwise st1 _ Wd Od) (all_disj_hi_lo _ _ _ BEL FD) A)
      as (st2 & k & E & K & FDst & FR & WF & ZL).
    rewrite E. eexists _, _; split; [reflexivity|]. simpl.
    assert (FV : flatT st2 (live iv) = flatT st (live iv)).
    { rewrite (frame_view st1 st2 dv (live iv) FR W1 (all_disj_lo_hi _ _ _ BEL FD)). exact F1. }
    split; [split; [eapply Forall_impl; [|exact W1]; auto|auto]|]. split; [exact FV|].
    exists (flatT st1 dv). rewrite FDst, F1.
    split; [|reflexivity]. rewrite K. rewrite <- (zlen_flatT st1 _ Wd), <- (zlen_flatT st1 _ W1), F1. reflexivity.
  - (* mfromv *)
    destruct A as [Ash A]. destruct (new_bufs st shape) as [st1 dv] eqn:NB.
    destruct (new_bufs_spec _ _ _ _ Ash NB) as (x & -> & Wd & FD & Od). set (st1 := st ++ x) in *.
    assert (W1 : wf_view st1 (live iv)) by (apply wf_view_app; exact W).
    assert (F1 : flatT st1 (live iv) = flatT st (live iv)) by (apply flatT_app_store; exact W).
    destruct (v_memcpy_iov_refines st1 (live iv) dv n W1 Wd (ids_ok_pairwise st1 _ W1 (HI I)) (all_disj_lo_hi _ _ _ BEL FD) A)
      as (st2 & k & E & K & FDst & FR & WF & ZL).
    rewrite E. eexists _, _; split; [reflexivity|]. simpl.
    assert (FS : flatT st2 dv = flatT st1 dv).
    { apply (frame_view st1 st2 (live iv) dv FR Wd (all_disj_hi_lo _ _ _ BEL FD)). }
    split; [split; [eapply Forall_impl; [|exact W1]; auto|auto]|].
    rewrite FS, FDst, F1. split; [|reflexivity].
    rewrite K. rewrite <- (zlen_flatT st1 _ Wd), <- (zlen_flatT st1 _ W1), F1. reflexivity.
  - (* pto *)
    unfold new_buf; cbv beta iota. set (d := zlen st). set (st1 := st ++ [pattern d n]).
    assert (Wd : wf_view st1 [mkiov d 0 n]) by (constructor; [apply wf_new_elem; exact A|constructor]).
    assert (W1 : wf_view st1 (live iv)) by (apply wf_view_app; exact W).
    assert (F1 : flatT st1 (live iv) = flatT st (live iv)) by (apply flatT_app_store; exact W).
    assert (FD : ids_from d [mkiov d 0 n]) by (constructor; [simpl; lia|constructor]).
    destruct (v_pipe_iov_refines st1 [mkiov d 0 n] (live iv) n Wd W1 ltac:(repeat constructor) (all_disj_hi_lo d _ _ BEL FD) A)
      as (st2 & v' & k & E & K & FDst & FR & WF & ZL & FS' & WS' & _).
    pose proof (v_pipe_iov_ids _ _ _ _ _ _ _ E) as I'.
    rewrite E. eexists _, _; split; [reflexivity|]. simpl. rewrite ?live_wfront.
    split; [auto|].
    exists (flatT st1 [mkiov d 0 n]). rewrite FDst, FS', F1.
    split; [|split; reflexivity]. rewrite K. rewrite <- (zlen_flatT st1 _ Wd), <- (zlen_flatT st1 _ W1), F1. reflexivity.
  - (* ptov *)
    destruct A as [Ash A]. destruct (new_bufs st shape) as [st1 dv] eqn:NB.
    destruct (new_bufs_spec _ _ _ _ Ash NB) as (x & -> & Wd & FD & Od). set (st1 := st ++ x) in *.
    assert (W1 : wf_view st1 (live iv)) by (apply wf_view_app; exact W).
    assert (F1 : flatT st1 (live iv) = flatT st (live iv)) by (apply flatT_app_store; exact W).
    destruct (v_pipe_iov_refines st1 dv (live iv) n Wd W1 (ids_ok_pairwise st1 _ Wd Od) (all_disj_hi_lo _ _ _ BEL FD) A)
      as (st2 & v' & k & E & K & FDst & FR & WF & ZL & FS' & WS' & _).
    pose proof (v_pipe_iov_ids _ _ _ _ _ _ _ E) as I'.
    rewrite E. eexists _, _; split; [reflexivity|]. simpl. rewrite ?live_wfront.
    split; [auto|].
    exists (flatT st1 dv). rewrite FDst, FS', F1.
    split; [|split; reflexivity]. rewrite K. rewrite <- (zlen_flatT st1 _ Wd), <- (zlen_flatT st1 _ W1), F1. reflexivity.
  - (* pfromv *)
    destruct A as [Ash A]. destruct (new_bufs st shape) as [st1 dv] eqn:NB.
    destruct (new_bufs_spec _ _ _ _ Ash NB) as (x & -> & Wd & FD & Od). set (st1 := st ++ x) in *.
    assert (W1 : wf_view st1 (live iv)) by (apply wf_view_app; exact W).
    assert (F1 : flatT st1 (live iv) = flatT st (live iv)) by (apply flatT_app_store; exact W).
    destruct (v_pipe_iov_refines st1 (live iv) dv n W1 Wd (ids_ok_pairwise st1 _ W1 (HI I)) (all_disj_lo_hi _ _ _ BEL FD) A)
      as (st2 & v' & k & E & K & FDst & FR & WF & ZL & FS' & WS' & _).
    rewrite E. eexists _, _; split; [reflexivity|]. simpl.
    assert (FS : flatT st2 dv = flatT st1 dv).
    { apply (frame_view st1 st2 (live iv) dv FR Wd (all_disj_hi_lo _ _ _ BEL FD)). }
    split; [split; [eapply Forall_impl; [|exact W1]; auto|auto]|].
    rewrite FS, FDst, FS', F1. split; [|split; reflexivity].
    rewrite K. rewrite <- (zlen_flatT st1 _ Wd), <- (zlen_flatT st1 _ W1), F1. reflexivity.
  - (* pushb *)
    destruct own; [|eexists _, _; split; [reflexivity|]; simpl; auto].
    unfold new_buf, o_push_back. pose proof (wf_view_app st [pattern (zlen st) size] _ W) as W1.
    pose proof (flatT_app_store st [pattern (zlen st) size] _ W) as F1.
    destruct (iend iv <? cap iv).
    + eexists _, _; split; [reflexivity|]. simpl. split; [split|].
      * apply Forall_app; split; [exact W1 | constructor; [apply wf_new_elem; exact A | constructor]].
      * intros IDS. unfold ids_ok in *. rewrite map_app. simpl.
        apply NoDup_rev in IDS. rewrite <- (rev_involutive (map iv_id (live iv) ++ [zlen st])). apply NoDup_rev.
        rewrite rev_app_distr. simpl. constructor; [|exact IDS]. rewrite <- in_rev. intros HI2. apply in_map_iff in HI2.
        destruct HI2 as (y & Ey & Hy). eapply Forall_forall in BEL; [|exact Hy]. simpl in BEL. lia.
      * right. split; [reflexivity|]. eexists; split; [|rewrite flatT_app, F1; reflexivity].
        rewrite flatT_single. apply (zlen_bytesT _ _ (wf_new_elem st size A)).
    + eexists _, _; split; [reflexivity|]. simpl. split; [auto|]. left; auto.
  - (* pushf *)
    destruct own; [|eexists _, _; split; [reflexivity|]; simpl; auto].
    unfold new_buf, o_push_front. pose proof (wf_view_app st [pattern (zlen st) size] _ W) as W1.
    pose proof (flatT_app_store st [pattern (zlen st) size] _ W) as F1.
    destruct (0 <? ibeg iv).
    + eexists _, _; split; [reflexivity|]. simpl. split; [split|].
      * constructor; [apply wf_new_elem; exact A | exact W1].
      * intros IDS. unfold ids_ok in *. simpl. constructor; [|exact IDS]. intros HI2. apply in_map_iff in HI2.
        destruct HI2 as (y & Ey & Hy). eapply Forall_forall in BEL; [|exact Hy]. simpl in BEL. lia.
      * right. split; [reflexivity|]. eexists; split; [|rewrite flatT_cons, F1; reflexivity].
        apply (zlen_bytesT _ _ (wf_new_elem st size A)).
    + eexists _, _; split; [reflexivity|]. simpl. split; [auto|]. left; auto.
  - (* pushba *)
    destruct own; [|eexists _, _; split; [reflexivity|]; simpl; auto].
    destruct (o_push_back_alloc_spec chunk st iv bytes W A) as (st' & iv' & k & EA & Hk & (W2 & I2 & XX & LX & FX)).
    rewrite EA. eexists _, _; split; [reflexivity|]. simpl. split; [auto|]. split; [lia|]. exists XX. auto.
  - (* pushfa *)
    destruct own; [|eexists _, _; split; [reflexivity|]; simpl; auto].
    destruct (o_push_front_alloc_spec chunk st iv bytes W A) as (st' & iv' & k & EA & Hk & (W2 & I2 & XX & LX & FX)).
    rewrite EA. eexists _, _; split; [reflexivity|]. simpl. split; [auto|]. split; [lia|]. exists XX. auto.
  - (* popf *)
    destruct own; [|eexists _, _; split; [reflexivity|]; simpl; auto].
    unfold o_pop_front. destruct (live iv) as [|e r] eqn:Lv.
    + eexists _, _; split; [reflexivity|]. simpl. rewrite Lv. split; [split; constructor|]. simpl. split; [unfold zlen; simpl; lia|reflexivity].
    + apply wf_view_cons in W. destruct W as [We Wr]. eexists _, _; split; [reflexivity|]. simpl.
      split; [split; [exact Wr|intros IDS; unfold ids_ok in *; simpl in IDS; inversion IDS; auto]|].
      rewrite flatT_cons, zlen_app, (zlen_bytesT _ _ We). pose proof (wf_len_nonneg _ _ We). pose proof (zlen_nonneg (flatT st r)).
      split; [lia|]. rewrite skipn_app_Z2 by (rewrite (zlen_bytesT _ _ We); lia). rewrite (zlen_bytesT _ _ We), Z.sub_diag. reflexivity.
  - (* popb *)
    destruct own; [|eexists _, _; split; [reflexivity|]; simpl; auto].
    unfold o_pop_back. destruct (rev (live iv)) as [|e r] eqn:Lv.
    + eexists _, _; split; [reflexivity|]. simpl. split; [auto|]. split; [lia|]. rewrite Z.sub_0_r, firstn_whole by lia. reflexivity.
    + assert (LL : live iv = rev r ++ [e]) by (rewrite <- (rev_involutive (live iv)), Lv; reflexivity).
      rewrite LL in W. apply Forall_app in W. destruct W as [Wr We]. inversion We as [|? ? We1 _]; subst.
      eexists _, _; split; [reflexivity|]. simpl.
      split; [split; [exact Wr|intros IDS; rewrite LL in IDS; eapply ids_ok_prefix; [exact IDS|rewrite map_app; reflexivity]]|].
      rewrite LL, flatT_app, flatT_single, zlen_app, (zlen_bytesT _ _ We1).
      pose proof (wf_len_nonneg _ _ We1). pose proof (zlen_nonneg (flatT st (rev r))).
      split; [lia|]. replace (zlen (flatT st (rev r)) + iv_len e - iv_len e) with (zlen (flatT st (rev r))) by lia.
      rewrite firstn_app_Z by lia. rewrite firstn_whole by lia. reflexivity.
  - (* clear *)
    destruct own; eexists _, _; (split; [reflexivity|]); simpl; auto. split; [split; constructor|reflexivity].
  - (* xfo *)
    destruct A as (A & Arf).
    destruct own; [|eexists _, _; split; [reflexivity|]; simpl; auto].
    destruct (n =? 0) eqn:C.
    + apply Z.eqb_eq in C. subst n. eexists _, _; split; [reflexivity|]. simpl. split; [auto|]. right.
      replace (Z.min 0 (zlen (flatT st (live iv)))) with 0 by lia. auto.
    + destruct (cap2 - rf2 <? zlen (live iv)) eqn:GD.
      { eexists _, _; split; [reflexivity|]. simpl. split; [auto|]. left; auto. }
      apply Z.ltb_ge in GD. unfold xfo_body.
      pose proof (xf_view_refines st (live iv) n (zlen (live iv)) W A) as G.
      pose proof (do_xf_ids (cb_view_front (zlen (live iv))) (live iv) n []) as I.
      pose proof (proj1 (extract_view_enough_slots (zlen (live iv)) (live iv) n ltac:(lia))) as EN.
      pose proof (zlen_nonneg (live iv)) as Lnn.
      destruct (do_extract_front (cb_view_front (zlen (live iv))) (live iv) n []) as [|v' a'|v' rem a'] eqn:EX; [contradiction|contradiction|].
      destruct G as (K & Fa & Fv & W' & Wa & L).
      assert (LA : zlen a' <= zlen (live iv)).
      { clear - EX. revert EX. unfold do_extract_front. destruct (n =? 0); [intros E; inversion E; subst; unfold zlen; simpl; lia|].
        intros E. pose proof (cb_view_len (zlen (live iv)) (live iv) n [] ltac:(unfold zlen; simpl; lia)) as H. rewrite E in H. exact H. }
      destruct (cap2 <? rf2 + zlen a') eqn:C2; [apply Z.ltb_lt in C2; lia|].
      eexists _, _; split; [reflexivity|]. simpl. split; [auto|]. right. rewrite Fa, Fv, <- SUM. auto.
  - (* xbo *)
    destruct A as (A & Arf).
    destruct own; [|eexists _, _; split; [reflexivity|]; simpl; auto].
    destruct (n =? 0) eqn:C.
    + apply Z.eqb_eq in C. subst n. eexists _, _; split; [reflexivity|]. simpl. split; [auto|]. right.
      replace (Z.min 0 (zlen (flatT st (live iv)))) with 0 by lia. rewrite Z.sub_0_r, skipn_whole, firstn_whole by lia. auto.
    + destruct (cap2 - rf2 <? zlen (live iv)) eqn:GD.
      { eexists _, _; split; [reflexivity|]. simpl. split; [auto|]. left; auto. }
      apply Z.ltb_ge in GD. unfold xbo_body.
      pose proof (xb_view_refines st (live iv) n (zlen (live iv)) W A) as G.
      pose proof (do_xb_ids (cb_view_back (zlen (live iv))) (live iv) n []) as I.
      pose proof (proj2 (extract_view_enough_slots (zlen (live iv)) (live iv) n ltac:(lia))) as EN.
      pose proof (zlen_nonneg (live iv)) as Lnn.
      destruct (do_extract_back (cb_view_back (zlen (live iv))) (live iv) n []) as [|v' a'|v' rem a'] eqn:EX; [contradiction|contradiction|].
      destruct G as (K & Fa & Fv & W' & Wa & L).
      destruct (cap2 <? rf2 + zlen (live iv)) eqn:C2; [apply Z.ltb_lt in C2; lia|].
      simpl andb.
      eexists _, _; split; [reflexivity|]. simpl. split; [auto|]. right. rewrite Fa, Fv, <- SUM. auto.
Qed.

(* the form with the machine invariant (elements in bounds, no two in the same buffer) *)
Theorem step_refines m o : wf_machine m -> args_ok o ->
  exists m1 ob, step m o = Some (m1, ob) /\ wf_machine m1 /\
                flat_spec o (m_own m) (mflat m) (mflat m1) (auxflat m1) (dstflat m1 ob) ob.
Proof.
  intros [W I] A. destruct (step_refines_gen m o W (fun _ => I) A) as (m1 & ob & E & [W1 I1] & FS).
  exists m1, ob. split; [exact E|]. split; [split; auto|exact FS].
Qed.
(* operations that do not write into the vector need NO side condition beyond "elements lie in their buffers":
   elements may share buffers, overlap, repeat *)
Theorem step_refines_reads m o : wf_view (m_st m) (live (m_iv m)) -> ~ writes_vector o -> args_ok o ->
  exists m1 ob, step m o = Some (m1, ob) /\ wf_view (m_st m1) (live (m_iv m1)) /\
                flat_spec o (m_own m) (mflat m) (mflat m1) (auxflat m1) (dstflat m1 ob) ob.
Proof.
  intros W NW A. destruct (step_refines_gen m o W (fun w => False_ind _ (NW w)) A) as (m1 & ob & E & [W1 _] & FS).
  exists m1, ob. auto.
Qed.

(* ---------------------------------------------------------------- sequences *)
Inductive refines : machine -> list op -> list obs -> machine -> Prop :=
| R_nil m : refines m [] [] m
| R_cons m o ob m1 ops obs m2 :
    step m o = Some (m1, ob) -> wf_view (m_st m1) (live (m_iv m1)) -> m_own m1 = m_own m ->
    flat_spec o (m_own m) (mflat m) (mflat m1) (auxflat m1) (dstflat m1 ob) ob ->
    refines m1 ops obs m2 -> refines m (o :: ops) (ob :: obs) m2.

Lemma step_own m o m1 ob : step m o = Some (m1, ob) -> m_own m1 = m_own m.
Proof.
  destruct m as [st own iv aux chunk]. unfold step; cbn [m_st m_own m_iv m_aux m_chunk].
  destruct o; intros E;
    repeat match type of E with
           | context [match ?x with _ => _ end] => destruct x; try discriminate
           | context [if ?x then _ else _] => destruct x; try discriminate
           end; unfold ret_only in E; inversion E; reflexivity.
Qed.

(* every operation list, all 29 operations *)
Theorem ops_refine_flat : forall ops m, wf_machine m -> Forall args_ok ops ->
  exists m' obs, run m ops = Some (m', obs) /\ wf_machine m' /\ refines m ops obs m'.
Proof.
  induction ops as [|o ops IH]; intros m W A.
  - exists m, []. repeat split; auto; try apply W. constructor.
  - inversion A as [|? ? Ao Ar]; subst.
    destruct (step_refines m o W Ao) as (m1 & ob & E & W1 & FS).
    pose proof (step_own _ _ _ _ E) as OW.
    destruct (IH m1 W1 Ar) as (m2 & obs & R & W2 & RF).
    exists m2, (ob :: obs). simpl. rewrite E, R. repeat split; auto; try apply W2. econstructor; eauto. apply W1.
Qed.
(* every list of operations that do not write into the vector (everything except memcpy_from / pipe_from):
   no side condition on how the elements are laid out in memory *)
Theorem ops_refine_flat_reads : forall ops m, wf_view (m_st m) (live (m_iv m)) -> Forall args_ok ops ->
  Forall (fun o => ~ writes_vector o) ops ->
  exists m' obs, run m ops = Some (m', obs) /\ wf_view (m_st m') (live (m_iv m')) /\ refines m ops obs m'.
Proof.
  induction ops as [|o ops IH]; intros m W A NW.
  - exists m, []. repeat split; auto. constructor.
  - inversion A as [|? ? Ao Ar]; inversion NW as [|? ? No Nr]; subst.
    destruct (step_refines_reads m o W No Ao) as (m1 & ob & E & W1 & FS).
    pose proof (step_own _ _ _ _ E) as OW.
    destruct (IH m1 W1 Ar Nr) as (m2 & obs & R & W2 & RF).
    exists m2, (ob :: obs). simpl. rewrite E, R. repeat split; auto. econstructor; eauto.
Qed.

(* ---------------------------------------------------------------- F2: the unfixed iov_iterator constructor *)
(* memcpy_to(buf, n) / pipe_to(&view, n) on a vector with no elements reads iov[0] out of bounds *)
Theorem no_oob_prefix_refuted :
  exists (st : store) (v : view) (n : Z), wf_view st v /\ 0 <= n /\
    old_memcpy_to st v n = None /\ old_pipe_to_view st v [] n = None.
Proof. exists [], [], 1. repeat split; try constructor; try lia; discriminate. Qed.
(* the fixed constructor: the same calls return 0 and touch nothing *)
Example fixed_ctor_empty :
  step (init_machine false 0 0 1 []) (OMTo 3) <> None /\ step (init_machine false 0 0 1 []) (OPToV [] 3) <> None /\
  step (init_machine true 8 2 64 []) (OMFromV [] 3) <> None.
Proof. repeat split; vm_compute; discriminate. Qed.

(* ---------------------------------------------------------------- F36: extract_front/back(bytes, iovector ptr) without the capacity guard *)
(* a destination vector with fewer free slots than the source has elements: the out slots leave iovs[capacity] *)
Theorem no_oob_extract_into_refuted :
  exists (st : store) (v : view) (n cap2 rf2 : Z), wf_view st v /\ 0 <= n /\ 0 <= rf2 <= cap2 /\
    old_extract_front_into v n cap2 rf2 = None /\ old_extract_back_into v n cap2 rf2 = None.
Proof.
  exists [[1; 2]; [3; 4]; [5; 6]], [mkiov 0 0 2; mkiov 1 0 2; mkiov 2 0 2], 6, 2, 0.
  split; [repeat constructor; (eexists; split; [reflexivity|]; unfold zlen; simpl; lia)|].
  repeat split; try lia; vm_compute; reflexivity.
Qed.
(* the fixed wrappers return -1 and touch nothing *)
Example fixed_extract_into :
  (match step (init_machine true 8 0 64 [2; 2; 2]) (OXFO 6 2 0) with Some (m1, ob) => o_ret ob = -1 /\ live (m_iv m1) = live (m_iv (init_machine true 8 0 64 [2; 2; 2])) | None => False end) /\
  (match step (init_machine true 8 0 64 [2; 2; 2]) (OXBO 6 2 0) with Some (m1, ob) => o_ret ob = -1 | None => False end).
Proof. split; vm_compute; auto. Qed.

(* a non-trivial machine meeting the hypotheses of the theorems: 3 elements, one of length 0 *)
Example wf_machine_example : wf_machine (init_machine true 8 2 64 [2; 0; 3]) /\ wf_machine (init_machine false 0 0 1 [2; 0; 3]).
Proof.
  split.
  - set (m := init_machine true 8 2 64 [2; 0; 3]). vm_compute in m. subst m. unfold wf_machine; simpl m_st; simpl live. split.
    + repeat constructor; (eexists; split; [reflexivity|]; unfold zlen; simpl; lia).
    + unfold ids_ok; simpl. repeat constructor; simpl; intuition discriminate.
  - set (m := init_machine false 0 0 1 [2; 0; 3]). vm_compute in m. subst m. unfold wf_machine; simpl m_st; simpl live. split.
    + repeat constructor; (eexists; split; [reflexivity|]; unfold zlen; simpl; lia).
    + unfold ids_ok; simpl. repeat constructor; simpl; intuition discriminate.
Qed.
Example ops_example :
  Forall args_ok [OTrunc 9; OXFC 4; OPushFA 3; OXFO 2 8 1; OXF 1; OXFV 3 4; OPushB 2; OXBV 2 0; OMFromV [1; 0; 2] 3; OSlice 2 1 0; OPToV [2; 2] 9; OShrink 1; OPopF; OSum].
Proof. repeat constructor; simpl; lia. Qed.
(* hypotheses of ops_refine_flat_reads: elements that overlap, repeat and share one buffer are fine *)
Example reads_example :
  wf_view [[1; 2; 3]] [mkiov 0 0 2; mkiov 0 1 2; mkiov 0 0 0; mkiov 0 0 3; mkiov 0 1 2] /\
  Forall (fun o => ~ writes_vector o) [OXF 1; OMToV [2; 1] 4; OSlice 2 1 3; OXBB 5; OPToV [0; 9] 7; OTrunc 20].
Proof.
  split; [repeat constructor; (eexists; split; [reflexivity|]; unfold zlen; simpl; lia)|].
  repeat constructor; simpl; auto.
Qed.
