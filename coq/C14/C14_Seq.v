(* C14 — the test machine: every supported step refines the flat-byte-string operation, keeps the
   machine well formed and never leaves a buffer (step <> None); sequences by induction. *)
From Coq Require Import ZArith List Bool Lia.
From PV Require Import C14.C14_Model C14.C14_Lib C14.C14_Proofs.
Import ListNotations.
Local Open Scope Z_scope.

Definition wf_machine (m : machine) : Prop := wf_view (m_st m) (live (m_iv m)).
Definition mflat (m : machine) : list byte := flatT (m_st m) (live (m_iv m)).
Definition auxflat (m : machine) : list byte := flatT (m_st m) (m_aux m).

(* size_t arguments are non-negative *)
Definition args_ok (o : op) : Prop :=
  match o with
  | OShrink n | OXF n | OXB n | OXFB n | OXBB n | OPushB n | OPushF n => 0 <= n
  | OXFV n N | OXBV n N => 0 <= n /\ 0 <= N
  | _ => True
  end.
(* operations covered by the sequence theorem proved so far *)
Definition supported (o : op) : Prop :=
  match o with
  | OSum | OShrink _ | OXF _ | OXB _ | OXFV _ _ | OXBV _ _ | OPopF | OPopB | OClear | OPushB _ | OPushF _ => True
  | _ => False
  end.

(* the operation on the flat byte string F of the vector: F' = flat string afterwards,
   G' = flat string of the out view afterwards, ob = what the call returned *)
Definition flat_spec (o : op) (own : bool) (F F' G' : list byte) (ob : obs) : Prop :=
  let r := o_ret ob in
  match o with
  | OSum => r = zlen F /\ F' = F
  | OShrink n => r = Z.min n (zlen F) /\ F' = firstn (Z.to_nat r) F
  | OXF n => r = Z.min n (zlen F) /\ F' = skipn (Z.to_nat r) F
  | OXB n => r = Z.min n (zlen F) /\ F' = firstn (Z.to_nat (zlen F - r)) F
  | OXFV n N => (r = -1 /\ G' ++ F' = F) \/
                (r = Z.min n (zlen F) /\ G' = firstn (Z.to_nat r) F /\ F' = skipn (Z.to_nat r) F)
  | OXBV n N => (r = -1 /\ F' ++ G' = F) \/
                (r = Z.min n (zlen F) /\ G' = skipn (Z.to_nat (zlen F - r)) F /\ F' = firstn (Z.to_nat (zlen F - r)) F)
  | OPopF => if own then 0 <= r <= zlen F /\ F' = skipn (Z.to_nat r) F else r = NA /\ F' = F
  | OPopB => if own then 0 <= r <= zlen F /\ F' = firstn (Z.to_nat (zlen F - r)) F else r = NA /\ F' = F
  | OClear => if own then F' = [] else r = NA /\ F' = F
  | OPushB s => if own then (r = 0 /\ F' = F) \/ (r = s /\ exists X, zlen X = s /\ F' = F ++ X) else r = NA /\ F' = F
  | OPushF s => if own then (r = 0 /\ F' = F) \/ (r = s /\ exists X, zlen X = s /\ F' = X ++ F) else r = NA /\ F' = F
  | _ => True
  end.

Lemma live_wfront m v' : live (wfront m v') = v'.
Proof. unfold wfront; destruct (m_own m); reflexivity. Qed.
Lemma live_wback m v' : live (wback m v') = v'.
Proof. unfold wback; destruct (m_own m); reflexivity. Qed.

Lemma own_out_slots_spec m st iv N st1 iv1 slots :
  own_out_slots m st iv N = (st1, iv1, slots) -> exists x, st1 = st ++ x /\ live iv1 = live iv.
Proof.
  unfold own_out_slots, do_malloc, do_allocate, new_buf. intros H.
  destruct (N =? 0).
  - destruct (cap iv <=? nbases iv); [inversion H; subst; exists []; rewrite app_nil_r; auto|].
    destruct (Z.min (zlen (live iv) * IOVEC_SIZE) (m_chunk m) <? zlen (live iv) * IOVEC_SIZE);
      inversion H; subst; [exists []; rewrite app_nil_r; auto | eexists; split; reflexivity].
  - inversion H; subst; exists []; rewrite app_nil_r; auto.
Qed.

Lemma flatT_nulls st N : flatT st (nulls N) = [].
Proof.
  unfold nulls. induction (Z.to_nat N) as [|k IH]; [reflexivity|]. simpl repeat. rewrite flatT_cons, IH.
  unfold bytesT, null_iov; simpl. reflexivity.
Qed.

Theorem step_refines m o : wf_machine m -> supported o -> args_ok o ->
  exists m1 ob, step m o = Some (m1, ob) /\ wf_machine m1 /\
                flat_spec o (m_own m) (mflat m) (mflat m1) (auxflat m1) ob.
Proof.
  destruct m as [st own iv aux chunk]. unfold wf_machine, mflat, auxflat; simpl. intros W S A.
  pose proof (v_sum_refines st (live iv) W) as SUM. pose proof (zlen_nonneg (flatT st (live iv))) as FN.
  destruct o; try contradiction; simpl in A; unfold step; cbn [m_st m_own m_iv m_aux m_chunk].
  - (* sum *) eexists _, _; split; [reflexivity|]. simpl. auto.
  - (* shrink *)
    destruct own.
    + unfold o_shrink_to. destruct (v_shrink_to (live iv) n) as [v' r] eqn:E.
      destruct (v_shrink_to_refines st _ _ _ _ W A E) as (R & F & W' & D).
      destruct (r =? n) eqn:C.
      * eexists _, _; split; [reflexivity|]. simpl. rewrite <- SUM. auto.
      * apply Z.eqb_neq in C. destruct D as [D|D]; [contradiction|]. subst v'.
        assert (X : live iv ++ skipn (length (live iv)) (live iv) = live iv) by (rewrite skipn_all, app_nil_r; reflexivity).
        eexists _, _; split; [reflexivity|]. simpl. rewrite X, <- SUM. auto.
    + destruct (v_shrink_to (live iv) n) as [v' r] eqn:E.
      destruct (v_shrink_to_refines st _ _ _ _ W A E) as (R & F & W' & D).
      eexists _, _; split; [reflexivity|]. simpl. rewrite ?live_wback, <- SUM. auto.
  - (* xf *)
    destruct (xf_discard_refines st (live iv) n W A) as (v' & rem & E & K & F & W' & L). rewrite E.
    eexists _, _; split; [reflexivity|]. simpl. rewrite ?live_wfront, <- SUM. auto.
  - (* xfv *)
    destruct A as [A AN].
    destruct (own && (n =? 0)) eqn:C.
    + apply andb_true_iff in C. destruct C as [-> C]. apply Z.eqb_eq in C. subst n.
      eexists _, _; split; [reflexivity|]. simpl. rewrite flatT_nulls. split; [exact W|]. right. repeat split; auto. lia.
    + destruct (if own then own_out_slots (mkM st own iv aux chunk) st iv N else (st, iv, Some N)) as [[st1 iv1] slots] eqn:OS.
      assert (X : exists x, st1 = st ++ x /\ live iv1 = live iv).
      { destruct own; [eapply own_out_slots_spec; eauto | inversion OS; subst; exists []; rewrite app_nil_r; auto]. }
      destruct X as (x & -> & Lv).
      pose proof (wf_view_app st x _ W) as W1. pose proof (flatT_app_store st x _ W) as F1.
      destruct slots as [N'|].
      * pose proof (xf_view_refines (st ++ x) (live iv) n N' W1 A) as G.
        destruct (do_extract_front (cb_view_front N') (live iv) n []) as [|v' a'|v' rem a']; [contradiction| |].
        -- destruct G as (P & W' & Wa & L). eexists _, _; split; [reflexivity|]. simpl. rewrite ?live_wfront.
           split; [exact W'|]. left. rewrite P, F1. auto.
        -- destruct G as (K & Fa & Fv & W' & Wa & L). eexists _, _; split; [reflexivity|]. simpl. rewrite ?live_wfront.
           split; [exact W'|]. right. rewrite Fa, Fv, F1, <- SUM. auto.
      * eexists _, _; split; [reflexivity|]. simpl. rewrite Lv. split; [exact W1|]. left. rewrite F1. auto.
  - (* xb *)
    destruct (xb_discard_refines st (live iv) n W A) as (v' & rem & E & K & F & W' & L). rewrite E.
    eexists _, _; split; [reflexivity|]. simpl. rewrite ?live_wback, <- SUM. auto.
  - (* xbv *)
    destruct A as [A AN].
    destruct (own && (n =? 0)) eqn:C.
    + apply andb_true_iff in C. destruct C as [-> C]. apply Z.eqb_eq in C. subst n.
      eexists _, _; split; [reflexivity|]. simpl. rewrite flatT_nulls. split; [exact W|]. right.
      replace (Z.min 0 (zlen (flatT st (live iv)))) with 0 by lia. rewrite Z.sub_0_r.
      rewrite skipn_whole, firstn_whole by lia. auto.
    + destruct (if own then own_out_slots (mkM st own iv aux chunk) st iv N else (st, iv, Some N)) as [[st1 iv1] slots] eqn:OS.
      assert (X : exists x, st1 = st ++ x /\ live iv1 = live iv).
      { destruct own; [eapply own_out_slots_spec; eauto | inversion OS; subst; exists []; rewrite app_nil_r; auto]. }
      destruct X as (x & -> & Lv).
      pose proof (wf_view_app st x _ W) as W1. pose proof (flatT_app_store st x _ W) as F1.
      destruct slots as [N'|].
      * pose proof (xb_view_refines (st ++ x) (live iv) n N' W1 A) as G.
        destruct (do_extract_back (cb_view_back N') (live iv) n []) as [|v' a'|v' rem a']; [contradiction| |].
        -- destruct G as (P & W' & Wa & L). eexists _, _; split; [reflexivity|]. simpl. rewrite ?live_wback.
           split; [exact W'|]. left. rewrite P, F1. auto.
        -- destruct G as (K & Fa & Fv & W' & Wa & L). eexists _, _; split; [reflexivity|]. simpl. rewrite ?live_wback.
           split; [exact W'|]. right. rewrite Fa, Fv, F1, <- SUM. auto.
      * eexists _, _; split; [reflexivity|]. simpl. rewrite Lv. split; [exact W1|]. left. rewrite F1, app_nil_r. auto.
  - (* pushb *)
    destruct own; [|eexists _, _; split; [reflexivity|]; simpl; auto].
    unfold new_buf, o_push_back. pose proof (wf_view_app st [pattern (zlen st) size] _ W) as W1.
    pose proof (flatT_app_store st [pattern (zlen st) size] _ W) as F1.
    destruct (iend iv <? cap iv).
    + eexists _, _; split; [reflexivity|]. simpl. split.
      * apply Forall_app; split; [exact W1 | constructor; [apply wf_new_elem; exact A | constructor]].
      * right. split; [reflexivity|]. eexists; split; [|rewrite flatT_app, F1; reflexivity].
        rewrite flatT_single. apply (zlen_bytesT _ _ (wf_new_elem st size A)).
    + eexists _, _; split; [reflexivity|]. simpl. split; [exact W1|]. left; auto.
  - (* pushf *)
    destruct own; [|eexists _, _; split; [reflexivity|]; simpl; auto].
    unfold new_buf, o_push_front. pose proof (wf_view_app st [pattern (zlen st) size] _ W) as W1.
    pose proof (flatT_app_store st [pattern (zlen st) size] _ W) as F1.
    destruct (0 <? ibeg iv).
    + eexists _, _; split; [reflexivity|]. simpl. split.
      * constructor; [apply wf_new_elem; exact A | exact W1].
      * right. split; [reflexivity|]. eexists; split; [|rewrite flatT_cons, F1; reflexivity].
        apply (zlen_bytesT _ _ (wf_new_elem st size A)).
    + eexists _, _; split; [reflexivity|]. simpl. split; [exact W1|]. left; auto.
  - (* popf *)
    destruct own; [|eexists _, _; split; [reflexivity|]; simpl; auto].
    unfold o_pop_front. destruct (live iv) as [|e r] eqn:Lv.
    + eexists _, _; split; [reflexivity|]. simpl. rewrite Lv. split; [constructor|]. simpl. split; [unfold zlen; simpl; lia|reflexivity].
    + apply wf_view_cons in W. destruct W as [We Wr]. eexists _, _; split; [reflexivity|]. simpl. split; [exact Wr|].
      rewrite flatT_cons, zlen_app, (zlen_bytesT _ _ We). pose proof (wf_len_nonneg _ _ We). pose proof (zlen_nonneg (flatT st r)).
      split; [lia|]. rewrite skipn_app_Z2 by (rewrite (zlen_bytesT _ _ We); lia). rewrite (zlen_bytesT _ _ We), Z.sub_diag. reflexivity.
  - (* popb *)
    destruct own; [|eexists _, _; split; [reflexivity|]; simpl; auto].
    unfold o_pop_back. destruct (rev (live iv)) as [|e r] eqn:Lv.
    + eexists _, _; split; [reflexivity|]. simpl. split; [exact W|]. split; [lia|]. rewrite Z.sub_0_r, firstn_whole by lia. reflexivity.
    + assert (LL : live iv = rev r ++ [e]) by (rewrite <- (rev_involutive (live iv)), Lv; reflexivity).
      rewrite LL in W. apply Forall_app in W. destruct W as [Wr We]. inversion We as [|? ? We1 _]; subst.
      eexists _, _; split; [reflexivity|]. simpl. split; [exact Wr|].
      rewrite LL, flatT_app, flatT_single, zlen_app, (zlen_bytesT _ _ We1).
      pose proof (wf_len_nonneg _ _ We1). pose proof (zlen_nonneg (flatT st (rev r))).
      split; [lia|]. replace (zlen (flatT st (rev r)) + iv_len e - iv_len e) with (zlen (flatT st (rev r))) by lia.
      rewrite firstn_app_Z by lia. rewrite firstn_whole by lia. reflexivity.
  - (* clear *)
    destruct own; eexists _, _; (split; [reflexivity|]); simpl; auto. split; [constructor|reflexivity].
Qed.

(* sequences *)
Inductive refines : machine -> list op -> list obs -> machine -> Prop :=
| R_nil m : refines m [] [] m
| R_cons m o ob m1 ops obs m2 :
    step m o = Some (m1, ob) -> wf_machine m1 ->
    flat_spec o (m_own m) (mflat m) (mflat m1) (auxflat m1) ob ->
    refines m1 ops obs m2 -> refines m (o :: ops) (ob :: obs) m2.

(* FULL statement (all operations): kept as a Prop until the copy/pipe/slice/continuous lemmas are assembled *)
Definition ops_refine_flat_statement : Prop :=
  forall ops m, wf_machine m -> Forall args_ok ops ->
    exists m' obs, run m ops = Some (m', obs) /\ wf_machine m' /\ refines m ops obs m'.

Theorem ops_refine_flat_partial : forall ops m, wf_machine m -> Forall supported ops -> Forall args_ok ops ->
  exists m' obs, run m ops = Some (m', obs) /\ wf_machine m' /\ refines m ops obs m'.
Proof.
  induction ops as [|o ops IH]; intros m W S A.
  - exists m, []. repeat split; auto. constructor.
  - inversion S as [|? ? So Sr]; inversion A as [|? ? Ao Ar]; subst.
    destruct (step_refines m o W So Ao) as (m1 & ob & E & W1 & FS).
    destruct (IH m1 W1 Sr Ar) as (m2 & obs & R & W2 & RF).
    exists m2, (ob :: obs). simpl. rewrite E, R. repeat split; auto. econstructor; eauto.
Qed.

(* ---------------------------------------------------------------- F2: the unfixed iov_iterator constructor *)
(* memcpy_to(buf, n) / pipe_to(&view, n) on a vector with no elements reads iov[0] out of bounds *)
Theorem no_oob_prefix_refuted :
  exists (st : store) (v : view) (n : Z), wf_view st v /\ 0 <= n /\
    old_memcpy_to st v n = None /\ old_pipe_to_view st v [] n = None.
Proof. exists [], [], 1. repeat split; try constructor; try lia; discriminate. Qed.
(* the fixed constructor: the same calls return 0 and touch nothing *)
Example fixed_ctor_empty :
  step (init_machine false 0 0 1 []) (OMTo 3) <> None /\ step (init_machine false 0 0 1 []) (OPToV [] 3) <> None /\
  step (init_machine true 8 2 64 []) (OMFromV [] 3) <> None.
Proof. repeat split; vm_compute; discriminate. Qed.

(* a non-trivial machine meeting the hypotheses of the theorems: 3 elements, one of length 0 *)
Example wf_machine_example : wf_machine (init_machine true 8 2 64 [2; 0; 3]) /\ wf_machine (init_machine false 0 0 1 [2; 0; 3]).
Proof.
  split.
  - set (m := init_machine true 8 2 64 [2; 0; 3]). vm_compute in m. subst m. unfold wf_machine; simpl m_st; simpl live.
    repeat constructor; (eexists; split; [reflexivity|]; unfold zlen; simpl; lia).
  - set (m := init_machine false 0 0 1 [2; 0; 3]). vm_compute in m. subst m. unfold wf_machine; simpl m_st; simpl live.
    repeat constructor; (eexists; split; [reflexivity|]; unfold zlen; simpl; lia).
Qed.
Example ops_example :
  Forall supported [OXF 1; OXFV 3 4; OPushB 2; OXBV 2 0; OShrink 1; OPopF; OSum] /\
  Forall args_ok [OXF 1; OXFV 3 4; OPushB 2; OXBV 2 0; OShrink 1; OPopF; OSum].
Proof. split; repeat constructor; simpl; lia. Qed.
