(* clauses (c) slp2, (d), (e) *)
From Coq Require Import ZArith List Bool Arith Lia.
From PV Require Import Base.U64 C01.C01_Model C01.C01_Tac C01.C01_Excl C01.C01_Inv2.
Import ListNotations.
Local Open Scope Z_scope.

Lemma i2_slp2_step s l s' : inv2 s -> step s l = Some s' ->
  forall t m, st (th s' t) = SLEEPING -> pcwait (pc (th s' t)) m = true -> In t (wqm (mx s' m)).
Proof.
  intros H Hs. step_cases Hs; try (apply (i2_slp2 _ H)); intros t0 m0;
    pose proof (i2_slp2 _ H t0 m0); pose proof (i2_slp2 _ H a m0); pose proof (i2_slp1 _ H t0);
    pose proof (i2_slp1 _ H a); gfin.
  all: try (apply In_snoc; gsolve).
  all: try (apply In_rm_neq; gsolve).
Qed.

Lemma i2_pi3_step s l s' : inv2 s -> step s l = Some s' ->
  forall t x, is_PI3 (pc (th s' t)) x = true -> st (th s' x) = SLEEPING.
Proof.
  intros H Hs. step_cases Hs; try (apply (i2_pi3 _ H)); intros t0 x0;
    pose proof (i2_pi3 _ H t0 x0); pose proof (i2_pi3 _ H a x0);
    pose proof (i2_tl _ H t0 x0); pose proof (i2_tl _ H a x0); pose proof (i2_xp _ H x0);
    pose proof (i2_slp1 _ H x0); gfin.
  all: tlfacts; try (intros ->); gsolve.
Qed.

Lemma i2_u_step s l s' : inv2 s -> step s l = Some s' ->
  forall t m x, uhead (pc (th s' t)) m = Some x -> hd_error (wqm (mx s' m)) = Some x.
Proof.
  intros H Hs. step_cases Hs; try (apply (i2_u _ H)); intros t0 m0 x0;
    pose proof (i2_u _ H t0 m0 x0); pose proof (i2_u _ H a m0 x0);
    pose proof (i2_tl _ H t0 x0); pose proof (i2_tl _ H a x0); pose proof (i2_xp _ H x0); gfin.
  all: try (apply hd_app; gsolve).
  all: try (apply hd_rm; gsolve).
  all: tlfacts; try (intros ->); gsolve.
Qed.
