(* C01_Own.v — the full-strength statements about ownership as they were written down BEFORE the F33
   repair (guarded by the idealisation `aintr s = true`), and the fact that the switch is a constant
   of a run.  They are now PROVED, without the guard (C01_Own3.v: `*_holds`), from the invariants
   own_inv (C01_Cls.v, C01_J1-J4.v, C01_Own2.v) and live_inv / wit_inv (C01_Live.v, C01_K1-K2.v). *)
From Coq Require Import ZArith List Bool Arith Lia.
From PV Require Import Base.U64 C01.C01_Model C01.C01_Tac C01.C01_Excl C01.C01_Inv2 C01.C01_I2.
Import ListNotations.
Local Open Scope Z_scope.

Definition kz1 := pcwait.

(* the idealisation switch is a constant of the run *)
Lemma a_setT s t r : aintr (setT s t r) = aintr s. Proof. reflexivity. Qed.
Lemma a_setM s m r : aintr (setM s m r) = aintr s. Proof. reflexivity. Qed.
Lemma a_goto s t p : aintr (goto s t p) = aintr s. Proof. reflexivity. Qed.
Lemma a_acquired s t m rc : aintr (acquired s t m rc) = aintr s.
Proof. unfold acquired. destruct rc; reflexivity. Qed.
Lemma a_ret_lock s t c r e : aintr (ret_lock s t c r e) = aintr s.
Proof. unfold ret_lock. rewrite a_goto. destruct (r =? 0); [apply a_acquired|reflexivity]. Qed.
Lemma a_dequeue s x ns : aintr (dequeue s x ns) = aintr s.
Proof. unfold dequeue. destruct (wq (th s x)); reflexivity. Qed.
Lemma a_prelocked s a x e : aintr (prelocked_interrupt s a x e) = aintr s.
Proof. unfold prelocked_interrupt. rewrite a_dequeue. reflexivity. Qed.
Lemma a_after_sleep s t k r e : aintr (after_sleep s t k r e) = aintr s.
Proof. unfold after_sleep. destruct k; [|reflexivity]. destruct ((r <? 0) && (e =? -1)); [reflexivity|]. destruct (r =? 0); apply a_ret_lock. Qed.
Lemma a_intr_out s t x e lk : aintr (intr_out s t x e lk) = aintr s.
Proof.
  unfold intr_out. destruct (aintr s) eqn:E.
  - rewrite a_goto. destruct (tstate_eqb (st (th s x)) READY && (err (th s x) =? 0)); [rewrite a_setT|]; exact E.
  - destruct (tstate_eqb (st (th s x)) READY); rewrite a_goto; exact E.
Qed.
Ltac ar := repeat first [rewrite a_goto | rewrite a_ret_lock | rewrite a_after_sleep | rewrite a_intr_out | rewrite a_prelocked
                        | rewrite a_dequeue | rewrite a_acquired | rewrite a_setT | rewrite a_setM]; try reflexivity.
Lemma aintr_step s l s' : step s l = Some s' -> aintr s' = aintr s.
Proof.
  intros Hs. destruct l; cbn [step] in Hs.
  - unfold start in Hs. destruct (pc (th s t)); try discriminate. destruct o; split_ifs Hs; try discriminate; injection Hs as <-; ar.
  - unfold tstep in Hs. cbv zeta in Hs. destruct (pc (th s t)); unfold try_lock in Hs; split_ifs Hs; try discriminate;
      injection Hs as <-; ar.
  - unfold sched in Hs. split_ifs Hs; try discriminate; injection Hs as <-; ar.
  - unfold drain in Hs. split_ifs Hs; try discriminate; injection Hs as <-; ar.
  - unfold exp_lock in Hs. split_ifs Hs; try discriminate; injection Hs as <-; ar.
  - unfold exp_body in Hs. split_ifs Hs; try discriminate; injection Hs as <-; ar.
  - split_ifs Hs; try discriminate; injection Hs as <-; reflexivity.
Qed.

(* the full-strength statements (proved in C01_Own3.v, even without the `aintr s = true` guard) *)
Definition lock_result_iff_owner : Prop :=
  forall s, reachable s -> aintr s = true -> forall t m r e,
    pc (th s t) = PRet (RLock m) r e ->
    (r = 0 <-> owner (mx s m) = Some t) /\ (r <> 0 -> wq (th s t) = None /\ forall m', ~ In t (wqm (mx s m'))).
Definition mutex_excl : Prop :=
  forall s, reachable s -> aintr s = true -> forall m t1 t2,
    (cnt (th s t1) m > 0)%nat -> (cnt (th s t2) m > 0)%nat -> t1 = t2.
Definition not_stuck : Prop :=
  forall s, reachable s -> aintr s = true -> forall m,
    owner (mx s m) = None -> wqm (mx s m) <> [] ->
    exists t, (exists x, pc (th s t) = PUint m x) \/
              (kz1 (pc (th s t)) m = true /\ wq (th s t) = None /\ err (th s t) = -1) \/
              (exists c, lm c = m /\ (pc (th s t) = PS1 (SLock c) \/ pc (th s t) = PS2 (SLock c) (-1) \/
                                      pc (th s t) = PLchk c \/ pc (th s t) = PLspl c \/ pc (th s t) = PLcas2 c)).
