(* C01_Own.v — tier 2, clause (f): who may be the owner.  Needs aintr = true. *)
From Coq Require Import ZArith List Bool Arith Lia.
From PV Require Import Base.U64 C01.C01_Model C01.C01_Tac C01.C01_Excl C01.C01_Inv2 C01.C01_I2.
Import ListNotations.
Local Open Scope Z_scope.

(* classes of program points with respect to mutex m *)
Definition kmust := must.
Definition knot (p : pc_t) (m : mid) : bool :=
  match p with
  | PY1 (YLock c _) | PY2 (YLock c _) | PYw (YLock c _) | PY3 (YLock c _) => on c m
  | PL0 c | PLcas1 c _ | PLspl c | PLcas2 c | PLexp c | PLto c | PLenq c => on c m
  | PT0 m' _ | PUint m' _ | PUrel m' _ | PUunspl m' => Nat.eqb m' m
  | _ => false
  end.
Definition kz1 := pcwait.
Definition kz2 (p : pc_t) (m : mid) : bool := match p with PS1 (SLock c) => on c m | _ => false end.
Definition kz3 (p : pc_t) (m : mid) : option Z := match p with PS2 (SLock c) e => if on c m then Some e else None | _ => None end.
Definition kz4 (p : pc_t) (m : mid) : bool := match p with PLchk c => on c m | _ => false end.
Definition kfree (p : pc_t) (m : mid) : bool :=
  negb (kmust p m || knot p m || kz1 p m || kz2 p m || (match kz3 p m with Some _ => true | None => false end) || kz4 p m).

Definition handoff_pending (s : state) (m : mid) (t : tid) : Prop :=
  match tlock (th s t) with Some (HT u) => pc (th s u) = PUint m t | _ => False end.

Record inv3_at (s : state) (t : tid) (m : mid) : Prop := mkInv3 {
  i3_free : kfree (pc (th s t)) m = true -> (owner (mx s m) = Some t <-> (cnt (th s t) m > 0)%nat);
  i3_must : kmust (pc (th s t)) m = true -> owner (mx s m) = Some t /\ cnt (th s t) m = O;
  i3_not : knot (pc (th s t)) m = true -> owner (mx s m) <> Some t /\ cnt (th s t) m = O;
  i3_z1 : kz1 (pc (th s t)) m = true ->
          cnt (th s t) m = O /\ (owner (mx s m) = Some t -> In t (wqm (mx s m)) \/ err (th s t) = -1);
  i3_z2 : kz2 (pc (th s t)) m = true -> cnt (th s t) m = O /\ (owner (mx s m) = Some t -> err (th s t) = -1);
  i3_z3 : forall e, kz3 (pc (th s t)) m = Some e -> cnt (th s t) m = O /\ (owner (mx s m) = Some t -> e = -1);
  i3_z4 : kz4 (pc (th s t)) m = true -> cnt (th s t) m = O;
  i3_a : owner (mx s m) = Some t -> In t (wqm (mx s m)) -> handoff_pending s m t;
  i3_rc : recursive (mx s m) = true -> owner (mx s m) = Some t -> rcnt (mx s m) = Z.of_nat (cnt (th s t) m);
  i3_rc0 : owner (mx s m) = None \/ recursive (mx s m) = false -> rcnt (mx s m) = 0
}.
Definition inv3 (s : state) : Prop := forall t m, inv3_at s t m.

Lemma inv3_init s : is_init s -> inv3 s.
Proof.
  intros (nw & re & ct & rc & v & ai & ->) t m.
  constructor; cbn; intros; try congruence; try lia; try tauto; try discriminate.
  split; intros; [congruence|lia].
Qed.

Lemma pcwait_classes p m : pcwait p m = true ->
  kfree p m = false /\ kmust p m = false /\ knot p m = false /\ kz2 p m = false /\ kz3 p m = None /\ kz4 p m = false.
Proof.
  unfold kfree, kmust, kz1, kz2, kz3, kz4, knot, must, pcwait.
  destruct p; try discriminate; try (destruct k; try discriminate); intros H; rewrite ?H; cbn; auto 10.
Qed.

(* the idealisation switch is a constant of the run *)
Lemma a_setT s t r : aintr (setT s t r) = aintr s. Proof. reflexivity. Qed.
Lemma a_setM s m r : aintr (setM s m r) = aintr s. Proof. reflexivity. Qed.
Lemma a_goto s t p : aintr (goto s t p) = aintr s. Proof. reflexivity. Qed.
Lemma a_acquired s t m rc : aintr (acquired s t m rc) = aintr s.
Proof. unfold acquired. destruct rc; reflexivity. Qed.
Lemma a_ret_lock s t c r e : aintr (ret_lock s t c r e) = aintr s.
Proof. unfold ret_lock. rewrite a_goto. destruct (r =? 0); [apply a_acquired|reflexivity]. Qed.
Lemma a_dequeue s x ns : aintr (dequeue s x ns) = aintr s.
Proof. unfold dequeue. destruct (wq (th s x)); reflexivity. Qed.
Lemma a_prelocked s a x e : aintr (prelocked_interrupt s a x e) = aintr s.
Proof. unfold prelocked_interrupt. rewrite a_dequeue. reflexivity. Qed.
Lemma a_after_sleep s t k r e : aintr (after_sleep s t k r e) = aintr s.
Proof. unfold after_sleep. destruct k; [|reflexivity]. destruct ((r <? 0) && (e =? -1)); [reflexivity|]. destruct (r =? 0); apply a_ret_lock. Qed.
Lemma a_intr_out s t x e lk : aintr (intr_out s t x e lk) = aintr s.
Proof.
  unfold intr_out. destruct (aintr s) eqn:E.
  - rewrite a_goto. destruct (tstate_eqb (st (th s x)) READY && (err (th s x) =? 0)); [rewrite a_setT|]; exact E.
  - destruct (tstate_eqb (st (th s x)) READY); rewrite a_goto; exact E.
Qed.
Ltac ar := repeat first [rewrite a_goto | rewrite a_ret_lock | rewrite a_after_sleep | rewrite a_intr_out | rewrite a_prelocked
                        | rewrite a_dequeue | rewrite a_acquired | rewrite a_setT | rewrite a_setM]; try reflexivity.
Lemma aintr_step s l s' : step s l = Some s' -> aintr s' = aintr s.
Proof.
  intros Hs. destruct l; cbn [step] in Hs.
  - unfold start in Hs. destruct (pc (th s t)); try discriminate. destruct o; split_ifs Hs; try discriminate; injection Hs as <-; ar.
  - unfold tstep in Hs. cbv zeta in Hs. destruct (pc (th s t)); unfold try_lock in Hs; split_ifs Hs; try discriminate;
      injection Hs as <-; ar.
  - unfold sched in Hs. split_ifs Hs; try discriminate; injection Hs as <-; ar.
  - unfold drain in Hs. split_ifs Hs; try discriminate; injection Hs as <-; ar.
  - unfold exp_lock in Hs. split_ifs Hs; try discriminate; injection Hs as <-; ar.
  - unfold exp_body in Hs. split_ifs Hs; try discriminate; injection Hs as <-; ar.
  - split_ifs Hs; try discriminate; injection Hs as <-; reflexivity.
Qed.

(* to do: the preservation of inv3 under aintr = true; see notes/C01.md *)
Definition inv3_preserved : Prop :=
  forall s l s', inv1 s -> inv2 s -> aintr s = true -> inv3 s -> step s l = Some s' -> inv3 s'.
(* the full-strength statements that inv3 yields (kept as Definitions: not proved yet) *)
Definition lock_result_iff_owner : Prop :=
  forall s, reachable s -> aintr s = true -> forall t m r e,
    pc (th s t) = PRet (RLock m) r e ->
    (r = 0 <-> owner (mx s m) = Some t) /\ (r <> 0 -> wq (th s t) = None /\ forall m', ~ In t (wqm (mx s m'))).
Definition mutex_excl : Prop :=
  forall s, reachable s -> aintr s = true -> forall m t1 t2,
    (cnt (th s t1) m > 0)%nat -> (cnt (th s t2) m > 0)%nat -> t1 = t2.
Definition not_stuck : Prop :=
  forall s, reachable s -> aintr s = true -> forall m,
    owner (mx s m) = None -> wqm (mx s m) <> [] ->
    exists t, (exists x, pc (th s t) = PUint m x) \/
              (kz1 (pc (th s t)) m = true /\ wq (th s t) = None /\ err (th s t) = -1) \/
              (exists c, lm c = m /\ (pc (th s t) = PS1 (SLock c) \/ pc (th s t) = PS2 (SLock c) (-1) \/
                                      pc (th s t) = PLchk c \/ pc (th s t) = PLspl c \/ pc (th s t) = PLcas2 c)).
