(* C01_Own.v — tier 2, clause (f): who may be the owner.  Needs aintr = true. *)
From Coq Require Import ZArith List Bool Arith Lia.
From PV Require Import Base.U64 C01.C01_Model C01.C01_Tac C01.C01_Excl C01.C01_Inv2 C01.C01_I2.
Import ListNotations.
Local Open Scope Z_scope.

(* classes of program points with respect to mutex m *)
Definition kmust := must.
Definition knot (p : pc_t) (m : mid) : bool :=
  match p with
  | PY1 (YLock c _) | PY2 (YLock c _) | PYw (YLock c _) | PY3 (YLock c _) => on c m
  | PL0 c | PLcas1 c _ | PLspl c | PLcas2 c | PLexp c | PLto c | PLenq c => on c m
  | PT0 m' _ | PUint m' _ | PUrel m' _ | PUunspl m' => Nat.eqb m' m
  | _ => false
  end.
Definition kz1 := pcwait.
Definition kz2 (p : pc_t) (m : mid) : bool := match p with PS1 (SLock c) => on c m | _ => false end.
Definition kz3 (p : pc_t) (m : mid) : option Z := match p with PS2 (SLock c) e => if on c m then Some e else None | _ => None end.
Definition kz4 (p : pc_t) (m : mid) : bool := match p with PLchk c => on c m | _ => false end.
Definition kfree (p : pc_t) (m : mid) : bool :=
  negb (kmust p m || knot p m || kz1 p m || kz2 p m || (match kz3 p m with Some _ => true | None => false end) || kz4 p m).

Definition handoff_pending (s : state) (m : mid) (t : tid) : Prop :=
  match tlock (th s t) with Some (HT u) => pc (th s u) = PUint m t | _ => False end.

Record inv3_at (s : state) (t : tid) (m : mid) : Prop := mkInv3 {
  i3_free : kfree (pc (th s t)) m = true -> (owner (mx s m) = Some t <-> (cnt (th s t) m > 0)%nat);
  i3_must : kmust (pc (th s t)) m = true -> owner (mx s m) = Some t /\ cnt (th s t) m = O;
  i3_not : knot (pc (th s t)) m = true -> owner (mx s m) <> Some t /\ cnt (th s t) m = O;
  i3_z1 : kz1 (pc (th s t)) m = true ->
          cnt (th s t) m = O /\ (owner (mx s m) = Some t -> In t (wqm (mx s m)) \/ err (th s t) = -1);
  i3_z2 : kz2 (pc (th s t)) m = true -> cnt (th s t) m = O /\ (owner (mx s m) = Some t -> err (th s t) = -1);
  i3_z3 : forall e, kz3 (pc (th s t)) m = Some e -> cnt (th s t) m = O /\ (owner (mx s m) = Some t -> e = -1);
  i3_z4 : kz4 (pc (th s t)) m = true -> cnt (th s t) m = O;
  i3_a : owner (mx s m) = Some t -> In t (wqm (mx s m)) -> handoff_pending s m t;
  i3_rc : recursive (mx s m) = true -> owner (mx s m) = Some t -> rcnt (mx s m) = Z.of_nat (cnt (th s t) m);
  i3_rc0 : owner (mx s m) = None \/ recursive (mx s m) = false -> rcnt (mx s m) = 0
}.
Definition inv3 (s : state) : Prop := forall t m, inv3_at s t m.

Lemma inv3_init s : is_init s -> inv3 s.
Proof.
  intros (nw & re & ct & rc & v & ai & ->) t m.
  constructor; cbn; intros; try congruence; try lia; try tauto; try discriminate.
  split; intros; [congruence|lia].
Qed.

Lemma pcwait_classes p m : pcwait p m = true ->
  kfree p m = false /\ kmust p m = false /\ knot p m = false /\ kz2 p m = false /\ kz3 p m = None /\ kz4 p m = false.
Proof.
  unfold kfree, kmust, kz1, kz2, kz3, kz4, knot, must, pcwait.
  destruct p; try discriminate; try (destruct k; try discriminate); intros H; rewrite ?H; cbn; auto 10.
Qed.

Lemma aintr_step s l s' : step s l = Some s' -> aintr s' = aintr s.
Proof.
  intros Hs. destruct l; cbn [step] in Hs.
  - unfold start in Hs. destruct (pc (th s t)); try discriminate. destruct o; split_ifs Hs; try discriminate; injection Hs as <-; reflexivity.
  - unfold tstep in Hs. cbv zeta in Hs. destruct (pc (th s t)); unfold try_lock in Hs; split_ifs Hs; try discriminate;
      injection Hs as <-; unfold ret_lock, after_sleep, intr_out, acquired, prelocked_interrupt, dequeue, goto, setT, setM;
      cbn [aintr]; repeat match goal with |- context [if ?b then _ else _] => destruct b | |- context [match ?b with _ => _ end] => destruct b end; cbn [aintr]; reflexivity.
  - unfold sched in Hs. split_ifs Hs; try discriminate; injection Hs as <-; reflexivity.
  - unfold drain in Hs. split_ifs Hs; try discriminate; injection Hs as <-; reflexivity.
  - unfold exp_lock in Hs. split_ifs Hs; try discriminate; injection Hs as <-; reflexivity.
  - unfold exp_body in Hs. split_ifs Hs; try discriminate; injection Hs as <-; unfold dequeue, setT, setM; cbn [aintr];
      repeat match goal with |- context [match ?b with _ => _ end] => destruct b end; cbn [aintr]; reflexivity.
  - split_ifs Hs; try discriminate; injection Hs as <-; reflexivity.
Qed.
