(* C01_Mcs.v — mcs_excl: exclusion of photon::qspinlock for any number of OS threads, every
   interleaving.  Invariant: the chain-from-tail invariant over the ghost list q_chain (participants
   that have put their holder into _owner_tail and not yet released, oldest first). *)
From Coq Require Import ZArith List Bool Arith Lia.
From PV Require Import Base.U64 E3.E3_Run C01.C01_Spin_Model C01.C01_Spin_Proofs.
Import ListNotations.

Inductive qsl_reach (scr : nat -> list sop) : qsl -> Prop :=
| qr_init : qsl_reach scr (qsl_init scr)
| qr_step s p fl : qsl_reach scr s -> qsl_reach scr (fst (qsl_step s p fl)).

Definition pcq (s : qsl) (p : nat) : option qpc := t_pc (q_th s p).
Definition insq (s : qsl) (p : nat) : bool := t_ins (q_th s p).

(* a -> b are consecutive in the chain *)
Definition link (s : qsl) (a b : nat) : Prop :=
  (q_next s a = Some b /\ pcq s b = Some QSpin) \/
  (q_next s a = None /\ (pcq s b = Some (QStGot a) \/ pcq s b = Some (QStNext a))) \/
  (q_next s a = None /\ pcq s a = Some (QUstGot b) /\ pcq s b = Some QSpin).
(* b is queued behind somebody *)
Definition waiter_ok (s : qsl) (b : nat) : Prop :=
  insq s b = false /\ (pcq s b = Some QSpin -> q_got s b = false) /\
  (forall o, pcq s b = Some (QStNext o) -> q_got s b = false).
Fixpoint links (s : qsl) (a : nat) (l : list nat) : Prop :=
  match l with
  | [] => q_next s a = None
  | b :: r => link s a b /\ waiter_ok s b /\ links s b r
  end.
Definition head_ok (s : qsl) (h : nat) (r : list nat) : Prop :=
  match pcq s h with
  | None | Some QUld => insq s h = true
  | Some QUld2 | Some QUcas => insq s h = false
  | Some (QUstNext x) => insq s h = false /\ hd_error r = Some x /\ q_next s h = Some x
  | Some (QUstGot x) => insq s h = false /\ hd_error r = Some x /\ q_next s h = None /\ pcq s x = Some QSpin
  | Some QSpin => insq s h = false /\ q_got s h = true
  | _ => False
  end.
Definition out_ok (s : qsl) (p : nat) : Prop :=
  q_next s p = None /\ insq s p = false /\
  (pcq s p = None \/ pcq s p = Some QXg \/ pcq s p = Some QTry).
Definition chain_ok (s : qsl) : Prop :=
  match q_chain s with
  | [] => q_tail s = None
  | h :: r => head_ok s h r /\ links s h r /\ q_tail s = Some (last r h)
  end.
Definition qsl_inv (s : qsl) : Prop :=
  chain_ok s /\ NoDup (q_chain s) /\ forall p, ~ In p (q_chain s) -> out_ok s p.

(* ---- frame: links / waiter_ok only look at the members ---------------------------------- *)
Definition same_at (s s' : qsl) (p : nat) : Prop :=
  q_next s' p = q_next s p /\ q_got s' p = q_got s p /\ q_th s' p = q_th s p.
Lemma link_frame s s' a b : same_at s s' a -> same_at s s' b -> link s a b -> link s' a b.
Proof.
  unfold link, pcq. intros (A1 & A2 & A3) (B1 & B2 & B3). rewrite A1, A3, B3. tauto.
Qed.
Lemma waiter_frame s s' b : same_at s s' b -> waiter_ok s b -> waiter_ok s' b.
Proof. unfold waiter_ok, pcq, insq. intros (B1 & B2 & B3). rewrite B2, B3. tauto. Qed.
Lemma links_frame s s' l : forall a, (forall x, In x (a :: l) -> same_at s s' x) -> links s a l -> links s' a l.
Proof.
  induction l as [|b r IH]; intros a H; cbn.
  - destruct (H a (or_introl eq_refl)) as (A1 & _). now rewrite A1.
  - intros (L & W & R). split; [|split].
    + apply (link_frame s); auto; apply H; cbn; auto.
    + apply (waiter_frame s); auto; apply H; cbn; auto.
    + apply IH; auto. intros x Hx. apply H. now right.
Qed.

Lemma last_indep (l : list nat) x a b : last (x :: l) a = last (x :: l) b.
Proof. revert x. induction l as [|y l IH]; intros x; cbn; [reflexivity|]. apply IH. Qed.
Lemma last_cons (r : list nat) h d : last (h :: r) d = last r h.
Proof. destruct r as [|n r]; [reflexivity|]. change (last (n :: r) d = last (n :: r) h). apply last_indep. Qed.
Lemma links_last s l : forall a, links s a l -> q_next s (last l a) = None.
Proof. induction l as [|b r IH]; intros a; cbn; [auto|]. intros (_ & _ & R). destruct r; [exact R|]. apply IH in R. rewrite (last_indep _ _ a b). exact R. Qed.
(* members behind the head are waiters *)
Lemma links_member s l : forall a x, links s a l -> In x l ->
  waiter_ok s x /\ (pcq s x = Some QSpin \/ exists o, pcq s x = Some (QStGot o) \/ pcq s x = Some (QStNext o)).
Proof.
  induction l as [|b r IH]; intros a x; cbn; [tauto|]. intros (L & W & R) [<-|Hx].
  - split; [exact W|]. destruct L as [[_ H]|[[_ [H|H]]|[_ [_ H]]]]; eauto.
  - eapply IH; eauto.
Qed.
Lemma links_snoc s l : forall a p, links s a l -> link s (last l a) p -> waiter_ok s p -> q_next s p = None ->
  links s a (l ++ [p]).
Proof.
  induction l as [|b r IH]; intros a p; cbn.
  - auto.
  - intros (L & W & R) Hl Hw Hn. split; [exact L|split; [exact W|]]. apply IH; auto.
    destruct r; [exact Hl|]. rewrite (last_indep _ _ b a). exact Hl.
Qed.
Lemma last_nodup_single (h : nat) r : NoDup (h :: r) -> last r h = h -> r = [].
Proof.
  intros Hn Hl. destruct r as [|b r]; [reflexivity|]. exfalso.
  inversion Hn as [|? ? Hh _]; subst. apply Hh.
  assert (In (last (b :: r) h) (b :: r)).
  { clear. revert b. induction r as [|c r IH]; intros b; cbn; [auto|]. right. apply IH. }
  rewrite Hl in H. exact H.
Qed.
Lemma last_app_single (l : list nat) p a : last (l ++ [p]) a = p.
Proof. induction l as [|b r IH]; cbn; [reflexivity|]. destruct (r ++ [p]) eqn:E; [destruct r; discriminate|]. exact IH. Qed.

Lemma qdone_ok t i :
  t_ins (thr_done qentry t i) = i /\
  (t_pc (thr_done qentry t i) = None \/ (i = true /\ t_pc (thr_done qentry t i) = Some QUld)
   \/ (i = false /\ (t_pc (thr_done qentry t i) = Some QXg \/ t_pc (thr_done qentry t i) = Some QTry))).
Proof.
  unfold thr_done. destruct (next_pc qentry (t_scr t) i) as [p r] eqn:E. cbn. split; [reflexivity|].
  destruct p as [p|]; [|auto]. right.
  apply next_pc_spec in E. destruct E as (o & -> & Ho). destruct o, i; cbn; intuition congruence.
Qed.

Lemma qsl_inv_init scr : qsl_inv (qsl_init scr).
Proof.
  unfold qsl_inv, chain_ok. cbn [qsl_init q_chain q_tail]. split; [reflexivity|]. split; [constructor|].
  intros p _. unfold out_ok, pcq, insq, qsl_init. cbn [q_next q_th].
  unfold thr_init. destruct (next_pc qentry (scr p) false) as [pc r] eqn:E. cbn [t_pc t_ins].
  split; [reflexivity|]. split; [reflexivity|].
  destruct pc as [pc|]; [|left; reflexivity]. right.
  apply next_pc_spec in E. destruct E as (o & -> & Ho).
  destruct o; cbn; [left; reflexivity | right; reflexivity
                   | exfalso; destruct Ho as [Ho _]; specialize (Ho eq_refl); discriminate].
Qed.

Lemma links_mono s s' l : forall a,
  (forall x y, In x (a :: l) -> In y l -> link s x y -> link s' x y) ->
  (forall y, In y l -> waiter_ok s y -> waiter_ok s' y) ->
  (q_next s (last l a) = None -> q_next s' (last l a) = None) ->
  links s a l -> links s' a l.
Proof.
  induction l as [|b r IH]; intros a HL HW HN; cbn in *; [auto|].
  intros (L & W & R). split; [apply HL; auto|]. split; [apply HW; auto|].
  apply IH; [ | | | exact R].
  - intros x y Hx Hy. apply HL; [right; exact Hx | right; exact Hy].
  - intros y Hy. apply HW. right. exact Hy.
  - intros H. destruct r; [apply HN; exact H|]. rewrite (last_indep _ _ b a) in *. apply HN. exact H.
Qed.

(* where a participant is, given its program point *)
Lemma where_is s p : qsl_inv s ->
  (~ In p (q_chain s) /\ out_ok s p) \/
  (exists r, q_chain s = p :: r /\ head_ok s p r /\ links s p r) \/
  (exists h r, q_chain s = h :: r /\ p <> h /\ In p r /\ waiter_ok s p /\
      (pcq s p = Some QSpin \/ exists o, pcq s p = Some (QStGot o) \/ pcq s p = Some (QStNext o))).
Proof.
  intros (HC & HN & HO). destruct (in_dec Nat.eq_dec p (q_chain s)) as [Hin|Hin]; [|left; auto].
  right. unfold chain_ok in HC. destruct (q_chain s) as [|h r] eqn:E; [destruct Hin|].
  destruct HC as (Hh & Hl & Ht). destruct (Nat.eq_dec p h) as [->|Hne]; [left; eauto|].
  right. destruct Hin as [->|Hin]; [congruence|]. exists h, r.
  destruct (links_member s r h p Hl Hin) as (W & P).
  split; [reflexivity|]. split; [exact Hne|]. split; [exact Hin|]. split; [exact W|exact P].
Qed.

Ltac qz :=
  repeat match goal with
  | |- context [Nat.eqb ?a ?b] => destruct (Nat.eqb_spec a b); subst
  | H : context [Nat.eqb ?a ?b] |- _ => destruct (Nat.eqb_spec a b); subst
  end.
Ltac lk :=
  unfold link, waiter_ok, head_ok, out_ok, pcq, insq in *;
  cbn [q_next q_got q_th q_tail q_chain t_pc t_ins t_scr thr_goto thr_goto_ins] in *;
  unfold updn in *; qz;
  cbn [q_next q_got q_th q_tail q_chain t_pc t_ins t_scr thr_goto thr_goto_ins] in *.
Ltac qd t i :=
  let H1 := fresh "Hd" in let H2 := fresh "Hd" in
  destruct (qdone_ok t i) as [H1 H2].
