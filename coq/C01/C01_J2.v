(* C01_J2.v — preservation of own_inv's clause j_a: an owner that is still in the wait queue is
   the head that an unlocker (at PUint) is about to wake. *)
From Coq Require Import ZArith List Bool Arith Lia.
From PV Require Import Base.U64 C01.C01_Model C01.C01_Tac C01.C01_Excl C01.C01_Inv2 C01.C01_Eff C01.C01_Cls.
Import ListNotations.
Local Open Scope Z_scope.

(* the old witness still works: its program point is unchanged, or it is the acting thread and the
   step is not the wake-up *)
Ltac ja_frame H2 H3 :=
  match goal with
  | Ho : owner (mx ?s ?m) = Some ?t, Hi : In ?t (wqm (mx ?s ?m)) |- _ =>
      let u := fresh "u" in let Hu := fresh "Hu" in
      destruct (j_a _ H3 t m Ho Hi) as [u Hu]; exists u; obs H2; first [exact Hu | congruence]
  end.

Lemma j_a_step s l s' : inv1 s -> inv2 s -> own_inv s -> step s l = Some s' ->
  forall t m, owner (mx s' m) = Some t -> In t (wqm (mx s' m)) -> exists u, pc (th s' u) = PUint m t.
Proof.
  intros H1 H2 H3 Hs. scases Hs.
  all: intros t0 m0; obs H2; intros Ho Hi.
  all: try solve [ja_frame H2 H3].
  all: try discriminate Ho.
  (* the hand-off has just been decided: the unlocker itself is the witness *)
  all: try solve [ match goal with Hp : pc (th _ ?a) = PUst _ (Some _) |- _ => exists a; obs H2; congruence end ].
  (* the acting thread's own CAS succeeded: it is not in the queue *)
  all: try solve [ match goal with Ho : Some ?a = Some ?t, Hi : In ?t (wqm (mx ?s ?m)), Hp : pc (th ?s ?a) = _ |- _ =>
         exfalso; injection Ho as <-; pose proof (in_class s a m H2 Hi) as Hk; rewrite Hp in Hk;
         cbn [classify] in Hk; unfold on in Hk; rewrite ?Nat.eqb_refl in Hk; discriminate Hk end ].
  (* a thread x leaves the queue (hand-off wake-up, interrupt, timeout) *)
  all: try solve [ match goal with Hi : In ?t (rm ?x ?q), Ho : owner (mx ?s ?m) = Some ?t |- _ =>
         let u := fresh "u" in let Hu := fresh "Hu" in
         destruct (j_a _ H3 t m Ho (In_rm _ _ _ Hi)) as [u Hu]; exists u; obs H2;
         first [ exact Hu | congruence
               | exfalso; rewrite Hpc in Hu;
                 first [ discriminate Hu
                       | injection Hu; intros; subst; exact (not_In_rm _ _ (i2_nodup _ H2 _) Hi) ] ] end ].
  (* the acting thread enqueues itself: it is not the owner *)
  all: match goal with Hi : In ?t (_ ++ [?a]), Ho : owner (mx ?s ?m) = Some ?t |- _ =>
         apply In_snoc in Hi; destruct Hi as [Hi| ->];
         [ ja_frame H2 H3
         | exfalso; pose proof (j_cls _ H3 a m) as Ha;
           match goal with Hp : pc (th s a) = _ |- _ => rewrite Hp in Ha end;
           cbn [classify] in Ha; unfold on in Ha; rewrite ?Nat.eqb_refl in Ha; cbn [cls_ok] in Ha; tauto ] end.
Qed.
