(* Extraction of the C01 mutex model (fine-grained steps + the cooperative E2 tie):
   ExtrOcamlBasic only; Z, positive, nat stay Coq's datatypes. *)
From Coq Require Import ZArith List.
From PV Require Import Base.U64 E3.E3_Run C01.C01_Model C01.C01_Coop C01.C01_Spin_Model.
Require Extraction.
Require Import ExtrOcamlBasic.
Extraction "c01_model.ml" c01_run tas_run tkl_run qsl_run.
