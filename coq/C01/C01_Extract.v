(* Extraction of the C01 mutex model (fine-grained steps + the cooperative E2 tie):
   ExtrOcamlBasic only; Z, positive, nat stay Coq's datatypes. *)
From Coq Require Import ZArith List.
From PV Require Import Base.U64 C01.C01_Model C01.C01_Coop.
Require Extraction.
Require Import ExtrOcamlBasic.
Extraction "c01_model.ml" c01_run.
