(* C01_Model.v — FINE-GRAINED model of photon::mutex / seq_mutex / recursive_mutex
   (thread/thread.cpp 1760-1856, thread.h 312-347) together with the parts of the scheduler the
   protocol relies on: thread_yield (1315-1323), prepare_usleep + deferred call (1358-1400),
   set_error_number (232-239), resume_threads (1263-1304), prelocked_thread_interrupt /
   thread_interrupt (1459-1492), indirect_lock / ScopedLockHead (1521-1537, 1731-1739),
   dequeue_ready_atomic (724-736), waitq_translate_errno (1696-1705).

   EXECUTABLE DEFINITIONS ONLY (no proofs).  One transition = one access to shared state (an
   atomic load / store / CAS / TAS, or one block under thread.lock), DESIGN.md 4.3, sequential
   consistency.  ANY number of threads (tid = nat), ANY number of mutexes (mid = nat), ANY
   assignment of threads to vCPUs (`vc`): the relation does NOT restrict which threads run
   simultaneously (every thread may be RUNNING at once: a superset of what any number of vCPUs
   can do), time advances by arbitrary `LTick`s.

   Granularity notes (where several C++ statements are ONE transition, and why that is sound):
   * `waitq.lock` (the list spinlock) is not a state component: every modification of a wait
     list happens inside a block that is modelled as one transition (prepare_usleep's block;
     dequeue_ready_atomic), and the only unlocked access to a list is indirect_lock's one-word
     read of the head `q.th` (its own transition PUhd / PUre).
   * prepare_usleep (1359-1374) = lock waitq.lock; lock self.lock; {leave runq, SLEEPING, push_back,
     waitq, ts_wakeup, sleepq.push}; unlock both: ONE transition PLenq/PZenq, enabled when
     `thread.lock` of the caller is free (else the caller spins: a stutter).
   * the blocks under `thread.lock` of prelocked_thread_interrupt (error_number, dequeue, new
     state, standbyq/runq insertion) and of resume_threads (pop, state test, dequeue) are one
     transition each (PUint, PI3, LExpBody); taking that lock is its own transition before.
   * thread-local work (loop counters, errno, recursive_count which only the owner touches,
     ghost counters) is merged into the adjacent shared access.
   * thread_interrupt's branch for a non-SLEEPING target (`out:`; after the F33 repair, /repo commit
     34f175e): `state` was read at PI0 / PI2 (a local), then `th->error_number == 0` is read (PIo1),
     then `__atomic_compare_exchange_n(&th->error_number, &expected /*0*/, error_number)` (PIo2):
     THREE transitions, the last one an atomic compare-and-swap from 0 — it may land on a target
     that is no longer READY.  This is the `aintr = false` arm = the code as written.
     `aintr = true` is an IDEALISATION switch kept from before the repair: the whole branch
     (state test, error_number test, store) executes as ONE transition.  No theorem needs it any
     more (they hold for both arms); on ONE vCPU both coincide (photon threads are not pre-empted). *)
From Coq Require Import ZArith List Bool Arith.
From PV Require Import Base.U64.
Import ListNotations.
Local Open Scope Z_scope.

Definition tid := nat.
Definition mid := nat.
Definition ETIMEDOUT : Z := 110.

Inductive tstate : Type := RUNNING | READY | SLEEPING | STANDBY.
Definition tstate_eqb (a b : tstate) : bool :=
  match a, b with
  | RUNNING, RUNNING | READY, READY | SLEEPING, SLEEPING | STANDBY, STANDBY => true
  | _, _ => false
  end.

(* who holds a `thread.lock`: a photon thread (interrupter / unlocker), or the resume_threads
   pass of the target's own vCPU *)
Inductive holder : Type := HT (t : tid) | HX.

(* context of one mutex::lock call: the mutex, the Timeout's expiration, called through
   recursive_mutex::lock? *)
Record lctx : Type := mkL { lm : mid; ldl : Z; lrc : bool }.
(* who called thread_yield / who is sleeping / what returned *)
Inductive yk : Type := YLock (c : lctx) (re : nat) | YOp | YSleep.
Inductive sk : Type := SLock (c : lctx) | SOp.
Inductive rk : Type := RLock (m : mid) | RTry (m : mid) | ROther.

(* program counter of a photon thread = the NEXT shared access it will perform *)
Inductive pc_t : Type :=
| PIdle                                   (* between two operations *)
| PRet (k : rk) (r e : Z)                 (* the operation has returned r with errno e *)
(* thread_yield 1315-1323 *)
| PY1 (k : yk)                            (* current->error_number = 0 *)
| PY2 (k : yk)                            (* goto_next: state = READY, switch *)
| PYw (k : yk)                            (* switched out, READY; resumed by LSched *)
| PY3 (k : yk)                            (* return rq.current->error_number  (read, not cleared) *)
(* mutex::lock 1765-1792 *)
| PL0 (c : lctx)                          (* 1766 try_lock() *)
| PLcas1 (c : lctx) (re : nat)            (* 1770 try_lock() inside the retries loop *)
| PLspl (c : lctx)                        (* 1773 again: splock.lock() *)
| PLcas2 (c : lctx)                       (* 1774 try_lock() under splock *)
| PLok (c : lctx)                         (* 1775 splock.unlock(); return 0 *)
| PLexp (c : lctx)                        (* 1779 timeout.expired()  (reads now) *)
| PLto (c : lctx)                         (* 1781 splock.unlock(); return -1 / ETIMEDOUT *)
| PLenq (c : lctx)                        (* 1785 prepare_usleep(timeout, &q) *)
| PLdefer (c : lctx)                      (* spinlock_unlock(&splock) on the next thread's stack *)
| PSw (k : sk)                            (* switched out (SLEEPING/STANDBY/READY); resumed by LSched *)
| PS1 (k : sk)                            (* set_error_number: read error_number *)
| PS2 (k : sk) (e : Z)                    (* set_error_number: error_number = 0 (e <> 0 was read) *)
| PLchk (c : lctx)                        (* 1788 owner.load() *)
(* mutex::try_lock 1793-1799 as an operation *)
| PT0 (m : mid) (rc : bool)
(* recursive_mutex::lock / try_lock: `owner == CURRENT` 1829 / 1837 *)
| PR0 (c : lctx)
| PRT0 (m : mid)
(* mutex::unlock 1815-1826 / recursive_mutex::unlock 1844-1856 / do_mutex_unlock 1800-1807 *)
| PU0 (m : mid) (rc : bool)               (* owner.load() and the two tests (+ --recursive_count) *)
| PUspl (m : mid)                         (* SCOPED_LOCK(m->splock) *)
| PUhd (m : mid)                          (* indirect_lock: x = *ppt *)
| PUlk (m : mid) (x : tid)                (* x->lock.lock() *)
| PUre (m : mid) (x : tid)                (* x == *ppt ? *)
| PUunl (m : mid) (x : tid)               (* x->lock.unlock(); goto again *)
| PUst (m : mid) (h : option tid)         (* m->owner.store(contending ? nullptr : h) *)
| PUint (m : mid) (x : tid)               (* prelocked_thread_interrupt(h, -1) *)
| PUrel (m : mid) (x : tid)               (* ~ScopedLockHead: h->lock.unlock() *)
| PUunspl (m : mid)                       (* ~SCOPED_LOCK: splock.unlock() *)
(* thread_interrupt 1476-1492 *)
| PI0 (x : tid) (e : Z)                   (* state = th->state  (unlocked) *)
| PIlk (x : tid) (e : Z)                  (* SCOPED_LOCK(th->lock) *)
| PI2 (x : tid) (e : Z)                   (* state = th->state  (locked) *)
| PI3 (x : tid) (e : Z)                   (* prelocked_thread_interrupt(th, e) *)
| PIo1 (x : tid) (e : Z) (lk : bool)      (* out: th->error_number == 0 ?   (state was READY) *)
| PIo2 (x : tid) (e : Z) (lk : bool)      (* out: CAS(&th->error_number, 0, e) *)
| PIrel (x : tid)                         (* ~SCOPED_LOCK *)
(* thread_usleep 1448-1457 *)
| PZ0 (dl : Z)                            (* timeout.expired()  (reads now) *)
| PZenq (dl : Z).                         (* prepare_usleep(timeout, nullptr) *)

Inductive mop : Type :=
| MLock (m : mid) (tmo : Z) | MTryLock (m : mid) | MUnlock (m : mid)          (* mutex / seq_mutex *)
| MRLock (m : mid) (tmo : Z) | MRTryLock (m : mid) | MRUnlock (m : mid)       (* recursive_mutex *)
| MInterrupt (x : tid) (e : Z)
| MSleep (d : Z)
| MYield.

Record mrec : Type := mkM {
  owner : option tid;           (* std::atomic<thread*> owner *)
  spl : option tid;             (* splock: holder *)
  wqm : list tid;               (* waitq: FIFO, head first *)
  rcnt : Z;                     (* recursive_mutex::recursive_count *)
  retries : nat;                (* constant *)
  contending : bool;            (* constant *)
  recursive : bool              (* constant: the object is a recursive_mutex *)
}.
Record trec : Type := mkT {
  st : tstate;                  (* thread::state *)
  err : Z;                      (* thread::error_number *)
  wq : option mid;              (* thread::waitq *)
  ts : Z;                       (* thread::ts_wakeup *)
  tlock : option holder;        (* thread::lock *)
  pc : pc_t;
  xp : bool;                    (* the vCPU's resume_threads holds this thread's lock (1287) *)
  cnt : mid -> nat              (* GHOST: lock()/try_lock() successes not yet unlocked *)
}.
Record state : Type := mkS {
  now : Z;
  th : tid -> trec;
  mx : mid -> mrec;
  vc : tid -> nat;              (* constant: the vCPU a thread belongs to *)
  aintr : bool                  (* constant: idealisation switch, see header *)
}.

Definition upd {A : Type} (f : nat -> A) (k : nat) (v : A) : nat -> A :=
  fun i => if Nat.eqb i k then v else f i.

Definition set_owner (r : mrec) (v : option tid) := mkM v (spl r) (wqm r) (rcnt r) (retries r) (contending r) (recursive r).
Definition set_spl (r : mrec) (v : option tid) := mkM (owner r) v (wqm r) (rcnt r) (retries r) (contending r) (recursive r).
Definition set_wqm (r : mrec) (v : list tid) := mkM (owner r) (spl r) v (rcnt r) (retries r) (contending r) (recursive r).
Definition set_rcnt (r : mrec) (v : Z) := mkM (owner r) (spl r) (wqm r) v (retries r) (contending r) (recursive r).

Definition set_st (r : trec) (v : tstate) := mkT v (err r) (wq r) (ts r) (tlock r) (pc r) (xp r) (cnt r).
Definition set_err (r : trec) (v : Z) := mkT (st r) v (wq r) (ts r) (tlock r) (pc r) (xp r) (cnt r).
Definition set_wq (r : trec) (v : option mid) := mkT (st r) (err r) v (ts r) (tlock r) (pc r) (xp r) (cnt r).
Definition set_ts (r : trec) (v : Z) := mkT (st r) (err r) (wq r) v (tlock r) (pc r) (xp r) (cnt r).
Definition set_tlock (r : trec) (v : option holder) := mkT (st r) (err r) (wq r) (ts r) v (pc r) (xp r) (cnt r).
Definition set_pc (r : trec) (v : pc_t) := mkT (st r) (err r) (wq r) (ts r) (tlock r) v (xp r) (cnt r).
Definition set_xp (r : trec) (v : bool) := mkT (st r) (err r) (wq r) (ts r) (tlock r) (pc r) v (cnt r).
Definition set_cnt (r : trec) (v : mid -> nat) := mkT (st r) (err r) (wq r) (ts r) (tlock r) (pc r) (xp r) v.

Definition setT (s : state) (t : tid) (r : trec) : state := mkS (now s) (upd (th s) t r) (mx s) (vc s) (aintr s).
Definition setM (s : state) (m : mid) (r : mrec) : state := mkS (now s) (th s) (upd (mx s) m r) (vc s) (aintr s).
Definition goto (s : state) (t : tid) (p : pc_t) : state := setT s t (set_pc (th s t) p).

Fixpoint rm (x : tid) (l : list tid) : list tid :=
  match l with
  | [] => []
  | y :: r => if Nat.eqb y x then r else y :: rm x r
  end.

Definition opt_tid_eqb (a : option tid) (t : tid) : bool :=
  match a with Some x => Nat.eqb x t | None => false end.

(* class Timeout (common/timeout.h 36-46) *)
Definition timeout_of (nw x : Z) : Z := if x =? 0 then 0 else sat_add nw x.
Definition expired (nw dl : Z) : bool := (dl =? 0) || (dl <=? nw).

(* mutex::try_lock 1793-1799: owner.compare_exchange_strong(nullptr, CURRENT) *)
Definition try_lock (s : state) (t : tid) (m : mid) : state * bool :=
  match owner (mx s m) with
  | None => (setM s m (set_owner (mx s m) (Some t)), true)
  | Some _ => (s, false)
  end.

(* thread::dequeue_ready_atomic(newstat) 724-736 *)
Definition dequeue (s : state) (x : tid) (ns : tstate) : state :=
  let s1 := match wq (th s x) with
            | Some m => setT (setM s m (set_wqm (mx s m) (rm x (wqm (mx s m))))) x (set_wq (th s x) None)
            | None => s
            end in
  setT s1 x (set_st (th s1 x) ns).

(* prelocked_thread_interrupt 1459-1475, called by thread a (holding x's lock): same vCPU ->
   READY (+ sleepq.pop, runq insert_tail: private to the vCPU), other vCPU -> STANDBY + standbyq *)
Definition prelocked_interrupt (s : state) (a x : tid) (e : Z) : state :=
  let s1 := setT s x (set_err (th s x) e) in
  dequeue s1 x (if Nat.eqb (vc s a) (vc s x) then READY else STANDBY).

(* a lock()/try_lock() success: ghost counter, and recursive_count++ when called through
   recursive_mutex (1830 / 1838; only the owner touches that field) *)
Definition acquired (s : state) (t : tid) (m : mid) (rc : bool) : state :=
  let r := th s t in
  let s1 := setT s t (set_cnt r (upd (cnt r) m (S (cnt r m)))) in
  if rc then setM s1 m (set_rcnt (mx s1 m) (rcnt (mx s1 m) + 1)) else s1.

Definition ret_lock (s : state) (t : tid) (c : lctx) (r e : Z) : state :=
  let s1 := if r =? 0 then acquired s t (lm c) (lrc c) else s in
  goto s1 t (PRet (RLock (lm c)) r e).

Definition after_fail (c : lctx) (re : nat) : pc_t :=
  match re with O => PLspl c | S _ => PY1 (YLock c re) end.

(* after switch-back + set_error_number returned (ret, errno) *)
Definition after_sleep (s : state) (t : tid) (k : sk) (ret errno : Z) : state :=
  match k with
  | SLock c =>
      if (ret <? 0) && (errno =? -1) then goto s t (PLchk c)                  (* 1787 *)
      else if ret =? 0 then ret_lock s t c (-1) ETIMEDOUT                      (* 1699-1702 *)
      else ret_lock s t c (-1) errno                                           (* 1704, errno <> -1 *)
  | SOp => goto s t (PRet ROther ret errno)
  end.

(* thread_interrupt's `out:` branch for a target that is not SLEEPING; `fin` = where the caller
   goes when done (PIrel when it holds the target's lock, else return) *)
Definition intr_fin (x : tid) (lk : bool) : pc_t := if lk then PIrel x else PRet ROther 0 0.
Definition intr_out (s : state) (t x : tid) (e : Z) (lk : bool) : state :=
  let sx := st (th s x) in
  if aintr s then
    let s1 := if tstate_eqb sx READY && (err (th s x) =? 0) then setT s x (set_err (th s x) e) else s in
    goto s1 t (intr_fin x lk)
  else if tstate_eqb sx READY then goto s t (PIo1 x e lk) else goto s t (intr_fin x lk).

(* ---- one step of thread t (label LStep t).  None = t has nothing to do (idle or switched out);
        a spin on a held spinlock is a stutter (Some s). ------------------------------------- *)
Definition tstep (s : state) (t : tid) : option state :=
  let r := th s t in
  match pc r with
  | PIdle => None
  | PRet _ _ _ => Some (goto s t PIdle)
  (* thread_yield *)
  | PY1 k => Some (setT s t (set_pc (set_err r 0) (PY2 k)))
  | PY2 k => Some (setT s t (set_pc (set_st r READY) (PYw k)))
  | PYw _ => None
  | PY3 k =>
      let e := err r in
      match k with
      | YLock c re => if e =? 0 then Some (goto s t (PLcas1 c re)) else Some (ret_lock s t c (-1) e)   (* 1769 *)
      | YOp => Some (goto s t (PRet ROther e 0))
      | YSleep => if e =? 0 then Some (goto s t (PRet ROther 0 0)) else Some (goto s t (PRet ROther (-1) e))  (* 1375-1379 *)
      end
  (* mutex::lock *)
  | PL0 c =>
      let '(s1, ok) := try_lock s t (lm c) in
      if ok then Some (ret_lock s1 t c 0 0) else Some (goto s1 t (after_fail c (retries (mx s (lm c)))))
  | PLcas1 c re =>
      let '(s1, ok) := try_lock s t (lm c) in
      if ok then Some (ret_lock s1 t c 0 0) else Some (goto s1 t (after_fail c (pred re)))
  | PLspl c =>
      let m := lm c in
      match spl (mx s m) with
      | None => Some (goto (setM s m (set_spl (mx s m) (Some t))) t (PLcas2 c))
      | Some _ => Some s
      end
  | PLcas2 c =>
      let '(s1, ok) := try_lock s t (lm c) in
      if ok then Some (goto s1 t (PLok c)) else Some (goto s1 t (PLexp c))
  | PLok c =>
      let m := lm c in Some (ret_lock (setM s m (set_spl (mx s m) None)) t c 0 0)
  | PLexp c => if expired (now s) (ldl c) then Some (goto s t (PLto c)) else Some (goto s t (PLenq c))
  | PLto c =>
      let m := lm c in Some (ret_lock (setM s m (set_spl (mx s m) None)) t c (-1) ETIMEDOUT)
  | PLenq c =>
      let m := lm c in
      match tlock r with
      | None =>
          let s1 := setM s m (set_wqm (mx s m) (wqm (mx s m) ++ [t])) in
          Some (setT s1 t (set_pc (set_ts (set_wq (set_st r SLEEPING) (Some m)) (ldl c)) (PLdefer c)))
      | Some _ => Some s
      end
  | PLdefer c =>
      let m := lm c in Some (goto (setM s m (set_spl (mx s m) None)) t (PSw (SLock c)))
  | PSw _ => None
  | PS1 k => let e := err r in if e =? 0 then Some (after_sleep s t k 0 0) else Some (goto s t (PS2 k e))
  | PS2 k e => Some (after_sleep (setT s t (set_err r 0)) t k (-1) e)
  | PLchk c =>
      if opt_tid_eqb (owner (mx s (lm c))) t then Some (ret_lock s t c 0 0) else Some (goto s t (PLspl c))
  (* try_lock operation *)
  | PT0 m rc =>
      let '(s1, ok) := try_lock s t m in
      if ok then Some (goto (acquired s1 t m rc) t (PRet (RTry m) 0 0)) else Some (goto s1 t (PRet (RTry m) (-1) 0))
  (* recursive wrappers *)
  | PR0 c =>
      if opt_tid_eqb (owner (mx s (lm c))) t then Some (ret_lock s t c 0 0) else Some (goto s t (PL0 c))
  | PRT0 m =>
      if opt_tid_eqb (owner (mx s m)) t then Some (goto (acquired s t m true) t (PRet (RTry m) 0 0))
      else Some (goto s t (PT0 m true))
  (* unlock *)
  | PU0 m rc =>
      if opt_tid_eqb (owner (mx s m)) t then
        let s1 := setT s t (set_cnt r (upd (cnt r) m (pred (cnt r m)))) in
        if rc then
          let n := rcnt (mx s m) - 1 in
          let s2 := setM s1 m (set_rcnt (mx s1 m) n) in
          if 0 <? n then Some (goto s2 t (PRet ROther 0 0)) else Some (goto s2 t (PUspl m))
        else Some (goto s1 t (PUspl m))
      else Some (goto s t (PRet ROther 0 0))
  | PUspl m =>
      match spl (mx s m) with
      | None => Some (goto (setM s m (set_spl (mx s m) (Some t))) t (PUhd m))
      | Some _ => Some s
      end
  | PUhd m =>
      match wqm (mx s m) with
      | [] => Some (goto s t (PUst m None))
      | x :: _ => Some (goto s t (PUlk m x))
      end
  | PUlk m x =>
      match tlock (th s x) with
      | None => Some (goto (setT s x (set_tlock (th s x) (Some (HT t)))) t (PUre m x))
      | Some _ => Some s
      end
  | PUre m x =>
      if opt_tid_eqb (hd_error (wqm (mx s m))) x then Some (goto s t (PUst m (Some x))) else Some (goto s t (PUunl m x))
  | PUunl m x => Some (goto (setT s x (set_tlock (th s x) None)) t (PUhd m))
  | PUst m h =>
      let s1 := setM s m (set_owner (mx s m) (if contending (mx s m) then None else h)) in
      match h with
      | Some x => Some (goto s1 t (PUint m x))
      | None => Some (goto s1 t (PUunspl m))
      end
  | PUint m x => Some (goto (prelocked_interrupt s t x (-1)) t (PUrel m x))
  | PUrel m x => Some (goto (setT s x (set_tlock (th s x) None)) t (PUunspl m))
  | PUunspl m => Some (goto (setM s m (set_spl (mx s m) None)) t (PRet ROther 0 0))
  (* thread_interrupt *)
  | PI0 x e =>
      if tstate_eqb (st (th s x)) SLEEPING then Some (goto s t (PIlk x e)) else Some (intr_out s t x e false)
  | PIlk x e =>
      match tlock (th s x) with
      | None => Some (goto (setT s x (set_tlock (th s x) (Some (HT t)))) t (PI2 x e))
      | Some _ => Some s
      end
  | PI2 x e =>
      if tstate_eqb (st (th s x)) SLEEPING then Some (goto s t (PI3 x e)) else Some (intr_out s t x e true)
  | PI3 x e => Some (goto (prelocked_interrupt s t x e) t (PIrel x))
  | PIo1 x e lk =>
      if err (th s x) =? 0 then Some (goto s t (PIo2 x e lk)) else Some (goto s t (intr_fin x lk))
  | PIo2 x e lk =>                                                              (* the CAS of the F33 repair *)
      if err (th s x) =? 0 then Some (goto (setT s x (set_err (th s x) e)) t (intr_fin x lk))
      else Some (goto s t (intr_fin x lk))
  | PIrel x => Some (goto (setT s x (set_tlock (th s x) None)) t (PRet ROther 0 0))
  (* thread_usleep *)
  | PZ0 dl => if expired (now s) dl then Some (goto s t (PY1 YSleep)) else Some (goto s t (PZenq dl))
  | PZenq dl =>
      match tlock r with
      | None => Some (setT s t (set_pc (set_ts (set_st r SLEEPING) dl) (PSw SOp)))
      | Some _ => Some s
      end
  end.

(* ---- an idle thread calls an operation.  Client discipline built into the relation: mutex and
        recursive_mutex operations are applied to objects of their own class, and a plain mutex
        is not lock()ed / try_lock()ed again by the thread that holds it (that self-deadlocks). *)
Definition start (s : state) (t : tid) (o : mop) : option state :=
  match pc (th s t) with
  | PIdle =>
      match o with
      | MLock m tmo =>
          if recursive (mx s m) || negb (Nat.eqb (cnt (th s t) m) 0) then None
          else Some (goto s t (PL0 (mkL m (timeout_of (now s) tmo) false)))
      | MTryLock m =>
          if recursive (mx s m) || negb (Nat.eqb (cnt (th s t) m) 0) then None
          else Some (goto s t (PT0 m false))
      | MUnlock m => if recursive (mx s m) then None else Some (goto s t (PU0 m false))
      | MRLock m tmo =>
          if recursive (mx s m) then Some (goto s t (PR0 (mkL m (timeout_of (now s) tmo) true))) else None
      | MRTryLock m => if recursive (mx s m) then Some (goto s t (PRT0 m)) else None
      | MRUnlock m => if recursive (mx s m) then Some (goto s t (PU0 m true)) else None
      | MInterrupt x e => Some (goto s t (PI0 x e))
      | MSleep d => Some (goto s t (PZ0 (timeout_of (now s) d)))
      | MYield => Some (goto s t (PY1 YOp))
      end
  | _ => None
  end.

(* ---- steps of the vCPUs' schedulers -------------------------------------------------------- *)
(* switch to a READY thread (AtomicRunQ::_do_goto / remove_current: to->state = RUNNING) *)
Definition sched (s : state) (t : tid) : option state :=
  let r := th s t in
  if tstate_eqb (st r) READY then
    match pc r with
    | PYw k => Some (setT s t (set_pc (set_st r RUNNING) (PY3 k)))
    | PSw k => Some (setT s t (set_pc (set_st r RUNNING) (PS1 k)))
    | _ => None
    end
  else None.
(* resume_threads 1270-1277: a STANDBY thread becomes READY (no thread.lock) *)
Definition drain (s : state) (t : tid) : option state :=
  let r := th s t in
  if tstate_eqb (st r) STANDBY then Some (setT s t (set_st r READY)) else None.
(* resume_threads 1285-1287: front of the sleepq with ts_wakeup <= now: SCOPED_LOCK(th->lock).
   (Over-approximation: the model does not track sleepq membership; the step is offered for any
   thread whose recorded deadline has passed — for a thread that is not asleep the body below
   does nothing.) *)
Definition exp_lock (s : state) (t : tid) : option state :=
  let r := th s t in
  if negb (xp r) && (ts r <=? now s) then
    match tlock r with
    | None => Some (setT s t (set_xp (set_tlock r (Some HX)) true))
    | Some _ => Some s
    end
  else None.
(* 1288-1297 + end of scope: pop, `if state == SLEEPING dequeue_ready_atomic()`, unlock *)
Definition exp_body (s : state) (t : tid) : option state :=
  if xp (th s t) then
    let s1 := if tstate_eqb (st (th s t)) SLEEPING then dequeue s t READY else s in
    Some (setT s1 t (set_xp (set_tlock (th s1 t) None) false))
  else None.

Inductive label : Type :=
| LStart (t : tid) (o : mop)
| LStep (t : tid)
| LSched (t : tid)
| LDrain (t : tid)
| LExpLock (t : tid)
| LExpBody (t : tid)
| LTick (d : Z).

Definition step (s : state) (l : label) : option state :=
  match l with
  | LStart t o => start s t o
  | LStep t => tstep s t
  | LSched t => sched s t
  | LDrain t => drain s t
  | LExpLock t => exp_lock s t
  | LExpBody t => exp_body s t
  | LTick d => if 0 <=? d then Some (mkS (now s + d) (th s) (mx s) (vc s) (aintr s)) else None
  end.

(* run a schedule; None if some label is not enabled *)
Fixpoint run (s : state) (ls : list label) : option state :=
  match ls with
  | [] => Some s
  | l :: r => match step s l with Some s' => run s' r | None => None end
  end.

(* initial states: every thread idle and RUNNING, every mutex free; the constants are arbitrary *)
Definition trec0 : trec := mkT RUNNING 0 None 0 None PIdle false (fun _ => O).
Definition mrec0 (re : nat) (ct rc : bool) : mrec := mkM None None [] 0 re ct rc.
Definition init_state (nw : Z) (re : mid -> nat) (ct rc : mid -> bool) (v : tid -> nat) (ai : bool) : state :=
  mkS nw (fun _ => trec0) (fun m => mrec0 (re m) (ct m) (rc m)) v ai.
