(* C01_Finding.v — what the code AS WRITTEN (aintr = false) allows: thread_interrupt's branch for a
   target that is not SLEEPING (thread.cpp 1480-1485) reads `state`, reads `error_number` and then
   writes `error_number` with no lock; a write that lands late overwrites the -1 by which
   do_mutex_unlock told a waiter that it has been made the owner.  The waiter's lock() then
   returns -1/EINTR although `owner == CURRENT`: the mutex is stuck. *)
From Coq Require Import ZArith List Bool Arith.
From PV Require Import Base.U64 C01.C01_Model C01.C01_Tac.
Import ListNotations.
Local Open Scope Z_scope.

(* threads: 0 = A (holder), 1 = W (waiter), 2 = I (interrupter, another vCPU); mutex 0 = seq_mutex *)
Definition f_init : state :=
  init_state 1000 (fun _ => O) (fun _ => false) (fun _ => false) (fun t => if Nat.eqb t 2 then 1%nat else O) false.

Definition f_sched : list label :=
  [ LStart 0%nat (MLock 0%nat MAX64); LStep 0%nat; LStep 0%nat;                      (* A holds the mutex *)
    LStart 1%nat MYield; LStep 1%nat; LStep 1%nat;                               (* W yields: READY, error_number 0 *)
    LStart 2%nat (MInterrupt 1%nat 4); LStep 2%nat; LStep 2%nat;                     (* I: state==READY, error_number==0 ... *)
    LSched 1%nat; LStep 1%nat; LStep 1%nat;                                      (* W runs again, yield returns 0 *)
    LStart 1%nat (MLock 0%nat MAX64); LStep 1%nat; LStep 1%nat; LStep 1%nat; LStep 1%nat; LStep 1%nat; LStep 1%nat;   (* W: lock() -> asleep in the queue *)
    LStart 0%nat (MUnlock 0%nat); LStep 0%nat; LStep 0%nat; LStep 0%nat; LStep 0%nat; LStep 0%nat; LStep 0%nat; LStep 0%nat;  (* A: unlock: owner := W, W.error_number := -1, READY *)
    LStep 2%nat;                                                         (* ... I: error_number = EINTR  (late) *)
    LSched 1%nat; LStep 1%nat; LStep 1%nat ].                                    (* W: lock() returns -1 / EINTR *)

Definition lock_failed_but_owner (s : state) (t : tid) (m : mid) : Prop :=
  exists e, pc (th s t) = PRet (RLock m) (-1) e /\ owner (mx s m) = Some t /\ cnt (th s t) m = O.

Lemma lock_result_refuted_l :
  exists s, reachable s /\ aintr s = false /\ lock_failed_but_owner s 1%nat 0%nat.
Proof.
  destruct (run f_init f_sched) as [s|] eqn:E; [|vm_compute in E; discriminate].
  exists s. split; [|split].
  - eapply reachable_run; [|exact E]. apply reach_init. unfold f_init. repeat eexists.
  - vm_compute in E. injection E as <-. reflexivity.
  - vm_compute in E. injection E as <-. exists 4. vm_compute. auto.
Qed.
