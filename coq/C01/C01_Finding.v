(* C01_Finding.v — finding F33 (FIXED in /repo by commit 34f175e), kept as the record of what the
   code allowed BEFORE the repair, and the same schedule on the repaired code.

   Before the repair thread_interrupt's branch for a target that is not SLEEPING read `state`, read
   `error_number` and then STORED `error_number` with no lock (plain store where the compare-and-
   swap is now); a store that lands late overwrites the -1 by which do_mutex_unlock told a waiter
   that it has been made the owner.  The waiter's lock() then returns -1/EINTR although
   `owner == CURRENT`: the mutex is stuck.  `tstep_prefix` is C01_Model.tstep with that one
   transition (PIo2) as it was; nothing else in /verif is about it. *)
From Coq Require Import ZArith List Bool Arith.
From PV Require Import Base.U64 C01.C01_Model C01.C01_Tac.
Import ListNotations.
Local Open Scope Z_scope.

Definition tstep_prefix (s : state) (t : tid) : option state :=
  match pc (th s t) with
  | PIo2 x e lk => Some (goto (setT s x (set_err (th s x) e)) t (intr_fin x lk))   (* th->error_number = e *)
  | _ => tstep s t
  end.
Definition step_prefix (s : state) (l : label) : option state :=
  match l with LStep t => tstep_prefix s t | _ => step s l end.
Fixpoint run_prefix (s : state) (ls : list label) : option state :=
  match ls with
  | [] => Some s
  | l :: r => match step_prefix s l with Some s' => run_prefix s' r | None => None end
  end.
Inductive reachable_prefix : state -> Prop :=
| rp_init : forall s, is_init s -> reachable_prefix s
| rp_step : forall s l s', reachable_prefix s -> step_prefix s l = Some s' -> reachable_prefix s'.
Lemma reachable_prefix_run s ls s' : reachable_prefix s -> run_prefix s ls = Some s' -> reachable_prefix s'.
Proof.
  intros H. revert s H. induction ls as [|l r IH]; intros s H Hr; cbn in Hr.
  - inversion Hr; subst; exact H.
  - destruct (step_prefix s l) eqn:E; [|discriminate]. eapply IH; [|exact Hr]. eapply rp_step; eauto.
Qed.

(* threads: 0 = A (holder), 1 = W (waiter), 2 = I (interrupter, another vCPU); mutex 0 = seq_mutex *)
Definition f_init : state :=
  init_state 1000 (fun _ => O) (fun _ => false) (fun _ => false) (fun t => if Nat.eqb t 2 then 1%nat else O) false.

Definition f_sched : list label :=
  [ LStart 0%nat (MLock 0%nat MAX64); LStep 0%nat; LStep 0%nat;                      (* A holds the mutex *)
    LStart 1%nat MYield; LStep 1%nat; LStep 1%nat;                               (* W yields: READY, error_number 0 *)
    LStart 2%nat (MInterrupt 1%nat 4); LStep 2%nat; LStep 2%nat;                     (* I: state==READY, error_number==0 ... *)
    LSched 1%nat; LStep 1%nat; LStep 1%nat;                                      (* W runs again, yield returns 0 *)
    LStart 1%nat (MLock 0%nat MAX64); LStep 1%nat; LStep 1%nat; LStep 1%nat; LStep 1%nat; LStep 1%nat; LStep 1%nat;   (* W: lock() -> asleep in the queue *)
    LStart 0%nat (MUnlock 0%nat); LStep 0%nat; LStep 0%nat; LStep 0%nat; LStep 0%nat; LStep 0%nat; LStep 0%nat; LStep 0%nat;  (* A: unlock: owner := W, W.error_number := -1, READY *)
    LStep 2%nat;                                                         (* ... I: the late store / the CAS *)
    LSched 1%nat; LStep 1%nat; LStep 1%nat ].                                    (* W resumes *)

Definition lock_failed_but_owner (s : state) (t : tid) (m : mid) : Prop :=
  exists e, pc (th s t) = PRet (RLock m) (-1) e /\ owner (mx s m) = Some t /\ cnt (th s t) m = O.

(* BEFORE the repair: lock() has returned -1/EINTR while owner == CURRENT *)
Lemma lock_result_refuted_l :
  exists s, reachable_prefix s /\ aintr s = false /\ lock_failed_but_owner s 1%nat 0%nat.
Proof.
  destruct (run_prefix f_init f_sched) as [s|] eqn:E; [|vm_compute in E; discriminate].
  exists s. split; [|split].
  - eapply reachable_prefix_run; [|exact E]. apply rp_init. unfold f_init. repeat eexists.
  - vm_compute in E. injection E as <-. reflexivity.
  - vm_compute in E. injection E as <-. exists 4. vm_compute. auto.
Qed.

(* WITH the repair (the model of the current code): on the same schedule the CAS fails, W sees
   error_number = -1, checks `owner` and its lock() returns 0 as the owner *)
Lemma f33_schedule_repaired_l :
  exists s, run f_init (f_sched ++ [LStep 1%nat]) = Some s /\ reachable s /\ aintr s = false /\
            pc (th s 1%nat) = PRet (RLock 0%nat) 0 0 /\ owner (mx s 0%nat) = Some 1%nat /\ cnt (th s 1%nat) 0%nat = 1%nat.
Proof.
  destruct (run f_init (f_sched ++ [LStep 1%nat])) as [s|] eqn:E; [|vm_compute in E; discriminate].
  exists s. split; [reflexivity|]. split; [|].
  - eapply reachable_run; [|exact E]. apply reach_init. unfold f_init. repeat eexists.
  - vm_compute in E. injection E as <-. vm_compute. auto.
Qed.
