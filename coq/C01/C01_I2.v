(* tier 2, clauses (a)-(e) assembled: every reachable state satisfies inv2 (code as written) *)
From Coq Require Import ZArith List Bool Arith Lia.
From PV Require Import Base.U64 C01.C01_Model C01.C01_Tac C01.C01_Excl C01.C01_Inv2 C01.C01_I2a C01.C01_I2b C01.C01_I2c.
Lemma inv2_step s l s' : inv2 s -> step s l = Some s' -> inv2 s'.
Proof.
  intros H Hs. constructor.
  - eapply i2_tl_step; eauto.
  - eapply i2_xp_step; eauto.
  - eapply i2_wq_step; eauto.
  - eapply i2_nodup_step; eauto.
  - eapply i2_slp1_step; eauto.
  - eapply i2_slp2_step; eauto.
  - eapply i2_pi3_step; eauto.
  - eapply i2_u_step; eauto.
Qed.
Lemma inv2_reachable s : reachable s -> inv2 s.
Proof.
  apply reachable_ind_inv; [exact inv2_init|]. intros s0 l s' _ H Hs. eapply inv2_step; eauto.
Qed.
