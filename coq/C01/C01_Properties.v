From Coq Require Import ZArith List.
From PV Require Import Base.U64 E3.E3_Run C01.C01_Model C01.C01_Tac C01.C01_Excl C01.C01_Inv2 C01.C01_I2
  C01.C01_Handoff C01.C01_Finding C01.C01_Spin_Model C01.C01_Spin_Proofs C01.C01_Mcs C01.C01_Mcs2
  C01.C01_Own2 C01.C01_Own3 C01.C01_Ex.
Import ListNotations.
(* ---- ownership: every mutex class (mutex, seq_mutex, recursive_mutex), every interleaving, any number of
   threads / vCPUs, code as written after the F33 repair (both arms of the `aintr` switch) ---------------- *)
(* a completed lock() / try_lock() (the thread sits at the return) returned 0 iff the caller is the owner,
   iff it is inside; and the caller is in no wait queue (its waitq field is null) *)
Theorem lock_result_iff_owner : forall s, reachable s -> forall t m r e,
  pc (th s t) = PRet (RLock m) r e \/ pc (th s t) = PRet (RTry m) r e ->
  (r = 0%Z <-> owner (mx s m) = Some t) /\ (r = 0%Z <-> (cnt (th s t) m > 0)%nat) /\
  wq (th s t) = None /\ forall m', ~ In t (wqm (mx s m')).
Proof. exact lock_result_l. Qed.
Print Assumptions lock_result_iff_owner.
Example lock_result_hyps_failed : exists s, run (ex_init false false) ex_timeout_sched = Some s /\ reachable s /\
  pc (th s 1%nat) = PRet (RLock 0%nat) (-1)%Z ETIMEDOUT /\ owner (mx s 0%nat) = Some 0%nat /\
  (cnt (th s 0%nat) 0%nat > 0)%nat.
Proof. exact ex_lock_failed_l. Qed.
Example lock_result_hyps_handed : exists s, run f_init (f_sched ++ [LStep 1%nat]) = Some s /\ reachable s /\
  pc (th s 1%nat) = PRet (RLock 0%nat) 0%Z 0%Z /\ (cnt (th s 1%nat) 0%nat > 0)%nat.
Proof. exact ex_lock_handed_l. Qed.
(* at most one thread is between a lock()/try_lock() that returned 0 and its unlock(); recursive_mutex included *)
Theorem mutex_excl : forall s, reachable s -> forall m t1 t2,
  (cnt (th s t1) m > 0)%nat -> (cnt (th s t2) m > 0)%nat -> t1 = t2.
Proof. exact mutex_excl_l. Qed.
Print Assumptions mutex_excl.
Theorem holder_is_owner : forall s, reachable s -> forall m t,
  (cnt (th s t) m > 0)%nat -> owner (mx s m) = Some t.
Proof. exact holder_is_owner_l. Qed.
Print Assumptions holder_is_owner.
(* recursive_mutex::recursive_count is the owner's nesting depth *)
Theorem recursive_count_is_depth : forall s, reachable s -> forall m t, recursive (mx s m) = true ->
  owner (mx s m) = Some t -> rcnt (mx s m) = Z.of_nat (cnt (th s t) m).
Proof. exact recursive_count_l. Qed.
Print Assumptions recursive_count_is_depth.
Example recursive_hyps : exists s, run (ex_init false true) ex_rec_sched = Some s /\ reachable s /\
  recursive (mx s 0%nat) = true /\ cnt (th s 0%nat) 0%nat = 2%nat /\ owner (mx s 0%nat) = Some 0%nat /\
  rcnt (mx s 0%nat) = 2%Z.
Proof. exact ex_recursive_l. Qed.
(* not left stuck, part 1: whoever `owner` names is inside, or is still in lock()/unlock() at a point from which
   it will learn it: about to return 0 / releasing, or being handed the mutex with the evidence intact (still
   queued, or error_number = -1) — never a thread whose lock() has failed *)
Theorem owner_accounted : forall s, reachable s -> forall m t, owner (mx s m) = Some t ->
  (cnt (th s t) m > 0)%nat \/
  must (pc (th s t)) m = true \/
  (pcwait (pc (th s t)) m = true /\ (In t (wqm (mx s m)) \/ err (th s t) = (-1)%Z)) \/
  (exists c, lm c = m /\ ((pc (th s t) = PS1 (SLock c) /\ err (th s t) = (-1)%Z) \/
                          pc (th s t) = PS2 (SLock c) (-1)%Z \/ pc (th s t) = PLchk c)).
Proof. exact owner_accounted_l. Qed.
Print Assumptions owner_accounted.
(* not left stuck, part 2: a free mutex with waiters has a thread on the way: an unlocker about to wake the head,
   a waiter woken by the hand-off (error_number = -1, out of the queue) that has not yet re-tried, or a thread at
   the CAS under the splock *)
Theorem not_stuck : forall s, reachable s -> forall m,
  owner (mx s m) = None -> wqm (mx s m) <> [] ->
  exists t,
    (exists x, pc (th s t) = PUint m x) \/
    (pcwait (pc (th s t)) m = true /\ wq (th s t) = None /\ ~ In t (wqm (mx s m)) /\ err (th s t) = (-1)%Z) \/
    (exists c, lm c = m /\ ((pc (th s t) = PS1 (SLock c) /\ err (th s t) = (-1)%Z) \/ pc (th s t) = PS2 (SLock c) (-1)%Z \/
                            pc (th s t) = PLchk c \/ pc (th s t) = PLspl c \/ pc (th s t) = PLcas2 c)).
Proof. exact not_stuck_l. Qed.
Print Assumptions not_stuck.
Example not_stuck_hyps : exists s, run (ex_init true false) ex_free_sched = Some s /\ reachable s /\
  owner (mx s 0%nat) = None /\ wqm (mx s 0%nat) = [1%nat] /\ pc (th s 0%nat) = PUint 0%nat 1%nat.
Proof. exact ex_free_with_waiter_l. Qed.
(* ---- exclusion / wait queue / hand-off (also hold for the code before the repair) ------------------------ *)
Theorem mutex_excl_plain : forall s, reachable s ->
  forall m t1 t2, recursive (mx s m) = false ->
    (cnt (th s t1) m > 0)%nat -> (cnt (th s t2) m > 0)%nat -> t1 = t2.
Proof. exact mutex_excl_plain_l. Qed.
Print Assumptions mutex_excl_plain.
Theorem holder_is_owner_plain : forall s, reachable s ->
  forall m t, recursive (mx s m) = false -> (cnt (th s t) m > 0)%nat -> owner (mx s m) = Some t.
Proof. exact holder_is_owner_plain_l. Qed.
Print Assumptions holder_is_owner_plain.
Theorem waitq_consistent : forall s, reachable s -> forall m,
  NoDup (wqm (mx s m)) /\
  forall x, In x (wqm (mx s m)) -> wq (th s x) = Some m /\ st (th s x) = SLEEPING /\ pcwait (pc (th s x)) m = true.
Proof. exact waitq_consistent_l. Qed.
Print Assumptions waitq_consistent.
Theorem handoff_target : forall s, reachable s -> forall u m x,
  pc (th s u) = PUst m (Some x) \/ pc (th s u) = PUint m x ->
  hd_error (wqm (mx s m)) = Some x /\ wq (th s x) = Some m /\ st (th s x) = SLEEPING /\
  tlock (th s x) = Some (HT u) /\ xp (th s x) = false /\ x <> u.
Proof. exact handoff_target_l. Qed.
Print Assumptions handoff_target.
Theorem handoff_excludes : forall s, reachable s -> forall u m x,
  pc (th s u) = PUst m (Some x) \/ pc (th s u) = PUint m x ->
  xp (th s x) = false /\ forall i e, pc (th s i) = PI3 x e -> False.
Proof. exact handoff_excludes_l. Qed.
Print Assumptions handoff_excludes.
Theorem handoff_step : forall s, reachable s -> forall u m x s',
  pc (th s u) = PUint m x -> step s (LStep u) = Some s' ->
  wqm (mx s' m) = tl (wqm (mx s m)) /\ err (th s' x) = (-1)%Z /\ wq (th s' x) = None /\
  (st (th s' x) = READY \/ st (th s' x) = STANDBY) /\ owner (mx s' m) = owner (mx s m) /\
  forall y, y <> x -> In y (wqm (mx s m)) -> In y (wqm (mx s' m)) /\ st (th s' y) = SLEEPING.
Proof. exact handoff_step_l. Qed.
Print Assumptions handoff_step.
(* finding F33 (fixed in /repo, commit 34f175e): BEFORE the repair (PIo2 a plain store) a 33-step schedule ends
   with lock() = -1/EINTR while owner == CURRENT; with the repair the same schedule ends with lock() = 0 *)
Theorem lock_result_refuted :
  exists s, reachable_prefix s /\ aintr s = false /\ lock_failed_but_owner s 1%nat 0%nat.
Proof. exact lock_result_refuted_l. Qed.
Print Assumptions lock_result_refuted.
Theorem f33_schedule_repaired :
  exists s, run f_init (f_sched ++ [LStep 1%nat]) = Some s /\ reachable s /\ aintr s = false /\
            pc (th s 1%nat) = PRet (RLock 0%nat) 0%Z 0%Z /\ owner (mx s 0%nat) = Some 1%nat /\ cnt (th s 1%nat) 0%nat = 1%nat.
Proof. exact f33_schedule_repaired_l. Qed.
Print Assumptions f33_schedule_repaired.
Theorem tas_excl : forall scr s, tas_reach scr s ->
  forall p q, t_ins (tl_th s p) = true -> t_ins (tl_th s q) = true -> p = q.
Proof. exact tas_excl_l. Qed.
Print Assumptions tas_excl.
Theorem ticket_excl : forall scr s, tkl_reach scr s ->
  forall p q, t_ins (kl_th s p) = true -> t_ins (kl_th s q) = true -> p = q.
Proof. exact ticket_excl_l. Qed.
Print Assumptions ticket_excl.
Theorem ticket_fifo : forall scr s, tkl_reach scr s ->
  forall p, t_ins (kl_th s p) = true ->
    kl_tkt s p = Some (kl_serv s) /\
    forall q t, q <> p -> kl_tkt s q = Some t -> (kl_serv s < t < kl_next s)%Z.
Proof. exact ticket_fifo_l. Qed.
Print Assumptions ticket_fifo.
Theorem mcs_excl : forall scr s, qsl_reach scr s ->
  forall p q, t_ins (q_th s p) = true -> t_ins (q_th s q) = true -> p = q.
Proof. exact mcs_excl_l. Qed.
Print Assumptions mcs_excl.
Theorem mcs_locked : forall scr s, qsl_reach scr s -> forall p, t_ins (q_th s p) = true -> q_tail s <> None.
Proof. exact mcs_locked_l. Qed.
Print Assumptions mcs_locked.
