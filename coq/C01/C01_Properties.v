From Coq Require Import ZArith List.
From PV Require Import Base.U64 C01.C01_Model C01.C01_Tac C01.C01_Excl.
Theorem mutex_excl_plain : forall s, reachable s ->
  forall m t1 t2, recursive (mx s m) = false ->
    (cnt (th s t1) m > 0)%nat -> (cnt (th s t2) m > 0)%nat -> t1 = t2.
Proof. exact mutex_excl_plain_l. Qed.
Print Assumptions mutex_excl_plain.
Theorem holder_is_owner_plain : forall s, reachable s ->
  forall m t, recursive (mx s m) = false -> (cnt (th s t) m > 0)%nat -> owner (mx s m) = Some t.
Proof. exact holder_is_owner_plain_l. Qed.
Print Assumptions holder_is_owner_plain.
