From Coq Require Import ZArith List.
From PV Require Import Base.U64 E3.E3_Run C01.C01_Model C01.C01_Tac C01.C01_Excl C01.C01_Inv2 C01.C01_I2
  C01.C01_Handoff C01.C01_Finding C01.C01_Spin_Model C01.C01_Spin_Proofs C01.C01_Mcs C01.C01_Mcs2.
Theorem mutex_excl_plain : forall s, reachable s ->
  forall m t1 t2, recursive (mx s m) = false ->
    (cnt (th s t1) m > 0)%nat -> (cnt (th s t2) m > 0)%nat -> t1 = t2.
Proof. exact mutex_excl_plain_l. Qed.
Print Assumptions mutex_excl_plain.
Theorem holder_is_owner_plain : forall s, reachable s ->
  forall m t, recursive (mx s m) = false -> (cnt (th s t) m > 0)%nat -> owner (mx s m) = Some t.
Proof. exact holder_is_owner_plain_l. Qed.
Print Assumptions holder_is_owner_plain.
Theorem waitq_consistent : forall s, reachable s -> forall m,
  NoDup (wqm (mx s m)) /\
  forall x, In x (wqm (mx s m)) -> wq (th s x) = Some m /\ st (th s x) = SLEEPING /\ pcwait (pc (th s x)) m = true.
Proof. exact waitq_consistent_l. Qed.
Print Assumptions waitq_consistent.
Theorem handoff_target : forall s, reachable s -> forall u m x,
  pc (th s u) = PUst m (Some x) \/ pc (th s u) = PUint m x ->
  hd_error (wqm (mx s m)) = Some x /\ wq (th s x) = Some m /\ st (th s x) = SLEEPING /\
  tlock (th s x) = Some (HT u) /\ xp (th s x) = false /\ x <> u.
Proof. exact handoff_target_l. Qed.
Print Assumptions handoff_target.
Theorem handoff_excludes : forall s, reachable s -> forall u m x,
  pc (th s u) = PUst m (Some x) \/ pc (th s u) = PUint m x ->
  xp (th s x) = false /\ forall i e, pc (th s i) = PI3 x e -> False.
Proof. exact handoff_excludes_l. Qed.
Print Assumptions handoff_excludes.
Theorem handoff_step : forall s, reachable s -> forall u m x s',
  pc (th s u) = PUint m x -> step s (LStep u) = Some s' ->
  wqm (mx s' m) = tl (wqm (mx s m)) /\ err (th s' x) = (-1)%Z /\ wq (th s' x) = None /\
  (st (th s' x) = READY \/ st (th s' x) = STANDBY) /\ owner (mx s' m) = owner (mx s m) /\
  forall y, y <> x -> In y (wqm (mx s m)) -> In y (wqm (mx s' m)) /\ st (th s' y) = SLEEPING.
Proof. exact handoff_step_l. Qed.
Print Assumptions handoff_step.
Theorem lock_result_refuted :
  exists s, reachable s /\ aintr s = false /\ lock_failed_but_owner s 1%nat 0%nat.
Proof. exact lock_result_refuted_l. Qed.
Print Assumptions lock_result_refuted.
Theorem tas_excl : forall scr s, tas_reach scr s ->
  forall p q, t_ins (tl_th s p) = true -> t_ins (tl_th s q) = true -> p = q.
Proof. exact tas_excl_l. Qed.
Print Assumptions tas_excl.
Theorem ticket_excl : forall scr s, tkl_reach scr s ->
  forall p q, t_ins (kl_th s p) = true -> t_ins (kl_th s q) = true -> p = q.
Proof. exact ticket_excl_l. Qed.
Print Assumptions ticket_excl.
Theorem ticket_fifo : forall scr s, tkl_reach scr s ->
  forall p, t_ins (kl_th s p) = true ->
    kl_tkt s p = Some (kl_serv s) /\
    forall q t, q <> p -> kl_tkt s q = Some t -> (kl_serv s < t < kl_next s)%Z.
Proof. exact ticket_fifo_l. Qed.
Print Assumptions ticket_fifo.
Theorem mcs_excl : forall scr s, qsl_reach scr s ->
  forall p q, t_ins (q_th s p) = true -> t_ins (q_th s q) = true -> p = q.
Proof. exact mcs_excl_l. Qed.
Print Assumptions mcs_excl.
Theorem mcs_locked : forall scr s, qsl_reach scr s -> forall p, t_ins (q_th s p) = true -> q_tail s <> None.
Proof. exact mcs_locked_l. Qed.
Print Assumptions mcs_locked.
