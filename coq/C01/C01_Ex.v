(* C01_Ex.v — concrete reachable states that meet the hypotheses of the ownership theorems
   (non-vacuity): computed by running schedules of the model. *)
From Coq Require Import ZArith List Bool Arith.
From PV Require Import Base.U64 C01.C01_Model C01.C01_Tac C01.C01_Finding.
Import ListNotations.
Local Open Scope Z_scope.

Ltac run_ex E :=
  match goal with |- exists s, run ?i ?sc = Some s /\ _ =>
    destruct (run i sc) as [s|] eqn:E; [|vm_compute in E; discriminate];
    exists s; split; [reflexivity|]; split;
    [ eapply reachable_run; [|exact E]; apply reach_init; repeat eexists
    | vm_compute in E; injection E as <-; vm_compute; repeat split; auto; try discriminate ]
  end.

(* threads 0 (holder), 1 (locker with an already expired Timeout); mutex 0 plain *)
Definition ex_init (ct rc : bool) : state :=
  init_state 1000 (fun _ => O) (fun _ => ct) (fun _ => rc) (fun _ => O) false.
Definition ex_timeout_sched : list label :=
  [ LStart 0%nat (MLock 0%nat MAX64); LStep 0%nat; LStep 0%nat;
    LStart 1%nat (MLock 0%nat 0); LStep 1%nat; LStep 1%nat; LStep 1%nat; LStep 1%nat; LStep 1%nat ].
(* lock() has returned -1/ETIMEDOUT at thread 1 while thread 0 is inside *)
Lemma ex_lock_failed_l : exists s, run (ex_init false false) ex_timeout_sched = Some s /\ reachable s /\
  pc (th s 1%nat) = PRet (RLock 0%nat) (-1) ETIMEDOUT /\ owner (mx s 0%nat) = Some 0%nat /\
  (cnt (th s 0%nat) 0%nat > 0)%nat.
Proof. run_ex E. Qed.

(* lock() has returned 0 after a hand-off (the F33 schedule on the repaired code) *)
Lemma ex_lock_handed_l : exists s, run f_init (f_sched ++ [LStep 1%nat]) = Some s /\ reachable s /\
  pc (th s 1%nat) = PRet (RLock 0%nat) 0 0 /\ (cnt (th s 1%nat) 0%nat > 0)%nat.
Proof. run_ex E. Qed.

(* recursive_mutex held twice by thread 0 *)
Definition ex_rec_sched : list label :=
  [ LStart 0%nat (MRLock 0%nat MAX64); LStep 0%nat; LStep 0%nat; LStep 0%nat;
    LStart 0%nat (MRLock 0%nat MAX64); LStep 0%nat ].
Lemma ex_recursive_l : exists s, run (ex_init false true) ex_rec_sched = Some s /\ reachable s /\
  recursive (mx s 0%nat) = true /\ cnt (th s 0%nat) 0%nat = 2%nat /\ owner (mx s 0%nat) = Some 0%nat /\
  rcnt (mx s 0%nat) = 2.
Proof. run_ex E. Qed.

(* contending mutex: the unlocker has stored owner = nullptr and is about to wake the only waiter *)
Definition ex_free_sched : list label :=
  [ LStart 0%nat (MLock 0%nat MAX64); LStep 0%nat; LStep 0%nat;
    LStart 1%nat (MLock 0%nat MAX64); LStep 1%nat; LStep 1%nat; LStep 1%nat; LStep 1%nat; LStep 1%nat; LStep 1%nat;
    LStart 0%nat (MUnlock 0%nat); LStep 0%nat; LStep 0%nat; LStep 0%nat; LStep 0%nat; LStep 0%nat; LStep 0%nat ].
Lemma ex_free_with_waiter_l : exists s, run (ex_init true false) ex_free_sched = Some s /\ reachable s /\
  owner (mx s 0%nat) = None /\ wqm (mx s 0%nat) = [1%nat] /\ pc (th s 0%nat) = PUint 0%nat 1%nat.
Proof. run_ex E. Qed.
