(* C01_Live.v — "the mutex is not left stuck": definitions.  If a mutex is free while threads wait
   in its queue, some thread is on its way to take it or to wake the head (a WITNESS): an unlocker
   about to wake the head, a waiter that has been woken by a hand-off (error_number = -1, out of
   the queue) and has not yet re-tried, or a thread at the CAS under the splock.  The supporting
   clauses: who holds the splock, an unlocker that found the queue empty keeps it empty, a locker
   that is about to enqueue saw the mutex taken, and `thread::waitq` agrees with the queues. *)
From Coq Require Import ZArith List Bool Arith Lia.
From PV Require Import Base.U64 C01.C01_Model C01.C01_Tac C01.C01_Excl C01.C01_Inv2 C01.C01_Eff C01.C01_Cls.
Import ListNotations.
Local Open Scope Z_scope.

Definition ust_none (p : pc_t) : option mid := match p with PUst m None => Some m | _ => None end.
Definition exp_pc (p : pc_t) : option mid := match p with PLexp c | PLenq c => Some (lm c) | _ => None end.

(* how a program point can be a witness for mutex m *)
Inductive wk : Type := WNo | WYes | WIfOut | WIfErr.
Definition wkind (p : pc_t) (m : mid) : wk :=
  match p with
  | PUint m' _ => if Nat.eqb m' m then WYes else WNo              (* about to wake the head *)
  | PLdefer c | PSw (SLock c) => if on c m then WIfOut else WNo   (* woken by the hand-off, not yet running *)
  | PS1 (SLock c) => if on c m then WIfErr else WNo               (* about to read error_number = -1 *)
  | PS2 (SLock c) e => if on c m then (if e =? -1 then WYes else WNo) else WNo
  | PLchk c | PLspl c | PLcas2 c => if on c m then WYes else WNo  (* will (re-)try the CAS *)
  | _ => WNo
  end.
Definition wit_ok (k : wk) (inq : Prop) (e : Z) : Prop :=
  match k with
  | WYes => True
  | WIfOut => ~ inq /\ e = -1
  | WIfErr => e = -1
  | WNo => False
  end.
Definition is_wit (s : state) (m : mid) (t : tid) : Prop :=
  wit_ok (wkind (pc (th s t)) m) (In t (wqm (mx s m))) (err (th s t)).

Record live_inv (s : state) : Prop := mkLive {
  k_spl : forall t m, pc_spl (pc (th s t)) = Some m -> spl (mx s m) = Some t;
  k_ust : forall t m, ust_none (pc (th s t)) = Some m -> wqm (mx s m) = [];
  k_exp : forall t m, exp_pc (pc (th s t)) = Some m -> owner (mx s m) <> None;
  k_wq : forall t m, wq (th s t) = Some m -> In t (wqm (mx s m))
}.
Definition wit_inv (s : state) : Prop :=
  forall m, owner (mx s m) = None -> wqm (mx s m) <> [] -> exists t, is_wit s m t.

Lemma live_inv_init s : is_init s -> live_inv s.
Proof.
  intros (nw & re & ct & rc & v & ai & ->). constructor; cbn; intros; try discriminate; try congruence.
Qed.
Lemma wit_inv_init s : is_init s -> wit_inv s.
Proof. intros (nw & re & ct & rc & v & ai & ->) m _ H. cbn in H. congruence. Qed.

Lemma ust_none_spl p m : ust_none p = Some m -> pc_spl p = Some m.
Proof. destruct p; cbn; try discriminate. destruct h; [discriminate|]. auto. Qed.
Lemma exp_pc_spl p m : exp_pc p = Some m -> pc_spl p = Some m.
Proof. destruct p; cbn; try discriminate; auto. Qed.
Lemma rm_nil_inv x (l : list tid) : rm x l <> [] -> l <> [].
Proof. destruct l; cbn; congruence. Qed.

(* a SLEEPING thread is never a witness: it is still in the queue *)
Lemma sleeping_not_wit s x m : inv2 s -> st (th s x) = SLEEPING -> is_wit s m x -> False.
Proof.
  intros H2 Hs Hw. unfold is_wit in Hw.
  pose proof (i2_slp1 _ H2 x Hs) as Hp. pose proof (i2_slp2 _ H2 x m Hs) as Hq.
  destruct (pc (th s x)); cbn in Hp; try discriminate Hp; cbn [wkind pcwait] in *;
    try (destruct k; cbn [wkind pcwait] in * );
    repeat match goal with H : context [on ?c m] |- _ => destruct (on c m) end; cbn [wit_ok] in Hw; tauto.
Qed.
Lemma wkind_pcwait p m : pcwait p m = true -> wkind p m = WIfOut.
Proof. destruct p; cbn; try discriminate; try (destruct k; cbn; try discriminate); intros ->; reflexivity. Qed.
