(* C01_Excl.v — tier 1: mutual exclusion of photon::mutex / recursive_mutex.
   Holds for the code AS WRITTEN (aintr = false as well as true), every interleaving, any
   number of threads / vCPUs / mutexes. *)
From Coq Require Import ZArith List Bool Arith Lia.
From PV Require Import Base.U64 C01.C01_Model C01.C01_Tac.
Import ListNotations.
Local Open Scope Z_scope.

Definition on (c : lctx) (m : mid) : bool := Nat.eqb (lm c) m.

(* program points at which thread t MUST be the owner of m *)
Definition must (p : pc_t) (m : mid) : bool :=
  match p with
  | PLok c => on c m
  | PUspl m' | PUhd m' | PUlk m' _ | PUre m' _ | PUunl m' _ | PUst m' _ => Nat.eqb m' m
  | _ => false
  end.

(* t is inside lock()/try_lock()/do_mutex_unlock() of m *)
Definition incode (p : pc_t) (m : mid) : bool :=
  match p with
  | PY1 (YLock c _) | PY2 (YLock c _) | PYw (YLock c _) | PY3 (YLock c _) => on c m
  | PL0 c | PLcas1 c _ | PLspl c | PLcas2 c | PLok c | PLexp c | PLto c | PLenq c | PLdefer c | PLchk c => on c m
  | PSw (SLock c) | PS1 (SLock c) | PS2 (SLock c) _ => on c m
  | PT0 m' _ => Nat.eqb m' m
  | PUspl m' | PUhd m' | PUlk m' _ | PUre m' _ | PUunl m' _ | PUst m' _
  | PUint m' _ | PUrel m' _ | PUunspl m' => Nat.eqb m' m
  | _ => false
  end.

(* the `called through recursive_mutex` flag carried by a program point, with its mutex *)
Definition pc_flag (p : pc_t) : option (mid * bool) :=
  match p with
  | PY1 (YLock c _) | PY2 (YLock c _) | PYw (YLock c _) | PY3 (YLock c _) => Some (lm c, lrc c)
  | PL0 c | PLcas1 c _ | PLspl c | PLcas2 c | PLok c | PLexp c | PLto c | PLenq c | PLdefer c | PLchk c => Some (lm c, lrc c)
  | PSw (SLock c) | PS1 (SLock c) | PS2 (SLock c) _ => Some (lm c, lrc c)
  | PT0 m b | PU0 m b => Some (m, b)
  | PR0 c => Some (lm c, lrc c)
  | PRT0 m => Some (m, true)
  | _ => None
  end.
Definition is_R0 (p : pc_t) : bool := match p with PR0 c => negb (lrc c) | _ => false end.

Record inv1_at (s : state) (t : tid) (m : mid) : Prop := mkInv1 {
  i1_cnt_owner : recursive (mx s m) = false -> (cnt (th s t) m > 0)%nat -> owner (mx s m) = Some t;
  i1_must : recursive (mx s m) = false -> must (pc (th s t)) m = true -> owner (mx s m) = Some t;
  i1_incode : recursive (mx s m) = false -> incode (pc (th s t)) m = true -> cnt (th s t) m = O;
  i1_plain : recursive (mx s m) = false -> (cnt (th s t) m <= 1)%nat;
  i1_flag : forall b, pc_flag (pc (th s t)) = Some (m, b) -> b = recursive (mx s m);
  i1_r0 : is_R0 (pc (th s t)) = false
}.
Definition inv1 (s : state) : Prop := forall t m, inv1_at s t m.

Lemma inv1_init s : is_init s -> inv1 s.
Proof.
  intros (nw & re & ct & rc & v & ai & ->) t m.
  constructor; cbn; intros; try congruence; try lia; auto.
Qed.

Ltac eqb_tac :=
  repeat match goal with
  | H : context [Nat.eqb ?a ?a] |- _ => rewrite Nat.eqb_refl in H
  | |- context [Nat.eqb ?a ?a] => rewrite Nat.eqb_refl
  | H : context [Nat.eqb ?a ?b] |- _ => destruct (Nat.eqb_spec a b); [subst|]
  | |- context [Nat.eqb ?a ?b] => destruct (Nat.eqb_spec a b); [subst|]
  end.

Ltac boolfacts :=
  repeat match goal with
  | H : opt_tid_eqb _ _ = true |- _ => apply opt_tid_eqb_true in H
  | H : opt_tid_eqb _ _ = false |- _ => apply opt_tid_eqb_false in H
  | H : (_ || _)%bool = false |- _ => apply orb_false_elim in H; destruct H
  | H : negb _ = false |- _ => apply negb_false_iff in H
  | H : Nat.eqb _ _ = true |- _ => apply Nat.eqb_eq in H
  | H : (_ <? _) = true |- _ => apply Z.ltb_lt in H
  | H : (_ <? _) = false |- _ => apply Z.ltb_ge in H
  end.

Ltac rwpc :=
  repeat match goal with
  | Hp : pc (th ?s ?a) = _ |- _ => progress (rewrite Hp in * )
  end.
Ltac injs :=
  repeat match goal with
  | H : Some _ = Some _ |- _ => injection H as H; subst
  | H : (_, _) = (_, _) |- _ => injection H as ? ?; subst
  | H : Some _ = None |- _ => discriminate H
  | H : None = Some _ |- _ => discriminate H
  | H : false = true |- _ => discriminate H
  | H : true = false |- _ => discriminate H
  end.
Ltac dvars :=
  repeat match goal with
  | |- context [match ?k with _ => _ end] => is_var k; destruct k
  | H : context [match ?k with _ => _ end] |- _ => is_var k; destruct k
  | |- context [match ?k with _ => _ end] => destruct k eqn:?
  | H : context [match ?k with _ => _ end] |- _ => destruct k eqn:?
  end.
Ltac specflag :=
  repeat match goal with
  | H : forall b : bool, Some (?m, ?x) = Some (?m, b) -> _ |- _ => specialize (H _ eq_refl)
  end.
Ltac fin1 :=
  unfold upd, on, after_fail in *; cbn in *; rwpc; cbn in *; dvars; cbn in *; intros; injs;
  eqb_tac; cbn in *; boolfacts; injs; subst; cbn in *; specflag.
Ltac syms :=
  repeat match goal with H : ?x = ?x |- _ => clear H end;
  repeat match goal with
  | H : true = ?x |- _ => tryif is_var x then fail else (symmetry in H)
  | H : false = ?x |- _ => tryif is_var x then fail else (symmetry in H)
  end.
Ltac cnt_split :=
  repeat match goal with
  | H : (?n > 0)%nat -> _ |- _ =>
      let E := fresh "E" in destruct (Nat.eq_dec n 0) as [E|E]; [clear H | specialize (H ltac:(lia))]
  end.
Ltac fin2 := syms; cnt_split; try solve [ intuition (eauto 2; try congruence; try lia) ].
Ltac fin :=
  fin1; try solve [ intuition (eauto 2; try congruence; try lia) ];
  fin1; try solve [ intuition (eauto 2; try congruence; try lia) ].

(* the generic pointwise argument: look at thread t0 / mutex m0; bring in the invariant at
   (t0, m0) and at the acting thread (a, m0); split on whether t0 / m0 are the ones touched *)
Ltac pointwise H a :=
  intros t0 m0;
  pose proof (H t0 m0) as [? ? ? ? ? ?];
  pose proof (H a m0) as [? ? ? ? ? ?];
  constructor; fin.

Lemma inv1_step s l s' : inv1 s -> step s l = Some s' -> inv1 s'.
Proof.
  intros H Hs. destruct l as [a o|a|a|a|a|a|d]; cbn [step] in Hs.
  - (* start *)
    unfold start in Hs. destruct (pc (th s a)) eqn:Hpc; try discriminate.
    destruct o; split_ifs Hs; try discriminate; injection Hs as <-; norm; pointwise H a.
  - (* thread step *)
    unfold tstep in Hs. cbv zeta in Hs.
    destruct (pc (th s a)) eqn:Hpc; unfold try_lock in Hs; split_ifs Hs; try discriminate;
      injection Hs as <-; norm; try assumption; pointwise H a.
    all: fin2.
  - unfold sched in Hs. split_ifs Hs; try discriminate; injection Hs as <-; norm; pointwise H a.
  - unfold drain in Hs. split_ifs Hs; try discriminate; injection Hs as <-; norm; pointwise H a.
  - unfold exp_lock in Hs. split_ifs Hs; try discriminate; injection Hs as <-; norm; try assumption; pointwise H a.
  - unfold exp_body in Hs. split_ifs Hs; try discriminate; injection Hs as <-; norm; pointwise H a.
  - split_ifs Hs; try discriminate; injection Hs as <-. intros t m. destruct (H t m); constructor; cbn; auto.
Qed.

Lemma inv1_reachable s : reachable s -> inv1 s.
Proof.
  apply reachable_ind_inv; [exact inv1_init|].
  intros s0 l s' _ H Hs. eapply inv1_step; eauto.
Qed.

(* mutex_excl for mutex / seq_mutex objects, for the code exactly as written (no idealisation):
   at most one thread is between a lock()/try_lock() that returned 0 and its unlock(). *)
Lemma mutex_excl_plain_l s : reachable s ->
  forall m t1 t2, recursive (mx s m) = false ->
    (cnt (th s t1) m > 0)%nat -> (cnt (th s t2) m > 0)%nat -> t1 = t2.
Proof.
  intros Hr m t1 t2 Hp H1 H2. pose proof (inv1_reachable s Hr) as HI.
  pose proof (i1_cnt_owner _ _ _ (HI t1 m) Hp H1). pose proof (i1_cnt_owner _ _ _ (HI t2 m) Hp H2). congruence.
Qed.
Lemma holder_is_owner_plain_l s : reachable s ->
  forall m t, recursive (mx s m) = false -> (cnt (th s t) m > 0)%nat -> owner (mx s m) = Some t.
Proof. intros Hr m t Hp H1. exact (i1_cnt_owner _ _ _ (inv1_reachable s Hr t m) Hp H1). Qed.
Lemma plain_depth_le_1_l s : reachable s ->
  forall m t, recursive (mx s m) = false -> (cnt (th s t) m <= 1)%nat.
Proof. intros Hr m t Hp. exact (i1_plain _ _ _ (inv1_reachable s Hr t m) Hp). Qed.
