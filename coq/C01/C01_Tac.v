(* C01_Tac.v — reachability, and the case-analysis tactics shared by the invariant proofs. *)
From Coq Require Import ZArith List Bool Arith Lia.
From PV Require Import Base.U64 C01.C01_Model.
Import ListNotations.
Local Open Scope Z_scope.

(* any schedule, any length, from any initial state *)
Definition is_init (s : state) : Prop :=
  exists nw re ct rc v ai, s = init_state nw re ct rc v ai.

Inductive reachable : state -> Prop :=
| reach_init : forall s, is_init s -> reachable s
| reach_step : forall s l s', reachable s -> step s l = Some s' -> reachable s'.

Lemma reachable_run s ls s' : reachable s -> run s ls = Some s' -> reachable s'.
Proof.
  intros H. revert s H. induction ls as [|l r IH]; intros s H Hr; cbn in Hr.
  - inversion Hr; subst; exact H.
  - destruct (step s l) eqn:E; [|discriminate]. eapply IH; [|exact Hr]. eapply reach_step; eauto.
Qed.

Lemma reachable_ind_inv (P : state -> Prop) :
  (forall s, is_init s -> P s) ->
  (forall s l s', reachable s -> P s -> step s l = Some s' -> P s') ->
  forall s, reachable s -> P s.
Proof. intros Hi Hs s H. induction H; eauto. Qed.

Lemma upd_eq {A} (f : nat -> A) k v : upd f k v k = v.
Proof. unfold upd. now rewrite Nat.eqb_refl. Qed.
Lemma upd_neq {A} (f : nat -> A) k v i : i <> k -> upd f k v i = f i.
Proof. unfold upd. intros H. destruct (Nat.eqb_spec i k); congruence. Qed.

Lemma opt_tid_eqb_true a t : opt_tid_eqb a t = true <-> a = Some t.
Proof.
  destruct a as [x|]; cbn; [|split; discriminate].
  destruct (Nat.eqb_spec x t); split; intros; congruence.
Qed.
Lemma opt_tid_eqb_false a t : opt_tid_eqb a t = false <-> a <> Some t.
Proof.
  destruct (opt_tid_eqb a t) eqn:E.
  - apply opt_tid_eqb_true in E. split; [discriminate|congruence].
  - split; [|reflexivity]. intros _ H. apply opt_tid_eqb_true in H. congruence.
Qed.
Lemma tstate_eqb_true a b : tstate_eqb a b = true <-> a = b.
Proof. destruct a, b; cbn; split; intros; congruence. Qed.
Lemma tstate_eqb_false a b : tstate_eqb a b = false <-> a <> b.
Proof. destruct a, b; cbn; split; intros; congruence. Qed.

(* split every `if`/`match` scrutinee inside hypothesis H (a `... = Some s'`) *)
Ltac split_ifs H :=
  repeat match type of H with
  | context [if ?b then _ else _] => destruct b eqn:?
  | context [match ?x with _ => _ end] => destruct x eqn:?
  end.

(* unfold one thread step completely and generate one goal per enabled outcome *)
Ltac open_step H :=
  unfold tstep, start, sched, drain, exp_lock, exp_body, try_lock in H;
  cbv zeta in H;
  split_ifs H; try discriminate H;
  injection H as H; subst.

Ltac upd_tac :=
  repeat first
    [ rewrite upd_eq in *
    | rewrite upd_neq in * by congruence ].

Ltac case_tid a b := destruct (Nat.eq_dec a b) as [?|?]; [subst|].

(* normalise record/state projections of updated states *)
Ltac norm :=
  unfold ret_lock, after_sleep, intr_out, intr_fin, acquired, prelocked_interrupt, dequeue, goto, setT, setM in *;
  cbn [th mx now vc aintr st err wq ts tlock pc xp cnt owner spl wqm rcnt retries contending recursive
       set_owner set_spl set_wqm set_rcnt set_st set_err set_wq set_ts set_tlock set_pc set_xp set_cnt
       lm ldl lrc] in *.
