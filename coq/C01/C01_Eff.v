(* C01_Eff.v — LEAN case analysis of `step` (the post-state stays a folded expression: goto / setT /
   setM / acquired / prelocked_interrupt / dequeue), and the "effect" lemmas: what each of these
   state transformers does to every field the invariants look at.  Used by the ownership
   invariant (C01_J*.v) and the liveness clauses (C01_K*.v). *)
From Coq Require Import ZArith List Bool Arith Lia.
From PV Require Import Base.U64 C01.C01_Model C01.C01_Tac C01.C01_Excl C01.C01_Inv2.
Import ListNotations.
Local Open Scope Z_scope.

(* ---- the result-carrying helpers at the literals the code passes ---------------------------- *)
Lemma ret_lock_0 s t c e :
  ret_lock s t c 0 e = goto (acquired s t (lm c) (lrc c)) t (PRet (RLock (lm c)) 0 e).
Proof. reflexivity. Qed.
Lemma ret_lock_m1 s t c e : ret_lock s t c (-1) e = goto s t (PRet (RLock (lm c)) (-1) e).
Proof. reflexivity. Qed.
Lemma after_sleep_l0 s t c :
  after_sleep s t (SLock c) 0 0 = goto s t (PRet (RLock (lm c)) (-1) ETIMEDOUT).
Proof. reflexivity. Qed.
Lemma after_sleep_lm1 s t c e :
  after_sleep s t (SLock c) (-1) e =
  if e =? -1 then goto s t (PLchk c) else goto s t (PRet (RLock (lm c)) (-1) e).
Proof. unfold after_sleep. cbn [andb Z.ltb Z.compare]. destruct (e =? -1); reflexivity. Qed.
Lemma after_sleep_op s t r e : after_sleep s t SOp r e = goto s t (PRet ROther r e).
Proof. reflexivity. Qed.

(* ---- acquired -------------------------------------------------------------------------------- *)
Lemma th_acquired s t m rc t' :
  th (acquired s t m rc) t' =
  upd (th s) t (set_cnt (th s t) (upd (cnt (th s t)) m (S (cnt (th s t) m)))) t'.
Proof. unfold acquired. destruct rc; reflexivity. Qed.
Lemma owner_acquired s t m rc m' : owner (mx (acquired s t m rc) m') = owner (mx s m').
Proof.
  unfold acquired. destruct rc; [|reflexivity]. cbn [mx setM setT]. unfold upd.
  destruct (Nat.eqb m' m) eqn:E; [|reflexivity]. apply Nat.eqb_eq in E. subst. reflexivity.
Qed.
Lemma wqm_acquired s t m rc m' : wqm (mx (acquired s t m rc) m') = wqm (mx s m').
Proof.
  unfold acquired. destruct rc; [|reflexivity]. cbn [mx setM setT]. unfold upd.
  destruct (Nat.eqb m' m) eqn:E; [|reflexivity]. apply Nat.eqb_eq in E. subst. reflexivity.
Qed.
Lemma spl_acquired s t m rc m' : spl (mx (acquired s t m rc) m') = spl (mx s m').
Proof.
  unfold acquired. destruct rc; [|reflexivity]. cbn [mx setM setT]. unfold upd.
  destruct (Nat.eqb m' m) eqn:E; [|reflexivity]. apply Nat.eqb_eq in E. subst. reflexivity.
Qed.
Lemma recursive_acquired s t m rc m' : recursive (mx (acquired s t m rc) m') = recursive (mx s m').
Proof.
  unfold acquired. destruct rc; [|reflexivity]. cbn [mx setM setT]. unfold upd.
  destruct (Nat.eqb m' m) eqn:E; [|reflexivity]. apply Nat.eqb_eq in E. subst. reflexivity.
Qed.
Lemma contending_acquired s t m rc m' : contending (mx (acquired s t m rc) m') = contending (mx s m').
Proof.
  unfold acquired. destruct rc; [|reflexivity]. cbn [mx setM setT]. unfold upd.
  destruct (Nat.eqb m' m) eqn:E; [|reflexivity]. apply Nat.eqb_eq in E. subst. reflexivity.
Qed.
Lemma rcnt_acquired s t m rc m' :
  rcnt (mx (acquired s t m rc) m') = if rc && Nat.eqb m' m then rcnt (mx s m') + 1 else rcnt (mx s m').
Proof.
  unfold acquired. destruct rc; [|reflexivity]. cbn [mx setM setT andb]. unfold upd.
  destruct (Nat.eqb m' m) eqn:E; [|reflexivity]. apply Nat.eqb_eq in E. subst. reflexivity.
Qed.

(* ---- dequeue / prelocked_interrupt ----------------------------------------------------------- *)
Ltac deq_th :=
  intros; unfold prelocked_interrupt, dequeue; cbn [th mx setT setM wq set_err];
  repeat match goal with |- context [match ?w with Some _ => _ | None => _ end] => destruct w end;
  cbn [th mx setT setM]; unfold upd;
  repeat match goal with |- context [Nat.eqb ?i ?k] => destruct (Nat.eqb_spec i k); [subst|] end;
  cbn [st err wq ts tlock pc xp cnt set_st set_err set_wq]; try reflexivity; try congruence.

Lemma pc_dequeue s x ns t : pc (th (dequeue s x ns) t) = pc (th s t). Proof. deq_th. Qed.
Lemma err_dequeue s x ns t : err (th (dequeue s x ns) t) = err (th s t). Proof. deq_th. Qed.
Lemma tlock_dequeue s x ns t : tlock (th (dequeue s x ns) t) = tlock (th s t). Proof. deq_th. Qed.
Lemma xp_dequeue s x ns t : xp (th (dequeue s x ns) t) = xp (th s t). Proof. deq_th. Qed.
Lemma cnt_dequeue s x ns t : cnt (th (dequeue s x ns) t) = cnt (th s t). Proof. deq_th. Qed.
Lemma st_dequeue s x ns t : st (th (dequeue s x ns) t) = upd (fun i => st (th s i)) x ns t.
Proof. deq_th. Qed.
Lemma wq_dequeue s x ns t : wq (th (dequeue s x ns) t) = upd (fun i => wq (th s i)) x None t.
Proof.
  unfold dequeue. destruct (wq (th s x)) eqn:E; cbn [th mx setT setM]; unfold upd;
    destruct (Nat.eqb_spec t x); subst; rewrite ?Nat.eqb_refl; cbn [wq set_st set_wq]; congruence.
Qed.

Ltac deq_mx :=
  intros; unfold prelocked_interrupt, dequeue; cbn [th mx setT setM wq set_err];
  repeat match goal with |- context [match ?w with Some _ => _ | None => _ end] => destruct w end;
  cbn [th mx setT setM]; unfold upd;
  repeat match goal with |- context [Nat.eqb ?i ?k] => destruct (Nat.eqb_spec i k); [subst|] end; reflexivity.
Lemma owner_dequeue s x ns m : owner (mx (dequeue s x ns) m) = owner (mx s m). Proof. deq_mx. Qed.
Lemma spl_dequeue s x ns m : spl (mx (dequeue s x ns) m) = spl (mx s m). Proof. deq_mx. Qed.
Lemma rcnt_dequeue s x ns m : rcnt (mx (dequeue s x ns) m) = rcnt (mx s m). Proof. deq_mx. Qed.
Lemma recursive_dequeue s x ns m : recursive (mx (dequeue s x ns) m) = recursive (mx s m). Proof. deq_mx. Qed.
Lemma contending_dequeue s x ns m : contending (mx (dequeue s x ns) m) = contending (mx s m). Proof. deq_mx. Qed.

Lemma rm_notin x l : ~ In x l -> rm x l = l.
Proof.
  induction l as [|z l IH]; cbn; [reflexivity|]. intros H.
  destruct (Nat.eqb_spec z x); [subst; tauto|]. f_equal. apply IH. tauto.
Qed.
(* a thread is only in the queue its `waitq` field names: then dequeue is `rm` on EVERY queue *)
Lemma wqm_dequeue s x ns m :
  (forall m', In x (wqm (mx s m')) -> wq (th s x) = Some m') ->
  wqm (mx (dequeue s x ns) m) = rm x (wqm (mx s m)).
Proof.
  intros H. unfold dequeue. destruct (wq (th s x)) as [m1|] eqn:E; cbn [th mx setT setM]; unfold upd.
  - destruct (Nat.eqb_spec m m1); [subst; reflexivity|].
    symmetry. apply rm_notin. intros Hi. apply H in Hi. congruence.
  - symmetry. apply rm_notin. intros Hi. apply H in Hi. congruence.
Qed.

Lemma pc_prelocked s a x e t : pc (th (prelocked_interrupt s a x e) t) = pc (th s t). Proof. deq_th. Qed.
Lemma tlock_prelocked s a x e t : tlock (th (prelocked_interrupt s a x e) t) = tlock (th s t). Proof. deq_th. Qed.
Lemma xp_prelocked s a x e t : xp (th (prelocked_interrupt s a x e) t) = xp (th s t). Proof. deq_th. Qed.
Lemma cnt_prelocked s a x e t : cnt (th (prelocked_interrupt s a x e) t) = cnt (th s t). Proof. deq_th. Qed.
Lemma err_prelocked s a x e t :
  err (th (prelocked_interrupt s a x e) t) = upd (fun i => err (th s i)) x e t.
Proof. deq_th. Qed.
Lemma st_prelocked s a x e t :
  st (th (prelocked_interrupt s a x e) t) =
  upd (fun i => st (th s i)) x (if Nat.eqb (vc s a) (vc s x) then READY else STANDBY) t.
Proof. unfold prelocked_interrupt. rewrite st_dequeue. cbn [th setT vc]. unfold upd. destruct (Nat.eqb t x); reflexivity. Qed.
Lemma wq_prelocked s a x e t :
  wq (th (prelocked_interrupt s a x e) t) = upd (fun i => wq (th s i)) x None t.
Proof. unfold prelocked_interrupt. rewrite wq_dequeue. cbn [th setT]. unfold upd. destruct (Nat.eqb t x); reflexivity. Qed.
Lemma owner_prelocked s a x e m : owner (mx (prelocked_interrupt s a x e) m) = owner (mx s m).
Proof. unfold prelocked_interrupt. now rewrite owner_dequeue. Qed.
Lemma spl_prelocked s a x e m : spl (mx (prelocked_interrupt s a x e) m) = spl (mx s m).
Proof. unfold prelocked_interrupt. now rewrite spl_dequeue. Qed.
Lemma rcnt_prelocked s a x e m : rcnt (mx (prelocked_interrupt s a x e) m) = rcnt (mx s m).
Proof. unfold prelocked_interrupt. now rewrite rcnt_dequeue. Qed.
Lemma recursive_prelocked s a x e m : recursive (mx (prelocked_interrupt s a x e) m) = recursive (mx s m).
Proof. unfold prelocked_interrupt. now rewrite recursive_dequeue. Qed.
Lemma contending_prelocked s a x e m : contending (mx (prelocked_interrupt s a x e) m) = contending (mx s m).
Proof. unfold prelocked_interrupt. now rewrite contending_dequeue. Qed.
Lemma wqm_prelocked s a x e m :
  (forall m', In x (wqm (mx s m')) -> wq (th s x) = Some m') ->
  wqm (mx (prelocked_interrupt s a x e) m) = rm x (wqm (mx s m)).
Proof.
  intros H. unfold prelocked_interrupt. rewrite wqm_dequeue; [reflexivity|].
  cbn [th mx setT]. rewrite upd_eq. cbn [wq set_err]. exact H.
Qed.

Lemma inv2_wq_of_in s x : inv2 s -> forall m', In x (wqm (mx s m')) -> wq (th s x) = Some m'.
Proof. intros H m' Hi. apply (i2_wq _ H x m' Hi). Qed.

#[global] Arguments dequeue : simpl never.
#[global] Arguments prelocked_interrupt : simpl never.
#[global] Arguments acquired : simpl never.

Create HintDb c01eff discriminated.
#[export] Hint Rewrite th_acquired owner_acquired wqm_acquired spl_acquired recursive_acquired contending_acquired
  rcnt_acquired pc_dequeue err_dequeue tlock_dequeue xp_dequeue cnt_dequeue st_dequeue wq_dequeue
  owner_dequeue spl_dequeue rcnt_dequeue recursive_dequeue contending_dequeue
  pc_prelocked tlock_prelocked xp_prelocked cnt_prelocked err_prelocked st_prelocked wq_prelocked
  owner_prelocked spl_prelocked rcnt_prelocked recursive_prelocked contending_prelocked : c01eff.

(* ---- the case analysis: one goal per enabled outcome, `a` = the acting thread, the post-state
        substituted into the GOAL as a folded expression (nothing is normalised) ------------------ *)
Ltac rets_in H := rewrite ?after_sleep_l0, ?after_sleep_lm1, ?after_sleep_op, ?ret_lock_0, ?ret_lock_m1 in H.
Ltac rets_goal := rewrite ?ret_lock_0, ?ret_lock_m1.
Lemma Some_inj {A} (x y : A) : Some x = Some y -> x = y.
Proof. congruence. Qed.
(* (not `injection`: it head-normalises the post-state) *)
Ltac close_case Hs := split_ifs Hs; try discriminate Hs; apply Some_inj in Hs; subst; rets_goal.
Ltac scases Hs :=
  match type of Hs with
  | step ?s ?l = Some ?s' =>
      destruct l as [a o|a|a|a|a|a|d]; cbn [step] in Hs;
      [ unfold start in Hs; destruct (pc (th s a)) eqn:Hpc; try discriminate Hs;
        destruct o; close_case Hs
      | unfold tstep in Hs; cbv zeta in Hs;
        destruct (pc (th s a)) eqn:Hpc;
        try (match type of Hs with context [after_sleep _ _ ?k _ _] => destruct k end);
        rets_in Hs;
        unfold try_lock, intr_out, intr_fin, after_fail in Hs; cbv zeta in Hs;
        close_case Hs
      | unfold sched in Hs; cbv zeta in Hs; close_case Hs
      | unfold drain in Hs; cbv zeta in Hs; close_case Hs
      | unfold exp_lock in Hs; cbv zeta in Hs; close_case Hs
      | unfold exp_body in Hs;
        destruct (xp (th s a)) eqn:Hxp; [|discriminate Hs];
        destruct (tstate_eqb (st (th s a)) SLEEPING) eqn:Hst; apply Some_inj in Hs; subst s'
      | close_case Hs ]
  end.

(* ---- project the post-state down to fields of `s`, deciding index equalities on the way ------- *)
Ltac obs_cbn :=
  progress cbn [th mx now vc aintr goto setT setM st err wq ts tlock pc xp cnt owner spl wqm rcnt retries
                contending recursive set_owner set_spl set_wqm set_rcnt set_st set_err set_wq set_ts
                set_tlock set_pc set_xp set_cnt lm ldl lrc].
Ltac obs_upd :=
  match goal with
  | |- context [upd ?f ?k ?v ?k] => rewrite (upd_eq f k v)
  | H : ?i <> ?k |- context [upd ?f ?k ?v ?i] => rewrite (upd_neq f k v i H)
  | H : ?k <> ?i |- context [upd ?f ?k ?v ?i] => rewrite (upd_neq f k v i (not_eq_sym H))
  | |- context [upd ?f ?k ?v ?i] =>
      let E := fresh "E" in
      destruct (Nat.eq_dec i k) as [E|E]; [first [subst i | subst k | rewrite E in *]|]
  end.
Ltac obs H2 :=
  repeat first
    [ obs_cbn
    | progress autorewrite with c01eff
    | rewrite (wqm_dequeue _ _ _ _ (inv2_wq_of_in _ _ H2))
    | rewrite (wqm_prelocked _ _ _ _ _ (inv2_wq_of_in _ _ H2))
    | obs_upd ].

(* decide the Nat.eqb tests that the class functions leave behind *)
Ltac eqb_goal :=
  repeat match goal with
  | |- context [Nat.eqb ?a ?a] => rewrite (Nat.eqb_refl a)
  | H : ?a <> ?b |- context [Nat.eqb ?a ?b] => rewrite (proj2 (Nat.eqb_neq a b) H)
  | H : ?b <> ?a |- context [Nat.eqb ?a ?b] => rewrite (proj2 (Nat.eqb_neq a b) (not_eq_sym H))
  | |- context [Nat.eqb ?a ?b] =>
      let E := fresh "E" in destruct (Nat.eqb_spec a b) as [E|E]; [first [subst b | subst a | rewrite E in *]|]
  end.
