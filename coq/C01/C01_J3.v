(* C01_J3.v — preservation of own_inv's clauses about recursive_mutex::recursive_count:
   j_rc0 (0 while the object is free or is a plain mutex) and j_rc (= the owner's depth). *)
From Coq Require Import ZArith List Bool Arith Lia.
From PV Require Import Base.U64 C01.C01_Model C01.C01_Tac C01.C01_Excl C01.C01_Inv2 C01.C01_Eff C01.C01_Cls.
Import ListNotations.
Local Open Scope Z_scope.

(* facts about the acting thread at mutex m0: its class, the flag of its operation, recursive_count *)
Ltac rc_pose H1 H2 H3 :=
  match goal with |- context [recursive (mx _ ?m0)] =>
  pose proof (j_rc0 _ H3 m0) as Hr0;
  match goal with Hp : pc (th ?s ?a) = _ |- _ =>
    pose proof (j_cls _ H3 a m0) as Ha; rewrite Hp in Ha;
    pose proof (j_rc _ H3 a m0) as Hra;
    pose proof (fun b => flag_rec s a m0 b H1) as Hf; rewrite Hp in Hf; cbn [pc_flag] in Hf
  end end.
Ltac flag_use :=
  repeat match goal with
  | Hf : forall b : bool, Some (?m, ?x) = Some (?m, b) -> _ |- _ => specialize (Hf _ eq_refl)
  | Hf : forall b : bool, None = Some _ -> _ |- _ => clear Hf
  | Hf : forall b : bool, Some (?m, _) = Some (?m', b) -> _, E : ?m <> ?m' |- _ => clear Hf
  end.
Ltac rc_fin :=
  rewrite ?andb_false_r, ?andb_true_r in *;
  try match goal with Hf : ?b = recursive _ |- _ =>
        first [ constr_eq b true; symmetry in Hf | constr_eq b false; symmetry in Hf | rewrite Hf in * ] end;
  try match goal with
      | |- context [recursive (mx ?s ?m)] => destruct (recursive (mx s m)) eqn:?
      | H : context [recursive (mx ?s ?m)] |- _ => destruct (recursive (mx s m)) eqn:?
      end;
  cbn [andb] in *;
  solve [ intuition (try congruence; try lia) ].

Lemma j_rc0_step s l s' : inv1 s -> inv2 s -> own_inv s -> step s l = Some s' ->
  forall m, owner (mx s' m) = None \/ recursive (mx s' m) = false -> rcnt (mx s' m) = 0.
Proof.
  intros H1 H2 H3 Hs. scases Hs.
  all: intros m0; obs H2.
  all: try exact (j_rc0 _ H3 _).
  all: rc_pose H1 H2 H3; clear H1 H2 H3; cls_leaf; cbn [lm lrc] in *; flag_use; boolfacts.
  all: rc_fin.
Qed.

(* the flag facts for (a, m0); class facts of a and of the thread looked at *)
Ltac rc_pose2 H1 H2 H3 :=
  match goal with |- recursive (mx _ ?m0) = true -> _ = Some ?t0 -> _ =>
  pose proof (j_rc0 _ H3 m0) as Hr0; pose proof (j_rc _ H3 t0 m0) as Hrt;
  match goal with Hp : pc (th ?s ?a) = _ |- _ =>
    pose proof (j_cls _ H3 a m0) as Ha; rewrite Hp in Ha;
    pose proof (j_rc _ H3 a m0) as Hra;
    pose proof (fun b => flag_rec s a m0 b H1) as Hf; rewrite Hp in Hf; cbn [pc_flag] in Hf;
    try match goal with Hq : pc (th s a) = PUst ?m (Some ?x) |- _ =>
      pose proof (ust_facts s a m x H2 Hq) as (_ & _ & Hkx & _ & _ & Hne);
      pose proof (j_cls _ H3 x m) as Hx; rewrite Hkx in Hx end
  end end.

Lemma j_rc_step s l s' : inv1 s -> inv2 s -> own_inv s -> step s l = Some s' ->
  forall t m, recursive (mx s' m) = true -> owner (mx s' m) = Some t ->
              rcnt (mx s' m) = Z.of_nat (cnt (th s' t) m).
Proof.
  intros H1 H2 H3 Hs. scases Hs.
  all: intros t0 m0; obs H2.
  all: try exact (j_rc _ H3 _ _).
  all: rc_pose2 H1 H2 H3; clear H1 H2 H3; cls_leaf; cbn [lm lrc] in *; flag_use; boolfacts.
  all: rc_fin.
Qed.
