From Coq Require Import ZArith List Bool Arith Lia.
From PV Require Import Base.U64 E3.E3_Run C01.C01_Spin_Model C01.C01_Spin_Proofs C01.C01_Mcs.
Import ListNotations.

Lemma NoDup_snoc' (l : list nat) t : NoDup l -> ~ In t l -> NoDup (l ++ [t]).
Proof.
  intros Hl Ht. induction Hl as [|z l Hz Hl IH]; cbn; [constructor; [tauto|constructor]|].
  constructor.
  - rewrite in_app_iff. cbn. intros [H|[H|[]]]; [tauto|]. subst. apply Ht. now left.
  - apply IH. intros H. apply Ht. now right.
Qed.

Ltac pcs Epc :=
  repeat match goal with
  | H : pcq _ _ = _ |- _ => unfold pcq in H; rewrite Epc in H
  | H : _ \/ _ |- _ => destruct H
  | H : exists _, _ |- _ => destruct H
  | H : Some _ = Some _ |- _ => first [discriminate H | injection H as H; subst]
  | H : Some _ = None |- _ => discriminate H
  | H : None = Some _ |- _ => discriminate H
  end.

(* generic solver for goals about link / waiter_ok / head_ok / out_ok after a step of p *)
Ltac rwE := try match goal with E : t_pc (q_th _ _) = Some _ |- _ => rewrite E in * end.
Ltac dpc :=
  repeat match goal with
  | |- context [match t_pc (q_th ?s ?h) with _ => _ end] => destruct (t_pc (q_th s h)) as [[]|] eqn:?
  end.
Ltac rwD := try match goal with E : t_pc (thr_done qentry _ _) = _ |- _ => rewrite E in * end;
            try match goal with E : t_ins (thr_done qentry _ _) = _ |- _ => rewrite E in * end.
Ltac solve_lk := lk; rwE; rwD; try solve [intuition (eauto; try congruence)];
                 try solve [dpc; lk; rwE; rwD; intuition (eauto; try congruence)].

(* x immediately followed by y in l *)
Fixpoint adj (x y : nat) (l : list nat) : Prop :=
  match l with
  | a :: r => (match r with b :: _ => x = a /\ y = b | [] => False end) \/ adj x y r
  | [] => False
  end.
Lemma adj_in x y l : adj x y l -> In x l /\ In y l.
Proof.
  induction l as [|a r IH]; cbn; [tauto|]. intros [H|H].
  - destruct r as [|b r']; [tauto|]. destruct H as [-> ->]. cbn. auto.
  - destruct (IH H). auto.
Qed.
Lemma adj_uniq x y y' l : NoDup l -> adj x y l -> adj x y' l -> y = y'.
Proof.
  induction l as [|a r IH]; cbn; [tauto|]. intros Hn H1 H2. inversion Hn as [|? ? Ha Hr]; subst.
  destruct H1 as [H1|H1], H2 as [H2|H2].
  - destruct r; [tauto|]. destruct H1 as [_ ->], H2 as [_ ->]. reflexivity.
  - destruct r; [tauto|]. destruct H1 as [-> _]. apply adj_in in H2. tauto.
  - destruct r; [tauto|]. destruct H2 as [-> _]. apply adj_in in H1. tauto.
  - auto.
Qed.
Lemma adj_pred_uniq a a' y l : NoDup l -> adj a y l -> adj a' y l -> a = a'.
Proof.
  induction l as [|c r IH]; cbn; [tauto|]. intros Hn H1 H2. inversion Hn as [|? ? Ha Hr]; subst.
  destruct H1 as [H1|H1], H2 as [H2|H2].
  - destruct r; [tauto|]. destruct H1 as [-> _], H2 as [-> _]. reflexivity.
  - destruct r as [|b r']; [tauto|]. destruct H1 as [-> ->]. exfalso.
    cbn in H2. destruct H2 as [H2|H2].
    + destruct r'; [tauto|]. destruct H2 as [_ ->]. inversion Hr as [|? ? Hb _]; subst. apply Hb. now left.
    + apply adj_in in H2. inversion Hr as [|? ? Hb _]; subst. tauto.
  - destruct r as [|b r']; [tauto|]. destruct H2 as [-> ->]. exfalso.
    cbn in H1. destruct H1 as [H1|H1].
    + destruct r'; [tauto|]. destruct H1 as [_ ->]. inversion Hr as [|? ? Hb _]; subst. apply Hb. now left.
    + apply adj_in in H1. inversion Hr as [|? ? Hb _]; subst. tauto.
  - auto.
Qed.
Lemma adj_pred p l : forall h, In p l -> exists a, adj a p (h :: l).
Proof.
  induction l as [|b r IH]; intros h; cbn; [tauto|]. intros [->|H].
  - exists h. left. auto.
  - destruct (IH b H) as (a & Ha). exists a. right. exact Ha.
Qed.
Lemma adj_not_last x y l d : NoDup l -> adj x y l -> last l d <> x.
Proof.
  induction l as [|a r IH]; cbn; [tauto|]. intros Hn H. inversion Hn as [|? ? Ha Hr]; subst.
  destruct r as [|b r'].
  - destruct H as [[]|[]].
  - destruct H as [[-> ->]|H].
    + intros E. apply Ha. rewrite <- E. clear. revert b. induction r' as [|c r IH]; intros b; cbn; [auto|]. right. apply IH.
    + apply IH; auto.
Qed.
Lemma links_adj s l : forall a x y, links s a l -> adj x y (a :: l) -> link s x y.
Proof.
  induction l as [|b r IH]; intros a x y; cbn.
  - tauto.
  - intros (L & W & R) [[-> ->]|H]; [exact L|]. eapply IH; eauto.
Qed.
Lemma links_mono_adj s s' l : forall a,
  (forall x y, adj x y (a :: l) -> link s x y -> link s' x y) ->
  (forall y, In y l -> waiter_ok s y -> waiter_ok s' y) ->
  (q_next s (last l a) = None -> q_next s' (last l a) = None) ->
  links s a l -> links s' a l.
Proof.
  induction l as [|b r IH]; intros a HL HW HN; cbn in *; [auto|].
  intros (L & W & R). split; [apply HL; auto|]. split; [apply HW; auto|].
  apply IH; [ | | | exact R].
  - intros x y Hxy. apply HL. right. exact Hxy.
  - intros y Hy. apply HW. right. exact Hy.
  - intros H. destruct r; [apply HN; exact H|]. rewrite (last_indep _ _ b a) in *. apply HN. exact H.
Qed.

Lemma chain_keep s s' :
  q_chain s' = q_chain s -> q_tail s' = q_tail s ->
  (forall h r, q_chain s = h :: r -> head_ok s h r -> head_ok s' h r) ->
  (forall x y, adj x y (q_chain s) -> link s x y -> link s' x y) ->
  (forall y h r, q_chain s = h :: r -> In y r -> waiter_ok s y -> waiter_ok s' y) ->
  (forall h r, q_chain s = h :: r -> q_next s (last r h) = None -> q_next s' (last r h) = None) ->
  (forall x, ~ In x (q_chain s) -> out_ok s x -> out_ok s' x) ->
  qsl_inv s -> qsl_inv s'.
Proof.
  intros Ec Et Hh Hl Hw Hn Ho (HC & HN & HO). unfold qsl_inv, chain_ok in *. rewrite Ec, Et.
  split; [|split; [exact HN|intros x Hx; apply Ho; auto]].
  destruct (q_chain s) as [|h r] eqn:E; [exact HC|].
  destruct HC as (A & B & C). split; [eapply Hh; eauto|]. split; [|exact C].
  apply (links_mono_adj s);
    [ intros x y Hxy L; apply Hl; auto | intros y Hy W; eapply Hw; eauto | intros H; eapply Hn; eauto | exact B ].
Qed.

Lemma adj_head x h r : NoDup (h :: r) -> ~ adj x h (h :: r).
Proof.
  intros Hn H. inversion Hn as [|? ? Hh _]; subst. cbn in H. destruct H as [H|H].
  - destruct r; [tauto|]. destruct H as [_ ->]. apply Hh. now left.
  - apply adj_in in H. tauto.
Qed.
Lemma links_frame_head s s' l : forall a,
  q_next s' a = q_next s a -> q_th s' a = q_th s a ->
  (forall x, In x l -> same_at s s' x) -> links s a l -> links s' a l.
Proof.
  intros a Hn Ht Hs. destruct l as [|b r]; cbn.
  - now rewrite Hn.
  - intros (L & W & R). split; [|split].
    + unfold link, pcq in *. destruct (Hs b (or_introl eq_refl)) as (B1 & B2 & B3). rewrite Hn, Ht, B3. exact L.
    + apply (waiter_frame s); auto. apply Hs. now left.
    + apply (links_frame s); auto.
Qed.
Lemma hd_In' (l : list nat) x : hd_error l = Some x -> In x l.
Proof. destruct l; cbn; [discriminate|]. intros [= ->]. now left. Qed.

Ltac keep s HI0 :=
  apply (chain_keep s); [reflexivity|cbn [q_tail]; try reflexivity; try (symmetry; assumption)| intros h r Ec Hh | intros x y Hxy L | intros y h r Ec Hy W
                        | intros h r Ec Hn' | intros x Hx Ho | exact HI0].
Ltac outcase Epc := exfalso; pcs Epc.
Ltac headcase Epc Hh0 := exfalso; unfold head_ok, pcq in Hh0; rewrite Epc in Hh0; try exact Hh0; try tauto.

Lemma qsl_inv_step s p fl : qsl_inv s -> qsl_inv (fst (qsl_step s p fl)).
Proof.
  intros HI. pose proof (where_is s p HI) as HW. pose proof HI as HI0. destruct HI as (HC & HN & HO).
  unfold qsl_step. destruct (t_pc (q_th s p)) as [pc|] eqn:Epc; [|exact (conj HC (conj HN HO))].
  destruct pc; cbn [fst].
  - (* QXg *)
    destruct HW as [[Hout (On & Oi & Op)]|[(r & Ec & Hh & Hl)|(h & r & Ec & Hne & Hin & W & P)]].
    2:{ headcase Epc Hh. }
    2:{ outcase Epc. }
    unfold qsl_inv, chain_ok in *. cbn [q_chain q_tail q_next q_got q_th].
    destruct (q_chain s) as [|h r] eqn:Ec.
    + rewrite HC. cbn [app]. qd (q_th s p) true. split; [|split].
      * split; [|split; [|reflexivity]].
        -- unfold head_ok, pcq, insq. cbn [q_th]. rewrite updn_eq. destruct Hd0 as [E|[[_ E]|[E _]]]; [rewrite E|rewrite E|discriminate]; exact Hd.
        -- cbn. exact On.
      * constructor; [tauto|constructor].
      * intros x Hx. assert (x <> p) by (intros ->; apply Hx; now left).
        specialize (HO x (fun H => H)). unfold out_ok, pcq, insq in *. cbn [q_next q_th]. rewrite updn_neq by auto. exact HO.
    + destruct HC as (Hh & Hl & Ht). rewrite Ht. split; [|split].
      * change ((h :: r) ++ [p]) with (h :: (r ++ [p])). split; [|split].
        -- assert (h <> p) by (intros ->; apply Hout; now left).
           unfold head_ok, pcq, insq in *. cbn [q_th q_next q_got]. rewrite updn_neq by auto.
           destruct (t_pc (q_th s h)) as [[]|]; auto.
           ++ destruct Hh as (A & B & C). repeat split; auto. destruct r; cbn in *; auto; discriminate.
           ++ destruct Hh as (A & B & C & D). assert (n <> p) by (intros ->; apply Hout; right; apply hd_In'; exact B).
              rewrite updn_neq by auto. repeat split; auto. destruct r; cbn in *; auto; discriminate.
        -- apply links_snoc.
           ++ apply (links_frame s); auto. intros x Hx. assert (x <> p) by (intros ->; apply Hout; exact Hx).
              unfold same_at. cbn [q_next q_got q_th]. rewrite updn_neq by auto. auto.
           ++ unfold link, pcq. cbn [q_next q_th]. rewrite updn_eq. right; left. split; [apply (links_last s r h Hl)|].
              left. reflexivity.
           ++ unfold waiter_ok, pcq, insq. cbn [q_th q_got]. rewrite updn_eq. cbn. repeat split; auto; intros; discriminate.
           ++ cbn. exact On.
        -- f_equal. rewrite last_app_single. reflexivity.
      * apply NoDup_snoc'; auto.
      * intros x Hx. assert (x <> p) by (intros ->; apply Hx; apply in_or_app; right; now left).
        assert (~ In x (h :: r)) by (intros H1; apply Hx; apply in_or_app; now left).
        specialize (HO x H0). unfold out_ok, pcq, insq in *. cbn [q_next q_th]. rewrite updn_neq by auto. exact HO.
  - (* QStGot *)
    keep s HI0.
    all: destruct HW as [[Hout (On & Oi & Op)]|[(r0 & Ec0 & Hh0 & Hl0)|(h0 & r0 & Ec0 & Hne & Hin & W0 & P0)]].
    all: solve_lk.
  - (* QStNext *)
    destruct HW as [[Hout (On & Oi & Op)]|[(r0 & Ec0 & Hh0 & Hl0)|(h0 & r0 & Ec0 & Hne & Hin & W0 & P0)]].
    1:{ outcase Epc. }
    1:{ headcase Epc Hh0. }
    assert (HCl : links s h0 r0) by (unfold chain_ok in HC; rewrite Ec0 in HC; tauto).
    destruct (adj_pred p r0 h0 Hin) as (a & Ha).
    pose proof (links_adj s r0 h0 a p HCl Ha) as La.
    assert (a = o /\ q_next s o = None) as [-> Hno].
    { unfold link, pcq in La. rewrite Epc in La. destruct La as [[_ E]|[[E1 [E|E]]|[_ [_ E]]]]; try discriminate; injection E as <-; auto. }
    rewrite <- Ec0 in Ha. pose proof (adj_in _ _ _ Ha) as [Hino Hinp].
    keep s HI0.
    + destruct (Nat.eq_dec h o) as [->|Hho]; [|solve_lk].
      assert (Hsucc : forall x, hd_error r = Some x -> x = p).
      { intros x Hx. destruct r as [|b r']; [discriminate|]. injection Hx as ->.
        eapply adj_uniq; [exact HN| |exact Ha]. rewrite Ec. left. auto. }
      lk; rwE.
      all: dpc; lk; rwE; try solve [intuition (eauto; try congruence)].
      all: try tauto.
      all: try (destruct Hh as (A1 & A2 & A3); congruence).
      all: try (destruct Hh as (A1 & A2 & A3 & A4); pose proof (Hsucc _ A2); subst; congruence).
    + destruct (Nat.eq_dec x o) as [->|Hxo].
      * assert (y = p) by (eapply adj_uniq; [exact HN|exact Hxy|exact Ha]). subst. solve_lk.
      * destruct (Nat.eq_dec y p) as [->|Hyp]; [exfalso; apply Hxo; eapply adj_pred_uniq; [exact HN|exact Hxy|exact Ha]|].
        solve_lk.
    + solve_lk.
    + cbn [q_next]. unfold updn. destruct (Nat.eqb_spec (last r h) o) as [E|E]; [|exact Hn'].
      exfalso. rewrite Ec in *. apply (adj_not_last o p (h :: r) h HN Ha). rewrite last_cons. exact E.
    + assert (x <> o) by (intros ->; tauto). solve_lk.
  - (* QSpin *)
    destruct HW as [[Hout (On & Oi & Op)]|[(r0 & Ec0 & Hh0 & Hl0)|(h0 & r0 & Ec0 & Hne & Hin & W0 & P0)]].
    + outcase Epc.
    + (* head: granted *)
      unfold head_ok, pcq in Hh0. rewrite Epc in Hh0. destruct Hh0 as [Hi Hg]. rewrite Hg.
      qd (q_th s p) true. destruct Hd0 as [E|[[_ E]|[E0 _]]]; try discriminate; keep s HI0.
      all: try (assert (y <> p) by (intros ->; rewrite Ec0 in *; eapply adj_head; eauto); solve_lk; fail).
      all: try (solve_lk; fail).
      all: try (assert (y <> p) by (intros ->; rewrite Ec0 in *; injection Ec as -> ->; inversion HN; tauto); solve_lk; fail).
      all: try exact Hn'.
      all: try (assert (x <> p) by (intros ->; apply Hx; rewrite Ec0; now left); solve_lk; fail).
    + (* waiter: got = false *)
      assert (Hg : q_got s p = false).
      { destruct W0 as (_ & Hg & _). apply Hg. unfold pcq. exact Epc. }
      rewrite Hg. keep s HI0; solve_lk.
  - (* QTry *)
    destruct HW as [[Hout (On & Oi & Op)]|[(r0 & Ec0 & Hh0 & Hl0)|(h0 & r0 & Ec0 & Hne & Hin & W0 & P0)]].
    2:{ headcase Epc Hh0. }
    2:{ outcase Epc. }
    destruct (q_tail s) as [o|] eqn:Et; cbn [fst].
    + qd (q_th s p) false. destruct Hd0 as [E|[[E0 _]|[_ [E|E]]]]; try discriminate; keep s HI0; solve_lk.
    + assert (Ech : q_chain s = []).
      { unfold chain_ok in HC. destruct (q_chain s); [reflexivity|]. destruct HC as (_ & _ & E). congruence. }
      unfold qsl_inv, chain_ok. cbn [q_chain q_tail q_next q_got q_th]. rewrite Ech. cbn [app].
      qd (q_th s p) true. split; [|split].
      * split; [|split; [|reflexivity]].
        -- unfold head_ok, pcq, insq. cbn [q_th]. rewrite updn_eq. destruct Hd0 as [E|[[_ E]|[E _]]]; [rewrite E|rewrite E|discriminate]; exact Hd.
        -- cbn. exact On.
      * constructor; [tauto|constructor].
      * intros x Hx. assert (x <> p) by (intros ->; apply Hx; now left).
        assert (~ In x (q_chain s)) by (rewrite Ech; tauto).
        specialize (HO x H0). unfold out_ok, pcq, insq in *. cbn [q_next q_th]. rewrite updn_neq by auto. exact HO.
  - (* QUld *)
    destruct HW as [[Hout (On & Oi & Op)]|[(r0 & Ec0 & Hh0 & Hl0)|(h0 & r0 & Ec0 & Hne & Hin & W0 & P0)]].
    1:{ outcase Epc. }
    2:{ outcase Epc. }
    destruct (q_next s p) as [nx|] eqn:En.
    + assert (Hx0 : hd_error r0 = Some nx /\ pcq s nx = Some QSpin).
      { destruct r0 as [|b r']; cbn in Hl0; [congruence|]. destruct Hl0 as (L & _). unfold link in L. rewrite En in L.
        destruct L as [[E P]|[[E _]|[E _]]]; try discriminate. injection E as ->. auto. }
      destruct Hx0 as [Hx1 Hx2]. keep s HI0.
      * rewrite Ec0 in Ec. injection Ec as <- <-. solve_lk.
      * assert (y <> p) by (intros ->; rewrite Ec0 in *; eapply adj_head; eauto). solve_lk.
      * assert (y <> p) by (intros ->; rewrite Ec0 in Ec; injection Ec as Eh Er; subst; rewrite Ec0 in HN; inversion HN; tauto). solve_lk.
      * exact Hn'.
      * assert (x <> p) by (intros ->; apply Hx; rewrite Ec0; now left). solve_lk.
    + keep s HI0.
      * rewrite Ec0 in Ec. injection Ec as <- <-. solve_lk.
      * assert (y <> p) by (intros ->; rewrite Ec0 in *; eapply adj_head; eauto). solve_lk.
      * assert (y <> p) by (intros ->; rewrite Ec0 in Ec; injection Ec as Eh Er; subst; rewrite Ec0 in HN; inversion HN; tauto). solve_lk.
      * exact Hn'.
      * assert (x <> p) by (intros ->; apply Hx; rewrite Ec0; now left). solve_lk.
  - (* QUld2 *)
    destruct HW as [[Hout (On & Oi & Op)]|[(r0 & Ec0 & Hh0 & Hl0)|(h0 & r0 & Ec0 & Hne & Hin & W0 & P0)]].
    1:{ outcase Epc. }
    2:{ outcase Epc. }
    destruct (q_next s p) as [nx|] eqn:En.
    + assert (Hx0 : hd_error r0 = Some nx /\ pcq s nx = Some QSpin).
      { destruct r0 as [|b r']; cbn in Hl0; [congruence|]. destruct Hl0 as (L & _). unfold link in L. rewrite En in L.
        destruct L as [[E P]|[[E _]|[E _]]]; try discriminate. injection E as ->. auto. }
      destruct Hx0 as [Hx1 Hx2]. keep s HI0.
      * rewrite Ec0 in Ec. injection Ec as <- <-. solve_lk.
      * assert (y <> p) by (intros ->; rewrite Ec0 in *; eapply adj_head; eauto). solve_lk.
      * assert (y <> p) by (intros ->; rewrite Ec0 in Ec; injection Ec as Eh Er; subst; rewrite Ec0 in HN; inversion HN; tauto). solve_lk.
      * exact Hn'.
      * assert (x <> p) by (intros ->; apply Hx; rewrite Ec0; now left). solve_lk.
    + keep s HI0.
      * rewrite Ec0 in Ec. injection Ec as <- <-. solve_lk.
      * assert (y <> p) by (intros ->; rewrite Ec0 in *; eapply adj_head; eauto). solve_lk.
      * assert (y <> p) by (intros ->; rewrite Ec0 in Ec; injection Ec as Eh Er; subst; rewrite Ec0 in HN; inversion HN; tauto). solve_lk.
      * exact Hn'.
      * assert (x <> p) by (intros ->; apply Hx; rewrite Ec0; now left). solve_lk.
  - (* QUstNext *)
    destruct HW as [[Hout (On & Oi & Op)]|[(r0 & Ec0 & Hh0 & Hl0)|(h0 & r0 & Ec0 & Hne & Hin & W0 & P0)]].
    1:{ outcase Epc. }
    2:{ outcase Epc. }
    unfold head_ok, pcq in Hh0. rewrite Epc in Hh0. destruct Hh0 as (Hi & Hhd & Hnx).
    destruct r0 as [|b r']; [discriminate|]. cbn in Hhd. injection Hhd as ->.
    assert (Hsp : pcq s n = Some QSpin).
    { cbn in Hl0. destruct Hl0 as (L & _). unfold link in L. rewrite Hnx in L.
      destruct L as [[_ P]|[[E _]|[E _]]]; try discriminate. exact P. }
    assert (Hadj : adj p n (q_chain s)) by (rewrite Ec0; left; auto).
    assert (Hnp : n <> p) by (intros ->; rewrite Ec0 in HN; inversion HN; apply H1; now left).
    keep s HI0.
    + rewrite Ec0 in Ec. injection Ec as Eh Er. subst h. subst r. solve_lk.
    + destruct (Nat.eq_dec x p) as [->|Hxp].
      * assert (y = n) by (eapply adj_uniq; [exact HN|exact Hxy|exact Hadj]). subst. solve_lk.
      * assert (y <> p) by (intros ->; rewrite Ec0 in *; eapply adj_head; eauto). solve_lk.
    + assert (y <> p) by (intros ->; rewrite Ec0 in Ec; injection Ec as Eh Er; subst; rewrite Ec0 in HN; inversion HN; tauto). solve_lk.
    + cbn [q_next]. unfold updn. destruct (Nat.eqb_spec (last r h) p) as [E|E]; [reflexivity|exact Hn'].
    + assert (x <> p) by (intros ->; apply Hx; rewrite Ec0; now left). solve_lk.
  - (* QUstGot *)
    destruct HW as [[Hout (On & Oi & Op)]|[(r0 & Ec0 & Hh0 & Hl0)|(h0 & r0 & Ec0 & Hne & Hin & W0 & P0)]].
    1:{ outcase Epc. }
    2:{ outcase Epc. }
    unfold head_ok, pcq in Hh0. rewrite Epc in Hh0. destruct Hh0 as (Hi & Hhd & Hnx & Hsp).
    destruct r0 as [|b r']; [discriminate|]. cbn in Hhd. injection Hhd as ->.
    cbn in Hl0. destruct Hl0 as (L & Wn & R).
    rewrite Ec0 in HN. inversion HN as [|? ? Hpn HN']; subst. inversion HN' as [|? ? Hnn HN'']; subst.
    assert (Hnp : n <> p) by (intros ->; apply Hpn; now left).
    qd (q_th s p) false.
    assert (HCt : q_tail s = Some (last r' n)).
    { unfold chain_ok in HC. rewrite Ec0 in HC. destruct HC as (_ & _ & E). rewrite E. f_equal. apply last_cons. }
    unfold qsl_inv, chain_ok. cbn [q_chain q_tail q_next q_got q_th]. rewrite Ec0. cbn [tl].
    split; [|split].
    + split; [|split; [|exact HCt]].
      * unfold head_ok, pcq, insq. cbn [q_th q_got q_next]. rewrite updn_neq by auto. rewrite Hsp.
        rewrite updn_eq. split; [apply Wn|reflexivity].
      * apply (links_frame_head s); cbn [q_next q_got q_th]; auto.
        -- rewrite updn_neq by auto. reflexivity.
        -- intros x Hx. unfold same_at. cbn [q_next q_got q_th].
           assert (x <> n) by (intros ->; tauto). assert (x <> p) by (intros ->; apply Hpn; now right).
           rewrite !updn_neq by auto. auto.
    + exact HN'.
    + intros x Hx. unfold out_ok, pcq, insq. cbn [q_next q_th].
      destruct (Nat.eq_dec x p) as [->|Hxp].
      * rewrite updn_eq. split; [exact Hnx|]. split; [exact Hd|].
        destruct Hd0 as [E|[[E0 _]|[_ [E|E]]]]; try discriminate; rewrite E; auto.
      * rewrite updn_neq by auto. apply HO. rewrite Ec0. intros [E|E]; [congruence|tauto].
  - (* QUcas *)
    destruct HW as [[Hout (On & Oi & Op)]|[(r0 & Ec0 & Hh0 & Hl0)|(h0 & r0 & Ec0 & Hne & Hin & W0 & P0)]].
    1:{ outcase Epc. }
    2:{ outcase Epc. }
    unfold head_ok, pcq in Hh0. rewrite Epc in Hh0.
    assert (HCt : q_tail s = Some (last r0 p)).
    { unfold chain_ok in HC. rewrite Ec0 in HC. destruct HC as (_ & _ & E). exact E. }
    destruct (opt_nat_eqb (q_tail s) p) eqn:Eq; cbn [fst].
    + assert (r0 = []).
      { apply (last_nodup_single p); [rewrite <- Ec0; exact HN|]. rewrite HCt in Eq. cbn in Eq. apply Nat.eqb_eq in Eq. exact Eq. }
      subst r0. cbn in Hl0.
      qd (q_th s p) false.
      unfold qsl_inv, chain_ok. cbn [q_chain q_tail q_next q_got q_th]. rewrite Ec0. cbn [tl].
      split; [reflexivity|]. split; [constructor|].
      intros x _. unfold out_ok, pcq, insq. cbn [q_next q_th].
      destruct (Nat.eq_dec x p) as [->|Hxp].
      * rewrite updn_eq. split; [exact Hl0|]. split; [exact Hd|].
        destruct Hd0 as [E|[[E0 _]|[_ [E|E]]]]; try discriminate; rewrite E; auto.
      * rewrite updn_neq by auto. apply HO. rewrite Ec0. intros [E|[]]. congruence.
    + keep s HI0.
      * rewrite Ec0 in Ec. injection Ec as Eh Er. subst h. subst r. solve_lk.
      * assert (y <> p) by (intros ->; rewrite Ec0 in *; eapply adj_head; eauto). solve_lk.
      * assert (y <> p) by (intros ->; rewrite Ec0 in Ec; injection Ec as Eh Er; subst; rewrite Ec0 in HN; inversion HN; tauto). solve_lk.
      * exact Hn'.
      * assert (x <> p) by (intros ->; apply Hx; rewrite Ec0; now left). solve_lk.
Qed.

Lemma qsl_inv_reach scr s : qsl_reach scr s -> qsl_inv s.
Proof. intros H. induction H; [apply qsl_inv_init | apply qsl_inv_step; auto]. Qed.

(* mcs_excl: at most one participant is inside the critical section of a qspinlock *)
Lemma mcs_excl_l scr s : qsl_reach scr s ->
  forall p q, t_ins (q_th s p) = true -> t_ins (q_th s q) = true -> p = q.
Proof.
  intros H. pose proof (qsl_inv_reach _ _ H) as HI.
  assert (Hhead : forall p, t_ins (q_th s p) = true -> exists r, q_chain s = p :: r).
  { intros p Hp. destruct (where_is s p HI) as [[_ (_ & Oi & _)]|[(r & Ec & _)|(h & r & _ & _ & _ & (Wi & _) & _)]].
    - unfold insq in Oi. congruence.
    - eauto.
    - unfold insq in Wi. congruence. }
  intros p q Hp Hq. destruct (Hhead p Hp) as (r1 & E1). destruct (Hhead q Hq) as (r2 & E2). congruence.
Qed.
(* the lock word: somebody inside => _owner_tail is not null *)
Lemma mcs_locked_l scr s : qsl_reach scr s -> forall p, t_ins (q_th s p) = true -> q_tail s <> None.
Proof.
  intros H p Hp. pose proof (qsl_inv_reach _ _ H) as HI. destruct HI as (HC & _ & HO).
  unfold chain_ok in HC. destruct (q_chain s) as [|h r] eqn:E.
  - destruct (HO p) as (_ & Oi & _); [cbn; tauto|]. unfold insq in Oi. congruence.
  - destruct HC as (_ & _ & Et). congruence.
Qed.
