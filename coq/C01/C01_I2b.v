(* clause (b),(c): wait-queue membership *)
From Coq Require Import ZArith List Bool Arith Lia.
From PV Require Import Base.U64 C01.C01_Model C01.C01_Tac C01.C01_Excl C01.C01_Inv2.
Import ListNotations.
Local Open Scope Z_scope.

#[export] Hint Resolve In_rm In_rm_neq NoDup_rm hd_rm hd_app hd_In NoDup_snoc : c01.

Ltac lst H :=
  repeat match goal with
  | Hi : In _ (_ ++ [_]) |- _ => apply In_snoc in Hi; destruct Hi; subst
  | Hi : In ?y (rm ?y ?l) |- _ => exfalso; apply (not_In_rm y l); [apply (i2_nodup _ H)|exact Hi]
  | Hi : In ?a (rm ?y ?l) |- _ => apply In_rm in Hi
  end.

Lemma i2_wq_step s l s' : inv2 s -> step s l = Some s' ->
  forall x m, In x (wqm (mx s' m)) ->
     pcwait (pc (th s' x)) m = true /\ wq (th s' x) = Some m /\ st (th s' x) = SLEEPING.
Proof.
  intros H Hs. step_cases Hs; try (apply (i2_wq _ H)); intros x0 m0;
    pose proof (i2_wq _ H x0 m0); pose proof (i2_wq _ H a m0); pose proof (i2_nodup _ H m0);
    pose proof (i2_slp1 _ H a); pose proof (i2_slp1 _ H x0); gfin.
  all: lst H; gsolve.
Qed.

Lemma i2_nodup_step s l s' : inv2 s -> step s l = Some s' -> forall m, NoDup (wqm (mx s' m)).
Proof.
  intros H Hs. step_cases Hs; try (apply (i2_nodup _ H)); intros m0;
    pose proof (i2_nodup _ H m0); pose proof (i2_wq _ H a m0); gfin.
  all: try (apply NoDup_rm; assumption).
  all: try (apply NoDup_snoc; [assumption|]; intros Hin; gsolve).
Qed.

Lemma i2_slp1_step s l s' : inv2 s -> step s l = Some s' ->
  forall t, st (th s' t) = SLEEPING -> sleeppc (pc (th s' t)) = true.
Proof.
  intros H Hs. step_cases Hs; try (apply (i2_slp1 _ H)); intros t0;
    pose proof (i2_slp1 _ H t0); pose proof (i2_slp1 _ H a); gfin.
Qed.
