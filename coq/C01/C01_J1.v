(* C01_J1.v — preservation of the class clause of own_inv (j_cls) by every step. *)
From Coq Require Import ZArith List Bool Arith Lia.
From PV Require Import Base.U64 C01.C01_Model C01.C01_Tac C01.C01_Excl C01.C01_Inv2 C01.C01_Eff C01.C01_Cls.
Import ListNotations.
Local Open Scope Z_scope.

Ltac zfacts :=
  repeat match goal with
  | H : (_ =? _) = false |- _ => apply Z.eqb_neq in H
  end.
(* the class facts of the thread looked at (t0) and of the acting thread (a), at mutex m0 *)
Ltac cls_pose H3 :=
  match goal with
  | |- cls_ok (classify _ ?m0) _ _ _ _ ?t0 =>
      pose proof (j_cls _ H3 t0 m0) as Ht;
      try match goal with Hp : pc (th _ ?a) = _ |- _ =>
            pose proof (j_cls _ H3 a m0) as Ha; rewrite Hp in Ha; try rewrite Hp in Ht end
  end.
(* the few steps whose argument is not local to (t0, m0) and (a, m0) *)
Ltac cls_extra H1 H2 H3 :=
  try match goal with
  | Hp : pc (th ?s ?a) = PU0 ?m ?rc |- _ =>
      pose proof (flag_rec s a m rc H1) as Hf; rewrite Hp in Hf; specialize (Hf eq_refl); symmetry in Hf;
      pose proof (i1_plain _ _ _ (H1 a m)) as Hpl; pose proof (j_rc _ H3 a m) as Hrc
  | Hp : pc (th ?s ?a) = PUst ?m (Some ?x) |- _ =>
      pose proof (ust_facts s a m x H2 Hp) as (_ & Hin & Hkx & _ & _ & Hne);
      match goal with |- cls_ok _ _ _ _ _ ?t0 => destruct (Nat.eq_dec t0 x) as [->|Hne0] end;
      [rewrite ?Hkx in *|]
  | Hp : pc (th ?s ?a) = PI3 ?x ?e |- cls_ok _ (owner (mx _ ?m0)) _ _ _ _ =>
      pose proof (pi3_sleeping s a x e H2 Hp) as Hsl;
      pose proof (sleeping_class s x m0 H2 Hsl) as Hsc;
      pose proof (sleeping_cz1_in s x m0 H2 Hsl) as Hsi;
      pose proof (fun Ho Hi => queued_owner_pi3 s x m0 H2 H3 Ho Hi a e Hp) as Hq
  | Hp : pc (th ?s ?a) = PSw _ |- cls_ok _ (owner (mx _ ?m0)) _ _ _ _ =>
      pose proof (in_sleeping s a m0 H2) as Hsl
  | Hx : xp (th ?s ?a) = true |- cls_ok _ (owner (mx _ ?m0)) _ _ _ _ =>
      pose proof (fun Ho Hi => queued_owner_xp s a m0 H2 H3 Ho Hi Hx) as Hq
  end.

Lemma j_cls_step s l s' : inv1 s -> inv2 s -> own_inv s -> step s l = Some s' ->
  forall t m, cls_ok (classify (pc (th s' t)) m) (owner (mx s' m)) (wqm (mx s' m))
                     (cnt (th s' t) m) (err (th s' t)) t.
Proof.
  intros H1 H2 H3 Hs. scases Hs.
  all: intros t0 m0; obs H2.
  all: try exact (j_cls _ H3 _ _).
  Time all: cls_pose H3; cls_extra H1 H2 H3; clear H1 H2 H3; cls_leaf; boolfacts; tsfacts; zfacts.
  all: try fin_leaf.
  all: match goal with H : _ <-> (?n > 0)%nat |- _ =>
         destruct (Nat.eq_dec n 0); [|assert (n > 0)%nat by lia] end; fin_leaf.
Qed.
