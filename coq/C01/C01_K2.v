(* C01_K2.v — preservation of wit_inv: while a mutex is free and its queue is not empty there is a
   witness (C01_Live.v).  Follows the witness through every step. *)
From Coq Require Import ZArith List Bool Arith Lia.
From PV Require Import Base.U64 C01.C01_Model C01.C01_Tac C01.C01_Excl C01.C01_Inv2 C01.C01_Eff C01.C01_Cls C01.C01_Live.
Import ListNotations.
Local Open Scope Z_scope.

Ltac zfacts2 :=
  repeat match goal with
  | H : (_ =? _) = false |- _ => apply Z.eqb_neq in H
  | H : (_ =? _) = true |- _ => apply Z.eqb_eq in H
  end.
Ltac ifs_all :=
  repeat match goal with
  | |- context [if ?b then _ else _] => destruct b eqn:?
  | H : context [if ?b then _ else _] |- _ => destruct b eqn:?
  end.
(* is_wit of the new state, reduced to the old one *)
Ltac wit_leaf :=
  cbn [wkind] in *; dvars_all; unfold on in *; cbn [wkind lm] in *; eqb_all; ifs_all;
  repeat match goal with
  | |- context [wkind (pc (th ?s ?t)) ?m] => destruct (wkind (pc (th s t)) m)
  end;
  cbn [wit_ok] in *; boolfacts; zfacts2;
  solve [ intuition (try congruence; try lia; eauto using In_rm) ].

Lemma wit_step s l s' : inv2 s -> live_inv s -> wit_inv s -> step s l = Some s' -> wit_inv s'.
Proof.
  intros H2 H4 H5 Hs. unfold wit_inv in *. scases Hs.
  all: intros m0; obs H2; intros Ho Hq.
  all: try discriminate Ho.
  (* the contending hand-off has just released the mutex: the unlocker is the witness *)
  all: try solve [ match goal with Hp : pc (th _ ?a) = PUst _ (Some _) |- _ =>
                     exists a; unfold is_wit; obs H2; cbn [wkind]; rewrite Nat.eqb_refl; exact I end ].
  (* an unlocker that found the queue empty; a locker about to enqueue saw the mutex taken *)
  all: try solve [ exfalso; match goal with Hp : pc (th ?s ?a) = PUst ?m None |- _ =>
                     pose proof (k_ust _ H4 a m) as Hu; rewrite Hp in Hu; specialize (Hu eq_refl); congruence end ].
  all: try solve [ exfalso; match goal with Hp : pc (th ?s ?a) = PLenq ?c |- _ =>
                     pose proof (k_exp _ H4 a (lm c)) as Hu; rewrite Hp in Hu; specialize (Hu eq_refl); congruence end ].
  (* the old witness *)
  all: try match goal with Hq : rm _ _ <> [] |- _ => apply rm_nil_inv in Hq end.
  all: match goal with Ho : owner (mx ?s ?m) = None, Hq : wqm (mx ?s ?m) <> [] |- _ =>
         destruct (H5 m Ho Hq) as [w Hw] end.
  (* a thread that is being woken / timed out is SLEEPING: it is not the witness *)
  all: try match goal with
       | Hp : pc (th ?s ?a) = PUint ?m ?x |- _ =>
           pose proof (uint_facts s a m x H2 Hp) as (_ & Hin & _ & Hsl & _ & _);
           pose proof (wkind_pcwait _ _ (proj1 (i2_wq _ H2 x m Hin))) as Hkx;
           pose proof (not_In_rm x _ (i2_nodup _ H2 m)) as Hnd
       | Hp : pc (th ?s ?a) = PI3 ?x ?e |- _ => pose proof (pi3_sleeping s a x e H2 Hp) as Hsl
       | Hxp : xp (th ?s ?a) = true, Hst : tstate_eqb (st (th ?s ?a)) SLEEPING = true |- _ =>
           pose proof (proj1 (tstate_eqb_true _ _) Hst) as Hsl
       end.
  all: try match goal with Hsl : st (th ?s ?x) = SLEEPING |- _ =>
         destruct (Nat.eq_dec w x) as [Ewx|Ewx]; [subst w; exfalso; exact (sleeping_not_wit _ _ _ H2 Hsl Hw)|] end.
  all: unfold is_wit in *.
  (* the witness performs the wake-up: the woken head takes over *)
  all: try match goal with Hp : pc (th ?s ?a) = PUint ?m ?x |- _ =>
         destruct (Nat.eq_dec w a) as [Ewa|Ewa];
         [ subst w; rewrite Hp in Hw; exists x; obs H2; clear H2 H4 H5;
           cbn [wkind] in *; eqb_all; cbn [wit_ok] in *; [rewrite Hkx; cbn [wit_ok]; tauto | tauto ] | ] end.
  all: exists w; obs H2; clear H2 H4 H5.
  all: try match goal with Hp : pc (th _ ?a) = _, Hw : context [pc (th _ ?a)] |- _ => rewrite Hp in Hw end.
  all: wit_leaf.
Qed.
