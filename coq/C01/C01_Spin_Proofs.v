(* C01_Spin_Proofs.v — exclusion of spinlock (TAS) and ticket_spinlock (+ FIFO) for any number of
   OS threads, every interleaving (inductive invariants over tas_step / tkl_step). *)
From Coq Require Import ZArith List Bool Arith Lia.
From PV Require Import Base.U64 E3.E3_Run C01.C01_Spin_Model.
Import ListNotations.
Local Open Scope Z_scope.

Lemma updn_eq {A} (f : nat -> A) k v : updn f k v k = v.
Proof. unfold updn. now rewrite Nat.eqb_refl. Qed.
Lemma updn_neq {A} (f : nat -> A) k v i : i <> k -> updn f k v i = f i.
Proof. unfold updn. intros H. destruct (Nat.eqb_spec i k); congruence. Qed.

(* the client discipline: the next operation let through is Unlock iff the participant is inside *)
Lemma next_pc_spec {PC} (entry : sop -> PC) scr ins p r :
  next_pc entry scr ins = (Some p, r) -> exists o, p = entry o /\ (o = AUnlock <-> ins = true).
Proof.
  revert p r. induction scr as [|o scr IH]; intros p r H; cbn in H; [discriminate|].
  destruct o, ins; try (apply IH in H; exact H); injection H as <- _; eexists; split; eauto; split; congruence.
Qed.

(* ============================ TAS ========================================================= *)
Inductive tas_reach (scr : nat -> list sop) : tas -> Prop :=
| tr_init : tas_reach scr (tas_init scr)
| tr_step s p fl : tas_reach scr s -> tas_reach scr (fst (tas_step s p fl)).

Definition tpc_ok (pc : option tpc) (ins : bool) : Prop :=
  match pc with None => True | Some TUnl => ins = true | Some _ => ins = false end.
Definition tas_inv (s : tas) : Prop :=
  (forall p, tpc_ok (t_pc (tl_th s p)) (t_ins (tl_th s p))) /\
  (forall p, t_ins (tl_th s p) = true -> tl_lock s = true) /\
  (forall p q, t_ins (tl_th s p) = true -> t_ins (tl_th s q) = true -> p = q).

Lemma tdone_ok t i : tpc_ok (t_pc (thr_done tentry t i)) (t_ins (thr_done tentry t i)) /\ t_ins (thr_done tentry t i) = i.
Proof.
  unfold thr_done. destruct (next_pc tentry (t_scr t) i) as [p r] eqn:E. cbn. split; [|reflexivity].
  destruct p as [p|]; cbn; [|exact I].
  apply next_pc_spec in E. destruct E as (o & -> & Ho). destruct o, i; cbn; intuition congruence.
Qed.

Lemma tas_inv_init scr : tas_inv (tas_init scr).
Proof.
  unfold tas_inv, tas_init; cbn. repeat split; intros.
  - unfold thr_init. destruct (next_pc tentry (scr p) false) as [pc r] eqn:E. cbn.
    destruct pc as [pc|]; cbn; [|exact I]. apply next_pc_spec in E. destruct E as (o & -> & Ho).
    destruct o; cbn; intuition congruence.
  - unfold thr_init in H. destruct (next_pc tentry (scr p) false); cbn in H. discriminate.
  - unfold thr_init in H. destruct (next_pc tentry (scr p) false); cbn in H. discriminate.
Qed.

Ltac tz :=
  repeat match goal with
  | |- context [Nat.eqb ?a ?b] => destruct (Nat.eqb_spec a b); subst
  | H : context [Nat.eqb ?a ?b] |- _ => destruct (Nat.eqb_spec a b); subst
  end.
Ltac td :=
  repeat match goal with
  | H : context [t_ins (thr_done tentry ?t ?i)] |- _ => rewrite (proj2 (tdone_ok t i)) in H
  | |- context [t_ins (thr_done tentry ?t ?i)] => rewrite (proj2 (tdone_ok t i))
  end.

Lemma tas_inv_step s p fl : tas_inv s -> tas_inv (fst (tas_step s p fl)).
Proof.
  intros (Hok & Hl & Hx). unfold tas_step.
  pose proof (Hok p) as Hp. pose proof (Hl p) as Hlp.
  destruct (t_pc (tl_th s p)) as [pc|] eqn:Epc; [|cbn; repeat split; auto].
  destruct pc; cbn in Hp; cbn [fst]; destruct (tl_lock s) eqn:El; cbn [tl_lock tl_th];
    repeat split; intros; unfold updn in *; cbn [tl_lock tl_th] in *; tz; try apply tdone_ok; td; cbn in *; rewrite ?Epc in *;
    try congruence; auto;
    try (match goal with H : t_ins (tl_th s ?q) = true |- _ => pose proof (Hl _ H); congruence end);
    try (exfalso; match goal with H : t_ins (tl_th s ?q) = true, n : ?q <> p |- _ => apply n; apply Hx; auto end);
    try (eapply Hx; eauto; fail).
Qed.

Lemma tas_excl_l scr s : tas_reach scr s ->
  forall p q, t_ins (tl_th s p) = true -> t_ins (tl_th s q) = true -> p = q.
Proof.
  intros H. assert (tas_inv s) as (_ & _ & Hx); [|exact Hx].
  induction H; [apply tas_inv_init | apply tas_inv_step; auto].
Qed.
Lemma tas_locked_l scr s : tas_reach scr s -> forall p, t_ins (tl_th s p) = true -> tl_lock s = true.
Proof.
  intros H. assert (tas_inv s) as (_ & Hl & _); [|exact Hl].
  induction H; [apply tas_inv_init | apply tas_inv_step; auto].
Qed.

(* ============================ ticket ====================================================== *)
Inductive tkl_reach (scr : nat -> list sop) : tkl -> Prop :=
| kr_init : tkl_reach scr (tkl_init scr)
| kr_step s p fl : tkl_reach scr s -> tkl_reach scr (fst (tkl_step s p fl)).

Definition kpc_ok (s : tkl) (p : nat) : Prop :=
  let t := kl_th s p in
  match t_pc t with
  | Some KFa => kl_tkt s p = None /\ t_ins t = false
  | Some (KLd tk) => kl_tkt s p = Some tk /\ t_ins t = false
  | Some KUld => t_ins t = true
  | Some (KUst v) => kl_tkt s p = Some (kl_serv s) /\ v = kl_serv s + 1 /\ t_ins t = false
  | None => True
  end.
Definition tkl_inv (s : tkl) : Prop :=
  (forall p t, kl_tkt s p = Some t -> kl_serv s <= t < kl_next s) /\
  (forall p q t, kl_tkt s p = Some t -> kl_tkt s q = Some t -> p = q) /\
  (forall p, kpc_ok s p) /\
  (forall p, t_ins (kl_th s p) = true -> kl_tkt s p = Some (kl_serv s)) /\
  kl_serv s <= kl_next s.

Lemma kdone_ok t i :
  t_ins (thr_done kentry t i) = i /\
  (t_pc (thr_done kentry t i) = None \/ (i = true /\ t_pc (thr_done kentry t i) = Some KUld)
   \/ (i = false /\ t_pc (thr_done kentry t i) = Some KFa)).
Proof.
  unfold thr_done. destruct (next_pc kentry (t_scr t) i) as [p r] eqn:E. cbn. split; [reflexivity|].
  destruct p as [p|]; [|auto]. right.
  apply next_pc_spec in E. destruct E as (o & -> & Ho). destruct o, i; cbn; intuition congruence.
Qed.

Lemma tkl_inv_init scr : tkl_inv (tkl_init scr).
Proof.
  unfold tkl_inv, tkl_init, kpc_ok; cbn. repeat split; intros; try discriminate.
  - unfold thr_init. destruct (next_pc kentry (scr p) false) as [pc r] eqn:E. cbn.
    destruct pc as [pc|]; cbn; [|exact I]. apply next_pc_spec in E. destruct E as (o & -> & Ho).
    destruct o; cbn; intuition congruence.
  - unfold thr_init in H. destruct (next_pc kentry (scr p) false); cbn in H. discriminate.
Qed.

Ltac kd t i :=
  let H1 := fresh "Hd" in let H2 := fresh "Hd" in
  destruct (kdone_ok t i) as [H1 H2]; destruct H2 as [H2|[[? H2]|[? H2]]]; try discriminate.

Ltac injk :=
  repeat match goal with
  | H : Some _ = Some _ |- _ => injection H as H; try subst
  | H : Some _ = None |- _ => discriminate H
  | H : None = Some _ |- _ => discriminate H
  end.
Ltac kfin HA HB HC HD :=
  injk;
  repeat match goal with
  | H : kl_tkt _ ?q = Some ?t |- _ =>
      lazymatch goal with
      | _ : kl_serv _ <= t < kl_next _ |- _ => fail
      | _ => pose proof (HA _ _ H)
      end
  end;
  try lia; try congruence; auto;
  try (eapply HB; eauto; fail); try (apply HC; fail); try (apply HD; auto; fail);
  try (split; [|split]; auto; try lia; try congruence; fail).

Lemma tkl_inv_step s p fl : tkl_inv s -> tkl_inv (fst (tkl_step s p fl)).
Proof.
  intros (HA & HB & HC & HD & HE). unfold tkl_step.
  pose proof (HC p) as Hp. unfold kpc_ok in Hp.
  destruct (t_pc (kl_th s p)) as [pc|] eqn:Epc; [|cbn; repeat split; auto; eapply HA; eauto].
  destruct pc; cbn [fst].
  - (* KFa *) destruct Hp as [Ht Hi].
    unfold tkl_inv, kpc_ok; cbn [kl_next kl_serv kl_th kl_tkt]. repeat split; intros; unfold updn in *; tz; cbn in *;
      kfin HA HB HC HD.
    all: try (pose proof (HC p0) as Hq; unfold kpc_ok in Hq; destruct (t_pc (kl_th s p0)) as [[| | |]|]; auto; fail).
  - (* KLd *) destruct Hp as [Ht Hi].
    destruct (Z.eqb_spec (kl_serv s) tk) as [Heq|Hne].
    + kd (kl_th s p) true;
      unfold tkl_inv, kpc_ok; cbn [kl_next kl_serv kl_th kl_tkt]; repeat split; intros; unfold updn in *; tz; cbn in *;
        rewrite ?Hd, ?Hd0 in *; kfin HA HB HC HD.
      all: try (pose proof (HC p0) as Hq; unfold kpc_ok in Hq; destruct (t_pc (kl_th s p0)) as [[| | |]|]; auto; fail).
    + unfold tkl_inv, kpc_ok; cbn [kl_next kl_serv kl_th kl_tkt]; repeat split; intros; unfold updn in *; tz; cbn in *;
        kfin HA HB HC HD.
      all: try (pose proof (HC p0) as Hq; unfold kpc_ok in Hq; destruct (t_pc (kl_th s p0)) as [[| | |]|]; auto; fail).
  - (* KUld *)
    pose proof (HD _ Hp) as Ht.
    unfold tkl_inv, kpc_ok; cbn [kl_next kl_serv kl_th kl_tkt]; repeat split; intros; unfold updn in *; tz; cbn in *;
      kfin HA HB HC HD.
    all: try (pose proof (HC p0) as Hq; unfold kpc_ok in Hq; destruct (t_pc (kl_th s p0)) as [[| | |]|]; auto; fail).
  - (* KUst *) destruct Hp as (Ht & -> & Hi).
    assert (Hothers : forall q t, q <> p -> kl_tkt s q = Some t -> kl_serv s + 1 <= t < kl_next s).
    { intros q t Hq Hqt. pose proof (HA _ _ Hqt). destruct (Z.eq_dec t (kl_serv s)) as [->|]; [|lia].
      exfalso. apply Hq. eapply HB; eauto. }
    assert (Hnoins : forall q, q <> p -> t_ins (kl_th s q) = true -> False).
    { intros q Hq Hqi. apply Hq. eapply HB; eauto. }
    pose proof (HA _ _ Ht) as Hrange.
    kd (kl_th s p) false;
    unfold tkl_inv, kpc_ok; cbn [kl_next kl_serv kl_th kl_tkt]; repeat split; intros; unfold updn in *; tz; cbn in *;
      rewrite ?Hd, ?Hd0 in *; auto; try discriminate;
      try (eapply Hothers; eauto; fail); try (eapply HB; eauto; fail); try (exfalso; eapply Hnoins; eauto; fail); try lia.
    all: try (pose proof (HC p0) as Hq; unfold kpc_ok in Hq; destruct (t_pc (kl_th s p0)) as [[| | |]|]; auto;
              try (destruct Hq as (Hq1 & Hq2 & Hq3); exfalso; apply n; eapply HB; eauto; fail)).
Qed.

Lemma tkl_inv_reach scr s : tkl_reach scr s -> tkl_inv s.
Proof. intros H. induction H; [apply tkl_inv_init | apply tkl_inv_step; auto]. Qed.

Lemma ticket_excl_l scr s : tkl_reach scr s ->
  forall p q, t_ins (kl_th s p) = true -> t_ins (kl_th s q) = true -> p = q.
Proof.
  intros H p q Hp Hq. destruct (tkl_inv_reach _ _ H) as (HA & HB & HC & HD & HE).
  eapply HB; [apply HD; exact Hp | apply HD; exact Hq].
Qed.
(* FIFO: the participant inside holds ticket = serv, the SMALLEST outstanding ticket; tickets are
   handed out in strictly increasing order (KFa takes `next`), so admission order = ticket order *)
Lemma ticket_fifo_l scr s : tkl_reach scr s ->
  forall p, t_ins (kl_th s p) = true ->
    kl_tkt s p = Some (kl_serv s) /\
    forall q t, q <> p -> kl_tkt s q = Some t -> kl_serv s < t < kl_next s.
Proof.
  intros H p Hp. destruct (tkl_inv_reach _ _ H) as (HA & HB & HC & HD & HE).
  split; [apply HD; auto|]. intros q t Hq Hqt. pose proof (HA _ _ Hqt).
  destruct (Z.eq_dec t (kl_serv s)) as [->|]; [|lia]. exfalso. apply Hq. eapply HB; eauto.
Qed.
Lemma ticket_issue_l s p fl : t_pc (kl_th s p) = Some KFa ->
  kl_tkt (fst (tkl_step s p fl)) p = Some (kl_next s) /\ kl_next (fst (tkl_step s p fl)) = kl_next s + 1.
Proof. intros H. unfold tkl_step. rewrite H. cbn. rewrite updn_eq. auto. Qed.
