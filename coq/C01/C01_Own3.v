(* C01_Own3.v — live_inv / wit_inv are invariants of every reachable state; the final theorems:
   lock()/try_lock() result vs ownership (with "in no wait queue"), the owner always is / will be
   inside, the mutex is not left stuck; and the statements of C01_Own.v as written there. *)
From Coq Require Import ZArith List Bool Arith Lia.
From PV Require Import Base.U64 C01.C01_Model C01.C01_Tac C01.C01_Excl C01.C01_Inv2 C01.C01_I2 C01.C01_Eff
  C01.C01_Cls C01.C01_Own C01.C01_Own2 C01.C01_Live C01.C01_K1 C01.C01_K2.
Import ListNotations.
Local Open Scope Z_scope.

Lemma live_wit_reachable s : reachable s -> live_inv s /\ wit_inv s.
Proof.
  induction 1 as [s Hi|s l s' Hr [IH1 IH2] Hs]; [split; [apply live_inv_init|apply wit_inv_init]; exact Hi|].
  pose proof (inv2_reachable s Hr) as H2. split.
  - eapply live_inv_step; eauto.
  - eapply wit_step; eauto.
Qed.

(* a thread that is not in the protocol of any queue has waitq == nullptr *)
Lemma returned_no_waitq s : reachable s -> forall t, sleeppc (pc (th s t)) = false -> wq (th s t) = None.
Proof.
  intros Hr t Hp. destruct (live_wit_reachable s Hr) as [H4 _]. pose proof (inv2_reachable s Hr) as H2.
  destruct (wq (th s t)) as [m|] eqn:E; [|reflexivity]. exfalso.
  pose proof (k_wq _ H4 t m E) as Hi. destruct (i2_wq _ H2 t m Hi) as (_ & _ & Hs).
  pose proof (i2_slp1 _ H2 t Hs). congruence.
Qed.

(* lock() / try_lock() has returned r: r = 0 iff the caller is the owner, iff it is inside; on
   failure (and on success) it is in no wait queue and its waitq field is null *)
Lemma lock_result_l s : reachable s -> forall t m r e,
  pc (th s t) = PRet (RLock m) r e \/ pc (th s t) = PRet (RTry m) r e ->
  (r = 0 <-> owner (mx s m) = Some t) /\ (r = 0 <-> (cnt (th s t) m > 0)%nat) /\
  wq (th s t) = None /\ forall m', ~ In t (wqm (mx s m')).
Proof.
  intros Hr t m r e Hpc. destruct (lock_result_iff_owner_l s Hr t m r e Hpc) as (A & B & C).
  repeat split; try apply A; try apply B; auto.
  apply returned_no_waitq; auto. destruct Hpc as [-> | ->]; reflexivity.
Qed.

(* whoever `owner` names is inside, or is still in the protocol at a point from which it will
   learn it (about to return 0, releasing, or being handed the mutex with the evidence intact) *)
Definition accounted (s : state) (m : mid) (t : tid) : Prop :=
  (cnt (th s t) m > 0)%nat \/
  must (pc (th s t)) m = true \/
  (pcwait (pc (th s t)) m = true /\ (In t (wqm (mx s m)) \/ err (th s t) = -1)) \/
  (exists c, lm c = m /\ ((pc (th s t) = PS1 (SLock c) /\ err (th s t) = -1) \/
                          pc (th s t) = PS2 (SLock c) (-1) \/ pc (th s t) = PLchk c)).
Lemma owner_accounted_l s : reachable s -> forall m t, owner (mx s m) = Some t -> accounted s m t.
Proof.
  intros Hr m t Ho. pose proof (j_cls _ (own_inv_reachable s Hr) t m) as H. unfold accounted.
  destruct (pc (th s t)) eqn:Hp; cbn [classify must pcwait] in *;
    try match goal with k : yk |- _ => destruct k | k : sk |- _ => destruct k end; cbn [classify must pcwait] in *;
    unfold on in *;
    repeat match goal with
    | H : context [Nat.eqb ?a ?b] |- _ => destruct (Nat.eqb_spec a b)
    end; cbn [cls_ok] in H;
    try solve [ left; apply H; exact Ho ];
    try solve [ destruct H; congruence ];
    try solve [ right; left; reflexivity ];
    try solve [ right; right; left; split; [reflexivity|apply H; exact Ho] ].
  - right; right; right. exists c. split; [assumption|]. left. split; [reflexivity|apply H; exact Ho].
  - right; right; right. exists c. split; [assumption|]. right; left. destruct H as [_ H]. rewrite (H Ho). reflexivity.
  - right; right; right. exists c. split; [assumption|]. right; right. reflexivity.
Qed.

(* the mutex is not left stuck: free with waiters => somebody is on the way *)
Definition on_the_way (s : state) (m : mid) (t : tid) : Prop :=
  (exists x, pc (th s t) = PUint m x) \/
  (pcwait (pc (th s t)) m = true /\ wq (th s t) = None /\ ~ In t (wqm (mx s m)) /\ err (th s t) = -1) \/
  (exists c, lm c = m /\ ((pc (th s t) = PS1 (SLock c) /\ err (th s t) = -1) \/ pc (th s t) = PS2 (SLock c) (-1) \/
                          pc (th s t) = PLchk c \/ pc (th s t) = PLspl c \/ pc (th s t) = PLcas2 c)).
Lemma wit_on_the_way s : reachable s -> forall m t, is_wit s m t -> on_the_way s m t.
Proof.
  intros Hr m t Hw. destruct (live_wit_reachable s Hr) as [H4 _]. pose proof (inv2_reachable s Hr) as H2.
  unfold is_wit in Hw. unfold on_the_way.
  assert (Hwq : pcwait (pc (th s t)) m = true -> ~ In t (wqm (mx s m)) -> wq (th s t) = None).
  { intros Hp Hn. destruct (wq (th s t)) as [m'|] eqn:E; [|reflexivity]. exfalso.
    pose proof (k_wq _ H4 t m' E) as Hi. destruct (i2_wq _ H2 t m' Hi) as (Hp' & _ & _).
    destruct (pc (th s t)); cbn in Hp, Hp'; try discriminate; try (destruct k; try discriminate);
      unfold on in *; apply Nat.eqb_eq in Hp, Hp'; subst; tauto. }
  destruct (pc (th s t)) eqn:Hp; cbn [wkind pcwait] in *;
    try match goal with k : sk |- _ => destruct k end; cbn [wkind pcwait] in *;
    unfold on in *;
    repeat match goal with
    | H : context [Nat.eqb ?a ?b] |- _ => destruct (Nat.eqb_spec a b)
    end; cbn [wit_ok] in Hw; try contradiction.
  - right; right. exists c. auto 10.
  - right; right. exists c. auto 10.
  - right; left. destruct Hw as [Hn He]. repeat split; auto.
  - right; left. destruct Hw as [Hn He]. repeat split; auto.
  - right; right. exists c. auto 10.
  - right; right. exists c. split; [assumption|]. right; left.
    destruct (e =? -1) eqn:E; cbn [wit_ok] in Hw; [|contradiction]. apply Z.eqb_eq in E. now subst.
  - right; right. exists c. auto 10.
  - left. subst. eauto.
Qed.
Lemma not_stuck_l s : reachable s -> forall m,
  owner (mx s m) = None -> wqm (mx s m) <> [] -> exists t, on_the_way s m t.
Proof.
  intros Hr m Ho Hq. destruct (live_wit_reachable s Hr) as [_ H5]. destruct (H5 m Ho Hq) as [t Ht].
  exists t. apply wit_on_the_way; auto.
Qed.

(* ---- the statements of C01_Own.v, exactly as written there (the guard is not needed) ---------- *)
Lemma lock_result_iff_owner_holds : lock_result_iff_owner.
Proof.
  intros s Hr _ t m r e Hpc. destruct (lock_result_l s Hr t m r e (or_introl Hpc)) as (A & _ & C & D). auto.
Qed.
Lemma mutex_excl_holds : mutex_excl.
Proof. intros s Hr _. apply mutex_excl_l; auto. Qed.
Lemma not_stuck_holds : not_stuck.
Proof.
  intros s Hr _ m Ho Hq. destruct (not_stuck_l s Hr m Ho Hq) as [t Ht]. exists t. unfold kz1.
  destruct Ht as [H|[(A & B & _ & D)|(c & Hc & H)]]; [left; exact H|right; left; auto|].
  right; right. exists c. split; [exact Hc|]. intuition.
Qed.
