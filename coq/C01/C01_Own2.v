(* C01_Own2.v — own_inv is an invariant of every reachable state (code as written after the F33
   repair; both arms of the `aintr` switch), and what it yields: a thread inside is the owner
   (every mutex class, recursive_mutex included), mutual exclusion, lock()/try_lock() result 0
   exactly when the caller is the owner at the return; a returned thread is in no wait queue. *)
From Coq Require Import ZArith List Bool Arith Lia.
From PV Require Import Base.U64 C01.C01_Model C01.C01_Tac C01.C01_Excl C01.C01_Inv2 C01.C01_I2 C01.C01_Eff
  C01.C01_Cls C01.C01_J1 C01.C01_J2 C01.C01_J3 C01.C01_J4.
Import ListNotations.
Local Open Scope Z_scope.

Lemma own_inv_step s l s' : inv1 s -> inv2 s -> own_inv s -> step s l = Some s' -> own_inv s'.
Proof.
  intros H1 H2 H3 Hs. constructor.
  - eapply j_cls_step; eauto.
  - eapply j_a_step; eauto.
  - eapply j_rc_step; eauto.
  - eapply j_rc0_step; eauto.
  - eapply j_ret_step; eauto.
Qed.

Lemma own_inv_reachable s : reachable s -> own_inv s.
Proof.
  induction 1 as [s Hi|s l s' Hr IH Hs]; [apply own_inv_init; exact Hi|].
  eapply own_inv_step; eauto using inv1_reachable, inv2_reachable.
Qed.

(* a thread inside is the owner — every mutex class *)
Lemma holder_is_owner_l s : reachable s ->
  forall m t, (cnt (th s t) m > 0)%nat -> owner (mx s m) = Some t.
Proof.
  intros Hr m t Hc. pose proof (j_cls _ (own_inv_reachable s Hr) t m) as H.
  destruct (classify (pc (th s t)) m); cbn [cls_ok] in H; intuition lia.
Qed.
Lemma mutex_excl_l s : reachable s ->
  forall m t1 t2, (cnt (th s t1) m > 0)%nat -> (cnt (th s t2) m > 0)%nat -> t1 = t2.
Proof.
  intros Hr m t1 t2 A B.
  pose proof (holder_is_owner_l s Hr m t1 A). pose proof (holder_is_owner_l s Hr m t2 B). congruence.
Qed.
(* recursive_mutex::recursive_count is the owner's depth *)
Lemma recursive_count_l s : reachable s -> forall m t, recursive (mx s m) = true ->
  owner (mx s m) = Some t -> rcnt (mx s m) = Z.of_nat (cnt (th s t) m).
Proof. intros Hr m t. apply (j_rc _ (own_inv_reachable s Hr)). Qed.

(* lock() / try_lock() has returned r (the thread sits at the return): r = 0 iff the caller is the
   owner (iff it is inside); and it is in no wait queue *)
Lemma lock_result_iff_owner_l s : reachable s -> forall t m r e,
  pc (th s t) = PRet (RLock m) r e \/ pc (th s t) = PRet (RTry m) r e ->
  (r = 0 <-> owner (mx s m) = Some t) /\ (r = 0 <-> (cnt (th s t) m > 0)%nat) /\
  forall m', ~ In t (wqm (mx s m')).
Proof.
  intros Hr t m r e Hpc. pose proof (own_inv_reachable s Hr) as H3. pose proof (inv2_reachable s Hr) as H2.
  assert (Hri : retinfo (pc (th s t)) = Some (m, r)) by (destruct Hpc as [-> | ->]; reflexivity).
  assert (Hk : classify (pc (th s t)) m = CFree) by (destruct Hpc as [-> | ->]; reflexivity).
  pose proof (j_cls _ H3 t m) as Hc. rewrite Hk in Hc. cbn [cls_ok] in Hc.
  pose proof (j_ret _ H3 t m r Hri) as Hret.
  split; [|split].
  - intuition (try congruence; try lia).
  - intuition (try congruence; try lia).
  - intros m' Hin. destruct (i2_wq _ H2 t m' Hin) as (A & _).
    destruct Hpc as [E | E]; rewrite E in A; discriminate.
Qed.
