(* C01_Cls.v — the ownership invariant `own_inv` (who may be `owner`, lock() result vs ownership,
   recursive_count), stated through ONE class function over program points.  Definitions, the
   initial state, and the small facts relating the classes to inv2's predicates.
   Holds for both arms of the `aintr` switch: the only fact about thread_interrupt's `out:` branch
   that it uses is "error_number is overwritten only when it is 0 at that instant" (the CAS of the
   F33 repair, commit 34f175e). *)
From Coq Require Import ZArith List Bool Arith Lia.
From PV Require Import Base.U64 C01.C01_Model C01.C01_Tac C01.C01_Excl C01.C01_Inv2 C01.C01_Eff.
Import ListNotations.
Local Open Scope Z_scope.

(* class of a program point with respect to mutex m *)
Inductive cls : Type :=
| CFree            (* outside the protocol of m: owner = self  <->  inside (cnt > 0) *)
| CMust            (* owner = self, not yet / no longer counted *)
| CNot             (* owner <> self *)
| CZ1              (* asleep in / just taken out of m's queue *)
| CZ2              (* resumed: about to read error_number *)
| CZ3 (e : Z)      (* has read error_number = e *)
| CZ4.             (* about to load owner (1788) *)

Definition classify (p : pc_t) (m : mid) : cls :=
  match p with
  | PY1 (YLock c _) | PY2 (YLock c _) | PYw (YLock c _) | PY3 (YLock c _) => if on c m then CNot else CFree
  | PL0 c | PLcas1 c _ | PLspl c | PLcas2 c | PLexp c | PLto c | PLenq c => if on c m then CNot else CFree
  | PLok c => if on c m then CMust else CFree
  | PLdefer c | PSw (SLock c) => if on c m then CZ1 else CFree
  | PS1 (SLock c) => if on c m then CZ2 else CFree
  | PS2 (SLock c) e => if on c m then CZ3 e else CFree
  | PLchk c => if on c m then CZ4 else CFree
  | PT0 m' _ | PUint m' _ | PUrel m' _ | PUunspl m' => if Nat.eqb m' m then CNot else CFree
  | PUspl m' | PUhd m' | PUlk m' _ | PUre m' _ | PUunl m' _ | PUst m' _ => if Nat.eqb m' m then CMust else CFree
  | _ => CFree
  end.

(* o = owner of m, q = its queue, c = the thread's ghost count for m, e = its error_number *)
Definition cls_ok (k : cls) (o : option tid) (q : list tid) (c : nat) (e : Z) (t : tid) : Prop :=
  match k with
  | CFree => o = Some t <-> (c > 0)%nat
  | CMust => o = Some t /\ c = O
  | CNot => o <> Some t /\ c = O
  | CZ1 => c = O /\ (o = Some t -> In t q \/ e = -1)
  | CZ2 => c = O /\ (o = Some t -> e = -1)
  | CZ3 e' => c = O /\ (o = Some t -> e' = -1)
  | CZ4 => c = O
  end.

(* the mutex and the result a returned lock()/try_lock() carries *)
Definition retinfo (p : pc_t) : option (mid * Z) :=
  match p with
  | PRet (RLock m) r _ | PRet (RTry m) r _ => Some (m, r)
  | _ => None
  end.

Record own_inv (s : state) : Prop := mkOwn {
  j_cls : forall t m, cls_ok (classify (pc (th s t)) m) (owner (mx s m)) (wqm (mx s m))
                             (cnt (th s t) m) (err (th s t)) t;
  (* the owner is still queued only while its unlocker is about to wake it *)
  j_a : forall t m, owner (mx s m) = Some t -> In t (wqm (mx s m)) -> exists u, pc (th s u) = PUint m t;
  j_rc : forall t m, recursive (mx s m) = true -> owner (mx s m) = Some t ->
                     rcnt (mx s m) = Z.of_nat (cnt (th s t) m);
  j_rc0 : forall m, owner (mx s m) = None \/ recursive (mx s m) = false -> rcnt (mx s m) = 0;
  j_ret : forall t m r, retinfo (pc (th s t)) = Some (m, r) ->
                        (r = 0 /\ (cnt (th s t) m > 0)%nat) \/ (r <> 0 /\ cnt (th s t) m = O)
}.

Lemma own_inv_init s : is_init s -> own_inv s.
Proof.
  intros (nw & re & ct & rc & v & ai & ->).
  constructor; cbn; intros; try congruence; try tauto; try discriminate.
  split; intros; [congruence|lia].
Qed.

(* ---- classes vs the predicates of inv2 ------------------------------------------------------- *)
Lemma classify_pcwait p m : pcwait p m = true -> classify p m = CZ1.
Proof.
  destruct p; cbn; try discriminate; try (destruct k; cbn; try discriminate); intros ->; reflexivity.
Qed.
Lemma classify_CZ1 p m : classify p m = CZ1 -> pcwait p m = true.
Proof.
  destruct p; cbn; try discriminate; try (destruct k; cbn; try discriminate);
    repeat match goal with |- context [if ?b then _ else _] => destruct b end; try discriminate; reflexivity.
Qed.
(* a SLEEPING thread (sleeppc) is in class Z1 or Free of every mutex *)
Lemma classify_sleeppc p m : sleeppc p = true -> classify p m = CZ1 \/ classify p m = CFree.
Proof.
  destruct p; cbn; try discriminate; try (destruct k; cbn); intros _;
    repeat match goal with |- context [if ?b then _ else _] => destruct b end; auto.
Qed.

#[export] Hint Resolve In_rm In_rm_neq hd_In in_or_app in_eq : c01l.

(* ---- packaged consequences of inv2 / own_inv used at the few non-local steps ------------------ *)
Lemma in_sleeping s x m : inv2 s -> In x (wqm (mx s m)) -> st (th s x) = SLEEPING.
Proof. intros H Hi. apply (i2_wq _ H x m Hi). Qed.
Lemma in_class s x m : inv2 s -> In x (wqm (mx s m)) -> classify (pc (th s x)) m = CZ1.
Proof. intros H Hi. apply classify_pcwait. apply (i2_wq _ H x m Hi). Qed.
Lemma sleeping_class s x m : inv2 s -> st (th s x) = SLEEPING ->
  classify (pc (th s x)) m = CZ1 \/ classify (pc (th s x)) m = CFree.
Proof. intros H Hs. apply classify_sleeppc. apply (i2_slp1 _ H x Hs). Qed.
Lemma sleeping_cz1_in s x m : inv2 s -> st (th s x) = SLEEPING -> classify (pc (th s x)) m = CZ1 ->
  In x (wqm (mx s m)).
Proof. intros H Hs Hk. apply (i2_slp2 _ H x m Hs). apply classify_CZ1. exact Hk. Qed.
Lemma pi3_sleeping s a x e : inv2 s -> pc (th s a) = PI3 x e -> st (th s x) = SLEEPING.
Proof. intros H Hp. apply (i2_pi3 _ H a x). rewrite Hp. cbn. apply Nat.eqb_refl. Qed.
(* the head that do_mutex_unlock has locked and re-checked *)
Lemma uhead_facts s u m x : inv2 s -> uhead (pc (th s u)) m = Some x ->
  hd_error (wqm (mx s m)) = Some x /\ In x (wqm (mx s m)) /\ classify (pc (th s x)) m = CZ1 /\
  st (th s x) = SLEEPING /\ tlock (th s x) = Some (HT u) /\ x <> u.
Proof.
  intros H Hu. pose proof (i2_u _ H u m x Hu) as Hh. pose proof (hd_In _ _ Hh) as Hi.
  pose proof (in_class s x m H Hi) as Hk.
  repeat split; auto.
  - eapply in_sleeping; eauto.
  - apply (i2_tl _ H u x). eapply uhead_tl; eauto.
  - intros ->. destruct (pc (th s u)); cbn in Hu, Hk; try discriminate;
      repeat match type of Hu with context [if ?b then _ else _] => destruct b end; discriminate.
Qed.
Lemma ust_facts s u m x : inv2 s -> pc (th s u) = PUst m (Some x) ->
  hd_error (wqm (mx s m)) = Some x /\ In x (wqm (mx s m)) /\ classify (pc (th s x)) m = CZ1 /\
  st (th s x) = SLEEPING /\ tlock (th s x) = Some (HT u) /\ x <> u.
Proof. intros H Hp. apply uhead_facts; auto. rewrite Hp. cbn. now rewrite Nat.eqb_refl. Qed.
Lemma uint_facts s u m x : inv2 s -> pc (th s u) = PUint m x ->
  hd_error (wqm (mx s m)) = Some x /\ In x (wqm (mx s m)) /\ classify (pc (th s x)) m = CZ1 /\
  st (th s x) = SLEEPING /\ tlock (th s x) = Some (HT u) /\ x <> u.
Proof. intros H Hp. apply uhead_facts; auto. rewrite Hp. cbn. now rewrite Nat.eqb_refl. Qed.
(* an owner that is still queued: its thread.lock is held by the unlocker at PUint *)
Lemma queued_owner_lock s x m : inv2 s -> own_inv s -> owner (mx s m) = Some x -> In x (wqm (mx s m)) ->
  exists u, pc (th s u) = PUint m x /\ tlock (th s x) = Some (HT u).
Proof.
  intros H2 H3 Ho Hi. destruct (j_a _ H3 x m Ho Hi) as [u Hu]. exists u. split; [exact Hu|].
  apply (i2_tl _ H2 u x). rewrite Hu. reflexivity.
Qed.
Lemma queued_owner_xp s x m : inv2 s -> own_inv s -> owner (mx s m) = Some x -> In x (wqm (mx s m)) ->
  xp (th s x) = true -> False.
Proof.
  intros H2 H3 Ho Hi Hx. destruct (queued_owner_lock s x m H2 H3 Ho Hi) as (u & _ & Hl).
  pose proof (i2_xp _ H2 x Hx). congruence.
Qed.
Lemma queued_owner_pi3 s x m : inv2 s -> own_inv s -> owner (mx s m) = Some x -> In x (wqm (mx s m)) ->
  forall i e, pc (th s i) = PI3 x e -> False.
Proof.
  intros H2 H3 Ho Hi i e Hp. destruct (queued_owner_lock s x m H2 H3 Ho Hi) as (u & Hu & Hl).
  assert (Hl2 : tlock (th s x) = Some (HT i)) by (apply (i2_tl _ H2 i x); rewrite Hp; reflexivity).
  assert (u = i) by congruence. subst. congruence.
Qed.
(* the `called through recursive_mutex` flag of the operation in progress *)
Lemma flag_rec s a m b : inv1 s -> pc_flag (pc (th s a)) = Some (m, b) -> b = recursive (mx s m).
Proof. intros H Hf. exact (i1_flag _ _ _ (H a m) b Hf). Qed.

(* ---- leaf tactics shared by the clause proofs -------------------------------------------------- *)
Ltac eqb_all :=
  repeat match goal with
  | |- context [Nat.eqb ?a ?a] => rewrite (Nat.eqb_refl a)
  | H : context [Nat.eqb ?a ?a] |- _ => rewrite (Nat.eqb_refl a) in H
  | |- context [Nat.eqb ?a ?b] =>
      let E := fresh "E" in destruct (Nat.eqb_spec a b) as [E|E]; [first [subst b | subst a | rewrite E in *]|]
  | H : context [Nat.eqb ?a ?b] |- _ =>
      let E := fresh "E" in destruct (Nat.eqb_spec a b) as [E|E]; [first [subst b | subst a | rewrite E in *]|]
  end.
Ltac dvars_all :=
  repeat match goal with
  | |- context [match ?k with _ => _ end] => is_var k; destruct k
  | H : context [match ?k with _ => _ end] |- _ => is_var k; destruct k
  end.
(* compute the classes of the known program points, split the unknown ones (7 cases; `destruct`
   also rewrites the hypotheses, so facts about the class must be posed BEFORE) *)
Ltac cls_leaf :=
  cbn [classify] in *; dvars_all; unfold on in *; cbn [lm] in *; eqb_all;
  repeat match goal with
  | |- context [classify (pc (th ?s ?t)) ?m] => destruct (classify (pc (th s t)) m)
  | H : context [classify (pc (th ?s ?t)) ?m] |- _ => destruct (classify (pc (th s t)) m)
  end;
  cbn [cls_ok] in *.
Ltac fin_leaf := solve [ intuition (try congruence; try lia; eauto with c01l) ].
