(* C01_J4.v — preservation of own_inv's clause j_ret: a returned lock()/try_lock() carries result 0
   exactly when the ghost count says the caller is inside. *)
From Coq Require Import ZArith List Bool Arith Lia.
From PV Require Import Base.U64 C01.C01_Model C01.C01_Tac C01.C01_Excl C01.C01_Inv2 C01.C01_Eff C01.C01_Cls.
Import ListNotations.
Local Open Scope Z_scope.

Lemma j_ret_step s l s' : inv1 s -> inv2 s -> own_inv s -> step s l = Some s' ->
  forall t m r, retinfo (pc (th s' t)) = Some (m, r) ->
    (r = 0 /\ (cnt (th s' t) m > 0)%nat) \/ (r <> 0 /\ cnt (th s' t) m = O).
Proof.
  intros H1 H2 H3 Hs. scases Hs.
  all: intros t0 m0 r0; obs H2.
  all: try exact (j_ret _ H3 _ _ _).
  (* what is left: the acting thread, at its new program point *)
  all: cbn [retinfo]; dvars_all; intros Hr; try discriminate Hr.
  all: apply Some_inj in Hr; injection Hr; clear Hr; intros; subst; try congruence.
  (* a result was just produced: the class of the old program point gives the count *)
  all: match goal with Hp : pc (th ?s ?a) = _ |- context [cnt (th ?s ?a) ?m] =>
         pose proof (j_cls _ H3 a m) as Ha; rewrite Hp in Ha end.
  all: clear H1 H2 H3; cls_leaf.
  all: solve [ intuition (try congruence; try lia) ].
Qed.
