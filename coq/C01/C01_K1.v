(* C01_K1.v — preservation of live_inv (splock holder, empty-queue unlock, about-to-enqueue, waitq). *)
From Coq Require Import ZArith List Bool Arith Lia.
From PV Require Import Base.U64 C01.C01_Model C01.C01_Tac C01.C01_Excl C01.C01_Inv2 C01.C01_Eff C01.C01_Cls C01.C01_Live.
Import ListNotations.
Local Open Scope Z_scope.

Ltac k_fin := solve [ intuition (try congruence; eauto with c01l) ].
Ltac injs_goal := intros Hq; try discriminate Hq; try (apply Some_inj in Hq; subst).

Lemma k_spl_step s l s' : inv2 s -> live_inv s -> step s l = Some s' ->
  forall t m, pc_spl (pc (th s' t)) = Some m -> spl (mx s' m) = Some t.
Proof.
  intros H2 H4 Hs. scases Hs.
  all: intros t0 m0; obs H2.
  all: try exact (k_spl _ H4 _ _).
  all: match goal with |- _ = Some ?m0 -> _ = Some ?t0 =>
       pose proof (k_spl _ H4 t0 m0) as Ht;
       try match goal with Hp : pc (th _ ?a) = _ |- _ =>
             pose proof (k_spl _ H4 a m0) as Ha; rewrite Hp in Ha; try rewrite Hp in Ht end end.
  all: clear H2 H4; cbn [pc_spl] in *; dvars_all; cbn [pc_spl lm] in *.
  all: k_fin.
Qed.

(* the splock facts of the thread looked at and of the acting thread *)
Ltac spl_pose H4 t0 m0 :=
  pose proof (k_spl _ H4 t0 m0) as Hspt;
  try match goal with Hp : pc (th _ ?a) = _ |- _ =>
        pose proof (k_spl _ H4 a m0) as Hspa; rewrite Hp in Hspa; cbn [pc_spl] in Hspa end.

Lemma k_ust_step s l s' : inv2 s -> live_inv s -> step s l = Some s' ->
  forall t m, ust_none (pc (th s' t)) = Some m -> wqm (mx s' m) = [].
Proof.
  intros H2 H4 Hs. scases Hs.
  all: intros t0 m0; obs H2.
  all: try exact (k_ust _ H4 _ _).
  all: match goal with |- ust_none ?p = Some ?m0 -> _ =>
         match p with
         | pc (th _ ?t0) => pose proof (k_ust _ H4 t0 m0) as Ht; pose proof (ust_none_spl (pc (th s t0)) m0) as Hu;
                            spl_pose H4 t0 m0
         | _ => idtac
         end end.
  all: clear H2 H4; cbn [ust_none pc_spl] in *; dvars_all; cbn [ust_none pc_spl lm] in *.
  all: try (intros Hq; try discriminate Hq; try (apply Some_inj in Hq; subst)).
  all: try match goal with Ht : ?P -> wqm _ = [] , Hq : ?P |- _ => rewrite (Ht Hq); cbn [rm app] end.
  all: k_fin.
Qed.

Lemma k_exp_step s l s' : inv2 s -> live_inv s -> step s l = Some s' ->
  forall t m, exp_pc (pc (th s' t)) = Some m -> owner (mx s' m) <> None.
Proof.
  intros H2 H4 Hs. scases Hs.
  all: intros t0 m0; obs H2.
  all: try exact (k_exp _ H4 _ _).
  all: match goal with |- exp_pc ?p = Some ?m0 -> _ =>
         match p with
         | pc (th _ ?t0) => pose proof (k_exp _ H4 t0 m0) as Ht; pose proof (exp_pc_spl (pc (th s t0)) m0) as Hu;
                            spl_pose H4 t0 m0
         | _ => try match goal with Hp : pc (th _ ?a) = _ |- _ =>
                      pose proof (k_exp _ H4 a m0) as Ha; rewrite Hp in Ha end
         end end.
  all: clear H2 H4; cbn [exp_pc pc_spl] in *; dvars_all; cbn [exp_pc pc_spl lm] in *.
  all: try (intros Hq; try discriminate Hq; try (apply Some_inj in Hq; subst)).
  all: k_fin.
Qed.

Lemma k_wq_step s l s' : inv2 s -> live_inv s -> step s l = Some s' ->
  forall t m, wq (th s' t) = Some m -> In t (wqm (mx s' m)).
Proof.
  intros H2 H4 Hs. scases Hs.
  all: intros t0 m0; obs H2.
  all: try exact (k_wq _ H4 _ _).
  all: try (intros Hq; try discriminate Hq).
  all: try match goal with |- In ?t0 (wqm (mx _ ?m0)) => pose proof (k_wq _ H4 t0 m0) as Ht
                          | |- In ?t0 (rm _ (wqm (mx _ ?m0))) => pose proof (k_wq _ H4 t0 m0) as Ht
                          | |- In ?t0 (wqm (mx _ ?m0) ++ _) => pose proof (k_wq _ H4 t0 m0) as Ht end.
  all: k_fin.
Qed.

Lemma live_inv_step s l s' : inv2 s -> live_inv s -> step s l = Some s' -> live_inv s'.
Proof.
  intros H2 H4 Hs. constructor.
  - eapply k_spl_step; eauto.
  - eapply k_ust_step; eauto.
  - eapply k_exp_step; eauto.
  - eapply k_wq_step; eauto.
Qed.
