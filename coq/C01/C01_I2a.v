(* clause (a): thread.lock holders *)
From Coq Require Import ZArith List Bool Arith Lia.
From PV Require Import Base.U64 C01.C01_Model C01.C01_Tac C01.C01_Excl C01.C01_Inv2.
Import ListNotations.
Local Open Scope Z_scope.

Lemma i2_tl_step s l s' : inv2 s -> step s l = Some s' ->
  forall t x, pc_tl (pc (th s' t)) = Some x -> tlock (th s' x) = Some (HT t).
Proof.
  intros H Hs. step_cases Hs; try (apply (i2_tl _ H)); intros t0 x0;
    pose proof (i2_tl _ H t0 x0); pose proof (i2_tl _ H a x0); pose proof (i2_xp _ H x0);
    pose proof (i2_tl _ H t0 a); pose proof (i2_tl _ H a a); pose proof (i2_xp _ H a); gfin.
Qed.

Lemma i2_xp_step s l s' : inv2 s -> step s l = Some s' ->
  forall x, xp (th s' x) = true -> tlock (th s' x) = Some HX.
Proof.
  intros H Hs. step_cases Hs; try (apply (i2_xp _ H)); intros x0;
    pose proof (i2_xp _ H x0); pose proof (i2_tl _ H a x0);
    pose proof (i2_tl _ H a a); pose proof (i2_xp _ H a); gfin.
Qed.
