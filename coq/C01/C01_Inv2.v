(* C01_Inv2.v — tier 2: the structural invariants of the hand-off protocol (definitions, list
   lemmas, tactics).  Clauses (a)-(e) hold for the code as written; the ownership clauses (f) need
   the idealisation `aintr = true` (C01_Finding.v shows they fail without it). *)
From Coq Require Import ZArith List Bool Arith Lia.
From PV Require Import Base.U64 C01.C01_Model C01.C01_Tac C01.C01_Excl.
Import ListNotations.
Local Open Scope Z_scope.

(* ---- classification of program points ------------------------------------------------------ *)
(* t waits in (or has been taken out of) the queue of m, not yet resumed *)
Definition pcwait (p : pc_t) (m : mid) : bool :=
  match p with
  | PLdefer c | PSw (SLock c) => on c m
  | _ => false
  end.
Definition sleeppc (p : pc_t) : bool :=
  match p with PLdefer _ | PSw _ => true | _ => false end.
(* t holds x's thread.lock *)
Definition pc_tl (p : pc_t) : option tid :=
  match p with
  | PUre _ x | PUunl _ x | PUst _ (Some x) | PUint _ x | PUrel _ x => Some x
  | PI2 x _ | PI3 x _ | PIo1 x _ true | PIo2 x _ true | PIrel x => Some x
  | _ => None
  end.
Definition is_PI3 (p : pc_t) (x : tid) : bool :=
  match p with PI3 y _ => Nat.eqb y x | _ => false end.
(* the unlocker has locked the head x of m's queue and re-checked it *)
Definition uhead (p : pc_t) (m : mid) : option tid :=
  match p with
  | PUst m' (Some x) | PUint m' x => if Nat.eqb m' m then Some x else None
  | _ => None
  end.
(* t holds m's splock *)
Definition pc_spl (p : pc_t) : option mid :=
  match p with
  | PLcas2 c | PLok c | PLexp c | PLto c | PLenq c | PLdefer c => Some (lm c)
  | PUhd m | PUlk m _ | PUre m _ | PUunl m _ | PUst m _ | PUint m _ | PUrel m _ | PUunspl m => Some m
  | _ => None
  end.

(* ---- clauses (a)-(e) ------------------------------------------------------------------------- *)
Record inv2 (s : state) : Prop := mkInv2 {
  i2_tl : forall t x, pc_tl (pc (th s t)) = Some x -> tlock (th s x) = Some (HT t);
  i2_xp : forall x, xp (th s x) = true -> tlock (th s x) = Some HX;
  i2_wq : forall x m, In x (wqm (mx s m)) ->
            pcwait (pc (th s x)) m = true /\ wq (th s x) = Some m /\ st (th s x) = SLEEPING;
  i2_nodup : forall m, NoDup (wqm (mx s m));
  i2_slp1 : forall t, st (th s t) = SLEEPING -> sleeppc (pc (th s t)) = true;
  i2_slp2 : forall t m, st (th s t) = SLEEPING -> pcwait (pc (th s t)) m = true -> In t (wqm (mx s m));
  i2_pi3 : forall t x, is_PI3 (pc (th s t)) x = true -> st (th s x) = SLEEPING;
  i2_u : forall t m x, uhead (pc (th s t)) m = Some x -> hd_error (wqm (mx s m)) = Some x
}.

(* ---- list facts about the wait queue ------------------------------------------------------- *)
Lemma In_rm a y l : In a (rm y l) -> In a l.
Proof.
  induction l as [|z l IH]; cbn; [tauto|]. destruct (Nat.eqb_spec z y); cbn; intuition.
Qed.
Lemma In_rm_neq a y l : In a l -> a <> y -> In a (rm y l).
Proof.
  induction l as [|z l IH]; cbn; [tauto|]. intros [->|H] Hn.
  - destruct (Nat.eqb_spec a y); [congruence|]. now left.
  - destruct (Nat.eqb_spec z y); [assumption|]. right; auto.
Qed.
Lemma NoDup_rm y l : NoDup l -> NoDup (rm y l).
Proof.
  induction 1 as [|z l Hz Hl IH]; cbn; [constructor|].
  destruct (Nat.eqb_spec z y); [assumption|]. constructor; [|assumption].
  intros H. apply Hz. eapply In_rm; eauto.
Qed.
Lemma not_In_rm y l : NoDup l -> ~ In y (rm y l).
Proof.
  induction 1 as [|z l Hz Hl IH]; cbn; [tauto|].
  destruct (Nat.eqb_spec z y); [subst; assumption|]. cbn. intuition.
Qed.
Lemma hd_rm x y l : hd_error l = Some x -> x <> y -> hd_error (rm y l) = Some x.
Proof.
  destruct l as [|z l]; cbn; [discriminate|]. intros [= ->] Hn.
  destruct (Nat.eqb_spec x y); [congruence|reflexivity].
Qed.
Lemma hd_app x (l : list tid) t : hd_error l = Some x -> hd_error (l ++ [t]) = Some x.
Proof. destruct l; cbn; [discriminate|auto]. Qed.
Lemma hd_In x (l : list tid) : hd_error l = Some x -> In x l.
Proof. destruct l; cbn; [discriminate|]. intros [= ->]. now left. Qed.
Lemma NoDup_snoc (l : list tid) t : NoDup l -> ~ In t l -> NoDup (l ++ [t]).
Proof.
  intros Hl Ht. induction Hl as [|z l Hz Hl IH]; cbn; [constructor; [tauto|constructor]|].
  constructor.
  - rewrite in_app_iff. cbn. intros [H|[H|[]]]; [tauto|]. subst. apply Ht. now left.
  - apply IH. intros H. apply Ht. now right.
Qed.
Lemma In_snoc a (l : list tid) t : In a (l ++ [t]) <-> In a l \/ a = t.
Proof. rewrite in_app_iff. cbn. intuition. Qed.

Lemma inv2_init s : is_init s -> inv2 s.
Proof.
  intros (nw & re & ct & rc & v & ai & ->).
  constructor; cbn; intros; try congruence; try tauto; try constructor.
Qed.

(* case analysis over every transition: leaves one goal per enabled outcome, with the new state
   normalised, `a` = the acting thread, Hpc = its program point *)
Ltac step_cases Hs :=
  match type of Hs with
  | step ?s ?l = Some ?s' =>
      destruct l as [a o|a|a|a|a|a|d]; cbn [step] in Hs;
      [ unfold start in Hs; destruct (pc (th s a)) eqn:Hpc; try discriminate Hs;
        destruct o; split_ifs Hs; try discriminate Hs; injection Hs as <-; norm
      | unfold tstep in Hs; cbv zeta in Hs;
        destruct (pc (th s a)) eqn:Hpc; unfold try_lock in Hs; split_ifs Hs; try discriminate Hs;
        injection Hs as <-; norm
      | unfold sched in Hs; split_ifs Hs; try discriminate Hs; injection Hs as <-; norm
      | unfold drain in Hs; split_ifs Hs; try discriminate Hs; injection Hs as <-; norm
      | unfold exp_lock in Hs; split_ifs Hs; try discriminate Hs; injection Hs as <-; norm
      | unfold exp_body in Hs; split_ifs Hs; try discriminate Hs; injection Hs as <-; norm
      | split_ifs Hs; try discriminate Hs; injection Hs as <-; cbn [th mx now vc aintr] ]
  end.

Ltac tsfacts :=
  repeat match goal with
  | H : tstate_eqb _ _ = true |- _ => apply tstate_eqb_true in H
  | H : tstate_eqb _ _ = false |- _ => apply tstate_eqb_false in H
  | H : (_ && _)%bool = true |- _ => apply andb_prop in H; destruct H
  | H : (_ =? _) = true |- _ => apply Z.eqb_eq in H
  | H : (_ <=? _) = true |- _ => apply Z.leb_le in H
  end.

Ltac g1 :=
  unfold upd, on, after_fail in *; cbn in *; rwpc; cbn in *; dvars; cbn in *; intros; injs;
  eqb_tac; cbn in *; boolfacts; tsfacts; injs; subst; cbn in *.
Ltac gsolve := try solve [ intuition (eauto 3; try congruence; try lia) ].
Ltac gfin := g1; gsolve; g1; gsolve.

Lemma is_PI3_tl p x : is_PI3 p x = true -> pc_tl p = Some x.
Proof. destruct p; cbn; try discriminate. intros H. apply Nat.eqb_eq in H. now subst. Qed.
Lemma uhead_tl p m x : uhead p m = Some x -> pc_tl p = Some x.
Proof.
  destruct p; cbn; try discriminate.
  - destruct h; [|discriminate]. destruct (Nat.eqb m0 m); [|discriminate]. auto.
  - destruct (Nat.eqb m0 m); [|discriminate]. auto.
Qed.
Ltac tlfacts :=
  repeat match goal with
  | Hq : is_PI3 ?p ?x = true |- _ =>
      lazymatch goal with _ : pc_tl p = Some x |- _ => fail | _ => pose proof (is_PI3_tl _ _ Hq) end
  | Hq : uhead ?p ?m = Some ?x |- _ =>
      lazymatch goal with _ : pc_tl p = Some x |- _ => fail | _ => pose proof (uhead_tl _ _ _ Hq) end
  end.
