(* C01_Coop.v — the E2 tie: the cooperative single-vCPU run of the FINE-GRAINED model.
   EXECUTABLE DEFINITIONS ONLY.

   The cooperative interpreter of Sched/Prog.v (run queue ring, sleep heap, idler, virtual clock,
   create/join — shared, owner C04) is instantiated with a `prim_step` that does nothing but run
   the fine-grained per-thread step function `C01_Model.tstep` (the very function the
   all-interleavings theorems are about) for the current thread until it blocks:

     U (the primitives' state)  = a C01_Model.state.  Its mutex records (owner, splock,
        recursive_count, constants) and per-thread pc / ghost counters PERSIST; its scheduler-level
        thread fields (state, error_number, waitq, ts_wakeup) and the wait lists are a VIEW
        rebuilt from the Sched state at every entry (`sync_in`), so that wake-ups done by the
        scheduler itself (timer expiry in resume_threads) are seen by the fine-grained steps;
     effects of fine-grained steps on OTHER threads (hand-off PUint, interrupt PI3 / `out:`) are
        mirrored into the Sched state with its own prelocked_interrupt / set_terr (`sync_out`);
     a thread that reaches PYw / PLdefer / PSw hands the switch to Sched (AYield / ASleep); the
        deferred `spinlock_unlock(&splock)` is the fine-grained step PLdefer run by ASleep's
        `defer` right after the switch, as switch_context_defer does.
   The ops `usleep`, `yield`, `interrupt` of a program are ALSO routed through the fine-grained
   steps (pcs PZ.., PY.., PI..), not through Sched's own implementation. *)
From Coq Require Import ZArith List Bool Arith.
From PV Require Import Base.U64 C04.C04_Heap.
From PV Require Sched.Core Sched.Prog.
From PV Require Import C01.C01_Model.
Import ListNotations.
Local Open Scope Z_scope.

Definition U : Type := C01_Model.state.
Definition cstate : Type := Core.state U.

Definition conv_st (s : Core.tstate) : tstate :=
  match s with
  | Core.READY => READY
  | Core.SLEEPING => SLEEPING
  | Core.STANDBY => STANDBY
  | _ => RUNNING            (* RUNNING; DONE / NOTCREATED behave like "neither SLEEPING nor READY" *)
  end.
Definition conv_wq (q : option Core.qid) : option mid :=
  match q with Some (Core.QUser m) => Some m | _ => None end.

(* the fine-grained state as seen from the Sched state *)
Definition sync_in (st : cstate) : U :=
  let u := Core.s_user st in
  mkS (Core.s_now st)
      (fun t => let r := th u t in let c := Core.getth st t in
                mkT (conv_st (Core.th_state c)) (Core.th_err c) (conv_wq (Core.th_waitq c)) (Core.th_ts c)
                    None (pc r) false (cnt r))
      (fun m => set_wqm (mx u m) (Core.wq_get st (Core.QUser m)))
      (vc u) (aintr u).

(* mirror what the fine-grained steps of thread t did to the other threads (u0 = view before,
   u1 = after), and t's own error_number *)
Fixpoint mirror (st : cstate) (t : tid) (u0 u1 : U) (k : nat) (n : nat) : cstate :=
  match n with
  | O => st
  | S n' =>
      let st1 :=
        if Nat.eqb k t then st
        else if tstate_eqb (C01_Model.st (th u0 k)) SLEEPING && negb (tstate_eqb (C01_Model.st (th u1 k)) SLEEPING)
             then Core.prelocked_interrupt st k (err (th u1 k))
             else if err (th u0 k) =? err (th u1 k) then st
                  else Core.modth st k (fun x => Core.set_terr x (err (th u1 k))) in
      mirror st1 t u0 u1 (S k) n'
  end.
Definition sync_out (st : cstate) (t : tid) (u0 u1 : U) : cstate :=
  let st1 := mirror st t u0 u1 0 (Core.idler_tid st) in
  let st2 := Core.modth st1 t (fun x => Core.set_terr x (err (th u1 t))) in
  Core.set_user st2 u1.

(* run thread t's fine-grained steps until it returns or switches out *)
Inductive stop : Type :=
| SRet (r e : Z) | SYield | SSleep (exp : Z) (q : option mid) (defer : bool) | SStuck.
Fixpoint run_thread (fuel : nat) (u : U) (t : tid) : U * stop :=
  match fuel with
  | O => (u, SStuck)
  | S f =>
      match pc (th u t) with
      | PRet _ r e => (match tstep u t with Some u' => u' | None => u end, SRet r e)
      | PYw _ => (u, SYield)
      | PLdefer c => (u, SSleep (ldl c) (Some (lm c)) true)
      | PSw _ => (u, SSleep (ts (th u t)) None false)
      | _ => match tstep u t with
             | Some u' => run_thread f u' t
             | None => (u, SStuck)
             end
      end
  end.

Definition RUN_FUEL : nat := 2000.

(* the deferred call: one fine-grained step of t (PLdefer: splock.unlock()), on the next thread's stack *)
Definition deferred (t : tid) (st : cstate) : cstate :=
  let u := sync_in st in
  match tstep u t with
  | Some u' => Core.set_user st u'
  | None => Core.set_stuck st
  end.

Definition finish (st : cstate) (t : tid) (u0 : U) (res : U * stop) : cstate * Prog.action U :=
  let '(u1, sp) := res in
  let st1 := sync_out st t u0 u1 in
  match sp with
  | SRet r e => (st1, Prog.ARet r e)
  | SYield => (st1, Prog.AYield [1])
  | SSleep exp q d =>
      (st1, Prog.ASleep exp (match q with Some m => Some (Core.QUser m) | None => None end)
                        (if d then Some (deferred t) else None) [1])
  | SStuck => (st1, Prog.AStuck)
  end.

Definition target_ok (st : cstate) (o : mop) : bool :=
  match o with MInterrupt x _ => Core.alive st x | _ => true end.

Definition prim_step (st : cstate) (t : tid) (o : mop) (k : Core.kont) : cstate * Prog.action U :=
  let u0 := sync_in st in
  match k with
  | [] =>
      if target_ok st o then
        match start u0 t o with
        | Some u1 => finish st t u0 (run_thread RUN_FUEL u1 t)
        | None => (st, Prog.ARet Prog.SKIPPED 0)       (* operation outside the client discipline *)
        end
      else (st, Prog.ARet Prog.SKIPPED 0)
  | _ =>
      (* switched back in: the scheduler has made t RUNNING; the fine-grained LSched step *)
      let ur := setT u0 t (set_st (th u0 t) READY) in
      match sched ur t with
      | Some u1 => finish st t u0 (run_thread RUN_FUEL u1 t)
      | None => (st, Prog.AStuck)
      end
  end.

(* initial user state from the declarations: (retries, contending, recursive) per object *)
Definition cfg_of (cfgs : list (nat * bool * bool)) (m : mid) : nat * bool * bool :=
  nth m cfgs (O, false, false).
Definition init_u (cfgs : list (nat * bool * bool)) : U :=
  init_state 0 (fun m => fst (fst (cfg_of cfgs m))) (fun m => snd (fst (cfg_of cfgs m)))
             (fun m => snd (cfg_of cfgs m)) (fun _ => O) false.   (* aintr = false: the code as written (CAS arm) *)

Definition c01_run (fuel : nat) (cfgs : list (nat * bool * bool)) (ps : list (list (Prog.op mop))) :=
  Prog.coop_result prim_step ps fuel Prog.VCLOCK_START (init_u cfgs).
