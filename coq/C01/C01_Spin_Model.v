(* C01_Spin_Model.v — step machines of the three OS-thread locks of thread.h / thread.cpp:
     photon::spinlock         thread.h 230-261   (test-and-set with test-and-test-and-set back-off)
     photon::ticket_spinlock  thread.h 276-284, thread.cpp 1636-1651   (try_lock is declared, never defined)
     photon::qspinlock        thread.h 263-274, thread.cpp 1653-1694   (MCS-style, one thread_local holder per OS thread)
   EXECUTABLE DEFINITIONS ONLY.  One transition per atomic access, sequential consistency, ANY
   number of participants (`nat -> thr`), shape of engine E3:  step : St -> nat -> nat -> St * obs.
   A participant runs a script of Lock / TryLock / Unlock; the client discipline is built in
   (`next_pc`): Unlock is skipped by a participant that does not hold the lock, Lock/TryLock by one
   that does (the harness applies the same rule).  `ins` is the ghost "inside the critical
   section" flag: set by the transition that makes lock()/try_lock() succeed, cleared by the
   FIRST transition of unlock().
   Counters of the ticket lock are unbounded Z here (the log prints them mod 2^64): the wrap of
   size_t after 2^64 acquisitions is not modelled (it matters only with 2^64 simultaneous waiters). *)
From Coq Require Import ZArith List Bool Arith.
From PV Require Import Base.U64 E3.E3_Run.
Import ListNotations.
Local Open Scope Z_scope.

Inductive sop : Type := ALock | ATry | AUnlock.

Definition updn {A : Type} (f : nat -> A) (k : nat) (v : A) : nat -> A :=
  fun i => if Nat.eqb i k then v else f i.

Section Thr.
  Context {PC : Type}.
  Record thr : Type := mkThr { t_pc : option PC; t_scr : list sop; t_ins : bool }.
  Variable entry : sop -> PC.
  (* first atomic access of the next operation that the discipline lets through *)
  Fixpoint next_pc (scr : list sop) (ins : bool) : option PC * list sop :=
    match scr with
    | [] => (None, [])
    | o :: r =>
        match o, ins with
        | AUnlock, true | ALock, false | ATry, false => (Some (entry o), r)
        | _, _ => next_pc r ins
        end
    end.
  Definition thr_init (scr : list sop) : thr := let '(p, r) := next_pc scr false in mkThr p r false.
  Definition thr_goto (t : thr) (p : PC) : thr := mkThr (Some p) (t_scr t) (t_ins t).
  Definition thr_done (t : thr) (ins : bool) : thr := let '(p, r) := next_pc (t_scr t) ins in mkThr p r ins.
  Definition thr_goto_ins (t : thr) (p : PC) (ins : bool) : thr := mkThr (Some p) (t_scr t) ins.
End Thr.
Arguments thr : clear implicits.

Definition A_LOCK : Z := 0.
Definition A_NEXT : Z := 1.
Definition A_SERV : Z := 2.
Definition A_TAIL : Z := 3.
Definition A_HNEXT : Z := 4.
Definition A_HGOT : Z := 5.
Definition zb (b : bool) : Z := if b then 1 else 0.

(* ============================ spinlock (TAS) ============================================== *)
Inductive tpc : Type :=
| TXchg            (* lock(): _lock.exchange(true)               235 *)
| TLoad            (* lock(): inner `while (load())`             239 *)
| TTryLoad         (* try_lock(): load()                         244 *)
| TTryXchg         (* try_lock(): exchange(true)                 245 *)
| TUnl.            (* unlock(): store(false)                     251 *)
Definition tentry (o : sop) : tpc := match o with ALock => TXchg | ATry => TTryLoad | AUnlock => TUnl end.
Record tas : Type := mkTas { tl_lock : bool; tl_th : nat -> thr tpc }.

Definition tas_step (s : tas) (p : nat) (fl : nat) : tas * obs :=
  let t := tl_th s p in
  match t_pc t with
  | None => (s, ob_none)
  | Some TXchg =>
      let old := tl_lock s in
      (mkTas true (updn (tl_th s) p (if old then thr_goto t TLoad else thr_done tentry t true)),
       ob_xg A_LOCK (-1) 1 (zb old))
  | Some TLoad =>
      let v := tl_lock s in
      (mkTas v (updn (tl_th s) p (thr_goto t (if v then TLoad else TXchg))), ob_ld A_LOCK (-1) (zb v))
  | Some TTryLoad =>
      let v := tl_lock s in
      (mkTas v (updn (tl_th s) p (if v then thr_done tentry t false else thr_goto t TTryXchg)), ob_ld A_LOCK (-1) (zb v))
  | Some TTryXchg =>
      let old := tl_lock s in
      (mkTas true (updn (tl_th s) p (thr_done tentry t (negb old))), ob_xg A_LOCK (-1) 1 (zb old))
  | Some TUnl =>
      (mkTas false (updn (tl_th s) p (thr_done tentry t false)), ob_st A_LOCK (-1) 0)
  end.
Definition tas_fin (s : tas) (p : nat) : bool := match t_pc (tl_th s p) with None => true | Some _ => false end.
Definition tas_init (scr : nat -> list sop) : tas := mkTas false (fun p => thr_init tentry (scr p)).

(* ============================ ticket_spinlock ============================================= *)
Inductive kpc : Type :=
| KFa              (* lock(): next.fetch_add(1)                  1637 *)
| KLd (tk : Z)     (* lock(): while (serv.load() != ticket)      1638 *)
| KUld             (* unlock(): serv.load()                      1649 *)
| KUst (v : Z).    (* unlock(): serv.store(successor)            1650 *)
Definition kentry (o : sop) : kpc := match o with ALock => KFa | ATry => KFa | AUnlock => KUld end.
(* kl_tkt: GHOST ticket owned by a participant from its fetch_add to its store of serv *)
Record tkl : Type := mkTkl { kl_next : Z; kl_serv : Z; kl_th : nat -> thr kpc; kl_tkt : nat -> option Z }.

Definition tkl_step (s : tkl) (p : nat) (fl : nat) : tkl * obs :=
  let t := kl_th s p in
  match t_pc t with
  | None => (s, ob_none)
  | Some KFa =>
      let tk := kl_next s in
      (mkTkl (tk + 1) (kl_serv s) (updn (kl_th s) p (thr_goto t (KLd tk))) (updn (kl_tkt s) p (Some tk)),
       ob_fa A_NEXT (-1) 1 (wrap tk))
  | Some (KLd tk) =>
      let v := kl_serv s in
      (mkTkl (kl_next s) v (updn (kl_th s) p (if v =? tk then thr_done kentry t true else thr_goto t (KLd tk))) (kl_tkt s),
       ob_ld A_SERV (-1) (wrap v))
  | Some KUld =>
      let v := kl_serv s in
      (mkTkl (kl_next s) v (updn (kl_th s) p (thr_goto_ins t (KUst (v + 1)) false)) (kl_tkt s), ob_ld A_SERV (-1) (wrap v))
  | Some (KUst v) =>
      (mkTkl (kl_next s) v (updn (kl_th s) p (thr_done kentry t false)) (updn (kl_tkt s) p None), ob_st A_SERV (-1) (wrap v))
  end.
Definition tkl_fin (s : tkl) (p : nat) : bool := match t_pc (kl_th s p) with None => true | Some _ => false end.
(* scripts of the ticket lock contain no ATry (try_lock is not defined in the library) *)
Definition tkl_init (scr : nat -> list sop) : tkl :=
  mkTkl 0 0 (fun p => thr_init kentry (scr p)) (fun _ => None).

(* ============================ qspinlock (MCS) ============================================= *)
Inductive qpc : Type :=
| QXg                  (* lock(): old_tail = _owner_tail.exchange(h)        1668 *)
| QStGot (o : nat)     (* lock(): h->got_lock.store(false)                  1671 *)
| QStNext (o : nat)    (* lock(): old_tail->next.store(h)                   1673 *)
| QSpin                (* lock(): while (h->got_lock.load() == false)       1675 *)
| QTry                 (* try_lock(): CAS(_owner_tail, nullptr, h)          1660 *)
| QUld                 (* unlock(): next = h->next.load()   (first time)    1682 *)
| QUld2                (* unlock(): the same load after a failed CAS              *)
| QUstNext (n : nat)   (* unlock(): h->next.store(nullptr)                  1684 *)
| QUstGot (n : nat)    (* unlock(): next->got_lock.store(true)              1685 *)
| QUcas.               (* unlock(): CAS(_owner_tail, h, nullptr)            1689 *)
Definition qentry (o : sop) : qpc := match o with ALock => QXg | ATry => QTry | AUnlock => QUld end.
(* holder of participant p = (q_next p, q_got p); q_chain: GHOST list of the participants that
   have put their holder into _owner_tail and have not released yet, oldest first *)
Record qsl : Type := mkQsl {
  q_tail : option nat; q_next : nat -> option nat; q_got : nat -> bool;
  q_th : nat -> thr qpc; q_chain : list nat }.

Definition ptr (o : option nat) : Z := match o with None => 0 | Some p => Z.of_nat p + 1 end.
Definition opt_nat_eqb (a : option nat) (p : nat) : bool := match a with Some x => Nat.eqb x p | None => false end.

Definition qsl_step (s : qsl) (p : nat) (fl : nat) : qsl * obs :=
  let t := q_th s p in
  match t_pc t with
  | None => (s, ob_none)
  | Some QXg =>
      let old := q_tail s in
      (mkQsl (Some p) (q_next s) (q_got s)
             (updn (q_th s) p (match old with None => thr_done qentry t true | Some o => thr_goto t (QStGot o) end))
             (q_chain s ++ [p]),
       ob_xg A_TAIL (-1) (ptr (Some p)) (ptr old))
  | Some (QStGot o) =>
      (mkQsl (q_tail s) (q_next s) (updn (q_got s) p false) (updn (q_th s) p (thr_goto t (QStNext o))) (q_chain s),
       ob_st A_HGOT (Z.of_nat p) 0)
  | Some (QStNext o) =>
      (mkQsl (q_tail s) (updn (q_next s) o (Some p)) (q_got s) (updn (q_th s) p (thr_goto t QSpin)) (q_chain s),
       ob_st A_HNEXT (Z.of_nat o) (ptr (Some p)))
  | Some QSpin =>
      let v := q_got s p in
      (mkQsl (q_tail s) (q_next s) (q_got s) (updn (q_th s) p (if v then thr_done qentry t true else thr_goto t QSpin)) (q_chain s),
       ob_ld A_HGOT (Z.of_nat p) (zb v))
  | Some QTry =>
      match q_tail s with
      | None => (mkQsl (Some p) (q_next s) (q_got s) (updn (q_th s) p (thr_done qentry t true)) (q_chain s ++ [p]),
                 ob_cas A_TAIL (-1) 0 (ptr (Some p)) 0 true)
      | Some o => (mkQsl (q_tail s) (q_next s) (q_got s) (updn (q_th s) p (thr_done qentry t false)) (q_chain s),
                   ob_cas A_TAIL (-1) 0 (ptr (Some p)) (ptr (Some o)) false)
      end
  | Some QUld | Some QUld2 =>
      let n := q_next s p in
      (mkQsl (q_tail s) (q_next s) (q_got s)
             (updn (q_th s) p (thr_goto_ins t (match n with Some x => QUstNext x | None => QUcas end) false)) (q_chain s),
       ob_ld A_HNEXT (Z.of_nat p) (ptr n))
  | Some (QUstNext n) =>
      (mkQsl (q_tail s) (updn (q_next s) p None) (q_got s) (updn (q_th s) p (thr_goto t (QUstGot n))) (q_chain s),
       ob_st A_HNEXT (Z.of_nat p) 0)
  | Some (QUstGot n) =>
      (mkQsl (q_tail s) (q_next s) (updn (q_got s) n true) (updn (q_th s) p (thr_done qentry t false)) (tl (q_chain s)),
       ob_st A_HGOT (Z.of_nat n) 1)
  | Some QUcas =>
      if opt_nat_eqb (q_tail s) p
      then (mkQsl None (q_next s) (q_got s) (updn (q_th s) p (thr_done qentry t false)) (tl (q_chain s)),
            ob_cas A_TAIL (-1) (ptr (Some p)) 0 (ptr (q_tail s)) true)
      else (mkQsl (q_tail s) (q_next s) (q_got s) (updn (q_th s) p (thr_goto t QUld2)) (q_chain s),
            ob_cas A_TAIL (-1) (ptr (Some p)) 0 (ptr (q_tail s)) false)
  end.
Definition qsl_fin (s : qsl) (p : nat) : bool := match t_pc (q_th s p) with None => true | Some _ => false end.
Definition qsl_init (scr : nat -> list sop) : qsl :=
  mkQsl None (fun _ => None) (fun _ => false) (fun p => thr_init qentry (scr p)) [].

(* ---- E3 runs ------------------------------------------------------------------------------- *)
Definition scripts_of (l : list (list sop)) : nat -> list sop := fun p => nth p l [].
Definition tas_run (bound : nat) (scr : list (list sop)) (sched : list nat) :=
  let n := length scr in e3_run tas_step tas_fin n bound sched (pred n) (tas_init (scripts_of scr)) [].
Definition tkl_run (bound : nat) (scr : list (list sop)) (sched : list nat) :=
  let n := length scr in e3_run tkl_step tkl_fin n bound sched (pred n) (tkl_init (scripts_of scr)) [].
Definition qsl_run (bound : nat) (scr : list (list sop)) (sched : list nat) :=
  let n := length scr in e3_run qsl_step qsl_fin n bound sched (pred n) (qsl_init (scripts_of scr)) [].
