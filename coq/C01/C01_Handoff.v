(* C01_Handoff.v — consequences of inv2 (code as written): the thread.lock argument. *)
From Coq Require Import ZArith List Bool Arith Lia.
From PV Require Import Base.U64 C01.C01_Model C01.C01_Tac C01.C01_Excl C01.C01_Inv2 C01.C01_I2.
Import ListNotations.
Local Open Scope Z_scope.

(* the wait queue of a mutex and the threads' own view agree *)
Lemma waitq_consistent_l s : reachable s -> forall m,
  NoDup (wqm (mx s m)) /\
  forall x, In x (wqm (mx s m)) -> wq (th s x) = Some m /\ st (th s x) = SLEEPING /\ pcwait (pc (th s x)) m = true.
Proof.
  intros Hr m. pose proof (inv2_reachable s Hr) as H. split; [apply (i2_nodup _ H)|].
  intros x Hx. destruct (i2_wq _ H x m Hx) as (A & B & C). auto.
Qed.

(* handoff_unique, part 1: the thread that do_mutex_unlock stores as owner (PUst) and then wakes
   (PUint) is the HEAD of the mutex's queue, is still asleep in that queue, and its thread.lock is
   held by the unlocker *)
Lemma handoff_target_l s : reachable s -> forall u m x,
  pc (th s u) = PUst m (Some x) \/ pc (th s u) = PUint m x ->
  hd_error (wqm (mx s m)) = Some x /\ wq (th s x) = Some m /\ st (th s x) = SLEEPING /\
  tlock (th s x) = Some (HT u) /\ xp (th s x) = false /\ x <> u.
Proof.
  intros Hr u m x Hpc. pose proof (inv2_reachable s Hr) as H.
  assert (Hu : uhead (pc (th s u)) m = Some x).
  { destruct Hpc as [-> | ->]; cbn; now rewrite Nat.eqb_refl. }
  pose proof (i2_u _ H u m x Hu) as Hh.
  pose proof (i2_tl _ H u x (uhead_tl _ _ _ Hu)) as Hl.
  destruct (i2_wq _ H x m (hd_In _ _ Hh)) as (A & B & C).
  repeat split; auto.
  - destruct (xp (th s x)) eqn:E; [|reflexivity]. pose proof (i2_xp _ H x E). congruence.
  - intros ->. destruct Hpc as [E | E]; rewrite E in A; discriminate.
Qed.

(* handoff_unique, part 2: a wake-up by timeout (LExpBody x) or by thread_interrupt (PI3) of x
   cannot happen while an unlocker is handing the mutex to x: they need the same thread.lock *)
Lemma handoff_excludes_l s : reachable s -> forall u m x,
  pc (th s u) = PUst m (Some x) \/ pc (th s u) = PUint m x ->
  xp (th s x) = false /\ forall i e, pc (th s i) = PI3 x e -> False.
Proof.
  intros Hr u m x Hpc. destruct (handoff_target_l s Hr u m x Hpc) as (_ & _ & _ & Hl & Hx & Hne).
  split; [exact Hx|]. intros i e Hi. pose proof (inv2_reachable s Hr) as H.
  assert (pc_tl (pc (th s i)) = Some x) by (rewrite Hi; reflexivity).
  pose proof (i2_tl _ H i x H0). assert (i = u) by congruence. subst.
  destruct Hpc as [E | E]; congruence.
Qed.

(* the hand-off step itself: exactly the head leaves the queue, becomes READY/STANDBY with
   error_number = -1; every other queued thread stays queued and asleep *)
Lemma handoff_step_l s : reachable s -> forall u m x s',
  pc (th s u) = PUint m x -> step s (LStep u) = Some s' ->
  wqm (mx s' m) = tl (wqm (mx s m)) /\ err (th s' x) = -1 /\ wq (th s' x) = None /\
  (st (th s' x) = READY \/ st (th s' x) = STANDBY) /\ owner (mx s' m) = owner (mx s m) /\
  forall y, y <> x -> In y (wqm (mx s m)) -> In y (wqm (mx s' m)) /\ st (th s' y) = SLEEPING.
Proof.
  intros Hr u m x s' Hpc Hs.
  destruct (handoff_target_l s Hr u m x (or_intror Hpc)) as (Hh & Hw & Hst & Hl & Hx & Hne).
  pose proof (inv2_reachable s Hr) as H.
  cbn [step] in Hs. unfold tstep in Hs. rewrite Hpc in Hs. injection Hs as <-.
  unfold prelocked_interrupt, dequeue, goto, setT, setM.
  cbn [th mx wq st err set_err set_wq set_st set_pc wqm set_wqm owner tlock pc xp cnt ts].
  rewrite !upd_eq. cbn [wq set_err]. rewrite Hw. cbn [th mx]. 
  assert (Hrm : rm x (wqm (mx s m)) = tl (wqm (mx s m))).
  { destruct (wqm (mx s m)) as [|z l]; cbn in *; [discriminate|]. injection Hh as ->. now rewrite Nat.eqb_refl. }
  assert (Hxu : u <> x) by congruence.
  repeat split;
    repeat (rewrite ?upd_eq; rewrite ?upd_neq by congruence;
            cbn [th mx wq st err set_err set_wq set_st set_pc wqm set_wqm owner tlock pc xp cnt ts]); auto.
  - destruct (Nat.eqb (vc s u) (vc s x)); auto.
  - apply In_rm_neq; auto.
  - destruct (Nat.eq_dec y u) as [->|Hyu].
    + exfalso. destruct (i2_wq _ H u m H1) as (A & _). rewrite Hpc in A. discriminate.
    + repeat (rewrite ?upd_eq; rewrite ?upd_neq by congruence). apply (i2_wq _ H y m H1).
Qed.
