(* C13_MsgProofs.v — the header-terminator search of Message::append_bytes is independent
   of how the bytes were split across recv() calls; witnesses for the two defects found. *)
From Coq Require Import String.
From Coq Require Import ZArith List Bool Lia.
From PV Require Import Base.U64 C13.C13_Model C13.C13_Msg C13.C13_Proofs.
Import ListNotations.
Local Open Scope Z_scope.

Definition TERM : bytes := [13; 10; 13; 10].

Lemma starts_with_nil s : starts_with s [] = true.
Proof. destruct s; reflexivity. Qed.

Lemma starts_with_app_long (a b p : bytes) :
  zlen p <= zlen a -> starts_with (a ++ b) p = starts_with a p.
Proof.
  revert a. induction p as [|y p IH]; intros a H; [rewrite !starts_with_nil; reflexivity|].
  destruct a as [|x a].
  - rewrite zlen_cons, zlen_nil in H. pose proof (zlen_nonneg p). lia.
  - cbn [app starts_with]. rewrite IH; [reflexivity|]. rewrite !zlen_cons in H. lia.
Qed.

Lemma find_term_cons x t :
  find_term (x :: t) = if starts_with (x :: t) TERM then Some 0
                       else match find_term t with Some k => Some (k + 1) | None => None end.
Proof. reflexivity. Qed.

Lemma zdrop_succ_cons {A} n (x : A) l : 0 <= n -> zdrop (1 + n) (x :: l) = zdrop n l.
Proof.
  intros H. unfold zdrop. replace (Z.to_nat (1 + n)) with (S (Z.to_nat n)) by lia. reflexivity.
Qed.

(* message.cpp 101-108: searching "\r\n\r\n" in the last 3 old bytes + the new bytes finds
   exactly what a search of the whole buffer finds, provided the old bytes did not contain
   the terminator (which is why the previous calls returned 2). *)
Lemma terminator_search_window_proof : forall (old bs : bytes),
  find_term old = None ->
  let left := Z.max (zlen old - 3) 0 in
  find_term (zdrop left (old ++ bs)) =
  match find_term (old ++ bs) with Some k => Some (k - left) | None => None end.
Proof.
  induction old as [|x t IH]; intros bs Hnone left.
  - subst left. cbn [zlen length Z.of_nat Z.max Z.sub Z.opp Z.add Z.compare]. cbn [app].
    rewrite zdrop_nonpos by lia. destruct (find_term bs); [f_equal; lia|reflexivity].
  - destruct (Z.le_gt_cases (zlen t) 2) as [Hs|Hl].
    + assert (Hleft : left = 0) by (subst left; rewrite zlen_cons; lia).
      rewrite Hleft, zdrop_nonpos by lia.
      destruct (find_term ((x :: t) ++ bs)); [f_equal; lia|reflexivity].
    + rewrite find_term_cons in Hnone.
      destruct (starts_with (x :: t) TERM) eqn:Hsw; [discriminate|].
      destruct (find_term t) eqn:Ht; [discriminate|].
      specialize (IH bs eq_refl). cbn zeta in IH.
      assert (Hleft : left = 1 + Z.max (zlen t - 3) 0) by (subst left; rewrite zlen_cons; lia).
      rewrite Hleft. cbn [app]. rewrite zdrop_succ_cons by lia. rewrite IH.
      rewrite find_term_cons. change (x :: t ++ bs) with ((x :: t) ++ bs).
      rewrite starts_with_app_long by (rewrite zlen_cons; change (zlen TERM) with 4; lia). rewrite Hsw.
      destruct (find_term (t ++ bs)); [f_equal; lia|reflexivity].
Qed.

(* ---- append_bytes is a function of the accumulated bytes only ---- *)
(* what append_bytes computes, written without reference to the split old/new *)
Definition parse_whole (m : msg) (rx : bytes) : option (Z * msg) :=
  if m_cap m <=? zlen rx then Some (-1, m) else
  let m0 := mkMsg (m_is_req m) (m_cap m) (m_fill m) rx (m_status m) (m_verb m) (m_target m)
                  (m_version m) (m_stmsg m) (m_code m) (m_body m) (m_hoff m) (m_hdrs m) (m_abandon m) in
  match find_term rx with
  | None => Some (2, m0)
  | Some k =>
    let body := (u16 (k + 4), u16 (zlen rx - (k + 4))) in
    let '(r, cur, m1) := parse_start_line m0 rx in
    let m2 := mkMsg (m_is_req m1) (m_cap m1) (m_fill m1) rx (m_status m1) (m_verb m1) (m_target m1)
                    (m_version m1) (m_stmsg m1) (m_code m1) body (m_hoff m1) (m_hdrs m1) (m_abandon m1) in
    if r <? 0 then Some (r, m2) else
    let hb := zdrop cur rx in
    let hcap := u16 (m_cap m - cur) in
    match h_reset_parse hb hcap with
    | None => None
    | Some None => Some (-1, m2)
    | Some (Some h) =>
      let conn := h_get h K_connection in
      let ver := slice_checked rx (fst (m_version m2)) (snd (m_version m2)) in
      let abandon := beqb conn V_close || negb (zlen (h_get h K_trailer) =? 0)
                     || (beqb ver V_10 && negb (beqb conn V_keepalive)) in
      Some (0, mkMsg (m_is_req m2) (m_cap m2) (m_fill m2) rx HEADER_PARSED (m_verb m2) (m_target m2)
                     (m_version m2) (m_stmsg m2) (m_code m2) body cur h abandon)
    end
  end.

(* One append_bytes step does not depend on where the buffer content was cut into
   "already received" and "just received": header-end position, partial-body boundary,
   start line, header index, framing flags are all functions of the concatenation. *)
Lemma append_bytes_split_independent_proof : forall (m : msg) (bs : bytes),
  m_status m <> HEADER_PARSED -> zlen bs < 65536 ->
  find_term (m_rx m) = None ->
  append_bytes m bs = parse_whole m (m_rx m ++ bs).
Proof.
  intros m bs Hst Hsz Hnone. unfold append_bytes, parse_whole.
  destruct (Z.eqb_spec (m_status m) HEADER_PARSED) as [|_]; [contradiction|].
  pose proof (zlen_nonneg bs) as Hb. pose proof (zlen_nonneg (m_rx m)) as Hr.
  assert (Hu : u16 (zlen bs) = zlen bs) by (unfold u16; apply Z.mod_small; lia).
  rewrite Hu, zlen_app.
  destruct (m_cap m <=? zlen (m_rx m) + zlen bs); [reflexivity|].
  rewrite (terminator_search_window_proof (m_rx m) bs Hnone).
  destruct (find_term (m_rx m ++ bs)) as [k|]; [|reflexivity].
  set (left := Z.max (zlen (m_rx m) - 3) 0).
  replace (zlen (m_rx m) + (k - left + 4 - (zlen (m_rx m) - left))) with (k + 4) by lia.
  replace (zlen bs - (k - left + 4 - (zlen (m_rx m) - left)))
    with (zlen (m_rx m) + zlen bs - (k + 4)) by lia.
  reflexivity.
Qed.

(* Two different ways of cutting the same accumulated bytes give the same result. *)
Lemma append_bytes_two_splits_proof : forall (m1 m2 : msg) (bs1 bs2 : bytes),
  m_status m1 <> HEADER_PARSED -> zlen bs1 < 65536 -> zlen bs2 < 65536 ->
  find_term (m_rx m1) = None -> find_term (m_rx m2) = None ->
  m_rx m1 ++ bs1 = m_rx m2 ++ bs2 ->
  (* the two messages differ only in how much has been received *)
  m2 = mkMsg (m_is_req m1) (m_cap m1) (m_fill m1) (m_rx m2) (m_status m1) (m_verb m1) (m_target m1)
             (m_version m1) (m_stmsg m1) (m_code m1) (m_body m1) (m_hoff m1) (m_hdrs m1) (m_abandon m1) ->
  match append_bytes m1 bs1, append_bytes m2 bs2 with
  | Some (r1, a), Some (r2, b) =>
      r1 = r2 /\ (r1 <> -1 \/ m_cap m1 > zlen (m_rx m1 ++ bs1) ->
                  a = b)
  | None, None => True
  | _, _ => False
  end.
Proof.
  intros m1 m2 bs1 bs2 Hst H1 H2 Hn1 Hn2 Heq Hm2.
  assert (Hst2 : m_status m2 <> HEADER_PARSED) by (rewrite Hm2; exact Hst).
  rewrite (append_bytes_split_independent_proof m1 bs1 Hst H1 Hn1).
  rewrite (append_bytes_split_independent_proof m2 bs2 Hst2 H2 Hn2).
  rewrite <- Heq. set (rx := m_rx m1 ++ bs1).
  unfold parse_whole. rewrite Hm2. cbn [m_cap m_is_req m_fill m_status m_verb m_target m_version
                                         m_stmsg m_code m_body m_hoff m_hdrs m_abandon].
  destruct (Z.leb_spec (m_cap m1) (zlen rx)) as [Hc|Hc].
  - split; [reflexivity|]. intros [H|H]; [congruence|lia].
  - destruct (find_term rx); [|split; [reflexivity|intros _; reflexivity]].
    destruct (parse_start_line _ rx) as [[r cur] mm].
    destruct (r <? 0); [split; [reflexivity|intros _; reflexivity]|].
    destruct (h_reset_parse _ _) as [[h|]|]; try exact I; split; try reflexivity; intros _; reflexivity.
Qed.

(* ------------------------------------------------------------- findings ---- *)
(* F27 (fixed in /repo by `while (!p.is_done() && p[0] != '\r')`): before the fix, for a
   header line without a colon the loop of HeadersBase::parse read m_buf[m_buf_size], a stale
   byte OUTSIDE the received message, and that byte decided between "parsed" and "error". *)
Definition ascii (s : String.string) : bytes := s2b s.
Definition stale_hdr : bytes := Eval compute in ascii "abc"%string ++ [13;10;13;10].

Lemma header_parse_stale_byte_prefix_refuted_proof :
  exists (hb : bytes) (b1 b2 : Z),
    (exists kvs, parse_loop_prefix 100 hb 100 (Some b1) 0 [] = Some (Some kvs)) /\
    parse_loop_prefix 100 hb 100 (Some b2) 0 [] = Some None.
Proof. exists stale_hdr, 13, 65. split; [eexists|]; vm_compute; reflexivity. Qed.

(* F28 (fixed by 'X' -> 'Z' in tolower_fast8): before the fix the header-name comparison was
   not a strict weak order -- a cycle A < B < C < A -- so the sorted index could hide a header
   from the binary search (implementation witness: Content-Length missed, notes/C13.md). *)
Lemma header_compare_cyclic_prefix_refuted_proof :
  exists a b c : bytes,
    icmp_with lower8_prefix a b = -1 /\ icmp_with lower8_prefix b c = -1 /\ icmp_with lower8_prefix c a = -1.
Proof.
  exists (ascii "Yb234567"%string), (ascii "ya234567"%string), (ascii "yb"%string).
  splits; vm_compute; reflexivity.
Qed.

(* F-C13-3: for byte strings that are NOT a well-formed message head the parse result
   depends on the fragmentation: the start-line / header parsers run over the whole
   received buffer, i.e. over however much of the bytes behind the terminator happened to
   arrive in the same recv(). *)
Definition ret_of (o : option (Z * msg * pieces)) : Z :=
  match o with Some (r, _, _) => r | None => -99 end.
Definition frag_msg : bytes := Eval compute in
  ascii "GET /"%string ++ [13;10;13;10] ++ ascii "x HTTP/1.1"%string ++ [13;10] ++ ascii "foo: bar"%string ++ [13;10;13;10].
Definition nkv_of (o : option (Z * msg * pieces)) : Z :=
  match o with Some (_, m, _) => zlen (h_kv (m_hdrs m)) | None => -99 end.

Lemma parse_fragmentation_dependent_malformed_refuted_proof :
  exists (bytes : bytes) (ps1 ps2 : pieces),
    concat ps1 = bytes /\ concat ps2 = bytes /\
    ret_of (receive_header 10 (msg_init true 16384 0 0) ps1 false) = 0 /\
    ret_of (receive_header 10 (msg_init true 16384 0 0) ps2 false) = 0 /\
    nkv_of (receive_header 10 (msg_init true 16384 0 0) ps1 false) = 0 /\
    nkv_of (receive_header 10 (msg_init true 16384 0 0) ps2 false) = 1.
Proof.
  exists frag_msg, [ztake 9 frag_msg; zdrop 9 frag_msg], [frag_msg].
  splits; vm_compute; reflexivity.
Qed.
