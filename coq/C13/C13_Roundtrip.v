(* C13_Roundtrip.v — the chunked writer's output is a valid chunked encoding of the
   concatenated writes, hence (chunked_decode_spec) the reader returns exactly them. *)
From Coq Require Import ZArith List Bool Lia.
From PV Require Import Base.U64 C13.C13_Model C13.C13_Proofs C13.C13_ChunkSafe C13.C13_ChunkDecode.
Import ListNotations.
Local Open Scope Z_scope.

Lemma hex_digit_hexchar d : 0 <= d < 16 -> hex_digit (hexchar d) = d /\ hexchar d <> 13.
Proof.
  intros H.
  assert (Hc : d = 0 \/ d = 1 \/ d = 2 \/ d = 3 \/ d = 4 \/ d = 5 \/ d = 6 \/ d = 7 \/ d = 8 \/ d = 9 \/
               d = 10 \/ d = 11 \/ d = 12 \/ d = 13 \/ d = 14 \/ d = 15) by lia.
  repeat (destruct Hc as [Hc|Hc]; [subst d; split; [vm_compute; reflexivity|vm_compute; discriminate]|]).
  subst d; split; [vm_compute; reflexivity|vm_compute; discriminate].
Qed.

Lemma to_hex_aux_spec : forall f x acc i,
  0 <= x < W64 -> x < 16 ^ Z.of_nat (S f) ->
  exists k, 1 <= k <= Z.of_nat (S f)
    /\ hex_scan (to_hex_aux (S f) x acc) 0 i = hex_scan acc x (i + k)
    /\ zlen (to_hex_aux (S f) x acc) = k + zlen acc
    /\ (Forall (fun c => c <> 13) acc -> Forall (fun c => c <> 13) (to_hex_aux (S f) x acc)).
Proof.
  induction f as [|f IH]; intros x acc i Hx Hf.
  - (* one digit *)
    change (16 ^ Z.of_nat 1) with 16 in Hf.
    assert (Hd : x mod 16 = x) by (apply Z.mod_small; lia).
    assert (Hq : x / 16 = 0) by (apply Z.div_small; lia).
    destruct (hex_digit_hexchar x ltac:(lia)) as [Hhd Hne].
    cbn [to_hex_aux]. rewrite Hd, Hq. cbn [Z.eqb].
    exists 1. splits; try lia.
    + cbn [hex_scan]. rewrite Hhd. destruct (Z.leb_spec 16 x); [lia|].
      rewrite wrap_small by (unfold W64; lia). f_equal.
    + rewrite zlen_cons. lia.
    + intros Ha. constructor; assumption.
  - remember (S f) as f1. cbn [to_hex_aux].
    assert (Hd : 0 <= x mod 16 < 16) by (apply Z.mod_pos_bound; lia).
    destruct (hex_digit_hexchar _ Hd) as [Hhd Hne].
    assert (Hv : x / 16 * 16 + x mod 16 = x) by (rewrite (Z.div_mod x 16) at 3 by lia; lia).
    destruct (Z.eqb_spec (x / 16) 0) as [Hz|Hnz].
    + exists 1. splits; try lia.
      * cbn [hex_scan]. rewrite Hhd. destruct (Z.leb_spec 16 (x mod 16)); [lia|].
        rewrite wrap_small by (unfold W64; lia). f_equal. lia.
      * rewrite zlen_cons. lia.
      * intros Ha. constructor; assumption.
    + assert (Hq : 0 <= x / 16 < W64) by (split; [apply Z.div_pos; lia|apply Z.div_lt_upper_bound; unfold W64 in *; lia]).
      assert (Hqf : x / 16 < 16 ^ Z.of_nat f1).
      { apply Z.div_lt_upper_bound; [lia|]. replace (Z.of_nat (S f1)) with (Z.of_nat f1 + 1) in Hf by lia.
        rewrite Z.pow_add_r in Hf by lia. lia. }
      subst f1.
      destruct (IH (x / 16) (hexchar (x mod 16) :: acc) i Hq Hqf) as (k & Hk & Hs & Hl & Hfa).
      exists (k + 1). splits; try lia.
      * rewrite Hs. cbn [hex_scan]. rewrite Hhd. destruct (Z.leb_spec 16 (x mod 16)); [lia|].
        rewrite Hv, wrap_small by lia. f_equal. lia.
      * rewrite Hl, zlen_cons. lia.
      * intros Ha. apply Hfa. constructor; assumption.
Qed.

Lemma find_crlf_no_cr l : Forall (fun c => c <> 13) l -> find_crlf (l ++ CRLF) = Some (zlen l).
Proof.
  induction 1 as [|c t Hc Ht IH]; [reflexivity|].
  cbn [app]. destruct (t ++ CRLF) as [|d r] eqn:E.
  - destruct t; discriminate.
  - rewrite find_crlf_cons2. destruct (Z.eqb_spec c 13); [contradiction|]. cbn [andb].
    rewrite IH, zlen_cons. f_equal. lia.
Qed.

Lemma to_hex_size_line n : 0 <= n < W64 -> size_line (to_hex n) n /\ to_hex n <> [].
Proof.
  intros Hn. unfold to_hex.
  destruct (to_hex_aux_spec 15 n [] 0 Hn ltac:(unfold W64 in *; cbn; lia)) as (k & Hk & Hs & Hl & Hfa).
  change (zlen (@nil Z)) with 0 in Hl. split.
  - unfold size_line. splits.
    + unfold hex_to_u64. rewrite Hs. cbn [hex_scan]. destruct (Z.eqb_spec (0 + k) 0); [lia|reflexivity].
    + apply find_crlf_no_cr. apply Hfa. constructor.
    + unfold LINE_BUFFER_SIZE. lia.
  - intros E. rewrite E in Hl. change (zlen (@nil Z)) with 0 in Hl. lia.
Qed.

Definition TERMINATOR : bytes := [48; 13; 10; 13; 10].

Lemma chunks_wire_valid : forall ws,
  Forall (fun w => w <> [] /\ zlen w < W64) ws ->
  valid_chunked (chunks_wire ws ++ TERMINATOR) (concat ws).
Proof.
  induction 1 as [|w t [Hne Hlt] Ht IH]; cbn [chunks_wire concat app].
  - change TERMINATOR with ([48] ++ CRLF ++ CRLF). apply VC_last; [discriminate|].
    unfold size_line. splits; [reflexivity|reflexivity|unfold LINE_BUFFER_SIZE; cbn; lia].
  - assert (Hw : 0 < zlen w < W64).
    { pose proof (zlen_nonneg w). split; [|exact Hlt]. destruct (Z.eq_dec (zlen w) 0) as [E|E]; [apply zlen_zero_nil in E; contradiction|lia]. }
    destruct (to_hex_size_line (zlen w) ltac:(lia)) as [Hs _].
    unfold chunk_wire. rewrite <- !app_assoc.
    change ([13; 10] ++ w ++ [13; 10] ++ chunks_wire t ++ TERMINATOR)
      with (CRLF ++ w ++ CRLF ++ (chunks_wire t ++ TERMINATOR)).
    apply VC_chunk; assumption.
Qed.

(* chunked_roundtrip: whatever the writer was given in non-empty writes (any chunking of the
   payload) comes back from the reader: for every partial body (<= 4096 bytes) / fragmentation
   of the writer's wire bytes and every read sizes, the reads concatenate to the written
   bytes, then the stream is finished and returns 0. *)
Lemma chunked_roundtrip_proof :
  forall (ws : list bytes) (s0 : cws) (partial : bytes) (ps : pieces) (counts : list Z),
    Forall (fun w => w <> [] /\ zlen w < W64) ws ->
    cw_finish s0 = false -> w_out (cw_sock s0) = [] ->
    zlen (chunks_wire ws) + 5 <= w_budget (cw_sock s0) ->
    let '(_, s1) := cws_run s0 ws in
    let '(_, s2) := cws_close s1 in
    partial ++ concat ps = w_out (cw_sock s2) -> zlen partial <= LINE_BUFFER_SIZE ->
    Forall (fun c => 0 <= c) counts ->
    exists l s', crs_run (crs_init LINE_BUFFER_SIZE partial ps false) counts = Some (l, s')
      /\ outs l = ztake (zsum counts) (concat ws)
      /\ Forall2 (fun r o => r = zlen o) (rets l) (map snd l)
      /\ (zlen (concat ws) < zsum counts ->
          c_finish s' = true /\ forall c, crs_read s' c = Some (0, [], s')).
Proof.
  intros ws s0 partial ps counts Hws Hf0 Hout0 Hbud.
  pose proof (chunked_writer_wire_proof ws s0 Hf0 Hbud) as Hw.
  destruct (cws_run s0 ws) as [l1 s1]. destruct (cws_close s1) as [r s2].
  destruct Hw as (_ & _ & _ & Hout). rewrite Hout0 in Hout. cbn [app] in Hout.
  intros Hwire Hp Hall.
  apply (chunked_decode_spec_proof (chunks_wire ws ++ TERMINATOR) (concat ws) partial ps counts); auto.
  - apply chunks_wire_valid. exact Hws.
  - rewrite Hwire, Hout. reflexivity.
Qed.
