(* Extraction of the C13 model: ExtrOcamlBasic only, no Extract Constant /
   Extract Inductive of our own; Z, positive, nat stay Coq's datatypes. *)
From Coq Require Import ZArith List.
From PV Require Import Base.U64 C13.C13_Model C13.C13_Msg.
Require Extraction.
Require Import ExtrOcamlBasic.
Extraction "c13_model.ml"
  total_len brs_init brs_read brs_close_decision
  crs_init crs_read crs_read_f crs_fuel crs_close
  mkW mkBws bws_write mkCws cws_write cws_close
  msg_init receive_header rh_fuel prepare_body_read_stream bs_read bs_read_f bs_fuel bs_rest body_size h_chunked.
