(* C13_Msg.v — executable model of net/http/parser.h, headers.cpp/headers.h
   (parse, sorted 16-bit index, lookup), message.cpp (receive_bytes,
   append_bytes, request/status line, body_size, prepare_body_read_stream) and of
   the estring comparison they use (common/estring.cpp 173-246).
   Definitions only.

   The receive buffer is modelled as the list `rx` of the m_buf_size bytes
   received so far; every byte of the caller's buffer beyond them holds the
   stale value `fill` (an explicit parameter).  16-bit fields are written
   `mod 2^16`.  None = out-of-range access / fuel exhausted. *)
From Coq Require Import Ascii String.
From Coq Require Import ZArith List Bool.
From PV Require Import Base.U64 C13.C13_Model.
Import ListNotations.
Local Open Scope Z_scope.

Definition u16 (x : Z) : Z := x mod 65536.

Definition s2b (s : string) : bytes :=
  map (fun a => Z.of_N (N_of_ascii a)) (list_ascii_of_string s).

Fixpoint beqb (a b : bytes) : bool :=
  match a, b with
  | [], [] => true
  | x :: a', y :: b' => (x =? y) && beqb a' b'
  | _, _ => false
  end.
Fixpoint starts_with (s p : bytes) : bool :=
  match p, s with
  | [], _ => true
  | y :: p', x :: s' => (x =? y) && starts_with s' p'
  | _ :: _, [] => false
  end.
Definition slice (b : bytes) (off len : Z) : bytes := ztake len (zdrop off b).
(* rstring_view16 | std::string_view  (estring.h 399-407): empty when out of bounds *)
Definition slice_checked (b : bytes) (off len : Z) : bytes :=
  if zlen b <? off + len then [] else slice b off len.

(* find_first_of(c): index of the first c *)
Fixpoint find_char (c : Z) (s : bytes) : option Z :=
  match s with
  | [] => None
  | x :: t => if x =? c then Some 0 else
              match find_char c t with Some k => Some (k + 1) | None => None end
  end.
(* string_view::find("\r\n\r\n") *)
Fixpoint find_term (s : bytes) : option Z :=
  match s with
  | [] => None
  | x :: t => if starts_with s [13; 10; 13; 10] then Some 0 else
              match find_term t with Some k => Some (k + 1) | None => None end
  end.

(* ---------------------------------------------------------------- Parser -- *)
(* parser.h: the parser is (buffer, _ptr) with _begin = 0, _end = length *)
Definition P_skip_string (b : bytes) (ptr : Z) (sv : bytes) : Z :=
  if starts_with (zdrop ptr b) sv then ptr + zlen sv else ptr.
Fixpoint skip_while (c : Z) (s : bytes) : Z :=
  match s with x :: t => if x =? c then 1 + skip_while c t else 0 | [] => 0 end.
Definition P_skip_chars (b : bytes) (ptr : Z) (c : Z) (rep : bool) : Z :=
  if rep then ptr + skip_while c (zdrop ptr b)
  else match zdrop ptr b with x :: _ => if x =? c then ptr + 1 else ptr | [] => ptr end.
(* extract_until_char 68-80: ((offset, length) as uint16, new ptr) *)
Definition P_extract_until (b : bytes) (ptr : Z) (c : Z) : (Z * Z) * Z :=
  let rest := zdrop ptr b in
  match find_char c rest with
  | None => ((u16 ptr, u16 (zlen rest)), zlen b)
  | Some pos => ((u16 ptr, u16 pos), ptr + pos + 1)
  end.
Fixpoint count_digits (s : bytes) : Z :=
  match s with
  | x :: t => if (48 <=? x) && (x <=? 57) then 1 + count_digits t else 0
  | [] => 0
  end.
(* extract_integer 60-67 *)
Definition P_extract_integer (b : bytes) (ptr : Z) : Z * Z :=
  let rest := zdrop ptr b in
  (dec_to_u64 rest, ptr + count_digits rest).

(* ------------------------------------------------- case-insensitive compare *)
Definition schar (c : Z) : Z := if c <? 128 then c else c - 256.
(* tolower_fast(char), estring.h 701-703 *)
Definition lower1 (c : Z) : Z := if (65 <=? c) && (c <=? 90) then c + 32 else c.
(* tolower_fast8 on one byte lane, estring.cpp 173-185: check_cases(x,'A','Z')
   (after fix F28; before it the upper bound was 'X' = 88, see lower8_prefix) *)
Definition lower8 (c : Z) : Z := if (65 <=? c) && (c <=? 90) then c + 32 else c.
Definition lower8_prefix (c : Z) : Z := if (65 <=? c) && (c <=? 88) then c + 32 else c.
Section Icmp.
  Variable low8 : Z -> Z.
  Fixpoint be_num (s : bytes) (acc : Z) : Z :=
    match s with [] => acc | x :: t => be_num t (acc * 256 + low8 x) end.
  (* icmp8 + spaceship: sign of the result (0 when equal) *)
  Definition icmp8_sign (a b : bytes) : Z :=
    let x := wrap (be_num a 0 - be_num b 0) in
    if x =? 0 then 0 else if x <? 9223372036854775808 then 1 else -1.
  Definition size_sign (la lb : Z) : Z :=
    if la =? lb then 0 else if la <? lb then -1 else 1.
  Fixpoint icmp_small (a b : bytes) (la lb : Z) : Z :=
    match a, b with
    | x :: a', y :: b' =>
      let d := schar (lower1 x) - schar (lower1 y) in
      if d =? 0 then icmp_small a' b' la lb else if d <? 0 then -1 else 1
    | _, _ => size_sign la lb
    end.
  Fixpoint icmp_blocks (n : nat) (a b : bytes) : Z :=
    match n with
    | O => 0
    | S k => let r := icmp8_sign (firstn 8 a) (firstn 8 b) in
             if r =? 0 then icmp_blocks k (skipn 8 a) (skipn 8 b) else r
    end.
  (* stricmp_fast 228-246: sign only *)
  Definition icmp_with (a b : bytes) : Z :=
    let la := zlen a in let lb := zlen b in
    let len := Z.min la lb in
    if len <? 8 then icmp_small (ztake len a) (ztake len b) la lb
    else
      let r := icmp_blocks (Z.to_nat (len / 8)) a b in
      if negb (r =? 0) then r
      else
        let r2 := if len / 8 * 8 <? len
                  then icmp8_sign (slice a (len - 8) 8) (slice b (len - 8) 8) else 0 in
        if negb (r2 =? 0) then r2 else size_sign la lb.
End Icmp.
Definition icmp := icmp_with lower8.

(* ------------------------------------------------------------- Headers ---- *)
(* KV = pair<rstring_view16, rstring_view16> : (key off, key len, value off, value len) *)
Definition kv := (Z * Z * Z * Z)%type.
Definition kv_ko (e : kv) := let '(a, _, _, _) := e in a.
Definition kv_kl (e : kv) := let '(_, b, _, _) := e in b.
Definition kv_vo (e : kv) := let '(_, _, c, _) := e in c.
Definition kv_vl (e : kv) := let '(_, _, _, d) := e in d.

Record hdrs := mkH {
  h_buf : bytes;      (* m_buf[0 .. m_buf_size) *)
  h_cap : Z;          (* m_buf_capacity *)
  h_kv : list kv }.   (* kv_begin()[0 .. m_kv_size) *)

Definition kv_key (hb : bytes) (e : kv) : bytes := slice hb (kv_ko e) (kv_kl e).
Definition kv_val (hb : bytes) (e : kv) : bytes := slice hb (kv_vo e) (kv_vl e).
Definition kv_in_range (hb : bytes) (e : kv) : bool :=
  (kv_ko e + kv_kl e <=? zlen hb) && (kv_vo e + kv_vl e <=? zlen hb).

(* std::lower_bound (libstdc++ bits/stl_algobase.h): first/len halving *)
Fixpoint lower_bound_aux (fuel : nat) (less_key : kv -> bool) (l : list kv) (first len : Z) : Z :=
  match fuel with
  | O => first
  | S f =>
    if len <=? 0 then first else
    let half := len / 2 in
    let mid := first + half in
    match nth_error l (Z.to_nat mid) with
    | None => first
    | Some e => if less_key e then lower_bound_aux f less_key l (mid + 1) (len - half - 1)
                else lower_bound_aux f less_key l first half
    end
  end.
Definition lower_bound (less_key : kv -> bool) (l : list kv) : Z :=
  lower_bound_aux (S (length l)) less_key l 0 (zlen l).

(* HeadersBase::find, headers.cpp 56-60: index or None (= end()) *)
Definition h_find (h : hdrs) (key : bytes) : option Z :=
  let i := lower_bound (fun e => icmp (kv_key (h_buf h) e) key <? 0) (h_kv h) in
  match nth_error (h_kv h) (Z.to_nat i) with
  | None => None
  | Some e => if icmp (kv_key (h_buf h) e) key =? 0 then Some i else None
  end.
(* get_value / operator[] , headers.h 80-86 *)
Definition h_get (h : hdrs) (key : bytes) : bytes :=
  match h_find h key with
  | None => []
  | Some i => match nth_error (h_kv h) (Z.to_nat i) with Some e => kv_val (h_buf h) e | None => [] end
  end.

(* std::sort for at most 16 elements = libstdc++ __insertion_sort *)
Fixpoint take_while {A} (f : A -> bool) (l : list A) : list A :=
  match l with x :: t => if f x then x :: take_while f t else [] | [] => [] end.
Definition ins_one (less : kv -> kv -> bool) (sorted : list kv) (v : kv) : list kv :=
  match sorted with
  | [] => [v]
  | h :: _ =>
    if less v h then v :: sorted
    else
      let r := rev sorted in
      let s := take_while (less v) r in
      rev (skipn (length s) r) ++ [v] ++ rev s
  end.
Definition insertion_sort (less : kv -> kv -> bool) (l : list kv) : list kv :=
  fold_left (ins_one less) l [].

Definition B_colon := 58. Definition B_sp := 32. Definition B_cr := 13. Definition B_lf := 10.

(* HeadersBase::parse 173-185 (+ kv_add 164-171), after fix F27
   `while (!p.is_done() && p[0] != '\r')`.  Result: None = fuel; Some None = "add kv failed"
   (-1); Some (Some kvs) = index before sorting. *)
Fixpoint parse_loop (fuel : nat) (hb : bytes) (hcap : Z) (ptr : Z) (kvs : list kv)
  : option (option (list kv)) :=
  match fuel with
  | O => None
  | S f =>
    if zlen hb <=? ptr then Some (Some kvs) else                 (* p.is_done() *)
    if nth (Z.to_nat ptr) hb 0 =? B_cr then Some (Some kvs) else
    let '(k, p1) := P_extract_until hb ptr B_colon in
    let p2 := P_skip_chars hb p1 B_sp true in
    let '(v, p3) := P_extract_until hb p2 B_cr in
    let p4 := P_skip_chars hb p3 B_lf false in
    (* kv_add *)
    if hcap - 8 * (zlen kvs + 1) <=? zlen hb then Some None
    else parse_loop f hb hcap p4 ((fst k, snd k, fst v, snd v) :: kvs)
  end.

(* the loop as it was before fix F27: `while (p[0] != '\r')` reads the byte BEHIND the
   parsed region when the parser is at its end; `next_byte` is that byte (None = outside
   the caller's buffer).  Kept for the theorem header_parse_stale_byte_prefix_refuted. *)
Fixpoint parse_loop_prefix (fuel : nat) (hb : bytes) (hcap : Z) (next_byte : option Z)
         (ptr : Z) (kvs : list kv) : option (option (list kv)) :=
  match fuel with
  | O => None
  | S f =>
    let cur := if ptr <? zlen hb then Some (nth (Z.to_nat ptr) hb 0) else next_byte in
    match cur with
    | None => None
    | Some c =>
      if c =? B_cr then Some (Some kvs) else
      let '(k, p1) := P_extract_until hb ptr B_colon in
      let p2 := P_skip_chars hb p1 B_sp true in
      let '(v, p3) := P_extract_until hb p2 B_cr in
      let p4 := P_skip_chars hb p3 B_lf false in
      if hcap - 8 * (zlen kvs + 1) <=? zlen hb then Some None
      else parse_loop_prefix f hb hcap next_byte p4 ((fst k, snd k, fst v, snd v) :: kvs)
    end
  end.

Definition h_less (hb : bytes) (a b : kv) : bool := icmp (kv_key hb a) (kv_key hb b) <? 0.

(* reset(buf, cap, size) + parse + sort, headers.h 70-79 *)
Definition h_reset_parse (hb : bytes) (hcap : Z) : option (option hdrs) :=
  if zlen hb =? 0 then Some (Some (mkH hb hcap [])) else
  match parse_loop (S (Z.to_nat (hcap / 8 + 1))) hb hcap 0 [] with
  | None => None
  | Some None => Some None
  | Some (Some kvs) =>
    if forallb (kv_in_range hb) kvs
    then Some (Some (mkH hb hcap (insertion_sort (h_less hb) kvs)))
    else None
  end.

Definition h_size (h : hdrs) : Z := zlen (h_buf h).
Definition h_space_remain (h : hdrs) : Z := wrap (h_cap h - h_size h - u16 (zlen (h_kv h) * 8)).

(* ------------------------------------------------------------- Message ---- *)
Definition B_HTTP := Eval compute in s2b "HTTP/".
Definition verb_names : list bytes := Eval compute in map s2b
  ["UNKNOWN"; "DELETE"; "GET"; "HEAD"; "POST"; "PUT"; "CONNECT"; "OPTIONS"; "TRACE"; "COPY";
   "LOCK"; "MKCOL"; "MOV"; "PROPFIND"; "PROPPATCH"; "SEARCH"; "UNLOCK"; "BIND"; "REBIND";
   "UNBIND"; "ACL"; "REPORT"; "MKACTIVITY"; "CHECKOUT"; "MERGE"; "MSEARCH"; "NOTIFY";
   "SUBSCRIBE"; "UNSUBSCRIBE"; "PATCH"; "PURGE"; "MKCALENDAR"; "LINK"; "UNLINK"]%string.
Definition VERB_HEAD : Z := 3.
(* string_to_verb, message.cpp 288-293 *)
Fixpoint verb_lookup (names : list bytes) (i : Z) (v : bytes) : Z :=
  match names with
  | [] => 0
  | n :: t => if beqb n v then i else verb_lookup t (i + 1) v
  end.
Definition string_to_verb (v : bytes) : Z := verb_lookup verb_names 0 v.

Definition K_connection := Eval compute in s2b "Connection".
Definition K_trailer := Eval compute in s2b "Trailer".
Definition K_te := Eval compute in s2b "Transfer-Encoding".
Definition K_cl := Eval compute in s2b "Content-Length".
Definition K_cr := Eval compute in s2b "Content-Range".
Definition V_close := Eval compute in s2b "close".
Definition V_keepalive := Eval compute in s2b "keep-alive".
Definition V_chunked := Eval compute in s2b "chunked".
Definition V_10 := Eval compute in s2b "1.0".
Definition V_bytes := Eval compute in s2b "bytes".

Definition INIT : Z := 0.
Definition HEADER_PARSED : Z := 3.
Definition MAX_TRANSFER_BYTES : Z := 4096.
Definition RESERVED_INDEX_SIZE : Z := 1024.

Record msg := mkMsg {
  m_is_req : bool;
  m_cap : Z;               (* m_buf_capacity *)
  m_fill : Z;              (* stale content of the buffer beyond m_buf_size *)
  m_rx : bytes;            (* m_buf[0 .. m_buf_size) *)
  m_status : Z;            (* message_status *)
  m_verb : Z;
  m_target : Z * Z; m_version : Z * Z; m_stmsg : Z * Z; m_code : Z;
  m_body : Z * Z;
  m_hoff : Z;              (* headers.m_buf - m_buf *)
  m_hdrs : hdrs;
  m_abandon : bool }.

Definition msg_init (is_req : bool) (cap fill verb : Z) : msg :=
  mkMsg is_req cap fill [] INIT verb (0, 0) (0, 0) (0, 0) 0 (0, 0) 0 (mkH [] 0 []) false.

(* Request::parse_request_line 367-380 / Response::parse_status_line 382-395.
   Returns (ret, ptr, msg with the fields set). *)
Definition parse_start_line (m : msg) (b : bytes) : Z * Z * msg :=
  if m_is_req m then
    let '(vs, p1) := P_extract_until b 0 B_sp in
    let verb := string_to_verb (slice b (fst vs) (snd vs)) in
    let m1 := mkMsg true (m_cap m) (m_fill m) (m_rx m) (m_status m) verb (m_target m) (m_version m)
                    (m_stmsg m) (m_code m) (m_body m) (m_hoff m) (m_hdrs m) (m_abandon m) in
    if verb =? 0 then (-1, p1, m1) else
    let '(tg, p2) := P_extract_until b p1 B_sp in
    let p3 := P_skip_string b p2 B_HTTP in
    let '(ver, p4) := P_extract_until b p3 B_cr in
    let m2 := mkMsg true (m_cap m) (m_fill m) (m_rx m) (m_status m) verb tg ver
                    (m_stmsg m) (m_code m) (m_body m) (m_hoff m) (m_hdrs m) (m_abandon m) in
    if 6 <=? snd ver then (-1, p4, m2) else
    (0, P_skip_chars b p4 B_lf false, m2)
  else
    let p1 := P_skip_string b 0 B_HTTP in
    let '(ver, p2) := P_extract_until b p1 B_sp in
    let m1 := mkMsg false (m_cap m) (m_fill m) (m_rx m) (m_status m) (m_verb m) (m_target m) ver
                    (m_stmsg m) (m_code m) (m_body m) (m_hoff m) (m_hdrs m) (m_abandon m) in
    if 6 <=? snd ver then (-1, p2, m1) else
    let '(code, p3) := P_extract_integer b p2 in
    if (code <=? 0) || (1000 <=? code) then (-1, p3, m1) else
    let p4 := P_skip_chars b p3 B_sp false in
    let '(sm, p5) := P_extract_until b p4 B_cr in
    let m2 := mkMsg false (m_cap m) (m_fill m) (m_rx m) (m_status m) (m_verb m) (m_target m) ver
                    sm (u16 code) (m_body m) (m_hoff m) (m_hdrs m) (m_abandon m) in
    (0, P_skip_chars b p5 B_lf false, m2).

(* Message::append_bytes 96-133; `bs` are the `size` bytes just stored at
   m_buf + m_buf_size.  None = out of range. *)
Definition append_bytes (m : msg) (bs : bytes) : option (Z * msg) :=
  let size := u16 (zlen bs) in
  if m_status m =? HEADER_PARSED then Some (-1, m) else
  let income := zlen (m_rx m) in
  if m_cap m <=? income + size then Some (-1, m) else
  let left := Z.max (income - 3) 0 in
  let rx := m_rx m ++ bs in
  let m0 := mkMsg (m_is_req m) (m_cap m) (m_fill m) rx (m_status m) (m_verb m) (m_target m)
                  (m_version m) (m_stmsg m) (m_code m) (m_body m) (m_hoff m) (m_hdrs m) (m_abandon m) in
  match find_term (zdrop left rx) with
  | None => Some (2, m0)
  | Some w =>
    let pos := w + 4 - (income - left) in
    let body := (u16 (income + pos), u16 (size - pos)) in
    let '(r, cur, m1) := parse_start_line m0 rx in
    let m2 := mkMsg (m_is_req m1) (m_cap m1) (m_fill m1) rx (m_status m1) (m_verb m1) (m_target m1)
                    (m_version m1) (m_stmsg m1) (m_code m1) body (m_hoff m1) (m_hdrs m1) (m_abandon m1) in
    if r <? 0 then Some (r, m2) else
    let hb := zdrop cur rx in
    let hcap := u16 (m_cap m - cur) in
    match h_reset_parse hb hcap with
    | None => None
    | Some None => Some (-1, m2)
    | Some (Some h) =>
      let conn := h_get h K_connection in
      let ver := slice_checked rx (fst (m_version m2)) (snd (m_version m2)) in
      let abandon := beqb conn V_close || negb (zlen (h_get h K_trailer) =? 0)
                     || (beqb ver V_10 && negb (beqb conn V_keepalive)) in
      Some (0, mkMsg (m_is_req m2) (m_cap m2) (m_fill m2) rx HEADER_PARSED (m_verb m2) (m_target m2)
                     (m_version m2) (m_stmsg m2) (m_code m2) body cur h abandon)
    end
  end.

(* Message::receive_bytes 79-94 and the loop of receive_header 60-76 (without
   prepare_body_read_stream).  Result (ret, msg, rest of the socket script). *)
Fixpoint receive_header (fuel : nat) (m : msg) (ps : pieces) (err : bool) : option (Z * msg * pieces) :=
  match fuel with
  | O => None
  | S f =>
    if m_cap m - zlen (m_rx m) <=? MAX_TRANSFER_BYTES + RESERVED_INDEX_SIZE then Some (-1, m, ps) else
    let '(rc, bs, ps') := sk_recv ps err MAX_TRANSFER_BYTES in
    if rc <? 0 then Some (rc, m, ps')
    else if (m_status m =? INIT) && (rc =? 0) then Some (1, m, ps')
    else match append_bytes m bs with
         | None => None
         | Some (ret, m') =>
           if negb (ret =? 0) && (rc =? 0) then Some (-1, m', ps')
           else if ret =? 2 then receive_header f m' ps' err
           else Some (ret, m', ps')
         end
  end.

Definition h_chunked (h : hdrs) : bool := beqb (h_get h K_te) V_chunked.

(* ---- sscanf(value, "bytes %zu-%zu") / "bytes */%zu" (glibc), message.cpp 273-278.
   The scanned C string starts at the value and is NOT bounded by the value's
   length; SEnd = the scan needs a byte beyond the received bytes. *)
Inductive sres := SEnd | SFail | SOk (v : Z) (rest : bytes).
Definition is_space (c : Z) : bool := ((9 <=? c) && (c <=? 13)) || (c =? 32).
Fixpoint skip_ws (s : bytes) : bytes :=
  match s with c :: t => if is_space c then skip_ws t else s | [] => [] end.
Definition scan_lit (c : Z) (s : bytes) : sres :=
  match s with [] => SEnd | x :: t => if x =? 0 then SFail else if x =? c then SOk 0 t else SFail end.
Fixpoint scan_lits (l : bytes) (s : bytes) : sres :=
  match l with
  | [] => SOk 0 s
  | c :: l' => match scan_lit c s with SOk _ t => scan_lits l' t | r => r end
  end.
Fixpoint scan_digits (s : bytes) (acc : Z) (n : Z) : sres * Z :=
  match s with
  | [] => (SEnd, n)
  | c :: t => if (48 <=? c) && (c <=? 57)
              then scan_digits t (let a := acc * 10 + (c - 48) in if MAX64 <? a then MAX64 else a) (n + 1)
              else (SOk acc s, n)
  end.
(* %zu : skip white space, optional sign, at least one digit; strtoul semantics *)
Definition scan_zu (s : bytes) : sres :=
  match skip_ws s with
  | [] => SEnd
  | c :: t =>
    if c =? 0 then SFail else
    let '(neg, s1) := if c =? 45 then (true, t) else if c =? 43 then (false, t) else (false, c :: t) in
    match scan_digits s1 0 0 with
    | (SOk v rest, n) => if n =? 0 then SFail
                         else SOk (if neg then (if v =? MAX64 then MAX64 else wrap (- v)) else v) rest
    | (r, _) => r
    end
  end.
(* the white-space directive: skips any amount; reaching the end needs one more byte *)
Definition scan_ws (s : bytes) : sres :=
  match skip_ws s with [] => SEnd | r => SOk 0 r end.

(* result of the Content-Range branch: None = SEnd; Some None = no match; Some (Some n) *)
Definition content_range_size (s : bytes) : option (option Z) :=
  let first :=
    match scan_lits V_bytes s with
    | SOk _ s1 =>
      match scan_ws s1 with
      | SOk _ s2 =>
        match scan_zu s2 with
        | SOk st s3 =>
          match scan_lit 45 s3 with
          | SOk _ s4 => match scan_zu s4 with
                        | SOk en _ => Some (Some (wrap (en - st + 1)))
                        | SEnd => None | SFail => Some None end
          | SEnd => None | SFail => Some None
          end
        | SEnd => None | SFail => Some None
        end
      | SEnd => None | SFail => Some None
      end
    | SEnd => None | SFail => Some None
    end in
  match first with
  | None => None
  | Some (Some n) => Some (Some n)
  | Some None =>
    match scan_lits V_bytes s with
    | SOk _ s1 =>
      match scan_ws s1 with
      | SOk _ s2 =>
        match scan_lits [42; 47] s2 with
        | SOk _ s3 => match scan_zu s3 with
                      | SOk en _ => Some (Some en) | SEnd => None | SFail => Some None end
        | SEnd => None | SFail => Some None
        end
      | SEnd => None | SFail => Some None
      end
    | SEnd => None | SFail => Some None
    end
  end.

(* Message::body_size 265-286; None = reads beyond the received bytes *)
Definition body_size (m : msg) : option Z :=
  if m_verb m =? VERB_HEAD then Some 0 else
  let h := m_hdrs m in
  match h_find h K_cl with
  | Some i => Some (dec_to_u64 (h_get h K_cl))
  | None =>
    let fallback := if m_abandon m && negb (h_chunked h) then MAX64 else 0 in
    match h_find h K_cr with
    | Some i =>
      match nth_error (h_kv h) (Z.to_nat i) with
      | Some e =>
        match content_range_size (zdrop (kv_vo e) (h_buf h)) with
        | None => None
        | Some (Some n) => Some n
        | Some None => Some fallback
        end
      | None => Some fallback
      end
    | None => Some fallback
    end
  end.

(* partial_body(), message.h 138-140 *)
Definition partial_body (m : msg) : bytes :=
  slice_checked (m_rx m) (fst (m_body m)) (snd (m_body m)).

(* prepare_body_read_stream 230-239 *)
Inductive bstream := BS_len (s : brs) | BS_chunked (s : crs).
Definition prepare_body_read_stream (m : msg) (ps : pieces) (err : bool) : option (Z * option bstream) :=
  if h_chunked (m_hdrs m) then
    if h_space_remain (m_hdrs m) <? LINE_BUFFER_SIZE then Some (-1, None)
    else
      (* bytes addressable from the partial body up to the kv index *)
      let cap := m_cap m - fst (m_body m) - 8 * zlen (h_kv (m_hdrs m)) in
      Some (0, Some (BS_chunked (crs_init cap (partial_body m) ps err)))
  else
    match body_size m with
    | None => None
    | Some n => Some (0, Some (BS_len (brs_init (partial_body m) n ps err)))
    end.

Definition bs_read (b : bstream) (count : Z) : option (Z * bytes * bstream) :=
  match b with
  | BS_len s => let '(r, o, s') := brs_read s count in Some (r, o, BS_len s')
  | BS_chunked s => match crs_read s count with
                    | None => None
                    | Some (r, o, s') => Some (r, o, BS_chunked s')
                    end
  end.
Definition bs_read_f (fuel : nat) (b : bstream) (count : Z) : option (Z * bytes * bstream) :=
  match b with
  | BS_len s => let '(r, o, s') := brs_read s count in Some (r, o, BS_len s')
  | BS_chunked s => match crs_read_f fuel s count with
                    | None => None
                    | Some (r, o, s') => Some (r, o, BS_chunked s')
                    end
  end.
Definition bs_fuel (b : bstream) : nat :=
  match b with BS_len _ => O | BS_chunked s => crs_fuel s end.
Definition bs_rest (b : bstream) : Z :=
  match b with BS_len s => total_len (b_ps s) | BS_chunked s => total_len (c_ps s) end.

Definition rh_fuel (ps : pieces) : nat := S (S (length (concat ps))).
