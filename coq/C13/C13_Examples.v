(* C13_Examples.v — concrete, non-trivial instances of the hypotheses of the C13 theorems. *)
From Coq Require Import String.
From Coq Require Import ZArith List Bool Lia.
From PV Require Import Base.U64 C13.C13_Model C13.C13_Msg C13.C13_Proofs C13.C13_MsgProofs
     C13.C13_ChunkSafe C13.C13_ChunkDecode C13.C13_Roundtrip C13.C13_ChunkTotal C13.C13_ParseSafe C13.C13_ParseIndep.
Import ListNotations.
Local Open Scope Z_scope.

Definition b (s : string) : bytes := s2b s.

(* body_length_exact: a 5-byte body of which 2 bytes came with the head, the rest in 1+4 byte pieces
   followed by the start of the next message; reads of 3, 0 and 9 bytes *)
Example body_length_hyps :
  let partial := b "he" in let ps := [b "l"; b "loNE"] in
  0 <= 5 < MAX64 /\ 5 <= zlen (partial ++ concat ps) /\ Forall (fun c => 0 <= c) [3; 0; 9].
Proof. cbn. splits; try (unfold MAX64; lia). repeat constructor; lia. Qed.
Example body_length_run :
  fst (brs_run (brs_init (b "he") 5 [b "l"; b "loNE"] false) [3; 0; 9]) = [(3, b "hel"); (0, []); (2, b "lo")].
Proof. vm_compute. reflexivity. Qed.

(* chunked_decode_spec: "5;x=1\r\nhello\r\n0\r\n\r\n" is a valid encoding of "hello" *)
Example size_line_example : size_line (b "5;x=1") 5.
Proof. unfold size_line. splits; [vm_compute; reflexivity|vm_compute; reflexivity|vm_compute; discriminate]. Qed.
Example valid_chunked_example :
  valid_chunked (b "5;x=1" ++ CRLF ++ b "hello" ++ CRLF ++ (b "0" ++ CRLF ++ CRLF)) (b "hello" ++ []).
Proof.
  apply VC_chunk.
  - vm_compute. split; reflexivity.
  - exact size_line_example.
  - apply VC_last; [discriminate|]. unfold size_line. splits; [vm_compute; reflexivity|vm_compute; reflexivity|vm_compute; discriminate].
Qed.
(* ... read with the size line cut in two ("5;" arrived with the head), 1..3-byte pieces, 2-byte reads *)
Example chunked_decode_run :
  match crs_run (crs_init 4096 (b "5;") [b "x=1"; [13]; [10]; b "he"; b "llo"; [13; 10; 48]; [13]; [10; 13]; [10]] false) [2; 2; 2; 2] with
  | Some (l, s) => l = [(2, b "he"); (2, b "ll"); (1, b "o"); (0, [])] /\ c_finish s = true
  | None => False
  end.
Proof. vm_compute. split; reflexivity. Qed.

(* chunked_roundtrip: non-empty writes, a budget that holds the whole wire *)
Example roundtrip_hyps :
  Forall (fun w => w <> [] /\ zlen w < W64) [b "ab"; b "c"] /\
  zlen (chunks_wire [b "ab"; b "c"]) + 5 <= w_budget (mkW [] 1000).
Proof. split; [repeat constructor; try discriminate; vm_compute; reflexivity|vm_compute; discriminate]. Qed.

(* header_boundary_fragmentation_independent: a head with terminator at 18 in a 16 KB buffer *)
Example boundary_hyps :
  let bytes := b "GET / HTTP/1.1" ++ [13;10] ++ b "A:" ++ [13;10;13;10] ++ b "rest" in
  find_term bytes = Some 18 /\ 18 + 3 + MAX_TRANSFER_BYTES + (MAX_TRANSFER_BYTES + RESERVED_INDEX_SIZE) < 16384.
Proof. split; vm_compute; reflexivity. Qed.

(* terminator_search_window / append_bytes_split_independent: "\r\n\r" already received, "\n" arrives *)
Example window_hyps : find_term (b "GET / HTTP/1.1" ++ [13;10;13]) = None.
Proof. vm_compute. reflexivity. Qed.
