(* Extraction of the executable hypothesis of parse_fragmentation_independent (head_ok), used by
   checks/C13.py to measure that every strictly valid generated head satisfies it.
   ExtrOcamlBasic only. *)
From Coq Require Import ZArith List.
From PV Require Import Base.U64 C13.C13_Model C13.C13_Msg C13.C13_ParseTail.
Require Extraction.
Require Import ExtrOcamlBasic.
Extraction "c13_hok.ml" head_ok msg_init.
