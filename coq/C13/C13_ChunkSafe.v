(* C13_ChunkSafe.v — the chunked reader never hands back more than `count` bytes and
   the byte count it reports is the number of bytes it stored (for EVERY byte string,
   fragmentation, socket error and state reachable from crs_init). *)
From Coq Require Import ZArith List Bool Lia.
From PV Require Import Base.U64 C13.C13_Model C13.C13_Proofs.
Import ListNotations.
Local Open Scope Z_scope.

Lemma sk_read_bounds ps : forall err count,
  let '(r, bs, _) := sk_read ps err count in
  (r = -1 /\ bs = []) \/ (0 <= r <= Z.max count 0 /\ zlen bs = r).
Proof.
  induction ps as [|p rest IH]; intros err count; cbn [sk_read].
  - destruct (count <=? 0); [right; cbn; lia|]. destruct err; [left; auto|right; cbn; lia].
  - pose proof (zlen_nonneg p) as Hp.
    destruct (Z.leb_spec count 0); [right; cbn; lia|].
    destruct (Z.ltb_spec count (zlen p)).
    + right. rewrite zlen_ztake by lia. lia.
    + specialize (IH err (count - zlen p)). destruct (sk_read rest err (count - zlen p)) as [[r bs] ps'].
      destruct (Z.ltb_spec r 0); [left; auto|].
      right. destruct IH as [[? ?]|[? ?]]; [lia|]. rewrite zlen_app. lia.
Qed.

Lemma hex_scan_nonneg s : forall v i, 0 <= v -> 0 <= snd (hex_scan s v i).
Proof.
  induction s as [|c t IH]; intros v i Hv; cbn [hex_scan]; [exact Hv|].
  destruct (16 <=? hex_digit c); [exact Hv|]. apply IH. apply wrap_range.
Qed.
Lemma hex_to_u64_nonneg s : 0 <= hex_to_u64 s.
Proof.
  unfold hex_to_u64. pose proof (hex_scan_nonneg s 0 0 ltac:(lia)) as H.
  destruct (hex_scan s 0 0) as [n v]. cbn in H. destruct (n =? 0); lia.
Qed.

Lemma pnc_remain s pos b s' :
  pos_next_chunk s pos = Some (b, s') -> 0 <= c_remain s -> 0 <= c_remain s'.
Proof.
  unfold pos_next_chunk. intros H Hr.
  destruct ((pos <? 0) || (lsize s <? pos)); [discriminate|].
  destruct (find_crlf (zdrop pos (c_line s))) as [p|]; [|inversion H; subst; exact Hr].
  pose proof (hex_to_u64_nonneg (ztake p (zdrop pos (c_line s)))) as Hh.
  destruct (negb (hex_to_u64 (ztake p (zdrop pos (c_line s))) =? 0) || (p =? 0)).
  - inversion H; subst. exact Hh.
  - destruct (2 <? wrap (pos + p + 4 - lsize s)); [inversion H; subst; exact Hh|].
    destruct (0 <? wrap (pos + p + 4 - lsize s)).
    + destruct (sk_read (c_ps s) (c_err s) (wrap (pos + p + 4 - lsize s))) as [[r bs] ps'].
      inversion H; subst. exact Hh.
    + inversion H; subst. exact Hh.
Qed.

Lemma compact_remain s : c_remain (compact s) = c_remain s. Proof. reflexivity. Qed.
Lemma reset_if_end_remain s : c_remain (reset_if_end s) = c_remain s.
Proof. unfold reset_if_end. destruct (c_cursor s =? lsize s); reflexivity. Qed.

Lemma rflb_bounds : forall fuel s count ret out r s' c' o',
  read_from_line_buf fuel s count ret out = Some (r, s', c', o') ->
  0 <= c_remain s -> 0 <= count -> zlen out = ret ->
  0 <= c_remain s' /\ 0 <= c' /\ zlen o' = r /\ r + c' = ret + count /\ ret <= r.
Proof.
  induction fuel as [|f IH]; intros s count ret out r s' c' o' H Hr Hc Ho.
  - cbn [read_from_line_buf] in H.
    destruct ((0 <? count) && (c_cursor s <? lsize s) && negb (c_finish s)); [discriminate|].
    inversion H; subst. lia.
  - cbn [read_from_line_buf] in H.
    destruct ((0 <? count) && (c_cursor s <? lsize s) && negb (c_finish s)) eqn:Hcond;
      [|inversion H; subst; lia].
    apply andb_prop in Hcond. destruct Hcond as [Hcond _]. apply andb_prop in Hcond.
    destruct Hcond as [Hc0 Hcur]. apply Z.ltb_lt in Hc0. apply Z.ltb_lt in Hcur.
    destruct (Z.ltb_spec (c_cursor s) 0) as [|Hcur0]; [discriminate|].
    set (n := Z.min count (Z.min (c_remain s) (lsize s - c_cursor s))) in *.
    assert (Hn : 0 <= n <= count) by (unfold n; lia).
    assert (Hdata : zlen (ztake n (zdrop (c_cursor s) (c_line s))) = n).
    { apply zlen_ztake. rewrite zlen_zdrop by (unfold lsize in *; lia). unfold n, lsize in *. lia. }
    set (s1 := mkCrs _ _ _ _ _ _ _ _) in H.
    assert (Hr1 : 0 <= c_remain s1) by (cbn; apply wrap_range).
    assert (Ho1 : zlen (out ++ ztake n (zdrop (c_cursor s) (c_line s))) = ret + n)
      by (rewrite zlen_app, Hdata; lia).
    destruct (c_remain s1 =? 0).
    + destruct (pos_next_chunk s1 (c_cursor s1)) as [[[|] s2]|] eqn:Hp; [| |discriminate].
      * pose proof (pnc_remain _ _ _ _ Hp Hr1) as Hr2.
        apply IH in H; [|rewrite reset_if_end_remain; exact Hr2|lia|exact Ho1]. lia.
      * pose proof (pnc_remain _ _ _ _ Hp Hr1) as Hr2. inversion H; subst.
        rewrite compact_remain. lia.
    + apply IH in H; [|rewrite reset_if_end_remain; exact Hr1|lia|exact Ho1]. lia.
Qed.

Lemma rfs_bounds s count r s' c' bs :
  read_from_stream s count = (r, s', c', bs) -> 0 <= c_remain s -> 0 <= count ->
  0 <= c_remain s' /\ ((r = -1 /\ c' = count) \/ (0 <= r /\ zlen bs = r /\ c' = count - r /\ 0 <= c')).
Proof.
  unfold read_from_stream. intros H Hr Hc.
  pose proof (sk_read_bounds (c_ps s) (c_err s) (Z.min count (c_remain s))) as Hb.
  destruct (sk_read (c_ps s) (c_err s) (Z.min count (c_remain s))) as [[r0 bs0] ps'].
  destruct (Z.ltb_spec r0 0) as [Hneg|Hpos]; inversion H; subst; cbn [c_remain].
  - split; [exact Hr|]. left. destruct Hb as [[? ?]|[? ?]]; lia.
  - split; [apply wrap_range|]. right. destruct Hb as [[? ?]|[? ?]]; lia.
Qed.

Lemma gnc_loop_remain : forall fuel s r s',
  gnc_loop fuel s = Some (r, s') -> 0 <= c_remain s -> 0 <= c_remain s'.
Proof.
  induction fuel as [|f IH]; intros s r s' H Hr; cbn [gnc_loop] in H.
  - destruct (c_finish s); [inversion H; subst; exact Hr|discriminate].
  - destruct (c_finish s); [inversion H; subst; exact Hr|].
    destruct (sk_recv (c_ps s) (c_err s) (wrap (LINE_BUFFER_SIZE - lsize s))) as [[r0 bs] ps'].
    destruct (r0 <? 0); [inversion H; subst; exact Hr|].
    destruct (r0 =? 0); [inversion H; subst; exact Hr|].
    destruct (c_cap s <? lsize s + r0); [discriminate|].
    match type of H with (if ?c then _ else _) = _ => destruct c end.
    + apply IH in H; [exact H|exact Hr].
    + match type of H with match pos_next_chunk ?a ?b with _ => _ end = _ =>
        destruct (pos_next_chunk a b) as [[[|] s2]|] eqn:Hp; [| |discriminate] end.
      * inversion H; subst. apply (pnc_remain _ _ _ _ Hp). exact Hr.
      * apply IH in H; [exact H|]. apply (pnc_remain _ _ _ _ Hp). exact Hr.
Qed.

Lemma gnc_remain fuel s r s' :
  get_new_chunk fuel s = Some (r, s') -> 0 <= c_remain s -> 0 <= c_remain s'.
Proof.
  unfold get_new_chunk. intros H Hr.
  destruct (c_cursor s <? lsize s).
  - destruct (pos_next_chunk s (c_cursor s)) as [[[|] s1]|] eqn:Hp; [| |discriminate].
    + inversion H; subst. apply (pnc_remain _ _ _ _ Hp Hr).
    + apply gnc_loop_remain in H; [exact H|]. rewrite compact_remain. apply (pnc_remain _ _ _ _ Hp Hr).
  - destruct (c_cursor s =? lsize s); apply gnc_loop_remain in H; exact H || exact Hr.
Qed.

Lemma crs_read_loop_bounds : forall fuel s count ret out r o s',
  crs_read_loop fuel s count ret out = Some (r, o, s') ->
  0 <= c_remain s -> 0 <= count -> zlen out = ret -> 0 <= ret ->
  0 <= c_remain s' /\ (r < 0 \/ (zlen o = r /\ ret <= r <= ret + count)).
Proof.
  induction fuel as [|f IH]; intros s count ret out r o s' H Hr Hc Ho Hret.
  - cbn [crs_read_loop] in H. destruct ((0 <? count) && negb (c_finish s)); [discriminate|].
    inversion H; subst. split; [exact Hr|right; lia].
  - cbn [crs_read_loop] in H.
    destruct ((0 <? count) && negb (c_finish s)); [|inversion H; subst; split; [exact Hr|right; lia]].
    destruct (read_from_line_buf (S f) s count 0 []) as [[[[r1 s1] count1] o1]|] eqn:Hl; [|discriminate].
    apply rflb_bounds in Hl; [|exact Hr|exact Hc|reflexivity].
    destruct Hl as (Hr1 & Hc1 & Ho1 & Hsum & Hr1pos).
    destruct ((0 <? c_remain s1) && (0 <? count1)).
    + destruct (read_from_stream s1 count1) as [[[r2 s2] count2] bs] eqn:Hs.
      apply rfs_bounds in Hs; [|exact Hr1|exact Hc1]. destruct Hs as (Hr2 & Hcase).
      destruct (Z.ltb_spec r2 0) as [Hneg|Hpos].
      * destruct (Z.ltb_spec r2 0); [|lia]. inversion H; subst. split; [exact Hr2|left; lia].
      * destruct Hcase as [[? ?]|(Hr2p & Hbs & Hc2 & Hc2p)]; [lia|].
        destruct (Z.ltb_spec 0 0); [lia|].
        assert (Hout2 : zlen ((out ++ o1) ++ bs) = ret + r1 + r2) by (rewrite !zlen_app; lia).
        destruct ((0 <? c_remain s2) && (r2 =? 0)).
        { inversion H; subst. split; [exact Hr2|right; lia]. }
        destruct (c_remain s2 =? 0).
        { destruct (get_new_chunk (S f) s2) as [[r3 s3]|] eqn:Hg; [|discriminate].
          pose proof (gnc_remain _ _ _ _ Hg Hr2) as Hr3.
          destruct (Z.ltb_spec r3 0); [inversion H; subst; split; [exact Hr3|left; lia]|].
          apply IH in H; [|exact Hr3|lia|exact Hout2|lia].
          destruct H as (? & [?|[? ?]]); split; auto; right; lia. }
        apply IH in H; [|exact Hr2|lia|exact Hout2|lia].
        destruct H as (? & [?|[? ?]]); split; auto; right; lia.
    + destruct (Z.ltb_spec 0 0); [lia|]. cbn [andb] in H.
      assert (Hout1 : zlen (out ++ o1) = ret + r1) by (rewrite zlen_app; lia).
      destruct (c_remain s1 =? 0).
      { destruct (get_new_chunk (S f) s1) as [[r3 s3]|] eqn:Hg; [|discriminate].
        pose proof (gnc_remain _ _ _ _ Hg Hr1) as Hr3.
        destruct (Z.ltb_spec r3 0); [inversion H; subst; split; [exact Hr3|left; lia]|].
        apply IH in H; [|exact Hr3|lia|exact Hout1|lia].
        destruct H as (? & [?|[? ?]]); split; auto; right; lia. }
      apply IH in H; [|exact Hr1|lia|exact Hout1|lia].
      destruct H as (? & [?|[? ?]]); split; auto; right; lia.
Qed.

(* For EVERY state with a non-negative chunk remainder (in particular every state reachable
   from crs_init), every fuel, every count >= 0: a read that returns r >= 0 stored exactly r
   bytes and r <= count — the caller's buffer is never overrun and the reported length is
   the stored length.  Errors are negative. *)
Lemma chunked_read_within_count_proof : forall fuel s count r o s',
  crs_read_f fuel s count = Some (r, o, s') -> 0 <= c_remain s -> 0 <= count ->
  0 <= c_remain s' /\ (r < 0 \/ (zlen o = r /\ 0 <= r <= count)).
Proof.
  intros fuel s count r o s' H Hr Hc. unfold crs_read_f in H.
  apply crs_read_loop_bounds in H; [|exact Hr|exact Hc|reflexivity|lia].
  destruct H as (H1 & [H2|[H2 H3]]); (split; [exact H1|]); [left; exact H2|right; lia].
Qed.

(* the hypothesis is met by every freshly constructed stream *)
Example crs_init_remain cap partial ps err : 0 <= c_remain (crs_init cap partial ps err).
Proof. cbn. lia. Qed.
