(* C13_ParseTail.v — parse_fragmentation_independent: the parse of head ++ tail does not depend
   on tail when every scan of the parser ends inside `head` (true for every well-formed head:
   start line and header lines contain their delimiters; checked by the executable `*_ok`). *)
From Coq Require Import String.
From Coq Require Import ZArith List Bool Lia.
From PV Require Import Base.U64 C13.C13_Model C13.C13_Msg C13.C13_Proofs C13.C13_MsgProofs
     C13.C13_ChunkSafe C13.C13_ChunkDecode C13.C13_ChunkTotal C13.C13_ParseSafe C13.C13_ParseIndep C13.C13_Statements.
Import ListNotations.
Local Open Scope Z_scope.

(* -------------------------------------------------------- primitive scans ---- *)
Lemma find_char_app c a b : forall pos, find_char c a = Some pos -> find_char c (a ++ b) = Some pos.
Proof.
  induction a as [|x t IH]; intros pos H; [discriminate|]. cbn [app find_char] in *.
  destruct (x =? c); [exact H|]. destruct (find_char c t) as [k|]; [|discriminate].
  rewrite (IH k eq_refl). exact H.
Qed.

Definition eu_ok (a : bytes) (ptr c : Z) : bool :=
  (0 <=? ptr) && (ptr <=? zlen a) && match find_char c (zdrop ptr a) with Some _ => true | None => false end.

Lemma P_extract_until_tail a b ptr c : eu_ok a ptr c = true ->
  P_extract_until (a ++ b) ptr c = P_extract_until a ptr c.
Proof.
  unfold eu_ok. intros H. apply andb_prop in H. destruct H as [H Hf]. apply andb_prop in H. destruct H as [H0 H1].
  apply Z.leb_le in H0. apply Z.leb_le in H1. unfold P_extract_until.
  rewrite zdrop_app_le by lia. destruct (find_char c (zdrop ptr a)) as [pos|] eqn:E; [|discriminate].
  rewrite (find_char_app _ _ b _ E). reflexivity.
Qed.

Definition ss_ok (a : bytes) (ptr : Z) (sv : bytes) : bool :=
  (0 <=? ptr) && (ptr + zlen sv <=? zlen a).
Lemma P_skip_string_tail a b ptr sv : ss_ok a ptr sv = true -> P_skip_string (a ++ b) ptr sv = P_skip_string a ptr sv.
Proof.
  unfold ss_ok. intros H. apply andb_prop in H. destruct H as [H0 H1]. apply Z.leb_le in H0. apply Z.leb_le in H1.
  pose proof (zlen_nonneg sv). unfold P_skip_string. rewrite zdrop_app_le by lia.
  rewrite starts_with_app_long by (rewrite zlen_zdrop; lia). reflexivity.
Qed.

Definition nonc (c : Z) (s : bytes) : bool := existsb (fun x => negb (x =? c)) s.
Lemma skip_while_tail c a b : nonc c a = true -> skip_while c (a ++ b) = skip_while c a.
Proof.
  induction a as [|x t IH]; intros H; [discriminate|]. cbn [app skip_while nonc existsb] in *.
  destruct (x =? c); [|reflexivity]. cbn [negb orb] in H. rewrite (IH H). reflexivity.
Qed.
Definition sc_ok (a : bytes) (ptr c : Z) (rep : bool) : bool :=
  (0 <=? ptr) && (ptr <? zlen a) && (if rep then nonc c (zdrop ptr a) else true).
Lemma P_skip_chars_tail a b ptr c rep : sc_ok a ptr c rep = true ->
  P_skip_chars (a ++ b) ptr c rep = P_skip_chars a ptr c rep.
Proof.
  unfold sc_ok. intros H. apply andb_prop in H. destruct H as [H Hn]. apply andb_prop in H. destruct H as [H0 H1].
  apply Z.leb_le in H0. apply Z.ltb_lt in H1. unfold P_skip_chars. rewrite zdrop_app_le by lia.
  destruct rep.
  - rewrite skip_while_tail by exact Hn. reflexivity.
  - destruct (zdrop ptr a) as [|x t] eqn:E; [|reflexivity].
    apply (f_equal zlen) in E. rewrite zlen_zdrop in E by lia. change (zlen (@nil Z)) with 0 in E. lia.
Qed.

Definition isdig (c : Z) : bool := (48 <=? c) && (c <=? 57).
Definition nondig (s : bytes) : bool := existsb (fun x => negb (isdig x) && (10 <=? (x - 48) mod 256)) s.
Lemma count_digits_tail a b : nondig a = true -> count_digits (a ++ b) = count_digits a.
Proof.
  induction a as [|x t IH]; intros H; [discriminate|]. cbn [app count_digits nondig existsb] in *. fold (isdig x) in *.
  destruct (isdig x); [|reflexivity]. cbn [negb andb orb] in H. rewrite (IH H). reflexivity.
Qed.
Lemma dec_scan_tail a b : forall v i, nondig a = true ->
  (forall x, In x a -> isdig x = negb (10 <=? (x - 48) mod 256)) ->
  dec_scan (a ++ b) v i = dec_scan a v i.
Proof.
  induction a as [|x t IH]; intros v i H Hb; [discriminate|]. cbn [app dec_scan nondig existsb] in *.
  pose proof (Hb x (or_introl eq_refl)) as Hx.
  destruct (10 <=? (x - 48) mod 256) eqn:E; [reflexivity|].
  cbn [negb] in Hx. rewrite Hx in H. cbn [negb andb orb] in H.
  apply IH; [exact H|]. intros y Hy. apply Hb. right. exact Hy.
Qed.
(* the digit tests of extract_integer (isdigit) and to_uint64 (c - '0' as unsigned char) agree on bytes *)
Definition bytes_ok (s : bytes) : bool := forallb (fun x => (0 <=? x) && (x <? 256)) s.
Lemma isdig_agree x : 0 <= x < 256 -> isdig x = negb (10 <=? (x - 48) mod 256).
Proof.
  intros H. unfold isdig. destruct (Z.leb_spec 48 x); destruct (Z.leb_spec x 57); cbn [andb negb].
  - rewrite Z.mod_small by lia. destruct (Z.leb_spec 10 (x - 48)); [lia|reflexivity].
  - rewrite Z.mod_small by lia. destruct (Z.leb_spec 10 (x - 48)); [reflexivity|lia].
  - replace ((x - 48) mod 256) with (x + 208) by (rewrite <- (Z.mod_small (x + 208) 256) by lia; rewrite <- (Z_mod_plus_full (x - 48) 1 256); f_equal; lia).
    destruct (Z.leb_spec 10 (x + 208)); [reflexivity|lia].
  - lia.
Qed.
Definition ei_ok (a : bytes) (ptr : Z) : bool :=
  (0 <=? ptr) && (ptr <=? zlen a) && nondig (zdrop ptr a) && bytes_ok (zdrop ptr a).
Lemma P_extract_integer_tail a b ptr : ei_ok a ptr = true ->
  P_extract_integer (a ++ b) ptr = P_extract_integer a ptr.
Proof.
  unfold ei_ok. intros H. apply andb_prop in H. destruct H as [H Hby]. apply andb_prop in H. destruct H as [H Hnd].
  apply andb_prop in H. destruct H as [H0 H1]. apply Z.leb_le in H0. apply Z.leb_le in H1.
  unfold P_extract_integer. rewrite zdrop_app_le by lia. rewrite count_digits_tail by exact Hnd.
  f_equal. unfold dec_to_u64. rewrite dec_scan_tail; [reflexivity|exact Hnd|].
  intros x Hx. apply isdig_agree. unfold bytes_ok in Hby. rewrite forallb_forall in Hby. specialize (Hby x Hx).
  apply andb_prop in Hby. destruct Hby as [A B]. apply Z.leb_le in A. apply Z.ltb_lt in B. lia.
Qed.

(* -------------------------------------------------------------- start line ---- *)
Lemma slice_app a b off len : 0 <= off -> 0 <= len -> off + len <= zlen a -> slice (a ++ b) off len = slice a off len.
Proof.
  intros H0 H1 H2. unfold slice. rewrite zdrop_app_le by lia. rewrite ztake_app_le; [reflexivity|].
  rewrite zlen_zdrop by lia. lia.
Qed.

Definition start_ok (is_req : bool) (a : bytes) : bool :=
  if is_req then
    eu_ok a 0 B_sp &&
    (let '(vs, p1) := P_extract_until a 0 B_sp in
     eu_ok a p1 B_sp &&
     (let '(tg, p2) := P_extract_until a p1 B_sp in
      ss_ok a p2 B_HTTP &&
      (let p3 := P_skip_string a p2 B_HTTP in
       eu_ok a p3 B_cr &&
       (let '(ver, p4) := P_extract_until a p3 B_cr in sc_ok a p4 B_lf false))))
  else
    ss_ok a 0 B_HTTP &&
    (let p1 := P_skip_string a 0 B_HTTP in
     eu_ok a p1 B_sp &&
     (let '(ver, p2) := P_extract_until a p1 B_sp in
      ei_ok a p2 &&
      (let '(code, p3) := P_extract_integer a p2 in
       sc_ok a p3 B_sp false &&
       (let p4 := P_skip_chars a p3 B_sp false in
        eu_ok a p4 B_cr &&
        (let '(sm, p5) := P_extract_until a p4 B_cr in sc_ok a p5 B_lf false))))).

Lemma start_tail m a b : start_ok (m_is_req m) a = true -> zlen a < 65536 ->
  parse_start_line m (a ++ b) = parse_start_line m a.
Proof.
  intros H Hlen. unfold parse_start_line, start_ok in *. destruct (m_is_req m).
  - apply andb_prop in H. destruct H as [H1 H].
    rewrite (P_extract_until_tail a b 0 B_sp H1).
    pose proof (P_extract_until_bounds a 0 B_sp ltac:(pose proof (zlen_nonneg a); lia) Hlen) as Hb1.
    destruct (P_extract_until a 0 B_sp) as [[vo vl] p1]. destruct Hb1 as (Hp1 & Hvo & Hvl & Hvr).
    cbn [fst snd]. rewrite slice_app by lia.
    apply andb_prop in H. destruct H as [H2 H].
    rewrite (P_extract_until_tail a b p1 B_sp H2).
    destruct (P_extract_until a p1 B_sp) as [tg p2].
    apply andb_prop in H. destruct H as [H3 H].
    rewrite (P_skip_string_tail a b p2 B_HTTP H3).
    apply andb_prop in H. destruct H as [H4 H].
    rewrite (P_extract_until_tail a b _ B_cr H4).
    destruct (P_extract_until a (P_skip_string a p2 B_HTTP) B_cr) as [ver p4].
    rewrite (P_skip_chars_tail a b p4 B_lf false H). reflexivity.
  - apply andb_prop in H. destruct H as [H1 H].
    rewrite (P_skip_string_tail a b 0 B_HTTP H1).
    apply andb_prop in H. destruct H as [H2 H].
    rewrite (P_extract_until_tail a b _ B_sp H2).
    destruct (P_extract_until a (P_skip_string a 0 B_HTTP) B_sp) as [ver p2].
    apply andb_prop in H. destruct H as [H3 H].
    rewrite (P_extract_integer_tail a b p2 H3).
    destruct (P_extract_integer a p2) as [code p3].
    apply andb_prop in H. destruct H as [H4 H].
    rewrite (P_skip_chars_tail a b p3 B_sp false H4).
    apply andb_prop in H. destruct H as [H5 H].
    rewrite (P_extract_until_tail a b _ B_cr H5).
    destruct (P_extract_until a (P_skip_chars a p3 B_sp false) B_cr) as [sm p5].
    rewrite (P_skip_chars_tail a b p5 B_lf false H). reflexivity.
Qed.

(* ------------------------------------------------------------ header loop ---- *)
Fixpoint loop_ok (fuel : nat) (a : bytes) (hcap ext ptr n : Z) : bool :=
  match fuel with
  | O => false
  | S f =>
    (0 <=? ptr) && (ptr <? zlen a) &&
    (if nth (Z.to_nat ptr) a 0 =? B_cr then true else
       eu_ok a ptr B_colon &&
       (let '(k, p1) := P_extract_until a ptr B_colon in
        sc_ok a p1 B_sp true &&
        (let p2 := P_skip_chars a p1 B_sp true in
         eu_ok a p2 B_cr &&
         (let '(v, p3) := P_extract_until a p2 B_cr in
          sc_ok a p3 B_lf false &&
          (let p4 := P_skip_chars a p3 B_lf false in
           (zlen a + ext <? hcap - 8 * (n + 1)) && loop_ok f a hcap ext p4 (n + 1))))))
  end.

Lemma loop_tail : forall fuel a b hcap ext ptr kvs,
  loop_ok fuel a hcap ext ptr (zlen kvs) = true -> zlen b <= ext ->
  parse_loop fuel (a ++ b) hcap ptr kvs = parse_loop fuel a hcap ptr kvs.
Proof.
  induction fuel as [|f IH]; intros a b hcap ext ptr kvs H Hb; [discriminate|].
  cbn [loop_ok parse_loop] in *. pose proof (zlen_nonneg b) as Hb0.
  apply andb_prop in H. destruct H as [H Hrest]. apply andb_prop in H. destruct H as [H0 H1].
  apply Z.leb_le in H0. apply Z.ltb_lt in H1.
  rewrite zlen_app. destruct (Z.leb_spec (zlen a + zlen b) ptr); [lia|].
  destruct (Z.leb_spec (zlen a) ptr); [lia|].
  rewrite app_nth1 by (unfold zlen in *; lia).
  destruct (nth (Z.to_nat ptr) a 0 =? B_cr); [reflexivity|].
  apply andb_prop in Hrest. destruct Hrest as [E1 Hrest].
  rewrite (P_extract_until_tail a b ptr B_colon E1).
  destruct (P_extract_until a ptr B_colon) as [k p1].
  apply andb_prop in Hrest. destruct Hrest as [E2 Hrest].
  rewrite (P_skip_chars_tail a b p1 B_sp true E2).
  apply andb_prop in Hrest. destruct Hrest as [E3 Hrest].
  rewrite (P_extract_until_tail a b _ B_cr E3).
  destruct (P_extract_until a (P_skip_chars a p1 B_sp true) B_cr) as [v p3].
  apply andb_prop in Hrest. destruct Hrest as [E4 Hrest].
  rewrite (P_skip_chars_tail a b p3 B_lf false E4).
  apply andb_prop in Hrest. destruct Hrest as [E5 Hrest]. apply Z.ltb_lt in E5.
  destruct (Z.leb_spec (hcap - 8 * (zlen kvs + 1)) (zlen a + zlen b)); [lia|].
  destruct (Z.leb_spec (hcap - 8 * (zlen kvs + 1)) (zlen a)); [lia|].
  apply (IH a b hcap ext); [|exact Hb]. rewrite zlen_cons. replace (1 + zlen kvs) with (zlen kvs + 1) by lia. exact Hrest.
Qed.

(* the hypotheses are met by an ordinary request head (every scan ends inside it) *)
Definition ex_head : bytes := Eval compute in
  s2b "GET /a HTTP/1.1"%string ++ [13;10] ++ s2b "Host: x"%string ++ [13;10] ++ s2b "A:  b c"%string ++ [13;10;13;10].
Example start_ok_example : start_ok true ex_head = true. Proof. vm_compute. reflexivity. Qed.
Example loop_ok_example : loop_ok 10 (zdrop 17 ex_head) 1000 100 0 0 = true. Proof. vm_compute. reflexivity. Qed.

(* ------------------------------------------------ sort / lookup extensionality ---- *)
Lemma take_while_ext {A} (f g : A -> bool) l : (forall x, In x l -> f x = g x) -> take_while f l = take_while g l.
Proof.
  induction l as [|x t IH]; intros H; [reflexivity|]. cbn [take_while].
  rewrite (H x (or_introl eq_refl)). destruct (g x); [|reflexivity]. f_equal. apply IH. intros y Hy. apply H. right. exact Hy.
Qed.
Lemma take_while_incl {A} (f : A -> bool) l x : In x (take_while f l) -> In x l.
Proof.
  induction l as [|y t IH]; [intros []|]. cbn [take_while]. destruct (f y); [|intros []].
  intros [E|H]; [left; exact E|right; apply IH; exact H].
Qed.
Lemma skipn_incl {A} n (l : list A) x : In x (skipn n l) -> In x l.
Proof.
  revert l. induction n as [|n IH]; intros l H; [exact H|]. destruct l as [|y t]; [exact H|]. right. apply IH. exact H.
Qed.

Lemma ins_one_ext f g sorted v : (forall y, In y sorted -> f v y = g v y) -> ins_one f sorted v = ins_one g sorted v.
Proof.
  intros H. unfold ins_one. destruct sorted as [|h t]; [reflexivity|].
  rewrite (H h (or_introl eq_refl)). destruct (g v h); [reflexivity|].
  rewrite (take_while_ext (f v) (g v) (rev (h :: t))); [reflexivity|].
  intros x Hx. apply H. apply in_rev. exact Hx.
Qed.
Lemma ins_one_in f sorted v x : In x (ins_one f sorted v) -> x = v \/ In x sorted.
Proof.
  unfold ins_one. destruct sorted as [|h t]; [intros [E|[]]; left; auto|].
  destruct (f v h); [intros [E|H]; [left; auto|right; exact H]|].
  intros H. apply in_app_or in H. destruct H as [H|H].
  - right. apply in_rev in H. apply skipn_incl in H. apply in_rev in H. exact H.
  - apply in_app_or in H. destruct H as [[E|[]]|H]; [left; auto|].
    right. apply in_rev in H. apply take_while_incl in H. apply in_rev in H. exact H.
Qed.

Lemma fold_ins_ext f g : forall l acc,
  (forall x y, In x (acc ++ l) -> In y (acc ++ l) -> f x y = g x y) ->
  fold_left (ins_one f) l acc = fold_left (ins_one g) l acc.
Proof.
  induction l as [|v t IH]; intros acc H; [reflexivity|]. cbn [fold_left].
  rewrite (ins_one_ext f g acc v).
  - apply IH. intros x y Hx Hy. apply H.
    + apply in_app_or in Hx. destruct Hx as [Hx|Hx]; [apply ins_one_in in Hx; destruct Hx as [->|Hx]|];
        apply in_or_app; [right; left; reflexivity|left; exact Hx|right; right; exact Hx].
    + apply in_app_or in Hy. destruct Hy as [Hy|Hy]; [apply ins_one_in in Hy; destruct Hy as [->|Hy]|];
        apply in_or_app; [right; left; reflexivity|left; exact Hy|right; right; exact Hy].
  - intros y Hy. apply H; apply in_or_app; [right; left; reflexivity|left; exact Hy].
Qed.
Lemma insertion_sort_ext f g l : (forall x y, In x l -> In y l -> f x y = g x y) ->
  insertion_sort f l = insertion_sort g l.
Proof. intros H. unfold insertion_sort. apply fold_ins_ext. exact H. Qed.
Lemma insertion_sort_in f l x : In x (insertion_sort f l) -> In x l.
Proof.
  unfold insertion_sort. assert (G : forall l acc, In x (fold_left (ins_one f) l acc) -> In x acc \/ In x l).
  { induction l0 as [|v t IH]; intros acc H; [left; exact H|]. cbn [fold_left] in H.
    destruct (IH _ H) as [H1|H1]; [apply ins_one_in in H1; destruct H1 as [->|H1]; [right; left; reflexivity|left; exact H1]|right; right; exact H1]. }
  intros H. destruct (G l [] H) as [[]|H1]. exact H1.
Qed.

Lemma lower_bound_aux_ext p q (l : list kv) : (forall e, In e l -> p e = q e) ->
  forall fuel first len, lower_bound_aux fuel p l first len = lower_bound_aux fuel q l first len.
Proof.
  intros H. induction fuel as [|f IH]; intros first len; [reflexivity|]. cbn [lower_bound_aux].
  destruct (len <=? 0); [reflexivity|].
  destruct (nth_error l (Z.to_nat (first + len / 2))) as [e|] eqn:E; [|reflexivity].
  rewrite (H e (nth_error_In _ _ E)). destruct (q e); apply IH.
Qed.

(* index entries that lie inside the header buffer *)
Definition kv_ok (hb : bytes) (e : kv) : Prop :=
  0 <= kv_ko e /\ 0 <= kv_kl e /\ kv_ko e + kv_kl e <= zlen hb /\
  0 <= kv_vo e /\ 0 <= kv_vl e /\ kv_vo e + kv_vl e <= zlen hb.
Lemma kv_key_tail hb tail e : kv_ok hb e -> kv_key (hb ++ tail) e = kv_key hb e.
Proof. intros (A & B & C & _). unfold kv_key. apply slice_app; assumption. Qed.
Lemma kv_val_tail hb tail e : kv_ok hb e -> kv_val (hb ++ tail) e = kv_val hb e.
Proof. intros (_ & _ & _ & A & B & C). unfold kv_val. apply slice_app; assumption. Qed.

Lemma h_find_tail hb tail hcap kvs key : Forall (kv_ok hb) kvs ->
  h_find (mkH (hb ++ tail) hcap kvs) key = h_find (mkH hb hcap kvs) key.
Proof.
  intros Hok. rewrite Forall_forall in Hok. unfold h_find, lower_bound. cbn [h_buf h_kv].
  rewrite (lower_bound_aux_ext (fun e => icmp (kv_key (hb ++ tail) e) key <? 0) (fun e => icmp (kv_key hb e) key <? 0) kvs).
  2:{ intros e He. rewrite kv_key_tail by (apply Hok; exact He). reflexivity. }
  destruct (nth_error kvs _) as [e|] eqn:E; [|reflexivity].
  rewrite kv_key_tail by (apply Hok; eapply nth_error_In; exact E). reflexivity.
Qed.
Lemma h_get_tail hb tail hcap kvs key : Forall (kv_ok hb) kvs ->
  h_get (mkH (hb ++ tail) hcap kvs) key = h_get (mkH hb hcap kvs) key.
Proof.
  intros Hok. unfold h_get. rewrite h_find_tail by exact Hok. cbn [h_buf h_kv].
  destruct (h_find (mkH hb hcap kvs) key) as [i|]; [|reflexivity].
  destruct (nth_error kvs (Z.to_nat i)) as [e|] eqn:E; [|reflexivity].
  rewrite Forall_forall in Hok. apply kv_val_tail. apply Hok. eapply nth_error_In. exact E.
Qed.

(* every entry produced by parse_loop lies inside the buffer *)
Lemma parse_loop_kv_ok : forall fuel hb hcap ptr kvs kvs',
  zlen hb < 65536 -> 0 <= ptr <= zlen hb -> Forall (kv_ok hb) kvs ->
  parse_loop fuel hb hcap ptr kvs = Some (Some kvs') -> Forall (kv_ok hb) kvs'.
Proof.
  induction fuel as [|f IH]; intros hb hcap ptr kvs kvs' Hb Hp Hin H; [discriminate|].
  cbn [parse_loop] in H.
  destruct (zlen hb <=? ptr); [inversion H; subst; exact Hin|].
  destruct (nth (Z.to_nat ptr) hb 0 =? B_cr); [inversion H; subst; exact Hin|].
  pose proof (P_extract_until_bounds hb ptr B_colon Hp Hb) as H1.
  destruct (P_extract_until hb ptr B_colon) as [[ko kl] p1]. destruct H1 as (Hp1 & Hko & Hkl & Hkr).
  pose proof (P_skip_chars_bounds hb p1 B_sp true ltac:(lia)) as Hp2.
  set (p2 := P_skip_chars hb p1 B_sp true) in *.
  pose proof (P_extract_until_bounds hb p2 B_cr ltac:(lia) Hb) as H3.
  destruct (P_extract_until hb p2 B_cr) as [[vo vl] p3]. destruct H3 as (Hp3 & Hvo & Hvl & Hvr).
  pose proof (P_skip_chars_bounds hb p3 B_lf false ltac:(lia)) as Hp4.
  cbn [fst snd] in H.
  destruct (hcap - 8 * (zlen kvs + 1) <=? zlen hb); [discriminate|].
  apply (IH hb hcap (P_skip_chars hb p3 B_lf false) ((ko, kl, vo, vl) :: kvs) kvs' Hb ltac:(lia)) in H; [exact H|].
  constructor; [|exact Hin]. unfold kv_ok. cbn. lia.
Qed.

(* ---------------------------------------------------------------- assembly ---- *)
Definition set_rx (m : msg) (x : bytes) : msg :=
  mkMsg (m_is_req m) (m_cap m) (m_fill m) x (m_status m) (m_verb m) (m_target m) (m_version m)
        (m_stmsg m) (m_code m) (m_body m) (m_hoff m) (m_hdrs m) (m_abandon m).

Lemma parse_start_line_rx m x b :
  parse_start_line (set_rx m x) b = let '(r, c, m1) := parse_start_line m b in (r, c, set_rx m1 x).
Proof.
  unfold parse_start_line, set_rx. cbn [m_is_req m_cap m_fill m_rx m_status m_verb m_target m_version m_stmsg m_code m_body m_hoff m_hdrs m_abandon].
  destruct (m_is_req m).
  - destruct (P_extract_until b 0 B_sp) as [vs p1].
    destruct (string_to_verb _ =? 0); [reflexivity|].
    destruct (P_extract_until b p1 B_sp) as [tg p2]. destruct (P_extract_until b _ B_cr) as [ver p4].
    destruct (6 <=? snd ver); reflexivity.
  - destruct (P_extract_until b _ B_sp) as [ver p2].
    destruct (6 <=? snd ver); [reflexivity|].
    destruct (P_extract_integer b p2) as [code p3].
    destruct ((code <=? 0) || (1000 <=? code)); [reflexivity|].
    destruct (P_extract_until b _ B_cr) as [sm p5]. reflexivity.
Qed.

Definition head_ok (m : msg) (head : bytes) (ext : Z) : bool :=
  start_ok (m_is_req m) head &&
  (let '(r, cur, m1) := parse_start_line m head in
   (0 <=? r) && (0 <=? cur) && (cur <=? zlen head) &&
   (let ver := m_version m1 in (0 <=? fst ver) && (0 <=? snd ver) && (fst ver + snd ver <=? zlen head)) &&
   loop_ok (S (Z.to_nat (u16 (m_cap m - cur) / 8 + 1))) (zdrop cur head) (u16 (m_cap m - cur)) ext 0 0) &&
  match find_term head with Some _ => true | None => false end.

Lemma kv_ok_in_range hb e : kv_ok hb e -> kv_in_range hb e = true.
Proof. intros (_ & _ & A & _ & _ & B). unfold kv_in_range. apply andb_true_intro. split; apply Z.leb_le; assumption. Qed.
Lemma kv_ok_app hb tail e : kv_ok hb e -> kv_ok (hb ++ tail) e.
Proof. intros (A & B & C & D & E & F). unfold kv_ok. rewrite zlen_app. pose proof (zlen_nonneg tail). lia. Qed.

(* parse_fragmentation_independent: when every scan of the parser ends inside `head`
   (head_ok, executable; it holds for every well-formed head with room for its index), the
   observable parse result on head ++ tail is the one on head alone, for EVERY tail of at most
   `ext` bytes: start line fields, header/body boundary, sorted header index, m_abandon. *)
Lemma parse_tail_independent_proof : forall (m : msg) (head tail : bytes) (ext : Z),
  head_ok m head ext = true -> zlen tail <= ext ->
  zlen (head ++ tail) < m_cap m -> m_cap m < 65536 ->
  parse_obs (parse_whole m (head ++ tail)) = parse_obs (parse_whole m head).
Proof.
  intros m head tail ext Hok Ht Hcap Hc64. pose proof (zlen_nonneg tail) as Ht0. pose proof (zlen_nonneg head) as Hh0.
  rewrite zlen_app in Hcap.
  unfold head_ok in Hok. apply andb_prop in Hok. destruct Hok as [Hok Hterm].
  apply andb_prop in Hok. destruct Hok as [Hstart Hok].
  destruct (find_term head) as [k|] eqn:Hk; [|discriminate].
  unfold parse_whole. rewrite zlen_app.
  destruct (Z.leb_spec (m_cap m) (zlen head + zlen tail)); [lia|].
  destruct (Z.leb_spec (m_cap m) (zlen head)); [lia|].
  rewrite (find_term_app head tail k Hk), Hk.
  change (mkMsg (m_is_req m) (m_cap m) (m_fill m) (head ++ tail) (m_status m) (m_verb m) (m_target m) (m_version m)
                (m_stmsg m) (m_code m) (m_body m) (m_hoff m) (m_hdrs m) (m_abandon m)) with (set_rx m (head ++ tail)).
  change (mkMsg (m_is_req m) (m_cap m) (m_fill m) head (m_status m) (m_verb m) (m_target m) (m_version m)
                (m_stmsg m) (m_code m) (m_body m) (m_hoff m) (m_hdrs m) (m_abandon m)) with (set_rx m head).
  rewrite !parse_start_line_rx. rewrite (start_tail m head tail Hstart ltac:(lia)).
  destruct (parse_start_line m head) as [[r cur] m1].
  apply andb_prop in Hok. destruct Hok as [Hok Hloop]. apply andb_prop in Hok. destruct Hok as [Hok Hver].
  apply andb_prop in Hok. destruct Hok as [Hok Hcur2]. apply andb_prop in Hok. destruct Hok as [Hr Hcur1].
  apply Z.leb_le in Hr. apply Z.leb_le in Hcur1. apply Z.leb_le in Hcur2.
  apply andb_prop in Hver. destruct Hver as [Hver Hv3]. apply andb_prop in Hver. destruct Hver as [Hv1 Hv2].
  apply Z.leb_le in Hv1. apply Z.leb_le in Hv2. apply Z.leb_le in Hv3.
  cbn [set_rx m_is_req m_cap m_fill m_rx m_status m_verb m_target m_version m_stmsg m_code m_body m_hoff m_hdrs m_abandon].
  destruct (Z.ltb_spec r 0); [lia|].
  rewrite zdrop_app_le by lia.
  set (hbA := zdrop cur head) in *. set (hcap := u16 (m_cap m - cur)) in *.
  assert (HlA : zlen hbA = zlen head - cur) by (unfold hbA; apply zlen_zdrop; lia).
  (* the loop needs a non-empty buffer *)
  assert (Hne : 0 < zlen hbA).
  { cbn [loop_ok] in Hloop. apply andb_prop in Hloop. destruct Hloop as [Hl _]. apply andb_prop in Hl. destruct Hl as [_ Hl].
    apply Z.ltb_lt in Hl. exact Hl. }
  unfold h_reset_parse. rewrite zlen_app.
  destruct (Z.eqb_spec (zlen hbA + zlen tail) 0); [lia|]. destruct (Z.eqb_spec (zlen hbA) 0); [lia|].
  rewrite (loop_tail _ hbA tail hcap ext 0 [] Hloop Ht).
  destruct (parse_loop (S (Z.to_nat (hcap / 8 + 1))) hbA hcap 0 []) as [[kvs|]|] eqn:EL; [| reflexivity | reflexivity].
  assert (Hkv : Forall (kv_ok hbA) kvs).
  { apply (parse_loop_kv_ok _ hbA hcap 0 [] kvs ltac:(lia) ltac:(lia) ltac:(constructor) EL). }
  assert (Hr1 : forallb (kv_in_range hbA) kvs = true).
  { apply forallb_forall. intros e He. apply kv_ok_in_range. rewrite Forall_forall in Hkv. apply Hkv. exact He. }
  assert (Hr2 : forallb (kv_in_range (hbA ++ tail)) kvs = true).
  { apply forallb_forall. intros e He. apply kv_ok_in_range. apply kv_ok_app. rewrite Forall_forall in Hkv. apply Hkv. exact He. }
  rewrite Hr1, Hr2.
  assert (Hsort : insertion_sort (h_less (hbA ++ tail)) kvs = insertion_sort (h_less hbA) kvs).
  { apply insertion_sort_ext. intros x y Hx Hy. unfold h_less. rewrite Forall_forall in Hkv.
    rewrite !kv_key_tail by (apply Hkv; assumption). reflexivity. }
  rewrite Hsort. set (sorted := insertion_sort (h_less hbA) kvs).
  assert (Hks : Forall (kv_ok hbA) sorted).
  { rewrite Forall_forall in *. intros e He. apply Hkv. apply (insertion_sort_in _ _ _ He). }
  rewrite !(h_get_tail hbA tail hcap sorted) by exact Hks.
  unfold slice_checked. rewrite zlen_app.
  destruct (Z.ltb_spec (zlen head + zlen tail) (fst (m_version m1) + snd (m_version m1))); [lia|].
  destruct (Z.ltb_spec (zlen head) (fst (m_version m1) + snd (m_version m1))); [lia|].
  rewrite slice_app by lia. reflexivity.
Qed.

(* two different tails (= two fragmentations that delivered different amounts behind the head) *)
Lemma parse_two_tails_proof : forall (m : msg) (head tail1 tail2 : bytes) (ext : Z),
  head_ok m head ext = true -> zlen tail1 <= ext -> zlen tail2 <= ext ->
  zlen (head ++ tail1) < m_cap m -> zlen (head ++ tail2) < m_cap m -> m_cap m < 65536 ->
  parse_obs (parse_whole m (head ++ tail1)) = parse_obs (parse_whole m (head ++ tail2)).
Proof.
  intros m head t1 t2 ext Hok H1 H2 Hc1 Hc2 Hc.
  rewrite (parse_tail_independent_proof m head t1 ext Hok H1 Hc1 Hc).
  rewrite (parse_tail_independent_proof m head t2 ext Hok H2 Hc2 Hc). reflexivity.
Qed.

(* the hypothesis is met by an ordinary request head, with room for 4096 more bytes *)
Example head_ok_example : head_ok (msg_init true 16384 170 0) ex_head 4096 = true.
Proof. vm_compute. reflexivity. Qed.
