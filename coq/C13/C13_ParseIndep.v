(* C13_ParseIndep.v — the header-end / partial-body boundary found by receive_header is the
   same for EVERY fragmentation of the same byte string (item "same header-end/partial-body
   boundary" of parse_fragmentation_independent), for arbitrary (also malformed) bytes. *)
From Coq Require Import ZArith List Bool Lia.
From PV Require Import Base.U64 C13.C13_Model C13.C13_Msg C13.C13_Proofs C13.C13_MsgProofs
     C13.C13_ChunkSafe C13.C13_ChunkDecode C13.C13_ChunkTotal C13.C13_ParseSafe.
Import ListNotations.
Local Open Scope Z_scope.

Lemma starts_with_len s p : starts_with s p = true -> zlen p <= zlen s.
Proof.
  revert s. induction p as [|y p IH]; intros s H; [cbn; apply zlen_nonneg|].
  destruct s as [|x s]; [discriminate|]. cbn [starts_with] in H. apply andb_prop in H. destruct H as [_ H].
  rewrite !zlen_cons. specialize (IH s H). lia.
Qed.

Lemma find_term_bound s : forall k, find_term s = Some k -> 0 <= k /\ k + 4 <= zlen s.
Proof.
  induction s as [|x t IH]; intros k H; [discriminate|]. rewrite find_term_cons in H.
  destruct (starts_with (x :: t) TERM) eqn:Hs.
  - inversion H; subst. apply starts_with_len in Hs. change (zlen TERM) with 4 in Hs. lia.
  - destruct (find_term t) as [j|]; [|discriminate]. inversion H; subst. specialize (IH j eq_refl).
    rewrite zlen_cons. lia.
Qed.

Lemma find_term_app a b : forall k, find_term a = Some k -> find_term (a ++ b) = Some k.
Proof.
  induction a as [|x t IH]; intros k H; [discriminate|].
  rewrite find_term_cons in H. change ((x :: t) ++ b) with (x :: (t ++ b)). rewrite find_term_cons.
  destruct (starts_with (x :: t) TERM) eqn:Hs.
  - pose proof (starts_with_len _ _ Hs) as Hl.
    change (x :: t ++ b) with ((x :: t) ++ b). rewrite starts_with_app_long, Hs by exact Hl. exact H.
  - destruct (find_term t) as [j|] eqn:Hj; [|discriminate].
    destruct (find_term_bound _ _ Hj) as (Hj0 & Hl).
    change (x :: t ++ b) with ((x :: t) ++ b).
    rewrite starts_with_app_long by (rewrite zlen_cons; change (zlen TERM) with 4; lia).
    rewrite Hs, (IH j eq_refl). exact H.
Qed.

(* a terminator that lies inside the prefix is found in the prefix *)
Lemma find_term_prefix a : forall b k, find_term (a ++ b) = Some k -> k + 4 <= zlen a -> find_term a = Some k.
Proof.
  induction a as [|x t IH]; intros b k H Hk.
  - destruct (find_term_bound _ _ H). change (zlen (@nil Z)) with 0 in Hk. lia.
  - change ((x :: t) ++ b) with (x :: (t ++ b)) in H. rewrite find_term_cons in H. rewrite find_term_cons.
    rewrite zlen_cons in Hk.
    destruct (starts_with (x :: t ++ b) TERM) eqn:Hs.
    + inversion H; subst k. change (x :: t ++ b) with ((x :: t) ++ b) in Hs.
      rewrite starts_with_app_long in Hs by (rewrite zlen_cons; change (zlen TERM) with 4; lia). rewrite Hs. reflexivity.
    + destruct (find_term (t ++ b)) as [j|] eqn:Hj; [|discriminate]. inversion H; subst k.
      rewrite (IH b j Hj) by lia.
      destruct (starts_with (x :: t) TERM) eqn:Hs2; [|reflexivity].
      change (x :: t ++ b) with ((x :: t) ++ b) in Hs.
      rewrite starts_with_app_long, Hs2 in Hs by (apply starts_with_len; exact Hs2). discriminate.
Qed.

Lemma sk_recv_data ps : forall err count,
  0 < count -> 0 < total_len ps ->
  exists r bs ps', sk_recv ps err count = (r, bs, ps')
    /\ 1 <= r <= count /\ bs = ztake r (concat ps) /\ zlen bs = r /\ concat ps' = zdrop r (concat ps).
Proof.
  induction ps as [|p rest IH]; intros err count Hc Ht.
  - unfold total_len in Ht. cbn in Ht. lia.
  - cbn [sk_recv]. destruct p as [|x p'].
    + change (total_len ([] :: rest)) with (total_len rest) in Ht.
      destruct (IH err count Hc Ht) as (r & bs & ps' & E & H). exists r, bs, ps'. split; [exact E|exact H].
    + set (p := x :: p') in *. assert (Hp : 1 <= zlen p) by (unfold p; rewrite zlen_cons; pose proof (zlen_nonneg p'); lia).
      cbn [concat]. destruct (Z.ltb_spec (Z.min count (zlen p)) (zlen p)) as [Hlt|Hge].
      * exists (Z.min count (zlen p)), (ztake (Z.min count (zlen p)) p), (zdrop (Z.min count (zlen p)) p :: rest).
        split; [reflexivity|]. splits; try lia.
        -- rewrite ztake_app_le by lia. reflexivity.
        -- rewrite zlen_ztake; lia.
        -- cbn [concat]. rewrite zdrop_app_le by lia. reflexivity.
      * exists (Z.min count (zlen p)), p, rest. split; [reflexivity|].
        assert (Hm : Z.min count (zlen p) = zlen p) by lia. rewrite Hm. splits; try lia.
        -- rewrite ztake_app_le, ztake_all by lia. reflexivity.
        -- rewrite zdrop_app_le, zdrop_all by lia. reflexivity.
Qed.

(* whenever parse_whole sees a terminator at k it records the boundary k + 4 *)
Lemma parse_whole_boundary m rx k : find_term rx = Some k -> zlen rx < m_cap m -> 0 < m_cap m < 65536 ->
  exists ret m', parse_whole m rx = Some (ret, m') /\ ret <> 2 /\ fst (m_body m') = u16 (k + 4).
Proof.
  intros Hf Hcap Hc. unfold parse_whole. destruct (Z.leb_spec (m_cap m) (zlen rx)); [lia|]. rewrite Hf.
  match goal with |- context [parse_start_line ?a ?b] => pose proof (parse_start_line_cap a b) as Hc1;
     destruct (parse_start_line a b) as [[r cur] m1] end.
  destruct (Z.ltb_spec r 0); [do 2 eexists; split; [reflexivity|]; split; [lia|reflexivity]|].
  assert (Hhb : zlen (zdrop cur rx) < 65536) by (unfold zdrop, zlen in *; rewrite skipn_length; lia).
  pose proof (h_reset_parse_safe (zdrop cur rx) (u16 (m_cap m - cur)) Hhb ltac:(unfold u16; apply Z.mod_pos_bound; lia)) as Hsafe.
  destruct (h_reset_parse (zdrop cur rx) (u16 (m_cap m - cur))) as [[h|]|]; [| |contradiction].
  - do 2 eexists. split; [reflexivity|]. split; [lia|reflexivity].
  - do 2 eexists. split; [reflexivity|]. split; [lia|reflexivity].
Qed.

(* header_boundary_fragmentation_independent: for EVERY byte string containing a header
   terminator (first at k), EVERY fragmentation `ps` of it and every error flag, provided the
   buffer has room (capacity > k + 3 + 4096 + 5120): receive_header finds the boundary k + 4,
   i.e. the partial body starts at the same offset however the bytes were split. *)
Lemma header_boundary_proof : forall fuel m ps err k,
  m_status m = INIT -> 0 < m_cap m < 65536 ->
  find_term (m_rx m) = None -> find_term (m_rx m ++ concat ps) = Some k ->
  k + 3 + MAX_TRANSFER_BYTES + (MAX_TRANSFER_BYTES + RESERVED_INDEX_SIZE) < m_cap m ->
  total_len ps + 1 < Z.of_nat fuel ->
  exists ret m' ps', receive_header fuel m ps err = Some (ret, m', ps')
    /\ ret <> 2 /\ fst (m_body m') = u16 (k + 4).
Proof.
  induction fuel as [|f IH]; intros m ps err k Hst Hcap Hnone Hk Hroom Hfuel.
  { pose proof (total_len_nonneg ps). lia. }
  pose proof (find_term_bound _ _ Hk) as (Hk0 & Hk4). rewrite zlen_app in Hk4. fold (total_len ps) in Hk4.
  assert (Hrx : zlen (m_rx m) < k + 4).
  { destruct (Z.lt_ge_cases (zlen (m_rx m)) (k + 4)); [assumption|].
    rewrite (find_term_prefix _ _ _ Hk) in Hnone by lia. discriminate. }
  cbn [receive_header]. unfold MAX_TRANSFER_BYTES, RESERVED_INDEX_SIZE in *.
  destruct (Z.leb_spec (m_cap m - zlen (m_rx m)) (4096 + 1024)); [lia|].
  destruct (sk_recv_data ps err 4096 ltac:(lia) ltac:(lia)) as (rc & bs & ps' & E & Hrc & Hbs & Hbl & Hps').
  rewrite E. destruct (Z.ltb_spec rc 0); [lia|]. rewrite Hst. change (INIT =? INIT) with true. cbn [andb].
  destruct (Z.eqb_spec rc 0); [lia|].
  rewrite (append_bytes_split_independent_proof m bs ltac:(rewrite Hst; discriminate) ltac:(lia) Hnone).
  assert (Hall : (m_rx m ++ bs) ++ concat ps' = m_rx m ++ concat ps).
  { rewrite <- app_assoc, Hps', Hbs, ztake_zdrop_id. reflexivity. }
  destruct (find_term (m_rx m ++ bs)) as [k'|] eqn:Hf.
  - (* the terminator is visible now *)
    assert (k' = k).
    { pose proof (find_term_app _ (concat ps') _ Hf) as H1. rewrite Hall, Hk in H1. inversion H1. reflexivity. }
    subst k'.
    destruct (parse_whole_boundary m (m_rx m ++ bs) k Hf ltac:(rewrite zlen_app; lia) Hcap) as (ret & m' & E' & Hne & Hb).
    rewrite E'. rewrite andb_false_r. destruct (Z.eqb_spec ret 2); [contradiction|].
    exists ret, m', ps'. split; [reflexivity|]. split; assumption.
  - (* not yet: append_bytes returned 2 *)
    unfold parse_whole. destruct (Z.leb_spec (m_cap m) (zlen (m_rx m ++ bs))); [rewrite zlen_app in *; lia|].
    rewrite Hf. rewrite andb_false_r. change (2 =? 2) with true. cbv iota.
    set (m0 := mkMsg _ _ _ (m_rx m ++ bs) _ _ _ _ _ _ _ _ _ _).
    destruct (IH m0 ps' err k Hst Hcap Hf ltac:(cbn [m0 m_rx]; rewrite Hall; exact Hk) Hroom) as (ret & m' & ps'' & E' & H').
    { assert (Hle : rc <= total_len ps).
      { rewrite <- Hbl at 1. rewrite Hbs. unfold ztake, total_len. unfold zlen at 1. rewrite firstn_length. unfold zlen. lia. }
      assert (total_len ps' = total_len ps - rc) by (unfold total_len; rewrite Hps', zlen_zdrop; unfold total_len in *; lia). lia. }
    exists ret, m', ps''. split; [exact E'|exact H'].
Qed.

(* two fragmentations of the same bytes: same boundary *)
Lemma header_boundary_two_fragmentations_proof :
  forall (is_req : bool) (cap fill verb : Z) (bytes : bytes) (ps1 ps2 : pieces) (err1 err2 : bool) (k : Z),
    concat ps1 = bytes -> concat ps2 = bytes -> find_term bytes = Some k ->
    0 < cap < 65536 -> k + 3 + MAX_TRANSFER_BYTES + (MAX_TRANSFER_BYTES + RESERVED_INDEX_SIZE) < cap ->
    exists r1 m1 q1 r2 m2 q2,
      receive_header (rh_fuel ps1) (msg_init is_req cap fill verb) ps1 err1 = Some (r1, m1, q1) /\
      receive_header (rh_fuel ps2) (msg_init is_req cap fill verb) ps2 err2 = Some (r2, m2, q2) /\
      fst (m_body m1) = fst (m_body m2) /\ fst (m_body m1) = u16 (k + 4) /\ r1 <> 2 /\ r2 <> 2.
Proof.
  intros is_req cap fill verb bytes ps1 ps2 err1 err2 k H1 H2 Hk Hcap Hroom.
  destruct (header_boundary_proof (rh_fuel ps1) (msg_init is_req cap fill verb) ps1 err1 k eq_refl Hcap eq_refl
              ltac:(cbn [msg_init m_rx app]; rewrite H1; exact Hk) Hroom ltac:(unfold rh_fuel, total_len, zlen; lia))
    as (r1 & m1 & q1 & E1 & Hn1 & Hb1).
  destruct (header_boundary_proof (rh_fuel ps2) (msg_init is_req cap fill verb) ps2 err2 k eq_refl Hcap eq_refl
              ltac:(cbn [msg_init m_rx app]; rewrite H2; exact Hk) Hroom ltac:(unfold rh_fuel, total_len, zlen; lia))
    as (r2 & m2 & q2 & E2 & Hn2 & Hb2).
  exists r1, m1, q1, r2, m2, q2. splits; auto. congruence.
Qed.
