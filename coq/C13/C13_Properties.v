From Coq Require Import ZArith List Bool.
From PV Require Import Base.U64 C13.C13_Model C13.C13_Msg C13.C13_Proofs C13.C13_MsgProofs C13.C13_Statements C13.C13_ChunkSafe C13.C13_ChunkDecode C13.C13_Roundtrip C13.C13_ChunkTotal C13.C13_ParseSafe C13.C13_ParseIndep C13.C13_ParseTail.
Import ListNotations.
Local Open Scope Z_scope.

Theorem body_length_exact :
  forall (partial : bytes) (ps : pieces) (err : bool) (n : Z) (counts : list Z),
    0 <= n < MAX64 -> n <= zlen (partial ++ concat ps) ->
    Forall (fun c => 0 <= c) counts ->
    let body := ztake n (partial ++ concat ps) in
    let '(l, s') := brs_run (brs_init partial n ps err) counts in
    outs l = ztake (zsum counts) body
    /\ Forall2 (fun r o => r = zlen o) (rets l) (map snd l)
    /\ brs_data s' = zdrop (Z.min (zsum counts) n) (partial ++ concat ps)
    /\ (n <= zsum counts -> forall c, 0 <= c -> exists s'', brs_read s' c = (0, [], s'')).
Proof. exact body_length_exact_proof. Qed.
Print Assumptions body_length_exact.

Theorem body_close_delimited_exact :
  forall (partial : bytes) (ps : pieces) (counts : list Z),
    Forall (fun c => 0 <= c) counts ->
    let all := partial ++ concat ps in
    let '(l, s') := brs_run (brs_init partial MAX64 ps false) counts in
    outs l = ztake (zsum counts) all
    /\ Forall2 (fun r o => r = zlen o) (rets l) (map snd l)
    /\ (zlen all <= zsum counts -> forall c, 0 <= c -> exists s'', brs_read s' c = (0, [], s'')).
Proof. exact body_close_delimited_exact_proof. Qed.
Print Assumptions body_close_delimited_exact.

Theorem chunked_writer_wire : forall (ws : list bytes) (s : cws),
  cw_finish s = false ->
  zlen (chunks_wire ws) + 5 <= w_budget (cw_sock s) ->
  let '(l, s1) := cws_run s ws in
  let '(r, s2) := cws_close s1 in
  l = map zlen ws /\ r = 0 /\ cw_finish s2 = true
  /\ w_out (cw_sock s2) = w_out (cw_sock s) ++ chunks_wire ws ++ [48; 13; 10; 13; 10].
Proof. exact chunked_writer_wire_proof. Qed.
Print Assumptions chunked_writer_wire.

Theorem terminator_search_window : forall (old bs : bytes),
  find_term old = None ->
  let left := Z.max (zlen old - 3) 0 in
  find_term (zdrop left (old ++ bs)) =
  match find_term (old ++ bs) with Some k => Some (k - left) | None => None end.
Proof. exact terminator_search_window_proof. Qed.
Print Assumptions terminator_search_window.

Theorem append_bytes_split_independent : forall (m : msg) (bs : bytes),
  m_status m <> HEADER_PARSED -> zlen bs < 65536 ->
  find_term (m_rx m) = None ->
  append_bytes m bs = parse_whole m (m_rx m ++ bs).
Proof. exact append_bytes_split_independent_proof. Qed.
Print Assumptions append_bytes_split_independent.

Theorem parse_step_fragmentation_independent : forall (m1 m2 : msg) (bs1 bs2 : bytes),
  m_status m1 <> HEADER_PARSED -> zlen bs1 < 65536 -> zlen bs2 < 65536 ->
  find_term (m_rx m1) = None -> find_term (m_rx m2) = None ->
  m_rx m1 ++ bs1 = m_rx m2 ++ bs2 ->
  m2 = mkMsg (m_is_req m1) (m_cap m1) (m_fill m1) (m_rx m2) (m_status m1) (m_verb m1) (m_target m1)
             (m_version m1) (m_stmsg m1) (m_code m1) (m_body m1) (m_hoff m1) (m_hdrs m1) (m_abandon m1) ->
  match append_bytes m1 bs1, append_bytes m2 bs2 with
  | Some (r1, a), Some (r2, b) =>
      r1 = r2 /\ (r1 <> -1 \/ m_cap m1 > zlen (m_rx m1 ++ bs1) -> a = b)
  | None, None => True
  | _, _ => False
  end.
Proof. exact append_bytes_two_splits_proof. Qed.
Print Assumptions parse_step_fragmentation_independent.

Theorem header_parse_stale_byte_prefix_refuted :
  exists (hb : bytes) (b1 b2 : Z),
    (exists kvs, parse_loop_prefix 100 hb 100 (Some b1) 0 [] = Some (Some kvs)) /\
    parse_loop_prefix 100 hb 100 (Some b2) 0 [] = Some None.
Proof. exact header_parse_stale_byte_prefix_refuted_proof. Qed.
Print Assumptions header_parse_stale_byte_prefix_refuted.

Theorem header_compare_cyclic_prefix_refuted :
  exists a b c : bytes,
    icmp_with lower8_prefix a b = -1 /\ icmp_with lower8_prefix b c = -1 /\ icmp_with lower8_prefix c a = -1.
Proof. exact header_compare_cyclic_prefix_refuted_proof. Qed.
Print Assumptions header_compare_cyclic_prefix_refuted.

Theorem parse_fragmentation_dependent_malformed_refuted :
  exists (bytes : bytes) (ps1 ps2 : pieces),
    concat ps1 = bytes /\ concat ps2 = bytes /\
    ret_of (receive_header 10 (msg_init true 16384 0 0) ps1 false) = 0 /\
    ret_of (receive_header 10 (msg_init true 16384 0 0) ps2 false) = 0 /\
    nkv_of (receive_header 10 (msg_init true 16384 0 0) ps1 false) = 0 /\
    nkv_of (receive_header 10 (msg_init true 16384 0 0) ps2 false) = 1.
Proof. exact parse_fragmentation_dependent_malformed_refuted_proof. Qed.
Print Assumptions parse_fragmentation_dependent_malformed_refuted.

Theorem chunked_read_within_count : forall fuel s count r o s',
  crs_read_f fuel s count = Some (r, o, s') -> 0 <= c_remain s -> 0 <= count ->
  0 <= c_remain s' /\ (r < 0 \/ (zlen o = r /\ 0 <= r <= count)).
Proof. exact chunked_read_within_count_proof. Qed.
Print Assumptions chunked_read_within_count.

Theorem chunked_decode_spec :
  forall (wire payload partial : bytes) (ps : pieces) (counts : list Z),
    valid_chunked wire payload -> partial ++ concat ps = wire -> zlen partial <= LINE_BUFFER_SIZE ->
    Forall (fun c => 0 <= c) counts ->
    exists l s', crs_run (crs_init LINE_BUFFER_SIZE partial ps false) counts = Some (l, s')
      /\ outs l = ztake (zsum counts) payload
      /\ Forall2 (fun r o => r = zlen o) (rets l) (map snd l)
      /\ (zlen payload < zsum counts ->
          c_finish s' = true /\ forall c, crs_read s' c = Some (0, [], s')).
Proof. exact chunked_decode_spec_proof. Qed.
Print Assumptions chunked_decode_spec.

Theorem chunked_roundtrip :
  forall (ws : list bytes) (s0 : cws) (partial : bytes) (ps : pieces) (counts : list Z),
    Forall (fun w => w <> [] /\ zlen w < W64) ws ->
    cw_finish s0 = false -> w_out (cw_sock s0) = [] ->
    zlen (chunks_wire ws) + 5 <= w_budget (cw_sock s0) ->
    let '(_, s1) := cws_run s0 ws in
    let '(_, s2) := cws_close s1 in
    partial ++ concat ps = w_out (cw_sock s2) -> zlen partial <= LINE_BUFFER_SIZE ->
    Forall (fun c => 0 <= c) counts ->
    exists l s', crs_run (crs_init LINE_BUFFER_SIZE partial ps false) counts = Some (l, s')
      /\ outs l = ztake (zsum counts) (concat ws)
      /\ Forall2 (fun r o => r = zlen o) (rets l) (map snd l)
      /\ (zlen (concat ws) < zsum counts ->
          c_finish s' = true /\ forall c, crs_read s' c = Some (0, [], s')).
Proof. exact chunked_roundtrip_proof. Qed.
Print Assumptions chunked_roundtrip.

Theorem chunked_malformed_safe :
  forall (cap : Z) (partial : bytes) (ps : pieces) (err : bool) (counts : list Z),
    LINE_BUFFER_SIZE <= cap -> zlen partial <= LINE_BUFFER_SIZE ->
    Forall (fun c => 0 <= c) counts ->
    crs_run (crs_init cap partial ps err) counts <> None.
Proof. exact chunked_malformed_safe_proof. Qed.
Print Assumptions chunked_malformed_safe.

Theorem parse_malformed_safe :
  forall (is_req : bool) (cap fill verb : Z) (ps : pieces) (err : bool),
    0 < cap < 65536 ->
    receive_header (rh_fuel ps) (msg_init is_req cap fill verb) ps err <> None.
Proof. exact parse_malformed_safe_proof. Qed.
Print Assumptions parse_malformed_safe.

Theorem header_boundary_fragmentation_independent :
  forall (is_req : bool) (cap fill verb : Z) (bytes : bytes) (ps1 ps2 : pieces) (err1 err2 : bool) (k : Z),
    concat ps1 = bytes -> concat ps2 = bytes -> find_term bytes = Some k ->
    0 < cap < 65536 -> k + 3 + MAX_TRANSFER_BYTES + (MAX_TRANSFER_BYTES + RESERVED_INDEX_SIZE) < cap ->
    exists r1 m1 q1 r2 m2 q2,
      receive_header (rh_fuel ps1) (msg_init is_req cap fill verb) ps1 err1 = Some (r1, m1, q1) /\
      receive_header (rh_fuel ps2) (msg_init is_req cap fill verb) ps2 err2 = Some (r2, m2, q2) /\
      fst (m_body m1) = fst (m_body m2) /\ fst (m_body m1) = u16 (k + 4) /\ r1 <> 2 /\ r2 <> 2.
Proof. exact header_boundary_two_fragmentations_proof. Qed.
Print Assumptions header_boundary_fragmentation_independent.

Theorem start_line_tail_independent : forall (m : msg) (a b : bytes),
  start_ok (m_is_req m) a = true -> zlen a < 65536 ->
  parse_start_line m (a ++ b) = parse_start_line m a.
Proof. exact start_tail. Qed.
Print Assumptions start_line_tail_independent.

Theorem header_lines_tail_independent : forall fuel a b hcap ext ptr kvs,
  loop_ok fuel a hcap ext ptr (zlen kvs) = true -> zlen b <= ext ->
  parse_loop fuel (a ++ b) hcap ptr kvs = parse_loop fuel a hcap ptr kvs.
Proof. exact loop_tail. Qed.
Print Assumptions header_lines_tail_independent.

Theorem parse_fragmentation_independent : forall (m : msg) (head tail1 tail2 : bytes) (ext : Z),
  head_ok m head ext = true -> zlen tail1 <= ext -> zlen tail2 <= ext ->
  zlen (head ++ tail1) < m_cap m -> zlen (head ++ tail2) < m_cap m -> m_cap m < 65536 ->
  parse_obs (parse_whole m (head ++ tail1)) = parse_obs (parse_whole m (head ++ tail2)).
Proof. exact parse_two_tails_proof. Qed.
Print Assumptions parse_fragmentation_independent.
