From Coq Require Import ZArith List.
From PV Require Import Base.U64 C13.C13_Model C13.C13_Msg C13.C13_Proofs.
Theorem c13_placeholder : True. Proof. exact placeholder. Qed.
Print Assumptions c13_placeholder.
