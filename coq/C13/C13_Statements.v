(* C13_Statements.v — full-strength statements that are NOT proved yet (kept as
   `Definition … : Prop`, FRAMEWORK rule), with the run functions they talk about.
   The correspondence check (model == implementation on every generated case) plus the
   python reference oracle carry these cases meanwhile. *)
From Coq Require Import ZArith List Bool Lia.
From PV Require Import Base.U64 C13.C13_Model C13.C13_Msg C13.C13_Proofs C13.C13_MsgProofs C13.C13_ChunkSafe C13.C13_ChunkDecode.
Import ListNotations.
Local Open Scope Z_scope.

(* a well-formed message head: start line and header lines without CR, every header line
   has a colon, terminated by an empty line *)
Definition no_cr (l : bytes) : Prop := ~ In 13 l.
Definition wf_head (is_req : bool) (head : bytes) : Prop :=
  exists (start : bytes) (lines : list bytes),
    head = start ++ CRLF ++ concat (map (fun l => l ++ CRLF) lines) ++ CRLF
    /\ no_cr start /\ Forall (fun l => no_cr l /\ In 58 l /\ l <> []) lines
    /\ (if is_req then exists a b c, start = a ++ [32] ++ b ++ [32] ++ c /\ ~ In 32 a /\ ~ In 32 b
        else exists a c, start = a ++ [32] ++ c /\ ~ In 32 a).

(* observable part of a parse result: everything except the receive buffer itself and the
   LENGTH of the partial body (which legitimately depends on the fragmentation) *)
Definition parse_obs (o : option (Z * msg)) :=
  match o with
  | None => None
  | Some (r, m) => Some (r, m_verb m, m_target m, m_version m, m_stmsg m, m_code m, fst (m_body m),
                         m_hoff m, h_kv (m_hdrs m), m_abandon m)
  end.

(* NOT PROVED in this grammatical form (the theorem parse_fragmentation_independent of
   C13_Properties.v proves it for every head accepted by the executable check head_ok; what is
   missing here is only `wf_head -> head_ok`).  By append_bytes_split_independent the
   result of receive_header is parse_whole applied to the prefix of the byte string that
   had arrived when the terminator became visible; for a well-formed head that result does
   not depend on how many bytes behind the terminator are in that prefix.  (For heads that
   are not well formed it does: parse_fragmentation_dependent_malformed_refuted.) *)
Definition parse_fragmentation_independent_grammar : Prop :=
  forall (m : msg) (head tail1 tail2 : bytes),
    wf_head (m_is_req m) head -> m_status m = INIT ->
    zlen (head ++ tail1) < m_cap m -> zlen (head ++ tail2) < m_cap m ->
    parse_obs (parse_whole m (head ++ tail1)) = parse_obs (parse_whole m (head ++ tail2)).
