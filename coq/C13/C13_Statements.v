(* C13_Statements.v — full-strength statements that are NOT proved yet (kept as
   `Definition … : Prop`, FRAMEWORK rule), with the run functions they talk about.
   The correspondence check (model == implementation on every generated case) plus the
   python reference oracle carry these cases meanwhile. *)
From Coq Require Import ZArith List Bool Lia.
From PV Require Import Base.U64 C13.C13_Model C13.C13_Msg C13.C13_Proofs C13.C13_MsgProofs.
Import ListNotations.
Local Open Scope Z_scope.

(* a sequence of reads on the chunked reader; None = out of range / fuel *)
Fixpoint crs_run (s : crs) (counts : list Z) : option (list (Z * bytes) * crs) :=
  match counts with
  | [] => Some ([], s)
  | c :: t => match crs_read s c with
              | None => None
              | Some (r, o, s1) =>
                match crs_run s1 t with
                | None => None
                | Some (l, s2) => Some ((r, o) :: l, s2)
                end
              end
  end.

Definition CRLF : bytes := [13; 10].
(* a chunk-size line as the reader accepts it: leading hex digits (value v), then anything
   (a chunk extension) that contains no CR LF, at most 4096 bytes including its CR LF *)
Definition size_line (line : bytes) (v : Z) : Prop :=
  hex_to_u64 line = v /\ find_crlf (line ++ CRLF) = Some (zlen line) /\ zlen line + 2 <= LINE_BUFFER_SIZE.

(* valid_chunked wire payload: RFC 7230 4.1 without trailers *)
Inductive valid_chunked : bytes -> bytes -> Prop :=
| VC_last line : line <> [] -> size_line line 0 ->
    valid_chunked (line ++ CRLF ++ CRLF) []
| VC_chunk line data rest payload :
    0 < zlen data < W64 -> size_line line (zlen data) -> valid_chunked rest payload ->
    valid_chunked (line ++ CRLF ++ data ++ CRLF ++ rest) (data ++ payload).

(* NOT PROVED.  For every valid chunked encoding (any chunk sizes, multi-KB chunks,
   extensions, hex case), every partial body of at most 4096 bytes, every fragmentation of
   the rest, every sequence of positive read sizes: no out-of-range access, the results
   concatenate to the payload prefix, each has the length it reports, and after the payload
   the stream is finished and keeps returning 0. *)
Definition chunked_decode_spec : Prop :=
  forall (wire payload partial : bytes) (ps : pieces) (counts : list Z),
    valid_chunked wire payload -> partial ++ concat ps = wire -> zlen partial <= LINE_BUFFER_SIZE ->
    Forall (fun c => 0 < c) counts ->
    exists l s', crs_run (crs_init LINE_BUFFER_SIZE partial ps false) counts = Some (l, s')
      /\ outs l = ztake (zsum counts) payload
      /\ Forall2 (fun r o => r = zlen o) (rets l) (map snd l)
      /\ (zlen payload < zsum counts ->
          c_finish s' = true /\ forall c, 0 < c -> crs_read s' c = Some (0, [], s')).

(* NOT PROVED (follows from chunked_decode_spec, chunked_writer_wire and
   hex_to_u64 (to_hex n) = n): writer then reader is the identity for every payload and
   every chunking by the writer into NON-EMPTY writes (a zero-length write() emits the
   terminator "0 CRLF CRLF", see notes: observation O2). *)
Definition chunked_roundtrip : Prop :=
  forall (ws : list bytes) (partial : bytes) (ps : pieces) (counts : list Z),
    Forall (fun w => w <> [] /\ zlen w < W64) ws ->
    partial ++ concat ps = chunks_wire ws ++ [48; 13; 10; 13; 10] -> zlen partial <= LINE_BUFFER_SIZE ->
    Forall (fun c => 0 < c) counts ->
    exists l s', crs_run (crs_init LINE_BUFFER_SIZE partial ps false) counts = Some (l, s')
      /\ outs l = ztake (zsum counts) (concat ws)
      /\ (zlen (concat ws) < zsum counts -> c_finish s' = true).

(* NOT PROVED.  Safety of the chunk reader on arbitrary bytes: with the fuel
   crs_fuel = |line| + |stream| + 2 (linear in the input) the run never reaches an
   out-of-range access, whatever the bytes, the fragmentation, the error flag, the reads. *)
Definition chunked_malformed_safe : Prop :=
  forall (cap : Z) (partial : bytes) (ps : pieces) (err : bool) (counts : list Z),
    LINE_BUFFER_SIZE <= cap -> zlen partial <= LINE_BUFFER_SIZE ->
    Forall (fun c => 0 <= c) counts ->
    crs_run (crs_init cap partial ps err) counts <> None.

(* NOT PROVED.  Safety of the header parser on arbitrary bytes (responses; for requests
   see finding F-C13-1): receive_header never reaches an out-of-range access and needs at
   most |stream| + 2 recv rounds; HeadersBase::parse needs at most capacity/8 + 1 rounds. *)
Definition parse_malformed_safe : Prop :=
  forall (cap fill verb : Z) (ps : pieces) (err : bool),
    0 < cap < 65536 -> 0 <= fill < 256 ->
    receive_header (rh_fuel ps) (msg_init false cap fill verb) ps err <> None.

(* a well-formed message head: start line and header lines without CR, every header line
   has a colon, terminated by an empty line *)
Definition no_cr (l : bytes) : Prop := ~ In 13 l.
Definition wf_head (is_req : bool) (head : bytes) : Prop :=
  exists (start : bytes) (lines : list bytes),
    head = start ++ CRLF ++ concat (map (fun l => l ++ CRLF) lines) ++ CRLF
    /\ no_cr start /\ Forall (fun l => no_cr l /\ In 58 l /\ l <> []) lines
    /\ (if is_req then exists a b c, start = a ++ [32] ++ b ++ [32] ++ c /\ ~ In 32 a /\ ~ In 32 b
        else exists a c, start = a ++ [32] ++ c /\ ~ In 32 a).

(* observable part of a parse result: everything except the receive buffer itself and the
   LENGTH of the partial body (which legitimately depends on the fragmentation) *)
Definition parse_obs (o : option (Z * msg)) :=
  match o with
  | None => None
  | Some (r, m) => Some (r, m_verb m, m_target m, m_version m, m_stmsg m, m_code m, fst (m_body m),
                         m_hoff m, h_kv (m_hdrs m), m_abandon m)
  end.

(* NOT PROVED.  parse_fragmentation_independent: by append_bytes_split_independent the
   result of receive_header is parse_whole applied to the prefix of the byte string that
   had arrived when the terminator became visible; for a well-formed head that result does
   not depend on how many bytes behind the terminator are in that prefix.  (For heads that
   are not well formed it does: parse_fragmentation_dependent_malformed_refuted.) *)
Definition parse_fragmentation_independent : Prop :=
  forall (m : msg) (head tail1 tail2 : bytes),
    wf_head (m_is_req m) head -> m_status m = INIT ->
    zlen (head ++ tail1) < m_cap m -> zlen (head ++ tail2) < m_cap m ->
    parse_obs (parse_whole m (head ++ tail1)) = parse_obs (parse_whole m (head ++ tail2)).
