(* C13_ChunkDecode.v — functional correctness of ChunkedBodyReadStream:
   chunked_decode_spec (every valid encoding, every fragmentation, every read sizes). *)
From Coq Require Import ZArith List Bool Lia.
From PV Require Import Base.U64 C13.C13_Model C13.C13_Proofs C13.C13_ChunkSafe.
Import ListNotations.
Local Open Scope Z_scope.

Definition CRLF : bytes := [13; 10].

(* ------------------------------------------------------------ find_crlf ---- *)
Lemma find_crlf_cons2 c d t :
  find_crlf (c :: d :: t) = if (c =? 13) && (d =? 10) then Some 0
                            else match find_crlf (d :: t) with Some k => Some (k + 1) | None => None end.
Proof. reflexivity. Qed.
Lemma find_crlf_one c : find_crlf [c] = None. Proof. reflexivity. Qed.

Lemma find_crlf_nonneg s : forall k, find_crlf s = Some k -> 0 <= k.
Proof.
  induction s as [|c t IH]; intros k H; [discriminate|].
  destruct t as [|d t']; [discriminate|]. rewrite find_crlf_cons2 in H.
  destruct ((c =? 13) && (d =? 10)); [inversion H; lia|].
  destruct (find_crlf (d :: t')) as [j|]; [|discriminate]. inversion H. specialize (IH j eq_refl). lia.
Qed.

(* the position found in a ++ b is found in a alone iff both bytes are in a *)
Lemma find_crlf_prefix a : forall b k, find_crlf (a ++ b) = Some k ->
  (k + 2 <= zlen a -> find_crlf a = Some k) /\ (zlen a < k + 2 -> find_crlf a = None).
Proof.
  induction a as [|c t IH]; intros b k H.
  - pose proof (find_crlf_nonneg _ _ H). cbn. split; [lia|reflexivity].
  - destruct t as [|d' t'].
    + (* a = [c] *) rewrite zlen_cons, zlen_nil, find_crlf_one. split; [|reflexivity]. intros Hk.
      cbn [app] in H. destruct b as [|d r]; [discriminate|]. rewrite find_crlf_cons2 in H.
      destruct ((c =? 13) && (d =? 10)); [inversion H; lia|].
      destruct (find_crlf (d :: r)) as [j|] eqn:Hj; [|discriminate].
      pose proof (find_crlf_nonneg _ _ Hj). inversion H. lia.
    + change ((c :: d' :: t') ++ b) with (c :: d' :: (t' ++ b)) in H.
      rewrite find_crlf_cons2 in H. rewrite find_crlf_cons2.
      rewrite (zlen_cons c). pose proof (zlen_nonneg (d' :: t')). pose proof (zlen_nonneg t').
      destruct ((c =? 13) && (d' =? 10)).
      * inversion H; subst. rewrite zlen_cons in *. split; [reflexivity|lia].
      * change (d' :: t' ++ b) with ((d' :: t') ++ b) in H.
        destruct (find_crlf ((d' :: t') ++ b)) as [j|] eqn:Hj; [|discriminate].
        inversion H; subst k. specialize (IH b j Hj).
        destruct IH as [I1 I2]. split; intros Hk.
        -- rewrite I1 by lia. reflexivity.
        -- rewrite I2 by lia. reflexivity.
Qed.

Lemma find_crlf_app a b : forall k, find_crlf a = Some k -> find_crlf (a ++ b) = Some k.
Proof.
  induction a as [|c t IH]; intros k H; [discriminate|].
  destruct t as [|d t']; [discriminate|].
  change ((c :: d :: t') ++ b) with (c :: d :: (t' ++ b)).
  rewrite find_crlf_cons2 in *.
  destruct ((c =? 13) && (d =? 10)); [exact H|].
  destruct (find_crlf (d :: t')) as [j|] eqn:Hj; [|discriminate].
  change (d :: t' ++ b) with ((d :: t') ++ b). rewrite (IH j eq_refl). exact H.
Qed.

Lemma find_crlf_crlf b : find_crlf (CRLF ++ b) = Some 0.
Proof. reflexivity. Qed.

(* ------------------------------------------------------------- sk_recv ---- *)
Lemma sk_recv_spec ps : forall count,
  0 < count -> 0 < total_len ps ->
  exists r bs ps', sk_recv ps false count = (r, bs, ps')
    /\ 1 <= r <= count /\ bs = ztake r (concat ps) /\ zlen bs = r /\ concat ps' = zdrop r (concat ps).
Proof.
  induction ps as [|p rest IH]; intros count Hc Ht.
  - unfold total_len in Ht. cbn in Ht. lia.
  - cbn [sk_recv]. destruct p as [|x p'].
    + change (total_len ([] :: rest)) with (total_len rest) in Ht.
      destruct (IH count Hc Ht) as (r & bs & ps' & E & H).
      exists r, bs, ps'. split; [exact E|exact H].
    + set (p := x :: p') in *. assert (Hp : 1 <= zlen p) by (unfold p; rewrite zlen_cons; pose proof (zlen_nonneg p'); lia).
      cbn [concat]. destruct (Z.ltb_spec (Z.min count (zlen p)) (zlen p)) as [Hlt|Hge].
      * exists (Z.min count (zlen p)), (ztake (Z.min count (zlen p)) p), (zdrop (Z.min count (zlen p)) p :: rest).
        split; [reflexivity|]. splits; try lia.
        -- rewrite ztake_app_le by lia. reflexivity.
        -- rewrite zlen_ztake; lia.
        -- cbn [concat]. rewrite zdrop_app_le by lia. reflexivity.
      * exists (Z.min count (zlen p)), p, rest. split; [reflexivity|].
        assert (Hm : Z.min count (zlen p) = zlen p) by lia. rewrite Hm. splits; try lia.
        -- rewrite ztake_app_le, ztake_all by lia. reflexivity.
        -- rewrite zdrop_app_le, zdrop_all by lia. reflexivity.
Qed.

(* ------------------------------------------------------------- grammar ---- *)
(* a chunk-size line as the reader accepts it: leading hex digits (value v), then anything
   (a chunk extension) without CR LF; at most 4096 bytes including its CR LF *)
Definition size_line (line : bytes) (v : Z) : Prop :=
  hex_to_u64 line = v /\ find_crlf (line ++ CRLF) = Some (zlen line) /\ zlen line + 2 <= LINE_BUFFER_SIZE.

(* what the reader accepts when m_chunked_remain = 0: any number of empty lines, then a
   size line; after the data of a chunk the same state is reached again *)
Inductive G0 : bytes -> bytes -> Prop :=
| G0_crlf I p : G0 I p -> G0 (CRLF ++ I) p
| G0_last line : line <> [] -> size_line line 0 -> G0 (line ++ CRLF ++ CRLF) []
| G0_chunk line data I p : 0 < zlen data < W64 -> size_line line (zlen data) -> G0 I p ->
    G0 (line ++ CRLF ++ data ++ I) (data ++ p).
(* ... and when m_chunked_remain = k *)
Definition GR (k : Z) (I payload : bytes) : Prop :=
  exists data I' p', I = data ++ I' /\ zlen data = k /\ payload = data ++ p' /\ G0 I' p'.

Lemma GR_0 I p : G0 I p -> GR 0 I p.
Proof. intros H. exists [], I, p. splits; try reflexivity. exact H. Qed.
Lemma GR_0_inv I p : GR 0 I p -> G0 I p.
Proof.
  intros (d & I' & p' & -> & Hl & -> & H). apply zlen_zero_nil in Hl. subst. exact H.
Qed.

Lemma app_prefix_take {A} (a x b y : list A) :
  a ++ x = b ++ y -> zlen b <= zlen a -> ztake (zlen b) a = b /\ zdrop (zlen b) a ++ x = y.
Proof.
  revert a. induction b as [|h b IH]; intros a H Hl.
  - rewrite zlen_nil, ztake_nonpos, zdrop_nonpos by lia. split; [reflexivity|exact H].
  - destruct a as [|h' a]; [rewrite zlen_cons, zlen_nil in Hl; pose proof (zlen_nonneg b); lia|].
    cbn [app] in H. inversion H; subst h'. rewrite !zlen_cons in Hl.
    destruct (IH a H2 ltac:(lia)) as [I1 I2].
    rewrite zlen_cons. unfold ztake, zdrop in *.
    replace (Z.to_nat (1 + zlen b)) with (S (Z.to_nat (zlen b))) by (pose proof (zlen_nonneg b); lia).
    cbn [firstn skipn]. rewrite I1. split; [reflexivity|exact I2].
Qed.

(* the first line of an accepted input *)
Lemma G0_line I payload : G0 I payload ->
  exists l rest, I = l ++ CRLF ++ rest /\ find_crlf I = Some (zlen l) /\ zlen l + 2 <= LINE_BUFFER_SIZE /\
    ((l = [] /\ G0 rest payload)
     \/ (l <> [] /\ hex_to_u64 l = 0 /\ rest = CRLF /\ payload = [])
     \/ (0 < hex_to_u64 l < W64 /\ GR (hex_to_u64 l) rest payload)).
Proof.
  intros H. destruct H as [I p H|line Hne (Hh & Hf & Hl)|line data I p Hd (Hh & Hf & Hl) H].
  - exists [], I. splits; try reflexivity; [cbn; unfold LINE_BUFFER_SIZE; lia|]. left. split; [reflexivity|exact H].
  - exists line, CRLF. splits; try reflexivity; [|exact Hl|].
    + rewrite app_assoc. apply find_crlf_app. exact Hf.
    + right. left. splits; auto.
  - exists line, (data ++ I). splits; try reflexivity; [|exact Hl|].
    + rewrite app_assoc. apply find_crlf_app. exact Hf.
    + right. right. rewrite Hh. split; [lia|]. exists data, I, p. splits; auto.
Qed.

(* ------------------------------------------------------------ invariant ---- *)
Definition inp (s : crs) : bytes := zdrop (c_cursor s) (c_line s) ++ concat (c_ps s).
Definition WF (s : crs) : Prop :=
  c_err s = false /\ 0 <= c_cursor s <= lsize s /\ lsize s <= LINE_BUFFER_SIZE /\ LINE_BUFFER_SIZE <= c_cap s.
Definition Inv (s : crs) (payload : bytes) : Prop :=
  WF s /\ c_finish s = false /\ GR (c_remain s) (inp s) payload.

(* pos_next_chunk at the cursor, input accepted by G0 *)
Lemma pnc_spec s payload :
  WF s -> G0 (inp s) payload ->
  exists l rest, inp s = l ++ CRLF ++ rest /\
   ((lsize s - c_cursor s < zlen l + 2 /\ pos_next_chunk s (c_cursor s) = Some (false, s))
    \/ (zlen l + 2 <= lsize s - c_cursor s /\
        exists s', pos_next_chunk s (c_cursor s) = Some (true, s')
          /\ c_line s' = c_line s /\ c_cursor s' = c_cursor s + zlen l + 2 /\ c_cap s' = c_cap s /\ c_err s' = false
          /\ ((c_finish s' = c_finish s /\ c_ps s' = c_ps s /\ GR (c_remain s') rest payload /\ inp s' = rest /\ 0 <= c_remain s' < W64)
              \/ (c_finish s' = true /\ payload = [] /\ c_remain s' = 0)))).
Proof.
  intros (Herr & Hcur & Hls & Hcap) HG.
  destruct (G0_line _ _ HG) as (l & rest & HI & Hfind & Hll & Hcase).
  exists l, rest. split; [exact HI|].
  set (R := zdrop (c_cursor s) (c_line s)).
  assert (HR : zlen R = lsize s - c_cursor s) by (unfold R; rewrite zlen_zdrop; unfold lsize in *; lia).
  pose proof (zlen_nonneg l) as Hl0.
  unfold inp in HI, Hfind. fold R in HI, Hfind.
  destruct (find_crlf_prefix R _ _ Hfind) as [Pin Pout].
  unfold pos_next_chunk.
  destruct (Z.ltb_spec (c_cursor s) 0) as [|_]; [lia|].
  destruct (Z.ltb_spec (lsize s) (c_cursor s)) as [|_]; [lia|]. cbn [orb]. fold R.
  destruct (Z.lt_ge_cases (zlen R) (zlen l + 2)) as [Hshort|Hlong].
  - left. rewrite Pout by lia. split; [lia|reflexivity].
  - right. split; [lia|]. rewrite Pin by lia.
    assert (Htk : ztake (zlen l) R = l).
    { apply (app_prefix_take R (concat (c_ps s)) l (CRLF ++ rest) HI). lia. }
    rewrite Htk.
    assert (Hrest : zdrop (zlen l + 2) R ++ concat (c_ps s) = rest).
    { rewrite app_assoc in HI.
      destruct (app_prefix_take R (concat (c_ps s)) (l ++ CRLF) rest HI) as [_ H2].
      { rewrite zlen_app. change (zlen CRLF) with 2. lia. }
      rewrite zlen_app in H2. exact H2. }
    destruct Hcase as [[Hnil HG']|[(Hne & Hh0 & Hrc & Hp)|(Hk & HGR)]].
    + (* empty line *)
      subst l. change (zlen []) with 0 in *. change (hex_to_u64 []) with 0.
      cbn [Z.eqb negb orb]. eexists. split; [reflexivity|]. cbn [c_line c_cursor c_cap c_err c_finish c_ps c_remain].
      splits; try reflexivity; try lia; try assumption.
      left. splits; try reflexivity; try (cbn; unfold W64; lia); [apply GR_0; exact HG'|].
      unfold inp. cbn [c_line c_cursor c_ps]. rewrite <- Hrest. unfold R.
      rewrite zdrop_zdrop by lia. do 2 f_equal. lia.
    + (* last chunk *)
      rewrite Hh0. cbn [Z.eqb negb orb].
      destruct (Z.eqb_spec (zlen l) 0) as [Hz|Hnz]; [apply zlen_zero_nil in Hz; contradiction|].
      assert (Htot : zlen R + total_len (c_ps s) = zlen l + 4).
      { apply (f_equal zlen) in HI. rewrite Hrc, !zlen_app in HI. change (zlen CRLF) with 2 in HI.
        unfold total_len. lia. }
      pose proof (zlen_nonneg (concat (c_ps s))) as Hps. fold (total_len (c_ps s)) in Hps.
      assert (Hbr : wrap (c_cursor s + zlen l + 4 - lsize s) = total_len (c_ps s)).
      { rewrite wrap_small; unfold W64; lia. }
      rewrite Hbr.
      destruct (Z.ltb_spec 2 (total_len (c_ps s))) as [|_]; [lia|].
      destruct (Z.ltb_spec 0 (total_len (c_ps s))) as [Hpos|Hzero].
      * destruct (sk_read_enough (c_ps s) (c_err s) (total_len (c_ps s)) ltac:(lia)) as (ps' & E & _).
        rewrite E. eexists. split; [reflexivity|]. cbn [c_line c_cursor c_cap c_err c_finish c_ps c_remain].
        splits; try reflexivity; try lia; try assumption. right. splits; auto.
      * eexists. split; [reflexivity|]. cbn [c_line c_cursor c_cap c_err c_finish c_ps c_remain].
        splits; try reflexivity; try lia; try assumption. right. splits; auto.
    + (* a chunk *)
      destruct (Z.eqb_spec (hex_to_u64 l) 0) as [|_]; [lia|]. cbn [negb orb].
      eexists. split; [reflexivity|]. cbn [c_line c_cursor c_cap c_err c_finish c_ps c_remain].
      splits; try reflexivity; try lia; try assumption.
      left. splits; try reflexivity; try (cbn; lia); [exact HGR|].
      unfold inp. cbn [c_line c_cursor c_ps]. rewrite <- Hrest. unfold R.
      rewrite zdrop_zdrop by lia. do 2 f_equal. lia.
Qed.

(* ------------------------------------------------------ read_from_line_buf -- *)
Definition RemOk (s : crs) : Prop := 0 <= c_remain s < W64.
Definition Post (s : crs) (payload : bytes) : Prop :=
  (c_finish s = true /\ payload = []) \/ (Inv s payload /\ RemOk s).

Definition set_cr (s : crs) (cur rem : Z) : crs :=
  mkCrs (c_line s) cur rem (c_finish s) (c_ps s) (c_err s) (c_closed s) (c_cap s).

Lemma inp_set_cr s n rem : WF s -> 0 <= n <= lsize s - c_cursor s ->
  inp (set_cr s (c_cursor s + n) rem) = zdrop n (inp s).
Proof.
  intros (_ & Hcur & _) Hn. unfold inp, set_cr. cbn [c_line c_cursor c_ps].
  rewrite zdrop_app_le by (rewrite zlen_zdrop; unfold lsize in *; lia).
  rewrite zdrop_zdrop by lia. do 2 f_equal. lia.
Qed.
Lemma WF_set_cr s n rem : WF s -> 0 <= n <= lsize s - c_cursor s -> WF (set_cr s (c_cursor s + n) rem).
Proof. intros (H1 & H2 & H3 & H4) Hn. unfold WF, set_cr, lsize in *. cbn. splits; auto; lia. Qed.

Lemma reset_props s : WF s ->
  WF (reset_if_end s) /\ inp (reset_if_end s) = inp s /\ c_finish (reset_if_end s) = c_finish s
  /\ c_remain (reset_if_end s) = c_remain s
  /\ lsize (reset_if_end s) - c_cursor (reset_if_end s) = lsize s - c_cursor s.
Proof.
  intros (H1 & H2 & H3 & H4). unfold reset_if_end.
  destruct (Z.eqb_spec (c_cursor s) (lsize s)) as [E|E].
  - assert (Hd : zdrop (c_cursor s) (c_line s) = []) by (apply zdrop_all; unfold lsize in E; lia).
    unfold WF, inp, lsize. cbn [set_line c_err c_cursor c_line c_cap c_ps c_finish c_remain].
    rewrite Hd. change (zlen (@nil Z)) with 0. unfold LINE_BUFFER_SIZE in *. unfold lsize in *.
    splits; auto; try lia.
  - splits; try reflexivity. unfold WF. splits; auto; lia.
Qed.
Lemma compact_props s : WF s ->
  WF (compact s) /\ inp (compact s) = inp s /\ c_finish (compact s) = c_finish s
  /\ c_remain (compact s) = c_remain s /\ c_cursor (compact s) = 0.
Proof.
  intros (H1 & H2 & H3 & H4). unfold compact, WF, inp, set_line, lsize in *. cbn.
  rewrite zlen_zdrop by lia. splits; auto; try lia.
  rewrite zdrop_nonpos by lia. reflexivity.
Qed.

Lemma rflb_finished fuel s count ret out :
  c_finish s = true -> read_from_line_buf fuel s count ret out = Some (ret, s, count, out).
Proof.
  intros H. destruct fuel; cbn [read_from_line_buf]; rewrite H, andb_false_r; reflexivity.
Qed.

Lemma GR_advance k I payload n : GR k I payload -> 0 <= n <= k ->
  ztake n I = ztake n payload /\ GR (k - n) (zdrop n I) (zdrop n payload).
Proof.
  intros (d & I' & p' & -> & Hl & -> & HG) Hn. split.
  - rewrite !ztake_app_le by lia. reflexivity.
  - exists (zdrop n d), I', p'. rewrite !zdrop_app_le by lia. splits; auto.
    rewrite zlen_zdrop by lia. lia.
Qed.
Lemma GR_len k I payload : GR k I payload -> k <= zlen payload /\ k <= zlen I.
Proof.
  intros (d & I' & p' & -> & Hl & -> & _). rewrite !zlen_app.
  pose proof (zlen_nonneg p'). pose proof (zlen_nonneg I'). lia.
Qed.

Lemma rflb_spec : forall fuel s count ret out payload,
  Inv s payload -> RemOk s -> 0 <= count -> lsize s - c_cursor s < Z.of_nat fuel ->
  exists n s', read_from_line_buf fuel s count ret out = Some (ret + n, s', count - n, out ++ ztake n payload)
    /\ 0 <= n <= count /\ n <= zlen payload
    /\ Post s' (zdrop n payload)
    /\ (c_finish s' = false -> zlen (inp s') <= zlen (inp s) - n)
    /\ c_cap s' = c_cap s
    /\ (c_finish s' = false -> 0 < count - n -> 0 < c_remain s' -> c_cursor s' = lsize s').
Proof.
  induction fuel as [|f IH]; intros s count ret out payload HInv HRem Hc Hfuel.
  { destruct HInv as ((_ & Hcur & _) & _). lia. }
  destruct HInv as (HWF & Hfin & HGR). pose proof HWF as (Herr & Hcur & Hls & Hcap).
  cbn [read_from_line_buf]. rewrite Hfin. cbn [negb]. rewrite andb_true_r.
  destruct (Z.ltb_spec 0 count) as [Hc0|Hc0]; cbn [andb].
  2:{ exists 0, s. rewrite ztake_nonpos, zdrop_nonpos, app_nil_r, !Z.add_0_r, Z.sub_0_r by lia.
      splits; auto; try lia; [pose proof (zlen_nonneg payload); lia|right; split; [splits; auto|exact HRem]]. }
  destruct (Z.ltb_spec (c_cursor s) (lsize s)) as [Hav|Hav].
  2:{ exists 0, s. rewrite ztake_nonpos, zdrop_nonpos, app_nil_r, !Z.add_0_r, Z.sub_0_r by lia.
      splits; auto; try lia; [pose proof (zlen_nonneg payload); lia|right; split; [splits; auto|exact HRem]]. }
  destruct (Z.ltb_spec (c_cursor s) 0) as [|_]; [lia|].
  set (k := c_remain s) in *. destruct HRem as [Hk0 HkW].
  set (n := Z.min count (Z.min k (lsize s - c_cursor s))).
  assert (Hn : 0 <= n <= count /\ n <= k /\ n <= lsize s - c_cursor s /\ (0 < k -> 1 <= n)) by (unfold n; lia).
  destruct Hn as (Hn1 & Hn2 & Hn3 & Hn4).
  destruct (GR_advance _ _ _ n HGR ltac:(lia)) as (Htake & HGR1).
  destruct (GR_len _ _ _ HGR) as (Hkp & HkI).
  assert (Hdata : ztake n (zdrop (c_cursor s) (c_line s)) = ztake n payload).
  { rewrite <- Htake. unfold inp. rewrite ztake_app_le; [reflexivity|].
    rewrite zlen_zdrop; unfold lsize in *; lia. }
  rewrite Hdata.
  change (mkCrs (c_line s) (c_cursor s + n) (wrap (k - n)) (c_finish s) (c_ps s) (c_err s) (c_closed s) (c_cap s))
    with (set_cr s (c_cursor s + n) (wrap (k - n))).
  rewrite (wrap_small (k - n)) by lia.
  set (s1 := set_cr s (c_cursor s + n) (k - n)).
  assert (HWF1 : WF s1) by (apply WF_set_cr; [exact HWF|lia]).
  assert (Hinp1 : inp s1 = zdrop n (inp s)) by (apply inp_set_cr; [exact HWF|lia]).
  assert (Hfin1 : c_finish s1 = false) by exact Hfin.
  assert (Hlen1 : zlen (inp s1) = zlen (inp s) - n) by (rewrite Hinp1, zlen_zdrop; lia).
  change (c_remain s1) with (k - n). change (c_cursor s1) with (c_cursor s + n).
  destruct (Z.eqb_spec (k - n) 0) as [Hz|Hnz].
  - (* chunk data exhausted: look for the next size line *)
    rewrite Hz in HGR1. rewrite <- Hinp1 in HGR1. apply GR_0_inv in HGR1.
    destruct (pnc_spec s1 _ HWF1 HGR1) as (l & rest & HI & [[Hshort E]|[Hlong (s2 & E & Hline2 & Hcur2 & Hcap2 & Herr2 & Hcase)]]).
    + (* incomplete line: compact and return *)
      change (c_cursor s1) with (c_cursor s + n) in E. rewrite E.
      destruct (compact_props s1 HWF1) as (HWFc & Hinpc & Hfinc & Hremc & Hcurc).
      exists n, (compact s1). splits; auto; try lia.
      * right. split; [splits; auto|].
        -- rewrite Hfinc. exact Hfin1.
        -- rewrite Hremc, Hinpc. change (c_remain s1) with (k - n). rewrite Hz. apply GR_0. exact HGR1.
        -- unfold RemOk. rewrite Hremc. change (c_remain s1) with (k - n). lia.
      * intros _. rewrite Hinpc. lia.
      * intros _ _ Hr. rewrite Hremc in Hr. change (c_remain s1) with (k - n) in Hr. lia.
    + change (c_cursor s1) with (c_cursor s + n) in E. rewrite E.
      pose proof (zlen_nonneg l) as Hl0.
      destruct Hcase as [(Hfin2 & Hps2 & HGR2 & Hinp2 & Hrem2)|(Hfin2 & Hp2 & Hrem2)].
      * (* a further chunk (or an empty line) inside the line buffer *)
        assert (HWF2 : WF s2).
        { unfold WF, lsize in *. rewrite Hline2, Hcur2, Hcap2. cbn [s1 set_cr c_cursor c_line c_cap] in *. splits; auto; lia. }
        destruct (reset_props s2 HWF2) as (HWFr & Hinpr & Hfinr & Hremr & Havr).
        assert (HRem2 : RemOk (reset_if_end s2)) by (unfold RemOk; rewrite Hremr; exact Hrem2).
        assert (HInv2 : Inv (reset_if_end s2) (zdrop n payload)).
        { splits; auto; [rewrite Hfinr, Hfin2; exact Hfin1|]. rewrite Hremr, Hinpr, Hinp2. exact HGR2. }
        assert (Hfuel2 : lsize (reset_if_end s2) - c_cursor (reset_if_end s2) < Z.of_nat f).
        { rewrite Havr. unfold lsize in *. rewrite Hline2, Hcur2. cbn [s1 set_cr c_cursor c_line] in *. lia. }
        destruct (IH (reset_if_end s2) (count - n) (ret + n) (out ++ ztake n payload) (zdrop n payload)
                     HInv2 HRem2 ltac:(lia) Hfuel2) as (n2 & s' & E2 & Hn2a & Hn2b & HPost & Hmeas & Hcap' & Hpost').
        rewrite E2. rewrite zlen_zdrop in Hn2b by lia.
        assert (Hcapr : c_cap (reset_if_end s2) = c_cap s).
        { unfold reset_if_end. destruct (c_cursor s2 =? lsize s2); cbn; rewrite Hcap2; reflexivity. }
        exists (n + n2), s'. splits; try lia.
        -- f_equal. f_equal; [f_equal; [f_equal; lia|]; lia|].
           rewrite <- app_assoc, ztake_add by lia. reflexivity.
        -- rewrite zdrop_zdrop in HPost by lia. replace (n + n2) with (n2 + n) by lia. exact HPost.
        -- intros Hf. specialize (Hmeas Hf). rewrite Hinpr, Hinp2 in Hmeas.
           assert (zlen rest <= zlen (inp s1)) by (rewrite HI, !zlen_app; pose proof (zlen_nonneg CRLF); lia).
           lia.
        -- rewrite Hcap'. exact Hcapr.
        -- intros Hf Hcnt Hr. apply Hpost'; auto. lia.
      * (* the last chunk: finished *)
        assert (Hfinr : c_finish (reset_if_end s2) = true).
        { unfold reset_if_end. destruct (c_cursor s2 =? lsize s2); cbn; exact Hfin2. }
        rewrite rflb_finished by exact Hfinr.
        exists n, (reset_if_end s2). splits; auto; try lia.
        -- left. split; [exact Hfinr|exact Hp2].
        -- intros Hf. rewrite Hfinr in Hf. discriminate.
        -- unfold reset_if_end. destruct (c_cursor s2 =? lsize s2); cbn; rewrite Hcap2; reflexivity.
        -- intros Hf. rewrite Hfinr in Hf. discriminate.
  - (* still inside the chunk *)
    assert (Hk : 0 < k) by lia.
    destruct (reset_props s1 HWF1) as (HWFr & Hinpr & Hfinr & Hremr & Havr).
    assert (HInv1 : Inv (reset_if_end s1) (zdrop n payload)).
    { splits; auto; [rewrite Hfinr; exact Hfin1|]. rewrite Hremr, Hinpr, Hinp1. exact HGR1. }
    assert (HRem1 : RemOk (reset_if_end s1)) by (unfold RemOk; rewrite Hremr; cbn; lia).
    assert (Hfuel1 : lsize (reset_if_end s1) - c_cursor (reset_if_end s1) < Z.of_nat f).
    { rewrite Havr. unfold lsize in *. cbn [s1 set_cr c_cursor c_line]. lia. }
    destruct (IH (reset_if_end s1) (count - n) (ret + n) (out ++ ztake n payload) (zdrop n payload)
                 HInv1 HRem1 ltac:(lia) Hfuel1) as (n2 & s' & E2 & Hn2a & Hn2b & HPost & Hmeas & Hcap' & Hpost').
    rewrite E2. rewrite zlen_zdrop in Hn2b by lia.
    exists (n + n2), s'. splits; try lia.
    + f_equal. f_equal; [f_equal; [f_equal; lia|]; lia|].
      rewrite <- app_assoc, ztake_add by lia. reflexivity.
    + rewrite zdrop_zdrop in HPost by lia. replace (n + n2) with (n2 + n) by lia. exact HPost.
    + intros Hf. specialize (Hmeas Hf). rewrite Hinpr in Hmeas. lia.
    + rewrite Hcap'. unfold reset_if_end. destruct (c_cursor s1 =? lsize s1); reflexivity.
    + intros Hf Hcnt Hr. apply Hpost'; auto. lia.
Qed.
