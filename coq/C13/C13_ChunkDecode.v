(* C13_ChunkDecode.v — functional correctness of ChunkedBodyReadStream:
   chunked_decode_spec (every valid encoding, every fragmentation, every read sizes). *)
From Coq Require Import ZArith List Bool Lia.
From PV Require Import Base.U64 C13.C13_Model C13.C13_Proofs C13.C13_ChunkSafe.
Import ListNotations.
Local Open Scope Z_scope.

Definition CRLF : bytes := [13; 10].

(* ------------------------------------------------------------ find_crlf ---- *)
Lemma find_crlf_cons2 c d t :
  find_crlf (c :: d :: t) = if (c =? 13) && (d =? 10) then Some 0
                            else match find_crlf (d :: t) with Some k => Some (k + 1) | None => None end.
Proof. reflexivity. Qed.
Lemma find_crlf_one c : find_crlf [c] = None. Proof. reflexivity. Qed.

Lemma find_crlf_nonneg s : forall k, find_crlf s = Some k -> 0 <= k.
Proof.
  induction s as [|c t IH]; intros k H; [discriminate|].
  destruct t as [|d t']; [discriminate|]. rewrite find_crlf_cons2 in H.
  destruct ((c =? 13) && (d =? 10)); [inversion H; lia|].
  destruct (find_crlf (d :: t')) as [j|]; [|discriminate]. inversion H. specialize (IH j eq_refl). lia.
Qed.

(* the position found in a ++ b is found in a alone iff both bytes are in a *)
Lemma find_crlf_prefix a : forall b k, find_crlf (a ++ b) = Some k ->
  (k + 2 <= zlen a -> find_crlf a = Some k) /\ (zlen a < k + 2 -> find_crlf a = None).
Proof.
  induction a as [|c t IH]; intros b k H.
  - pose proof (find_crlf_nonneg _ _ H). cbn. split; [lia|reflexivity].
  - destruct t as [|d' t'].
    + (* a = [c] *) rewrite zlen_cons, zlen_nil, find_crlf_one. split; [|reflexivity]. intros Hk.
      cbn [app] in H. destruct b as [|d r]; [discriminate|]. rewrite find_crlf_cons2 in H.
      destruct ((c =? 13) && (d =? 10)); [inversion H; lia|].
      destruct (find_crlf (d :: r)) as [j|] eqn:Hj; [|discriminate].
      pose proof (find_crlf_nonneg _ _ Hj). inversion H. lia.
    + change ((c :: d' :: t') ++ b) with (c :: d' :: (t' ++ b)) in H.
      rewrite find_crlf_cons2 in H. rewrite find_crlf_cons2.
      rewrite (zlen_cons c). pose proof (zlen_nonneg (d' :: t')). pose proof (zlen_nonneg t').
      destruct ((c =? 13) && (d' =? 10)).
      * inversion H; subst. rewrite zlen_cons in *. split; [reflexivity|lia].
      * change (d' :: t' ++ b) with ((d' :: t') ++ b) in H.
        destruct (find_crlf ((d' :: t') ++ b)) as [j|] eqn:Hj; [|discriminate].
        inversion H; subst k. specialize (IH b j Hj).
        destruct IH as [I1 I2]. split; intros Hk.
        -- rewrite I1 by lia. reflexivity.
        -- rewrite I2 by lia. reflexivity.
Qed.

Lemma find_crlf_app a b : forall k, find_crlf a = Some k -> find_crlf (a ++ b) = Some k.
Proof.
  induction a as [|c t IH]; intros k H; [discriminate|].
  destruct t as [|d t']; [discriminate|].
  change ((c :: d :: t') ++ b) with (c :: d :: (t' ++ b)).
  rewrite find_crlf_cons2 in *.
  destruct ((c =? 13) && (d =? 10)); [exact H|].
  destruct (find_crlf (d :: t')) as [j|] eqn:Hj; [|discriminate].
  change (d :: t' ++ b) with ((d :: t') ++ b). rewrite (IH j eq_refl). exact H.
Qed.

Lemma find_crlf_crlf b : find_crlf (CRLF ++ b) = Some 0.
Proof. reflexivity. Qed.

(* ------------------------------------------------------------- sk_recv ---- *)
Lemma sk_recv_spec ps : forall count,
  0 < count -> 0 < total_len ps ->
  exists r bs ps', sk_recv ps false count = (r, bs, ps')
    /\ 1 <= r <= count /\ bs = ztake r (concat ps) /\ zlen bs = r /\ concat ps' = zdrop r (concat ps).
Proof.
  induction ps as [|p rest IH]; intros count Hc Ht.
  - unfold total_len in Ht. cbn in Ht. lia.
  - cbn [sk_recv]. destruct p as [|x p'].
    + change (total_len ([] :: rest)) with (total_len rest) in Ht.
      destruct (IH count Hc Ht) as (r & bs & ps' & E & H).
      exists r, bs, ps'. split; [exact E|exact H].
    + set (p := x :: p') in *. assert (Hp : 1 <= zlen p) by (unfold p; rewrite zlen_cons; pose proof (zlen_nonneg p'); lia).
      cbn [concat]. destruct (Z.ltb_spec (Z.min count (zlen p)) (zlen p)) as [Hlt|Hge].
      * exists (Z.min count (zlen p)), (ztake (Z.min count (zlen p)) p), (zdrop (Z.min count (zlen p)) p :: rest).
        split; [reflexivity|]. splits; try lia.
        -- rewrite ztake_app_le by lia. reflexivity.
        -- rewrite zlen_ztake; lia.
        -- cbn [concat]. rewrite zdrop_app_le by lia. reflexivity.
      * exists (Z.min count (zlen p)), p, rest. split; [reflexivity|].
        assert (Hm : Z.min count (zlen p) = zlen p) by lia. rewrite Hm. splits; try lia.
        -- rewrite ztake_app_le, ztake_all by lia. reflexivity.
        -- rewrite zdrop_app_le, zdrop_all by lia. reflexivity.
Qed.

(* ------------------------------------------------------------- grammar ---- *)
(* a chunk-size line as the reader accepts it: leading hex digits (value v), then anything
   (a chunk extension) without CR LF; at most 4096 bytes including its CR LF *)
Definition size_line (line : bytes) (v : Z) : Prop :=
  hex_to_u64 line = v /\ find_crlf (line ++ CRLF) = Some (zlen line) /\ zlen line + 2 <= LINE_BUFFER_SIZE.

(* what the reader accepts when m_chunked_remain = 0: any number of empty lines, then a
   size line; after the data of a chunk the same state is reached again *)
Inductive G0 : bytes -> bytes -> Prop :=
| G0_crlf I p : G0 I p -> G0 (CRLF ++ I) p
| G0_last line : line <> [] -> size_line line 0 -> G0 (line ++ CRLF ++ CRLF) []
| G0_chunk line data I p : 0 < zlen data < W64 -> size_line line (zlen data) -> G0 I p ->
    G0 (line ++ CRLF ++ data ++ I) (data ++ p).
(* ... and when m_chunked_remain = k *)
Definition GR (k : Z) (I payload : bytes) : Prop :=
  exists data I' p', I = data ++ I' /\ zlen data = k /\ payload = data ++ p' /\ G0 I' p'.

Lemma GR_0 I p : G0 I p -> GR 0 I p.
Proof. intros H. exists [], I, p. splits; try reflexivity. exact H. Qed.
Lemma GR_0_inv I p : GR 0 I p -> G0 I p.
Proof.
  intros (d & I' & p' & -> & Hl & -> & H). apply zlen_zero_nil in Hl. subst. exact H.
Qed.

Lemma app_prefix_take {A} (a x b y : list A) :
  a ++ x = b ++ y -> zlen b <= zlen a -> ztake (zlen b) a = b /\ zdrop (zlen b) a ++ x = y.
Proof.
  revert a. induction b as [|h b IH]; intros a H Hl.
  - rewrite zlen_nil, ztake_nonpos, zdrop_nonpos by lia. split; [reflexivity|exact H].
  - destruct a as [|h' a]; [rewrite zlen_cons, zlen_nil in Hl; pose proof (zlen_nonneg b); lia|].
    cbn [app] in H. inversion H; subst h'. rewrite !zlen_cons in Hl.
    destruct (IH a H2 ltac:(lia)) as [I1 I2].
    rewrite zlen_cons. unfold ztake, zdrop in *.
    replace (Z.to_nat (1 + zlen b)) with (S (Z.to_nat (zlen b))) by (pose proof (zlen_nonneg b); lia).
    cbn [firstn skipn]. rewrite I1. split; [reflexivity|exact I2].
Qed.

(* the first line of an accepted input *)
Lemma G0_line I payload : G0 I payload ->
  exists l rest, I = l ++ CRLF ++ rest /\ find_crlf I = Some (zlen l) /\ zlen l + 2 <= LINE_BUFFER_SIZE /\
    ((l = [] /\ G0 rest payload)
     \/ (l <> [] /\ hex_to_u64 l = 0 /\ rest = CRLF /\ payload = [])
     \/ (0 < hex_to_u64 l < W64 /\ GR (hex_to_u64 l) rest payload)).
Proof.
  intros H. destruct H as [I p H|line Hne (Hh & Hf & Hl)|line data I p Hd (Hh & Hf & Hl) H].
  - exists [], I. splits; try reflexivity; [cbn; unfold LINE_BUFFER_SIZE; lia|]. left. split; [reflexivity|exact H].
  - exists line, CRLF. splits; try reflexivity; [|exact Hl|].
    + rewrite app_assoc. apply find_crlf_app. exact Hf.
    + right. left. splits; auto.
  - exists line, (data ++ I). splits; try reflexivity; [|exact Hl|].
    + rewrite app_assoc. apply find_crlf_app. exact Hf.
    + right. right. rewrite Hh. split; [lia|]. exists data, I, p. splits; auto.
Qed.

(* ------------------------------------------------------------ invariant ---- *)
Definition inp (s : crs) : bytes := zdrop (c_cursor s) (c_line s) ++ concat (c_ps s).
Definition WF (s : crs) : Prop :=
  c_err s = false /\ 0 <= c_cursor s <= lsize s /\ lsize s <= LINE_BUFFER_SIZE /\ LINE_BUFFER_SIZE <= c_cap s.
Definition Inv (s : crs) (payload : bytes) : Prop :=
  WF s /\ c_finish s = false /\ GR (c_remain s) (inp s) payload.

(* the state after the last chunk: what is left of the line buffer is (a prefix of) the final CR LF *)
Definition Fin (s : crs) : Prop :=
  c_finish s = true /\ WF s /\ c_remain s = 0 /\ exists x, zdrop (c_cursor s) (c_line s) ++ x = CRLF.

(* pos_next_chunk at the cursor, input accepted by G0 *)
Lemma pnc_spec s payload :
  WF s -> G0 (inp s) payload ->
  exists l rest, inp s = l ++ CRLF ++ rest /\ find_crlf (inp s) = Some (zlen l) /\
   ((lsize s - c_cursor s < zlen l + 2 /\ pos_next_chunk s (c_cursor s) = Some (false, s))
    \/ (zlen l + 2 <= lsize s - c_cursor s /\
        exists s', pos_next_chunk s (c_cursor s) = Some (true, s')
          /\ c_line s' = c_line s /\ c_cursor s' = c_cursor s + zlen l + 2 /\ c_cap s' = c_cap s /\ c_err s' = false
          /\ ((c_finish s' = c_finish s /\ c_ps s' = c_ps s /\ GR (c_remain s') rest payload /\ inp s' = rest /\ 0 <= c_remain s' < W64)
              \/ (Fin s' /\ payload = [])))).
Proof.
  intros (Herr & Hcur & Hls & Hcap) HG.
  destruct (G0_line _ _ HG) as (l & rest & HI & Hfind & Hll & Hcase).
  exists l, rest. split; [exact HI|]. split; [exact Hfind|].
  set (R := zdrop (c_cursor s) (c_line s)).
  assert (HR : zlen R = lsize s - c_cursor s) by (unfold R; rewrite zlen_zdrop; unfold lsize in *; lia).
  pose proof (zlen_nonneg l) as Hl0.
  unfold inp in HI, Hfind. fold R in HI, Hfind.
  destruct (find_crlf_prefix R _ _ Hfind) as [Pin Pout].
  unfold pos_next_chunk.
  destruct (Z.ltb_spec (c_cursor s) 0) as [|_]; [lia|].
  destruct (Z.ltb_spec (lsize s) (c_cursor s)) as [|_]; [lia|]. cbn [orb]. fold R.
  destruct (Z.lt_ge_cases (zlen R) (zlen l + 2)) as [Hshort|Hlong].
  - left. rewrite Pout by lia. split; [lia|reflexivity].
  - right. split; [lia|]. rewrite Pin by lia.
    assert (Htk : ztake (zlen l) R = l).
    { apply (app_prefix_take R (concat (c_ps s)) l (CRLF ++ rest) HI). lia. }
    rewrite Htk.
    assert (Hrest : zdrop (zlen l + 2) R ++ concat (c_ps s) = rest).
    { rewrite app_assoc in HI.
      destruct (app_prefix_take R (concat (c_ps s)) (l ++ CRLF) rest HI) as [_ H2].
      { rewrite zlen_app. change (zlen CRLF) with 2. lia. }
      rewrite zlen_app in H2. exact H2. }
    destruct Hcase as [[Hnil HG']|[(Hne & Hh0 & Hrc & Hp)|(Hk & HGR)]].
    + (* empty line *)
      subst l. change (zlen []) with 0 in *. change (hex_to_u64 []) with 0.
      cbn [Z.eqb negb orb]. eexists. split; [reflexivity|]. cbn [c_line c_cursor c_cap c_err c_finish c_ps c_remain].
      splits; try reflexivity; try lia; try assumption.
      left. splits; try reflexivity; try (cbn; unfold W64; lia); [apply GR_0; exact HG'|].
      unfold inp. cbn [c_line c_cursor c_ps]. rewrite <- Hrest. unfold R.
      rewrite zdrop_zdrop by lia. do 2 f_equal. lia.
    + (* last chunk *)
      rewrite Hh0. cbn [Z.eqb negb orb].
      destruct (Z.eqb_spec (zlen l) 0) as [Hz|Hnz]; [apply zlen_zero_nil in Hz; contradiction|].
      assert (Htot : zlen R + total_len (c_ps s) = zlen l + 4).
      { apply (f_equal zlen) in HI. rewrite Hrc, !zlen_app in HI. change (zlen CRLF) with 2 in HI.
        unfold total_len. lia. }
      pose proof (zlen_nonneg (concat (c_ps s))) as Hps. fold (total_len (c_ps s)) in Hps.
      assert (Hbr : wrap (c_cursor s + zlen l + 4 - lsize s) = total_len (c_ps s)).
      { rewrite wrap_small; unfold W64; lia. }
      rewrite Hbr.
      destruct (Z.ltb_spec 2 (total_len (c_ps s))) as [|_]; [lia|].
      destruct (Z.ltb_spec 0 (total_len (c_ps s))) as [Hpos|Hzero].
      * destruct (sk_read_enough (c_ps s) (c_err s) (total_len (c_ps s)) ltac:(lia)) as (ps' & E & _).
        rewrite E. eexists. split; [reflexivity|]. cbn [c_line c_cursor c_cap c_err c_finish c_ps c_remain].
        splits; try reflexivity; try lia; try assumption. right. split; [|exact Hp].
        unfold Fin, WF, lsize. cbn [c_line c_cursor c_cap c_err c_finish c_ps c_remain]. unfold lsize in *.
        splits; auto; try lia. exists (concat (c_ps s)). rewrite <- Hrc, <- Hrest. unfold R.
        rewrite zdrop_zdrop by lia. do 2 f_equal. lia.
      * eexists. split; [reflexivity|]. cbn [c_line c_cursor c_cap c_err c_finish c_ps c_remain].
        splits; try reflexivity; try lia; try assumption. right. split; [|exact Hp].
        unfold Fin, WF, lsize. cbn [c_line c_cursor c_cap c_err c_finish c_ps c_remain]. unfold lsize in *.
        splits; auto; try lia. exists (concat (c_ps s)). rewrite <- Hrc, <- Hrest. unfold R.
        rewrite zdrop_zdrop by lia. do 2 f_equal. lia.
    + (* a chunk *)
      destruct (Z.eqb_spec (hex_to_u64 l) 0) as [|_]; [lia|]. cbn [negb orb].
      eexists. split; [reflexivity|]. cbn [c_line c_cursor c_cap c_err c_finish c_ps c_remain].
      splits; try reflexivity; try lia; try assumption.
      left. splits; try reflexivity; try (cbn; lia); [exact HGR|].
      unfold inp. cbn [c_line c_cursor c_ps]. rewrite <- Hrest. unfold R.
      rewrite zdrop_zdrop by lia. do 2 f_equal. lia.
Qed.

(* ------------------------------------------------------ read_from_line_buf -- *)
Definition RemOk (s : crs) : Prop := 0 <= c_remain s < W64.
Definition Post (s : crs) (payload : bytes) : Prop :=
  (Fin s /\ payload = []) \/ (Inv s payload /\ RemOk s).

Definition set_cr (s : crs) (cur rem : Z) : crs :=
  mkCrs (c_line s) cur rem (c_finish s) (c_ps s) (c_err s) (c_closed s) (c_cap s).

Lemma inp_set_cr s n rem : WF s -> 0 <= n <= lsize s - c_cursor s ->
  inp (set_cr s (c_cursor s + n) rem) = zdrop n (inp s).
Proof.
  intros (_ & Hcur & _) Hn. unfold inp, set_cr. cbn [c_line c_cursor c_ps].
  rewrite zdrop_app_le by (rewrite zlen_zdrop; unfold lsize in *; lia).
  rewrite zdrop_zdrop by lia. do 2 f_equal. lia.
Qed.
Lemma WF_set_cr s n rem : WF s -> 0 <= n <= lsize s - c_cursor s -> WF (set_cr s (c_cursor s + n) rem).
Proof. intros (H1 & H2 & H3 & H4) Hn. unfold WF, set_cr, lsize in *. cbn. splits; auto; lia. Qed.

Lemma reset_props s : WF s ->
  WF (reset_if_end s) /\ inp (reset_if_end s) = inp s /\ c_finish (reset_if_end s) = c_finish s
  /\ c_remain (reset_if_end s) = c_remain s
  /\ lsize (reset_if_end s) - c_cursor (reset_if_end s) = lsize s - c_cursor s.
Proof.
  intros (H1 & H2 & H3 & H4). unfold reset_if_end.
  destruct (Z.eqb_spec (c_cursor s) (lsize s)) as [E|E].
  - assert (Hd : zdrop (c_cursor s) (c_line s) = []) by (apply zdrop_all; unfold lsize in E; lia).
    unfold WF, inp, lsize. cbn [set_line c_err c_cursor c_line c_cap c_ps c_finish c_remain].
    rewrite Hd. change (zlen (@nil Z)) with 0. unfold LINE_BUFFER_SIZE in *. unfold lsize in *.
    splits; auto; try lia.
  - splits; try reflexivity. unfold WF. splits; auto; lia.
Qed.
Lemma compact_props s : WF s ->
  WF (compact s) /\ inp (compact s) = inp s /\ c_finish (compact s) = c_finish s
  /\ c_remain (compact s) = c_remain s /\ c_cursor (compact s) = 0.
Proof.
  intros (H1 & H2 & H3 & H4). unfold compact, WF, inp, set_line, lsize in *. cbn.
  rewrite zlen_zdrop by lia. splits; auto; try lia.
Qed.

Lemma rflb_finished fuel s count ret out :
  c_finish s = true -> read_from_line_buf fuel s count ret out = Some (ret, s, count, out).
Proof.
  intros H. destruct fuel; cbn [read_from_line_buf]; rewrite H, andb_false_r; reflexivity.
Qed.

Lemma GR_advance k I payload n : GR k I payload -> 0 <= n <= k ->
  ztake n I = ztake n payload /\ GR (k - n) (zdrop n I) (zdrop n payload).
Proof.
  intros (d & I' & p' & -> & Hl & -> & HG) Hn. split.
  - rewrite !ztake_app_le by lia. reflexivity.
  - exists (zdrop n d), I', p'. rewrite !zdrop_app_le by lia. splits; auto.
    rewrite zlen_zdrop by lia. lia.
Qed.
Lemma GR_len k I payload : GR k I payload -> k <= zlen payload /\ k <= zlen I.
Proof.
  intros (d & I' & p' & -> & Hl & -> & _). rewrite !zlen_app.
  pose proof (zlen_nonneg p'). pose proof (zlen_nonneg I'). lia.
Qed.

Lemma rflb_spec : forall fuel s count ret out payload,
  Inv s payload -> RemOk s -> 0 <= count -> lsize s - c_cursor s < Z.of_nat fuel ->
  exists n s', read_from_line_buf fuel s count ret out = Some (ret + n, s', count - n, out ++ ztake n payload)
    /\ 0 <= n <= count /\ n <= zlen payload
    /\ Post s' (zdrop n payload)
    /\ (c_finish s' = false -> zlen (inp s') <= zlen (inp s) - n)
    /\ c_cap s' = c_cap s
    /\ (c_finish s' = false -> 0 < count - n -> 0 < c_remain s' -> c_cursor s' = lsize s').
Proof.
  induction fuel as [|f IH]; intros s count ret out payload HInv HRem Hc Hfuel.
  { destruct HInv as ((_ & Hcur & _) & _). lia. }
  destruct HInv as (HWF & Hfin & HGR). pose proof HWF as (Herr & Hcur & Hls & Hcap).
  cbn [read_from_line_buf]. rewrite Hfin. cbn [negb]. rewrite andb_true_r.
  destruct (Z.ltb_spec 0 count) as [Hc0|Hc0]; cbn [andb].
  2:{ exists 0, s. rewrite ztake_nonpos, zdrop_nonpos, app_nil_r, !Z.add_0_r, Z.sub_0_r by lia.
      splits; auto; try lia; [pose proof (zlen_nonneg payload); lia|right; split; [unfold Inv; splits; auto|exact HRem]]. }
  destruct (Z.ltb_spec (c_cursor s) (lsize s)) as [Hav|Hav].
  2:{ exists 0, s. rewrite ztake_nonpos, zdrop_nonpos, app_nil_r, !Z.add_0_r, Z.sub_0_r by lia.
      splits; auto; try lia; [pose proof (zlen_nonneg payload); lia|right; split; [unfold Inv; splits; auto|exact HRem]]. }
  destruct (Z.ltb_spec (c_cursor s) 0) as [|_]; [lia|].
  set (k := c_remain s) in *. destruct HRem as [Hk0 HkW].
  set (n := Z.min count (Z.min k (lsize s - c_cursor s))).
  assert (Hn : 0 <= n <= count /\ n <= k /\ n <= lsize s - c_cursor s /\ (0 < k -> 1 <= n)) by (unfold n; lia).
  destruct Hn as (Hn1 & Hn2 & Hn3 & Hn4).
  destruct (GR_advance _ _ _ n HGR ltac:(lia)) as (Htake & HGR1).
  destruct (GR_len _ _ _ HGR) as (Hkp & HkI).
  assert (Hdata : ztake n (zdrop (c_cursor s) (c_line s)) = ztake n payload).
  { rewrite <- Htake. unfold inp. rewrite ztake_app_le; [reflexivity|].
    rewrite zlen_zdrop; unfold lsize in *; lia. }
  rewrite Hdata.
  assert (Hs1 : mkCrs (c_line s) (c_cursor s + n) (wrap (k - n)) false (c_ps s) (c_err s) (c_closed s) (c_cap s)
                = set_cr s (c_cursor s + n) (wrap (k - n))) by (unfold set_cr; rewrite Hfin; reflexivity).
  rewrite Hs1. clear Hs1.
  rewrite (wrap_small (k - n)) by lia.
  set (s1 := set_cr s (c_cursor s + n) (k - n)).
  assert (HWF1 : WF s1) by (apply WF_set_cr; [exact HWF|lia]).
  assert (Hinp1 : inp s1 = zdrop n (inp s)) by (apply inp_set_cr; [exact HWF|lia]).
  assert (Hfin1 : c_finish s1 = false) by exact Hfin.
  assert (Hlen1 : zlen (inp s1) = zlen (inp s) - n) by (rewrite Hinp1, zlen_zdrop; lia).
  change (c_remain s1) with (k - n). change (c_cursor s1) with (c_cursor s + n).
  destruct (Z.eqb_spec (k - n) 0) as [Hz|Hnz].
  - (* chunk data exhausted: look for the next size line *)
    rewrite Hz in HGR1. rewrite <- Hinp1 in HGR1. apply GR_0_inv in HGR1.
    destruct (pnc_spec s1 _ HWF1 HGR1) as (l & rest & HI & _ & [[Hshort E]|[Hlong (s2 & E & Hline2 & Hcur2 & Hcap2 & Herr2 & Hcase)]]).
    + (* incomplete line: compact and return *)
      change (c_cursor s1) with (c_cursor s + n) in E. rewrite E.
      destruct (compact_props s1 HWF1) as (HWFc & Hinpc & Hfinc & Hremc & Hcurc).
      exists n, (compact s1). splits; auto; try lia.
      * right. split; [unfold Inv; splits; auto|]; try (rewrite Hfinc; exact Hfin1).
        -- rewrite Hremc, Hinpc. change (c_remain s1) with (k - n). rewrite Hz. apply GR_0. exact HGR1.
        -- unfold RemOk. rewrite Hremc. change (c_remain s1) with (k - n). lia.
      * intros _. rewrite Hinpc. lia.
      * intros _ _ Hr. rewrite Hremc in Hr. change (c_remain s1) with (k - n) in Hr. lia.
    + change (c_cursor s1) with (c_cursor s + n) in E. rewrite E.
      pose proof (zlen_nonneg l) as Hl0.
      destruct Hcase as [(Hfin2 & Hps2 & HGR2 & Hinp2 & Hrem2)|Hcase].
      * (* a further chunk (or an empty line) inside the line buffer *)
        assert (HWF2 : WF s2).
        { unfold WF, lsize in *. rewrite Hline2, Hcur2, Hcap2. cbn [s1 set_cr c_cursor c_line c_cap] in *. splits; auto; lia. }
        destruct (reset_props s2 HWF2) as (HWFr & Hinpr & Hfinr & Hremr & Havr).
        assert (HRem2 : RemOk (reset_if_end s2)) by (unfold RemOk; rewrite Hremr; exact Hrem2).
        assert (HInv2 : Inv (reset_if_end s2) (zdrop n payload)).
        { unfold Inv; splits; auto; try (rewrite Hfinr, Hfin2; exact Hfin1). rewrite Hremr, Hinpr, Hinp2. exact HGR2. }
        assert (Hfuel2 : lsize (reset_if_end s2) - c_cursor (reset_if_end s2) < Z.of_nat f).
        { rewrite Havr. unfold lsize in *. rewrite Hline2, Hcur2. cbn [s1 set_cr c_cursor c_line] in *. lia. }
        destruct (IH (reset_if_end s2) (count - n) (ret + n) (out ++ ztake n payload) (zdrop n payload)
                     HInv2 HRem2 ltac:(lia) Hfuel2) as (n2 & s' & E2 & Hn2a & Hn2b & HPost & Hmeas & Hcap' & Hpost').
        rewrite E2. rewrite zlen_zdrop in Hn2b by lia.
        assert (Hcapr : c_cap (reset_if_end s2) = c_cap s).
        { unfold reset_if_end. destruct (c_cursor s2 =? lsize s2); cbn; rewrite Hcap2; reflexivity. }
        exists (n + n2), s'. splits; try lia.
        -- f_equal. f_equal; [f_equal; [f_equal; lia|]; lia|].
           rewrite <- app_assoc, ztake_add by lia. reflexivity.
        -- rewrite zdrop_zdrop in HPost by lia. replace (n + n2) with (n2 + n) by lia. exact HPost.
        -- intros Hf. specialize (Hmeas Hf). rewrite Hinpr, Hinp2 in Hmeas.
           assert (zlen rest <= zlen (inp s1)) by (rewrite HI, !zlen_app; pose proof (zlen_nonneg CRLF); lia).
           lia.
        -- intros Hf Hcnt Hr. apply Hpost'; auto. lia.
      * (* the last chunk: finished *)
        destruct Hcase as [HFin2 Hp2].
        assert (HFinr : Fin (reset_if_end s2)).
        { destruct HFin2 as (Hf2 & HWF2 & Hr2 & x & Hx). destruct (reset_props s2 HWF2) as (HWFr & _ & Hfinr & Hremr & _).
          unfold Fin. rewrite Hfinr, Hremr. splits; auto.
          unfold reset_if_end. destruct (Z.eqb_spec (c_cursor s2) (lsize s2)) as [Ee|Ee].
          - cbn. exists CRLF. reflexivity.
          - exists x. exact Hx. }
        pose proof HFinr as (Hfinr & _).
        rewrite rflb_finished by exact Hfinr.
        exists n, (reset_if_end s2). splits; auto; try lia.
        -- left. split; [exact HFinr|exact Hp2].
        -- intros Hf. rewrite Hfinr in Hf. discriminate.
        -- unfold reset_if_end. destruct (c_cursor s2 =? lsize s2); cbn; rewrite Hcap2; reflexivity.
        -- intros Hf. rewrite Hfinr in Hf. discriminate.
  - (* still inside the chunk *)
    assert (Hk : 0 < k) by lia.
    destruct (reset_props s1 HWF1) as (HWFr & Hinpr & Hfinr & Hremr & Havr).
    assert (HInv1 : Inv (reset_if_end s1) (zdrop n payload)).
    { unfold Inv; splits; auto; try (rewrite Hfinr; exact Hfin1). rewrite Hremr, Hinpr, Hinp1. exact HGR1. }
    assert (HRem1 : RemOk (reset_if_end s1)) by (unfold RemOk; rewrite Hremr; cbn; lia).
    assert (Hfuel1 : lsize (reset_if_end s1) - c_cursor (reset_if_end s1) < Z.of_nat f).
    { rewrite Havr. unfold lsize in *. cbn [s1 set_cr c_cursor c_line]. lia. }
    destruct (IH (reset_if_end s1) (count - n) (ret + n) (out ++ ztake n payload) (zdrop n payload)
                 HInv1 HRem1 ltac:(lia) Hfuel1) as (n2 & s' & E2 & Hn2a & Hn2b & HPost & Hmeas & Hcap' & Hpost').
    rewrite E2. rewrite zlen_zdrop in Hn2b by lia.
    assert (Hcapr1 : c_cap (reset_if_end s1) = c_cap s)
      by (unfold reset_if_end; destruct (c_cursor s1 =? lsize s1); reflexivity).
    exists (n + n2), s'. splits; try lia.
    + f_equal. f_equal; [f_equal; [f_equal; lia|]; lia|].
      rewrite <- app_assoc, ztake_add by lia. reflexivity.
    + rewrite zdrop_zdrop in HPost by lia. replace (n + n2) with (n2 + n) by lia. exact HPost.
    + intros Hf. specialize (Hmeas Hf). rewrite Hinpr in Hmeas. lia.
    + intros Hf Hcnt Hr. apply Hpost'; auto. lia.
Qed.

(* ------------------------------------------------------- get_new_chunk ---- *)
Lemma G0_len I p : G0 I p -> 2 <= zlen I.
Proof.
  intros H. destruct (G0_line _ _ H) as (l & rest & -> & _). rewrite !zlen_app. change (zlen CRLF) with 2.
  pose proof (zlen_nonneg l). pose proof (zlen_nonneg rest). lia.
Qed.

Lemma gnc_loop_spec : forall fuel s payload p,
  WF s -> c_finish s = false -> c_cursor s = 0 -> G0 (inp s) payload ->
  find_crlf (inp s) = Some p -> (lsize s < p + 2 \/ lsize s <= 2) ->
  total_len (c_ps s) < Z.of_nat fuel ->
  exists s', gnc_loop fuel s = Some (0, s') /\ Post s' payload /\ c_cap s' = c_cap s
    /\ (c_finish s' = false -> zlen (inp s') <= zlen (inp s) - 2).
Proof.
  induction fuel as [|f IH]; intros s payload p HWF Hfin Hcur0 HG Hfind Hpre Hfuel.
  { pose proof (zlen_nonneg (concat (c_ps s))). unfold total_len in Hfuel. lia. }
  pose proof HWF as (Herr & Hcur & Hls & Hcap).
  cbn [gnc_loop]. rewrite Hfin.
  destruct (G0_line _ _ HG) as (l & rest & HI & Hfind' & Hll & Hcase).
  rewrite Hfind in Hfind'. inversion Hfind'; subst p. clear Hfind'.
  pose proof (zlen_nonneg l) as Hl0. pose proof (zlen_nonneg rest) as Hr0.
  assert (Hinp : inp s = c_line s ++ concat (c_ps s)).
  { unfold inp. rewrite Hcur0, zdrop_nonpos by lia. reflexivity. }
  assert (Hlen : zlen (inp s) = zlen l + 2 + zlen rest).
  { rewrite HI, !zlen_app. change (zlen CRLF) with 2. lia. }
  assert (Hstream : 0 < total_len (c_ps s)).
  { rewrite Hinp, zlen_app in Hlen. unfold total_len. fold (lsize s) in Hlen.
    destruct Hpre as [Hinc|Hsmall]; [lia|].
    destruct (Z.lt_ge_cases (lsize s) (zlen l + 2)); [lia|].
    assert (l = []) by (apply zlen_zero_nil; lia). subst l.
    destruct Hcase as [[_ HG']|[(Hne & _)|(Hk & _)]]; [|contradiction|change (hex_to_u64 []) with 0 in Hk; lia].
    pose proof (G0_len _ _ HG'). change (zlen []) with 0 in *. lia. }
  assert (Hcnt : 0 < LINE_BUFFER_SIZE - lsize s) by (unfold LINE_BUFFER_SIZE in *; destruct Hpre; lia).
  rewrite wrap_small by (unfold W64, LINE_BUFFER_SIZE in *; pose proof (zlen_nonneg (c_line s)); unfold lsize in *; lia).
  rewrite Herr.
  destruct (sk_recv_spec (c_ps s) (LINE_BUFFER_SIZE - lsize s) Hcnt Hstream) as (r & bs & ps' & E & Hr & Hbs & Hbl & Hps').
  rewrite E.
  destruct (Z.ltb_spec r 0) as [|_]; [lia|].
  destruct (Z.eqb_spec r 0) as [|_]; [lia|].
  destruct (Z.ltb_spec (c_cap s) (lsize s + r)) as [|_]; [lia|].
  set (s1 := set_line (mkCrs (c_line s) (c_cursor s) (c_remain s) false ps' false (c_closed s) (c_cap s))
                      (c_line s ++ bs) (c_cursor s)).
  assert (Hls1 : lsize s1 = lsize s + r) by (unfold lsize, s1; cbn; rewrite zlen_app; lia).
  assert (HWF1 : WF s1) by (unfold WF; rewrite Hls1; cbn; splits; auto; lia).
  assert (Hinp1 : inp s1 = inp s).
  { rewrite Hinp. unfold inp, s1. cbn [set_line c_cursor c_line c_ps]. rewrite Hcur0, zdrop_nonpos by lia.
    rewrite Hps', Hbs, <- app_assoc, ztake_zdrop_id. reflexivity. }
  assert (Htot1 : total_len ps' = total_len (c_ps s) - r).
  { unfold total_len. rewrite Hps', zlen_zdrop; [reflexivity|]. split; [lia|].
    rewrite <- Hbl at 1. rewrite Hbs. unfold ztake, zlen. rewrite firstn_length. lia. }
  assert (Hfuel1 : total_len (c_ps s1) < Z.of_nat f) by (cbn; lia).
  assert (HG1 : G0 (inp s1) payload) by (rewrite Hinp1; exact HG).
  assert (Hfind1 : find_crlf (inp s1) = Some (zlen l)) by (rewrite Hinp1; exact Hfind).
  destruct (Z.leb_spec (lsize s1) 2) as [Hsm|Hbig].
  - destruct (IH s1 payload (zlen l) HWF1 eq_refl Hcur0 HG1 Hfind1 ltac:(right; exact Hsm) Hfuel1)
      as (s' & E' & HP & Hc' & Hm).
    exists s'. rewrite E'. splits; auto. intros Hf. rewrite <- Hinp1. auto.
  - destruct (pnc_spec s1 payload HWF1 HG1) as (l2 & rest2 & HI2 & Hfind2 & Hres).
    rewrite Hfind1 in Hfind2. inversion Hfind2 as [Hll2]. 
    change (c_cursor s1) with (c_cursor s) in Hres. rewrite Hcur0 in Hres.
    destruct Hres as [[Hshort E2]|[Hlong (s2 & E2 & Hline2 & Hcur2 & Hcap2 & Herr2 & Hcase2)]].
    + rewrite E2.
      destruct (IH s1 payload (zlen l) HWF1 eq_refl Hcur0 HG1 Hfind1 ltac:(left; lia) Hfuel1)
        as (s' & E' & HP & Hc' & Hm).
      exists s'. rewrite E'. splits; auto. intros Hf. rewrite <- Hinp1. auto.
    + rewrite E2. exists s2. split; [reflexivity|].
      pose proof (zlen_nonneg l2).
      destruct Hcase2 as [(Hfin2 & Hps2 & HGR2 & Hinp2 & Hrem2)|(HFin2 & Hp2)].
      * split; [|split; [rewrite Hcap2; reflexivity|]].
        -- right. split; [|exact Hrem2]. unfold Inv, WF. rewrite Hinp2. unfold lsize in *. rewrite Hline2, Hcur2, Hcap2.
           cbn [s1 set_line c_line c_cap] in *. splits; auto; try lia.
        -- intros _. rewrite Hinp2, <- Hinp1, HI2, !zlen_app. change (zlen CRLF) with 2. lia.
      * split; [left; split; [exact HFin2|exact Hp2]|]. split; [rewrite Hcap2; reflexivity|].
        intros Hf. destruct HFin2 as (Hfin2 & _). rewrite Hfin2 in Hf. discriminate.
Qed.

Lemma gnc_spec fuel s payload :
  Inv s payload -> c_remain s = 0 -> total_len (c_ps s) < Z.of_nat fuel ->
  exists s', get_new_chunk fuel s = Some (0, s') /\ Post s' payload /\ c_cap s' = c_cap s
    /\ (c_finish s' = false -> zlen (inp s') <= zlen (inp s) - 2).
Proof.
  intros (HWF & Hfin & HGR) Hrem Hfuel. rewrite Hrem in HGR. apply GR_0_inv in HGR.
  pose proof HWF as (Herr & Hcur & Hls & Hcap).
  unfold get_new_chunk.
  destruct (Z.ltb_spec (c_cursor s) (lsize s)) as [Hlt|Hge].
  - destruct (pnc_spec s payload HWF HGR) as (l & rest & HI & Hfind & [[Hshort E]|[Hlong (s2 & E & Hline2 & Hcur2 & Hcap2 & Herr2 & Hcase2)]]).
    + rewrite E. destruct (compact_props s HWF) as (HWFc & Hinpc & Hfinc & Hremc & Hcurc).
      destruct (gnc_loop_spec fuel (compact s) payload (zlen l) HWFc ltac:(rewrite Hfinc; exact Hfin) Hcurc
                  ltac:(rewrite Hinpc; exact HGR) ltac:(rewrite Hinpc; exact Hfind)) as (s' & E' & HP & Hc' & Hm).
      { left. unfold lsize, compact. cbn. rewrite zlen_zdrop by (unfold lsize in *; lia). unfold lsize in *. lia. }
      { exact Hfuel. }
      exists s'. rewrite E'. splits; auto; try (intros Hf; rewrite <- Hinpc; auto).
    + rewrite E. exists s2. split; [reflexivity|]. pose proof (zlen_nonneg l).
      destruct Hcase2 as [(Hfin2 & Hps2 & HGR2 & Hinp2 & Hrem2)|(HFin2 & Hp2)].
      * split; [|split; [exact Hcap2|]].
        -- right. split; [|exact Hrem2]. unfold Inv, WF. rewrite Hinp2. unfold lsize in *. rewrite Hline2, Hcur2, Hcap2, Hfin2.
           splits; auto; try lia.
        -- intros _. rewrite Hinp2, HI, !zlen_app. change (zlen CRLF) with 2. lia.
      * split; [left; split; [exact HFin2|exact Hp2]|]. split; [exact Hcap2|].
        intros Hf. destruct HFin2 as (Hfin2 & _). rewrite Hfin2 in Hf. discriminate.
  - assert (Heq : c_cursor s = lsize s) by lia. rewrite Heq, Z.eqb_refl.
    set (s0 := set_line s [] 0).
    assert (Hinp0 : inp s0 = inp s).
    { unfold inp, s0. cbn [set_line c_cursor c_line c_ps]. rewrite (zdrop_all (c_cursor s)) by (unfold lsize in *; lia). reflexivity. }
    assert (HWF0 : WF s0) by (unfold WF, s0, lsize; cbn; unfold LINE_BUFFER_SIZE in *; splits; auto; lia).
    destruct (G0_line _ _ HGR) as (l & rest & _ & Hfind & _).
    destruct (gnc_loop_spec fuel s0 payload (zlen l) HWF0 Hfin eq_refl
                ltac:(rewrite Hinp0; exact HGR) ltac:(rewrite Hinp0; exact Hfind)) as (s' & E' & HP & Hc' & Hm).
    { right. unfold lsize, s0. cbn. lia. }
    { exact Hfuel. }
    exists s'. rewrite E'. splits; auto; try (intros Hf; rewrite <- Hinp0; auto).
Qed.

(* ------------------------------------------------------------ finished ---- *)
Lemma gnc_loop_finished fuel s : c_finish s = true -> gnc_loop fuel s = Some (0, s).
Proof. intros H. destruct fuel; cbn [gnc_loop]; rewrite H; reflexivity. Qed.

Lemma prefix_of_crlf (r x : bytes) : r ++ x = CRLF -> r = [] \/ r = [13] \/ r = [13; 10].
Proof.
  intros H. destruct r as [|a r]; [left; reflexivity|]. right.
  cbn in H. unfold CRLF in H. injection H as Ha Hr.
  destruct r as [|b r]; [left; subst; reflexivity|]. right.
  cbn in Hr. injection Hr as Hb Hr2.
  destruct r; [subst; reflexivity|discriminate].
Qed.

Lemma gnc_finished fuel s : Fin s ->
  exists s', get_new_chunk fuel s = Some (0, s') /\ c_finish s' = true /\ c_cap s' = c_cap s.
Proof.
  intros (Hfin & (Herr & Hcur & Hls & Hcap) & Hrem & x & Hx).
  unfold get_new_chunk.
  destruct (Z.ltb_spec (c_cursor s) (lsize s)) as [Hlt|Hge].
  - unfold pos_next_chunk.
    destruct (Z.ltb_spec (c_cursor s) 0) as [|_]; [lia|].
    destruct (Z.ltb_spec (lsize s) (c_cursor s)) as [|_]; [lia|]. cbn [orb].
    destruct (prefix_of_crlf _ _ Hx) as [E|[E|E]]; rewrite E.
    + exfalso. apply (f_equal zlen) in E. rewrite zlen_zdrop in E by (unfold lsize in *; lia).
      change (zlen (@nil Z)) with 0 in E. unfold lsize in *. lia.
    + cbn [find_crlf]. rewrite gnc_loop_finished by exact Hfin.
      eexists. split; [reflexivity|]. split; [exact Hfin|reflexivity].
    + cbn. eexists. split; [reflexivity|]. split; [exact Hfin|reflexivity].
  - assert (Heq : c_cursor s = lsize s) by lia. rewrite Heq, Z.eqb_refl.
    rewrite gnc_loop_finished by exact Hfin.
    eexists. split; [reflexivity|]. split; [exact Hfin|reflexivity].
Qed.

Lemma loop_finished fuel s count ret out :
  c_finish s = true -> crs_read_loop fuel s count ret out = Some (ret, out, s).
Proof. intros H. destruct fuel; cbn [crs_read_loop]; rewrite H, andb_false_r; reflexivity. Qed.

(* -------------------------------------------------------- read_from_stream -- *)
Lemma rfs_spec s count payload :
  Inv s payload -> RemOk s -> 0 < c_remain s -> 0 < count -> c_cursor s = lsize s ->
  let r := Z.min count (c_remain s) in
  exists s', read_from_stream s count = (r, s', count - r, ztake r payload)
    /\ Inv s' (zdrop r payload) /\ RemOk s' /\ c_remain s' = c_remain s - r
    /\ inp s' = zdrop r (inp s) /\ c_cap s' = c_cap s.
Proof.
  intros (HWF & Hfin & HGR) (Hk0 & HkW) Hk Hc Hcl r.
  pose proof HWF as (Herr & Hcur & Hls & Hcap).
  assert (Hinp : inp s = concat (c_ps s)).
  { unfold inp. rewrite zdrop_all by (unfold lsize in *; lia). reflexivity. }
  destruct (GR_len _ _ _ HGR) as (Hkp & HkI).
  assert (Hr : 1 <= r <= c_remain s /\ r <= count) by (unfold r; lia).
  destruct (GR_advance _ _ _ r HGR ltac:(lia)) as (Htake & HGR1).
  unfold read_from_stream. fold r.
  destruct (sk_read_enough (c_ps s) (c_err s) r) as (ps' & E & C).
  { rewrite Hinp in HkI. unfold total_len. lia. }
  rewrite E. destruct (Z.ltb_spec r 0) as [|_]; [lia|].
  rewrite wrap_small by lia.
  eexists. split; [f_equal; rewrite <- Htake, Hinp; reflexivity|].
  assert (Hinp' : zdrop (c_cursor s) (c_line s) ++ concat ps' = zdrop r (inp s)).
  { rewrite C, Hinp. rewrite zdrop_all by (unfold lsize in *; lia). reflexivity. }
  unfold Inv, WF, RemOk, inp, lsize. cbn [c_line c_cursor c_cap c_err c_finish c_ps c_remain].
  unfold lsize in *. splits; auto; try lia.
  rewrite Hinp'. exact HGR1.
Qed.

(* ---------------------------------------------------------------- read ---- *)
Lemma zdrop_nil_len {A} n (l : list A) : 0 <= n <= zlen l -> zdrop n l = [] -> n = zlen l.
Proof.
  intros Hn H. apply (f_equal zlen) in H. rewrite zlen_zdrop in H by lia. change (zlen (@nil A)) with 0 in H. lia.
Qed.

Lemma loop_spec : forall fuel s count ret out payload,
  Inv s payload -> RemOk s -> 0 <= count -> zlen (inp s) + 1 < Z.of_nat fuel ->
  let n := Z.min count (zlen payload) in
  exists s', crs_read_loop fuel s count ret out = Some (ret + n, out ++ ztake n payload, s')
    /\ Post s' (zdrop n payload) /\ c_cap s' = c_cap s
    /\ (zlen payload < count -> c_finish s' = true).
Proof.
  induction fuel as [|f IH]; intros s count ret out payload HInv HRem Hc Hfuel n.
  { pose proof (zlen_nonneg (inp s)). lia. }
  pose proof HInv as (HWF & Hfin & HGR). pose proof HWF as (Herr & Hcur & Hls & Hcap).
  pose proof (zlen_nonneg payload) as Hpl.
  cbn [crs_read_loop]. rewrite Hfin. cbn [negb]. rewrite andb_true_r.
  destruct (Z.ltb_spec 0 count) as [Hc0|Hc0].
  2:{ assert (n = 0) by (unfold n; lia). exists s. rewrite H, ztake_nonpos, zdrop_nonpos, app_nil_r, Z.add_0_r by lia.
      splits; auto; [right; split; assumption|lia]. }
  assert (Hav : lsize s - c_cursor s < Z.of_nat (S f)).
  { assert (lsize s - c_cursor s <= zlen (inp s)).
    { unfold inp. rewrite zlen_app, zlen_zdrop by (unfold lsize in *; lia). pose proof (zlen_nonneg (concat (c_ps s))). unfold lsize. lia. }
    lia. }
  destruct (rflb_spec (S f) s count 0 [] payload HInv HRem ltac:(lia) Hav)
    as (n1 & s1 & E1 & Hn1 & Hn1p & HPost1 & Hmeas1 & Hcap1 & Hpost1).
  rewrite E1. cbn [app]. rewrite Z.add_0_l.
  destruct HPost1 as [[HFin1 Hp1]|[HInv1 HRem1]].
  - (* finished inside the line buffer *)
    pose proof HFin1 as (Hfin1 & _ & Hrem1 & _).
    assert (Hn1eq : n1 = zlen payload) by (apply zdrop_nil_len; [lia|exact Hp1]).
    rewrite Hrem1. change (0 <? 0) with false. cbn [andb]. cbv beta iota.
    rewrite Hrem1. change (0 =? 0) with true. cbv beta iota.
    destruct (gnc_finished (S f) s1 HFin1) as (s3 & E3 & Hfin3 & Hcap3).
    rewrite E3. change (0 <? 0) with false. cbv beta iota.
    rewrite loop_finished by exact Hfin3.
    assert (Hn : n = n1) by (unfold n; lia).
    exists s3. rewrite Hn. splits; auto.
    + (* Post s3 [] *)
      left. split; [|exact Hp1].
      (* Fin s3: re-derive from gnc on a finished state *)
      clear - E3 HFin1 Hfin3. destruct HFin1 as (Hfin & (Herr & Hcur & Hls & Hcap) & Hrem & x & Hx).
      unfold get_new_chunk in E3.
      destruct (Z.ltb_spec (c_cursor s1) (lsize s1)) as [Hlt|Hge].
      * unfold pos_next_chunk in E3.
        destruct (Z.ltb_spec (c_cursor s1) 0) as [|_]; [lia|].
        destruct (Z.ltb_spec (lsize s1) (c_cursor s1)) as [|_]; [lia|]. cbn [orb] in E3.
        destruct (prefix_of_crlf _ _ Hx) as [E|[E|E]]; rewrite E in E3.
        -- exfalso. apply (f_equal zlen) in E. rewrite zlen_zdrop in E by (unfold lsize in *; lia).
           change (zlen (@nil Z)) with 0 in E. unfold lsize in *. lia.
        -- cbn [find_crlf] in E3. rewrite gnc_loop_finished in E3 by exact Hfin. inversion E3; subst s3.
           destruct (compact_props s1 ltac:(unfold WF; splits; auto; lia)) as (HWFc & _ & _ & Hremc & Hcurc).
           unfold Fin. splits; auto; try (rewrite Hremc; exact Hrem).
           exists [10]. unfold compact, set_line. cbn [c_cursor c_line]. rewrite zdrop_nonpos by lia. rewrite E. reflexivity.
        -- cbn in E3. inversion E3; subst s3. unfold Fin, WF, lsize. cbn [c_line c_cursor c_cap c_err c_finish c_ps c_remain].
           assert (Hl2 : zlen (zdrop (c_cursor s1) (c_line s1)) = 2) by (rewrite E; reflexivity).
           rewrite zlen_zdrop in Hl2 by (unfold lsize in *; lia). unfold lsize in *.
           splits; auto; try lia. exists CRLF. rewrite zdrop_all by lia. reflexivity.
      * assert (Heq : c_cursor s1 = lsize s1) by lia. rewrite Heq, Z.eqb_refl in E3.
        rewrite gnc_loop_finished in E3 by exact Hfin. inversion E3; subst s3.
        unfold Fin, WF, set_line, lsize. cbn [c_line c_cursor c_cap c_err c_finish c_ps c_remain].
        change (zlen (@nil Z)) with 0. unfold LINE_BUFFER_SIZE in *. splits; auto; try lia. exists CRLF. reflexivity.
    + lia.
  - (* not finished after the line buffer *)
    pose proof HInv1 as (HWF1 & Hfin1 & HGR1). pose proof HRem1 as (Hk1 & HkW1).
    specialize (Hmeas1 Hfin1).
    set (p1 := zdrop n1 payload) in *. assert (Hp1l : zlen p1 = zlen payload - n1) by (unfold p1; rewrite zlen_zdrop; lia).
    destruct (Z.ltb_spec 0 (c_remain s1)) as [Hr1pos|Hr1z]; cbn [andb].
    + destruct (Z.ltb_spec 0 (count - n1)) as [Hc1pos|Hc1z]; cbv beta iota.
      * (* read the rest of the chunk from the socket *)
        specialize (Hpost1 Hfin1 Hc1pos Hr1pos).
        destruct (rfs_spec s1 (count - n1) p1 HInv1 HRem1 Hr1pos Hc1pos Hpost1)
          as (s2 & E2 & HInv2 & HRem2 & Hrem2 & Hinp2 & Hcap2).
        set (r := Z.min (count - n1) (c_remain s1)) in *.
        assert (Hr : 1 <= r) by (unfold r; lia).
        rewrite E2. cbv beta iota. destruct (Z.ltb_spec r 0) as [|_]; [lia|]. cbv beta iota.
        change (0 <? 0) with false. cbv beta iota.
        destruct (Z.eqb_spec r 0) as [|_]; [lia|]. rewrite andb_false_r.
        destruct (GR_len _ _ _ HGR1) as (Hk1p & Hk1I).
        assert (Hlen2 : zlen (inp s2) = zlen (inp s1) - r) by (rewrite Hinp2, zlen_zdrop; lia).
        pose proof HInv2 as (HWF2 & Hfin2 & HGR2).
        assert (Hout : (ztake n1 payload ++ ztake r p1) = ztake (n1 + r) payload)
          by (unfold p1; rewrite ztake_add by lia; reflexivity).
        assert (Hp2 : zdrop r p1 = zdrop (n1 + r) payload) by (unfold p1; rewrite zdrop_zdrop by lia; f_equal; lia).
        destruct (Z.eqb_spec (c_remain s2) 0) as [Hz2|Hnz2].
        -- destruct (gnc_spec (S f) s2 (zdrop r p1) HInv2 Hz2) as (s3 & E3 & HPost3 & Hcap3 & Hmeas3).
           { assert (total_len (c_ps s2) <= zlen (inp s2)).
             { unfold inp, total_len. rewrite zlen_app. pose proof (zlen_nonneg (zdrop (c_cursor s2) (c_line s2))). lia. }
             lia. }
           rewrite E3. change (0 <? 0) with false. cbv beta iota.
           destruct HPost3 as [[HFin3 Hp3]|[HInv3 HRem3]].
           ++ pose proof HFin3 as (Hfin3 & _). rewrite loop_finished by exact Hfin3.
              assert (Hn : n = n1 + r).
              { rewrite Hp2 in Hp3. apply zdrop_nil_len in Hp3; [|lia]. unfold n. lia. }
              exists s3. rewrite Hn, <- Hout, app_assoc, Z.add_assoc. splits; auto; try lia.
              left. split; [exact HFin3|]. rewrite <- Hp2. exact Hp3.
           ++ pose proof HInv3 as (_ & Hfin3 & _). specialize (Hmeas3 Hfin3).
              destruct (IH s3 (count - n1 - r) (ret + n1 + r) ((out ++ ztake n1 payload) ++ ztake r p1) (zdrop r p1)
                           HInv3 HRem3 ltac:(lia) ltac:(lia)) as (s' & E' & HPost' & Hcap' & Hfin').
              rewrite E'. rewrite Hp2 in *. rewrite zlen_zdrop in * by lia.
              set (n' := Z.min (count - n1 - r) (zlen payload - (n1 + r))) in *.
              assert (Hn : n = n1 + r + n') by (unfold n, n'; lia).
              exists s'. rewrite Hn. splits; try lia.
              ** f_equal. f_equal. f_equal; [lia|].
                 rewrite <- !app_assoc. f_equal. rewrite app_assoc, Hout. rewrite (ztake_add (n1 + r) n') by (unfold n'; lia). reflexivity.
              ** rewrite zdrop_zdrop in HPost' by (unfold n'; lia). replace (n1 + r + n') with (n' + (n1 + r)) by lia. exact HPost'.
              ** intros Hlt. apply Hfin'. lia.
        -- (* the chunk is not exhausted: count is *)
           assert (Hcnt2 : count - n1 - r = 0) by (unfold r in *; lia).
           destruct (IH s2 (count - n1 - r) (ret + n1 + r) ((out ++ ztake n1 payload) ++ ztake r p1) (zdrop r p1)
                        HInv2 HRem2 ltac:(lia) ltac:(lia)) as (s' & E' & HPost' & Hcap' & Hfin').
           rewrite E'. rewrite Hp2 in *. rewrite zlen_zdrop in * by lia.
           set (n' := Z.min (count - n1 - r) (zlen payload - (n1 + r))) in *.
           assert (Hn'0 : n' = 0) by (unfold n'; lia).
           assert (Hn : n = n1 + r + n') by (unfold n; lia).
           exists s'. rewrite Hn. splits; try lia.
           ++ f_equal. f_equal. f_equal; [lia|].
              rewrite <- !app_assoc. f_equal. rewrite app_assoc, Hout. rewrite (ztake_add (n1 + r) n') by lia. reflexivity.
           ++ rewrite zdrop_zdrop in HPost' by lia. replace (n1 + r + n') with (n' + (n1 + r)) by lia. exact HPost'.
      * (* count exhausted inside the chunk *)
        change (0 <? 0) with false. cbv beta iota.
        destruct (Z.eqb_spec (c_remain s1) 0) as [|_]; [lia|].
        destruct (IH s1 (count - n1) (ret + n1) (out ++ ztake n1 payload) p1 HInv1 HRem1 ltac:(lia) ltac:(lia))
          as (s' & E' & HPost' & Hcap' & Hfin').
        rewrite E'. rewrite Hp1l in *.
        set (n' := Z.min (count - n1) (zlen payload - n1)) in *.
        assert (Hn'0 : n' = 0) by (unfold n'; lia).
        assert (Hn : n = n1 + n') by (unfold n; lia).
        exists s'. rewrite Hn. splits; try lia.
        -- f_equal. f_equal. f_equal; [lia|]. rewrite <- app_assoc. f_equal. unfold p1. rewrite ztake_add by lia. reflexivity.
        -- unfold p1 in HPost'. rewrite zdrop_zdrop in HPost' by lia. replace (n1 + n') with (n' + n1) by lia. exact HPost'.
    + (* chunk boundary: fetch the next size line *)
      cbv beta iota. change (0 <? 0) with false. cbv beta iota.
      assert (Hz1 : c_remain s1 = 0) by lia. rewrite Hz1. change (0 =? 0) with true. cbv beta iota.
      destruct (gnc_spec (S f) s1 p1 HInv1 Hz1) as (s3 & E3 & HPost3 & Hcap3 & Hmeas3).
      { assert (total_len (c_ps s1) <= zlen (inp s1)).
        { unfold inp, total_len. rewrite zlen_app. pose proof (zlen_nonneg (zdrop (c_cursor s1) (c_line s1))). lia. }
        lia. }
      rewrite E3. change (0 <? 0) with false. cbv beta iota.
      destruct HPost3 as [[HFin3 Hp3]|[HInv3 HRem3]].
      * pose proof HFin3 as (Hfin3 & _). rewrite loop_finished by exact Hfin3.
        assert (Hn : n = n1) by (unfold p1 in Hp3; apply zdrop_nil_len in Hp3; [|lia]; unfold n; lia).
        exists s3. rewrite Hn. splits; auto; try lia.
        left. split; [exact HFin3|exact Hp3].
      * pose proof HInv3 as (_ & Hfin3 & _). specialize (Hmeas3 Hfin3).
        destruct (IH s3 (count - n1) (ret + n1) (out ++ ztake n1 payload) p1 HInv3 HRem3 ltac:(lia) ltac:(lia))
          as (s' & E' & HPost' & Hcap' & Hfin').
        rewrite E'. rewrite Hp1l in *.
        set (n' := Z.min (count - n1) (zlen payload - n1)) in *.
        assert (Hn : n = n1 + n') by (unfold n, n'; lia).
        exists s'. rewrite Hn. splits; try lia.
        -- f_equal. f_equal. f_equal; [lia|]. rewrite <- app_assoc. f_equal. unfold p1. rewrite ztake_add by (unfold n'; lia). reflexivity.
        -- unfold p1 in HPost'. rewrite zdrop_zdrop in HPost' by (unfold n'; lia). replace (n1 + n') with (n' + n1) by lia. exact HPost'.
        -- intros Hlt. apply Hfin'. lia.
Qed.

(* ------------------------------------------------------------- theorem ---- *)
Lemma ztake_nil {A} n : ztake n (@nil A) = [].
Proof. unfold ztake. apply firstn_nil. Qed.
Lemma zdrop_nil {A} n : zdrop n (@nil A) = [].
Proof. unfold zdrop. apply skipn_nil. Qed.

Lemma crs_read_spec s count payload :
  Inv s payload -> RemOk s -> 0 <= count ->
  let n := Z.min count (zlen payload) in
  exists s', crs_read s count = Some (n, ztake n payload, s')
    /\ Post s' (zdrop n payload) /\ c_cap s' = c_cap s
    /\ (zlen payload < count -> c_finish s' = true).
Proof.
  intros HInv HRem Hc n. unfold crs_read, crs_read_f.
  assert (Hfuel : zlen (inp s) + 1 < Z.of_nat (crs_fuel s)).
  { destruct HInv as ((_ & Hcur & _) & _). unfold crs_fuel, inp.
    rewrite zlen_app, zlen_zdrop by (unfold lsize in *; lia). unfold zlen in *. unfold lsize, zlen in Hcur. lia. }
  destruct (loop_spec (crs_fuel s) s count 0 [] payload HInv HRem Hc Hfuel) as (s' & E & H).
  exists s'. rewrite E. cbn [app]. rewrite Z.add_0_l. split; [reflexivity|exact H].
Qed.

Lemma crs_read_finished s count : c_finish s = true -> crs_read s count = Some (0, [], s).
Proof. intros H. unfold crs_read, crs_read_f. apply loop_finished. exact H. Qed.

(* a sequence of reads; None = out of range / fuel *)
Fixpoint crs_run (s : crs) (counts : list Z) : option (list (Z * bytes) * crs) :=
  match counts with
  | [] => Some ([], s)
  | c :: t => match crs_read s c with
              | None => None
              | Some (r, o, s1) =>
                match crs_run s1 t with
                | None => None
                | Some (l, s2) => Some ((r, o) :: l, s2)
                end
              end
  end.

Lemma crs_run_spec : forall counts s payload,
  Post s payload -> Forall (fun c => 0 <= c) counts ->
  exists l s', crs_run s counts = Some (l, s')
    /\ outs l = ztake (zsum counts) payload
    /\ Forall2 (fun r o => r = zlen o) (rets l) (map snd l)
    /\ Post s' (zdrop (zsum counts) payload)
    /\ (zlen payload < zsum counts -> c_finish s' = true).
Proof.
  induction counts as [|c t IH]; intros s payload HPost Hall.
  - exists [], s. cbn [crs_run zsum]. pose proof (zlen_nonneg payload).
    rewrite ztake_nonpos, zdrop_nonpos by lia. splits; auto; [constructor|lia].
  - inversion Hall as [|? ? Hc Ht]; subst. cbn [crs_run zsum].
    pose proof (zsum_nonneg t Ht) as Hst. pose proof (zlen_nonneg payload) as Hpl.
    destruct HPost as [[HFin Hp]|[HInv HRem]].
    + pose proof HFin as (Hfin & _). rewrite crs_read_finished by exact Hfin.
      destruct (IH s payload ltac:(left; split; assumption) Ht) as (l & s' & E & Ho & Hf & HP & Hfi).
      rewrite E. exists ((0, []) :: l), s'. subst payload. unfold outs, rets in *. cbn [map concat fst snd app].
      rewrite !ztake_nil in *. rewrite !zdrop_nil in *.
      split; [reflexivity|]. split; [exact Ho|]. split; [constructor; [reflexivity|exact Hf]|]. split; [exact HP|].
      * intros _. destruct HP as [[(Hf' & _) _]|[(_ & Hf' & _) _]]; [exact Hf'|].
        (* a finished stream stays finished *)
        clear - E Hfin. revert s s' l E Hfin. induction t as [|c' t' IHt]; intros s s' l E Hfin; cbn [crs_run] in E.
        -- inversion E; subst. exact Hfin.
        -- rewrite crs_read_finished in E by exact Hfin. destruct (crs_run s t') as [[l' s'']|] eqn:E'; [|discriminate].
           inversion E; subst. apply (IHt s s' l' E' Hfin).
    + destruct (crs_read_spec s c payload HInv HRem Hc) as (s1 & E1 & HPost1 & _ & Hfin1).
      set (n := Z.min c (zlen payload)) in *. rewrite E1.
      assert (Hn : 0 <= n <= zlen payload /\ n <= c) by (unfold n; lia).
      destruct (IH s1 (zdrop n payload) HPost1 Ht) as (l & s' & E & Ho & Hf & HP & Hfi).
      rewrite E. exists ((n, ztake n payload) :: l), s'. unfold outs, rets in *. cbn [map concat fst snd].
      rewrite zlen_zdrop in Hfi by lia.
      assert (Hkey : ztake n payload ++ ztake (zsum t) (zdrop n payload) = ztake (c + zsum t) payload).
      { destruct (Z.le_gt_cases c (zlen payload)) as [Hle|Hgt].
        - assert (Hnc : n = c) by (unfold n; lia). rewrite Hnc. rewrite ztake_add by lia. reflexivity.
        - assert (Hnl : n = zlen payload) by (unfold n; lia). rewrite Hnl.
          rewrite (zdrop_all (zlen payload)) by lia. rewrite ztake_nil, app_nil_r. rewrite !ztake_all by lia. reflexivity. }
      assert (Hkey2 : zdrop (zsum t) (zdrop n payload) = zdrop (c + zsum t) payload).
      { rewrite zdrop_zdrop by lia. destruct (Z.le_gt_cases c (zlen payload)) as [Hle|Hgt].
        - f_equal. unfold n. lia.
        - rewrite !zdrop_all by (unfold n; lia). reflexivity. }
      split; [reflexivity|]. split; [rewrite Ho; exact Hkey|].
      split; [constructor; [rewrite zlen_ztake; lia|exact Hf]|].
      split; [rewrite <- Hkey2; exact HP|].
      intros Hlt. destruct (Z.le_gt_cases c (zlen payload)) as [Hle|Hgt].
      * apply Hfi. unfold n. lia.
      * specialize (Hfin1 Hgt).
        clear - E Hfin1. revert s1 s' l E Hfin1. induction t as [|c' t' IHt]; intros s1 s' l E Hfin; cbn [crs_run] in E.
        -- inversion E; subst. exact Hfin.
        -- rewrite crs_read_finished in E by exact Hfin. destruct (crs_run s1 t') as [[l' s'']|] eqn:E'; [|discriminate].
           inversion E; subst. apply (IHt s1 s' l' E' Hfin).
Qed.

(* valid_chunked wire payload: RFC 7230 4.1 without trailers *)
Inductive valid_chunked : bytes -> bytes -> Prop :=
| VC_last line : line <> [] -> size_line line 0 ->
    valid_chunked (line ++ CRLF ++ CRLF) []
| VC_chunk line data rest payload :
    0 < zlen data < W64 -> size_line line (zlen data) -> valid_chunked rest payload ->
    valid_chunked (line ++ CRLF ++ data ++ CRLF ++ rest) (data ++ payload).

Lemma valid_G0 wire payload : valid_chunked wire payload -> G0 wire payload.
Proof.
  induction 1 as [line Hne Hs|line data rest payload Hd Hs Hv IH].
  - apply G0_last; assumption.
  - apply G0_chunk; [exact Hd|exact Hs|]. apply G0_crlf. exact IH.
Qed.

(* chunked_decode_spec: for every valid chunked encoding (any chunk sizes, multi-KB chunks,
   extensions, hex case, size lines up to the 4 KB line buffer), every partial body of at
   most 4096 bytes, every fragmentation of the rest, every sequence of read sizes: no
   out-of-range access and no fuel exhaustion, the results concatenate to the payload prefix,
   each has the length it reports, and once more than the payload was asked for the stream
   is finished and every further read returns 0. *)
Lemma chunked_decode_spec_proof :
  forall (wire payload partial : bytes) (ps : pieces) (counts : list Z),
    valid_chunked wire payload -> partial ++ concat ps = wire -> zlen partial <= LINE_BUFFER_SIZE ->
    Forall (fun c => 0 <= c) counts ->
    exists l s', crs_run (crs_init LINE_BUFFER_SIZE partial ps false) counts = Some (l, s')
      /\ outs l = ztake (zsum counts) payload
      /\ Forall2 (fun r o => r = zlen o) (rets l) (map snd l)
      /\ (zlen payload < zsum counts ->
          c_finish s' = true /\ forall c, crs_read s' c = Some (0, [], s')).
Proof.
  intros wire payload partial ps counts Hv Hw Hp Hall.
  assert (HPost : Post (crs_init LINE_BUFFER_SIZE partial ps false) payload).
  { right. pose proof (zlen_nonneg partial). split.
    - unfold Inv, WF, inp, lsize. cbn [crs_init c_line c_cursor c_cap c_err c_finish c_ps c_remain].
      rewrite zdrop_nonpos by lia. splits; auto; try lia. apply GR_0. rewrite Hw. apply valid_G0. exact Hv.
    - unfold RemOk. cbn. unfold W64. lia. }
  destruct (crs_run_spec counts _ payload HPost Hall) as (l & s' & E & Ho & Hf & _ & Hfin).
  exists l, s'. splits; auto. intros Hlt. specialize (Hfin Hlt). split; [exact Hfin|].
  intros c. apply crs_read_finished. exact Hfin.
Qed.
