(* C13_Model.v — executable model of net/http/body.cpp (PhotonLibOS).
   Definitions only (no proofs).

   Bytes are Z in [0,256).  size_t values are Z with the mod 2^64 wrap written
   where the C++ can reach it.  The socket is an ORACLE given as an explicit
   argument: a list of pieces (the fragmentation in which the peer's byte string
   arrives) and a flag telling whether the stream ends with EOF (0) or with an
   error (-1).  `recv` returns at most the rest of the current piece, `read`
   returns exactly `count` bytes unless EOF / error (net/socket.h 237-261,
   common/stream.h 33-50).

   Out-of-range accesses and fuel exhaustion are explicit `None`s. *)
From Coq Require Import ZArith List Bool.
From PV Require Import Base.U64.
Import ListNotations.
Local Open Scope Z_scope.

Definition bytes := list Z.
Definition pieces := list bytes.

Definition zlen {A} (l : list A) : Z := Z.of_nat (length l).
Definition ztake {A} (n : Z) (l : list A) : list A := firstn (Z.to_nat n) l.
Definition zdrop {A} (n : Z) (l : list A) : list A := skipn (Z.to_nat n) l.

(* ------------------------------------------------------------------ socket *)
(* ISocketStream::recv(buf, count): some bytes, at most `count`, at most the
   rest of the piece that is in flight; 0 at EOF; -1 on error. *)
Fixpoint sk_recv (ps : pieces) (err : bool) (count : Z) : Z * bytes * pieces :=
  match ps with
  | [] => ((if err then -1 else 0), [], [])
  | p :: rest =>
    match p with
    | [] => sk_recv rest err count
    | _ :: _ =>
      let n := Z.min count (zlen p) in
      if n <? zlen p then (n, ztake n p, zdrop n p :: rest)
      else (n, p, rest)
    end
  end.

(* IStream::read(buf, count): exactly `count` bytes unless EOF (short count) or
   error (-1). *)
Fixpoint sk_read (ps : pieces) (err : bool) (count : Z) : Z * bytes * pieces :=
  match ps with
  | [] => ((if count <=? 0 then 0 else if err then -1 else 0), [], [])
  | p :: rest =>
    if count <=? 0 then (0, [], ps)
    else if count <? zlen p then (count, ztake count p, zdrop count p :: rest)
    else
      let '(r, bs, ps') := sk_read rest err (count - zlen p) in
      if r <? 0 then (-1, [], ps') else (zlen p + r, p ++ bs, ps')
  end.

Definition total_len (ps : pieces) : Z := zlen (concat ps).

(* ------------------------------------------------------- BodyReadStream ---- *)
(* body.cpp 53-119 *)
Definition SKIP_LIMIT : Z := 4096.
Definition LINE_BUFFER_SIZE : Z := 4096.

Record brs := mkBrs {
  b_partial : bytes;      (* m_partial_body_buf[0 .. m_partial_body_remain) *)
  b_remain : Z;           (* m_body_remain *)
  b_cd : bool;            (* m_close_delim *)
  b_ps : pieces; b_err : bool }.

(* ctor 55-66 *)
Definition brs_init (partial : bytes) (body_remain : Z) (ps : pieces) (err : bool) : brs :=
  mkBrs partial body_remain (body_remain =? MAX64) ps err.

(* read 77-98: returns (ret, bytes stored in buf[0..ret), new state) *)
Definition brs_read (s : brs) (count0 : Z) : Z * bytes * brs :=
  let count1 := if negb (b_cd s) && (b_remain s <? count0) then b_remain s else count0 in
  let rfr := Z.min count1 (zlen (b_partial s)) in
  let out1 := ztake rfr (b_partial s) in
  let partial' := zdrop rfr (b_partial s) in
  let count2 := count1 - rfr in
  let remain1 := if b_cd s then b_remain s else wrap (b_remain s - rfr) in
  if 0 <? count2 then
    let '(r, bs, ps') := sk_read (b_ps s) (b_err s) count2 in
    if r <? 0 then (r, [], mkBrs partial' remain1 (b_cd s) ps' (b_err s))
    else
      let remain2 := if b_cd s then remain1 else wrap (remain1 - r) in
      (rfr + r, out1 ++ bs, mkBrs partial' remain2 (b_cd s) ps' (b_err s))
  else (rfr, out1, mkBrs partial' remain1 (b_cd s) (b_ps s) (b_err s)).

(* close 69-75, without the skip_read call (net/basic_socket.cpp, not anchored):
   Some 0 / Some (-1) when decided without the socket, None = "would skip_read n" *)
Definition brs_close_decision (s : brs) : option Z * Z :=
  if b_cd s then (Some 0, 0)
  else
    let sr := wrap (b_remain s - zlen (b_partial s)) in
    if SKIP_LIMIT <? sr then (Some (-1), sr)
    else if sr =? 0 then (Some 0, 0) else (None, sr).

(* ------------------------------------------------ estring_view helpers ---- *)
(* hex_char_to_digit, common/estring.cpp 72-80: result as unsigned char *)
Definition hex_digit (c : Z) : Z :=
  let cc := (c - 48) mod 256 in
  if cc <? 10 then cc
  else
    let c2 := Z.lor c 32 in
    let cc2 := (c2 - 97) mod 256 in
    if cc2 <? 6 then cc2 + 10 else 255.

(* _to_uint64_check<16>, estring.cpp 56-66: (number of digits, value mod 2^64) *)
Fixpoint hex_scan (s : bytes) (val : Z) (i : Z) : Z * Z :=
  match s with
  | [] => (i, val)
  | c :: t => let d := hex_digit c in
              if 16 <=? d then (i, val) else hex_scan t (wrap (val * 16 + d)) (i + 1)
  end.
(* hex_to_uint64(default 0), estring.h 357-361 *)
Definition hex_to_u64 (s : bytes) : Z :=
  let '(n, v) := hex_scan s 0 0 in if n =? 0 then 0 else v.

Fixpoint dec_scan (s : bytes) (val : Z) (i : Z) : Z * Z :=
  match s with
  | [] => (i, val)
  | c :: t => let d := (c - 48) mod 256 in
              if 10 <=? d then (i, val) else dec_scan t (wrap (val * 10 + d)) (i + 1)
  end.
(* to_uint64(default 0), estring.h 328-332 *)
Definition dec_to_u64 (s : bytes) : Z :=
  let '(n, v) := dec_scan s 0 0 in if n =? 0 then 0 else v.

(* string_view::find("\r\n") *)
Fixpoint find_crlf (s : bytes) : option Z :=
  match s with
  | [] => None
  | c :: t =>
    match t with
    | d :: _ => if (c =? 13) && (d =? 10) then Some 0
                else match find_crlf t with Some k => Some (k + 1) | None => None end
    | [] => None
    end
  end.

(* ------------------------------------------------ ChunkedBodyReadStream ---- *)
(* body.cpp 121-244 *)
Record crs := mkCrs {
  c_line : bytes;       (* m_get_line_buf[0 .. m_line_size) *)
  c_cursor : Z;         (* m_cursor *)
  c_remain : Z;         (* m_chunked_remain *)
  c_finish : bool;      (* m_finish *)
  c_ps : pieces; c_err : bool;
  c_closed : bool;      (* m_stream->close() was called (line 152) *)
  c_cap : Z }.          (* bytes addressable from m_get_line_buf *)

Definition crs_init (cap : Z) (partial : bytes) (ps : pieces) (err : bool) : crs :=
  mkCrs partial 0 0 false ps err false cap.

Definition lsize (s : crs) : Z := zlen (c_line s).
Definition set_line (s : crs) (l : bytes) (cur : Z) : crs :=
  mkCrs l cur (c_remain s) (c_finish s) (c_ps s) (c_err s) (c_closed s) (c_cap s).
Definition set_cursor (s : crs) (cur : Z) : crs := set_line s (c_line s) cur.

(* pos_next_chunk 132-155; None = the string_view would start outside the line buffer *)
Definition pos_next_chunk (s : crs) (pos : Z) : option (bool * crs) :=
  if (pos <? 0) || (lsize s <? pos) then None else
  let l := zdrop pos (c_line s) in
  match find_crlf l with
  | None => Some (false, s)
  | Some p =>
    let rem := hex_to_u64 (ztake p l) in
    let cur := c_cursor s + p + 2 in
    if negb (rem =? 0) || (p =? 0) then
      Some (true, mkCrs (c_line s) cur rem (c_finish s) (c_ps s) (c_err s) (c_closed s) (c_cap s))
    else
      let br := wrap (pos + p + 4 - lsize s) in
      if 2 <? br then
        Some (true, mkCrs (c_line s) cur rem true (c_ps s) (c_err s) (c_closed s) (c_cap s))
      else if 0 <? br then
        let '(r, _, ps') := sk_read (c_ps s) (c_err s) br in
        Some (true, mkCrs (c_line s) cur rem true ps' (c_err s)
                          (c_closed s || negb (r =? br)) (c_cap s))
      else
        Some (true, mkCrs (c_line s) cur rem true (c_ps s) (c_err s) (c_closed s) (c_cap s))
  end.

(* the "memmove; m_line_size -= m_cursor; m_cursor = 0" block 171-174 / 196-199 *)
Definition compact (s : crs) : crs := set_line s (zdrop (c_cursor s) (c_line s)) 0.
(* "if (m_cursor == m_line_size) m_cursor = m_line_size = 0" *)
Definition reset_if_end (s : crs) : crs :=
  if c_cursor s =? lsize s then set_line s [] 0 else s.

(* read_from_line_buf 156-180: (ret, state, count left, bytes appended to buf) *)
Fixpoint read_from_line_buf (fuel : nat) (s : crs) (count : Z) (ret : Z) (out : bytes)
  : option (Z * crs * Z * bytes) :=
  if (0 <? count) && (c_cursor s <? lsize s) && negb (c_finish s) then
    match fuel with
    | O => None
    | S f =>
      if c_cursor s <? 0 then None else
      let n := Z.min count (Z.min (c_remain s) (lsize s - c_cursor s)) in
      let data := ztake n (zdrop (c_cursor s) (c_line s)) in
      let s1 := mkCrs (c_line s) (c_cursor s + n) (wrap (c_remain s - n)) (c_finish s)
                      (c_ps s) (c_err s) (c_closed s) (c_cap s) in
      let count1 := count - n in
      let ret1 := ret + n in
      let out1 := out ++ data in
      if c_remain s1 =? 0 then
        match pos_next_chunk s1 (c_cursor s1) with
        | None => None
        | Some (false, s2) => Some (ret1, compact s2, count1, out1)
        | Some (true, s2) => read_from_line_buf f (reset_if_end s2) count1 ret1 out1
        end
      else read_from_line_buf f (reset_if_end s1) count1 ret1 out1
    end
  else Some (ret, s, count, out).

(* read_from_stream 181-190: (r, state, count left, bytes appended) *)
Definition read_from_stream (s : crs) (count : Z) : Z * crs * Z * bytes :=
  let n := Z.min count (c_remain s) in
  let '(r, bs, ps') := sk_read (c_ps s) (c_err s) n in
  if r <? 0 then (r, mkCrs (c_line s) (c_cursor s) (c_remain s) (c_finish s) ps' (c_err s) (c_closed s) (c_cap s), count, [])
  else (r, mkCrs (c_line s) (c_cursor s) (wrap (c_remain s - r)) (c_finish s) ps' (c_err s) (c_closed s) (c_cap s),
        count - r, bs).

(* the recv loop of get_new_chunk 205-218 *)
Fixpoint gnc_loop (fuel : nat) (s : crs) : option (Z * crs) :=
  if c_finish s then Some (0, s) else
  match fuel with
  | O => None
  | S f =>
    let cnt := wrap (LINE_BUFFER_SIZE - lsize s) in
    let '(r, bs, ps') := sk_recv (c_ps s) (c_err s) cnt in
    let s0 := mkCrs (c_line s) (c_cursor s) (c_remain s) (c_finish s) ps' (c_err s) (c_closed s) (c_cap s) in
    if r <? 0 then Some (r, s0)
    else if r =? 0 then Some (-1, s0)
    else if c_cap s <? lsize s + r then None          (* recv wrote past the buffer *)
    else
      let s1 := set_line s0 (c_line s ++ bs) (c_cursor s) in
      if lsize s1 <=? 2 then gnc_loop f s1
      else match pos_next_chunk s1 0 with
           | None => None
           | Some (true, s2) => Some (0, s2)
           | Some (false, s2) => gnc_loop f s2
           end
  end.

(* get_new_chunk 191-219 *)
Definition get_new_chunk (fuel : nat) (s : crs) : option (Z * crs) :=
  if c_cursor s <? lsize s then
    match pos_next_chunk s (c_cursor s) with
    | None => None
    | Some (true, s1) => Some (0, s1)
    | Some (false, s1) => gnc_loop fuel (compact s1)
    end
  else if c_cursor s =? lsize s then gnc_loop fuel (set_line s [] 0)
  else gnc_loop fuel s.

(* read 220-238: (ret, bytes in buf[0..ret) when ret >= 0, state) *)
Fixpoint crs_read_loop (fuel : nat) (s : crs) (count : Z) (ret : Z) (out : bytes)
  : option (Z * bytes * crs) :=
  if (0 <? count) && negb (c_finish s) then
    match fuel with
    | O => None
    | S f =>
      match read_from_line_buf fuel s count 0 [] with
      | None => None
      | Some (r1, s1, count1, o1) =>
        let ret1 := ret + r1 in
        let out1 := out ++ o1 in
        (* 225-230 *)
        let '(stop, err, s2, count2, ret2, out2) :=
          if (0 <? c_remain s1) && (0 <? count1) then
            let '(r, s2, count2, bs) := read_from_stream s1 count1 in
            if r <? 0 then (true, r, s2, count2, ret1, out1)
            else ((0 <? c_remain s2) && (r =? 0), 0, s2, count2, ret1 + r, out1 ++ bs)
          else (false, 0, s1, count1, ret1, out1) in
        if err <? 0 then Some (err, [], s2)
        else if stop then Some (ret2, out2, s2)
        else if c_remain s2 =? 0 then
          match get_new_chunk fuel s2 with
          | None => None
          | Some (r, s3) => if r <? 0 then Some (r, [], s3) else crs_read_loop f s3 count2 ret2 out2
          end
        else crs_read_loop f s2 count2 ret2 out2
      end
    end
  else Some (ret, out, s).

Definition crs_fuel (s : crs) : nat := S (S (length (c_line s) + length (concat (c_ps s)))).

(* any fuel >= crs_fuel s gives the same result (C13_Proofs.crs_read_f_fuel_mono); the runner
   computes the fuel of the initial state once and reuses it for every later read *)
Definition crs_read_f (fuel : nat) (s : crs) (count : Z) : option (Z * bytes * crs) :=
  crs_read_loop fuel s count 0 [].
Definition crs_read (s : crs) (count : Z) : option (Z * bytes * crs) :=
  crs_read_f (crs_fuel s) s count.

(* close 128-131 *)
Definition crs_close (s : crs) : Z := if c_finish s then 0 else -1.

(* ------------------------------------------------------------- writers ---- *)
(* the peer side of a write: accepts `w_budget` more bytes, then short-writes *)
Record wsock := mkW { w_out : bytes; w_budget : Z }.
Definition wk_write (w : wsock) (data : bytes) : Z * wsock :=
  let n := Z.min (zlen data) (w_budget w) in
  (n, mkW (w_out w ++ ztake n data) (w_budget w - n)).

(* BodyWriteStream 247-288 *)
Record bws := mkBws { bw_size : Z; bw_cnt : Z; bw_sock : wsock }.
Definition bws_write (s : bws) (data : bytes) : Z * bws :=
  let wc := Z.min (zlen data) (wrap (bw_size s - bw_cnt s)) in
  let '(r, w') := wk_write (bw_sock s) (ztake wc data) in
  if negb (r =? wc) then (-1, mkBws (bw_size s) (bw_cnt s) w')
  else (wc, mkBws (bw_size s) (bw_cnt s + wc) w').

(* "%zx" *)
Definition hexchar (d : Z) : Z := if d <? 10 then 48 + d else 87 + d.
Fixpoint to_hex_aux (fuel : nat) (x : Z) (acc : bytes) : bytes :=
  match fuel with
  | O => acc
  | S f => let acc' := hexchar (x mod 16) :: acc in
           if x / 16 =? 0 then acc' else to_hex_aux f (x / 16) acc'
  end.
Definition to_hex (x : Z) : bytes := to_hex_aux 16 x [].

(* ChunkedBodyWriteStream 290-336 *)
Record cws := mkCws { cw_finish : bool; cw_sock : wsock }.
Definition cws_write (s : cws) (data : bytes) : Z * cws :=
  let wire := to_hex (zlen data) ++ [13; 10] ++ data ++ [13; 10] in
  let '(r, w') := wk_write (cw_sock s) wire in
  if negb (r =? zlen wire) then (-1, mkCws (cw_finish s) w')
  else (zlen data, mkCws (cw_finish s) w').
Definition cws_close (s : cws) : Z * cws :=
  if cw_finish s then (0, s)
  else let '(r, s') := cws_write s [] in
       if r =? 0 then (0, mkCws true (cw_sock s')) else (-1, s').
