(* C13_ParseSafe.v — parse_malformed_safe: on EVERY byte string and fragmentation the header
   receiver never reaches an out-of-range access (every index entry lies inside the parsed
   buffer) and terminates within its fuel: |stream| + 2 recv rounds, capacity/8 + 2 rounds of
   HeadersBase::parse. *)
From Coq Require Import ZArith List Bool Lia.
From PV Require Import Base.U64 C13.C13_Model C13.C13_Msg C13.C13_Proofs C13.C13_ChunkSafe C13.C13_ChunkDecode C13.C13_ChunkTotal.
Import ListNotations.
Local Open Scope Z_scope.

Lemma find_char_bound c s : forall pos, find_char c s = Some pos -> 0 <= pos < zlen s.
Proof.
  induction s as [|x t IH]; intros pos H; [discriminate|]. cbn [find_char] in H. rewrite zlen_cons.
  pose proof (zlen_nonneg t). destruct (x =? c); [inversion H; lia|].
  destruct (find_char c t) as [k|]; [|discriminate]. inversion H; subst. specialize (IH k eq_refl). lia.
Qed.
Lemma skip_while_bound c s : 0 <= skip_while c s <= zlen s.
Proof.
  induction s as [|x t IH]; cbn [skip_while]; [cbn; lia|]. rewrite zlen_cons. destruct (x =? c); lia.
Qed.

Lemma u16_small x : 0 <= x < 65536 -> u16 x = x.
Proof. intros H. unfold u16. apply Z.mod_small. exact H. Qed.

Lemma P_extract_until_bounds b ptr c :
  0 <= ptr <= zlen b -> zlen b < 65536 ->
  let '((o, l), p') := P_extract_until b ptr c in
  ptr <= p' <= zlen b /\ o = ptr /\ 0 <= l /\ o + l <= zlen b.
Proof.
  intros Hp Hb. unfold P_extract_until.
  assert (Hl : zlen (zdrop ptr b) = zlen b - ptr) by (apply zlen_zdrop; lia).
  destruct (find_char c (zdrop ptr b)) as [pos|] eqn:Hf.
  - apply find_char_bound in Hf. rewrite Hl in Hf. rewrite !u16_small by lia. lia.
  - rewrite Hl. rewrite !u16_small by lia. lia.
Qed.
Lemma P_skip_chars_bounds b ptr c rep : 0 <= ptr <= zlen b -> ptr <= P_skip_chars b ptr c rep <= zlen b.
Proof.
  intros Hp. unfold P_skip_chars.
  assert (Hl : zlen (zdrop ptr b) = zlen b - ptr) by (apply zlen_zdrop; lia).
  destruct rep.
  - pose proof (skip_while_bound c (zdrop ptr b)). lia.
  - destruct (zdrop ptr b) as [|x t] eqn:E; [lia|]. rewrite zlen_cons in Hl. pose proof (zlen_nonneg t).
    destruct (x =? c); lia.
Qed.

Lemma parse_loop_safe : forall fuel hb hcap ptr kvs,
  zlen hb < 65536 -> 0 <= ptr <= zlen hb -> forallb (kv_in_range hb) kvs = true ->
  hcap / 8 + 2 <= Z.of_nat fuel + zlen kvs -> zlen kvs <= hcap / 8 -> 0 <= hcap ->
  match parse_loop fuel hb hcap ptr kvs with
  | None => False
  | Some None => True
  | Some (Some kvs') => forallb (kv_in_range hb) kvs' = true
  end.
Proof.
  induction fuel as [|f IH]; intros hb hcap ptr kvs Hb Hp Hin Hfuel Hn Hcap.
  { cbn in Hfuel. lia. }
  cbn [parse_loop].
  destruct (zlen hb <=? ptr); [exact Hin|].
  destruct (nth (Z.to_nat ptr) hb 0 =? B_cr); [exact Hin|].
  pose proof (P_extract_until_bounds hb ptr B_colon Hp Hb) as H1.
  destruct (P_extract_until hb ptr B_colon) as [[ko kl] p1]. destruct H1 as (Hp1 & Hko & Hkl & Hkr).
  pose proof (P_skip_chars_bounds hb p1 B_sp true ltac:(lia)) as Hp2.
  set (p2 := P_skip_chars hb p1 B_sp true) in *.
  pose proof (P_extract_until_bounds hb p2 B_cr ltac:(lia) Hb) as H3.
  destruct (P_extract_until hb p2 B_cr) as [[vo vl] p3]. destruct H3 as (Hp3 & Hvo & Hvl & Hvr).
  pose proof (P_skip_chars_bounds hb p3 B_lf false ltac:(lia)) as Hp4.
  cbn [fst snd].
  destruct (Z.leb_spec (hcap - 8 * (zlen kvs + 1)) (zlen hb)) as [|Hroom]; [exact I|].
  pose proof (zlen_nonneg hb) as Hhb.
  assert (Hn1 : zlen kvs + 1 <= hcap / 8).
  { apply Z.div_le_lower_bound; lia. }
  apply IH; auto; try lia.
  - cbn [forallb]. rewrite Hin, andb_true_r. unfold kv_in_range. cbn.
    apply andb_true_intro. split; apply Z.leb_le; lia.
  - rewrite zlen_cons. lia.
  - rewrite zlen_cons. lia.
Qed.

Lemma h_reset_parse_safe hb hcap : zlen hb < 65536 -> 0 <= hcap -> h_reset_parse hb hcap <> None.
Proof.
  intros Hb Hcap. unfold h_reset_parse. destruct (zlen hb =? 0); [discriminate|].
  pose proof (parse_loop_safe (S (Z.to_nat (hcap / 8 + 1))) hb hcap 0 [] Hb ltac:(pose proof (zlen_nonneg hb); lia) eq_refl) as H.
  assert (Hd : 0 <= hcap / 8) by (apply Z.div_pos; lia).
  specialize (H ltac:(change (zlen (@nil kv)) with 0; lia) ltac:(change (zlen (@nil kv)) with 0; lia) Hcap).
  destruct (parse_loop _ hb hcap 0 []) as [[kvs|]|]; [|discriminate|contradiction].
  rewrite H. discriminate.
Qed.

(* append_bytes is total, keeps capacity; when it asks for more bytes the status is unchanged *)
Lemma parse_start_line_cap m b : let '(_, _, m1) := parse_start_line m b in m_cap m1 = m_cap m.
Proof.
  unfold parse_start_line. destruct (m_is_req m).
  - destruct (P_extract_until b 0 B_sp) as [vs p1].
    destruct (string_to_verb _ =? 0); [reflexivity|].
    destruct (P_extract_until b p1 B_sp) as [tg p2]. destruct (P_extract_until b _ B_cr) as [ver p4].
    destruct (6 <=? snd ver); reflexivity.
  - destruct (P_extract_until b _ B_sp) as [ver p2].
    destruct (6 <=? snd ver); [reflexivity|].
    destruct (P_extract_integer b p2) as [code p3].
    destruct ((code <=? 0) || (1000 <=? code)); [reflexivity|].
    destruct (P_extract_until b _ B_cr) as [sm p5]. reflexivity.
Qed.

Lemma append_bytes_safe m bs : 0 < m_cap m < 65536 -> zlen bs < 65536 ->
  exists ret m', append_bytes m bs = Some (ret, m') /\ m_cap m' = m_cap m
    /\ (ret = 2 -> m_status m' = m_status m /\ m_rx m' = m_rx m ++ bs).
Proof.
  intros Hcap Hbs. unfold append_bytes. pose proof (zlen_nonneg bs) as Hb0.
  rewrite (u16_small (zlen bs)) by lia.
  destruct (m_status m =? HEADER_PARSED); [do 2 eexists; split; [reflexivity|]; split; [reflexivity|]; intros; discriminate|].
  destruct (Z.leb_spec (m_cap m) (zlen (m_rx m) + zlen bs)) as [|Hroom];
    [do 2 eexists; split; [reflexivity|]; split; [reflexivity|]; intros; discriminate|].
  set (rx := m_rx m ++ bs).
  assert (Hrx : zlen rx < 65536) by (unfold rx; rewrite zlen_app; lia).
  destruct (find_term _) as [w|].
  2:{ do 2 eexists. split; [reflexivity|]. split; [reflexivity|]. intros _. split; reflexivity. }
  match goal with |- context [parse_start_line ?a ?b] => pose proof (parse_start_line_cap a b) as Hc1;
     destruct (parse_start_line a b) as [[r cur] m1] end.
  cbn [m_cap] in Hc1.
  destruct (Z.ltb_spec r 0); [do 2 eexists; split; [reflexivity|]; split; [exact Hc1|]; intros; lia|].
  assert (Hhb : zlen (zdrop cur rx) < 65536).
  { unfold zdrop, zlen in *. rewrite skipn_length. lia. }
  pose proof (h_reset_parse_safe (zdrop cur rx) (u16 (m_cap m - cur)) Hhb ltac:(unfold u16; apply Z.mod_pos_bound; lia)) as Hsafe.
  destruct (h_reset_parse (zdrop cur rx) (u16 (m_cap m - cur))) as [[h|]|]; [| |contradiction].
  - do 2 eexists. split; [reflexivity|]. split; [exact Hc1|]. intros; lia.
  - do 2 eexists. split; [reflexivity|]. split; [exact Hc1|]. intros; lia.
Qed.

Lemma receive_header_safe : forall fuel m ps err,
  0 < m_cap m < 65536 -> m_status m = INIT -> total_len ps + 1 < Z.of_nat fuel ->
  receive_header fuel m ps err <> None.
Proof.
  induction fuel as [|f IH]; intros m ps err Hcap Hst Hfuel.
  { pose proof (total_len_nonneg ps). lia. }
  cbn [receive_header].
  destruct (m_cap m - zlen (m_rx m) <=? MAX_TRANSFER_BYTES + RESERVED_INDEX_SIZE); [discriminate|].
  pose proof (sk_recv_any ps err MAX_TRANSFER_BYTES ltac:(unfold MAX_TRANSFER_BYTES; lia)) as Hr.
  destruct (sk_recv ps err MAX_TRANSFER_BYTES) as [[rc bs] ps']. destruct Hr as (Hrb & Hrpos & Htot).
  destruct (Z.ltb_spec rc 0); [discriminate|]. rewrite Hst. change (INIT =? INIT) with true. cbn [andb].
  destruct (Z.eqb_spec rc 0) as [|Hnz]; [discriminate|].
  assert (Hpos : 0 < rc) by lia. destruct (Hrpos Hpos) as (Hbl & Htot').
  destruct (append_bytes_safe m bs Hcap ltac:(unfold MAX_TRANSFER_BYTES in *; lia)) as (ret & m' & E & Hc' & H2).
  rewrite E. destruct (negb (ret =? 0) && false) eqn:Hx; [rewrite andb_false_r in Hx; discriminate|].
  destruct (Z.eqb_spec ret 2) as [He|]; [|discriminate].
  destruct (H2 He) as (Hst' & _).
  apply IH; [rewrite Hc'; exact Hcap|rewrite Hst'; exact Hst|lia].
Qed.

(* parse_malformed_safe: for every buffer capacity < 64K, stale fill byte, request or response,
   byte stream, fragmentation and error flag: receive_header never returns None. *)
Lemma parse_malformed_safe_proof :
  forall (is_req : bool) (cap fill verb : Z) (ps : pieces) (err : bool),
    0 < cap < 65536 ->
    receive_header (rh_fuel ps) (msg_init is_req cap fill verb) ps err <> None.
Proof.
  intros is_req cap fill verb ps err Hcap. apply receive_header_safe; [exact Hcap|reflexivity|].
  unfold rh_fuel, total_len, zlen. lia.
Qed.
