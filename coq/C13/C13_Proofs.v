(* C13_Proofs.v — list/socket lemmas and the BodyReadStream theorems
   (body_length_exact, body_close_delimited_exact). *)
From Coq Require Import ZArith List Bool Lia.
From PV Require Import Base.U64 C13.C13_Model.
Import ListNotations.
Local Open Scope Z_scope.

Ltac splits := repeat match goal with |- _ /\ _ => split end.

(* ------------------------------------------------------------ list lemmas -- *)
Lemma zlen_nonneg {A} (l : list A) : 0 <= zlen l.
Proof. unfold zlen. lia. Qed.
Lemma zlen_nil {A} : zlen (@nil A) = 0. Proof. reflexivity. Qed.
Lemma zlen_cons {A} (x : A) l : zlen (x :: l) = 1 + zlen l.
Proof. unfold zlen. cbn [length]. lia. Qed.
Lemma zlen_app {A} (a b : list A) : zlen (a ++ b) = zlen a + zlen b.
Proof. unfold zlen. rewrite app_length. lia. Qed.
Lemma zlen_zero_nil {A} (l : list A) : zlen l = 0 -> l = [].
Proof. destruct l; [reflexivity|]. rewrite zlen_cons. pose proof (zlen_nonneg l). lia. Qed.

Lemma ztake_nonpos {A} n (l : list A) : n <= 0 -> ztake n l = [].
Proof. intros H. unfold ztake. replace (Z.to_nat n) with 0%nat by lia. reflexivity. Qed.
Lemma zdrop_nonpos {A} n (l : list A) : n <= 0 -> zdrop n l = l.
Proof. intros H. unfold zdrop. replace (Z.to_nat n) with 0%nat by lia. reflexivity. Qed.
Lemma ztake_all {A} n (l : list A) : zlen l <= n -> ztake n l = l.
Proof. intros H. unfold ztake, zlen in *. apply firstn_all2. lia. Qed.
Lemma zdrop_all {A} n (l : list A) : zlen l <= n -> zdrop n l = [].
Proof. intros H. unfold zdrop, zlen in *. apply skipn_all2. lia. Qed.
Lemma ztake_zdrop_id {A} n (l : list A) : ztake n l ++ zdrop n l = l.
Proof. apply firstn_skipn. Qed.
Lemma ztake_app_le {A} n (a b : list A) : n <= zlen a -> ztake n (a ++ b) = ztake n a.
Proof.
  intros H. unfold ztake, zlen in *. rewrite firstn_app.
  replace (Z.to_nat n - length a)%nat with 0%nat by lia. cbn. apply app_nil_r.
Qed.
Lemma zdrop_app_le {A} n (a b : list A) : n <= zlen a -> zdrop n (a ++ b) = zdrop n a ++ b.
Proof.
  intros H. unfold zdrop, zlen in *. rewrite skipn_app.
  replace (Z.to_nat n - length a)%nat with 0%nat by lia. reflexivity.
Qed.
Lemma ztake_app_ge {A} n (a b : list A) : zlen a <= n -> ztake n (a ++ b) = a ++ ztake (n - zlen a) b.
Proof.
  intros H. unfold ztake, zlen in *. rewrite firstn_app.
  rewrite firstn_all2 by lia. f_equal. f_equal. lia.
Qed.
Lemma zdrop_app_ge {A} n (a b : list A) : zlen a <= n -> zdrop n (a ++ b) = zdrop (n - zlen a) b.
Proof.
  intros H. unfold zdrop, zlen in *. rewrite skipn_app.
  rewrite skipn_all2 by lia. cbn. f_equal. lia.
Qed.
Lemma zlen_ztake {A} n (l : list A) : 0 <= n <= zlen l -> zlen (ztake n l) = n.
Proof. intros H. unfold ztake, zlen in *. rewrite firstn_length. lia. Qed.
Lemma zlen_zdrop {A} n (l : list A) : 0 <= n <= zlen l -> zlen (zdrop n l) = zlen l - n.
Proof. intros H. unfold zdrop, zlen in *. rewrite skipn_length. lia. Qed.
Lemma zdrop_zdrop {A} a b (l : list A) : 0 <= a -> 0 <= b -> zdrop a (zdrop b l) = zdrop (a + b) l.
Proof.
  intros Ha Hb. unfold zdrop.
  replace (Z.to_nat (a + b)) with (Z.to_nat b + Z.to_nat a)%nat by lia.
  generalize (Z.to_nat a) as x. generalize (Z.to_nat b) as y. clear.
  intros y. revert l. induction y as [|y IH]; intros l x; [reflexivity|].
  destruct l as [|h l]; cbn [Nat.add skipn]; [apply skipn_nil|apply IH].
Qed.
Lemma ztake_add {A} a b (l : list A) : 0 <= a -> 0 <= b ->
  ztake (a + b) l = ztake a l ++ ztake b (zdrop a l).
Proof.
  intros Ha Hb. unfold ztake, zdrop.
  replace (Z.to_nat (a + b)) with (Z.to_nat a + Z.to_nat b)%nat by lia.
  revert l. induction (Z.to_nat a) as [|k IH]; intros l; [reflexivity|].
  destruct l as [|x l]; cbn [Nat.add firstn skipn app].
  - rewrite firstn_nil. reflexivity.
  - f_equal. apply IH.
Qed.
Lemma ztake_ztake {A} a b (l : list A) : a <= b -> ztake a (ztake b l) = ztake a l.
Proof.
  intros H. unfold ztake. rewrite firstn_firstn. f_equal. lia.
Qed.

(* ------------------------------------------------------------------ socket -- *)
Lemma total_len_cons p ps : total_len (p :: ps) = zlen p + total_len ps.
Proof. unfold total_len. cbn [concat]. apply zlen_app. Qed.

(* read with enough bytes in flight: exactly `count` bytes, whatever the fragmentation *)
Lemma sk_read_enough ps : forall err count,
  0 <= count <= total_len ps ->
  exists ps', sk_read ps err count = (count, ztake count (concat ps), ps')
              /\ concat ps' = zdrop count (concat ps).
Proof.
  induction ps as [|p rest IH]; intros err count H.
  - unfold total_len in H. cbn in H. assert (count = 0) by lia. subst.
    exists []. cbn. split; reflexivity.
  - cbn [sk_read]. rewrite total_len_cons in H. pose proof (zlen_nonneg p) as Hp.
    destruct (Z.leb_spec count 0) as [H0|H0].
    + assert (count = 0) by lia. subst. exists (p :: rest).
      rewrite ztake_nonpos, zdrop_nonpos by lia. split; reflexivity.
    + destruct (Z.ltb_spec count (zlen p)) as [H1|H1].
      * exists (zdrop count p :: rest). cbn [concat].
        rewrite ztake_app_le, zdrop_app_le by lia. split; reflexivity.
      * destruct (IH err (count - zlen p)) as (ps' & E & C); [lia|].
        rewrite E. destruct (Z.ltb_spec (count - zlen p) 0) as [H2|H2]; [lia|].
        exists ps'. cbn [concat]. rewrite ztake_app_ge, zdrop_app_ge by lia.
        split; [|exact C]. f_equal. f_equal. lia.
Qed.

(* read at EOF (no error): everything that is left, then the script is empty *)
Lemma sk_read_short ps : forall count,
  total_len ps < count ->
  exists ps', sk_read ps false count = (total_len ps, concat ps, ps') /\ concat ps' = [].
Proof.
  induction ps as [|p rest IH]; intros count H.
  - unfold total_len in *. cbn in *. destruct (Z.leb_spec count 0); [lia|].
    exists []. split; reflexivity.
  - cbn [sk_read]. rewrite total_len_cons in *. pose proof (zlen_nonneg p) as Hp.
    pose proof (zlen_nonneg (concat rest)) as Hr. fold (total_len rest) in Hr.
    destruct (Z.leb_spec count 0); [lia|].
    destruct (Z.ltb_spec count (zlen p)); [lia|].
    destruct (IH (count - zlen p)) as (ps' & E & C); [lia|].
    rewrite E. destruct (Z.ltb_spec (total_len rest) 0); [lia|].
    exists ps'. split; [reflexivity|exact C].
Qed.

(* ---------------------------------------------------------- BodyReadStream -- *)
Definition brs_data (s : brs) : bytes := b_partial s ++ concat (b_ps s).

(* One read in Content-Length mode, body completely available. *)
Lemma brs_read_len_step s count :
  b_cd s = false -> 0 <= count ->
  0 <= b_remain s <= zlen (brs_data s) -> b_remain s < W64 ->
  let n := Z.min count (b_remain s) in
  exists s', brs_read s count = (n, ztake n (brs_data s), s')
    /\ b_cd s' = false /\ b_err s' = b_err s
    /\ b_remain s' = b_remain s - n
    /\ brs_data s' = zdrop n (brs_data s)
    /\ concat (b_ps s') = zdrop (Z.max 0 (n - zlen (b_partial s))) (concat (b_ps s)).
Proof.
  intros Hcd Hc Hr Hw n. unfold brs_read. rewrite Hcd. cbn [negb andb].
  pose proof (zlen_nonneg (b_partial s)) as Hp.
  assert (Hn : (if b_remain s <? count then b_remain s else count) = n).
  { unfold n. destruct (Z.ltb_spec (b_remain s) count); lia. }
  rewrite Hn. clear Hn.
  unfold brs_data in *. rewrite zlen_app in Hr.
  set (rfr := Z.min n (zlen (b_partial s))).
  assert (Hrfr : 0 <= rfr <= n) by (unfold rfr, n; lia).
  destruct (Z.ltb_spec 0 (n - rfr)) as [Hpos|Hzero].
  - (* the partial body is exhausted, the rest comes from the socket *)
    assert (Hfull : rfr = zlen (b_partial s)) by (unfold rfr in *; lia).
    destruct (sk_read_enough (b_ps s) (b_err s) (n - rfr)) as (ps' & E & C).
    { unfold total_len. unfold n in *. lia. }
    rewrite E. destruct (Z.ltb_spec (n - rfr) 0); [lia|].
    eexists. split.
    { f_equal. f_equal; [lia|]. rewrite ztake_app_ge by lia. rewrite Hfull, ztake_all by lia. reflexivity. }
    cbn [b_cd b_err b_remain b_partial b_ps]. splits; try reflexivity.
    + rewrite (wrap_small (b_remain s - rfr)) by (unfold n in *; lia).
      rewrite wrap_small by (unfold n in *; lia). lia.
    + rewrite Hfull, zdrop_all by lia. cbn [app]. rewrite C.
      rewrite zdrop_app_ge by lia. f_equal. lia.
    + rewrite C. f_equal. lia.
  - (* served from the partial body alone *)
    assert (Hrn : rfr = n) by lia.
    eexists. split.
    { rewrite Hrn. f_equal. f_equal. rewrite ztake_app_le by (unfold rfr in *; lia). reflexivity. }
    cbn [b_cd b_err b_remain b_partial b_ps]. splits; try reflexivity.
    + rewrite Hrn. rewrite wrap_small by (unfold n in *; lia). reflexivity.
    + rewrite Hrn. rewrite zdrop_app_le by (unfold rfr in *; lia). reflexivity.
    + rewrite zdrop_nonpos; [reflexivity|]. unfold rfr in *. lia.
Qed.

(* a sequence of reads *)
Fixpoint brs_run (s : brs) (counts : list Z) : list (Z * bytes) * brs :=
  match counts with
  | [] => ([], s)
  | c :: t => let '(r, o, s1) := brs_read s c in
              let '(l, s2) := brs_run s1 t in ((r, o) :: l, s2)
  end.
Definition rets (l : list (Z * bytes)) : list Z := map fst l.
Definition outs (l : list (Z * bytes)) : bytes := concat (map snd l).
Fixpoint zsum (l : list Z) : Z := match l with [] => 0 | x :: t => x + zsum t end.

Lemma zsum_nonneg l : Forall (fun c => 0 <= c) l -> 0 <= zsum l.
Proof. induction 1; cbn; lia. Qed.

Lemma brs_run_len s : forall counts,
  b_cd s = false -> Forall (fun c => 0 <= c) counts ->
  0 <= b_remain s <= zlen (brs_data s) -> b_remain s < W64 ->
  let '(l, s') := brs_run s counts in
  let n := Z.min (zsum counts) (b_remain s) in
  outs l = ztake n (brs_data s)
  /\ zsum (rets l) = n
  /\ Forall2 (fun r o => r = zlen o) (rets l) (map snd l)
  /\ b_cd s' = false /\ b_remain s' = b_remain s - n
  /\ brs_data s' = zdrop n (brs_data s).
Proof.
  intros counts. revert s. induction counts as [|c t IH]; intros s Hcd Hall Hr Hw.
  - cbn. rewrite Z.min_l by lia. rewrite ztake_nonpos, zdrop_nonpos by lia.
    splits; try reflexivity; try assumption; try lia; try apply Forall2_nil.
  - inversion Hall as [|? ? Hc Ht]; subst. cbn [brs_run].
    destruct (brs_read_len_step s c Hcd Hc Hr Hw) as (s1 & E & Hcd1 & _ & Hrem1 & Hdata1 & _).
    rewrite E.
    set (n1 := Z.min c (b_remain s)) in *.
    assert (Hn1 : 0 <= n1 <= b_remain s) by (unfold n1; lia).
    assert (Hr1 : 0 <= b_remain s1 <= zlen (brs_data s1)).
    { rewrite Hrem1, Hdata1, zlen_zdrop by lia. lia. }
    assert (Hw1 : b_remain s1 < W64) by lia.
    specialize (IH s1 Hcd1 Ht Hr1 Hw1). destruct (brs_run s1 t) as [l s2].
    destruct IH as (Ho & Hs & Hf & Hcd2 & Hrem2 & Hdata2).
    pose proof (zsum_nonneg t Ht) as Hst.
    cbn [zsum]. set (n := Z.min (c + zsum t) (b_remain s)).
    assert (Hsplit : n = n1 + Z.min (zsum t) (b_remain s1)) by (unfold n, n1 in *; lia).
    unfold outs, rets in *. cbn [map concat fst snd zsum].
    splits.
    + rewrite Hsplit, ztake_add by lia. rewrite Ho, Hdata1. reflexivity.
    + rewrite Hs. lia.
    + constructor; [|exact Hf]. rewrite zlen_ztake; [reflexivity|]. lia.
    + exact Hcd2.
    + rewrite Hrem2, Hrem1. lia.
    + rewrite Hdata2, Hdata1, zdrop_zdrop by lia. f_equal. lia.
Qed.

(* Content-Length framing: for every partial body, every fragmentation `ps` of the rest
   of the stream (which may continue beyond the body), every sequence of read sizes:
   the concatenation of the results is the prefix of the body, every result has exactly
   the length it reports, nothing beyond the body is taken from the socket, and once the
   body is exhausted every further read returns 0 (end of body). *)
Lemma body_length_exact_proof :
  forall (partial : bytes) (ps : pieces) (err : bool) (n : Z) (counts : list Z),
    0 <= n < MAX64 -> n <= zlen (partial ++ concat ps) ->
    Forall (fun c => 0 <= c) counts ->
    let body := ztake n (partial ++ concat ps) in
    let '(l, s') := brs_run (brs_init partial n ps err) counts in
    outs l = ztake (zsum counts) body
    /\ Forall2 (fun r o => r = zlen o) (rets l) (map snd l)
    /\ brs_data s' = zdrop (Z.min (zsum counts) n) (partial ++ concat ps)
    /\ (n <= zsum counts -> forall c, 0 <= c -> exists s'', brs_read s' c = (0, [], s'')).
Proof.
  intros partial ps err n counts Hn Hlen Hall body.
  assert (Hcd : b_cd (brs_init partial n ps err) = false).
  { cbn. destruct (Z.eqb_spec n MAX64); [lia|reflexivity]. }
  pose proof (brs_run_len (brs_init partial n ps err) counts Hcd Hall) as H.
  unfold brs_data in H. cbn [brs_init b_remain b_partial b_ps] in H.
  specialize (H ltac:(lia) ltac:(unfold MAX64, W64 in *; lia)).
  destruct (brs_run (brs_init partial n ps err) counts) as [l s'].
  destruct H as (Ho & Hs & Hf & Hcd' & Hrem & Hdata).
  fold (brs_data s') in Hdata.
  pose proof (zsum_nonneg counts Hall) as Hsum.
  splits.
  - rewrite Ho. unfold body. destruct (Z.min_spec (zsum counts) n) as [[? ->]|[? ->]].
    + rewrite ztake_ztake by lia. reflexivity.
    + rewrite (ztake_all (zsum counts)); [reflexivity|]. rewrite zlen_ztake; lia.
  - exact Hf.
  - exact Hdata.
  - intros Hge c Hc.
    assert (Hrem0 : b_remain s' = 0) by lia.
    assert (Hr' : 0 <= b_remain s' <= zlen (brs_data s')) by (pose proof (zlen_nonneg (brs_data s')); lia).
    destruct (brs_read_len_step s' c Hcd' Hc Hr' ltac:(unfold W64; lia)) as (s'' & E & _).
    rewrite Hrem0 in E. rewrite Z.min_r in E by lia. rewrite ztake_nonpos in E by lia.
    exists s''. exact E.
Qed.

(* ---- close-delimited mode ---- *)
Lemma brs_read_cd_step s count :
  b_cd s = true -> b_err s = false -> 0 <= count ->
  let n := Z.min count (zlen (brs_data s)) in
  exists s', brs_read s count = (n, ztake n (brs_data s), s')
    /\ b_cd s' = true /\ b_err s' = false
    /\ brs_data s' = zdrop n (brs_data s).
Proof.
  intros Hcd Herr Hc n. subst n. unfold brs_data. rewrite zlen_app.
  set (n := Z.min count (zlen (b_partial s) + zlen (concat (b_ps s)))).
  unfold brs_read. rewrite Hcd, Herr. cbn [negb andb].
  pose proof (zlen_nonneg (b_partial s)) as Hp.
  pose proof (zlen_nonneg (concat (b_ps s))) as Hq.
  set (rfr := Z.min count (zlen (b_partial s))).
  destruct (Z.ltb_spec 0 (count - rfr)) as [Hpos|Hzero].
  - assert (Hfull : rfr = zlen (b_partial s)) by (unfold rfr in *; lia).
    destruct (Z.le_gt_cases (count - rfr) (total_len (b_ps s))) as [Hen|Hsh].
    + destruct (sk_read_enough (b_ps s) false (count - rfr)) as (ps' & E & C); [lia|].
      rewrite E. destruct (Z.ltb_spec (count - rfr) 0); [lia|].
      assert (Hn : n = count) by (unfold n, total_len in *; lia).
      eexists. split.
      { f_equal. f_equal; [lia|]. rewrite Hn, ztake_app_ge by lia. rewrite Hfull, ztake_all by lia. reflexivity. }
      cbn [b_cd b_err b_partial b_ps]. splits; try reflexivity.
      * rewrite Hfull, zdrop_all by lia. cbn [app]. rewrite C, Hn, zdrop_app_ge by lia.
        f_equal. lia.
    + destruct (sk_read_short (b_ps s) (count - rfr)) as (ps' & E & C); [lia|].
      rewrite E. pose proof (zlen_nonneg (concat (b_ps s))).
      destruct (Z.ltb_spec (total_len (b_ps s)) 0); [unfold total_len in *; lia|].
      assert (Hn : n = zlen (b_partial s) + zlen (concat (b_ps s))) by (unfold n, total_len in *; lia).
      eexists. split.
      { f_equal. f_equal; [unfold total_len; lia|]. rewrite Hfull, (ztake_all (zlen (b_partial s))) by lia. rewrite Hn, ztake_all by (rewrite zlen_app; lia). reflexivity. }
      cbn [b_cd b_err b_partial b_ps]. splits; try reflexivity.
      * rewrite Hfull, zdrop_all by lia. rewrite C, Hn, zdrop_all by (rewrite zlen_app; lia). reflexivity.
  - assert (Hrn : rfr = count) by (unfold rfr in *; lia).
    assert (Hn : n = count) by (unfold n, rfr in *; lia).
    eexists. split.
    { rewrite Hrn, Hn. f_equal. f_equal. rewrite ztake_app_le by (unfold rfr in *; lia). reflexivity. }
    cbn [b_cd b_err b_partial b_ps]. splits; try reflexivity.
    + rewrite Hrn, Hn. rewrite zdrop_app_le by (unfold rfr in *; lia). reflexivity.
Qed.

Lemma brs_run_cd s : forall counts,
  b_cd s = true -> b_err s = false -> Forall (fun c => 0 <= c) counts ->
  let '(l, s') := brs_run s counts in
  let n := Z.min (zsum counts) (zlen (brs_data s)) in
  outs l = ztake n (brs_data s)
  /\ Forall2 (fun r o => r = zlen o) (rets l) (map snd l)
  /\ b_cd s' = true /\ b_err s' = false
  /\ brs_data s' = zdrop n (brs_data s).
Proof.
  intros counts. revert s. induction counts as [|c t IH]; intros s Hcd Herr Hall.
  - cbn. pose proof (zlen_nonneg (brs_data s)). rewrite Z.min_l by lia.
    rewrite ztake_nonpos, zdrop_nonpos by lia. splits; try reflexivity; try assumption; try apply Forall2_nil.
  - inversion Hall as [|? ? Hc Ht]; subst. cbn [brs_run].
    destruct (brs_read_cd_step s c Hcd Herr Hc) as (s1 & E & Hcd1 & Herr1 & Hdata1).
    rewrite E. set (n1 := Z.min c (zlen (brs_data s))) in *.
    pose proof (zlen_nonneg (brs_data s)) as Hd.
    specialize (IH s1 Hcd1 Herr1 Ht). destruct (brs_run s1 t) as [l s2].
    destruct IH as (Ho & Hf & Hcd2 & Herr2 & Hdata2).
    pose proof (zsum_nonneg t Ht) as Hst.
    assert (Hl1 : zlen (brs_data s1) = zlen (brs_data s) - n1).
    { rewrite Hdata1, zlen_zdrop; unfold n1; lia. }
    cbn [zsum]. set (n := Z.min (c + zsum t) (zlen (brs_data s))).
    assert (Hsplit : n = n1 + Z.min (zsum t) (zlen (brs_data s1))) by (unfold n, n1 in *; lia).
    unfold outs, rets in *. cbn [map concat fst snd].
    splits.
    + rewrite Hsplit, ztake_add by (unfold n1; lia). rewrite Ho, Hdata1. reflexivity.
    + constructor; [|exact Hf]. rewrite zlen_ztake; [reflexivity|]. unfold n1. lia.
    + exact Hcd2.
    + exact Herr2.
    + rewrite Hdata2, Hl1, Hdata1, zdrop_zdrop by (unfold n1; lia). f_equal. unfold n, n1 in *. lia.
Qed.

(* Close-delimited framing (body_remain = SIZE_MAX): for every partial body, every
   fragmentation of the rest of the stream up to the peer's close, every read sizes: the
   results concatenate to a prefix of partial ++ stream; once everything was delivered
   every further read returns 0. *)
Lemma body_close_delimited_exact_proof :
  forall (partial : bytes) (ps : pieces) (counts : list Z),
    Forall (fun c => 0 <= c) counts ->
    let all := partial ++ concat ps in
    let '(l, s') := brs_run (brs_init partial MAX64 ps false) counts in
    outs l = ztake (zsum counts) all
    /\ Forall2 (fun r o => r = zlen o) (rets l) (map snd l)
    /\ (zlen all <= zsum counts -> forall c, 0 <= c -> exists s'', brs_read s' c = (0, [], s'')).
Proof.
  intros partial ps counts Hall all.
  assert (Hcd : b_cd (brs_init partial MAX64 ps false) = true) by reflexivity.
  pose proof (brs_run_cd (brs_init partial MAX64 ps false) counts Hcd eq_refl Hall) as H.
  destruct (brs_run (brs_init partial MAX64 ps false) counts) as [l s'].
  destruct H as (Ho & Hf & Hcd' & Herr' & Hdata).
  unfold brs_data at 1 2 in Ho. unfold brs_data at 2 3 in Hdata. cbn [brs_init b_partial b_ps] in *.
  fold all in Ho, Hdata. pose proof (zlen_nonneg all) as Ha. pose proof (zsum_nonneg counts Hall) as Hs.
  splits.
  - rewrite Ho. destruct (Z.min_spec (zsum counts) (zlen all)) as [[? ->]|[? ->]]; [reflexivity|].
    rewrite !ztake_all by lia. reflexivity.
  - exact Hf.
  - intros Hge c Hc.
    destruct (brs_read_cd_step s' c Hcd' Herr' Hc) as (s'' & E & _).
    assert (Hz : zlen (brs_data s') = 0).
    { rewrite Hdata, Z.min_r, zdrop_all by lia. reflexivity. }
    rewrite Hz in E. rewrite Z.min_r in E by lia. rewrite ztake_nonpos in E by lia.
    exists s''. exact E.
Qed.

(* ---------------------------------------------- chunked writer: wire format -- *)
Definition chunk_wire (data : bytes) : bytes := to_hex (zlen data) ++ [13; 10] ++ data ++ [13; 10].
Fixpoint chunks_wire (ws : list bytes) : bytes :=
  match ws with [] => [] | w :: t => chunk_wire w ++ chunks_wire t end.
Fixpoint cws_run (s : cws) (ws : list bytes) : list Z * cws :=
  match ws with
  | [] => ([], s)
  | w :: t => let '(r, s1) := cws_write s w in
              let '(l, s2) := cws_run s1 t in (r :: l, s2)
  end.

Lemma cws_write_ok s data :
  zlen (chunk_wire data) <= w_budget (cw_sock s) ->
  cws_write s data = (zlen data,
                      mkCws (cw_finish s) (mkW (w_out (cw_sock s) ++ chunk_wire data)
                                               (w_budget (cw_sock s) - zlen (chunk_wire data)))).
Proof.
  intros H. unfold cws_write, wk_write. fold (chunk_wire data).
  rewrite Z.min_l by lia. rewrite Z.eqb_refl. cbn [negb].
  rewrite ztake_all by lia. reflexivity.
Qed.

(* ChunkedBodyWriteStream: with a peer that accepts everything, any sequence of writes
   followed by close() puts exactly  hex(len) CRLF data CRLF  per write and the terminator
   "0 CRLF CRLF" on the wire; every write returns its count. *)
Lemma chunked_writer_wire_proof : forall (ws : list bytes) (s : cws),
  cw_finish s = false ->
  zlen (chunks_wire ws) + 5 <= w_budget (cw_sock s) ->
  let '(l, s1) := cws_run s ws in
  let '(r, s2) := cws_close s1 in
  l = map zlen ws /\ r = 0 /\ cw_finish s2 = true
  /\ w_out (cw_sock s2) = w_out (cw_sock s) ++ chunks_wire ws ++ [48; 13; 10; 13; 10].
Proof.
  induction ws as [|w t IH]; intros s Hf Hb.
  - cbn [cws_run chunks_wire map]. unfold cws_close. rewrite Hf.
    rewrite cws_write_ok by (cbn in *; lia). cbn [zlen length Z.of_nat Z.eqb cw_sock cw_finish w_out].
    splits; try reflexivity.
  - cbn [cws_run chunks_wire map] in *. rewrite zlen_app in Hb.
    pose proof (zlen_nonneg (chunks_wire t)) as Ht.
    rewrite cws_write_ok by lia.
    set (s1 := mkCws (cw_finish s) _).
    specialize (IH s1 Hf). cbn [s1 cw_sock w_budget w_out] in IH.
    specialize (IH ltac:(lia)).
    destruct (cws_run s1 t) as [l s2]. destruct (cws_close s2) as [r s3].
    destruct IH as (Hl & Hr & Hf3 & Hout).
    splits; try assumption.
    + rewrite Hl. reflexivity.
    + rewrite Hout, <- !app_assoc. reflexivity.
Qed.
