(* placeholder until the proofs land *)
From Coq Require Import ZArith List.
From PV Require Import Base.U64 C13.C13_Model C13.C13_Msg.
Lemma placeholder : True. Proof. exact I. Qed.
