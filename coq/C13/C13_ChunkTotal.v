(* C13_ChunkTotal.v — chunked_malformed_safe: on EVERY byte string, fragmentation, socket
   error flag and read sizes the chunked reader never reaches an out-of-range access and
   terminates within the fuel crs_fuel = |line buffer| + |stream| + 2. *)
From Coq Require Import ZArith List Bool Lia.
From PV Require Import Base.U64 C13.C13_Model C13.C13_Proofs C13.C13_ChunkSafe C13.C13_ChunkDecode.
Import ListNotations.
Local Open Scope Z_scope.

Definition WFa (s : crs) : Prop :=
  0 <= c_cursor s <= lsize s /\ lsize s <= LINE_BUFFER_SIZE /\ LINE_BUFFER_SIZE <= c_cap s /\ 0 <= c_remain s.
Definition M (s : crs) : Z := lsize s - c_cursor s + total_len (c_ps s).

Lemma total_len_nonneg ps : 0 <= total_len ps.
Proof. unfold total_len. apply zlen_nonneg. Qed.

Lemma find_crlf_bound s : forall k, find_crlf s = Some k -> 0 <= k /\ k + 2 <= zlen s.
Proof.
  induction s as [|c t IH]; intros k H; [discriminate|].
  destruct t as [|d t']; [discriminate|]. rewrite find_crlf_cons2 in H.
  rewrite (zlen_cons c). 
  destruct ((c =? 13) && (d =? 10)).
  - inversion H; subst. rewrite zlen_cons. pose proof (zlen_nonneg t'). lia.
  - destruct (find_crlf (d :: t')) as [j|]; [|discriminate]. inversion H; subst.
    specialize (IH j eq_refl). lia.
Qed.

Lemma sk_read_total ps : forall err count,
  let '(r, bs, ps') := sk_read ps err count in
  (r = -1 /\ total_len ps' <= total_len ps) \/ (0 <= r /\ total_len ps' = total_len ps - r).
Proof.
  induction ps as [|p rest IH]; intros err count; cbn [sk_read].
  - destruct (count <=? 0); [right; cbn; lia|]. destruct err; [left; cbn; lia|right; cbn; lia].
  - pose proof (zlen_nonneg p) as Hp. pose proof (total_len_nonneg rest) as Hr.
    destruct (Z.leb_spec count 0); [right; lia|].
    destruct (Z.ltb_spec count (zlen p)).
    + right. rewrite !total_len_cons, zlen_zdrop by lia. lia.
    + specialize (IH err (count - zlen p)). destruct (sk_read rest err (count - zlen p)) as [[r bs] ps'].
      rewrite total_len_cons.
      destruct (Z.ltb_spec r 0); [left; destruct IH as [[? ?]|[? ?]]; lia|].
      right. destruct IH as [[? ?]|[? ?]]; lia.
Qed.

Lemma sk_recv_any ps : forall err count, 0 <= count ->
  let '(r, bs, ps') := sk_recv ps err count in
  -1 <= r <= count /\ (0 < r -> zlen bs = r /\ total_len ps' = total_len ps - r)
  /\ total_len ps' <= total_len ps.
Proof.
  induction ps as [|p rest IH]; intros err count Hc; cbn [sk_recv].
  - destruct err; cbn; splits; try lia.
  - destruct p as [|x p'].
    + specialize (IH err count Hc). destruct (sk_recv rest err count) as [[r bs] ps'].
      change (total_len ([] :: rest)) with (total_len rest). exact IH.
    + set (p := x :: p'). assert (Hp : 1 <= zlen p) by (unfold p; rewrite zlen_cons; pose proof (zlen_nonneg p'); lia).
      pose proof (total_len_nonneg rest).
      destruct (Z.ltb_spec (Z.min count (zlen p)) (zlen p)).
      * rewrite !total_len_cons, zlen_zdrop, zlen_ztake by lia. splits; try lia.
      * rewrite total_len_cons. splits; try lia.
Qed.

Definition set_fields_ok (s s' : crs) : Prop := c_cap s' = c_cap s.

(* pos_next_chunk at the cursor: total, keeps the state well-formed *)
Lemma pnc_any s : WFa s ->
  exists b s', pos_next_chunk s (c_cursor s) = Some (b, s')
    /\ WFa s' /\ c_line s' = c_line s /\ c_cap s' = c_cap s
    /\ total_len (c_ps s') <= total_len (c_ps s)
    /\ (b = false -> s' = s) /\ (b = true -> c_cursor s + 2 <= c_cursor s').
Proof.
  intros (Hcur & Hls & Hcap & Hrem). unfold pos_next_chunk.
  destruct (Z.ltb_spec (c_cursor s) 0) as [|_]; [lia|].
  destruct (Z.ltb_spec (lsize s) (c_cursor s)) as [|_]; [lia|]. cbn [orb].
  destruct (find_crlf (zdrop (c_cursor s) (c_line s))) as [p|] eqn:Hf.
  2:{ exists false, s. split; [reflexivity|]. split; [unfold WFa; splits; auto; lia|]. splits; auto; try lia; intros; discriminate. }
  destruct (find_crlf_bound _ _ Hf) as (Hp0 & Hp2). rewrite zlen_zdrop in Hp2 by (unfold lsize in *; lia).
  pose proof (hex_to_u64_nonneg (ztake p (zdrop (c_cursor s) (c_line s)))) as Hh.
  set (h := hex_to_u64 (ztake p (zdrop (c_cursor s) (c_line s)))) in *.
  assert (Hgen : forall fin ps' cl, total_len ps' <= total_len (c_ps s) ->
     let s' := mkCrs (c_line s) (c_cursor s + p + 2) h fin ps' (c_err s) cl (c_cap s) in
     WFa s' /\ c_line s' = c_line s /\ c_cap s' = c_cap s /\ total_len (c_ps s') <= total_len (c_ps s)
     /\ (true = false -> s' = s) /\ (true = true -> c_cursor s + 2 <= c_cursor s')).
  { intros fin ps' cl Ht s'. unfold WFa, lsize in *. cbn. splits; auto; try lia; try discriminate. }
  destruct (negb (h =? 0) || (p =? 0)).
  - exists true. eexists. split; [reflexivity|]. apply Hgen; lia.
  - destruct (2 <? wrap (c_cursor s + p + 4 - lsize s)).
    + exists true. eexists. split; [reflexivity|]. apply Hgen; lia.
    + destruct (0 <? wrap (c_cursor s + p + 4 - lsize s)).
      * pose proof (sk_read_total (c_ps s) (c_err s) (wrap (c_cursor s + p + 4 - lsize s))) as Ht.
        destruct (sk_read (c_ps s) (c_err s) (wrap (c_cursor s + p + 4 - lsize s))) as [[r bs] ps'].
        exists true. eexists. split; [reflexivity|]. apply Hgen; destruct Ht as [[? ?]|[? ?]]; lia.
      * exists true. eexists. split; [reflexivity|]. apply Hgen; lia.
Qed.

Lemma WFa_reset s : WFa s -> WFa (reset_if_end s) /\ M (reset_if_end s) = M s /\ c_cap (reset_if_end s) = c_cap s
  /\ lsize (reset_if_end s) - c_cursor (reset_if_end s) = lsize s - c_cursor s.
Proof.
  intros (H1 & H2 & H3 & H4). unfold reset_if_end.
  destruct (Z.eqb_spec (c_cursor s) (lsize s)) as [E|E].
  - unfold WFa, M, lsize, set_line in *. cbn. unfold LINE_BUFFER_SIZE in *. splits; auto; lia.
  - splits; auto. unfold WFa. splits; auto; lia.
Qed.
Lemma WFa_compact s : WFa s -> WFa (compact s) /\ M (compact s) = M s /\ c_cap (compact s) = c_cap s
  /\ c_cursor (compact s) = 0.
Proof.
  intros (H1 & H2 & H3 & H4). unfold compact, WFa, M, lsize, set_line in *. cbn.
  rewrite zlen_zdrop by lia. splits; auto; lia.
Qed.

Lemma rflb_any : forall fuel s count ret out,
  WFa s -> 0 <= count -> lsize s - c_cursor s < Z.of_nat fuel ->
  exists r s' c' o', read_from_line_buf fuel s count ret out = Some (r, s', c', o')
    /\ WFa s' /\ c_cap s' = c_cap s /\ 0 <= c' <= count /\ M s' <= M s - (count - c').
Proof.
  induction fuel as [|f IH]; intros s count ret out HW Hc Hfuel.
  { destruct HW as (Hcur & _). lia. }
  pose proof HW as (Hcur & Hls & Hcap & Hrem).
  cbn [read_from_line_buf].
  destruct ((0 <? count) && (c_cursor s <? lsize s) && negb (c_finish s)) eqn:Hcond.
  2:{ do 4 eexists. split; [reflexivity|]. splits; auto; lia. }
  apply andb_prop in Hcond. destruct Hcond as [Hcond _]. apply andb_prop in Hcond.
  destruct Hcond as [Hc0 Hav]. apply Z.ltb_lt in Hc0. apply Z.ltb_lt in Hav.
  destruct (Z.ltb_spec (c_cursor s) 0) as [|_]; [lia|].
  set (n := Z.min count (Z.min (c_remain s) (lsize s - c_cursor s))).
  assert (Hn : 0 <= n <= count /\ n <= c_remain s /\ n <= lsize s - c_cursor s /\ (0 < c_remain s -> 1 <= n)) by (unfold n; lia).
  destruct Hn as (Hn1 & Hn2 & Hn3 & Hn4).
  set (s1 := mkCrs (c_line s) (c_cursor s + n) (wrap (c_remain s - n)) (c_finish s) (c_ps s) (c_err s) (c_closed s) (c_cap s)).
  assert (HW1 : WFa s1).
  { unfold WFa, lsize in *. cbn. splits; auto; try lia. apply wrap_range. }
  assert (HM1 : M s1 = M s - n) by (unfold M, lsize; cbn; lia).
  destruct (c_remain s1 =? 0) eqn:Hz.
  - destruct (pnc_any s1 HW1) as (b & s2 & E & HW2 & Hl2 & Hc2 & Ht2 & Hbf & Hbt). rewrite E.
    destruct b.
    + specialize (Hbt eq_refl).
      destruct (WFa_reset s2 HW2) as (HWr & HMr & Hcr & Hdr).
      assert (HM2 : M s2 <= M s1 - 2).
      { unfold M, lsize in *. rewrite Hl2. cbn [s1 c_line c_cursor] in *. lia. }
      destruct (IH (reset_if_end s2) (count - n) (ret + n) (out ++ ztake n (zdrop (c_cursor s) (c_line s))) HWr ltac:(lia))
        as (r & s' & c' & o' & E' & HW' & Hc' & Hcc & HM').
      { rewrite Hdr. unfold lsize in *. rewrite Hl2. cbn [s1 c_line c_cursor] in *. lia. }
      rewrite E'. do 4 eexists. split; [reflexivity|]. splits; auto; try lia. rewrite Hc', Hcr, Hc2. reflexivity.
    + rewrite (Hbf eq_refl) in *. destruct (WFa_compact s1 HW1) as (HWc & HMc & Hcc & _).
      do 4 eexists. split; [reflexivity|]. splits; auto; lia.
  - apply Z.eqb_neq in Hz.
    assert (Hrpos : 0 < c_remain s).
    { destruct (Z.eq_dec (c_remain s) 0) as [E0|]; [|lia]. exfalso. apply Hz. cbn [s1 c_remain].
      replace n with 0 by lia. rewrite E0. reflexivity. }
    specialize (Hn4 Hrpos).
    destruct (WFa_reset s1 HW1) as (HWr & HMr & Hcr & Hdr).
    destruct (IH (reset_if_end s1) (count - n) (ret + n) (out ++ ztake n (zdrop (c_cursor s) (c_line s))) HWr ltac:(lia))
      as (r & s' & c' & o' & E' & HW' & Hc' & Hcc & HM').
    { rewrite Hdr. unfold lsize. cbn [s1 c_line c_cursor]. unfold lsize in *. lia. }
    rewrite E'. do 4 eexists. split; [reflexivity|]. splits; auto; try lia. rewrite Hc', Hcr. reflexivity.
Qed.

Lemma rfs_any s count r s' c' bs :
  read_from_stream s count = (r, s', c', bs) -> WFa s -> 0 <= count ->
  WFa s' /\ c_cap s' = c_cap s /\ c_finish s' = c_finish s
  /\ ((r = -1 /\ M s' <= M s) \/ (0 <= r <= count /\ c' = count - r /\ M s' = M s - r)).
Proof.
  unfold read_from_stream. intros H (Hcur & Hls & Hcap & Hrem) Hc.
  pose proof (sk_read_total (c_ps s) (c_err s) (Z.min count (c_remain s))) as Ht.
  pose proof (sk_read_bounds (c_ps s) (c_err s) (Z.min count (c_remain s))) as Hb.
  destruct (sk_read (c_ps s) (c_err s) (Z.min count (c_remain s))) as [[r0 bs0] ps'].
  destruct (Z.ltb_spec r0 0) as [Hneg|Hpos]; inversion H; subst; unfold WFa, M, lsize in *; cbn.
  - splits; auto; try lia.
  - pose proof (wrap_range (c_remain s - r)). splits; auto; try lia.
Qed.

(* progress of a successful get_new_chunk: error, or finished, or >= 2 input bytes consumed *)
Definition gprog (s s' : crs) (r : Z) : Prop := r < 0 \/ c_finish s' = true \/ M s' <= M s - 2.

Lemma gnc_loop_any : forall fuel s,
  WFa s -> c_cursor s = 0 -> total_len (c_ps s) < Z.of_nat fuel ->
  exists r s', gnc_loop fuel s = Some (r, s') /\ WFa s' /\ c_cap s' = c_cap s /\ M s' <= M s /\ gprog s s' r.
Proof.
  induction fuel as [|f IH]; intros s HW Hc0 Hfuel.
  { pose proof (total_len_nonneg (c_ps s)). lia. }
  pose proof HW as (Hcur & Hls & Hcap & Hrem). cbn [gnc_loop].
  destruct (c_finish s) eqn:Hfin.
  { exists 0, s. splits; auto; try lia. right. left. exact Hfin. }
  assert (Hcnt : 0 <= LINE_BUFFER_SIZE - lsize s) by lia.
  rewrite wrap_small by (unfold W64, LINE_BUFFER_SIZE, lsize in *; pose proof (zlen_nonneg (c_line s)); lia).
  pose proof (sk_recv_any (c_ps s) (c_err s) (LINE_BUFFER_SIZE - lsize s) Hcnt) as Hr.
  destruct (sk_recv (c_ps s) (c_err s) (LINE_BUFFER_SIZE - lsize s)) as [[r bs] ps'].
  destruct Hr as (Hrb & Hrpos & Htot).
  destruct (Z.ltb_spec r 0).
  { do 2 eexists. split; [reflexivity|]. unfold WFa, M, gprog, lsize in *. cbn. splits; auto; lia. }
  destruct (Z.eqb_spec r 0).
  { do 2 eexists. split; [reflexivity|]. unfold WFa, M, gprog, lsize in *. cbn. splits; auto; lia. }
  destruct (Hrpos ltac:(lia)) as (Hbl & Htot').
  destruct (Z.ltb_spec (c_cap s) (lsize s + r)); [lia|].
  set (s1 := set_line (mkCrs (c_line s) (c_cursor s) (c_remain s) false ps' (c_err s) (c_closed s) (c_cap s))
                      (c_line s ++ bs) (c_cursor s)).
  assert (Hls1 : lsize s1 = lsize s + r) by (unfold lsize, s1; cbn; rewrite zlen_app; lia).
  assert (HW1 : WFa s1) by (unfold WFa; rewrite Hls1; cbn; splits; auto; lia).
  assert (HM1 : M s1 = M s) by (unfold M; rewrite Hls1; cbn; lia).
  assert (Hfuel1 : total_len (c_ps s1) < Z.of_nat f) by (cbn; lia).
  assert (Hcap1 : c_cap s1 = c_cap s) by reflexivity.
  destruct (Z.leb_spec (lsize s1) 2).
  - destruct (IH s1 HW1 Hc0 Hfuel1) as (r' & s' & E' & HW' & Hc' & HM' & Hg').
    rewrite E'. exists r', s'. unfold gprog in *. splits; auto; try lia; try congruence.
  - destruct (pnc_any s1 HW1) as (b & s2 & E & HW2 & Hl2 & Hc2 & Ht2 & Hbf & Hbt).
    change (c_cursor s1) with (c_cursor s) in E. rewrite Hc0 in E. rewrite E.
    destruct b.
    + specialize (Hbt eq_refl). exists 0, s2.
      assert (HM2 : M s2 <= M s1 - 2).
      { unfold M, lsize in *. rewrite Hl2. cbn [s1 set_line c_line c_cursor c_ps] in *. lia. }
      splits; auto; try lia. right. right. lia.
    + rewrite (Hbf eq_refl) in *.
      destruct (IH s1 HW1 Hc0 Hfuel1) as (r' & s' & E' & HW' & Hc' & HM' & Hg').
      rewrite E'. exists r', s'. unfold gprog in *. splits; auto; try lia; try congruence.
Qed.

Lemma gnc_any fuel s :
  WFa s -> total_len (c_ps s) < Z.of_nat fuel ->
  exists r s', get_new_chunk fuel s = Some (r, s') /\ WFa s' /\ c_cap s' = c_cap s /\ M s' <= M s /\ gprog s s' r.
Proof.
  intros HW Hfuel. pose proof HW as (Hcur & Hls & Hcap & Hrem). unfold get_new_chunk.
  destruct (Z.ltb_spec (c_cursor s) (lsize s)) as [Hlt|Hge].
  - destruct (pnc_any s HW) as (b & s2 & E & HW2 & Hl2 & Hc2 & Ht2 & Hbf & Hbt). rewrite E.
    destruct b.
    + specialize (Hbt eq_refl). exists 0, s2.
      assert (HM2 : M s2 <= M s - 2) by (unfold M, lsize in *; rewrite Hl2; lia).
      splits; auto; try lia. right. right. exact HM2.
    + rewrite (Hbf eq_refl) in *. destruct (WFa_compact s HW) as (HWc & HMc & Hcc & Hc0).
      destruct (gnc_loop_any fuel (compact s) HWc Hc0 ltac:(cbn; exact Hfuel)) as (r' & s' & E' & HW' & Hc' & HM' & Hg').
      rewrite E'. exists r', s'. unfold gprog in *. splits; auto; try lia; try congruence.
  - assert (Heq : c_cursor s = lsize s) by lia. rewrite Heq, Z.eqb_refl.
    set (s0 := set_line s [] 0).
    assert (HW0 : WFa s0) by (unfold WFa, s0, lsize; cbn; unfold LINE_BUFFER_SIZE in *; lia).
    assert (HM0 : M s0 = M s) by (unfold M, s0, lsize in *; cbn; lia).
    destruct (gnc_loop_any fuel s0 HW0 eq_refl ltac:(cbn; exact Hfuel)) as (r' & s' & E' & HW' & Hc' & HM' & Hg').
    rewrite E'. exists r', s'. unfold gprog in *. splits; auto; try lia; try congruence.
Qed.

Lemma M_nonneg s : WFa s -> 0 <= M s.
Proof. intros (H & _). unfold M. pose proof (total_len_nonneg (c_ps s)). lia. Qed.

Lemma loop_any : forall fuel s count ret out,
  WFa s -> 0 <= count -> M s + 1 < Z.of_nat fuel ->
  exists r o s', crs_read_loop fuel s count ret out = Some (r, o, s') /\ WFa s' /\ c_cap s' = c_cap s /\ M s' <= M s.
Proof.
  induction fuel as [|f IH]; intros s count ret out HW Hc Hfuel.
  { pose proof (M_nonneg s HW). lia. }
  pose proof HW as (Hcur & Hls & Hcap & Hrem). cbn [crs_read_loop].
  destruct ((0 <? count) && negb (c_finish s)) eqn:Hcond.
  2:{ do 3 eexists. split; [reflexivity|]. splits; auto; lia. }
  apply andb_prop in Hcond. destruct Hcond as [Hc0 Hnf]. apply Z.ltb_lt in Hc0.
  pose proof (total_len_nonneg (c_ps s)) as Htl.
  destruct (rflb_any (S f) s count 0 [] HW Hc ltac:(unfold M in Hfuel; lia))
    as (r1 & s1 & c1 & o1 & E1 & HW1 & Hcap1 & Hc1 & HM1).
  rewrite E1.
  assert (Hfuel1 : total_len (c_ps s1) < Z.of_nat (S f)).
  { destruct HW1 as (Hcur1 & _). unfold M in *. lia. }
  destruct ((0 <? c_remain s1) && (0 <? c1)) eqn:Hcond2.
  - destruct (read_from_stream s1 c1) as [[[r2 s2] c2] bs] eqn:E2.
    destruct (rfs_any _ _ _ _ _ _ E2 HW1 ltac:(lia)) as (HW2 & Hcap2 & Hfin2 & Hcase).
    destruct (Z.ltb_spec r2 0) as [Hneg|Hpos].
    + destruct (Z.ltb_spec r2 0); [|lia]. do 3 eexists. split; [reflexivity|]. splits; auto; lia.
    + destruct Hcase as [[? ?]|(Hr2 & Hc2 & HM2)]; [lia|].
      destruct (Z.ltb_spec 0 0); [lia|].
      destruct ((0 <? c_remain s2) && (r2 =? 0)) eqn:Hstop.
      * do 3 eexists. split; [reflexivity|]. splits; auto; lia.
      * destruct (Z.eqb_spec (c_remain s2) 0) as [Hz|Hnz].
        -- assert (Hfuel2 : total_len (c_ps s2) < Z.of_nat (S f)).
           { destruct HW2 as (Hcur2 & _). unfold M in *. lia. }
           destruct (gnc_any (S f) s2 HW2 Hfuel2) as (r3 & s3 & E3 & HW3 & Hcap3 & HM3 & Hg3). rewrite E3.
           destruct (Z.ltb_spec r3 0). { do 3 eexists. split; [reflexivity|]. splits; auto; lia. }
           destruct Hg3 as [?|[Hf3|HM3']]; [lia| |].
           ++ assert (Hl : forall fu c r0 o0, crs_read_loop fu s3 c r0 o0 = Some (r0, o0, s3)).
              { intros. destruct fu; cbn [crs_read_loop]; rewrite Hf3, andb_false_r; reflexivity. }
              rewrite Hl. do 3 eexists. split; [reflexivity|]. splits; auto; lia.
           ++ destruct (IH s3 c2 (ret + r1 + r2) ((out ++ o1) ++ bs) HW3 ltac:(lia) ltac:(lia)) as (r' & o' & s' & E' & HW' & Hc' & HM').
              rewrite E'. do 3 eexists. split; [reflexivity|]. splits; auto; lia.
        -- (* remain > 0 and not stopped: r2 > 0 *)
           assert (Hr2pos : 0 < r2).
           { apply andb_false_iff in Hstop. destruct Hstop as [Hs|Hs].
             - apply Z.ltb_ge in Hs. destruct HW2 as (_ & _ & _ & ?). lia.
             - apply Z.eqb_neq in Hs. lia. }
           destruct (IH s2 c2 (ret + r1 + r2) ((out ++ o1) ++ bs) HW2 ltac:(lia) ltac:(lia)) as (r' & o' & s' & E' & HW' & Hc' & HM').
           rewrite E'. do 3 eexists. split; [reflexivity|]. splits; auto; lia.
  - destruct (Z.ltb_spec 0 0); [lia|]. cbn [andb].
    destruct (Z.eqb_spec (c_remain s1) 0) as [Hz|Hnz].
    + destruct (gnc_any (S f) s1 HW1 Hfuel1) as (r3 & s3 & E3 & HW3 & Hcap3 & HM3 & Hg3). rewrite E3.
      destruct (Z.ltb_spec r3 0). { do 3 eexists. split; [reflexivity|]. splits; auto; lia. }
      destruct Hg3 as [?|[Hf3|HM3']]; [lia| |].
      * assert (Hl : forall fu c r0 o0, crs_read_loop fu s3 c r0 o0 = Some (r0, o0, s3)).
        { intros. destruct fu; cbn [crs_read_loop]; rewrite Hf3, andb_false_r; reflexivity. }
        rewrite Hl. do 3 eexists. split; [reflexivity|]. splits; auto; lia.
      * destruct (IH s3 c1 (ret + r1) (out ++ o1) HW3 ltac:(lia) ltac:(lia)) as (r' & o' & s' & E' & HW' & Hc' & HM').
        rewrite E'. do 3 eexists. split; [reflexivity|]. splits; auto; lia.
    + (* remain > 0, so count is exhausted: c1 = 0 and at least one byte was delivered *)
      assert (Hc1z : c1 = 0).
      { apply andb_false_iff in Hcond2. destruct Hcond2 as [Hs|Hs].
        - apply Z.ltb_ge in Hs. destruct HW1 as (_ & _ & _ & ?). lia.
        - apply Z.ltb_ge in Hs. lia. }
      destruct (IH s1 c1 (ret + r1) (out ++ o1) HW1 ltac:(lia) ltac:(lia)) as (r' & o' & s' & E' & HW' & Hc' & HM').
      rewrite E'. do 3 eexists. split; [reflexivity|]. splits; auto; lia.
Qed.

(* every read is total and keeps the state well-formed *)
Lemma crs_read_any s count : WFa s -> 0 <= count ->
  exists r o s', crs_read s count = Some (r, o, s') /\ WFa s'.
Proof.
  intros HW Hc. unfold crs_read, crs_read_f.
  assert (Hfuel : M s + 1 < Z.of_nat (crs_fuel s)).
  { destruct HW as (Hcur & _). unfold crs_fuel, M, lsize, total_len, zlen in *. lia. }
  destruct (loop_any (crs_fuel s) s count 0 [] HW Hc Hfuel) as (r & o & s' & E & HW' & _).
  exists r, o, s'. split; assumption.
Qed.

(* chunked_malformed_safe: for EVERY partial body (<= 4096 bytes), byte stream, fragmentation,
   error flag and non-negative read sizes the run never returns None: no out-of-range access
   (in particular recv never stores beyond the line buffer) and the loops finish within
   crs_fuel = |line buffer| + |stream| + 2 rounds. *)
Lemma chunked_malformed_safe_proof :
  forall (cap : Z) (partial : bytes) (ps : pieces) (err : bool) (counts : list Z),
    LINE_BUFFER_SIZE <= cap -> zlen partial <= LINE_BUFFER_SIZE ->
    Forall (fun c => 0 <= c) counts ->
    crs_run (crs_init cap partial ps err) counts <> None.
Proof.
  intros cap partial ps err counts Hcap Hp Hall.
  assert (HW : WFa (crs_init cap partial ps err)).
  { unfold WFa, lsize. cbn. pose proof (zlen_nonneg partial). lia. }
  revert HW. generalize (crs_init cap partial ps err). clear - Hall.
  induction Hall as [|c t Hc Ht IH]; intros s HW; cbn [crs_run]; [discriminate|].
  destruct (crs_read_any s c HW Hc) as (r & o & s' & E & HW'). rewrite E.
  specialize (IH s' HW'). destruct (crs_run s' t) as [[l s2]|]; [discriminate|contradiction].
Qed.
