(* Extraction of the C08 models: ExtrOcamlBasic only; Z, positive, nat stay Coq's datatypes. *)
From Coq Require Import ZArith List.
From PV Require Import Base.U64 C04.C04_Heap Sched.Core Sched.Prog C08.C08_Model C08.C08_Coop.
Require Extraction.
Require Import ExtrOcamlBasic.
Extraction "c08_model.ml" wp_run u_init replay_prefix modelA_init modelA_obs.
