(* C08_Coop.v — COOPERATIVE single-vCPU model of the real WorkPool code, an extension of the shared
   scheduler model (Sched/Core.v, Sched/Prog.v) for the E2 engine.  EXECUTABLE DEFINITIONS ONLY.

   One pool built as `WorkPool(0, 0, 0, mode, ring_size)` (no OS-thread workers); photon threads of the
   single vCPU run `join_current_vcpu_into_workpool()` (= main_loop), `call()`, `async_call()` and the
   destructor.  What is modelled, branch by branch:
     thread/workerpool.cpp 62-72 ~impl, 74-83 enqueue, 84-96 do_call (with fix f4b1a02), 105-115 add/remove_vcpu,
                           122-148 main_loop (mode -1, 0, >0), 150-156 delegate_helper
     common/lockfree_queue.h 653-678 SendBackoff::push_backoff<PhotonPause>, 630-651 notify_senders,
                           870-899 FlexRingChannel::send, 901-933 ::recv; the MPMC ring itself (227-271)
                           by its sequential behaviour: FIFO, capacity = max(2, next power of two)
     thread/thread.h 520-545 semaphore::wait / signal, thread.cpp 1921-1979 wait_interruptible,
                           try_resume (in-order), try_subtract — all waits here are for count 1
     thread/awaiter.h 40-48 Awaiter<PhotonContext>
     thread/thread-pool.cpp 33-63 thread_create_ex, 64-110 wait_for_work / after_work_done / stub,
                           140-169 ctor / dtor; common/identity-pool.cpp 21-55 get / put, 73-91 dtor
                           (mode > 0: the pooled photon threads)
   Photon threads created by the pool code (task threads of mode 0, pooled threads of mode > 0) are
   given thread slots of the program whose only op is `TT` / `PT`; main_loop takes the lowest free
   slot.  Task bodies are lists of actions (0 = thread_yield, a > 0 = thread_usleep(a)) and log
   start / finish / delete events into the trace (tid 1000+id, pc 0 / 1 / 2, value = the counter).
   `u_alog` (ghost) records, at every point of this model that corresponds to a transition of the
   all-interleavings model C08_Model.v, that transition's label: the runner replays the log through
   C08_Model.step, so every cooperative run is checked to be a run of the model the theorems are about. *)
From Coq Require Import ZArith List Bool Arith.
From PV Require Import Base.U64 C04.C04_Heap Sched.Core Sched.Prog C08.C08_Model.
Import ListNotations.
Local Open Scope Z_scope.

Definition ESHUTDOWN : Z := 108.
Definition QUEUE_YIELD_COUNT : Z := 256.
Definition QUEUE_YIELD_US : Z := 1024.
Definition SEM_WAIT_US : Z := 100 * 1000.

Inductive wp_op : Type :=
| WJoin (p : nat)
| WCall (p : nat) (id : nat) (acts : list Z)
| WAsync (p : nat) (id : nat) (acts : list Z)
| WDestroy (p : nat) (q : bool)
| TT                                   (* program of a task-thread slot (mode 0) *)
| PT.                                  (* program of a pooled-thread slot (mode > 0) *)

Record ctask : Type := mkCT {
  ct_call : bool; ct_acts : list Z; ct_runs : Z; ct_fin : Z; ct_del : Z;
  ct_sem : Z;                          (* Awaiter<PhotonContext>::sem.m_count *)
  ct_no : nat                          (* ghost: index of the task in C08_Model (order of acceptance) *)
}.
Definition ctask0 : ctask := mkCT false [] 0 0 0 0 0.

(* a TPControl (thread-pool.h 25-34) living on the stack of pooled thread `pc_th` *)
Record pctl : Type := mkPC { pc_th : tid; pc_start : Z (* 0 null, 1 a task, 2 &stub *); pc_arg : tid }.

Record ustate : Type := mkU {
  u_pidx : nat;                        (* decl index of the pool *)
  u_mode : Z; u_cap : nat;
  u_exists : bool; u_destroying : bool;
  u_issued : Z; u_pushes : Z;
  u_q : list item;                     (* the ring: ITask id / IStop (C08_Model.item) *)
  u_idler : Z; u_pending : Z; u_qsem : Z;
  u_swaiters : Z; u_spending : Z; u_ssem : Z;
  u_vcpus : Z;
  u_tasks : list (nat * ctask);
  u_disp : list (tid * (Z * item));    (* per dispatcher thread: running_tasks, tasklb.task *)
  u_ttarg : list (tid * tid);          (* task thread -> the dispatcher whose &tasklb it was given *)
  u_ctl : list pctl;                   (* all live TPControls *)
  u_pool : list (tid * (list tid * Z)); (* per dispatcher: m_items of its thread pool (head = top), m_refcnt *)
  u_naccepted : nat;                   (* ghost *)
  u_alog : list label                  (* ghost, newest first *)
}.

Definition qid_qsem : qid := QUser 0.
Definition qid_ssem : qid := QUser 1.
Definition qid_await (id : nat) : qid := QUser (10 + 3 * id).
Definition qid_ctl (th : tid) : qid := QUser (11 + 3 * th).
Definition qid_poolcv (d : tid) : qid := QUser (12 + 3 * d).

(* ---- assoc helpers ------------------------------------------------------------------------ *)
Fixpoint alookup {A : Type} (l : list (nat * A)) (k : nat) : option A :=
  match l with [] => None | (k', v) :: r => if Nat.eqb k' k then Some v else alookup r k end.
Fixpoint aupdate {A : Type} (l : list (nat * A)) (k : nat) (v : A) : list (nat * A) :=
  match l with
  | [] => [(k, v)]
  | (k', v') :: r => if Nat.eqb k' k then (k, v) :: r else (k', v') :: aupdate r k v
  end.

Definition U := ustate.
Definition S := Core.state U.
Definition usr (st : S) : U := s_user st.

Definition upd_u (st : S) (f : U -> U) : S := set_user st (f (usr st)).

Definition u_set_q (u : U) (q : list item) (pushes : Z) : U :=
  mkU (u_pidx u) (u_mode u) (u_cap u) (u_exists u) (u_destroying u) (u_issued u) pushes q (u_idler u) (u_pending u) (u_qsem u)
      (u_swaiters u) (u_spending u) (u_ssem u) (u_vcpus u) (u_tasks u) (u_disp u) (u_ttarg u) (u_ctl u) (u_pool u) (u_naccepted u) (u_alog u).
Definition u_set_recv (u : U) (idler pending qsem : Z) : U :=
  mkU (u_pidx u) (u_mode u) (u_cap u) (u_exists u) (u_destroying u) (u_issued u) (u_pushes u) (u_q u) idler pending qsem
      (u_swaiters u) (u_spending u) (u_ssem u) (u_vcpus u) (u_tasks u) (u_disp u) (u_ttarg u) (u_ctl u) (u_pool u) (u_naccepted u) (u_alog u).
Definition u_set_send (u : U) (sw sp ss : Z) : U :=
  mkU (u_pidx u) (u_mode u) (u_cap u) (u_exists u) (u_destroying u) (u_issued u) (u_pushes u) (u_q u) (u_idler u) (u_pending u) (u_qsem u)
      sw sp ss (u_vcpus u) (u_tasks u) (u_disp u) (u_ttarg u) (u_ctl u) (u_pool u) (u_naccepted u) (u_alog u).
Definition u_set_life (u : U) (ex de : bool) (issued vcpus : Z) : U :=
  mkU (u_pidx u) (u_mode u) (u_cap u) ex de issued (u_pushes u) (u_q u) (u_idler u) (u_pending u) (u_qsem u)
      (u_swaiters u) (u_spending u) (u_ssem u) vcpus (u_tasks u) (u_disp u) (u_ttarg u) (u_ctl u) (u_pool u) (u_naccepted u) (u_alog u).
Definition u_set_tasks (u : U) (l : list (nat * ctask)) : U :=
  mkU (u_pidx u) (u_mode u) (u_cap u) (u_exists u) (u_destroying u) (u_issued u) (u_pushes u) (u_q u) (u_idler u) (u_pending u) (u_qsem u)
      (u_swaiters u) (u_spending u) (u_ssem u) (u_vcpus u) l (u_disp u) (u_ttarg u) (u_ctl u) (u_pool u) (u_naccepted u) (u_alog u).
Definition u_set_disp (u : U) (l : list (tid * (Z * item))) : U :=
  mkU (u_pidx u) (u_mode u) (u_cap u) (u_exists u) (u_destroying u) (u_issued u) (u_pushes u) (u_q u) (u_idler u) (u_pending u) (u_qsem u)
      (u_swaiters u) (u_spending u) (u_ssem u) (u_vcpus u) (u_tasks u) l (u_ttarg u) (u_ctl u) (u_pool u) (u_naccepted u) (u_alog u).
Definition u_set_ttarg (u : U) (l : list (tid * tid)) : U :=
  mkU (u_pidx u) (u_mode u) (u_cap u) (u_exists u) (u_destroying u) (u_issued u) (u_pushes u) (u_q u) (u_idler u) (u_pending u) (u_qsem u)
      (u_swaiters u) (u_spending u) (u_ssem u) (u_vcpus u) (u_tasks u) (u_disp u) l (u_ctl u) (u_pool u) (u_naccepted u) (u_alog u).
Definition u_set_ctl (u : U) (l : list pctl) : U :=
  mkU (u_pidx u) (u_mode u) (u_cap u) (u_exists u) (u_destroying u) (u_issued u) (u_pushes u) (u_q u) (u_idler u) (u_pending u) (u_qsem u)
      (u_swaiters u) (u_spending u) (u_ssem u) (u_vcpus u) (u_tasks u) (u_disp u) (u_ttarg u) l (u_pool u) (u_naccepted u) (u_alog u).
Definition u_set_pool (u : U) (l : list (tid * (list tid * Z))) : U :=
  mkU (u_pidx u) (u_mode u) (u_cap u) (u_exists u) (u_destroying u) (u_issued u) (u_pushes u) (u_q u) (u_idler u) (u_pending u) (u_qsem u)
      (u_swaiters u) (u_spending u) (u_ssem u) (u_vcpus u) (u_tasks u) (u_disp u) (u_ttarg u) (u_ctl u) l (u_naccepted u) (u_alog u).
Definition u_set_ghost (u : U) (n : nat) (l : list label) : U :=
  mkU (u_pidx u) (u_mode u) (u_cap u) (u_exists u) (u_destroying u) (u_issued u) (u_pushes u) (u_q u) (u_idler u) (u_pending u) (u_qsem u)
      (u_swaiters u) (u_spending u) (u_ssem u) (u_vcpus u) (u_tasks u) (u_disp u) (u_ttarg u) (u_ctl u) (u_pool u) n l.

Definition alog (st : S) (l : label) : S := upd_u st (fun u => u_set_ghost u (u_naccepted u) (l :: u_alog u)).

Definition get_task (st : S) (id : nat) : ctask :=
  match alookup (u_tasks (usr st)) id with Some c => c | None => ctask0 end.
Definition set_task (st : S) (id : nat) (c : ctask) : S :=
  upd_u st (fun u => u_set_tasks u (aupdate (u_tasks u) id c)).
Definition get_disp (st : S) (d : tid) : Z * item :=
  match alookup (u_disp (usr st)) d with Some x => x | None => (0, IStop) end.
Definition set_disp (st : S) (d : tid) (x : Z * item) : S :=
  upd_u st (fun u => u_set_disp u (aupdate (u_disp u) d x)).
(* the index of dispatcher thread d among the workers of C08_Model: order of registration *)
Fixpoint index_of (l : list (tid * (Z * item))) (d : tid) (n : nat) : nat :=
  match l with [] => n | (k, _) :: r => if Nat.eqb k d then n else index_of r d (Datatypes.S n) end.
Definition wno (st : S) (d : tid) : nat := index_of (u_disp (usr st)) d 0.
Definition tno (st : S) (id : nat) : nat := ct_no (get_task st id).

Definition log_ev (st : S) (id : nat) (pc : nat) (v : Z) : S :=
  set_trace st (mkEv (1000 + id)%nat pc v 0 (s_now st) 0 false [] 0 :: s_trace st).

(* ---- semaphores (all waits are for count 1, in-order resume) ------------------------------------ *)
Inductive semid : Type := SQ | SS | SA (id : nat).
Definition sem_q (s : semid) : qid := match s with SQ => qid_qsem | SS => qid_ssem | SA id => qid_await id end.
Definition sem_get (st : S) (s : semid) : Z :=
  match s with SQ => u_qsem (usr st) | SS => u_ssem (usr st) | SA id => ct_sem (get_task st id) end.
Definition sem_set (st : S) (s : semid) (v : Z) : S :=
  match s with
  | SQ => upd_u st (fun u => u_set_recv u (u_idler u) (u_pending u) v)
  | SS => upd_u st (fun u => u_set_send u (u_swaiters u) (u_spending u) v)
  | SA id => let c := get_task st id in
             set_task st id (mkCT (ct_call c) (ct_acts c) (ct_runs c) (ct_fin c) (ct_del c) v (ct_no c))
  end.
(* semaphore::try_resume(cnt) (cpp 1944-1956, in-order arm): every waiter asks for 1 *)
Fixpoint try_resume (fuel : nat) (st : S) (q : qid) : S :=
  match fuel with
  | O => st
  | Datatypes.S f => match waitq_resume_one st q (-1) with
                     | (st1, Some _) => try_resume f st1 q
                     | (st1, None) => st1
                     end
  end.
(* semaphore::signal(1) (thread.h 538-545) *)
Definition sem_signal (st : S) (s : semid) : S :=
  let c := sem_get st s + 1 in
  try_resume (Z.to_nat c) (sem_set st s c) (sem_q s).

Inductive semres : Type := SemDone (r e : Z) | SemBlock.
(* wait_interruptible from its top: try_subtract(1) or go to sleep (cpp 1921-1931) *)
Definition sem_enter (st : S) (s : semid) : S * semres :=
  if 1 <=? sem_get st s then (sem_set st s (sem_get st s - 1), SemDone 0 0) else (st, SemBlock).
(* back from waitq::wait_defer (cpp 1930-1941 + thread.h 520-526) *)
Definition sem_resume (st : S) (t : tid) (s : semid) : S * semres :=
  let '(st1, r, e) := set_error_number st t in
  if r =? 0 then                                            (* slept to the deadline *)
    let st2 := if 0 <? sem_get st1 s then try_resume (Z.to_nat (sem_get st1 s)) st1 (sem_q s) else st1 in
    (st2, SemDone (-1) ETIMEDOUT)
  else if e =? -1 then sem_enter st1 s                      (* woken by try_resume: `while (!try_subtract)` *)
  else
    let st2 := if 0 <? sem_get st1 s then try_resume (Z.to_nat (sem_get st1 s)) st1 (sem_q s) else st1 in
    if (e =? ESHUTDOWN) || (e =? ETIMEDOUT) then (st2, SemDone (-1) e)
    else sem_enter st2 s.                                   (* wait(): retry wait_interruptible *)

(* ---- the ring channel --------------------------------------------------------------------------- *)
(* FlexRingChannel::send tail (h 878-898) after a successful push *)
Definition send_notify (st : S) : S :=
  let u := usr st in
  if u_idler u =? 0 then st
  else if u_idler u <=? u_pending u then st
  else sem_signal (upd_u st (fun u => u_set_recv u (u_idler u) (u_pending u + 1) (u_qsem u))) SQ.
(* SendBackoff::notify_senders (h 630-651) *)
Definition notify_senders (st : S) : S :=
  let u := usr st in
  if u_swaiters u =? 0 then st
  else if u_swaiters u <=? u_spending u then st
  else sem_signal (upd_u st (fun u => u_set_send u (u_swaiters u) (u_spending u + 1) (u_ssem u))) SS.
Definition try_push (st : S) (x : item) : option S :=
  let u := usr st in
  if Nat.ltb (length (u_q u)) (u_cap u) then Some (upd_u st (fun u => u_set_q u (u_q u ++ [x]) (u_pushes u + 1))) else None.

Inductive mres : Type := MDone | MYield (k : kont) | MSleep (exp : Z) (q : qid) (k : kont).
Definition add_swaiters (st : S) (d : Z) : S := upd_u st (fun u => u_set_send u (u_swaiters u + d) (u_spending u) (u_ssem u)).
Definition add_spending (st : S) (d : Z) : S := upd_u st (fun u => u_set_send u (u_swaiters u) (u_spending u + d) (u_ssem u)).
Definition add_idler (st : S) (d : Z) : S := upd_u st (fun u => u_set_recv u (u_idler u + d) (u_pending u) (u_qsem u)).
Definition add_pending (st : S) (d : Z) : S := upd_u st (fun u => u_set_recv u (u_idler u) (u_pending u + d) (u_qsem u)).

(* the `while (!push_fn(x))` loop of push_backoff<PhotonPause> (h 664-676); a wait that finds the count
   available returns without a context switch and the loop goes round again (fuel = count + 2) *)
Fixpoint send_loop_f (fuel : nat) (st : S) (x : item) (yt texp : Z) : S * mres :=
  match try_push st x with
  | Some st1 => (send_notify (add_swaiters st1 (-1)), MDone)
  | None =>
      if (0 <? yt) && negb (expired (s_now st) texp) then (st, MYield [1; yt - 1; texp])
      else
        let exp := timeout_of (s_now st) SEM_WAIT_US in
        match sem_enter st SS with
        | (st1, SemDone _ _) =>
            match fuel with
            | O => (set_stuck st1, MDone)
            | Datatypes.S f => send_loop_f f (add_spending st1 (-1)) x QUEUE_YIELD_COUNT (sat_add (s_now st1) QUEUE_YIELD_US)
            end
        | (st1, SemBlock) => (st1, MSleep exp qid_ssem [2; exp])
        end
  end.
Definition send_loop (st : S) (x : item) (yt texp : Z) : S * mres :=
  send_loop_f (Datatypes.S (Datatypes.S (Z.to_nat (u_ssem (usr st))))) st x yt texp.
(* send<PhotonPause>(x): returns MDone when x is pushed and the consumer side notified *)
Definition send_m (st : S) (t : tid) (x : item) (k : kont) : S * mres :=
  match k with
  | [] =>
      match try_push st x with
      | Some st1 => (send_notify st1, MDone)
      | None => send_loop (add_swaiters st 1) x QUEUE_YIELD_COUNT (timeout_of (s_now st) QUEUE_YIELD_US)
      end
  | [1; yt; texp] => send_loop st x yt texp
  | [2; exp] =>
      match sem_resume st t SS with
      | (st1, SemDone r _) =>
          let st2 := if r =? 0 then add_spending st1 (-1) else st1 in
          send_loop st2 x QUEUE_YIELD_COUNT (sat_add (s_now st2) QUEUE_YIELD_US)
      | (st1, SemBlock) => (st1, MSleep exp qid_ssem [2; exp])
      end
  | _ => (st, MDone)
  end.

Inductive rres : Type := RDone (x : item) | RYield (k : kont) | RSleep (exp : Z) (q : qid) (k : kont).
Definition try_pop (st : S) : option (S * item) :=
  match u_q (usr st) with
  | x :: r => Some (upd_u st (fun u => u_set_q u r (u_pushes u)), x)
  | [] => None
  end.
(* the `while (!queue->pop(x))` loop of recv (h 914-930); as for send, a wait that finds the count available
   does not switch *)
Fixpoint recv_loop_f (fuel : nat) (st : S) (yc turn texp : Z) : S * rres :=
  match try_pop st with
  | Some (st1, x) => (add_idler (notify_senders st1) (-1), RDone x)
  | None =>
      if (0 <? turn) && negb (expired (s_now st) texp) then (st, RYield [2; yc; turn - 1; texp])
      else
        let exp := timeout_of (s_now st) SEM_WAIT_US in
        match sem_enter st SQ with
        | (st1, SemDone _ _) =>
            match fuel with
            | O => (set_stuck st1, RDone IStop)
            | Datatypes.S f => recv_loop_f f (add_pending st1 (-1)) yc yc (sat_add (s_now st1) QUEUE_YIELD_US)
            end
        | (st1, SemBlock) => (st1, RSleep exp qid_qsem [3; yc; exp])
        end
  end.
Definition recv_loop (st : S) (yc turn texp : Z) : S * rres :=
  recv_loop_f (Datatypes.S (Datatypes.S (Z.to_nat (u_qsem (usr st))))) st yc turn texp.
Definition recv_m (st : S) (t : tid) (yc : Z) (k : kont) : S * rres :=
  match k with
  | [] =>
      match try_pop st with
      | Some (st1, x) => (notify_senders st1, RDone x)
      | None => (st, RYield [1; yc])                        (* h 908 `photon::thread_yield()` *)
      end
  | [1; yc'] => recv_loop (add_idler st 1) yc' yc' (timeout_of (s_now st) QUEUE_YIELD_US)
  | [2; yc'; turn; texp] => recv_loop st yc' turn texp
  | [3; yc'; exp] =>
      match sem_resume st t SQ with
      | (st1, SemDone r _) =>
          let st2 := if r =? 0 then add_pending st1 (-1) else st1 in
          recv_loop st2 yc' yc' (sat_add (s_now st2) QUEUE_YIELD_US)
      | (st1, SemBlock) => (st1, RSleep exp qid_qsem [3; yc'; exp])
      end
  | _ => (st, RDone IStop)
  end.

(* ---- task bodies ----------------------------------------------------------------------------------- *)
Inductive bres : Type := BDone | BYield (idx sub : Z) | BSleep (exp : Z) (idx sub : Z).
Definition set_counts (st : S) (id : nat) (runs fin del : Z) : S :=
  let c := get_task st id in set_task st id (mkCT (ct_call c) (ct_acts c) runs fin del (ct_sem c) (ct_no c)).
(* start action number idx (sub = 0) *)
Definition body_start_act (st : S) (t : tid) (id : nat) (idx : Z) : S * bres :=
  let c := get_task st id in
  match nth_error (ct_acts c) (Z.to_nat idx) with
  | None =>                                                  (* the callable returns *)
      let st1 := log_ev (set_counts st id (ct_runs c) (ct_fin c + 1) (ct_del c)) id 1 (ct_fin c + 1) in
      (st1, BDone)
  | Some a =>
      if a =? 0 then (st, BYield idx 9)
      else match exec_core st t (OUsleep a) [] with
           | (st1, ASleep exp _ _ [x]) => (st1, BSleep exp idx x)
           | (st1, AYield [x]) => (st1, BYield idx x)
           | (st1, _) => (st1, BYield idx 9)
           end
  end.
(* resumed inside action idx at sub-continuation sub: complete it, start the next *)
Definition body_resume (st : S) (t : tid) (id : nat) (idx sub : Z) : S * bres :=
  let c := get_task st id in
  let st1 := if sub =? 9 then st
             else match nth_error (ct_acts c) (Z.to_nat idx) with
                  | Some a => fst (exec_core st t (OUsleep a) [sub])
                  | None => st
                  end in
  body_start_act st1 t id (idx + 1).
(* tasklb.task(): count the run, log it, start action 0 *)
Definition body_enter (st : S) (t : tid) (id : nat) : S * bres :=
  let c := get_task st id in
  let st1 := log_ev (set_counts st id (ct_runs c + 1) (ct_fin c) (ct_del c)) id 0 (ct_runs c + 1) in
  body_start_act st1 t id 0.
(* after the user's callable: aop.resume() (cpp 89) / delete t (workerpool.h 126); then *count -= 1 (cpp 154) *)
Definition body_post (st : S) (id : nat) (d : tid) (me : nat) : S :=
  let c := get_task st id in
  let st1 := alog st (LFinish me) in
  let st2 := if ct_call c then alog (sem_signal st1 (SA id)) (LSignal me)
             else alog (log_ev (set_counts st1 id (ct_runs c) (ct_fin c) (ct_del c + 1)) id 2 (ct_del c + 1)) (LDelete me) in
  let '(r, x) := get_disp st2 d in
  set_disp st2 d (r - 1, x).

(* lowest thread slot that is NOTCREATED and whose program is [OUser what] *)
Fixpoint free_slot (progs : list (list (op wp_op))) (st : S) (want_pt : bool) (k : nat) (n : nat) : option tid :=
  match n with
  | O => None
  | Datatypes.S m =>
      let ok := match nth k progs [] with
                | [OUser TT] => negb want_pt
                | [OUser PT] => want_pt
                | _ => false
                end in
      if ok && tstate_eqb (th_state (getth st k)) NOTCREATED then Some k else free_slot progs st want_pt (Datatypes.S k) m
  end.

Definition usable (st : S) (p : nat) : bool :=
  let u := usr st in Nat.eqb p (u_pidx u) && u_exists u && negb (u_destroying u).

Definition res_of_send (tag : list Z) (r : mres) : action U :=
  match r with
  | MDone => AStuck
  | MYield k => AYield (tag ++ k)
  | MSleep exp q k => ASleep exp (Some q) None (tag ++ k)
  end.

(* thread_yield_to(th) for a READY th (thread.cpp 1361-1386) *)
Definition yield_to_action (st : S) (th : tid) (k : kont) : action U :=
  match s_runq st with
  | _ :: nx :: _ => if Nat.eqb nx th then AYield k else AYieldTo th k
  | _ => AStuck
  end.


(* ---- pooled photon threads (mode > 0) -------------------------------------------------------------- *)
Definition get_ctl (st : S) (th : tid) : pctl :=
  match find (fun c => Nat.eqb (pc_th c) th) (u_ctl (usr st)) with Some c => c | None => mkPC th 0 0%nat end.
Definition set_ctl (st : S) (c : pctl) : S :=
  upd_u st (fun u => u_set_ctl u (c :: filter (fun x => negb (Nat.eqb (pc_th x) (pc_th c))) (u_ctl u))).
Definition get_pool (st : S) (d : tid) : list tid * Z :=
  match alookup (u_pool (usr st)) d with Some x => x | None => ([], 0) end.
Definition set_pool (st : S) (d : tid) (x : list tid * Z) : S :=
  upd_u st (fun u => u_set_pool u (aupdate (u_pool u) d x)).
(* ThreadPoolBase::dtor(pCtrl) up to its thread_yield() (thread-pool.cpp 153-167; the control is idle) *)
Definition ctl_dtor (st : S) (th : tid) : S :=
  let c := get_ctl st th in
  fst (waitq_resume_all (set_ctl st (mkPC th 2 (pc_arg c))) (qid_ctl th) (-1)).

Section STEP.
  Variable progs : list (list (op wp_op)).

  Definition fuel_of (st : S) : nat := Datatypes.S (Datatypes.S (length (u_q (usr st)))).

  (* main_loop after the drain loop (cpp 146-148 and the DEFERs 128, 124): pooled mode first deletes
     its thread pool: ~IdentityPoolBase (identity-pool.cpp 73-91) *)
  Definition d_pool_dtor (fuel : nat) (st : S) (t : tid) : S * action U :=
    match fuel with
    | O => (st, AStuck)
    | Datatypes.S f =>
        let '(items, refcnt) := get_pool st t in
        if 0 <? refcnt then
          (st, ASleep (timeout_of (s_now st) (10 * 1000 * 1000)) (Some (qid_poolcv t)) None [50])
        else match items with
             | th :: rest => (ctl_dtor (set_pool st t (rest, refcnt)) th, AYield [51])
             | [] =>
                 let st1 := upd_u st (fun u => u_set_life u (u_exists u) (u_destroying u) (u_issued u) (u_vcpus u - 1)) in
                 (alog st1 (LDrained (wno st1 t)), ARet 0 0)
             end
    end.
  Definition d_exit (st : S) (t : tid) : S * action U :=
    if 0 <? u_mode (usr st) then d_pool_dtor 1 st t
    else let st1 := upd_u st (fun u => u_set_life u (u_exists u) (u_destroying u) (u_issued u) (u_vcpus u - 1)) in
         (alog st1 (LDrained (wno st1 t)), ARet 0 0).
  Definition d_drain (st : S) (t : tid) : S * action U :=
    if fst (get_disp st t) =? 0 then d_exit st t else (st, AYield [40]).

  (* the thread that will run delegate_helper(&tasklb) in mode >= 0, READY in the ring *)
  Definition spawn (st : S) (t : tid) : option (S * tid) :=
    if u_mode (usr st) =? 0 then
      match free_slot progs st false 0 (length progs) with
      | Some th => Some (upd_u (do_create st th false) (fun u => u_set_ttarg u (aupdate (u_ttarg u) th t)), th)
      | None => None
      end
    else
      let '(items, refcnt) := get_pool st t in
      match items with
      | th :: rest =>                                        (* IdentityPoolBase::get: a pooled control *)
          let st1 := set_pool st t (rest, refcnt + 1) in
          let st2 := set_ctl st1 (mkPC th 1 t) in
          Some (fst (waitq_resume_one st2 (qid_ctl th) (-1)), th)        (* cvar.notify_one() *)
      | [] =>                                                (* m_ctor: a new stub thread (thread-pool.cpp 140-152, 92-97) *)
          match free_slot progs st true 0 (length progs) with
          | Some th =>
              let st1 := modth (update_now (do_create st th false)) t (fun x => set_terr x 0) in
              let st2 := set_pool st1 t ([], refcnt + 1) in
              Some (set_ctl st2 (mkPC th 1 t), th)
          | None => None
          end
      end.

  (* main_loop at ring->recv with recv-continuation rk (cpp 130-145) *)
  Fixpoint d_loop (fuel : nat) (st : S) (t : tid) (rk : kont) : S * action U :=
    match fuel with
    | O => (st, AStuck)
    | Datatypes.S f =>
        let running := fst (get_disp st t) in
        let yc := if running =? 0 then QUEUE_YIELD_COUNT else 0 in
        let w := wno st t in
        match recv_m st t yc rk with
        | (st1, RYield k') => (st1, AYield (10 :: k'))
        | (st1, RSleep exp q k') => (st1, ASleep exp (Some q) None (10 :: k'))
        | (st1, RDone IStop) => d_drain (alog (alog st1 (LRecv w)) (LStop w)) t
        | (st1, RDone (ITask id)) =>
            let me := tno st1 id in
            let st2 := alog (alog (set_disp st1 t (running + 1, ITask id)) (LRecv w)) (LDispatch w) in
            if u_mode (usr st2) <? 0 then
              let st3 := alog (alog st2 (LCopy me)) (LStart me) in
              match body_enter st3 t id with
              | (st4, BDone) => d_loop f (alog (body_post st4 id t me) (LDec me None)) t []
              | (st4, BYield idx sub) => (st4, AYield [20; Z.of_nat id; idx; sub])
              | (st4, BSleep exp idx sub) => (st4, ASleep exp None None [20; Z.of_nat id; idx; sub])
              end
            else
              match spawn st2 t with
              | Some (st3, th) => (alog st3 (LYieldTo w), yield_to_action st3 th [30])
              | None => (st2, AStuck)
              end
        end
    end.

  Definition d_step (st : S) (t : tid) (p : nat) (k : kont) : S * action U :=
    match k with
    | [] =>
        if usable st p then
          let st1 := upd_u st (fun u => u_set_life u (u_exists u) (u_destroying u) (u_issued u) (u_vcpus u + 1)) in
          let st2 := set_disp st1 t (0, IStop) in
          let st3 := alog st2 (LRegister (wno st2 t)) in
          d_loop (fuel_of st3) st3 t []
        else (st, ARet SKIPPED 0)
    | 10 :: rk => let st1 := alog st (LYield (wno st t) None) in d_loop (fuel_of st1) st1 t rk
    | [11] => d_loop (fuel_of st) st t []
    | [20; id; idx; sub] =>
        let id := Z.to_nat id in
        let me := tno st id in
        let st1 := alog st (LYield (wno st t) (Some me)) in
        match body_resume st1 t id idx sub with
        | (st2, BDone) => let st3 := alog (body_post st2 id t me) (LDec me None) in d_loop (fuel_of st3) st3 t []
        | (st2, BYield idx' sub') => (st2, AYield [20; Z.of_nat id; idx'; sub'])
        | (st2, BSleep exp idx' sub') => (st2, ASleep exp None None [20; Z.of_nat id; idx'; sub'])
        end
    | [30] => let st1 := alog st (LYield (wno st t) None) in d_loop (fuel_of st1) st1 t []
    | [40] => d_drain (alog st (LYield (wno st t) None)) t
    | [50] =>                                               (* back from m_cvar.wait(m_mtx, 10 s) *)
        let '(st1, _, _) := set_error_number st t in d_pool_dtor 1 st1 t
    | [51] => d_pool_dtor 1 st t                          (* back from dtor's thread_yield() *)
    | _ => (st, AStuck)
    end.

  (* delegate_helper in a thread of its own (cpp 150-156): copy *arg, run the task, *count -= 1.
     hk = [] at entry, [id; idx; sub] when resumed inside the body *)
  Inductive hres : Type := HDone | HYield (k : kont) | HSleep (exp : Z) (k : kont).
  Definition helper_m (st : S) (t d : tid) (hk : kont) : S * hres :=
    let fin (x : S * bres) (id : nat) (me : nat) : S * hres :=
      match x with
      | (st2, BDone) => (alog (body_post st2 id d me) (LDec me None), HDone)
      | (st2, BYield idx sub) => (st2, HYield [Z.of_nat id; idx; sub])
      | (st2, BSleep exp idx sub) => (st2, HSleep exp [Z.of_nat id; idx; sub])
      end in
    match hk with
    | [] =>
        match snd (get_disp st d) with
        | ITask id =>
            let me := tno st id in
            fin (body_enter (alog (alog st (LCopy me)) (LStart me)) t id) id me
        | IStop => (set_stuck st, HDone)
        end
    | [id; idx; sub] =>
        let id := Z.to_nat id in
        let me := tno st id in
        fin (body_resume (alog st (LYield (wno st d) (Some me))) t id idx sub) id me
    | _ => (set_stuck st, HDone)
    end.

  (* mode 0: the photon thread created by main_loop *)
  Definition tt_step (st : S) (t : tid) (k : kont) : S * action U :=
    let d := match alookup (u_ttarg (usr st)) t with Some d => d | None => O end in
    match helper_m st t d k with
    | (st1, HDone) => (st1, ARet 0 0)
    | (st1, HYield k') => (st1, AYield k')
    | (st1, HSleep exp k') => (st1, ASleep exp None None k')
    end.

  (* mode > 0: ThreadPoolBase::stub (thread-pool.cpp 92-110) from `while (wait_for_work(ctrl))` on *)
  Definition pt_after_work (st : S) (t d : tid) : S * action U :=
    (* after_work_done: start = nullptr; ctrl.pool->put(&ctrl) (identity-pool.cpp 39-55) *)
    let st1 := set_ctl st (mkPC t 0 d) in
    let '(items, refcnt) := get_pool st1 d in
    if Z.of_nat (length items) <? u_mode (usr st1) then
      let st2 := set_pool st1 d (t :: items, refcnt - 1) in
      let st3 := fst (waitq_resume_all st2 (qid_poolcv d) (-1)) in
      (st3, ASleep MAX64 (Some (qid_ctl t)) None [1])       (* wait_for_work: start == nullptr *)
    else (ctl_dtor st1 t, AYield [3; Z.of_nat d]).          (* m_dtor(obj): start = &stub; thread_yield() *)
  Definition pt_step (st : S) (t : tid) (k : kont) : S * action U :=
    let run (st : S) (hk : kont) : S * action U :=
      let d := pc_arg (get_ctl st t) in
      match helper_m st t d hk with
      | (st1, HDone) => pt_after_work st1 t d
      | (st1, HYield k') => (st1, AYield (2 :: k'))
      | (st1, HSleep exp k') => (st1, ASleep exp None None (2 :: k'))
      end in
    let check (st : S) : S * action U :=
      let c := get_ctl st t in
      if pc_start c =? 0 then (st, ASleep MAX64 (Some (qid_ctl t)) None [1])
      else if pc_start c =? 2 then (st, ARet 0 0)
      else run st [] in
    match k with
    | [] => check st
    | [1] => let '(st1, _, _) := set_error_number st t in check st1
    | 2 :: hk => run st hk
    | [3; d] =>
        let d := Z.to_nat d in
        let '(items, refcnt) := get_pool st d in
        let st1 := set_pool st d (items, refcnt - 1) in
        check (fst (waitq_resume_all st1 (qid_poolcv d) (-1)))
    | _ => (st, AStuck)
    end.

  (* call() / async_call(): enqueue (cpp 74-83) then, for call, aop.suspend() (cpp 92) *)
  Definition submit_accept (st : S) (id : nat) (c : bool) : S :=
    let ct := get_task st id in
    let n := u_naccepted (usr st) in
    let st1 := set_task st id (mkCT (ct_call ct) (ct_acts ct) (ct_runs ct) (ct_fin ct) (ct_del ct) (ct_sem ct) n) in
    upd_u st1 (fun u => u_set_ghost u (Datatypes.S n) (LSubmit c :: u_alog u)).
  Definition await_finish (st : S) (id : nat) : S * action U :=
    let st1 := alog st (LReturn (tno st id)) in
    (st1, ARet (ct_fin (get_task st1 id)) 0).              (* the finished flag right after call() returned *)
  (* cpp 95 `while (aop.suspend() != 0) {}`: a wait given up on ESHUTDOWN / ETIMEDOUT is started again *)
  Definition await (st : S) (t : tid) (id : nat) (first : bool) : S * action U :=
    match (if first then sem_enter st (SA id) else sem_resume st t (SA id)) with
    | (st1, SemDone r e) =>
        if r =? 0 then await_finish st1 id
        else
          let st2 := alog st1 (LIntr (tno st1 id)) in
          match sem_enter st2 (SA id) with
          | (st3, SemDone _ _) => await_finish st3 id
          | (st3, SemBlock) => (st3, ASleep MAX64 (Some (qid_await id)) None [20])
          end
    | (st1, SemBlock) => (st1, ASleep MAX64 (Some (qid_await id)) None [20])
    end.
  Definition submit_step (st : S) (t : tid) (p id : nat) (acts : list Z) (c : bool) (k : kont) : S * action U :=
    let sent (st : S) : S * action U :=
      let st1 := submit_accept st id c in
      if c then await st1 t id true else (st1, ARet 0 0) in
    match k with
    | [] =>
        if usable st p then
          let st1 := upd_u st (fun u => u_set_life u (u_exists u) (u_destroying u) (u_issued u + 1) (u_vcpus u)) in
          let st2 := set_task st1 id (mkCT c acts (ct_runs (get_task st1 id)) (ct_fin (get_task st1 id)) (ct_del (get_task st1 id)) 0 0) in
          match send_m st2 t (ITask id) [] with
          | (st3, MDone) => sent st3
          | (st3, r) => (st3, res_of_send [10] r)
          end
        else (st, ARet SKIPPED 0)
    | 10 :: sk =>
        match send_m st t (ITask id) sk with
        | (st1, MDone) => sent st1
        | (st1, r) => (st1, res_of_send [10] r)
        end
    | [20] => await st t id false
    | _ => (st, AStuck)
    end.

  (* the harness's gate + ~impl (cpp 62-72): n stop markers, wait for deregistration, destroy *)
  Fixpoint destroy_push (fuel : nat) (st : S) (t : tid) (n : Z) (sk : kont) : S * action U :=
    match fuel with
    | O => (st, AStuck)
    | Datatypes.S f =>
        if n <=? 0 then
          if u_vcpus (usr st) =? 0
          then (alog (upd_u st (fun u => u_set_life u false true (u_issued u) (u_vcpus u))) LDFinal, ARet 0 0)
          else (st, AYield [50])
        else match send_m st t IStop sk with
             | (st1, MDone) => destroy_push f (alog st1 LDPush) t (n - 1) []
             | (st1, r) => (st1, res_of_send [40; n] r)
             end
    end.
  Definition fin_total (st : S) : Z := fold_right (fun x a => ct_fin (snd x) + a) 0 (u_tasks (usr st)).
  Definition destroy_gate (st : S) (t : tid) (p : nat) (q : bool) : S * action U :=
    if usable st p then
      if q && negb (fin_total st =? u_issued (usr st)) then
        match exec_core st t (OUsleep 37) [] with
        | (st1, ASleep exp _ _ [x]) => (st1, ASleep exp None None [31; x])
        | (st1, AYield [x]) => (st1, AYield [31; x])
        | (st1, _) => (st1, AStuck)
        end
      else if u_pushes (usr st) =? u_issued (usr st)
      then let st1 := upd_u st (fun u => u_set_life u (u_exists u) true (u_issued u) (u_vcpus u)) in
           let n := u_vcpus (usr st1) in destroy_push (Datatypes.S (Z.to_nat n)) (alog st1 LDBegin) t n []
      else (st, AYield [30])
    else (st, ARet SKIPPED 0).
  Definition destroy_step (st : S) (t : tid) (p : nat) (q : bool) (k : kont) : S * action U :=
    match k with
    | [] => destroy_gate st t p q
    | [30] => destroy_gate st t p q
    | [31; sub] => destroy_gate (fst (exec_core st t (OUsleep 37) [sub])) t p q
    | 40 :: n :: sk => destroy_push (Datatypes.S (Z.to_nat n)) st t n sk
    | [50] => destroy_push 1 st t 0 []
    | _ => (st, AStuck)
    end.

  Definition wp_step (st : S) (t : tid) (o : wp_op) (k : kont) : S * action U :=
    match o with
    | WJoin p => d_step st t p k
    | WCall p id acts => submit_step st t p id acts true k
    | WAsync p id acts => submit_step st t p id acts false k
    | WDestroy p q => destroy_step st t p q k
    | TT => tt_step st t k
    | PT => pt_step st t k
    end.
End STEP.

(* capacity of the ring (lockfree_queue.h 97-99) *)
Fixpoint pow2_ge (fuel : nat) (c p : nat) : nat :=
  match fuel with O => p | Datatypes.S f => if Nat.leb c p then p else pow2_ge f c (2 * p) end.
Definition ring_capacity (c : nat) : nat := if Nat.leb c 1 then 2%nat else pow2_ge 64 c 2.

Definition u_init (pidx : nat) (has_pool : bool) (mode : Z) (ring_size : nat) : U :=
  mkU pidx mode (ring_capacity ring_size) has_pool false 0 0 [] 0 0 0 0 0 0 0 [] [] [] [] [] 0 [].

(* the run: trace etc. as E2 wants it + the ghost log (oldest first) + the pool's final state *)
Definition wp_run (fuel : nat) (ps : list (list (op wp_op))) (u0 : U) :=
  let st := coop_run (wp_step ps) ps fuel (init_state (length ps) VCLOCK_START u0) in
  ((rev (s_trace st), blocked ps st, s_now st, s_end st, s_stuck st), rev (u_alog (usr st)),
   (u_cap (usr st), length (u_disp (usr st)))).

Definition modelA_init := C08_Model.init.
Definition modelA_obs := C08_Model.obs.
(* replay of the ghost log through the all-interleavings model: Some final state = accepted *)
Definition replay (inline : bool) (cap njoin : nat) (ls : list label) : option C08_Model.state :=
  C08_Model.run (C08_Model.init inline cap 0 njoin false) ls.
Fixpoint replay_prefix (s : C08_Model.state) (ls : list label) (n : nat) : nat + C08_Model.state :=
  match ls with
  | [] => inr s
  | l :: r => match C08_Model.step s l with Some s' => replay_prefix s' r (Datatypes.S n) | None => inl n end
  end.
