(* C08 — WorkPool: every task runs exactly once; call() returns after its task finished.
   Property theorems over EVERY interleaving of submitters / dispatchers / task threads / destructor of the model
   coq/C08/C08_Model.v (`reachable (init ...) s` = s is reached from the constructed pool by any label sequence):
   any thread mode (inline : mode < 0, else own/pooled thread), any ring capacity, any number of owned and joining
   vCPUs.  Only `Theorem name : statement. Proof. exact lemma. Qed.` + Print Assumptions. *)
From Coq Require Import List Bool Arith.
From PV Require Import C08.C08_Model C08.C08_Proofs.
Import ListNotations.

(* every accepted task's body starts at most once, finishes only after it started, and while it has not started it
   is in exactly the places the code keeps it: the ring, a dispatcher's local, or a helper counted by running_tasks *)
Theorem task_exactly_once : forall inline cap no nj intr s, reachable (init inline cap no nj intr) s ->
  forall i t, gett s i = Some t ->
    t_runs t <= 1 /\ t_fin t <= t_runs t /\
    (t_runs t = 0 ->
       In (ITask i) (s_ring s) \/
       (exists w k, getw s w = Some k /\ w_pc k = WGot (ITask i)) \/
       (exists w k, getw s w = Some k /\ exw w (t_phase t) = true /\ 1 <= w_running k)).
Proof. exact task_exactly_once_pf. Qed.
Print Assumptions task_exactly_once.

(* no delegate_helper ever copied a record other than the one it was started for: while a helper has not copied,
   the dispatcher's slot still holds its task (the yield_to rule), and every copy made is the helper's own *)
Theorem record_read_is_own : forall inline cap no nj intr s, reachable (init inline cap no nj intr) s ->
  g_badcopy s = false /\
  (forall i t w, gett s i = Some t -> t_phase t = PNew w -> exists k, getw s w = Some k /\ w_slot k = Some i) /\
  (forall i t w r, gett s i = Some t ->
     (t_phase t = PCopied w r \/ t_phase t = PBody w r \/ t_phase t = PFin w r \/ t_phase t = PPost w r) -> r = i).
Proof. exact record_read_is_own_pf. Qed.
Print Assumptions record_read_is_own.

(* the code of the working tree (`s_intr = false`: do_call waits again when aop.suspend() gives up).  Under EVERY
   schedule — including ESHUTDOWN / ETIMEDOUT interrupts of a caller blocked in call() at any moment (label LIntr) —
   call() returns only after its task ran and finished exactly once and signalled, and the caller's frame
   (lambda + awaiter) is never touched after call() returned. *)
Theorem call_returns_after_finish : forall inline cap no nj s, reachable (init inline cap no nj false) s ->
  g_uaf s = false /\
  forall i t, gett s i = Some t -> t_ret t = true -> t_call t = true /\ t_runs t = 1 /\ t_fin t = 1 /\ t_sig t = true.
Proof. exact call_returns_after_finish_pf. Qed.
Print Assumptions call_returns_after_finish.

(* the interrupt is really part of the schedules quantified over: it is enabled while a caller is blocked *)
Theorem call_interrupt_enabled :
  exists s s', run (init false 4 1 0 false) [LSubmit true] = Some s /\ step s (LIntr 0) = Some s'.
Proof. exact call_interrupt_enabled_pf. Qed.
Print Assumptions call_interrupt_enabled.

(* FINDING F37 (fixed by /repo f4b1a02), formal content: the code BEFORE the fix (`s_intr = true`: workerpool.cpp 92
   ignored suspend()'s result, thread.h 520-526: semaphore::wait gives up on ESHUTDOWN / ETIMEDOUT) lets call()
   return before the task finished, and the task then touches the dead frame. *)
Theorem call_returns_after_finish_prefix_refuted :
  (exists s t, run (init false 4 1 0 true) witness_intr = Some s /\ gett s 0 = Some t /\ t_ret t = true /\ t_fin t = 0) /\
  (exists s, run (init false 4 1 0 true) witness_uaf = Some s /\ g_uaf s = true).
Proof. exact call_returns_after_finish_prefix_refuted_pf. Qed.
Print Assumptions call_returns_after_finish_prefix_refuted.

(* an async task object is deleted at most once, only after it ran; a call() task is never deleted *)
Theorem async_deleted_once : forall inline cap no nj intr s, reachable (init inline cap no nj intr) s ->
  forall i t, gett s i = Some t ->
    t_del t <= 1 /\ (t_del t = 1 -> t_call t = false /\ t_fin t = 1) /\ (t_call t = true -> t_del t = 0).
Proof. exact async_deleted_once_pf. Qed.
Print Assumptions async_deleted_once.

(* the destructor's final step (destroy the ring, return) is enabled only when the ring holds no task and every
   accepted task has run, finished, been signalled / deleted and left its worker.  GUARD: the pool has at least
   one vCPU that ever registered. *)
Theorem destroy_waits : forall inline cap no nj intr s s', reachable (init inline cap no nj intr) s ->
  step s LDFinal = Some s' ->
  (exists w k, getw s w = Some k /\ w_pc k <> WReg) ->
  rtasks (s_ring s) = [] /\
  forall i t, gett s i = Some t ->
    t_phase t = PDone /\ t_runs t = 1 /\ t_fin t = 1 /\ t_del t = (if t_call t then 0 else 1) /\ t_sig t = t_call t.
Proof. exact destroy_waits_pf. Qed.
Print Assumptions destroy_waits.

(* degenerate configuration excluded by the guard: WorkPool(0) that nobody joined accepts a task and its destructor
   returns at once (vcpus.size() == 0: no marker, nothing to join) *)
Theorem destroy_waits_noworker_refuted :
  exists s t, run (init false 4 0 0 false) witness_noworker = Some s /\ s_dpc s = DDone /\
              gett s 0 = Some t /\ t_fin t = 0.
Proof. exact destroy_waits_noworker_refuted_pf. Qed.
Print Assumptions destroy_waits_noworker_refuted.

(* `*tasklb.count -= 1` never hits a dispatcher that left main_loop; the ring is never popped after ~impl freed it *)
Theorem no_stale_access : forall inline cap no nj intr s, reachable (init inline cap no nj intr) s ->
  g_badcount s = false /\ g_ringuaf s = false.
Proof. exact no_stale_access_pf. Qed.
Print Assumptions no_stale_access.

(* the hypotheses of destroy_waits are met by a non-trivial reachable state *)
Theorem destroy_waits_example :
  exists s s', run (init false 2 1 0 false) sample_run = Some s /\ step s LDFinal = Some s' /\
               (exists w k, getw s w = Some k /\ w_pc k <> WReg) /\ length (s_tasks s) = 2.
Proof. exact sample_reachable. Qed.
Print Assumptions destroy_waits_example.
