(* C08 property theorems (placeholder while the proofs are being written) *)
From PV Require Import C08.C08_Model C08.C08_Proofs.
