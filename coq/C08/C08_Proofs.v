(* C08_Proofs.v — inductive invariant of the all-interleavings WorkPool model (C08_Model.v) and the proofs of
   the property theorems.  `Inv` holds in every state reachable from `init` by ANY sequence of labels
   (step_inv / reachable_inv); the property theorems are read off it. *)
From Coq Require Import List Bool Arith Lia.
From PV Require Import C08.C08_Model.
Import ListNotations.

(* ---- list lemmas ---- *)
Lemma length_upd {A} (l : list A) i v : length (upd l i v) = length l.
Proof. revert i; induction l; destruct i; simpl; auto. Qed.
Lemma nth_error_upd {A} (l : list A) i j v :
  nth_error (upd l i v) j = if Nat.eqb j i then (match nth_error l i with Some _ => Some v | None => None end) else nth_error l j.
Proof.
  revert i j; induction l; intros i j; simpl.
  - destruct (Nat.eqb j i); destruct i, j; reflexivity.
  - destruct i as [|i], j as [|j]; simpl; auto.
Qed.
Lemma length_modn {A} (l : list A) i f : length (modn l i f) = length l.
Proof. unfold modn. destruct (nth_error l i); auto using length_upd. Qed.
Lemma nth_error_modn {A} (l : list A) i j f :
  nth_error (modn l i f) j = if Nat.eqb j i then option_map f (nth_error l i) else nth_error l j.
Proof.
  unfold modn. destruct (nth_error l i) eqn:E.
  - rewrite nth_error_upd, E. reflexivity.
  - destruct (Nat.eqb j i) eqn:Ej; auto. apply Nat.eqb_eq in Ej; subst. simpl. auto.
Qed.

(* ---- phases ---- *)
Definition exw (w : nat) (p : phase) : bool :=
  match p with PNew w' | PCopied w' _ | PBody w' _ | PFin w' _ | PPost w' _ => Nat.eqb w' w | _ => false end.
Definition b2n (b : bool) : nat := if b then 1 else 0.
Definition count_exec (w : nat) (l : list task) : nat := length (filter (fun t => exw w (t_phase t)) l).

Lemma count_exec_app w l1 l2 : count_exec w (l1 ++ l2) = count_exec w l1 + count_exec w l2.
Proof. unfold count_exec. rewrite filter_app, app_length. reflexivity. Qed.

Lemma count_exec_upd w l i t v :
  nth_error l i = Some t ->
  count_exec w (upd l i v) + b2n (exw w (t_phase t)) = count_exec w l + b2n (exw w (t_phase v)).
Proof.
  revert i; induction l as [|a l IH]; intros i H.
  - destruct i; discriminate.
  - destruct i as [|i]; simpl in H.
    + inversion H; subst. unfold count_exec; simpl.
      destruct (exw w (t_phase t)), (exw w (t_phase v)); simpl; lia.
    + specialize (IH _ H). unfold count_exec in *; simpl.
      destruct (exw w (t_phase a)); simpl; lia.
Qed.
Lemma count_exec_modn w l i t f :
  nth_error l i = Some t ->
  count_exec w (modn l i f) + b2n (exw w (t_phase t)) = count_exec w l + b2n (exw w (t_phase (f t))).
Proof. intros H. unfold modn. rewrite H. apply count_exec_upd; auto. Qed.
Lemma count_exec_pos w l i t : nth_error l i = Some t -> exw w (t_phase t) = true -> 1 <= count_exec w l.
Proof.
  revert i; induction l as [|a l IH]; intros i H E.
  - destruct i; discriminate.
  - destruct i as [|i]; simpl in H.
    + inversion H; subst. unfold count_exec; simpl. rewrite E. simpl. lia.
    + specialize (IH _ H E). unfold count_exec in *; simpl. destruct (exw w (t_phase a)); simpl; lia.
Qed.

(* ---- the ring ---- *)
Fixpoint rtasks (l : list item) : list nat :=
  match l with [] => [] | ITask i :: r => i :: rtasks r | IStop :: r => rtasks r end.
Fixpoint only_stops (l : list item) : bool :=
  match l with [] => true | IStop :: r => only_stops r | ITask _ :: _ => false end.
Fixpoint shape_ok (l : list item) : bool :=
  match l with [] => true | ITask _ :: r => shape_ok r | IStop :: r => only_stops r end.

Lemma rtasks_app a b : rtasks (a ++ b) = rtasks a ++ rtasks b.
Proof. induction a as [|x a IH]; simpl; auto. destruct x; simpl; congruence. Qed.
Lemma only_stops_rtasks l : only_stops l = true -> rtasks l = [].
Proof. induction l as [|x l IH]; simpl; auto. destruct x; auto; discriminate. Qed.
Lemma only_stops_app_stop l : only_stops l = true -> only_stops (l ++ [IStop]) = true.
Proof. induction l as [|x l IH]; simpl; auto. destruct x; auto. Qed.
Lemma shape_app_stop l : shape_ok l = true -> shape_ok (l ++ [IStop]) = true.
Proof. induction l as [|x l IH]; simpl; auto. destruct x; auto using only_stops_app_stop. Qed.
Lemma shape_app_task l i : shape_ok l = true -> ~ In IStop l -> shape_ok (l ++ [ITask i]) = true.
Proof.
  induction l as [|x l IH]; simpl; auto. destruct x; intros H N.
  - apply IH; auto.
  - exfalso; apply N; auto.
Qed.
Lemma shape_tail x l : shape_ok (x :: l) = true -> shape_ok l = true.
Proof. destruct x; simpl; auto. intros H. destruct l as [|y l]; simpl in *; auto. destruct y; auto; discriminate. Qed.
Lemma shape_stop_head l : shape_ok (IStop :: l) = true -> rtasks l = [].
Proof. simpl. apply only_stops_rtasks. Qed.

(* ---- the invariant ---- *)
Definition task_ok (intr : bool) (i : nat) (t : task) : Prop :=
  match t_phase t with
  | PRing | PGot _ | PNew _ => t_runs t = 0 /\ t_fin t = 0 /\ t_del t = 0 /\ t_sig t = false
  | PCopied _ r => r = i /\ t_runs t = 0 /\ t_fin t = 0 /\ t_del t = 0 /\ t_sig t = false
  | PBody _ r => r = i /\ t_runs t = 1 /\ t_fin t = 0 /\ t_del t = 0 /\ t_sig t = false
  | PFin _ r => r = i /\ t_runs t = 1 /\ t_fin t = 1 /\ t_del t = 0 /\ t_sig t = false
  | PPost _ r => r = i /\ t_runs t = 1 /\ t_fin t = 1 /\ t_del t = (if t_call t then 0 else 1) /\ t_sig t = t_call t
  | PDone => t_runs t = 1 /\ t_fin t = 1 /\ t_del t = (if t_call t then 0 else 1) /\ t_sig t = t_call t
  end /\ (intr = false -> t_ret t = true -> t_sig t = true) /\ (t_ret t = true -> t_call t = true).

Definition tw_ok (s : state) (i : nat) (t : task) : Prop :=
  match t_phase t with
  | PRing => In i (rtasks (s_ring s))
  | PGot w => exists k, getw s w = Some k /\ w_pc k = WGot (ITask i)
  | PNew w => exists k, getw s w = Some k /\ w_slot k = Some i /\
                ((w_pc k = WCreated i /\ w_cur k = None) \/ (w_cur k = Some i /\ (w_pc k = WLoop \/ w_pc k = WInline i))) /\
                (s_inline s = true -> w_pc k = WInline i)
  | PCopied w _ | PBody w _ | PFin w _ | PPost w _ =>
      exists k, getw s w = Some k /\ (s_inline s = true -> w_pc k = WInline i)
  | PDone => True
  end.

Definition worker_ok (s : state) (w : nat) (k : worker) : Prop :=
  w_reg k = negb (is_out (w_pc k)) /\
  w_running k = count_exec w (s_tasks s) /\
  (is_out (w_pc k) = true -> w_running k = 0) /\
  (s_dpc s = DDone -> w_reg k = false) /\
  match w_pc k with
  | WGot (ITask i) => exists t, gett s i = Some t /\ t_phase t = PGot w
  | WGot IStop | WDrain | WExit => s_dpc s <> DIdle /\ rtasks (s_ring s) = []
  | WCreated i => (exists t, gett s i = Some t /\ t_phase t = PNew w) /\ s_inline s = false
  | WInline i => s_inline s = true
  | _ => True
  end.

Record Inv (s : state) : Prop := mkInv {
  inv_tasks : forall i t, gett s i = Some t -> task_ok (s_intr s) i t /\ tw_ok s i t;
  inv_workers : forall w k, getw s w = Some k -> worker_ok s w k;
  inv_ring_nodup : NoDup (rtasks (s_ring s));
  inv_ring_in : forall i, In i (rtasks (s_ring s)) -> exists t, gett s i = Some t /\ t_phase t = PRing;
  inv_shape : shape_ok (s_ring s) = true;
  inv_idle : s_dpc s = DIdle -> ~ In IStop (s_ring s);
  inv_flags : g_badcopy s = false /\ g_badcount s = false /\ g_ringuaf s = false /\ (s_intr s = false -> g_uaf s = false)
}.

(* ---- accessors under updates ---- *)
Lemma gett_modt s i f j : gett (modt s i f) j = if Nat.eqb j i then option_map f (gett s i) else gett s j.
Proof. unfold gett, modt. simpl. apply nth_error_modn. Qed.
Lemma getw_modw s w f v : getw (modw s w f) v = if Nat.eqb v w then option_map f (getw s w) else getw s v.
Proof. unfold getw, modw. simpl. apply nth_error_modn. Qed.

Lemma init_inv inline cap no nj intr : Inv (init inline cap no nj intr).
Proof.
  constructor; simpl.
  - intros i t H. unfold gett in H; simpl in H. destruct i; discriminate.
  - intros w k H. unfold getw in H; simpl in H.
    assert (k = worker0 true \/ k = worker0 false) as [-> | ->].
    { apply nth_error_In in H. apply in_app_or in H. destruct H as [H|H]; apply repeat_spec in H; auto. }
    + unfold worker_ok; simpl. repeat split; auto; try discriminate.
    + unfold worker_ok; simpl. repeat split; auto; try discriminate.
  - constructor.
  - intros i [].
  - reflexivity.
  - intros _ [].
  - repeat split; auto.
Qed.

Ltac brk H :=
  repeat match type of H with
  | match ?x with _ => _ end = Some _ => let E := fresh "E" in destruct x eqn:E; try discriminate H
  | (if ?x then _ else _) = Some _ => let E := fresh "E" in destruct x eqn:E; try discriminate H
  end.

Lemma disp_at_spec s w k : disp_at s w = Some k -> getw s w = Some k /\ w_cur k = None.
Proof. unfold disp_at. destruct (getw s w) as [k'|]; try discriminate. destruct (w_cur k') eqn:E; try discriminate. intros H; inversion H; subst; auto. Qed.
Lemma owns_spec s w i : owns s w i = true -> exists k, getw s w = Some k /\ w_cur k = Some i.
Proof. unfold owns. destruct (getw s w) as [k|]; try discriminate. destruct (w_cur k) as [j|] eqn:E; try discriminate.
  intros H. apply Nat.eqb_eq in H; subst. eauto. Qed.

Definition flags_ok (s : state) : Prop :=
  g_badcopy s = false /\ g_badcount s = false /\ g_ringuaf s = false /\ (s_intr s = false -> g_uaf s = false).

Lemma exw_true w p : exw w p = true -> p <> PRing /\ (forall w', p <> PGot w') /\ p <> PDone.
Proof. destruct p; simpl; try discriminate; repeat split; try discriminate; intros; discriminate. Qed.

(* a task moves between execution phases of one worker; ring, workers, destroyer untouched *)
Lemma inv_local s s' i t t' :
  Inv s -> gett s i = Some t ->
  (t_phase t = PRing -> t_phase t' = PRing) ->
  (forall w, t_phase t = PGot w -> t_phase t' = PGot w) ->
  (forall w, exw w (t_phase t') = exw w (t_phase t)) ->
  task_ok (s_intr s) i t' -> tw_ok s i t' ->
  (forall w k, getw s w = Some k -> w_pc k = WCreated i -> t_phase t' = PNew w) ->
  s_ring s' = s_ring s -> s_workers s' = s_workers s -> s_dpc s' = s_dpc s ->
  s_inline s' = s_inline s -> s_intr s' = s_intr s ->
  s_tasks s' = upd (s_tasks s) i t' -> flags_ok s' -> Inv s'.
Proof.
  intros I G NR NG EX TO TW WC Hr Hw Hd Hi Hn Ht HF.
  assert (Gt : forall j, gett s' j = if Nat.eqb j i then Some t' else gett s j).
  { intros j. unfold gett. rewrite Ht, nth_error_upd. fold (gett s i). rewrite G. reflexivity. }
  assert (Gw : forall w, getw s' w = getw s w) by (intros; unfold getw; rewrite Hw; auto).
  assert (TWF : forall j t1, tw_ok s j t1 -> tw_ok s' j t1).
  { intros j t1. unfold tw_ok. rewrite Hr, Hi. destruct (t_phase t1); auto; rewrite Gw; auto. }
  constructor.
  - intros j t1 H. rewrite Gt in H. destruct (Nat.eqb j i) eqn:Ej.
    + apply Nat.eqb_eq in Ej; subst j. inversion H; subst t1. rewrite Hn. auto.
    + rewrite Hn. destruct (inv_tasks _ I _ _ H). auto.
  - intros w k H. rewrite Gw in H. destruct (inv_workers _ I _ _ H) as (A & B & C & D & F).
    unfold worker_ok. rewrite Hd, Hr, Hi. repeat split; auto.
    + rewrite B, Ht.
      assert (X := count_exec_upd w (s_tasks s) i t t' G). rewrite EX in X. lia.
    + destruct (w_pc k) eqn:P; auto.
      * destruct x; auto. destruct F as (t1 & F1 & F2). rewrite Gt.
        destruct (Nat.eqb i0 i) eqn:Ej; eauto. apply Nat.eqb_eq in Ej; subst.
        rewrite G in F1; inversion F1; subst. eauto.
      * destruct F as ((t1 & F1 & F2) & F3). split; auto. rewrite Gt.
        destruct (Nat.eqb i0 i) eqn:Ej; eauto. apply Nat.eqb_eq in Ej; subst. eauto.
  - rewrite Hr. apply (inv_ring_nodup _ I).
  - intros j H. rewrite Hr in H. destruct (inv_ring_in _ I _ H) as (t1 & F1 & F2).
    rewrite Gt. destruct (Nat.eqb j i) eqn:Ej; eauto. apply Nat.eqb_eq in Ej; subst.
    rewrite G in F1; inversion F1; subst. eauto.
  - rewrite Hr. apply (inv_shape _ I).
  - rewrite Hr, Hd. apply (inv_idle _ I).
  - exact HF.
Qed.

Lemma modn_some {A} (l : list A) i t f : nth_error l i = Some t -> modn l i f = upd l i (f t).
Proof. intros H. unfold modn. rewrite H. reflexivity. Qed.
Lemma upd_upd_same {A} (l : list A) i a b : upd (upd l i a) i b = upd l i b.
Proof. revert i; induction l; destruct i; simpl; auto. f_equal; auto. Qed.
Lemma nth_error_upd_same {A} (l : list A) i t a : nth_error l i = Some t -> nth_error (upd l i a) i = Some a.
Proof. intros H. rewrite nth_error_upd, Nat.eqb_refl, H. reflexivity. Qed.

Lemma modn_modn_same {A} (l : list A) i t f g :
  nth_error l i = Some t -> modn (modn l i f) i g = upd l i (g (f t)).
Proof.
  intros H. rewrite (modn_some l i t f H).
  rewrite (modn_some (upd l i (f t)) i (f t) g (nth_error_upd_same l i t (f t) H)).
  apply upd_upd_same.
Qed.

Lemma no_created s i t w k :
  Inv s -> gett s i = Some t -> (forall w', t_phase t <> PNew w') -> getw s w = Some k -> w_pc k <> WCreated i.
Proof.
  intros I G N Gk P. destruct (inv_workers _ I _ _ Gk) as (_ & _ & _ & _ & F). rewrite P in F.
  destruct F as ((t1 & F1 & F2) & _). rewrite G in F1; inversion F1; subst. eapply N; eauto.
Qed.

Ltac tsk I G := let TO := fresh "TO" in let TW := fresh "TW" in destruct (inv_tasks _ I _ _ G) as [TO TW].

Lemma inv_return s i s' : Inv s -> step s (LReturn i) = Some s' -> Inv s'.
Proof.
  intros I H. simpl in H. brk H. inversion H; subst; clear H. tsk I E.
  apply andb_prop in E0 as [E0 E2]. apply andb_prop in E0 as [E0 E1].
  eapply inv_local with (t := t) (t' := set_ret t); eauto; try reflexivity.
  - unfold task_ok in *. simpl. destruct TO as (A & B & C). repeat split; auto.
  - intros w k Gk P. exfalso. revert P. eapply no_created; eauto.
    intros w' P. unfold task_ok in TO. rewrite P in TO. destruct TO as ((_ & _ & _ & S) & _). congruence.
  - simpl. unfold gett in E. erewrite modn_some; eauto.
  - apply (inv_flags _ I).
Qed.

Lemma inv_intr s i s' : Inv s -> step s (LIntr i) = Some s' -> Inv s'.
Proof.
  intros I H. simpl in H. brk H. destruct (s_intr s) eqn:SI; [|injection H as <-; exact I].
  inversion H; subst; clear H. tsk I E.
  apply andb_prop in E0 as [E0 E1].
  assert (forall w k, getw s w = Some k -> w_pc k = WCreated i -> t_phase (set_ret t) = PNew w).
  { intros w k Gk P. destruct (inv_workers _ I _ _ Gk) as (_ & _ & _ & _ & F). rewrite P in F.
    destruct F as ((t1 & F1 & F2) & _). rewrite E in F1; inversion F1; subst. auto. }
  eapply inv_local with (t := t) (t' := set_ret t); eauto; try reflexivity.
  - unfold task_ok in *. simpl. destruct TO as (A & B & C). repeat split; auto. intros X; congruence.
  - simpl. unfold gett in E. erewrite modn_some; eauto.
  - apply (inv_flags _ I).
Qed.

Lemma flags_of s : Inv s -> flags_ok s.
Proof. intros I. apply (inv_flags _ I). Qed.

Lemma inv_copy s i s' : Inv s -> step s (LCopy i) = Some s' -> Inv s'.
Proof.
  intros I H. simpl in H. brk H; tsk I E; unfold tw_ok in TW; rewrite E0 in TW;
    destruct TW as (k & Gk & SL & DJ & IL); rewrite Gk in E2; inversion E2; subst; clear E2;
    rewrite SL in E3; try discriminate E3.
  injection E3 as <-. injection H as <-.
  apply owns_spec in E1 as (k' & Gk' & CU). rewrite Gk in Gk'; inversion Gk'; subst k'; clear Gk'.
  assert (PC : forall w' k', getw s w' = Some k' -> w_pc k' <> WCreated i).
  { intros w' k' G' P. destruct (inv_workers _ I _ _ G') as (_ & _ & _ & _ & F). rewrite P in F.
    destruct F as ((t1 & F1 & F2) & _). rewrite E in F1; inversion F1; subst t1. rewrite E0 in F2; inversion F2; subst w'.
    rewrite Gk in G'; inversion G'; subst k'. destruct DJ as [[D1 D2]|[D1 [D2|D2]]]; congruence. }
  eapply inv_local with (t := t) (t' := set_phase t (PCopied w i)); eauto; try reflexivity.
  - rewrite E0; discriminate.
  - rewrite E0; discriminate.
  - intros w'. simpl. rewrite E0. reflexivity.
  - unfold task_ok in *. rewrite E0 in TO. simpl. tauto.
  - unfold tw_ok. simpl. eauto.
  - intros w' k' G' P. exfalso. eapply PC; eauto.
  - simpl. unfold gett in E. erewrite modn_some; eauto.
  - destruct (flags_of _ I) as (A & B & C & D). unfold flags_ok; simpl. rewrite A, Nat.eqb_refl. auto.
Qed.

Lemma inv_start s i s' : Inv s -> step s (LStart i) = Some s' -> Inv s'.
Proof.
  intros I H. simpl in H. brk H. tsk I E. inversion H; subst; clear H.
  assert (rec = i) by (unfold task_ok in TO; rewrite E0 in TO; tauto). subst rec.
  rewrite E in E2; inversion E2; subst t0; clear E2.
  eapply inv_local with (t := t) (t' := set_phase (inc_runs t) (PBody w i)); eauto; try reflexivity.
  - rewrite E0; discriminate.
  - rewrite E0; discriminate.
  - intros w'. simpl. rewrite E0. reflexivity.
  - unfold task_ok in *. rewrite E0 in TO. simpl. destruct TO as ((_ & A & B & C & D) & F & G). rewrite A. tauto.
  - unfold tw_ok in *. rewrite E0 in TW. simpl. auto.
  - intros w' k' G' P. exfalso. revert P. eapply no_created; eauto. intros w''; rewrite E0; discriminate.
  - simpl. unfold gett in E. erewrite modn_modn_same; eauto.
  - destruct (flags_of _ I) as (A & B & C & D). unfold flags_ok; simpl. repeat split; auto.
    intros X. rewrite (D X). simpl.
    unfold task_ok in TO. rewrite E0 in TO. destruct TO as ((_ & _ & _ & _ & SG) & F & G).
    destruct (t_ret t) eqn:R; [|apply andb_false_r]. exfalso. specialize (F X eq_refl). congruence.
Qed.

Lemma inv_finish s i s' : Inv s -> step s (LFinish i) = Some s' -> Inv s'.
Proof.
  intros I H. simpl in H. brk H. tsk I E. inversion H; subst; clear H.
  assert (rec = i) by (unfold task_ok in TO; rewrite E0 in TO; tauto). subst rec.
  eapply inv_local with (t := t) (t' := set_phase (inc_fin t) (PFin w i)); eauto; try reflexivity.
  - rewrite E0; discriminate.
  - rewrite E0; discriminate.
  - intros w'. simpl. rewrite E0. reflexivity.
  - unfold task_ok in *. rewrite E0 in TO. simpl. destruct TO as ((_ & A & B & C & D) & F & G). rewrite B. tauto.
  - unfold tw_ok in *. rewrite E0 in TW. simpl. auto.
  - intros w' k' G' P. exfalso. revert P. eapply no_created; eauto. intros w''; rewrite E0; discriminate.
  - simpl. unfold gett in E. erewrite modn_modn_same; eauto.
  - apply (flags_of _ I).
Qed.

Lemma inv_signal s i s' : Inv s -> step s (LSignal i) = Some s' -> Inv s'.
Proof.
  intros I H. simpl in H. brk H. tsk I E. inversion H; subst; clear H.
  assert (rec = i) by (unfold task_ok in TO; rewrite E0 in TO; tauto). subst rec.
  rewrite E in E2; inversion E2; subst t0; clear E2.
  eapply inv_local with (t := t) (t' := set_phase (set_sig t) (PPost w i)); eauto; try reflexivity.
  - rewrite E0; discriminate.
  - rewrite E0; discriminate.
  - intros w'. simpl. rewrite E0. reflexivity.
  - unfold task_ok in *. rewrite E0 in TO. simpl. destruct TO as ((_ & A & B & C & D) & F & G). rewrite E3. tauto.
  - unfold tw_ok in *. rewrite E0 in TW. simpl. auto.
  - intros w' k' G' P. exfalso. revert P. eapply no_created; eauto. intros w''; rewrite E0; discriminate.
  - simpl. unfold gett in E. erewrite modn_modn_same; eauto.
  - destruct (flags_of _ I) as (A & B & C & D). unfold flags_ok; simpl. repeat split; auto.
    intros X. rewrite (D X). simpl.
    unfold task_ok in TO. rewrite E0 in TO. destruct TO as ((_ & _ & _ & _ & SG) & F & G).
    destruct (t_ret t) eqn:R; auto. exfalso. specialize (F X eq_refl). congruence.
Qed.

Lemma inv_delete s i s' : Inv s -> step s (LDelete i) = Some s' -> Inv s'.
Proof.
  intros I H. simpl in H. brk H. tsk I E. inversion H; subst; clear H.
  assert (rec = i) by (unfold task_ok in TO; rewrite E0 in TO; tauto). subst rec.
  rewrite E in E2; inversion E2; subst t0; clear E2.
  eapply inv_local with (t := t) (t' := set_phase (inc_del t) (PPost w i)); eauto; try reflexivity.
  - rewrite E0; discriminate.
  - rewrite E0; discriminate.
  - intros w'. simpl. rewrite E0. reflexivity.
  - unfold task_ok in *. rewrite E0 in TO. simpl. destruct TO as ((_ & A & B & C & D) & F & G). rewrite E3, C. simpl. repeat split; auto. intros X. apply G in X. congruence.
  - unfold tw_ok in *. rewrite E0 in TW. simpl. auto.
  - intros w' k' G' P. exfalso. revert P. eapply no_created; eauto. intros w''; rewrite E0; discriminate.
  - simpl. unfold gett in E. erewrite modn_modn_same; eauto.
  - apply (flags_of _ I).
Qed.

Definition pw (p : phase) : option nat :=
  match p with PGot w | PNew w | PCopied w _ | PBody w _ | PFin w _ | PPost w _ => Some w | _ => None end.

Lemma worker_ok_frame s s' w k :
  s_tasks s' = s_tasks s -> s_ring s' = s_ring s -> s_dpc s' = s_dpc s -> s_inline s' = s_inline s ->
  worker_ok s w k -> worker_ok s' w k.
Proof. unfold worker_ok, gett. intros -> -> -> ->. auto. Qed.

(* only worker w changes *)
Lemma inv_wlocal s s' w k k' :
  Inv s -> getw s w = Some k ->
  s_workers s' = upd (s_workers s) w k' ->
  s_tasks s' = s_tasks s -> s_ring s' = s_ring s -> s_dpc s' = s_dpc s ->
  s_inline s' = s_inline s -> s_intr s' = s_intr s -> flags_ok s' ->
  worker_ok s w k' ->
  (forall i t, gett s i = Some t -> pw (t_phase t) = Some w -> tw_ok s' i t) ->
  Inv s'.
Proof.
  intros I G Hw Ht Hr Hd Hi Hn HF WK HT.
  assert (Gw : forall v, getw s' v = if Nat.eqb v w then Some k' else getw s v).
  { intros v. unfold getw. rewrite Hw, nth_error_upd. fold (getw s w). rewrite G. reflexivity. }
  assert (Gt : forall j, gett s' j = gett s j) by (intros; unfold gett; rewrite Ht; auto).
  constructor.
  - intros j t1 H. rewrite Gt in H. destruct (inv_tasks _ I _ _ H) as [TO TW]. rewrite Hn. split; auto.
    destruct (pw (t_phase t1)) as [w1|] eqn:P.
    + destruct (Nat.eq_dec w1 w) as [->|NE]; [eauto|].
      unfold tw_ok in *. rewrite Hi.
      destruct (t_phase t1); simpl in P; try discriminate; inversion P; subst;
        rewrite Gw; (destruct (Nat.eqb w1 w) eqn:X; [apply Nat.eqb_eq in X; congruence|]); auto.
    + unfold tw_ok in *. rewrite Hr. destruct (t_phase t1); simpl in P; try discriminate; auto.
  - intros v kv H. rewrite Gw in H. destruct (Nat.eqb v w) eqn:X.
    + apply Nat.eqb_eq in X; subst v. inversion H; subst kv. eapply worker_ok_frame; eauto.
    + eapply worker_ok_frame; eauto. apply (inv_workers _ I); auto.
  - rewrite Hr. apply (inv_ring_nodup _ I).
  - intros j H. rewrite Hr in H. rewrite Gt. apply (inv_ring_in _ I _ H).
  - rewrite Hr. apply (inv_shape _ I).
  - rewrite Hr, Hd. apply (inv_idle _ I).
  - exact HF.
Qed.

Definition tw_at (inl : bool) (i : nat) (p : phase) (k : worker) : Prop :=
  match p with
  | PGot _ => w_pc k = WGot (ITask i)
  | PNew _ => w_slot k = Some i /\
              ((w_pc k = WCreated i /\ w_cur k = None) \/ (w_cur k = Some i /\ (w_pc k = WLoop \/ w_pc k = WInline i))) /\
              (inl = true -> w_pc k = WInline i)
  | PCopied _ _ | PBody _ _ | PFin _ _ | PPost _ _ => inl = true -> w_pc k = WInline i
  | _ => True
  end.
Lemma tw_ok_at s i t w : pw (t_phase t) = Some w ->
  (tw_ok s i t <-> exists k, getw s w = Some k /\ tw_at (s_inline s) i (t_phase t) k).
Proof. unfold tw_ok, tw_at. destruct (t_phase t); simpl; intros P; try discriminate; inversion P; subst; tauto. Qed.

Lemma inv_wlocal' s s' w k k' :
  Inv s -> getw s w = Some k ->
  s_workers s' = upd (s_workers s) w k' ->
  s_tasks s' = s_tasks s -> s_ring s' = s_ring s -> s_dpc s' = s_dpc s ->
  s_inline s' = s_inline s -> s_intr s' = s_intr s -> flags_ok s' ->
  worker_ok s w k' ->
  (forall i t, gett s i = Some t -> pw (t_phase t) = Some w ->
               tw_at (s_inline s) i (t_phase t) k -> tw_at (s_inline s) i (t_phase t) k') ->
  Inv s'.
Proof.
  intros I G Hw Ht Hr Hd Hi Hn HF WK HT.
  eapply inv_wlocal; eauto.
  intros i t Gt P. destruct (inv_tasks _ I _ _ Gt) as [_ TW].
  apply (tw_ok_at s i t w P) in TW. destruct TW as (k0 & Gk0 & A). rewrite G in Gk0; inversion Gk0; subst k0.
  apply (tw_ok_at s' i t w P). exists k'. split.
  - unfold getw. rewrite Hw. eapply nth_error_upd_same; eauto.
  - rewrite Hi. eauto.
Qed.

Lemma upd_of_modw s w k f : getw s w = Some k -> s_workers (modw s w f) = upd (s_workers s) w (f k).
Proof. intros H. unfold modw; simpl. apply modn_some; auto. Qed.

Lemma inv_register s w s' : Inv s -> step s (LRegister w) = Some s' -> Inv s'.
Proof.
  intros I H. simpl in H. brk H. injection H as <-. apply disp_at_spec in E as [G CU].
  destruct (inv_workers _ I _ _ G) as (A & B & C & D & F).
  eapply inv_wlocal'; eauto using upd_of_modw; try reflexivity; try apply (flags_of _ I).
  - unfold worker_ok; simpl. rewrite E1 in *. simpl in *. repeat split; auto; try congruence.
  - intros i t Gt P. unfold tw_at. rewrite E1. destruct (t_phase t); simpl; auto; try congruence.
    + intros (S1 & [[X Y]|[X [Y|Y]]] & Z); congruence.
    + intros X Y. specialize (X Y); congruence.
    + intros X Y. specialize (X Y); congruence.
    + intros X Y. specialize (X Y); congruence.
    + intros X Y. specialize (X Y); congruence.
Qed.

Lemma inv_yieldto s w s' : Inv s -> step s (LYieldTo w) = Some s' -> Inv s'.
Proof.
  intros I H. simpl in H. brk H. injection H as <-. apply disp_at_spec in E as [G CU].
  destruct (inv_workers _ I _ _ G) as (A & B & C & D & F). rewrite E0 in F. destruct F as ((t0 & F1 & F2) & F3).
  eapply inv_wlocal'; eauto using upd_of_modw; try reflexivity; try apply (flags_of _ I).
  - unfold worker_ok; simpl. rewrite E0 in *. simpl in *. repeat split; auto; try congruence.
  - intros j t Gt P. unfold tw_at. rewrite E0, F3. destruct (t_phase t); simpl; auto; try congruence.
    intros (S1 & [[X Y]|[X [Y|Y]]] & Z); try congruence. injection X as <-. repeat split; auto; try congruence.
Qed.

Lemma inv_stop s w s' : Inv s -> step s (LStop w) = Some s' -> Inv s'.
Proof.
  intros I H. simpl in H. brk H. injection H as <-. apply disp_at_spec in E as [G CU].
  destruct (inv_workers _ I _ _ G) as (A & B & C & D & F). rewrite E0 in F.
  eapply inv_wlocal'; eauto using upd_of_modw; try reflexivity; try apply (flags_of _ I).
  - unfold worker_ok; simpl. rewrite E0 in *. simpl in *. repeat split; auto; try congruence; tauto.
  - intros j t Gt P. unfold tw_at. rewrite E0. simpl. destruct (t_phase t); simpl; auto; try congruence.
    + intros (S1 & [[X Y]|[X [Y|Y]]] & Z); congruence.
    + intros X Y. specialize (X Y); congruence.
    + intros X Y. specialize (X Y); congruence.
    + intros X Y. specialize (X Y); congruence.
    + intros X Y. specialize (X Y); congruence.
Qed.

Lemma inv_drained s w s' : Inv s -> step s (LDrained w) = Some s' -> Inv s'.
Proof.
  intros I H. simpl in H. brk H. injection H as <-. apply disp_at_spec in E as [G CU].
  destruct (inv_workers _ I _ _ G) as (A & B & C & D & F). rewrite E0 in F. apply Nat.eqb_eq in E1.
  eapply inv_wlocal'; eauto using upd_of_modw; try reflexivity; try apply (flags_of _ I).
  - unfold worker_ok; simpl. rewrite E0 in *. simpl in *. repeat split; auto; try congruence; tauto.
  - intros j t Gt P. unfold tw_at. rewrite E0. simpl. destruct (t_phase t); simpl; auto; try congruence.
    + intros (S1 & [[X Y]|[X [Y|Y]]] & Z); congruence.
    + intros X Y. specialize (X Y); congruence.
    + intros X Y. specialize (X Y); congruence.
    + intros X Y. specialize (X Y); congruence.
    + intros X Y. specialize (X Y); congruence.
Qed.

Lemma inv_yield s w tgt s' : Inv s -> step s (LYield w tgt) = Some s' -> Inv s'.
Proof.
  intros I H. simpl in H. brk H. injection H as <-. rename E into G. apply andb_prop in E0 as [AS TG].
  destruct (inv_workers _ I _ _ G) as (A & B & C & D & F).
  eapply inv_wlocal'; eauto using upd_of_modw; try reflexivity; try apply (flags_of _ I).
  - unfold worker_ok in *; simpl. auto.
  - intros j t Gt P. unfold tw_at. simpl. destruct (t_phase t) eqn:PH; simpl; auto.
    intros (S1 & DJ & Z). exfalso. unfold at_switch in AS.
    destruct (w_cur w0) as [i0|] eqn:CU.
    + destruct (gett s i0) as [t0|] eqn:G0; try discriminate. destruct (t_phase t0) eqn:P0; try discriminate.
      destruct DJ as [[X Y]|[X Y]]; try congruence.
    + destruct DJ as [[X Y]|[X Y]]; try congruence. rewrite X in AS. discriminate.
Qed.

(* a step of the destructor: tasks and workers untouched *)
Lemma inv_dlocal s s' :
  Inv s ->
  s_tasks s' = s_tasks s -> s_workers s' = s_workers s -> s_inline s' = s_inline s -> s_intr s' = s_intr s ->
  rtasks (s_ring s') = rtasks (s_ring s) -> shape_ok (s_ring s') = true ->
  s_dpc s' <> DIdle ->
  (s_dpc s' = DDone -> forall w k, getw s w = Some k -> w_reg k = false) ->
  flags_ok s' -> Inv s'.
Proof.
  intros I Ht Hw Hi Hn Hr Hs Hd HD HF.
  constructor.
  - intros j t H. unfold gett in H; rewrite Ht in H. destruct (inv_tasks _ I _ _ H) as [TO TW]. rewrite Hn. split; auto.
    unfold tw_ok, getw in *. rewrite Hr, Hw, Hi. auto.
  - intros w k H. unfold getw in H; rewrite Hw in H. destruct (inv_workers _ I _ _ H) as (A & B & C & D & F).
    unfold worker_ok, gett. rewrite Ht, Hr, Hi. repeat split; auto.
    + intros X. eapply HD; eauto.
    + destruct (w_pc k); auto. destruct x; auto; tauto. tauto. tauto.
  - rewrite Hr. apply (inv_ring_nodup _ I).
  - intros j H. rewrite Hr in H. unfold gett; rewrite Ht. apply (inv_ring_in _ I _ H).
  - exact Hs.
  - intros X; contradiction.
  - exact HF.
Qed.

Lemma inv_dbegin s s' : Inv s -> step s LDBegin = Some s' -> Inv s'.
Proof.
  intros I H. simpl in H. brk H. injection H as <-.
  eapply inv_dlocal; eauto; try reflexivity; simpl; try discriminate.
  - apply (inv_shape _ I).
  - apply (flags_of _ I).
Qed.

Lemma inv_dpush s s' : Inv s -> step s LDPush = Some s' -> Inv s'.
Proof.
  intros I H. simpl in H. brk H. injection H as <-.
  eapply inv_dlocal; eauto; try reflexivity; simpl; try discriminate.
  - rewrite rtasks_app. simpl. apply app_nil_r.
  - apply shape_app_stop. apply (inv_shape _ I).
  - apply (flags_of _ I).
Qed.

Lemma inv_dfinal s s' : Inv s -> step s LDFinal = Some s' -> Inv s'.
Proof.
  intros I H. simpl in H. brk H. injection H as <-.
  eapply inv_dlocal; eauto; try reflexivity; simpl; try discriminate.
  - apply (inv_shape _ I).
  - intros _ w k G. unfold getw in G. apply nth_error_In in G.
    rewrite forallb_forall in E1. apply E1 in G. destruct (w_reg k); auto; discriminate.
  - apply (flags_of _ I).
Qed.

Lemma nil_of_no_in {A} (l : list A) : (forall x, ~ In x l) -> l = [].
Proof. destruct l; auto. intros H. exfalso. apply (H a). simpl; auto. Qed.

Lemma in_rtasks l j : In (ITask j) l <-> In j (rtasks l).
Proof.
  induction l as [|y l IH]; simpl; [tauto|]. destruct y; simpl.
  - split.
    + intros [X|X]; [inversion X; auto | right; apply IH; auto].
    + intros [X|X]; [subst; auto | right; apply IH; auto].
  - split.
    + intros [X|X]; [discriminate | apply IH; auto].
    + intros X; right; apply IH; auto.
Qed.

(* task i and worker w change together (recv of a task, dispatch, helper exit) *)
Lemma inv_tw s s' i t t' w k k' :
  Inv s -> gett s i = Some t -> getw s w = Some k ->
  s_tasks s' = upd (s_tasks s) i t' -> s_workers s' = upd (s_workers s) w k' ->
  s_dpc s' = s_dpc s -> s_inline s' = s_inline s -> s_intr s' = s_intr s -> flags_ok s' ->
  (* the ring *)
  NoDup (rtasks (s_ring s')) -> shape_ok (s_ring s') = true ->
  (forall x, In x (s_ring s') -> In x (s_ring s)) ->
  (forall j, j <> i -> In j (rtasks (s_ring s)) -> In j (rtasks (s_ring s'))) ->
  (In i (rtasks (s_ring s')) -> t_phase t' = PRing) ->
  (* the task *)
  task_ok (s_intr s) i t' ->
  match pw (t_phase t') with Some w' => w' = w /\ tw_at (s_inline s) i (t_phase t') k' | None => t_phase t' = PDone end ->
  (forall v, v <> w -> exw v (t_phase t') = exw v (t_phase t) /\ t_phase t <> PGot v /\ t_phase t <> PNew v) ->
  (* the other tasks of worker w *)
  (forall j tj, j <> i -> gett s j = Some tj -> pw (t_phase tj) = Some w ->
                tw_at (s_inline s) j (t_phase tj) k -> tw_at (s_inline s) j (t_phase tj) k') ->
  (* the worker *)
  worker_ok s' w k' ->
  Inv s'.
Proof.
  intros I G Gk Ht Hw Hd Hi Hn HF ND SH RS RK RI TO TW OV OT WK.
  assert (Gt : forall j, gett s' j = if Nat.eqb j i then Some t' else gett s j).
  { intros j. unfold gett. rewrite Ht, nth_error_upd. fold (gett s i). rewrite G. reflexivity. }
  assert (Gw : forall v, getw s' v = if Nat.eqb v w then Some k' else getw s v).
  { intros v. unfold getw. rewrite Hw, nth_error_upd. fold (getw s w). rewrite Gk. reflexivity. }
  assert (RN : forall j, In j (rtasks (s_ring s')) -> In j (rtasks (s_ring s))).
  { intros j H. apply in_rtasks. apply RS. apply in_rtasks. auto. }
  constructor.
  - intros j tj H. rewrite Gt in H. rewrite Hn. destruct (Nat.eqb j i) eqn:Ej.
    + apply Nat.eqb_eq in Ej; subst j. inversion H; subst tj. split; auto.
      destruct (pw (t_phase t')) as [w'|] eqn:P.
      * destruct TW as [-> TW]. apply (tw_ok_at s' i t' w P). exists k'. rewrite Gw, Nat.eqb_refl, Hi. auto.
      * unfold tw_ok. rewrite TW. auto.
    + apply Nat.eqb_neq in Ej. destruct (inv_tasks _ I _ _ H) as [TOj TWj]. split; auto.
      destruct (pw (t_phase tj)) as [w1|] eqn:P.
      * apply (tw_ok_at s j tj w1 P) in TWj. destruct TWj as (k1 & Gk1 & A1).
        apply (tw_ok_at s' j tj w1 P). rewrite Gw, Hi. destruct (Nat.eqb w1 w) eqn:X.
        -- apply Nat.eqb_eq in X; subst w1. rewrite Gk in Gk1; inversion Gk1; subst k1. eauto.
        -- eauto.
      * unfold tw_ok in *. destruct (t_phase tj); simpl in P; try discriminate; auto.
  - intros v kv H. rewrite Gw in H. destruct (Nat.eqb v w) eqn:X.
    + apply Nat.eqb_eq in X; subst v. inversion H; subst kv. exact WK.
    + apply Nat.eqb_neq in X. destruct (inv_workers _ I _ _ H) as (A & B & C & D & F).
      destruct (OV _ X) as (O1 & O2 & O3).
      unfold worker_ok. rewrite Hd, Hi. repeat split; auto.
      * rewrite B, Ht. assert (Y := count_exec_upd v (s_tasks s) i t t' G). rewrite O1 in Y. lia.
      * destruct (w_pc kv) eqn:P; auto.
        -- destruct x.
           ++ destruct F as (t1 & F1 & F2). rewrite Gt. destruct (Nat.eqb i0 i) eqn:Ej; eauto.
              apply Nat.eqb_eq in Ej; subst. rewrite G in F1; inversion F1; subst. contradiction.
           ++ destruct F as [F1 F2]. split; auto. apply nil_of_no_in. intros j Hj. apply RN in Hj. rewrite F2 in Hj. exact Hj.
        -- destruct F as ((t1 & F1 & F2) & F3). split; auto. rewrite Gt. destruct (Nat.eqb i0 i) eqn:Ej; eauto.
           apply Nat.eqb_eq in Ej; subst. rewrite G in F1; inversion F1; subst. contradiction.
        -- destruct F as [F1 F2]. split; auto. apply nil_of_no_in. intros j Hj. apply RN in Hj. rewrite F2 in Hj. exact Hj.
        -- destruct F as [F1 F2]. split; auto. apply nil_of_no_in. intros j Hj. apply RN in Hj. rewrite F2 in Hj. exact Hj.
  - exact ND.
  - intros j H. rewrite Gt. destruct (Nat.eqb j i) eqn:Ej.
    + apply Nat.eqb_eq in Ej; subst. eauto.
    + apply (inv_ring_in _ I). auto.
  - exact SH.
  - rewrite Hd. intros X Y. apply (inv_idle _ I X). auto.
  - exact HF.
Qed.

Lemma inv_pop_stop s r : Inv s -> s_ring s = IStop :: r -> Inv (set_ring s r).
Proof.
  intros I R.
  assert (RT : rtasks (s_ring s) = rtasks r) by (rewrite R; reflexivity).
  constructor; simpl.
  - intros j t H. destruct (inv_tasks _ I _ _ H) as [TO TW]. split; auto.
    unfold tw_ok in *. simpl. rewrite <- RT. exact TW.
  - intros w k H. destruct (inv_workers _ I _ _ H) as (A & B & C & D & F).
    unfold worker_ok in *; simpl. rewrite <- RT. auto.
  - rewrite <- RT. apply (inv_ring_nodup _ I).
  - intros j H. rewrite <- RT in H. apply (inv_ring_in _ I _ H).
  - assert (X := inv_shape _ I). rewrite R in X. eapply shape_tail; eauto.
  - intros X Y. apply (inv_idle _ I X). rewrite R. simpl; auto.
  - apply (inv_flags _ I).
Qed.

Lemma not_done_of_loop s w k : Inv s -> getw s w = Some k -> w_pc k = WLoop -> s_dpc s <> DDone.
Proof.
  intros I G P X. destruct (inv_workers _ I _ _ G) as (A & _ & _ & D & _).
  rewrite P in A. simpl in A. rewrite (D X) in A. discriminate.
Qed.

Lemma inv_recv s w s' : Inv s -> step s (LRecv w) = Some s' -> Inv s'.
Proof.
  intros I H. simpl in H. brk H. apply disp_at_spec in E as [G CU]. rename E0 into R. rename E1 into P.
  assert (ND := not_done_of_loop _ _ _ I G P).
  assert (FL : g_ringuaf s || match s_dpc s with DDone => true | _ => false end = false).
  { destruct (flags_of _ I) as (_ & _ & X & _). rewrite X. destruct (s_dpc s); auto. congruence. }
  destruct i as [i|].
  - (* a task *)
    injection H as <-.
    assert (IN : In i (rtasks (s_ring s))) by (rewrite R; simpl; auto).
    destruct (inv_ring_in _ I _ IN) as (t & Gt & PH).
    assert (NDP := inv_ring_nodup _ I). rewrite R in NDP. simpl in NDP. inversion NDP as [|? ? NI NDr]; subst.
    destruct (inv_workers _ I _ _ G) as (A & B & C & D & F).
    eapply inv_tw with (t := t) (t' := set_phase t (PGot w)) (k := w0) (k' := set_wpc w0 (WGot (ITask i))); eauto; try reflexivity.
    + simpl. unfold gett in Gt. rewrite (modn_some _ _ _ _ Gt). reflexivity.
    + simpl. unfold getw in G. rewrite (modn_some _ _ _ _ G). reflexivity.
    + destruct (flags_of _ I) as (X1 & X2 & X3 & X4). unfold flags_ok; simpl. rewrite FL. auto.
    + simpl. eapply shape_tail. rewrite <- R. apply (inv_shape _ I).
    + simpl. intros x X. rewrite R. simpl; auto.
    + simpl. intros j NE X. rewrite R in X. simpl in X. destruct X; congruence.
    + simpl. intros X. contradiction.
    + destruct (inv_tasks _ I _ _ Gt) as [TO _]. unfold task_ok in *. rewrite PH in TO. simpl. exact TO.
    + simpl. split; auto.
    + intros v NE. simpl. rewrite PH. simpl. repeat split; auto; discriminate.
    + intros j tj NE Gj PW. unfold tw_at. rewrite P. simpl. destruct (t_phase tj); auto; try congruence.
      * intros (S1 & [[X Y]|[X [Y|Y]]] & Z); congruence.
      * intros X Y. specialize (X Y); congruence.
      * intros X Y. specialize (X Y); congruence.
      * intros X Y. specialize (X Y); congruence.
      * intros X Y. specialize (X Y); congruence.
    + unfold worker_ok; simpl. rewrite P in *. simpl in *. repeat split; auto.
      * rewrite B. unfold gett in Gt. rewrite (modn_some _ _ _ _ Gt).
        assert (Y := count_exec_upd w (s_tasks s) i t (set_phase t (PGot w)) Gt). rewrite PH in Y. simpl in Y. lia.
      * exists (set_phase t (PGot w)). split; auto. rewrite gett_modt, Nat.eqb_refl.
        unfold gett in *. simpl. rewrite Gt. reflexivity.
  - (* a stop marker *)
    injection H as <-.
    assert (I1 := inv_pop_stop _ _ I R).
    assert (DN : s_dpc s <> DIdle) by (intros X; apply (inv_idle _ I X); rewrite R; simpl; auto).
    assert (RT : rtasks l = []) by (apply shape_stop_head; rewrite <- R; apply (inv_shape _ I)).
    destruct (inv_workers _ I _ _ G) as (A & B & C & D & F).
    eapply inv_wlocal' with (s := set_ring s l) (k := w0) (k' := set_wpc w0 (WGot IStop)); eauto; try reflexivity.
    + simpl. unfold getw in G. rewrite (modn_some _ _ _ _ G). reflexivity.
    + destruct (flags_of _ I) as (X1 & X2 & X3 & X4). unfold flags_ok; simpl. rewrite FL. auto.
    + unfold worker_ok; simpl. rewrite P in *. simpl in *. repeat split; auto.
    + intros j tj Gj PW. unfold tw_at. rewrite P. simpl. destruct (t_phase tj); auto; try congruence.
      * intros (S1 & [[X Y]|[X [Y|Y]]] & Z); congruence.
      * intros X Y. specialize (X Y); congruence.
      * intros X Y. specialize (X Y); congruence.
      * intros X Y. specialize (X Y); congruence.
      * intros X Y. specialize (X Y); congruence.
Qed.

Lemma inv_dispatch s w s' : Inv s -> step s (LDispatch w) = Some s' -> Inv s'.
Proof.
  intros I H. simpl in H. brk H. apply disp_at_spec in E as [G CU]. rename E0 into P. rename E2 into Gt. clear E1.
  destruct (inv_workers _ I _ _ G) as (A & B & C & D & F). rewrite P in F. destruct F as (t0 & F1 & PH).
  rewrite Gt in F1; injection F1 as <-. injection H as <-.
  set (k' := if s_inline s then mkWorker (WInline i) (Some i) (S (w_running w0)) (w_reg w0) (Some i)
             else mkWorker (WCreated i) (Some i) (S (w_running w0)) (w_reg w0) None).
  eapply inv_tw with (t := t) (t' := set_phase t (PNew w)) (k := w0) (k' := k'); eauto; try reflexivity.
  - simpl. unfold gett in Gt. rewrite (modn_some _ _ _ _ Gt). reflexivity.
  - simpl. unfold getw in G. rewrite (modn_some _ _ _ _ G). reflexivity.
  - apply (flags_of _ I).
  - apply (inv_ring_nodup _ I).
  - apply (inv_shape _ I).
  - simpl. intros X. destruct (inv_ring_in _ I _ X) as (t1 & X1 & X2). rewrite Gt in X1; injection X1 as <-. congruence.
  - destruct (inv_tasks _ I _ _ Gt) as [TO _]. unfold task_ok in *. rewrite PH in TO. simpl. exact TO.
  - simpl. split; auto. unfold k'. destruct (s_inline s) eqn:IL; simpl; repeat split; auto; try discriminate.
  - intros v NE. simpl. rewrite PH. simpl. apply Nat.eqb_neq in NE. rewrite Nat.eqb_sym in NE. rewrite NE.
    repeat split; auto; try discriminate. intros X; injection X as ->. rewrite Nat.eqb_refl in NE; discriminate.
  - intros j tj NE Gj PW. unfold tw_at. rewrite P. simpl. destruct (t_phase tj); auto; try congruence.
    + intros (S1 & [[X Y]|[X [Y|Y]]] & Z); congruence.
    + intros X Y. specialize (X Y); congruence.
    + intros X Y. specialize (X Y); congruence.
    + intros X Y. specialize (X Y); congruence.
    + intros X Y. specialize (X Y); congruence.
  - assert (CNT : count_exec w (upd (s_tasks s) i (set_phase t (PNew w))) = S (count_exec w (s_tasks s))).
    { assert (Y := count_exec_upd w (s_tasks s) i t (set_phase t (PNew w)) Gt). rewrite PH in Y. simpl in Y.
      rewrite Nat.eqb_refl in Y. simpl in Y. lia. }
    assert (GT' : gett (modt s i (fun t => set_phase t (PNew w))) i = Some (set_phase t (PNew w))).
    { rewrite gett_modt, Nat.eqb_refl. rewrite Gt. reflexivity. }
    unfold worker_ok, k'. rewrite P in *. simpl in *.
    unfold gett in Gt. rewrite (modn_some _ _ _ _ Gt), CNT.
    destruct (s_inline s) eqn:IL; simpl; repeat split; auto; try discriminate.
    exists (set_phase t (PNew w)). split; auto.
Qed.

Lemma inv_dec s i tgt s' : Inv s -> step s (LDec i tgt) = Some s' -> Inv s'.
Proof.
  intros I H. simpl in H. brk H. rename E into Gt. rename E0 into PH. rename E2 into G. rename E3 into TG.
  apply owns_spec in E1 as (k0 & G0 & CU). rewrite G in G0; injection G0 as <-. injection H as <-.
  destruct (inv_tasks _ I _ _ Gt) as [TO TW]. apply (tw_ok_at s i t w) in TW; [|rewrite PH; reflexivity].
  destruct TW as (k0 & G0 & TA). rewrite G in G0; injection G0 as <-. unfold tw_at in TA. rewrite PH in TA.
  destruct (inv_workers _ I _ _ G) as (A & B & C & D & F).
  assert (POS : 1 <= w_running w0).
  { rewrite B. eapply count_exec_pos; eauto. rewrite PH. simpl. apply Nat.eqb_refl. }
  assert (NOUT : is_out (w_pc w0) = false).
  { destruct (is_out (w_pc w0)) eqn:X; auto. rewrite C in POS; auto. lia. }
  assert (BAD : is_out (w_pc w0) || Nat.eqb (w_running w0) 0 = false).
  { rewrite NOUT. simpl. apply Nat.eqb_neq. lia. }
  set (k' := mkWorker (if s_inline s then WLoop else w_pc w0) (w_slot w0) (Nat.pred (w_running w0)) (w_reg w0) tgt).
  eapply inv_tw with (t := t) (t' := set_phase t PDone) (k := w0) (k' := k'); eauto; try reflexivity.
  - simpl. unfold gett in Gt. rewrite (modn_some _ _ _ _ Gt). reflexivity.
  - simpl. unfold getw in G. rewrite (modn_some _ _ _ _ G). reflexivity.
  - destruct (flags_of _ I) as (X1 & X2 & X3 & X4). unfold flags_ok; simpl. rewrite X2, BAD. auto.
  - apply (inv_ring_nodup _ I).
  - apply (inv_shape _ I).
  - simpl. intros X. destruct (inv_ring_in _ I _ X) as (t1 & X1 & X2). rewrite Gt in X1; injection X1 as <-. congruence.
  - unfold task_ok in *. rewrite PH in TO. simpl. tauto.
  - intros v NE. simpl. rewrite PH. simpl. apply Nat.eqb_neq in NE. rewrite Nat.eqb_sym in NE. rewrite NE.
    repeat split; auto; discriminate.
  - intros j tj NE Gj PW. unfold tw_at, k'. simpl. destruct (t_phase tj) eqn:PJ; auto.
    + destruct (s_inline s) eqn:IL; auto. intros X. rewrite TA in X; auto. discriminate.
    + intros (S1 & [[X Y]|[X Y]] & Z); try congruence.
    + destruct (s_inline s) eqn:IL; auto. intros X Y. specialize (X Y). rewrite TA in X; auto. congruence.
    + destruct (s_inline s) eqn:IL; auto. intros X Y. specialize (X Y). rewrite TA in X; auto. congruence.
    + destruct (s_inline s) eqn:IL; auto. intros X Y. specialize (X Y). rewrite TA in X; auto. congruence.
    + destruct (s_inline s) eqn:IL; auto. intros X Y. specialize (X Y). rewrite TA in X; auto. congruence.
  - assert (CNT : S (count_exec w (upd (s_tasks s) i (set_phase t PDone))) = count_exec w (s_tasks s)).
    { assert (Y := count_exec_upd w (s_tasks s) i t (set_phase t PDone) Gt). rewrite PH in Y. simpl in Y.
      rewrite Nat.eqb_refl in Y. simpl in Y. lia. }
    assert (Gt' := Gt).
    unfold worker_ok, k'. simpl. unfold gett in Gt. rewrite (modn_some _ _ _ _ Gt).
    assert (GO : forall j, j <> i -> gett (modt s i (fun t => set_phase t PDone)) j = gett s j).
    { intros j NE. rewrite gett_modt. apply Nat.eqb_neq in NE. rewrite NE. reflexivity. }
    destruct (s_inline s) eqn:IL; simpl.
    + repeat split; auto; try lia. rewrite A, NOUT. reflexivity.
    + repeat split; auto; try lia.
      * rewrite NOUT. discriminate.
      * destruct (w_pc w0) eqn:P; auto.
        -- destruct x; auto. destruct F as (t1 & F1 & F2). exists t1. split; auto.
           unfold gett in *; simpl. rewrite ?(modn_some _ _ _ _ Gt), nth_error_upd.
           destruct (Nat.eqb i0 i) eqn:Ej; auto. apply Nat.eqb_eq in Ej; subst. rewrite Gt in F1; injection F1 as <-. congruence.
        -- destruct F as ((t1 & F1 & F2) & F3). split; auto. exists t1. split; auto.
           unfold gett in *; simpl. rewrite ?(modn_some _ _ _ _ Gt), nth_error_upd.
           destruct (Nat.eqb i0 i) eqn:Ej; auto. apply Nat.eqb_eq in Ej; subst. rewrite Gt in F1; injection F1 as <-. congruence.
Qed.

Lemma inv_submit s c s' : Inv s -> step s (LSubmit c) = Some s' -> Inv s'.
Proof.
  intros I H. simpl in H. brk H. injection H as <-. rename E into DI.
  set (n := length (s_tasks s)). set (nt := mkTask c PRing 0 0 0 false false).
  assert (Gt : forall j, gett (set_ring (set_tasks s (s_tasks s ++ [nt])) (s_ring s ++ [ITask n])) j =
                         if Nat.eqb j n then Some nt else gett s j).
  { intros j. unfold gett; simpl. destruct (Nat.eqb j n) eqn:Ej.
    - apply Nat.eqb_eq in Ej; subst j. rewrite nth_error_app2; [|unfold n; lia]. unfold n. rewrite Nat.sub_diag. reflexivity.
    - apply Nat.eqb_neq in Ej. destruct (Nat.lt_ge_cases j n) as [L|L].
      + rewrite nth_error_app1; auto.
      + assert (nth_error (s_tasks s) j = None) as -> by (apply nth_error_None; fold n; lia).
        apply nth_error_None. rewrite app_length; simpl. fold n. lia. }
  assert (LT : forall j t, gett s j = Some t -> j <> n).
  { intros j t X. assert (j < n). { unfold n. apply nth_error_Some. unfold gett in X. congruence. } lia. }
  assert (NI : ~ In n (rtasks (s_ring s))).
  { intros X. destruct (inv_ring_in _ I _ X) as (t & X1 & _). eapply LT; eauto. }
  constructor.
  - intros j t X. rewrite Gt in X. destruct (Nat.eqb j n) eqn:Ej.
    + apply Nat.eqb_eq in Ej; subst j. injection X as <-. split.
      * unfold task_ok; simpl. repeat split; auto; discriminate.
      * unfold tw_ok; simpl. rewrite rtasks_app. apply in_or_app. right. simpl; auto.
    + destruct (inv_tasks _ I _ _ X) as [TO TW]. split; auto.
      unfold tw_ok in *. simpl. destruct (t_phase t); auto. rewrite rtasks_app. apply in_or_app; auto.
  - intros w k X. change (getw s w = Some k) in X. destruct (inv_workers _ I _ _ X) as (A & B & C & D & F).
    unfold worker_ok. simpl. repeat split; auto.
    + rewrite count_exec_app. unfold count_exec at 2. simpl. rewrite B. lia.
    + destruct (w_pc k); auto.
      * destruct x.
        -- destruct F as (t1 & F1 & F2). exists t1. split; auto. rewrite Gt.
           destruct (Nat.eqb i n) eqn:Ej; auto. apply Nat.eqb_eq in Ej. exfalso. eapply LT; eauto.
        -- destruct F. contradiction.
      * destruct F as ((t1 & F1 & F2) & F3). split; auto. exists t1. split; auto. rewrite Gt.
        destruct (Nat.eqb i n) eqn:Ej; auto. apply Nat.eqb_eq in Ej. exfalso. eapply LT; eauto.
      * destruct F. contradiction.
      * destruct F. contradiction.
  - simpl. rewrite rtasks_app. simpl.
    assert (forall (l : list nat) x, NoDup l -> ~ In x l -> NoDup (l ++ [x])) as AUX.
    { induction l as [|a l IH]; simpl; intros x N1 N2. constructor; auto; constructor.
      inversion N1; subst. constructor. intros Y. apply in_app_or in Y. destruct Y as [Y|[Y|[]]]; auto. apply IH; auto. }
    apply AUX; auto. apply (inv_ring_nodup _ I).
  - intros j X. simpl in X. rewrite rtasks_app in X. apply in_app_or in X. rewrite Gt. destruct X as [X|[X|[]]].
    + destruct (Nat.eqb j n) eqn:Ej. apply Nat.eqb_eq in Ej; subst; contradiction. apply (inv_ring_in _ I _ X).
    + subst j. rewrite Nat.eqb_refl. eauto.
  - simpl. apply shape_app_task. apply (inv_shape _ I). apply (inv_idle _ I DI).
  - simpl. intros _ X. apply in_app_or in X. destruct X as [X|[X|[]]]; try discriminate. apply (inv_idle _ I DI X).
  - apply (flags_of _ I).
Qed.

Theorem step_inv s l s' : Inv s -> step s l = Some s' -> Inv s'.
Proof.
  intros I H. destruct l.
  - eapply inv_submit; eauto.
  - eapply inv_return; eauto.
  - eapply inv_intr; eauto.
  - eapply inv_register; eauto.
  - eapply inv_recv; eauto.
  - eapply inv_dispatch; eauto.
  - eapply inv_yieldto; eauto.
  - eapply inv_stop; eauto.
  - eapply inv_drained; eauto.
  - eapply inv_yield; eauto.
  - eapply inv_copy; eauto.
  - eapply inv_start; eauto.
  - eapply inv_finish; eauto.
  - eapply inv_signal; eauto.
  - eapply inv_delete; eauto.
  - eapply inv_dec; eauto.
  - eapply inv_dbegin; eauto.
  - eapply inv_dpush; eauto.
  - eapply inv_dfinal; eauto.
Qed.

Definition reachable (s0 s : state) : Prop := exists ls, run s0 ls = Some s.

Lemma run_inv ls : forall s s', Inv s -> run s ls = Some s' -> Inv s'.
Proof.
  induction ls as [|l ls IH]; simpl; intros s s' I H.
  - injection H as <-. auto.
  - destruct (step s l) as [s0|] eqn:E; try discriminate. apply (IH s0 s'); auto. eapply step_inv; eauto.
Qed.

Theorem reachable_inv inline cap no nj intr s : reachable (init inline cap no nj intr) s -> Inv s.
Proof. intros [ls H]. eapply run_inv; eauto. apply init_inv. Qed.

(* ================= the property theorems ================= *)
Section PROPS.
  Variables (inline : bool) (cap no nj : nat).

  Lemma exw_of_pw w p : pw p = Some w -> (forall w', p <> PGot w') -> exw w p = true.
  Proof. destruct p; simpl; intros H N; try discriminate; injection H as ->; try apply Nat.eqb_refl. exfalso; eapply N; eauto. Qed.

  Theorem task_exactly_once_pf intr s : reachable (init inline cap no nj intr) s ->
    forall i t, gett s i = Some t ->
      t_runs t <= 1 /\ t_fin t <= t_runs t /\
      (t_runs t = 0 ->
         In (ITask i) (s_ring s) \/
         (exists w k, getw s w = Some k /\ w_pc k = WGot (ITask i)) \/
         (exists w k, getw s w = Some k /\ exw w (t_phase t) = true /\ 1 <= w_running k)).
  Proof.
    intros R i t G. apply reachable_inv in R. destruct (inv_tasks _ R _ _ G) as [TO TW].
    unfold task_ok in TO. unfold tw_ok in TW.
    assert (EX : forall w, exw w (t_phase t) = true -> (exists k, getw s w = Some k) ->
                 exists w k, getw s w = Some k /\ exw w (t_phase t) = true /\ 1 <= w_running k).
    { intros w Ew (k & Gk). exists w, k. repeat split; auto.
      destruct (inv_workers _ R _ _ Gk) as (_ & B & _). rewrite B. eapply count_exec_pos; eauto. }
    destruct (t_phase t) eqn:PH; destruct TO as (TO & _); repeat split; try lia; intros Z; try lia.
    - left. apply in_rtasks; auto.
    - right; left. destruct TW as (k & Gk & P). eauto.
    - right; right. destruct TW as (k & Gk & _). apply (EX w); eauto. simpl. apply Nat.eqb_refl.
    - right; right. destruct TW as (k & Gk & _). apply (EX w); eauto. simpl. apply Nat.eqb_refl.
  Qed.

  Theorem record_read_is_own_pf intr s : reachable (init inline cap no nj intr) s ->
    g_badcopy s = false /\
    (forall i t w, gett s i = Some t -> t_phase t = PNew w -> exists k, getw s w = Some k /\ w_slot k = Some i) /\
    (forall i t w r, gett s i = Some t ->
       (t_phase t = PCopied w r \/ t_phase t = PBody w r \/ t_phase t = PFin w r \/ t_phase t = PPost w r) -> r = i).
  Proof.
    intros R. apply reachable_inv in R. split; [apply (inv_flags _ R)|]. split.
    - intros i t w G P. destruct (inv_tasks _ R _ _ G) as [_ TW]. unfold tw_ok in TW. rewrite P in TW.
      destruct TW as (k & Gk & S1 & _). eauto.
    - intros i t w r G P. destruct (inv_tasks _ R _ _ G) as [TO _]. unfold task_ok in TO.
      destruct P as [P|[P|[P|P]]]; rewrite P in TO; tauto.
  Qed.

  Theorem call_returns_after_finish_pf s : reachable (init inline cap no nj false) s ->
    g_uaf s = false /\
    forall i t, gett s i = Some t -> t_ret t = true -> t_call t = true /\ t_runs t = 1 /\ t_fin t = 1 /\ t_sig t = true.
  Proof.
    intros R. assert (IN : s_intr s = false).
    { destruct R as [ls R]. revert R. generalize (init inline cap no nj false) (eq_refl : s_intr (init inline cap no nj false) = false).
      induction ls as [|l ls IH]; simpl; intros s0 H0 H.
      - injection H as <-; auto.
      - destruct (step s0 l) as [s1|] eqn:E; try discriminate. apply (IH s1); auto.
        rewrite <- H0. clear - E. destruct l; simpl in E; brk E; injection E as <-; try reflexivity.
        all: try (destruct i; reflexivity). all: try (destruct (s_inline s0); reflexivity).
        all: try (destruct (s_intr s0) eqn:X; simpl; congruence). }
    apply reachable_inv in R. split; [apply (inv_flags _ R); auto|].
    intros i t G RT. destruct (inv_tasks _ R _ _ G) as [TO _]. unfold task_ok in TO. rewrite IN in TO.
    destruct TO as (TO & F & C). specialize (F eq_refl RT). specialize (C RT).
    destruct (t_phase t); try (destruct TO as (_ & _ & _ & S0); congruence);
      try (destruct TO as (_ & _ & _ & _ & S0); congruence); tauto.
  Qed.

  Theorem async_deleted_once_pf intr s : reachable (init inline cap no nj intr) s ->
    forall i t, gett s i = Some t ->
      t_del t <= 1 /\ (t_del t = 1 -> t_call t = false /\ t_fin t = 1) /\ (t_call t = true -> t_del t = 0).
  Proof.
    intros R i t G. apply reachable_inv in R. destruct (inv_tasks _ R _ _ G) as [TO _]. unfold task_ok in TO.
    destruct TO as (TO & _). destruct (t_phase t), (t_call t); repeat split; intros; try lia; try tauto; try discriminate.
  Qed.

  Theorem destroy_waits_pf intr s s' : reachable (init inline cap no nj intr) s ->
    step s LDFinal = Some s' ->
    (exists w k, getw s w = Some k /\ w_pc k <> WReg) ->
    rtasks (s_ring s) = [] /\
    forall i t, gett s i = Some t ->
      t_phase t = PDone /\ t_runs t = 1 /\ t_fin t = 1 /\ t_del t = (if t_call t then 0 else 1) /\ t_sig t = t_call t.
  Proof.
    intros R H (w0 & k0 & G0 & P0). apply reachable_inv in R. simpl in H. brk H. clear H.
    assert (REG : forall w k, getw s w = Some k -> w_reg k = false).
    { intros w k G. unfold getw in G. apply nth_error_In in G. rewrite forallb_forall in E1. apply E1 in G.
      destruct (w_reg k); auto; discriminate. }
    assert (OUT : forall w k, getw s w = Some k -> is_out (w_pc k) = true /\ w_running k = 0).
    { intros w k G. destruct (inv_workers _ R _ _ G) as (A & _ & C & _). rewrite (REG _ _ G) in A.
      destruct (is_out (w_pc k)); try discriminate. auto. }
    assert (RT : rtasks (s_ring s) = []).
    { destruct (inv_workers _ R _ _ G0) as (_ & _ & _ & _ & F). destruct (OUT _ _ G0) as [O _].
      destruct (w_pc k0); try discriminate; try congruence. tauto. }
    split; auto. intros i t G. destruct (inv_tasks _ R _ _ G) as [TO TW].
    assert (NX : forall w, exw w (t_phase t) = true -> (exists k, getw s w = Some k) -> False).
    { intros w Ew (k & Gk). destruct (OUT _ _ Gk) as [_ Z]. destruct (inv_workers _ R _ _ Gk) as (_ & B & _).
      assert (1 <= count_exec w (s_tasks s)) by (eapply count_exec_pos; eauto). lia. }
    unfold tw_ok in TW. unfold task_ok in TO. destruct (t_phase t) eqn:PH.
    - rewrite RT in TW. contradiction.
    - destruct TW as (k & Gk & P). destruct (OUT _ _ Gk) as [O _]. rewrite P in O. discriminate.
    - exfalso. destruct TW as (k & Gk & _). apply (NX w); eauto. simpl. apply Nat.eqb_refl.
    - exfalso. destruct TW as (k & Gk & _). apply (NX w); eauto. simpl. apply Nat.eqb_refl.
    - exfalso. destruct TW as (k & Gk & _). apply (NX w); eauto. simpl. apply Nat.eqb_refl.
    - exfalso. destruct TW as (k & Gk & _). apply (NX w); eauto. simpl. apply Nat.eqb_refl.
    - exfalso. destruct TW as (k & Gk & _). apply (NX w); eauto. simpl. apply Nat.eqb_refl.
    - tauto.
  Qed.

  Theorem no_stale_access_pf intr s : reachable (init inline cap no nj intr) s ->
    g_badcount s = false /\ g_ringuaf s = false.
  Proof. intros R. apply reachable_inv in R. destruct (inv_flags _ R) as (_ & A & B & _). auto. Qed.
End PROPS.

(* ---- refutations (findings / degenerate configuration) ---- *)
Definition witness_intr : list label := [LSubmit true; LIntr 0].
Definition witness_uaf : list label :=
  [LSubmit true; LIntr 0; LRecv 0; LDispatch 0; LYieldTo 0; LCopy 0; LStart 0].
Theorem call_returns_after_finish_prefix_refuted_pf :
  (exists s t, run (init false 4 1 0 true) witness_intr = Some s /\ gett s 0 = Some t /\ t_ret t = true /\ t_fin t = 0) /\
  (exists s, run (init false 4 1 0 true) witness_uaf = Some s /\ g_uaf s = true).
Proof. split; [eexists; eexists|eexists]; vm_compute; repeat split; reflexivity. Qed.

Theorem call_interrupt_enabled_pf :
  exists s s', run (init false 4 1 0 false) [LSubmit true] = Some s /\ step s (LIntr 0) = Some s'.
Proof. eexists; eexists; vm_compute; split; reflexivity. Qed.

Definition witness_noworker : list label := [LSubmit false; LDBegin; LDFinal].
Theorem destroy_waits_noworker_refuted_pf :
  exists s t, run (init false 4 0 0 false) witness_noworker = Some s /\ s_dpc s = DDone /\
              gett s 0 = Some t /\ t_fin t = 0.
Proof. eexists; eexists; vm_compute; repeat split; reflexivity. Qed.

(* a non-trivial reachable state meeting the hypotheses of destroy_waits: one worker, two tasks, mode 0 *)
Definition sample_run : list label :=
  [LSubmit true; LSubmit false; LRecv 0; LDispatch 0; LYieldTo 0; LCopy 0; LStart 0; LYield 0 None;
   LDBegin; LRecv 0; LDispatch 0; LYieldTo 0; LCopy 1; LStart 1; LFinish 1; LDelete 1; LDec 1 (Some 0);
   LFinish 0; LSignal 0; LDec 0 None; LReturn 0; LDPush; LRecv 0; LStop 0; LDrained 0].
Example sample_reachable :
  exists s s', run (init false 2 1 0 false) sample_run = Some s /\ step s LDFinal = Some s' /\
               (exists w k, getw s w = Some k /\ w_pc k <> WReg) /\ length (s_tasks s) = 2.
Proof. eexists; eexists; vm_compute; repeat split; try reflexivity. exists 0, (mkWorker WExit (Some 1) 0 false None). split; [reflexivity|discriminate]. Qed.
