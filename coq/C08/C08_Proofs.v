(* placeholder: replaced by the real proofs *)
From PV Require Import C08.C08_Model.
