(* C08_Model.v — ALL-INTERLEAVINGS composition model of photon::WorkPool.  EXECUTABLE DEFINITIONS ONLY.

   Anchors (pinned tree):
     thread/workerpool.cpp  62-72   ~impl: one empty delegate per registered vCPU, join the owned OS threads,
                                    wait until `vcpus` is empty, destroy the ring
                            74-83   enqueue = ring->send<PhotonPause|ThreadPause>
                            84-96   do_call: Awaiter + lambda IN THE CALLER'S FRAME, enqueue, `while (aop.suspend() != 0) {}`
                            105-115 add_vcpu / remove_vcpu
                            122-148 main_loop (three thread modes)
                            150-156 delegate_helper: copy *arg, run, *count -= 1
                            171-175 join_current_vcpu_into_workpool
     thread/workerpool.h    97-100, 122-127  async_call / __async_call_helper: run the callable, then delete it
     thread/awaiter.h       40-48   Awaiter<PhotonContext> = a semaphore in the caller's frame
                                    (thread.h 520-526: semaphore::wait retries on every interrupt EXCEPT
                                    ESHUTDOWN / ETIMEDOUT)
     common/lockfree_queue.h 832-947 FlexRingChannel, by its SPECIFICATION (C07): a bounded FIFO; `send`
                                    backs off while the ring is full, `recv` blocks while it is empty

   Participants and granularity.  Submitters (photon threads of any vCPU and plain OS threads), the
   destroyer, and per pool vCPU `w` its dispatcher (main_loop) and the task threads it starts.  Threads
   of DIFFERENT OS threads interleave arbitrarily: one transition = one access to shared state (ring
   push / pop by the C07 spec; the awaiter by the C02 spec; `vcpus` under worker_lock).  Threads of the
   SAME vCPU are cooperative: `w_cur` says who owns vCPU `w` (None = its dispatcher / the rest of the
   vCPU, Some i = the task thread created for task i) and a thread's steps are enabled only while it
   owns its vCPU.  The CPU changes hands only at the code's switching points: `thread_yield_to(th)`
   (LYieldTo: to exactly `th`), a blocking point of `recv` or of the drain loop (dispatcher), a
   sleep/yield inside a task BODY, and thread exit.  At a switching point other than yield_to the next
   owner is ANY resumable thread of the vCPU (`LYield w tgt`): an over-approximation of the run-queue
   order, so every invariant proved here holds for the real scheduler (and for sleeps, which are a
   yield followed by a later resumption).  `running_tasks`, the dispatcher's `tasklb` slot and the
   task thread's copy live on stacks of threads of ONE vCPU, so the block between two switching points
   that touches them is one transition (no other OS thread ever reads them).

   The three thread modes: mode < 0 (`s_inline = true`): delegate_helper is CALLED by the dispatcher,
   modelled as "pseudo thread i gets the CPU at once and gives it back to the dispatcher at exit"
   (the dispatcher is parked in `WInline i` meanwhile); mode = 0 (fresh photon thread) and mode > 0
   (pooled photon thread, thread-pool.cpp 33-63, 92-110: notify + yield_to) are the same here: the thread
   becomes READY, the dispatcher yield_to's it, its first action is the copy.  (The pooled thread's
   own machinery is covered by the cooperative model C08_Coop.v.)

   Ghost state: per task the counters runs / fin / del, flags sig (awaiter signalled) / ret (call()
   returned = the caller's frame with awaiter and lambda is gone); global flags
     g_badcopy  a delegate_helper copied a record that is not the one it was started for
     g_uaf      the caller's frame (lambda, awaiter) was touched after call() returned
     g_badcount `*tasklb.count -= 1` hit a worker that already left main_loop (or count = 0)
     g_ringuaf  the ring was popped after ~impl destroyed it.
   User contract modelled as guards: no submission and no join_current_vcpu_into_workpool once the
   destructor has started (LSubmit / LRegister need DIdle).  The environment may at any time interrupt a
   caller blocked in call() with ESHUTDOWN / ETIMEDOUT (LIntr).  `s_intr = false` is the code of the
   working tree (fix f4b1a02: do_call waits again); `s_intr = true` is the code BEFORE that fix (do_call
   ignored the result of aop.suspend()) — kept for call_returns_after_finish_prefix_refuted (finding F37). *)
From Coq Require Import List Bool Arith.
Import ListNotations.

Inductive item : Type := ITask (i : nat) | IStop.

Inductive phase : Type :=
| PRing                    (* accepted: in the ring *)
| PGot (w : nat)           (* popped by dispatcher w (its local `task`) *)
| PNew (w : nat)           (* running_tasks++, tasklb written, thread created / helper called: not yet copied *)
| PCopied (w rec : nat)    (* `TaskLB tasklb = *(TaskLB* )arg` done: holds record rec *)
| PBody (w rec : nat)      (* tasklb.task() entered *)
| PFin (w rec : nat)       (* the user's callable returned; aop.resume() / delete t pending *)
| PPost (w rec : nat)      (* signalled / deleted; `*count -= 1` pending *)
| PDone.

Record task : Type := mkTask {
  t_call : bool;           (* call() (true) / async_call() (false) *)
  t_phase : phase;         (* where the task is, and the pc of the thread started for it *)
  t_runs : nat; t_fin : nat; t_del : nat;
  t_sig : bool; t_ret : bool
}.

Inductive wpc : Type :=
| WReg                     (* before add_vcpu (a vCPU that may still join) *)
| WLoop                    (* at ring->recv *)
| WGot (x : item)          (* recv returned x *)
| WCreated (i : nat)       (* thread for task i created, before thread_yield_to *)
| WInline (i : nat)        (* mode < 0: inside delegate_helper(&tasklb) *)
| WDrain                   (* while (running_tasks) thread_yield() *)
| WExit.                   (* remove_vcpu done, main_loop returned *)

Record worker : Type := mkWorker {
  w_pc : wpc;
  w_slot : option nat;     (* tasklb.task on the dispatcher's stack *)
  w_running : nat;         (* running_tasks *)
  w_reg : bool;            (* in `vcpus` *)
  w_cur : option nat       (* owner of the vCPU *)
}.

Inductive dpc : Type := DIdle | DPush (n : nat) | DDone.

Record state : Type := mkState {
  s_inline : bool; s_cap : nat; s_intr : bool;
  s_ring : list item;
  s_tasks : list task;
  s_workers : list worker;
  s_dpc : dpc; s_dn : nat;
  g_badcopy : bool; g_uaf : bool; g_badcount : bool; g_ringuaf : bool
}.

Inductive label : Type :=
| LSubmit (c : bool)                 (* enqueue accepted (push succeeded) *)
| LReturn (i : nat)                  (* aop.suspend() satisfied: call() returns *)
| LIntr (i : nat)                    (* aop.suspend() returns -1/ESHUTDOWN|ETIMEDOUT *)
| LRegister (w : nat)                (* add_vcpu of a joining vCPU *)
| LRecv (w : nat)
| LDispatch (w : nat)
| LYieldTo (w : nat)
| LStop (w : nat)
| LDrained (w : nat)
| LYield (w : nat) (tgt : option nat)
| LCopy (i : nat) | LStart (i : nat) | LFinish (i : nat) | LSignal (i : nat) | LDelete (i : nat)
| LDec (i : nat) (tgt : option nat)
| LDBegin | LDPush | LDFinal.

(* ---- list helpers ------------------------------------------------------------------------- *)
Fixpoint upd {A : Type} (l : list A) (i : nat) (v : A) : list A :=
  match l, i with
  | [], _ => []
  | _ :: r, O => v :: r
  | x :: r, S j => x :: upd r j v
  end.
Definition modn {A : Type} (l : list A) (i : nat) (f : A -> A) : list A :=
  match nth_error l i with Some x => upd l i (f x) | None => l end.

Definition set_phase (t : task) (p : phase) : task :=
  mkTask (t_call t) p (t_runs t) (t_fin t) (t_del t) (t_sig t) (t_ret t).
Definition inc_runs (t : task) : task :=
  mkTask (t_call t) (t_phase t) (S (t_runs t)) (t_fin t) (t_del t) (t_sig t) (t_ret t).
Definition inc_fin (t : task) : task :=
  mkTask (t_call t) (t_phase t) (t_runs t) (S (t_fin t)) (t_del t) (t_sig t) (t_ret t).
Definition inc_del (t : task) : task :=
  mkTask (t_call t) (t_phase t) (t_runs t) (t_fin t) (S (t_del t)) (t_sig t) (t_ret t).
Definition set_sig (t : task) : task :=
  mkTask (t_call t) (t_phase t) (t_runs t) (t_fin t) (t_del t) true (t_ret t).
Definition set_ret (t : task) : task :=
  mkTask (t_call t) (t_phase t) (t_runs t) (t_fin t) (t_del t) (t_sig t) true.

Definition set_wpc (k : worker) (p : wpc) : worker := mkWorker p (w_slot k) (w_running k) (w_reg k) (w_cur k).
Definition set_wcur (k : worker) (c : option nat) : worker := mkWorker (w_pc k) (w_slot k) (w_running k) (w_reg k) c.

Definition set_ring (s : state) (r : list item) : state :=
  mkState (s_inline s) (s_cap s) (s_intr s) r (s_tasks s) (s_workers s) (s_dpc s) (s_dn s) (g_badcopy s) (g_uaf s) (g_badcount s) (g_ringuaf s).
Definition set_tasks (s : state) (l : list task) : state :=
  mkState (s_inline s) (s_cap s) (s_intr s) (s_ring s) l (s_workers s) (s_dpc s) (s_dn s) (g_badcopy s) (g_uaf s) (g_badcount s) (g_ringuaf s).
Definition set_workers (s : state) (l : list worker) : state :=
  mkState (s_inline s) (s_cap s) (s_intr s) (s_ring s) (s_tasks s) l (s_dpc s) (s_dn s) (g_badcopy s) (g_uaf s) (g_badcount s) (g_ringuaf s).
Definition set_dpc (s : state) (d : dpc) : state :=
  mkState (s_inline s) (s_cap s) (s_intr s) (s_ring s) (s_tasks s) (s_workers s) d (s_dn s) (g_badcopy s) (g_uaf s) (g_badcount s) (g_ringuaf s).
Definition set_dn (s : state) (n : nat) : state :=
  mkState (s_inline s) (s_cap s) (s_intr s) (s_ring s) (s_tasks s) (s_workers s) (s_dpc s) n (g_badcopy s) (g_uaf s) (g_badcount s) (g_ringuaf s).
Definition or_badcopy (s : state) (b : bool) : state :=
  mkState (s_inline s) (s_cap s) (s_intr s) (s_ring s) (s_tasks s) (s_workers s) (s_dpc s) (s_dn s) (g_badcopy s || b) (g_uaf s) (g_badcount s) (g_ringuaf s).
Definition or_uaf (s : state) (b : bool) : state :=
  mkState (s_inline s) (s_cap s) (s_intr s) (s_ring s) (s_tasks s) (s_workers s) (s_dpc s) (s_dn s) (g_badcopy s) (g_uaf s || b) (g_badcount s) (g_ringuaf s).
Definition or_badcount (s : state) (b : bool) : state :=
  mkState (s_inline s) (s_cap s) (s_intr s) (s_ring s) (s_tasks s) (s_workers s) (s_dpc s) (s_dn s) (g_badcopy s) (g_uaf s) (g_badcount s || b) (g_ringuaf s).
Definition or_ringuaf (s : state) (b : bool) : state :=
  mkState (s_inline s) (s_cap s) (s_intr s) (s_ring s) (s_tasks s) (s_workers s) (s_dpc s) (s_dn s) (g_badcopy s) (g_uaf s) (g_badcount s) (g_ringuaf s || b).

Definition gett (s : state) (i : nat) : option task := nth_error (s_tasks s) i.
Definition getw (s : state) (w : nat) : option worker := nth_error (s_workers s) w.
Definition modt (s : state) (i : nat) (f : task -> task) : state := set_tasks s (modn (s_tasks s) i f).
Definition modw (s : state) (w : nat) (f : worker -> worker) : state := set_workers s (modn (s_workers s) w f).

(* thread i may be given vCPU w: created-not-yet-run, or switched out inside the task body *)
Definition resumable (w : nat) (p : phase) : bool :=
  match p with PNew w' => Nat.eqb w' w | PBody w' _ => Nat.eqb w' w | _ => false end.
Definition tgt_ok (s : state) (w : nat) (tgt : option nat) : bool :=
  match tgt with
  | None => true
  | Some j => match gett s j with Some t => resumable w (t_phase t) | None => false end
  end.
(* the owner of vCPU w is at a switching point *)
Definition at_switch (s : state) (w : nat) (k : worker) : bool :=
  match w_cur k with
  | None => match w_pc k with WLoop | WDrain | WInline _ => true | _ => false end
  | Some i => match gett s i with
              | Some t => match t_phase t with PBody w' _ => Nat.eqb w' w | _ => false end
              | None => false
              end
  end.
Definition is_dstop (p : wpc) : bool := match p with WGot IStop | WDrain | WExit => true | _ => false end.
Definition is_out (p : wpc) : bool := match p with WReg | WExit => true | _ => false end.

(* the dispatcher of w owns its vCPU and is at pc p *)
Definition disp_at (s : state) (w : nat) : option worker :=
  match getw s w with
  | Some k => match w_cur k with None => Some k | Some _ => None end
  | None => None
  end.
(* thread i owns vCPU w *)
Definition owns (s : state) (w i : nat) : bool :=
  match getw s w with
  | Some k => match w_cur k with Some j => Nat.eqb j i | None => false end
  | None => false
  end.

Definition step (s : state) (l : label) : option state :=
  match l with
  | LSubmit c =>                       (* enqueue: the push that succeeds (cpp 74-83; send backs off while full) *)
      match s_dpc s with
      | DIdle =>
          if Nat.ltb (length (s_ring s)) (s_cap s)
          then Some (set_ring (set_tasks s (s_tasks s ++ [mkTask c PRing 0 0 0 false false]))
                              (s_ring s ++ [ITask (length (s_tasks s))]))
          else None
      | _ => None
      end
  | LReturn i =>                       (* cpp 95: aop.suspend() returns 0 after the signal *)
      match gett s i with
      | Some t => if t_call t && t_sig t && negb (t_ret t) then Some (modt s i set_ret) else None
      | None => None
      end
  | LIntr i =>                         (* the caller blocked in call() is interrupted with ESHUTDOWN / ETIMEDOUT: semaphore::wait
                                          gives up (thread.h 520-526).  Fixed code (cpp 92-95 `while (aop.suspend() != 0) {}`): the
                                          caller waits again, nothing changes.  Pre-fix code (`s_intr`): call() returned *)
      match gett s i with
      | Some t => if t_call t && negb (t_ret t) then Some (if s_intr s then modt s i set_ret else s) else None
      | None => None
      end
  | LRegister w =>                     (* cpp 123 add_vcpu of join_current_vcpu_into_workpool *)
      match disp_at s w, s_dpc s with
      | Some k, DIdle =>
          match w_pc k with
          | WReg => Some (modw s w (fun k => mkWorker WLoop (w_slot k) (w_running k) true (w_cur k)))
          | _ => None
          end
      | _, _ => None
      end
  | LRecv w =>                         (* cpp 132: recv returns the head of the ring *)
      match disp_at s w, s_ring s with
      | Some k, x :: r =>
          match w_pc k with
          | WLoop =>
              let s1 := or_ringuaf (set_ring s r) (match s_dpc s with DDone => true | _ => false end) in
              let s2 := modw s1 w (fun k => set_wpc k (WGot x)) in
              Some (match x with ITask i => modt s2 i (fun t => set_phase t (PGot w)) | IStop => s2 end)
          | _ => None
          end
      | _, _ => None
      end
  | LDispatch w =>                     (* cpp 134-140 (+ 152 for mode < 0: the call itself) *)
      match disp_at s w with
      | Some k =>
          match w_pc k with
          | WGot (ITask i) =>
              match gett s i with
              | Some _ =>
                  let s1 := modt s i (fun t => set_phase t (PNew w)) in
                  Some (modw s1 w (fun k =>
                          if s_inline s
                          then mkWorker (WInline i) (Some i) (S (w_running k)) (w_reg k) (Some i)
                          else mkWorker (WCreated i) (Some i) (S (w_running k)) (w_reg k) None))
              | None => None
              end
          | _ => None
          end
      | None => None
      end
  | LYieldTo w =>                      (* cpp 143 thread_yield_to(th): th runs next *)
      match disp_at s w with
      | Some k =>
          match w_pc k with
          | WCreated i => Some (modw s w (fun k => mkWorker WLoop (w_slot k) (w_running k) (w_reg k) (Some i)))
          | _ => None
          end
      | None => None
      end
  | LStop w =>                         (* cpp 133 `if (!task) break` *)
      match disp_at s w with
      | Some k => match w_pc k with WGot IStop => Some (modw s w (fun k => set_wpc k WDrain)) | _ => None end
      | None => None
      end
  | LDrained w =>                      (* cpp 146-148 + DEFERs 128, 124: running_tasks == 0, remove_vcpu, return *)
      match disp_at s w with
      | Some k =>
          match w_pc k with
          | WDrain => if Nat.eqb (w_running k) 0
                      then Some (modw s w (fun k => mkWorker WExit (w_slot k) (w_running k) false (w_cur k)))
                      else None
          | _ => None
          end
      | None => None
      end
  | LYield w tgt =>                    (* a switching point other than yield_to *)
      match getw s w with
      | Some k => if at_switch s w k && tgt_ok s w tgt then Some (modw s w (fun k => set_wcur k tgt)) else None
      | None => None
      end
  | LCopy i =>                         (* cpp 152 *)
      match gett s i with
      | Some t =>
          match t_phase t with
          | PNew w =>
              if owns s w i then
                match getw s w with
                | Some k =>
                    match w_slot k with
                    | Some r => Some (or_badcopy (modt s i (fun t => set_phase t (PCopied w r))) (negb (Nat.eqb r i)))
                    | None => Some (or_badcopy (modt s i (fun t => set_phase t (PCopied w i))) true)
                    end
                | None => None
                end
              else None
          | _ => None
          end
      | None => None
      end
  | LStart i =>                        (* cpp 153 tasklb.task(): for call() this reads the lambda in the caller's frame (87-90) *)
      match gett s i with
      | Some t =>
          match t_phase t with
          | PCopied w r =>
              if owns s w i then
                match gett s r with
                | Some tr =>
                    let s1 := or_uaf (modt s r inc_runs) (t_call tr && t_ret tr) in
                    Some (modt s1 i (fun t => set_phase t (PBody w r)))
                | None => None
                end
              else None
          | _ => None
          end
      | None => None
      end
  | LFinish i =>                       (* the user's callable returns *)
      match gett s i with
      | Some t =>
          match t_phase t with
          | PBody w r => if owns s w i
                         then Some (modt (modt s r inc_fin) i (fun t => set_phase t (PFin w r)))
                         else None
          | _ => None
          end
      | None => None
      end
  | LSignal i =>                       (* cpp 89 aop.resume(): the semaphore lives in the caller's frame *)
      match gett s i with
      | Some t =>
          match t_phase t with
          | PFin w r =>
              if owns s w i then
                match gett s r with
                | Some tr => if t_call tr
                             then Some (modt (or_uaf (modt s r set_sig) (t_ret tr)) i (fun t => set_phase t (PPost w r)))
                             else None
                | None => None
                end
              else None
          | _ => None
          end
      | None => None
      end
  | LDelete i =>                       (* workerpool.h 126 delete t *)
      match gett s i with
      | Some t =>
          match t_phase t with
          | PFin w r =>
              if owns s w i then
                match gett s r with
                | Some tr => if t_call tr then None
                             else Some (modt (modt s r inc_del) i (fun t => set_phase t (PPost w r)))
                | None => None
                end
              else None
          | _ => None
          end
      | None => None
      end
  | LDec i tgt =>                      (* cpp 154-155: *count -= 1; return (thread exit / back in main_loop) *)
      match gett s i with
      | Some t =>
          match t_phase t with
          | PPost w r =>
              if owns s w i then
                match getw s w with
                | Some k =>
                    if (if s_inline s then (match tgt with None => true | Some _ => false end) else tgt_ok s w tgt) then
                      let bad := is_out (w_pc k) || Nat.eqb (w_running k) 0 in
                      let s1 := or_badcount (modt s i (fun t => set_phase t PDone)) bad in
                      Some (modw s1 w (fun k => mkWorker (if s_inline s then WLoop else w_pc k) (w_slot k)
                                                         (Nat.pred (w_running k)) (w_reg k) tgt))
                    else None
                | None => None
                end
              else None
          | _ => None
          end
      | None => None
      end
  | LDBegin =>                         (* cpp 63: num = vcpus.size() *)
      match s_dpc s with
      | DIdle => let n := length (filter w_reg (s_workers s)) in Some (set_dn (set_dpc s (DPush n)) n)
      | _ => None
      end
  | LDPush =>                          (* cpp 63: enqueue({}) *)
      match s_dpc s with
      | DPush (S n) => if Nat.ltb (length (s_ring s)) (s_cap s)
                       then Some (set_dpc (set_ring s (s_ring s ++ [IStop])) (DPush n)) else None
      | _ => None
      end
  | LDFinal =>                         (* cpp 64-71: owned threads joined, vcpus empty: destroy the ring *)
      match s_dpc s with
      | DPush O => if forallb (fun k => negb (w_reg k)) (s_workers s) then Some (set_dpc s DDone) else None
      | _ => None
      end
  end.

Fixpoint run (s : state) (ls : list label) : option state :=
  match ls with
  | [] => Some s
  | l :: r => match step s l with Some s' => run s' r | None => None end
  end.

(* the constructor has returned: `nowned` vCPUs are registered and at recv (cpp 48-60: the ctor waits
   for ready_vcpu), `njoin` further vCPUs may join later *)
Definition worker0 (owned : bool) : worker :=
  mkWorker (if owned then WLoop else WReg) None 0 owned None.
Definition init (inline : bool) (cap nowned njoin : nat) (intr : bool) : state :=
  mkState inline cap intr [] [] (repeat (worker0 true) nowned ++ repeat (worker0 false) njoin)
          DIdle 0 false false false false.

(* a compact observation of a state for the runner: per task (runs, fin, del, sig, ret) + flags *)
Definition obs_task (t : task) : nat * nat * nat * bool * bool := (t_runs t, t_fin t, t_del t, t_sig t, t_ret t).
Definition obs (s : state) := (map obs_task (s_tasks s), (g_badcopy s, g_uaf s, g_badcount s, g_ringuaf s),
                               match s_dpc s with DDone => true | _ => false end).
