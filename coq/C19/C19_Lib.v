(* C19_Lib.v — list/update lemmas and the counting functions used by the invariants of C19. *)
From Coq Require Import ZArith List Bool Arith Lia.
From PV Require Import Base.U64 C19.C19_Model.
Import ListNotations.

Lemma upd_length {A} (l : list A) n x : length (upd l n x) = length l.
Proof. revert n; induction l; destruct n; simpl; auto. Qed.

Lemma nth_upd_same {A} (l : list A) n x y : nth_error l n = Some y -> nth_error (upd l n x) n = Some x.
Proof. revert n; induction l; destruct n; simpl; intros; try discriminate; auto. Qed.

Lemma nth_upd_neq {A} (l : list A) n m x : n <> m -> nth_error (upd l n x) m = nth_error l m.
Proof. revert n m; induction l; destruct n, m; simpl; intros; auto; try congruence. Qed.

Lemma nth_upd {A} (l : list A) n m x y : nth_error l n = Some y ->
  nth_error (upd l n x) m = if Nat.eqb n m then Some x else nth_error l m.
Proof.
  intros H. destruct (Nat.eqb_spec n m).
  - subst. eapply nth_upd_same; eauto.
  - apply nth_upd_neq; auto.
Qed.

Lemma nth_upd_none {A} (l : list A) n x : nth_error l n = None -> upd l n x = l.
Proof. revert n; induction l; destruct n; simpl; intros; try discriminate; auto. f_equal; auto. Qed.

Lemma nth_app_l {A} (l : list A) x i : (i < length l)%nat -> nth_error (l ++ [x]) i = nth_error l i.
Proof. intros. apply nth_error_app1; auto. Qed.
Lemma nth_app_new {A} (l : list A) x : nth_error (l ++ [x]) (length l) = Some x.
Proof. rewrite nth_error_app2 by lia. rewrite Nat.sub_diag. reflexivity. Qed.
Lemma nth_app_some {A} (l : list A) x i y : nth_error l i = Some y -> nth_error (l ++ [x]) i = Some y.
Proof. intros H. rewrite nth_app_l; auto. apply nth_error_Some. congruence. Qed.
Lemma nth_app_inv {A} (l : list A) x i y : nth_error (l ++ [x]) i = Some y ->
  (nth_error l i = Some y /\ (i < length l)%nat) \/ (i = length l /\ y = x).
Proof.
  intros H. destruct (Nat.lt_ge_cases i (length l)).
  - rewrite nth_app_l in H; auto.
  - right. assert (Hi : (i < length (l ++ [x]))%nat) by (apply nth_error_Some; congruence).
    rewrite app_length in Hi; simpl in Hi. assert (i = length l) by lia. subst.
    rewrite nth_app_new in H. split; congruence.
Qed.

(* sums over the thread list *)
Definition sumf (f : thr -> nat) (l : list thr) : nat := fold_right (fun th a => (f th + a)%nat) O l.

Lemma sumf_upd f l t x old : nth_error l t = Some old -> (sumf f (upd l t x) + f old = sumf f l + f x)%nat.
Proof.
  revert t; induction l; destruct t; simpl; intros H; try discriminate.
  - inversion H; subst. lia.
  - specialize (IHl _ H). lia.
Qed.

Lemma sumf_ext f g l : (forall th, f th = g th) -> sumf f l = sumf g l.
Proof. intros H; induction l; simpl; [reflexivity|]. rewrite H, IHl; reflexivity. Qed.

Lemma sumf_zero f l : sumf f l = O -> forall t th, nth_error l t = Some th -> f th = O.
Proof.
  induction l; intros H t th Hn; destruct t; simpl in *; try discriminate.
  - inversion Hn; subst. lia.
  - eapply IHl; eauto. lia.
Qed.

Lemma sumf_ge f l t th : nth_error l t = Some th -> (f th <= sumf f l)%nat.
Proof.
  revert t; induction l; destruct t; simpl; intros H; try discriminate.
  - inversion H; subst; lia.
  - specialize (IHl _ H); lia.
Qed.

Lemma sumf_le f g l : (forall th, (f th <= g th)%nat) -> (sumf f l <= sumf g l)%nat.
Proof. intros H; induction l; simpl; auto. specialize (H a). lia. Qed.

Lemma sumf_two f l t1 t2 a b : t1 <> t2 -> nth_error l t1 = Some a -> nth_error l t2 = Some b -> (f a + f b <= sumf f l)%nat.
Proof.
  revert t1 t2; induction l; intros t1 t2 Hne H1 H2; destruct t1, t2; simpl in *; try discriminate; try congruence.
  - inversion H1; subst. pose proof (sumf_ge f l _ _ H2). lia.
  - inversion H2; subst. pose proof (sumf_ge f l _ _ H1). lia.
  - assert (t1 <> t2) by congruence. specialize (IHl _ _ H H1 H2). lia.
Qed.

(* remove_id / mem_id *)
Lemma in_remove_id x y l : In y (remove_id x l) <-> In y l /\ x <> y.
Proof.
  unfold remove_id. rewrite filter_In. destruct (Nat.eqb_spec x y); simpl; intuition congruence.
Qed.
Lemma nodup_remove_id x l : NoDup l -> NoDup (remove_id x l).
Proof. intros. unfold remove_id. apply NoDup_filter; auto. Qed.
Lemma mem_id_in x l : mem_id x l = true <-> In x l.
Proof.
  unfold mem_id. rewrite existsb_exists. split.
  - intros [y [Hy He]]. apply Nat.eqb_eq in He. subst; auto.
  - intros H. exists x. split; auto. apply Nat.eqb_refl.
Qed.

(* find_key / erase_key *)
Lemma find_key_some its set k i : find_key its set k = Some i ->
  In i set /\ exists it, nth_error its i = Some it /\ i_key it = k.
Proof.
  induction set as [|j r IH]; simpl; intros H; try discriminate.
  destruct (nth_error its j) eqn:E.
  - destruct (Nat.eqb_spec (i_key i0) k).
    + inversion H; subst. split; auto. eauto.
    + destruct (IH H) as [? ?]. split; auto.
  - destruct (IH H) as [? ?]. split; auto.
Qed.
Lemma find_key_none its set k : find_key its set k = None ->
  forall j jt, In j set -> nth_error its j = Some jt -> i_key jt <> k.
Proof.
  induction set as [|j r IH]; simpl; intros H j' jt Hin Hn; try contradiction.
  destruct (nth_error its j) eqn:E.
  - destruct (Nat.eqb_spec (i_key i) k); try discriminate.
    destruct Hin as [<-|Hin]; [congruence| eapply IH; eauto].
  - destruct Hin as [<-|Hin]; [congruence| eapply IH; eauto].
Qed.
Lemma in_erase_key its set k j : In j (erase_key its set k) <->
  In j set /\ (forall jt, nth_error its j = Some jt -> i_key jt <> k).
Proof.
  unfold erase_key. rewrite filter_In. destruct (nth_error its j) eqn:E.
  - destruct (Nat.eqb_spec (i_key i) k); simpl; split; intros [H1 H2]; split; auto; try discriminate.
    + exfalso. eapply H2; eauto.
    + intros jt Hj; inversion Hj; subst; auto.
  - split; intros [H1 H2]; split; auto. intros; discriminate.
Qed.
Lemma nodup_erase_key its set k : NoDup set -> NoDup (erase_key its set k).
Proof. intros. unfold erase_key. apply NoDup_filter; auto. Qed.

(* keys of items are all that find_key/erase_key/exp_split's erase look at *)
Definition same_keys (a b : list item) : Prop :=
  forall i, match nth_error a i, nth_error b i with
            | Some x, Some y => i_key x = i_key y
            | None, None => True
            | _, _ => False end.
Lemma find_key_same a b set k : same_keys a b -> find_key a set k = find_key b set k.
Proof.
  intros H; induction set as [|j r IH]; simpl; auto.
  specialize (H j). destruct (nth_error a j), (nth_error b j); try contradiction; rewrite ?H, ?IH; auto.
Qed.
Lemma erase_key_same a b set k : same_keys a b -> erase_key a set k = erase_key b set k.
Proof.
  intros H. unfold erase_key. apply filter_ext. intros j. specialize (H j).
  destruct (nth_error a j), (nth_error b j); try contradiction; rewrite ?H; auto.
Qed.

(* counting *)
Definition pc_holds (p : pc) (i : iid) : nat :=
  match p with
  | PAcqLock j _ _ _ _ | PAcqSlow j _ _ _ | PAcqSleepM j _ _ _ | PAcqCheck j _ _ _
  | PAcqCtor j _ _ | PAcqUnlock j | PAcqRead j | PRel1 j _ _ _
  | PExp (KAcq (Some j)) | PExpDel _ (KAcq (Some j)) => if Nat.eqb i j then 1%nat else O
  | _ => O
  end.
Definition pc_owns (p : pc) (i : iid) : nat :=
  match p with
  | PRelDelete j _ => if Nat.eqb i j then 1%nat else O
  | PExpDel zs _ => count_occ Nat.eq_dec zs i
  | _ => O
  end.
Definition pc_recycler (p : pc) (i : iid) : bool :=
  match p with
  | PRelSem j _ | PRelSemSleep j _ | PRelErase j _ => Nat.eqb i j
  | _ => false
  end.
Definition holds (th : thr) (i : iid) : nat := (handles_on th i + pc_holds (t_pc th) i)%nat.
Definition total_holds (s : state) (i : iid) : nat := sumf (fun th => holds th i) (s_thr s).
Definition total_owns (s : state) (i : iid) : nat := sumf (fun th => pc_owns (t_pc th) i) (s_thr s).
Definition refz (s : state) (i : iid) : Z :=
  match nth_error (s_items s) i with Some it => i_ref it | None => 0%Z end.

Lemma refs_on_sumf s i : refs_on s i = sumf (fun th => handles_on th i) (s_thr s).
Proof. reflexivity. Qed.
Lemma refs_on_le s i : (refs_on s i <= total_holds s i)%nat.
Proof. rewrite refs_on_sumf. apply sumf_le. intros; unfold holds; lia. Qed.

Definition hmatch (i : iid) (h : option iid * bool) : bool :=
  match h with (Some j, false) => Nat.eqb i j | _ => false end.
Lemma handles_on_eq th i : handles_on th i = length (filter (hmatch i) (t_h th)).
Proof. reflexivity. Qed.

Lemma handles_app hs r i : length (filter (hmatch i) (hs ++ [(r, false)])) =
  (length (filter (hmatch i) hs) + match r with Some j => if Nat.eqb i j then 1 else 0 | None => 0 end)%nat.
Proof.
  rewrite filter_app, app_length. f_equal. simpl. destruct r; simpl; auto. destruct (Nat.eqb i i0); auto.
Qed.
Lemma handles_upd_release hs h j i : nth_error hs h = Some (Some j, false) ->
  (length (filter (hmatch i) (upd hs h (Some j, true))) + (if Nat.eqb i j then 1 else 0) = length (filter (hmatch i) hs))%nat.
Proof.
  revert h; induction hs as [|a r IH]; destruct h; simpl; intros H; try discriminate.
  - inversion H; subst. simpl. destruct (Nat.eqb i j); simpl; lia.
  - specialize (IH _ H). destruct (hmatch i a); simpl; lia.
Qed.

Lemma nodup_snoc {A} (l : list A) x : NoDup l -> ~ In x l -> NoDup (l ++ [x]).
Proof.
  induction l; simpl; intros N H.
  - constructor; auto.
  - inversion N; subst. constructor.
    + intros Hin. apply in_app_or in Hin. destruct Hin as [?|[<-|[]]]; auto.
    + apply IHl; auto.
Qed.

Lemma nodup_app_inv {A} (a b : list A) : NoDup (a ++ b) -> NoDup a /\ NoDup b /\ forall x, In x a -> ~ In x b.
Proof.
  induction a; simpl; intros N.
  - repeat split; auto. constructor.
  - inversion N; subst. destruct (IHa H2) as [Na [Nb D]]. repeat split; auto.
    + constructor; auto. intros Hin. apply H1. apply in_or_app; auto.
    + intros x [<-|Hx] Hb. { apply H1. apply in_or_app; auto. } eapply D; eauto.
Qed.
